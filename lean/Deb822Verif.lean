import Deb822Verif.Model.Text
import Deb822Verif.Model.Pgp
import Deb822Verif.Lemmas.Text
