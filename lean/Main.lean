import Deb822Verif.Driver.Pgp
import Deb822Verif.Driver.Deb
import Deb822Verif.Driver.Rel
import Deb822Verif.Driver.Cpr
import Deb822Verif.Driver.Total
import Deb822Verif.Driver.Codec
import Deb822Verif.Driver.Sat
import Deb822Verif.Driver.RelWrap
import Deb822Verif.Driver.RelEdit
import Deb822Verif.Driver.Derive
import Deb822Verif.Driver.Typed
import Deb822Verif.Driver.TypedDoc
import Deb822Verif.Driver.RelLossyBuild
import Deb822Verif.Driver.Changes
open Deb822Verif

def dispatch (op : String) (args : List String) : String :=
  let r := (Driver.Pgp.handle op args) <|> (Driver.Deb.handle op args)
    <|> (Driver.Rel.handle op args)
    <|> (Driver.Cpr.handle op args)
    <|> (Driver.Total.handle op args)
    <|> (Driver.Codec.handle op args)
    <|> (Driver.Sat.handle op args)
    <|> (Driver.RelWrap.handle op args)
    <|> (Driver.RelEdit.handle op args)
    <|> (Driver.Derive.handle op args)
    <|> (Driver.Typed.handle op args)
    <|> (Driver.TypedDoc.handle op args)
    <|> (Driver.RelLossyBuild.handle op args)
    <|> (Driver.Changes.handle op args)
  match r with
  | some s => s
  | none => "bad-op"

partial def loop (h : IO.FS.Stream) (out : IO.FS.Stream) : IO Unit := do
  let line ← h.getLine
  if line.isEmpty then return ()
  let line := if line.endsWith "\n" then (line.dropEnd 1).toString else line
  match line.splitOn "\t" with
  | op :: args => out.putStrLn (dispatch op args)
  | [] => out.putStrLn "bad-op"
  loop h out

def main : IO Unit := do
  let i ← IO.getStdin
  let o ← IO.getStdout
  loop i o
