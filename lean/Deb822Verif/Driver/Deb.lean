import Deb822Verif.Driver.Proto
import Deb822Verif.Model.DebParse
import Deb822Verif.Model.DebAccess
import Deb822Verif.Spec.DocGrammar
namespace Deb822Verif.Driver.Deb
open Deb822Verif Proto Deb

mutual
partial def dump : DNode → String
  | .tok k t => s!"{kindName k}:{encStr t}"
  | .node k cs => s!"({kindName k}{dumpList cs})"
partial def dumpList : List DNode → String
  | [] => ""
  | n :: ns => " " ++ dump n ++ dumpList ns
end

def encItems (l : List (Str × Str)) : String :=
  ",".intercalate (l.map fun kv => s!"{encStr kv.1}:{encStr kv.2}")

def encDoc (d : List (List (Str × Str))) : String := ";".intercalate (d.map encItems)

def decLine (f : String) : Option Spec.Line :=
  match f.splitOn "." with
  | ["b"] => some .blank
  | ["c", t] => do pure (.comment (← decStr t))
  | ["f", k, w, v] => do pure (.field (← decStr k) (← decStr w) (← decStr v))
  | ["k", i, v] => do pure (.cont (← decStr i) (← decStr v))
  | ["r", t] => do pure (.raw (← decStr t))
  | _ => none

def decLines (f : String) : Option (List Spec.Line) :=
  if f.isEmpty then some [] else (f.splitOn ",").mapM decLine

def dedup (l : List Str) : List Str := l.foldl (fun acc x => if acc.contains x then acc else acc ++ [x]) []

/-- all lookups on one paragraph, for its own keys and one absent key -/
def lookups (p : DNode) : String :=
  let ks := dedup (keys p) ++ ["Zz".toList]
  "|".intercalate (ks.map fun k =>
    s!"{encOpt (get p k)}/{encList (getAll p k)}/{encBool (containsKey p k)}")

def viewDoc (s : Str) : String :=
  match readStrict s with
  | .error _ => "err"
  | .ok t =>
    let ps := paragraphs t
    let pfs := match ps with
      | [] => "none"
      | p :: _ => encItems (items p)
    s!"ok {encDoc (docItems t)} K[{";".intercalate (ps.map fun p => encList (keys p))}] L[{";".intercalate (ps.map lookups)}] pfs:{pfs}"

def handle (op : String) (args : List String) : Option String :=
  match op, args with
  | "deb.doc", [ls, fnl] => do
    let ls ← decLines ls
    let text := Spec.render ls (fnl == "1")
    pure s!"{encStr text} {viewDoc text}"
  | "deb.view", [t] => do
    let s ← decStr t
    pure (viewDoc s)
  | "deb.read", [t] => do
    let s ← decStr t
    let r := parse s
    let strict := match readStrict s with
      | .ok tr => s!"ok:{encStr tr.text}"
      | .error _ => "err"
    pure s!"{encStr r.tree.text} {r.errors.length} {strict} {dump r.tree}"
  | _, _ => none

end Deb822Verif.Driver.Deb
