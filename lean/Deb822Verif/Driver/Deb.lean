import Deb822Verif.Driver.Proto
import Deb822Verif.Model.DebParse
import Deb822Verif.Model.DebAccess
import Deb822Verif.Model.DebLossy
import Deb822Verif.Model.DebEdit
import Deb822Verif.Model.DebWrap
import Deb822Verif.Model.CtlWrap
import Deb822Verif.Props.C07Trigger
import Deb822Verif.Spec.DocGrammar
import Deb822Verif.Spec.DocSDec
import Deb822Verif.Spec.LossyCanon
import Deb822Verif.Props.C01More
import Deb822Verif.Props.C01Msgs
import Deb822Verif.Lemmas.DocLines
namespace Deb822Verif.Driver.Deb
open Deb822Verif Proto Deb

mutual
partial def dump : DNode → String
  | .tok k t => s!"{kindName k}:{encStr t}"
  | .node k cs => s!"({kindName k}{dumpList cs})"
partial def dumpList : List DNode → String
  | [] => ""
  | n :: ns => " " ++ dump n ++ dumpList ns
end

def encItems (l : List (Str × Str)) : String :=
  ",".intercalate (l.map fun kv => s!"{encStr kv.1}:{encStr kv.2}")

def encDoc (d : List (List (Str × Str))) : String := ";".intercalate (d.map encItems)

def decLine (f : String) : Option Spec.Line :=
  match f.splitOn "." with
  | ["b"] => some .blank
  | ["c", t] => do pure (.comment (← decStr t))
  | ["f", k, w, v] => do pure (.field (← decStr k) (← decStr w) (← decStr v))
  | ["k", i, v] => do pure (.cont (← decStr i) (← decStr v))
  | ["r", t] => do pure (.raw (← decStr t))
  | _ => none

def decLines (f : String) : Option (List Spec.Line) :=
  if f.isEmpty then some [] else (f.splitOn ",").mapM decLine

def dedup (l : List Str) : List Str := l.foldl (fun acc x => if acc.contains x then acc else acc ++ [x]) []

/-- ASCII letters with their case swapped -/
def swapCase (k : Str) : Str :=
  k.map fun c => if c.isUpper then c.toLower else if c.isLower then c.toUpper else c

/-- the names looked up on a paragraph: its own names, their case-swapped variants, one absent name
    (same list as harness/src/deb.rs `lookup_keys`) -/
def lookupKeys (ks : List Str) : List Str :=
  let own := dedup ks
  dedup (own ++ own.map swapCase ++ ["Zz".toList])

/-- all lookups on one paragraph, for its own keys, their case variants and one absent key -/
def lookups (p : DNode) : String :=
  let ks := lookupKeys (keys p)
  "|".intercalate (ks.map fun k =>
    s!"{encOpt (get p k)}/{encList (getAll p k)}/{encBool (containsKey p k)}")

def viewDoc (s : Str) : String :=
  match readStrict s with
  | .error _ => "err"
  | .ok t =>
    let ps := paragraphs t
    let pfs := match ps with
      | [] => "none"
      | p :: _ => encItems (items p)
    s!"ok {encDoc (docItems t)} K[{";".intercalate (ps.map fun p => encList (keys p))}] L[{";".intercalate (ps.map lookups)}] pfs:{pfs}"

/-! flat line list -> structured `DocS` (driver only; the theorems are about `DocS`) -/
open Spec in
def takeConts : List (Line × Bool) → List ContS × List (Line × Bool)
  | (.cont i v, nl) :: ls => let r := takeConts ls; (⟨i, v, nl⟩ :: r.1, r.2)
  | ls => ([], ls)

open Spec in
partial def takeItems : List (Line × Bool) → Option (List PItem × List (Line × Bool))
  | [] => some ([], [])
  | (.blank, nl) :: ls => some ([], (.blank, nl) :: ls)
  | (.comment t, nl) :: ls => do
    let r ← takeItems ls
    pure (.comment t nl :: r.1, r.2)
  | (.field k w v, nl) :: ls =>
    let c := takeConts ls
    do
      let r ← takeItems c.2
      pure (.entry ⟨k, w, v, nl, c.1⟩ :: r.1, r.2)
  | _ => none

open Spec in
def takeGaps : List (Line × Bool) → List Gap × List (Line × Bool)
  | (.blank, _) :: ls => let r := takeGaps ls; (Gap.blank :: r.1, r.2)
  | (.comment t, nl) :: ls => let r := takeGaps ls; (Gap.comment t nl :: r.1, r.2)
  | ls => ([], ls)

open Spec in
partial def takeParas : List (Line × Bool) → Option (List (ParaS × List Gap))
  | [] => some []
  | ls => do
    let r ← takeItems ls
    match r.1 with
    | .entry e :: is =>
      let g := takeGaps r.2
      let ps ← takeParas g.2
      pure ((⟨e, is⟩, g.1) :: ps)
    | _ => none

open Spec in
def buildDoc (ls : List Line) (fnl : Bool) : Option DocS :=
  -- an unterminated blank last line is no line at all
  let (ls, fnl) := match ls.getLast? with
    | some .blank => if fnl then (ls, fnl) else (ls.dropLast, true)
    | _ => (ls, fnl)
  let n := ls.length
  let flagged := (ls.zip (List.range n)).map fun li => (li.1, li.2 + 1 != n || fnl)
  let g := takeGaps flagged
  match takeParas g.2 with
  | some ps => some ⟨g.1, ps⟩
  | none => none

/-- is the line list a well-formed document in the sense of `Spec.DocS.WF` (the domain of the
    C03 theorems)? Also cross-checks the two specifications (flat and structured) on it. -/
def specVerdict (ls : List Spec.Line) (fnl : Bool) : String :=
  -- `Spec.docOfLines` is the total function of Lemmas/DocLines.lean (C03_lines_complete / _wf_iff);
  -- the `partial def buildDoc` above is kept for reference only
  match Spec.docOfLines ls fnl with
  | none => "wf=0"
  | some d =>
    if decide d.WF then
      if d.str == Spec.render ls fnl && d.content == Spec.content ls then "wf=1" else "wf=SPEC-MISMATCH"
    else "wf=0"

def lossyErrName : Lossy.Err → String
  | .UnexpectedToken => "UnexpectedToken"
  | .UnexpectedEof => "UnexpectedEof"
  | .ExpectedEof => "ExpectedEof"
  | .Unreachable => "PANIC"

def showLossy : Except Lossy.Err Lossy.Doc → String
  | .ok d => s!"ok {encDoc d}"
  | .error e => s!"err:{lossyErrName e}"

def decField (f : String) : Option (Str × Str) :=
  match f.splitOn ":" with
  | [k, v] => do pure (← decStr k, ← decStr v)
  | _ => none

def decPara (f : String) : Option (List (Str × Str)) :=
  if f.isEmpty then some [] else (f.splitOn ",").mapM decField

/-- documents: paragraphs joined by ';' ; "-" is the document without paragraphs -/
def decDoc (f : String) : Option (List (List (Str × Str))) :=
  if f == "-" then some [] else (f.splitOn ";").mapM decPara

def strictContent (s : Str) : String :=
  match readStrict s with
  | .error _ => "err"
  | .ok t => s!"ok {encDoc (docItems t)}"

/-- one step of a lossy-paragraph edit history -/
def lossyStep (p : Lossy.Para) (op : String) : Option (Lossy.Para × String) :=
  match op.splitOn "." with
  | ["g", k] => do let k ← decStr k; pure (p, encOpt (Lossy.pget p k))
  | ["s", k, v] => do let k ← decStr k; let v ← decStr v; pure (Lossy.pset p k v, "-")
  | ["i", k, v] => do let k ← decStr k; let v ← decStr v; pure (Lossy.pinsert p k v, "-")
  | ["r", k] => do let k ← decStr k; pure (Lossy.premove p k, "-")
  | _ => none

def lossyHist (p : Lossy.Para) : List String → Option (List String)
  | [] => some []
  | op :: ops => do
    let (p', out) ← lossyStep p op
    let rest ← lossyHist p' ops
    pure (s!"{out}={encItems p'}/{p'.length}" :: rest)

/-! edit histories on a lossless document (C04/C05) -/

/-- `str::cmp` (byte-wise on UTF-8 = code-point-wise) ≠ Greater -/
def strLe : Str → Str → Bool
  | [], _ => true
  | _ :: _, [] => false
  | a :: as, b :: bs => if a.toNat < b.toNat then true else if a.toNat > b.toNat then false else strLe as bs

def optLe : Option Str → Option Str → Bool
  | none, _ => true
  | some _, none => false
  | some a, some b => strLe a b

def startDoc (f : String) : Option Doc :=
  match f.splitOn "." with
  | ["t", t] => do
    let s ← decStr t
    let kids := (parse s).tree.children
    pure { kids := kids, handles := (paraPositions kids).map some }
  | ["w", t] => do
    let s ← decStr t
    let w ← deb822Wrap none none (parse s).tree
    let kids := w.children
    pure { kids := kids, handles := (paraPositions kids).map some }
  | ["ws", t] => do
    let s ← decStr t
    let w ← deb822Wrap (some fun a b => optLe (Deb.get a "Package".toList) (Deb.get b "Package".toList)) none (parse s).tree
    let kids := w.children
    pure { kids := kids, handles := (paraPositions kids).map some }
  | ["d", d] => do
    let d ← decDoc (d.replace "=" ":")
    let kids := docOfParas (d.map paraOfPairs)
    pure { kids := kids, handles := (paraPositions kids).map some }
  | "b" :: ts => do
    -- `Deb822::from_iter` of `Paragraph::from_str(t)`: the first paragraph of each text
    let ps ← ts.mapM fun t => do
      let s ← decStr t
      ((parse s).tree.children.filter isParaNode).head?
    let kids := docOfParas ps
    pure { kids := kids, handles := (paraPositions kids).map some }
  | _ => none

/-- `Paragraph::from_str` fails on one of the texts of a `b.` start -/
def startUnreadable (f : String) : Bool :=
  match f.splitOn "." with
  | "b" :: ts => ts.any fun t =>
    match decStr t with
    | none => false
    | some s => !(parse s).errors.isEmpty || ((parse s).tree.children.filter isParaNode).isEmpty
  | _ => false

def histStep (d : Doc) (op : String) : Option (Doc × String) :=
  -- an operation through the handle of a paragraph that was removed from the document is skipped
  let dead : Bool := match op.splitOn "." with
    | [o, h, _, _] => (o == "set" || o == "ins" || o == "ren") && (d.para (h.toNat?.getD 0)).isNone
    | ["rm", h, _] => (d.para (h.toNat?.getD 0)).isNone
    | _ => false
  if dead then some (d, "~") else
  match op.splitOn "." with
  | ["set", h, k, v] => do
    let h ← h.toNat?; let k ← decStr k; let v ← decStr v
    pure (d.onPara h (fun cs => paraSet cs k v), "-")
  | ["ins", h, k, v] => do
    let h ← h.toNat?; let k ← decStr k; let v ← decStr v
    pure (d.onPara h (fun cs => paraInsert cs k v), "-")
  | ["rm", h, k] => do
    let h ← h.toNat?; let k ← decStr k
    pure (d.onPara h (fun cs => paraRemove cs k), "-")
  | ["ren", h, k, k2] => do
    let h ← h.toNat?; let k ← decStr k; let k2 ← decStr k2
    let found := match d.para h with
      | some (Node.node _ cs) => (paraRename cs k k2).2
      | _ => false
    pure (d.onPara h (fun cs => (paraRename cs k k2).1), encBool found)
  | ["addp"] => some (addParagraph d, "-")
  | ["insp", i] => do let i ← i.toNat?; pure (insertParagraph d i, "-")
  | ["rmp", i] => do let i ← i.toNat?; pure (removeParagraph d i, "-")
  | _ => none

def showHandles (d : Doc) : String :=
  ";".intercalate ((List.range d.handles.length).map fun h =>
    match d.para h with
    | some p => encItems (items p)
    | none => "~")

def histRun (d : Doc) : List String → Option (List String × Doc)
  | [] => some ([], d)
  | op :: ops => do
    let (d', ret) ← histStep d op
    let (rest, dEnd) ← histRun d' ops
    pure (s!"{ret}={encStr d'.root.text}|{showHandles d'}" :: rest, dEnd)

/-! wrap-and-sort (C07) -/

/-- the "one per line" formatter used for Uploaders: split on ',', trim, join with ",\n" -/
def fmtCommaLines (_k v : Str) : Str :=
  Text.join [',', '\n'] ((Text.splitOn ',' v).map Text.trim)

/-- a formatter that rewrites its value: items split on ',', trimmed, sorted (`String::cmp`), joined by ", " -/
def fmtSortItems (_k v : Str) : Str :=
  Text.join [',', ' '] (((Text.splitOn ',' v).map Text.trim).mergeSort strLe)

/-- formatters whose output lines after the first start with a blank: `join(",\n ")`, `join(",\n\t")` -/
def fmtCommaLinesSp (_k v : Str) : Str :=
  Text.join [',', '\n', ' '] ((Text.splitOn ',' v).map Text.trim)
def fmtCommaLinesTab (_k v : Str) : Str :=
  Text.join [',', '\n', '\t'] ((Text.splitOn ',' v).map Text.trim)

def decCfg (f : String) : Option (WrapCfg × String × String × String) :=
  match f.splitOn "/" with
  | [ind, imm, mx, ecmp, pcmp, fmt] => do
    let indentation ← if ind == "f" then some Indentation.fieldNameLength else (ind.toNat?).map Indentation.spaces
    let maxLen ← if mx == "n" then some none else (mx.toNat?).map some
    pure ({ indentation := indentation, immediateEmptyLine := imm == "1", maxLineLengthOneLiner := maxLen }, ecmp, pcmp, fmt)
  | _ => none

def wrapOnce (level : String) (cfg : WrapCfg) (ecmp pcmp fmt : String) (root : DNode) : Option DNode :=
  let f : Option (Str → Str → Str) := if fmt == "i" then some (fun _ v => v) else if fmt == "u" then some fmtCommaLines
    else if fmt == "s" then some fmtSortItems else if fmt == "j" then some fmtCommaLinesSp
    else if fmt == "t" then some fmtCommaLinesTab else none
  let ele : Option (DNode → DNode → Bool) :=
    if ecmp == "k" then some (fun a b => optLe (entryKey a) (entryKey b))
    else if ecmp == "v" then some (fun a b => strLe (entryValue a) (entryValue b)) else none
  let ple : Option (DNode → DNode → Bool) :=
    if pcmp == "p" then some (fun a b => optLe (Deb.get a "Package".toList) (Deb.get b "Package".toList))
    else if pcmp == "d" then some (fun a b => optLe (Deb.get a "Depends".toList) (Deb.get b "Depends".toList)) else none
  if fmt == "c" then
    -- the control-file wrappers (Model/CtlWrap): Control at document level, Source / Binary on one
    -- paragraph; comparators fixed by the wrapper
    match level with
    | "d" => Ctl.controlWrap cfg root
    | "p" => match paragraphs root with
      | p :: _ => (Ctl.paraWrap cfg p).map fun p' => Node.node .ROOT [p']
      | [] => some (Node.node .ROOT [])
    | _ => none
  else
  match level with
  | "d" => if fmt == "x" then deb822Wrap ple none root else deb822Wrap ple (some (paragraphWrap cfg ele f)) root
  | "p" => match paragraphs root with
    | p :: _ => (paragraphWrap cfg ele f p).map fun p' => Node.node .ROOT [p']
    | [] => some (Node.node .ROOT [])
  | "e" => match paragraphs root with
    | p :: _ => match entries p with
      | e :: _ => (entryWrap cfg f e).map fun e' => Node.node .ROOT [Node.node .PARAGRAPH [e']]
      | [] => some (Node.node .ROOT [])
    | [] => some (Node.node .ROOT [])
  | _ => none

/-- the formatter selected by the request, if any -/
def fmtOf (fmt : String) : Option (Str → Str → Str) :=
  if fmt == "i" then some (fun _ v => v) else if fmt == "u" then some fmtCommaLines
  else if fmt == "s" then some fmtSortItems else if fmt == "j" then some fmtCommaLinesSp
  else if fmt == "t" then some fmtCommaLinesTab else if fmt == "c" then some Ctl.formatField else none

/-- trigger of the open finding F-C07-10 (`Ctl.hashLine`): a formatter is active, it is called on some
    entry the request reformats, and a line after the first of its output starts with `#` -/
def wrapHashLine (level fmt : String) (root : DNode) : Bool :=
  match fmtOf fmt with
  | none => false
  | some f =>
    match level with
    | "d" => (paragraphs root).any (Ctl.paraHashLine f)
    | "p" => match paragraphs root with
      | p :: _ => Ctl.paraHashLine f p
      | [] => false
    | "e" => match paragraphs root with
      | p :: _ => match entries p with
        | e :: _ => Ctl.entryHashLine f e
        | [] => false
      | [] => false
    | _ => false

def showWrapped (r : Option DNode) : String :=
  match r with
  | none => "PANIC"
  | some t => s!"{encStr t.text} {encDoc (docItems t)} {dump t}"

def handle (op : String) (args : List String) : Option String :=
  match op, args with
  | "deb.wrap", [level, t, cfg] => do
    let s ← decStr t
    let (c, ecmp, pcmp, fmt) ← decCfg cfg
    let root := (parse s).tree
    -- F-C07-8: BIGNUM exactly when a sort of the control formatter may meet the panic of `Version::cmp`
    -- (`Props.C07More.ctlBig`; outside it the real formatter is the model's, `C07_formatField_exact`)
    if fmt == "c" && Props.C07More.ctlBig level root then pure "BIGNUM\t!F-C07-8" else
    let obs := match wrapOnce level c ecmp pcmp fmt root with
      | none => "PANIC"
      | some t1 => match wrapOnce level c ecmp pcmp fmt t1 with
        | none => "PANIC"
        | some t2 => s!"{showWrapped (some t1)} 2:{encStr t2.text}"
    pure (if wrapHashLine level fmt root then obs ++ "\t!F-C07-10" else obs)
  | "deb.hist", [start, ops] => do
    if startUnreadable start then pure "START-UNREADABLE" else
    let d ← startDoc start
    let (outs, dEnd) ← histRun d (if ops.isEmpty then [] else ops.splitOn ",")
    -- joined like the harness (`outs.join(" ")` with the start state as first element): an empty
    -- history prints ONE space between the start state and the dump
    pure (" ".intercalate (s!"{encStr d.root.text}|{showHandles d}" :: outs ++ [dump dEnd.root]))
  | "deb.lossy", [t] => do
    let s ← decStr t
    pure (showLossy (Lossy.read s))
  | "deb.lossypara", [t] => do
    let s ← decStr t
    pure (match Lossy.readPara s with
      | .ok p => s!"ok {encItems p}"
      | .error e => s!"err:{lossyErrName e}")
  | "deb.both", [t] => do
    let s ← decStr t
    pure s!"L:{showLossy (Lossy.read s)} S:{strictContent s}"
  | "deb.docl", [ls, fnl] => do
    let ls ← decLines ls
    let text := Spec.render ls (fnl == "1")
    pure s!"{encStr text} L:{showLossy (Lossy.read text)} S:{strictContent text}"
  | "deb.lprint", [d] => do
    let d ← decDoc d
    let text := Lossy.printDoc d
    pure s!"{encStr text} L:{showLossy (Lossy.read text)} S:{strictContent text} canon={encBool (Spec.canonDocB d)}"
  | "deb.lhist", [p, ops] => do
    let p ← decPara p
    let outs ← lossyHist p (if ops.isEmpty then [] else ops.splitOn ",")
    pure (" ".intercalate outs)
  | "deb.doc", [ls, fnl] => do
    let ls ← decLines ls
    let text := Spec.render ls (fnl == "1")
    pure s!"{encStr text} {viewDoc text} {specVerdict ls (fnl == "1")}"
  | "deb.view", [t] => do
    let s ← decStr t
    pure (viewDoc s)
  | "deb.readbytes", [t] => do
    -- Deb822::read_relaxed / read over raw bytes (model: Props/C01More readBytesRelaxed / readBytes)
    let bs ← match t.toList with
      | 'x' :: rest => Hex.decodeBytes rest
      | _ => none
    let b := ByteArray.mk bs.toArray
    let strict := match Props.C01.readBytes b with
      | .ok _ => "ok"
      | .error .io => "io"
      | .error (.parse _) => "err"
    match Props.C01.readBytesRelaxed b with
    | none => pure s!"io {strict}"
    | some (tr, errs) =>
      pure s!"ok {encStr tr.text} {errs.length} {strict} {encStr (Props.C01Msgs.msgText errs).toList} payload={Props.C01Msgs.payloadFlagBytes b}"
  | "deb.read", [t] => do
    let s ← decStr t
    let r := parse s
    let strict := match readStrict s with
      | .ok tr => s!"ok:{encStr tr.text}"
      | .error _ => "err"
    -- the messages (joined by a line feed) and whether the strict reader's payload is that list
    -- (`Props.C01Msgs.msgsObs` / `payloadFlag`: C01_msgs_payload, C01_msgs_observable)
    pure s!"{encStr r.tree.text} {r.errors.length} {strict} {dump r.tree} {encStr (Props.C01Msgs.msgsObs s).toList} payload={Props.C01Msgs.payloadFlag s}"
  | _, _ => none

end Deb822Verif.Driver.Deb
