import Deb822Verif.Driver.Proto
import Deb822Verif.Model.DebParse
namespace Deb822Verif.Driver.Deb
open Deb822Verif Proto Deb

mutual
partial def dump : DNode → String
  | .tok k t => s!"{kindName k}:{encStr t}"
  | .node k cs => s!"({kindName k}{dumpList cs})"
partial def dumpList : List DNode → String
  | [] => ""
  | n :: ns => " " ++ dump n ++ dumpList ns
end

def handle (op : String) (args : List String) : Option String :=
  match op, args with
  | "deb.read", [t] => do
    let s ← decStr t
    let r := parse s
    let strict := match readStrict s with
      | .ok tr => s!"ok:{encStr tr.text}"
      | .error _ => "err"
    pure s!"{encStr r.tree.text} {r.errors.length} {strict} {dump r.tree}"
  | _, _ => none

end Deb822Verif.Driver.Deb
