import Deb822Verif.Driver.Proto
import Deb822Verif.Model.RelWrap
import Deb822Verif.Model.RelEq
import Deb822Verif.Model.RelEdit
import Deb822Verif.Model.RelBuild
import Deb822Verif.Props.C13Pairs
/-! C13 driver: `rel.wrap <field text> <allow_substvar>` (see harness/src/reledit.rs). -/
namespace Deb822Verif.Driver.RelWrap
open Deb822Verif Proto Rel Rel.Wrap

mutual
partial def dump : RNode → String
  | .tok k t => s!"{kindName k}:{encStr t}"
  | .node k cs => s!"({kindName k}{dumpList cs})"
partial def dumpList : List RNode → String
  | [] => ""
  | n :: ns => " " ++ dump n ++ dumpList ns
end

def handle (op : String) (args : List String) : Option String :=
  match op, args with
  | "rel.wrap", [t, allow] => do
    let s ← decStr t
    let al := allow == "1"
    let p := parse s al
    if !p.errors.isEmpty then pure "NOT-WELL-FORMED"
    -- `Version::cmp` panics on a numeric component above i32::MAX: BIGNUM exactly when two distinct
    -- elements of a list that gets sorted cannot be compared (`Props.C13.sortMayPanic`; otherwise the
    -- real call is the model's, `C13_wrapO_pairs`)
    else if Props.C13.sortMayPanic p.tree == some true then pure "BIGNUM\t!F-C13-2"
    else
      match relationsWrap p.tree with
      | .panic _ => pure "PANIC"
      | .ok w1 =>
        let t1 := w1.text
        let t2 := match relationsWrap w1 with
          | .ok w2 => encStr w2.text
          | .panic _ => "PANIC"
        let p1 := parse t1 al
        let t3 :=
          if !p1.errors.isEmpty then "PANIC-OR-UNPARSABLE"
          else match relationsWrap p1.tree with
            | .ok w3 => encStr w3.text
            | .panic _ => "PANIC-OR-UNPARSABLE"
        pure s!"{encStr t1} {dump w1} | {t2} | {t3}"
  -- `rel.wrape <t> <allow> <k>`: the parsed field with `Entry::new()` inserted at entry index `k`
  | "rel.wrape", [t, allow, k] => do
    let s ← decStr t
    let al := allow == "1"
    let k ← k.toNat?
    let p := parse s al
    if !p.errors.isEmpty then pure "NOT-WELL-FORMED"
    else if Props.C13.sortMayPanic p.tree == some true || (accEntries p.tree).isNone then pure "OUTSIDE"
    else
      let fld : Rel.Edit.Field := ⟨p.tree.children, [], []⟩
      match relationsWrap (fld.insert k Rel.Build.entryNew).root with
      | .panic _ => pure "PANIC"
      | .ok w1 =>
        let t2 := match relationsWrap w1 with
          | .ok w2 => encStr w2.text
          | .panic _ => "PANIC"
        pure s!"{encStr w1.text} {dump w1} | {t2}"
  -- `rel.eqcmp <a> <b>`: `==` and `cmp` of two strictly read fields, at relation / entry / field
  -- level (Model/RelEq.lean; harness/src/reledit.rs)
  | "rel.eqcmp", [ta, tb] => do
    let sa ← decStr ta
    let sb ← decStr tb
    match readStrict sa, readStrict sb with
    | .ok a, .ok b =>
      let sb := fun (o : Option Bool) => match o with | some true => "1" | some false => "0" | none => "P"
      let so := fun (o : Option Ordering) => match o with
        | some .lt => "lt" | some .eq => "eq" | some .gt => "gt" | none => "P"
      let f := sb (Rel.Eq.relationsNodeEqO a b)
      let (r, e) := match entries a, entries b with
        | [ea], [eb] =>
          let e := s!"e={sb (Rel.Eq.entryNodeEqO ea eb)} ecmp={so (Rel.Eq.entryNodeCmpO (relations ea) (relations eb))}"
          match relations ea, relations eb with
          | [ra], [rb] => (s!"eq={sb (Rel.Eq.relNodeEqO ra rb)} cmp={so (Rel.Eq.relNodeCmpO ra rb)}", e)
          | _, _ => ("eq=- cmp=-", e)
        | _, _ => ("eq=- cmp=-", "e=- ecmp=-")
      pure s!"{r} {e} f={f}"
    | _, _ => pure "err"
  | _, _ => none

end Deb822Verif.Driver.RelWrap
