import Deb822Verif.Driver.Proto
import Deb822Verif.Model.DeriveCodecs
import Deb822Verif.Model.DeriveTree
import Deb822Verif.Gen.Structs
/-! Driver family `derive` (C16): the macro model of `Model/Derive.lean` over the generated struct
    table; leaf codecs from `DeriveCodecs.registry`, external ones answered from the request.
    Back-end: `lossy` requests run the list model (`lossyBackend`), `lossless` requests the TREE model
    (`treeBackend` = `Props/C16Lossless.losslessBackend`: `paraOfPairs`, `paraSet`, `paraRemove`,
    `Deb.get`; a textual prior is parsed by `paragraphFromStr`); every `ok` answer carries the printed
    text of the resulting paragraph (`Lossy.printPara` / the tree's text). -/
namespace Deb822Verif.Driver.Derive
open Deb822Verif Proto Derive

/-- `-` | `o<hex>` | `e<hex>` -/
def decExt (f : String) : Option (Option (Except Str Str)) :=
  match f.toList with
  | ['-'] => some none
  | 'o' :: h => (decStr (String.ofList ('x' :: h))).map fun s => some (.ok s)
  | 'e' :: h => (decStr (String.ofList ('x' :: h))).map fun s => some (.error s)
  | _ => none

def decExtList (f : String) : Option (List (Option (Except Str Str))) :=
  if f.isEmpty then some [] else (f.splitOn ",").mapM decExt

structure Entry where
  key : Str
  value : Str
  ext : Option (Except Str Str)

def mkEntries (ks vs : List Str) (es : List (Option (Except Str Str))) : Option (List Entry) :=
  if ks.length = vs.length ∧ (es.length = ks.length ∨ es = []) then
    some ((ks.zip vs).zipIdx.map fun (kv, i) => ⟨kv.1, kv.2, (es[i]?).getD none⟩)
  else none

def findStruct (id : String) : Option StructRow :=
  Gen.Structs.all.find? fun s => String.ofList s.name == id

/-- the field's codec; an external one reads the answer attached to the entry `get` returns -/
def specOf (entries : List Entry) (f : FieldRow) : Option (FieldSpec Val × Kind) :=
  match kindOf f with
  | none => none
  | some k =>
    let c := k.codec
    if k.isExternal then
      match entries.find? (·.key == f.key) with
      | some e =>
        match e.ext with
        | some r =>
          some (⟨f.key, f.optional, c.ser, fun _ => match r with | .ok s => .ok (.ext s) | .error m => .error m⟩, k)
        | none => none
      | none => some (⟨f.key, f.optional, c.ser, c.de⟩, k)
    else
      match entries.find? (·.key == f.key) with
      | some e => if e.ext.isSome then none else some (⟨f.key, f.optional, c.ser, c.de⟩, k)
      | none => some (⟨f.key, f.optional, c.ser, c.de⟩, k)

def showItems (l : List (Str × Str)) : String :=
  s!"[{encList (l.map (·.1))}] [{encList (l.map (·.2))}]"

/-- value tokens of `derive.value`: `none` | `s:x…` | `b:0/1` | `n:dec` | `l:x…,x…` | `k:Variant` | `x:x…` -/
def decVal (t : String) : Option (Option Val) :=
  if t == "none" then some none
  else match t.splitOn ":" with
    | ["s", r] => (decStr r).map fun s => some (.str s)
    | ["b", r] => some (some (.bool (r == "1")))
    | ["n", r] => r.toNat?.map fun n => some (.nat n)
    | ["l", r] => (decList r).map fun l => some (.list l)
    | ["k", r] => some (some (.kw r.toList))
    | ["x", r] => (decStr r).map fun s => some (.ext s)
    | _ => none

def handle (op : String) (args : List String) : Option String :=
  match op, args with
  | "derive.value", id :: backend :: toks => do
    let row ← findStruct id
    if toks.length ≠ row.fields.length then none
    else
      let x ← toks.mapM decVal
      match row.fields.mapM (specOf []) with
      | none => pure "bad-ext"
      | some sk =>
        let spec := sk.map (·.1)
        let verdict (r : Except Str (List (Option Val))) : String := match r with
          | .ok y => if y = x then "rt:same" else "rt:diff"
          | .error e => s!"rt:err {encStr e}"
        if backend == "lossless" then
          let q := toParagraph treeBackend spec x
          pure s!"ok {showItems (Deb.items q)} {verdict (fromParagraph treeBackend spec q)}"
        else if backend == "lossy" then
          let q := toParagraph lossyBackend spec x
          pure s!"ok {showItems q} {verdict (fromParagraph lossyBackend spec q)}"
        else none
  | "derive.from", [id, backend, ks, vs, es] => do
    let row ← findStruct id
    let entries ← mkEntries (← decList ks) (← decList vs) (← decExtList es)
    match row.fields.mapM (specOf entries) with
    | none => pure "bad-ext"
    | some sk =>
      let spec := sk.map (·.1)
      let items := entries.map fun e => (e.key, e.value)
      if backend == "lossless" then
        match fromParagraph treeBackend spec (treeBackend.ofList items) with
        | .ok x =>
          let q := toParagraph treeBackend spec x
          pure (s!"ok {showItems (Deb.items q)} {encStr q.text}")
        | .error e => pure s!"err {encStr e}"
      else if backend == "lossy" then
        match fromParagraph lossyBackend spec (lossyBackend.ofList items) with
        | .ok x =>
          let q := toParagraph lossyBackend spec x
          pure (s!"ok {showItems q} {encStr (Deb.Lossy.printPara q)}")
        | .error e => pure s!"err {encStr e}"
      else none
  | "derive.update", [id, backend, ks, vs, es, pks, pvs, pt] => do
    let row ← findStruct id
    let entries ← mkEntries (← decList ks) (← decList vs) (← decExtList es)
    let pks ← decList pks
    let pvs ← decList pvs
    if pks.length ≠ pvs.length then none
    else
      match row.fields.mapM (specOf entries) with
      | none => pure "bad-ext"
      | some sk =>
        let spec := sk.map (·.1)
        let items := entries.map fun e => (e.key, e.value)
        match fromFields (lookupFirst items) spec with
        | .error e => pure s!"src-err {encStr e}"
        | .ok x =>
          if backend == "lossless" then
            -- the prior paragraph: built from the pairs, or parsed from the text
            let prior : Option Deb.DNode :=
              if pt == "-" then some (treeBackend.ofList (pks.zip pvs))
              else match decStr pt with
                | none => none
                | some text =>
                  match Deb.paragraphFromStr text with
                  | .ok p => some p
                  | .error _ => if pks.isEmpty then some (.node .PARAGRAPH []) else none
            match prior with
            | none => pure "bad-prior"
            | some p =>
              if Deb.items p ≠ pks.zip pvs then pure "bad-prior"
              else
                let after := updateParagraph treeBackend spec x p
                pure (s!"ok {showItems (Deb.items after)} {encStr after.text}")
          else if backend == "lossy" then
            let after := updateParagraph lossyBackend spec x (pks.zip pvs)
            pure (s!"ok {showItems after} {encStr (Deb.Lossy.printPara after)}")
          else none
  | _, _ => none

end Deb822Verif.Driver.Derive
