import Deb822Verif.Driver.Proto
import Deb822Verif.Model.TypedDoc
import Deb822Verif.Gen.Structs
import Deb822Verif.Props.C20Blank
/-! Driver family `typed` (C20): `typed.<kind> <text> <E>`. -/
namespace Deb822Verif.Driver.TypedDoc
open Deb822Verif Proto Deb Derive Deb822Verif.TypedDoc

/-- answers of external leaf codecs: (key, text) ↦ result -/
abbrev Oracle := List ((Str × Str) × Except Str Str)

def decOracleItem (f : String) : Option ((Str × Str) × Except Str Str) :=
  match f.splitOn ":" with
  | [k, v, r] => do
    let k ← decStr k
    let v ← decStr v
    match r.toList with
    | 'o' :: h => (decStr (String.ofList ('x' :: h))).map fun s => ((k, v), .ok s)
    | 'e' :: h => (decStr (String.ofList ('x' :: h))).map fun s => ((k, v), .error s)
    | _ => none
  | _ => none

def decOracle (f : String) : Option Oracle :=
  if f.isEmpty then some [] else (f.splitOn ",").mapM decOracleItem

def askOracle (o : Oracle) (k t : Str) : Except Str Val :=
  match o.find? (fun e => e.1 == (k, t)) with
  | some e => (match e.2 with | .ok s => .ok (.ext s) | .error m => .error m)
  | none => .ok (.ext t)   -- a text the codec itself printed: canonical by assumption

def specFor (o : Oracle) (id : String) : Option Spec := do
  let row ← Gen.Structs.all.find? fun s => String.ofList s.name == id
  row.fields.mapM fun f => do
    let k ← kindOf f
    let c := k.codec
    pure (if k.isExternal then ⟨f.key, f.optional, c.ser, askOracle o f.key⟩
          else ⟨f.key, f.optional, c.ser, c.de⟩)

/-- the Lean model of an external codec, where there is one (`Derive.relationsCodec`,
    `Derive.versionCodec`; Props/C20Ext proves the per-field conditions for them) -/
def modelledExt (f : FieldRow) : Option LeafCodec :=
  if f.ty == c!"Relations" && f.ser.isEmpty && f.de.isEmpty then some relationsCodec
  else if f.ty == c!"debversion::Version" then some versionCodec
  else none

/-- same verdict, and the same canonical text when accepted (error texts are not compared) -/
def extAgree (real : Except Str Str) (model : Except Str Val) : Bool :=
  match real, model with
  | .ok s, .ok (.ext m) => s == m
  | .error _, .error _ => true
  | _, _ => false

/-- keys of the supplied answers that differ from the modelled codec of a field of one of the structs
    `ids` (must be empty: the answers come from the real `Relations` / `Version` code) -/
def extMismatch (o : Oracle) (ids : List String) : List Str :=
  let fields := (Gen.Structs.all.filter fun s => ids.contains (String.ofList s.name)).flatMap (·.fields)
  o.filterMap fun e =>
    if fields.any (fun f => f.key == e.1.1 && (match kindOf f with | some k => k.isExternal | none => false) &&
        (match modelledExt f with
         | some c => !(extAgree e.2 (c.de e.1.2))
         | none => false))
    then some e.1.1 else none

/-- `obs[\t!findings]` with a marker appended to the observables when a supplied answer disagrees with
    the modelled codec (the worker never prints it, so the line then differs) -/
def markMismatch (mm : List Str) (r : String) : String :=
  if mm.isEmpty then r
  else
    let mark := " ext-model-differs=" ++ ",".intercalate (mm.map encStr)
    match r.splitOn "\t" with
    | a :: rest => "\t".intercalate ((a ++ mark) :: rest)
    | [] => r ++ mark

structure KindInfo where
  kind : DocKind
  /-- struct ids in the order `docOf` lists the paragraphs: first, then the repeated ones -/
  ids : List String
  lossyReader : Bool

def kindFor (o : Oracle) (name : String) : Option KindInfo :=
  match name with
  | "control" => do
    pure ⟨.control (← specFor o "control.Source") (← specFor o "control.Binary"), ["control.Source", "control.Binary"], false⟩
  | "copyright" => do
    pure ⟨.copyright (← specFor o "debiancopyright.Header") (← specFor o "debiancopyright.FilesParagraph")
      (← specFor o "debiancopyright.LicenseParagraph"),
      ["debiancopyright.Header", "debiancopyright.FilesParagraph", "debiancopyright.LicenseParagraph"], false⟩
  | "release" => do pure ⟨.lossyPara (← specFor o "apt.Release"), ["apt.Release"], true⟩
  | "source" => do pure ⟨.lossyPara (← specFor o "apt.Source"), ["apt.Source"], true⟩
  | "package" => do pure ⟨.lossyPara (← specFor o "apt.Package"), ["apt.Package"], true⟩
  | "removal" => do pure ⟨.losslessPara (← specFor o "ftpmaster.Removal"), ["ftpmaster.Removal"], false⟩
  | "buildinfo" => do pure ⟨.losslessPara (← specFor o "buildinfo.Buildinfo"), ["buildinfo.Buildinfo"], false⟩
  | "dep3" => do pure ⟨.dep3 (← specFor o "dep3.PatchHeader"), ["dep3.PatchHeader"], false⟩
  | "repos" => do pure ⟨.repos (← specFor o "aptsources.Repository"), ["aptsources.Repository"], false⟩
  | _ => none

def showStruct (id : String) (items : Lossy.Para) : String :=
  s!"{id}:[{encList (items.map (·.1))}]:[{encList (items.map (·.2))}]"

/-- the structs of a value with their ids, in print order -/
def structsOf (ki : KindInfo) (v : TV) : List (String × Lossy.Para) :=
  let ds := docOf ki.kind v
  match ki.kind, v with
  | .control _ _, .control _ bins =>
    ds.zip ("control.Source" :: bins.map fun _ => "control.Binary") |>.map fun p => (p.2, p.1)
  | .copyright _ _ _, .copyright _ fs ls =>
    ds.zip ("debiancopyright.Header" :: (fs.map fun _ => "debiancopyright.FilesParagraph")
      ++ ls.map fun _ => "debiancopyright.LicenseParagraph") |>.map fun p => (p.2, p.1)
  | _, _ => ds.map fun d => (ki.ids.headD "", d)

def showTV (ki : KindInfo) (v : TV) : String :=
  match structsOf ki v with
  | [] => "empty"
  | l => ";".intercalate (l.map fun p => showStruct p.1 p.2)

def showErr : PErr → String
  | .reader => "err reader"
  | .msg m => s!"err {encStr m}"

/-! known findings (triggers) -/

/-- F-C20-4: a DEP-3 header without any known field prints as the empty text -/
def trigEmptyDep3 (ki : KindInfo) (v : TV) : Bool :=
  (structsOf ki v).any fun p => p.1 == "dep3.PatchHeader" && p.2.isEmpty

/-- F-C20-5: a copyright `Files` / `Files-Excluded` list with a later pattern starting with `#`
    (printed one pattern per line: ` #…` is a comment line) -/
def hashLine : Str := c!"\n#"
def hasInfix (pat : Str) : Str → Bool
  | [] => pat.isEmpty
  | c :: cs => pat.isPrefixOf (c :: cs) || hasInfix pat cs
def trigHashPattern (ki : KindInfo) (v : TV) : Bool :=
  (structsOf ki v).any fun p => (p.1 == "debiancopyright.Header" || p.1 == "debiancopyright.FilesParagraph") &&
    p.2.any fun f => (f.1 == c!"Files" || f.1 == c!"Files-Excluded") && hasInfix hashLine f.2

/-- F-C20-7: the printed `Vcs-Git` value of a source paragraph is not a fixed point of
    `ParsedVcs` print ∘ parse (a second ` [..]` group, or a ` [..]` group / ` -b ` left inside the URL or
    branch): the printed text then reads as a different value -/
def trigVcsUnstable (ki : KindInfo) (v : TV) : Bool :=
  (structsOf ki v).any fun p => p.1 == "control.Source" &&
    p.2.any fun f => f.1 == c!"Vcs-Git" && (Codec.ParsedVcs.parse f.2).print != f.2

/-- F-C20-8: a buildinfo `Environment` whose printed (sorted) form has a later line starting with `#`
    (a variable name that starts with `#` and does not sort first: a comment line for the reader) -/
def trigHashEnv (ki : KindInfo) (v : TV) : Bool :=
  (structsOf ki v).any fun p => p.1 == "buildinfo.Buildinfo" &&
    p.2.any fun f => f.1 == c!"Environment" && hasInfix hashLine f.2

/-- F-C20-10: the printed `Signed-By` value of an apt-sources repository is a key block whose first
    line starts with `#` (printed on a continuation line of its own: a comment line for the reader);
    the per-field predicate `signedHashField` is defined in `Props/C20Blank.lean`, its negation is the
    hypothesis `hSignedHash` of `C20Apt.C20_roundtrip_repos_shipped_keyblock` -/
def trigHashSigned (ki : KindInfo) (v : TV) : Bool :=
  (structsOf ki v).any fun p => p.1 == "aptsources.Repository" &&
    p.2.any Props.C20Blank.signedHashField

/-- F-C20-9 (lossy-reader kinds release / source / package): the trigger is defined once, in
    `Props/C20Blank.lean` (`trigBlankFirst`, a predicate on the request text: some field has an empty
    first value line followed by continuation lines) -/
def trigBlankFirstKind (ki : KindInfo) (s : Str) : Bool :=
  ki.lossyReader && Props.C20Blank.trigBlankFirst s

def handleCore (ki : KindInfo) (s : Str) : Option String := do
    let r1 := parse ki.kind s
    let blank := if trigBlankFirstKind ki s then ["F-C20-9"] else []
    let ll : String :=
      if ki.lossyReader then
        match ki.kind with
        | .lossyPara spec =>
          (match llPara s with
           | .error _ => "err"
           | .ok p =>
             match fromLL spec p, r1 with
             | .ok v, .ok v1 => if showTV ki (.single v) == showTV ki v1 then "same" else "diff"
             | .ok _, .error _ => "diff"
             | .error _, _ => "err")
        | _ => "-"
      else "-"
    match r1 with
    | .error e1 =>
      let sfx := if blank.isEmpty then "" else "\t!" ++ ",".intercalate blank
      pure (s!"p1={showErr e1} t1=- p2=- t2=- ll={ll}" ++ sfx)
    | .ok v1 =>
      let t1 := print ki.kind v1
      let p1 := showTV ki v1
      let trig := (if trigEmptyDep3 ki v1 then ["F-C20-4"] else [])
        ++ (if trigHashPattern ki v1 then ["F-C20-5"] else [])
        ++ (if trigVcsUnstable ki v1 then ["F-C20-7"] else [])
        ++ (if trigHashEnv ki v1 then ["F-C20-8"] else [])
        ++ blank
        ++ (if trigHashSigned ki v1 then ["F-C20-10"] else [])
      let sfx := if trig.isEmpty then "" else "\t!" ++ ",".intercalate trig
      match parse ki.kind t1 with
      | .error e2 => pure (s!"p1={p1} t1={encStr t1} p2={showErr e2} t2=- ll={ll}" ++ sfx)
      | .ok v2 =>
        let p2 := showTV ki v2
        let t2 := print ki.kind v2
        pure (s!"p1={p1} t1={encStr t1} p2={if p2 == p1 then "same" else p2} t2={if t2 == t1 then "same" else encStr t2} ll={ll}" ++ sfx)

def handle (op : String) (args : List String) : Option String :=
  match op.splitOn ".", args with
  | ["typed", name], [t, e] => do
    let s ← decStr t
    let o ← decOracle e
    let ki ← kindFor o name
    let r ← handleCore ki s
    pure (markMismatch (extMismatch o ki.ids) r)
  | _, _ => none

end Deb822Verif.Driver.TypedDoc
