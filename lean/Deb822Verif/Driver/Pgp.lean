import Deb822Verif.Driver.Proto
import Deb822Verif.Model.Pgp
namespace Deb822Verif.Driver.Pgp
open Deb822Verif Proto Text Pgp

def errName : Err → String
  | .MissingPgpSignature => "MissingPgpSignature"
  | .MissingPayload => "MissingPayload"
  | .TruncatedPgpSignature => "TruncatedPgpSignature"
  | .JunkAfterPgpSignature => "JunkAfterPgpSignature"

def showResult : Except Err (Str × Option Str) → String
  | .ok (p, sg) => s!"ok {encStr p} {encOpt sg}"
  | .error e => s!"err {errName e}"

/-- same line list as `Props.C19.wrap` (restated here to keep the driver free of proof imports;
    `Props/C19.lean` proves `Driver.Pgp.wrap = Props.C19.wrap` by `rfl`) -/
def wrap (hs ps sig : List Str) : List Str :=
  beginMsg :: (hs ++ [] :: (ps ++ beginSig :: (sig ++ [endSig])))

def handle (op : String) (args : List String) : Option String :=
  match op, args with
  | "pgp.strip", [t] => do
    let s ← decStr t
    pure (showResult (strip s))
  | "pgp.wrap", [hs, ps, sg, k, extra] => do
    let hs ← decList hs
    let ps ← decList ps
    let sg ← decList sg
    let extra ← decList extra
    let all := wrap hs ps sg
    let kept := match k.toNat? with | some n => all.take n | none => all
    let text := unlinesNL (kept ++ extra)
    pure (s!"{encStr text} {showResult (strip text)}")
  | _, _ => none

end Deb822Verif.Driver.Pgp
