import Deb822Verif.Driver.Proto
import Deb822Verif.Model.Pgp
namespace Deb822Verif.Driver.Pgp
open Deb822Verif Proto Text Pgp

def errName : Err → String
  | .MissingPgpSignature => "MissingPgpSignature"
  | .MissingPayload => "MissingPayload"
  | .TruncatedPgpSignature => "TruncatedPgpSignature"
  | .JunkAfterPgpSignature => "JunkAfterPgpSignature"

def showResult : Except Err (Str × Option Str) → String
  | .ok (p, sg) => s!"ok {encStr p} {encOpt sg}"
  | .error e => s!"err {errName e}"

/-- same line list as `Props.C19.wrap` (restated here to keep the driver free of proof imports;
    `Props/C19.lean` proves `Driver.Pgp.wrap = Props.C19.wrap` by `rfl`) -/
def wrap (hs ps sig : List Str) : List Str :=
  beginMsg :: (hs ++ [] :: (ps ++ beginSig :: (sig ++ [endSig])))

/-- line `i` (0-based) ends in CRLF under the rule `eol` ("lf" / "crlf" / "alt": odd lines) -/
def isCrlf (eol : String) (i : Nat) : Bool := eol == "crlf" || (eol == "alt" && i % 2 == 1)

/-- the text of the lines, each with the line end the rule gives it (same text as
    `Props.C19Crlf.renderMixed` of the lines paired with `isCrlf eol i`) -/
def renderEol (eol : String) : Nat → List Str → Str
  | _, [] => []
  | i, l :: r => l ++ (if isCrlf eol i then '\r' :: '\n' :: renderEol eol (i + 1) r else '\n' :: renderEol eol (i + 1) r)

def wrapOp (hs ps sg k extra eol : String) : Option String := do
  let hs ← decList hs
  let ps ← decList ps
  let sg ← decList sg
  let extra ← decList extra
  let all := wrap hs ps sg
  let kept := match k.toNat? with | some n => all.take n | none => all
  let text := renderEol eol 0 (kept ++ extra)
  pure (s!"{encStr text} {showResult (strip text)}")

def handle (op : String) (args : List String) : Option String :=
  match op, args with
  | "pgp.strip", [t] => do
    let s ← decStr t
    pure (showResult (strip s))
  | "pgp.wrap", [hs, ps, sg, k, extra] => wrapOp hs ps sg k extra "lf"
  | "pgp.wrap", [hs, ps, sg, k, extra, eol] =>
    if eol == "lf" || eol == "crlf" || eol == "alt" then wrapOp hs ps sg k extra eol else none
  | _, _ => none

end Deb822Verif.Driver.Pgp
