import Deb822Verif.Driver.Proto
import Deb822Verif.Model.RelSat
import Deb822Verif.Model.DebVersionRaw
import Deb822Verif.Spec.RelStrictBad
/-! C12 driver: `rel.sat`, `ver.cmp`, `ver.cmpraw`, `lk.forms`, `rel.strict` (see harness/src/sat.rs for the line format). -/
namespace Deb822Verif.Driver.Sat
open Deb822Verif Proto Rel RelSat

def encVersion (v : Version) : String :=
  let ep := match v.epoch with | some e => toString e | none => "none"
  s!"{ep}:{encStr v.upstream}:{encOpt v.revision}"

def decVC (s : String) : Option VC :=
  match s with
  | "ge" => some .GreaterThanEqual | "le" => some .LessThanEqual | "eq" => some .Equal
  | "gt" => some .GreaterThan | "lt" => some .LessThan | _ => none

def decOpt (s : String) : Option (Option Str) :=
  if s == "none" then some none else (decStr s).map some

/-- `<epoch|none>:x<upstream>:<x<revision>|none>` -/
def decVersion (s : String) : Option Version :=
  match s.splitOn ":" with
  | [e, u, r] => do
    let ep ← if e == "none" then some none else e.toNat?.map some
    let up ← decStr u
    let rv ← decOpt r
    pure ⟨ep, up, rv⟩
  | _ => none

/-- `x<name>` | `x<name>/<op>/<version>` -/
def decRelY (s : String) : Option RelY :=
  match s.splitOn "/" with
  | [n] => (decStr n).map fun n => ⟨n, none⟩
  | [n, op, v] => do
    let n ← decStr n
    let vc ← decVC op
    let ver ← decVersion v
    pure ⟨n, some (vc, ver)⟩
  | _ => none

/-- `err` (lossy parser refuses) | `-` (no entry) | entries `;`-joined, alternatives `|`-joined -/
def decFieldY (s : String) : Option (Option FieldY) :=
  if s == "err" then some none
  else if s == "-" then some (some [])
  else ((s.splitOn ";").mapM fun (e : String) => (e.splitOn "|").mapM decRelY).map some

/-- `-` | `x<pkg>=x<version text>` `,`-joined; versions through the modelled `Version::from_str` -/
def decAssign (s : String) : Option (List (Str × V)) :=
  if s == "-" then some []
  else (s.splitOn ",").mapM fun (b : String) =>
    match b.splitOn "=" with
    | [p, v] => do
      let p ← decStr p
      let vt ← decStr v
      let ver ← Version.parse vt
      pure (p, ver)
    | _ => none

def showB : Outcome Bool → String
  | .ok true => "1" | .ok false => "0" | .panic _ => "P"

/-- the panic comes from `Version::cmp` (finding F-C12-1), not from an accessor -/
def isCmpPanic {α} : Outcome α → Bool
  | .panic s => s.startsWith "debversion"
  | .ok _ => false

/-- the closure form: an independent way of reading the same assignment -/
def closureOf (a : List (Str × V)) : Str → Option V := fun n => a.lookup n

/-- the panic is the `parse::<i32>().unwrap()` of finding F-C12-1 (not a byte-index panic) -/
def isI32Panic {α} : Outcome α → Bool
  | .panic s => s.startsWith "debversion lib.rs:137"
  | .ok _ => false

def showLookup (o : Option V) : String := match o with | some v => encVersion v | none => "none"

/-- `rel.strict` (Props/C12Strict.lean): strict flag, accessor panics per alternative (`N` = `name()`,
    `V` = `version()`, `k` = none), the BAD classes `Rel.badOp` / `Rel.bigEpoch` per alternative (strict-accepted
    text only), and the lossless evaluator with nothing installed / everything installed at version `0` -/
def strictObs (s : Str) : String × Bool :=
  let p := parse s false
  let strict := p.errors.isEmpty
  let rels := (entries p.tree).map relations
  let accC := fun (r : RNode) => match name r with
    | none => "N"
    | some _ => match version r with | .error _ => "V" | .ok _ => "k"
  let clsC := fun (r : RNode) => match badOp r, bigEpoch r with
    | true, true => "b" | true, false => "o" | false, true => "e" | false, false => "."
  let join := fun (f : RNode → String) =>
    if rels.isEmpty then "-" else ";".intercalate (rels.map fun e => "|".intercalate (e.map f))
  let view := match viewL p.tree with | .ok _ => "k" | .panic _ => "P"
  let sNone := relationsSatLO DebVersion.compareO (fun _ => none) p.tree
  let sAll := relationsSatLO DebVersion.compareO (fun _ => Version.parse ['0']) p.tree
  (s!"strict={if strict then "ok" else "err"} view={view} acc={join accC} cls={if strict then join clsC else "-"} sat={showB sNone}{showB sAll}",
    isCmpPanic sNone || isCmpPanic sAll)

def handle (op : String) (args : List String) : Option String :=
  match op, args with
  | "ver.cmpraw", [a, b] => do
    -- values built literally: the byte-index twin of `Version::cmp`
    let v ← decVersion a
    let w ← decVersion b
    let r := DebVersion.compareB v w
    let c := match r with
      | .ok .lt => "lt" | .ok .eq => "eq" | .ok .gt => "gt" | .panic _ => "PANIC"
    pure (c ++ (if isI32Panic r then "\t!F-C12-1" else ""))
  | "lk.forms", [asg, n] => do
    let a ← decAssign asg
    let n ← decStr n
    let p := match a with | [b] => showLookup (Lookup.ofPair b n) | _ => "-"
    pure s!"m={showLookup (Lookup.ofMap a n)} c={showLookup (Lookup.ofFn (closureOf a) n)} p={p}"
  | "rel.strict", [t] => do
    let s ← decStr t
    let (obs, trig) := strictObs s
    pure (obs ++ (if trig then "\t!F-C12-1" else ""))
  | "ver.cmp", [a, b] => do
    let a ← decStr a
    let b ← decStr b
    let pa := Version.parse a
    let pb := Version.parse b
    let sh := fun (p : Option Version) => match p with | some v => encVersion v | none => "err"
    let (c, trig) := match pa, pb with
      | some v, some w =>
        match DebVersion.compareO v w with
        | .ok .lt => ("lt", false) | .ok .eq => ("eq", false) | .ok .gt => ("gt", false)
        | .panic _ => ("PANIC", true)
      | _, _ => ("-", false)
    pure (s!"{sh pa} {sh pb} {c}" ++ (if trig then "\t!F-C12-1" else ""))
  | "rel.sat", [t, y, asg] => do
    let s ← decStr t
    let fy ← decFieldY y
    let a ← decAssign asg
    let p := parse s false
    let strict := if p.errors.isEmpty then "ok" else "err"
    let lks : List (Option Lookup) :=
      [some (Lookup.ofMap a), some (Lookup.ofFn (closureOf a)),
       match a with | [b] => some (Lookup.ofPair b) | _ => none]
    let ls := lks.map fun lk => lk.map fun lk => relationsSatLO DebVersion.compareO lk p.tree
    let ys := lks.map fun lk => lk.map fun lk => fy.map fun f => relationsSatYO DebVersion.compareO lk f
    let shL := String.join (ls.map fun o => match o with | some r => showB r | none => "-")
    let shY := match fy with
      | none => "err"
      | some _ => String.join (ys.map fun o => match o with | some (some r) => showB r | _ => "-")
    let same := match fy with
      | none => "-"
      | some f => match viewL p.tree with
        | .panic _ => "P"
        | .ok g => encBool (g == f)
    let trig := ls.any (fun o => match o with | some r => isCmpPanic r | none => false) ||
                ys.any (fun o => match o with | some (some r) => isCmpPanic r | _ => false)
    pure (s!"strict={strict} L:{shL} Y:{shY} same={same}" ++ (if trig then "\t!F-C12-1" else ""))
  | "rel.saty", [spec, asg] => do
    let a ← decAssign asg
    let decAlt := fun (alt : String) => match alt.splitOn "/" with
      | [n] => (decStr n).map fun n => (⟨n, none⟩ : RelY)
      | [n, op, v] => do
        let n ← decStr n
        let vc ← decVC op
        let vt ← decStr v
        let ver ← Version.parse vt
        pure ⟨n, some (vc, ver)⟩
      | _ => none
    let f : FieldY ← if spec == "-" then some [] else
      (spec.splitOn ";").mapM fun (e : String) => if e == "~" then some [] else (e.splitOn "|").mapM decAlt
    let lks : List (Option Lookup) :=
      [some (Lookup.ofMap a), some (Lookup.ofFn (closureOf a)),
       match a with | [b] => some (Lookup.ofPair b) | _ => none]
    let ys := lks.map fun lk => lk.map fun lk => relationsSatYO DebVersion.compareO lk f
    let shY := String.join (ys.map fun o => match o with | some r => showB r | none => "-")
    let ye := showB (relationsSatYO DebVersion.compareO (Lookup.ofFn (closureOf a)) f)
    let trig := ys.any (fun o => match o with | some r => isCmpPanic r | none => false)
    pure (s!"Y:{shY}{ye}" ++ (if trig then "\t!F-C12-1" else ""))
  | "rel.satsv", [t, asg] => do
    let s ← decStr t
    let a ← decAssign asg
    let p := parse s true
    let lks : List (Option Lookup) :=
      [some (Lookup.ofMap a), some (Lookup.ofFn (closureOf a)),
       match a with | [b] => some (Lookup.ofPair b) | _ => none]
    let ls := lks.map fun lk => lk.map fun lk => relationsSatLO DebVersion.compareO lk p.tree
    let shL := String.join (ls.map fun o => match o with | some r => showB r | none => "-")
    -- `entries().all(|e| e.satisfied_by(..))`: the same function (relationsSatLO is that fold)
    let le := showB (relationsSatLO DebVersion.compareO (Lookup.ofFn (closureOf a)) p.tree)
    let trig := ls.any (fun o => match o with | some r => isCmpPanic r | none => false)
    pure (s!"errs={encBool p.errors.isEmpty} L:{shL}{le} nsv={(substvars p.tree).length}" ++ (if trig then "\t!F-C12-1" else ""))
  | _, _ => none

end Deb822Verif.Driver.Sat
