import Deb822Verif.Model.Text
/-! Line-protocol encoding shared by all driver families.
    strings: `x` ++ hex(utf8); options: `none` | value; lists: items joined by `,`;
    lists of lists: groups joined by `;`. -/
namespace Deb822Verif.Proto

def encStr (s : Str) : String := "x" ++ Hex.encodeBytes (String.ofList s).toUTF8.toList

def decStr (h : String) : Option Str :=
  match h.toList with
  | 'x' :: rest =>
    match Hex.decodeBytes rest with
    | some bs =>
      match String.fromUTF8? (ByteArray.mk bs.toArray) with
      | some s => some s.toList
      | none => none
    | none => none
  | _ => none

def encOpt (o : Option Str) : String := match o with | none => "none" | some s => encStr s

def encList (l : List Str) : String := ",".intercalate (l.map encStr)

/-- empty list is the empty field -/
def decList (f : String) : Option (List Str) :=
  if f.isEmpty then some [] else (f.splitOn ",").mapM decStr

def encBool (b : Bool) : String := if b then "1" else "0"

end Deb822Verif.Proto
