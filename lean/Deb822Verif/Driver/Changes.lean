import Deb822Verif.Driver.Proto
import Deb822Verif.Driver.Deb
import Deb822Verif.Model.Changes
/-! `chg.read` / `chg.pool`: the readers of `changes::Changes` and `get_pool_path`
    (harness/src/changes.rs calls the real code; this file answers from `Model/Changes.lean`). -/
namespace Deb822Verif.Driver.Changes
open Deb822Verif Proto Deb Changes

/-- `fmt=<format()> src=<source()> files=<none | number of files | PANIC>` -/
def getters (p : DNode) : String :=
  let fs := match files p with
    | .ok none => "none"
    | .ok (some l) => toString l.length
    | .panic _ => "PANIC"
  s!"fmt={encOpt (format p)} src={encOpt (source p)} files={fs}"

def showStrict (kids : List DNode) : Except ParseError DNode → String
  | .ok p =>
    -- the wrapped paragraph is the first PARAGRAPH child of the root
    match convertIndex kids 0 with
    | some i => s!"strict ok {i} {Driver.Deb.dump p} {getters p}"
    | none => "strict ok ? "
  | .error .io => "strict io"
  | .error (.deb822 _) => "strict err"
  | .error .noParagraphs => "strict NoParagraphs"
  | .error .multipleParagraphs => "strict MultipleParagraphs"

def showRelaxed : Option Relaxed → String
  | none => "relaxed io"
  | some r =>
    let idx := match r.doc.handles with
      | [some i] => toString i
      | _ => "?"
    let last := r.errors.getLast? == some multipleMsg
    s!"relaxed ok {idx} {r.errors.length} {encBool last} {Driver.Deb.dump r.doc.root} {getters r.para}"

def decBytes (t : String) : Option ByteArray :=
  match t.toList with
  | 'x' :: rest => (Hex.decodeBytes rest).map fun bs => ByteArray.mk bs.toArray
  | _ => none

/-- triggers of open findings: every panic of `get_pool_path` is filed under F-C15-11 (typed getters
    that `unwrap()` / slice instead of returning `None`) -/
def withTriggers (resp : String) (ts : List String) : String :=
  if ts.isEmpty then resp else resp ++ "\t!" ++ ",".intercalate ts

def handle (op : String) (args : List String) : Option String :=
  match op, args with
  | "chg.read", [t] => do
    let b ← decBytes t
    let kids := match decodeUtf8 b with
      | some s => (Deb.readRelaxed s).1.children
      | none => []
    pure s!"{showStrict kids (readBytes b)} | {showRelaxed (readBytesRelaxed b)}"
  | "chg.pool", [t] => do
    let s ← decStr t
    match Changes.read s with
    | .error _ => pure "bad-doc"
    | .ok p =>
      match files p with
      | .panic _ => pure (withTriggers "PANIC files" ["F-C15-11"])
      | .ok _ =>
        match poolPath p with
        | .ok none => pure "none"
        | .ok (some v) => pure s!"some {encStr v}"
        | .panic _ => pure (withTriggers "PANIC path" ["F-C15-11"])
  | _, _ => none

end Deb822Verif.Driver.Changes
