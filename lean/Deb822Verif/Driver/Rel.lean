import Deb822Verif.Driver.Proto
import Deb822Verif.Model.RelParse
import Deb822Verif.Model.RelAccess
import Deb822Verif.Model.RelLossy
import Deb822Verif.Spec.RelGrammar
import Deb822Verif.Spec.RelCanon
import Deb822Verif.Model.RelBuild
namespace Deb822Verif.Driver.Rel
open Deb822Verif Proto Rel

mutual
partial def dump : RNode → String
  | .tok k t => s!"{kindName k}:{encStr t}"
  | .node k cs => s!"({kindName k}{dumpList cs})"
partial def dumpList : List RNode → String
  | [] => ""
  | n :: ns => " " ++ dump n ++ dumpList ns
end

def encBP : BuildProfile → String
  | .Enabled s => "E" ++ encStr s
  | .Disabled s => "D" ++ encStr s

def encVersion (v : Version) : String :=
  let ep := match v.epoch with | some e => toString e | none => "none"
  s!"{ep}:{encStr v.upstream}:{encOpt v.revision}:{encStr v.display}"

/-- canonical view of one relation through the read accessors -/
def viewRel (r : RNode) : String :=
  let nm := match name r with | some n => encStr n | none => "PANIC"
  let ver := match version r with
    | .error _ => "PANIC"
    | .ok none => "none"
    | .ok (some (k, v)) => s!"{String.ofList k.display}:{encVersion v}"
  let arch := match architectures r with
    | none => "none"
    | some l => "[" ++ encList l ++ "]"
  let prof := "/".intercalate ((profiles r).map fun g => "<" ++ ",".intercalate (g.map encBP) ++ ">")
  s!"name={nm};aq={encOpt (archqual r)};ver={ver};arch={arch};prof={prof}"

def viewEntry (e : RNode) : String := "{" ++ "|".intercalate ((relations e).map viewRel) ++ "}"

def viewRoot (root : RNode) : String :=
  s!"subst=[{encList (substvars root)}] entries={(entries root).length}"
    ++ String.join ((entries root).map fun e => " " ++ viewEntry e)

/-! ### C10: structured fields -/
open RelSpec in
/-- a gap string -> pieces (newlines and maximal runs of anything else) -/
def gapOfStr : Str → Gap
  | [] => []
  | c :: cs =>
    if c = '\n' then .nl :: gapOfStr cs
    else match gapOfStr cs with
      | .ws s :: g => .ws (c :: s) :: g
      | g => .ws [c] :: g

open RelSpec in
def decGap (h : String) : Option Gap := do pure (gapOfStr (← decStr h))

def decOptStr (h : String) : Option (Option Str) :=
  if h == "none" then some none else do pure (some (← decStr h))

def decOp (h : String) : Option VC :=
  match h with
  | "ge" => some .GreaterThanEqual | "le" => some .LessThanEqual | "eq" => some .Equal
  | "gt" => some .GreaterThan | "lt" => some .LessThan | _ => none

open RelSpec in
def decItem (h : String) : Option Item :=
  match h.splitOn "." with
  | [g, n, nm] => do pure ⟨← decGap g, n == "1", ← decStr nm⟩
  | _ => none

open RelSpec in
def decBracket (h : String) : Option Bracket :=
  match h.splitOn "+" with
  | pre :: post :: items => do pure ⟨← decGap pre, ← items.mapM decItem, ← decGap post⟩
  | _ => none

open RelSpec in
def decVer (h : String) : Option (Option VerPart) :=
  if h == "none" then some none else
  match h.splitOn "," with
  | [pre, g2, op, g3, ep, body, g4] => do
    pure (some ⟨← decGap pre, ← decGap g2, ← decOp op, ← decGap g3, ⟨← decOptStr ep, ← decStr body⟩, ← decGap g4⟩)
  | _ => none

open RelSpec in
def decRel (h : String) : Option RelA :=
  match h.splitOn ":" with
  | [nm, aq, ver, archs, profs] => do
    let a ← if archs == "none" then some none else do pure (some (← decBracket archs))
    let ps ← if profs.isEmpty then some [] else (profs.splitOn "&").mapM decBracket
    pure ⟨← decStr nm, ← decOptStr aq, ← decVer ver, a, ps⟩
  | _ => none

open RelSpec in
def decAlt (h : String) : Option AltA :=
  match h.splitOn "~" with
  | [gb, ga, r] => do pure ⟨← decGap gb, ← decGap ga, ← decRel r⟩
  | _ => none

open RelSpec in
def decEntry (h : String) : Option EntryA :=
  match h.toList with
  | ['E'] => some .empty
  | 'S' :: rest =>
    match (String.ofList rest).splitOn "." with
    | p :: ps => do pure (.substvar (← decStr p) (← ps.mapM decStr))
    | [] => none
  | 'A' :: rest =>
    match (String.ofList rest).splitOn "|" with
    | a :: as => do
      let a ← decAlt a
      pure (.alts a.rel (← as.mapM decAlt))
    | [] => none
  | _ => none

open RelSpec in
def decSeg (h : String) : Option Seg :=
  match h.splitOn "/" with
  | [pre, e, post] => do pure ⟨← decGap pre, ← decEntry e, ← decGap post⟩
  | _ => none

open RelSpec in
def decField (h : String) : Option FieldA :=
  if h == "-" then some ⟨[]⟩ else do pure ⟨← (h.splitOn ";").mapM decSeg⟩

/-- `lossy::Relation` (or the written view) in the format of `viewRel` -/
def encLossyRel (r : Lossy.Relation) : String :=
  let ver := match r.version with
    | none => "none"
    | some (k, v) => s!"{String.ofList k.display}:{encVersion v}"
  let arch := match r.architectures with
    | none => "none"
    | some l => "[" ++ encList l ++ "]"
  let prof := "/".intercalate (r.profiles.map fun g => "<" ++ ",".intercalate (g.map encBP) ++ ">")
  s!"name={encStr r.name};aq={encOpt r.archqual};ver={ver};arch={arch};prof={prof}"

def encEntries (es : List (List Lossy.Relation)) : String :=
  String.join (es.map fun e => "{" ++ "|".intercalate (e.map encLossyRel) ++ "}")

/-- lossless reader + accessors on a text: `<#errors> E[<entries>] S[<substvars>]` -/
def losslessView (s : Str) (allow : Bool) : String :=
  let p := parse s allow
  s!"{p.errors.length} E[{String.join ((entries p.tree).map viewEntry)}] S[{encList (substvars p.tree)}]"

def lossyView (s : Str) : String :=
  match Lossy.readRelations s with
  | .ok es => s!"ok E[{encEntries es}]"
  | .error _ => "err"

/-- open findings of C10 whose trigger region contains the field: none at present (F-C10-2 … F-C10-7
    are fixed; their witnesses stay in corpus/C10/fixed.req, a regression is a plain violation) -/
def c10Triggers (_f : RelSpec.FieldA) : List String := []

/-- cross-check of the specification (Spec/RelGrammar) against the model on this field:
    lexer, tree, accessor view, lossy view -/
def specVerdict (f : RelSpec.FieldA) : String :=
  if !f.ok then "wf=0" else
  let bad :=
    (if lex f.str == f.toks then [] else ["lex"])
    ++ (if dump (parse f.str true).tree == dump f.tree && (parse f.str true).errors.isEmpty then [] else ["tree"])
    ++ (if accEntries (parse f.str true).tree == some f.view then [] else ["view"])
    ++ (if substvars (parse f.str true).tree == f.substvars then [] else ["subst"])
    ++ (if f.hasSubstvar || Lossy.readRelations f.str == .ok f.view then [] else ["lossy"])
  if bad.isEmpty then "wf=1" else "wf=SPEC-MISMATCH:" ++ ",".intercalate bad

/-! ### C14: lossy values -/

def decProfile (h : String) : Option BuildProfile :=
  match h.toList with
  | 'E' :: r => do pure (.Enabled (← decStr (String.ofList r)))
  | 'D' :: r => do pure (.Disabled (← decStr (String.ofList r)))
  | _ => none

def decGroup (h : String) : Option (List BuildProfile) :=
  match h.toList with
  | 'G' :: r => if r.isEmpty then some [] else ((String.ofList r).splitOn ",").mapM decProfile
  | _ => none

def decLossyRel (h : String) : Option Lossy.Relation :=
  match h.splitOn ":" with
  | [nm, aq, ver, archs, profs] => do
    let v ← if ver == "none" then some none else
      match ver.splitOn "." with
      | [op, t] => do
        let v ← Version.parse (← decStr t)
        pure (some (← decOp op, v))
      | _ => none
    let a ← if archs == "none" then some none else
      match archs.toList with
      | 'L' :: r => if r.isEmpty then some (some []) else do pure (some (← ((String.ofList r).splitOn ",").mapM decStr))
      | _ => none
    let ps ← if profs.isEmpty then some [] else (profs.splitOn "/").mapM decGroup
    pure ⟨← decStr nm, ← decOptStr aq, a, v, ps⟩
  | _ => none

def decLossyEntry (h : String) : Option (List Lossy.Relation) :=
  match h.toList with
  | '(' :: r =>
    match r.reverse with
    | ')' :: m => if m.isEmpty then some [] else ((String.ofList m.reverse).splitOn "|").mapM decLossyRel
    | _ => none
  | _ => none

def decLossyRels (h : String) : Option (List (List Lossy.Relation)) :=
  if h.isEmpty then some [] else (h.splitOn ";").mapM decLossyEntry

def showLossyRel (r : Except String Lossy.Relation) : String :=
  match r with
  | .ok r => "ok " ++ encLossyRel r
  | .error _ => "err"

/-- a tree: its text and dump -/
def showTree (t : RNode) : String := s!"ok {encStr t.text} {dump t}"

/-- the whole `rel.lrel` answer for one lossy value (also the tail of `lrel.build`, Driver/RelLossyBuild) -/
def lrelResp (r : Lossy.Relation) : String :=
  let printed := Lossy.showRelation r
  let ll := Build.toLossless r
  let bk := match Build.toLossy ll with | .ok x => "ok " ++ encLossyRel x | .panic _ => "PANIC"
  -- F-C14-3: an EMPTY architecture list (what both readers return for `a []`) does not survive the
  -- conversion to the lossless form (`set_architectures([])` is a no-op): `a []` becomes `a` / `None`
  let trig := if r.architectures == some [] then "\t!F-C14-3" else ""
  s!"P:{encStr printed} RT:{showLossyRel (Lossy.readRelation printed)} LL:{showTree ll} BK:{bk} LV:{losslessView printed false} valid={encBool (RelSpec.validRS r)}" ++ trig

def handle (op : String) (args : List String) : Option String :=
  match op, args with
  | "rel.read", [allow, t] => do
    let s ← decStr t
    let al := allow == "1"
    let r := parse s al
    let strict :=
      if al then "-"
      else match readStrict s with
        | .ok _ => "ok"
        | .error _ => "err"
    pure s!"{encStr r.tree.text} {r.errors.length} {strict} {dump r.tree}"
  | "rel.entry", [t] => do
    let s ← decStr t
    match readEntry s with
    | .ok e => pure s!"ok {encStr e.text} {dump e}"
    | .error _ => pure "err"
  | "rel.relation", [t] => do
    let s ← decStr t
    match readRelation s with
    | .ok r => pure s!"ok {encStr r.text} {dump r}"
    | .error _ => pure "err"
  | "rel.field", [h] => do
    let f ← decField h
    let text := f.str
    let trig := c10Triggers f
    let suffix := if trig.isEmpty || !f.ok then "" else "\t!" ++ ",".intercalate trig
    pure (s!"{encStr text} W[E[{encEntries f.view}] S[{encList f.substvars}]] T1:{losslessView text true} T0:{losslessView text false} L:{lossyView text} {specVerdict f}" ++ suffix)
  | "rel.lrel", [h] => do pure (lrelResp (← decLossyRel h))
  | "rel.lrels", [h] => do
    let rs ← decLossyRels h
    let printed := Lossy.showRelations rs
    let ents := rs.map Build.entryFromLossy
    let en := ";".intercalate (ents.map showTree)
    let eb := ";".intercalate (ents.map fun e => match Build.entryToLossy e with
      | .ok xs => "ok {" ++ "|".intercalate (xs.map encLossyRel) ++ "}"
      | .panic _ => "PANIC")
    let trig := if rs.any (fun e => e.any fun r => r.architectures == some []) then "\t!F-C14-3" else ""
    pure (s!"P:{encStr printed} RT:{lossyView printed} LV:{losslessView printed false} EN:{en} EB:{eb} RS:{showTree (Build.relationsFromEntries ents)} valid={encBool (RelSpec.validRSs rs)}" ++ trig)
  | "rel.mut", name :: ver :: ops => do
    let nm ← decStr name
    let v ← if ver == "none" then some none else
      match ver.splitOn "." with
      | [op, t] => do pure (some (← decOp op, ← Version.parse (← decStr t)))
      | _ => none
    let step (hd : RNode) (o : String) : Option RNode :=
      match o.splitOn "=" with
      | ["aq", a] => do pure (Build.setArchqual hd (← decStr a))
      | ["ver", "none"] => some (Build.setVersion hd none)
      | ["ver", x] =>
        match x.splitOn "." with
        | [op, t] => do pure (Build.setVersion hd (some (← decOp op, ← Version.parse (← decStr t))))
        | _ => none
      | ["drop", _] => some (Build.dropConstraint hd).1
      | ["arch", l] => do pure (Build.setArchitectures hd (← decList l))
      | ["prof", g] => do pure (Build.addProfile hd (← decGroup g))
      | _ => none
    let rec go (st : RNode) (os : List String) (acc : List String) : Option (List String) :=
      match os with
      | [] => some acc.reverse
      | o :: r => do
        let st' ← step st o
        go st' r (showTree st' :: acc)
    let outs ← go (Build.relationNew nm v) ops [showTree (Build.relationNew nm v)]
    pure (" ".intercalate outs)
  | "rel.lprint", [t] => do
    let s ← decStr t
    match Lossy.readRelations s with
    | .ok es => pure s!"ok {encStr (Lossy.showRelations es)}"
    | .error _ => pure "err"
  | "rel.lossy", [t] => do
    let s ← decStr t
    pure (lossyView s)
  | "rel.view", [allow, t] => do
    let s ← decStr t
    pure (viewRoot (parse s (allow == "1")).tree)
  | "rel.version", [t] => do
    let s ← decStr t
    match Version.parse s with
    | some v => pure s!"ok {encVersion v}"
    | none => pure "err"
  | _, _ => none

end Deb822Verif.Driver.Rel
