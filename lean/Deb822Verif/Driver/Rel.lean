import Deb822Verif.Driver.Proto
import Deb822Verif.Model.RelParse
import Deb822Verif.Model.RelAccess
namespace Deb822Verif.Driver.Rel
open Deb822Verif Proto Rel

mutual
partial def dump : RNode → String
  | .tok k t => s!"{kindName k}:{encStr t}"
  | .node k cs => s!"({kindName k}{dumpList cs})"
partial def dumpList : List RNode → String
  | [] => ""
  | n :: ns => " " ++ dump n ++ dumpList ns
end

def encBP : BuildProfile → String
  | .Enabled s => "E" ++ encStr s
  | .Disabled s => "D" ++ encStr s

def encVersion (v : Version) : String :=
  let ep := match v.epoch with | some e => toString e | none => "none"
  s!"{ep}:{encStr v.upstream}:{encOpt v.revision}:{encStr v.display}"

/-- canonical view of one relation through the read accessors -/
def viewRel (r : RNode) : String :=
  let nm := match name r with | some n => encStr n | none => "PANIC"
  let ver := match version r with
    | .error _ => "PANIC"
    | .ok none => "none"
    | .ok (some (k, v)) => s!"{String.ofList k.display}:{encVersion v}"
  let arch := match architectures r with
    | none => "none"
    | some l => "[" ++ encList l ++ "]"
  let prof := "/".intercalate ((profiles r).map fun g => "<" ++ ",".intercalate (g.map encBP) ++ ">")
  s!"name={nm};aq={encOpt (archqual r)};ver={ver};arch={arch};prof={prof}"

def viewEntry (e : RNode) : String := "{" ++ "|".intercalate ((relations e).map viewRel) ++ "}"

def viewRoot (root : RNode) : String :=
  s!"subst=[{encList (substvars root)}] entries={(entries root).length}"
    ++ String.join ((entries root).map fun e => " " ++ viewEntry e)

def handle (op : String) (args : List String) : Option String :=
  match op, args with
  | "rel.read", [allow, t] => do
    let s ← decStr t
    let al := allow == "1"
    let r := parse s al
    let strict :=
      if al then "-"
      else match readStrict s with
        | .ok _ => "ok"
        | .error _ => "err"
    pure s!"{encStr r.tree.text} {r.errors.length} {strict} {dump r.tree}"
  | "rel.entry", [t] => do
    let s ← decStr t
    match readEntry s with
    | .ok e => pure s!"ok {encStr e.text} {dump e}"
    | .error _ => pure "err"
  | "rel.relation", [t] => do
    let s ← decStr t
    match readRelation s with
    | .ok r => pure s!"ok {encStr r.text} {dump r}"
    | .error _ => pure "err"
  | "rel.view", [allow, t] => do
    let s ← decStr t
    pure (viewRoot (parse s (allow == "1")).tree)
  | "rel.version", [t] => do
    let s ← decStr t
    match Version.parse s with
    | some v => pure s!"ok {encVersion v}"
    | none => pure "err"
  | _, _ => none

end Deb822Verif.Driver.Rel
