import Deb822Verif.Driver.Rel
import Deb822Verif.Model.RelEdit
/-!
  Driver for C11: op `rel.hist <start field text> <allow_substvar> <ops>` — same request format and
  response observables as harness/src/reledit.rs (root text, tree dump, text through every handle
  taken before the history, after each executed op; `PANIC` / `SKIP` per op).

  The bookkeeping of the harness (ids of items and alternatives, which operations are skipped) is
  reproduced by a list model of the field: items = entries (lists of alternative ids) and substvars.
-/
namespace Deb822Verif.Driver.RelEdit
open Deb822Verif Proto Rel Rel.Edit Rel.Build
open Deb822Verif.Driver.Rel (dump)

/-- an item of the harness's reference model: its id and, for an entry, the ids of its alternatives -/
structure Item where
  id : Nat
  alts : Option (List Nat)

structure St where
  field : Field
  items : List Item
  next : Nat

def St.fresh (s : St) : Nat × St := (s.next + 1, { s with next := s.next + 1 })

def entryItems (items : List Item) : List (Nat × Item) :=
  (items.zipIdx.filter fun x => x.1.alts.isSome).map fun x => (x.2, x.1)

/-- `Model::entry_pos(i)`: position among the items of the `i`-th entry -/
def entryPos (items : List Item) (i : Nat) : Option Nat := ((entryItems items)[i]?).map (·.1)

def nEntries (items : List Item) : Nat := (entryItems items).length

def altsOf (items : List Item) (i : Nat) : Option (List Nat) :=
  match (entryItems items)[i]? with
  | some (_, it) => it.alts
  | none => none

/-- `new_entry`: an id for the entry, then one per alternative -/
def newEntry (s : St) (n : Nat) : Item × St :=
  let (id, s1) := s.fresh
  let rec go (k : Nat) (s : St) (acc : List Nat) : List Nat × St :=
    match k with
    | 0 => (acc.reverse, s)
    | k + 1 => let (r, s') := s.fresh; go k s' (r :: acc)
  let (rids, s2) := go n s1 []
  (⟨id, some rids⟩, s2)

def modifyAlts (items : List Item) (pos : Nat) (f : List Nat → List Nat) : List Item :=
  items.zipIdx.map fun (it, k) => if k = pos then { it with alts := it.alts.map f } else it

/-! ### operands -/

def natOf (s : String) : Nat := s.toNat?.getD 1000000

/-- `RelM::parse_canon` on the generator's canonical operand texts, through the lossy reader -/
def parseRel (t : Str) : Option Lossy.Relation :=
  match Lossy.readRelation (Text.trim t) with
  | .ok r => some r
  | .error _ => none

def parseEntry (t : Str) : Option (List Lossy.Relation) := (Text.splitOn '|' t).mapM parseRel

/-- `build_rel(way, m)` -/
def buildRel (way : String) (m : Lossy.Relation) : Option RNode :=
  match way with
  | "p" => match readRelation (Lossy.showRelation m) with | .ok r => some r | .error _ => none
  | "c" =>
    let r0 := relationNew m.name m.version
    let r1 := match m.archqual with | some q => setArchqual r0 q | none => r0
    let r2 := match m.architectures with | some a => setArchitectures r1 a | none => r1
    some (m.profiles.foldl addProfile r2)
  | "b" =>
    let b0 := RelationBuilder.new m.name
    let b1 := match m.version with | some (c, v) => b0.setVersionConstraint c v | none => b0
    let b2 := match m.archqual with | some q => b1.setArchqual q | none => b1
    let b3 := match m.architectures with | some a => b2.setArchitectures a | none => b2
    some (m.profiles.foldl RelationBuilder.addProfile b3).build
  | _ => none

/-- `build_entry(way, rels)` -/
def buildEntry (way : String) (rels : List Lossy.Relation) : Option RNode :=
  match way with
  | "p" =>
    match readEntry (Text.join [' ', '|', ' '] (rels.map Lossy.showRelation)) with
    | .ok e => some e
    | .error _ => none
  | "c" => do pure (entryFromRelations (← rels.mapM (buildRel "c")))
  | "b" => do pure ((← rels.mapM (buildRel "b")).foldl entryPush entryNew)
  | _ => none

/-- an operand: built from its text in one of the ways `p` / `c` / `b`, or a LIVE handle: `l` = the
    entry `t` of the field being edited (`get_entry(t)`), `o` = the first entry of another field read
    from the text `t`. The edits take a copy of a live operand: the node it has at that moment. -/
inductive Opnd
  | skip
  | panic
  | ok (e : RNode) (n : Nat)

def entryOperand (kids : List RNode) (items : List Item) (way t : String) : Opnd :=
  if way == "l" then
    let k := natOf t
    match entryPos items k with
    | none => .skip
    | some _ =>
      match (nthNode .ENTRY kids k).bind (kids[·]?) with
      | some e => .ok e ((altsOf items k).getD []).length
      | none => .panic
  else if way == "o" then
    match decStr t with
    | none => .skip
    | some txt =>
      let p := parse txt false
      if !p.errors.isEmpty then .skip else
      match (nthNode .ENTRY p.tree.children 0).bind (p.tree.children[·]?) with
      | some e => .ok e (nodePositions .RELATION e.children).length
      | none => .skip
  else
    match (decStr t).bind parseEntry with
    | none => .skip
    | some rels =>
      match buildEntry way rels with
      | none => .panic
      | some e => .ok e rels.length

/-- a relation operand: `l` = the live relation `K-J` of the field being edited -/
def relOperand (kids : List RNode) (items : List Item) (way t : String) : Option (Option RNode) :=
  if way == "l" then
    match t.splitOn "-" with
    | [k, j] =>
      let (k, j) := (natOf k, natOf j)
      match entryPos items k with
      | none => none
      | some _ =>
        if j ≥ ((altsOf items k).map List.length).getD 0 then none else
        some do
          let p ← nthNode .ENTRY kids k
          let e ← kids[p]?
          let q ← nthNode .RELATION e.children j
          e.children[q]?
    | _ => none
  else
    match (decStr t).bind parseRel with
    | none => none
    | some m => some (buildRel way m)

/-! ### one step -/

inductive Step
  | done (s : St)
  | skip
  | panic
  /-- a call at an index that does not exist came back (the code panics there) -/
  | returned

def ofOutcome (s : St) (o : Outcome Field) : Step :=
  match o with
  | .ok f => .done { s with field := f }
  | .panic _ => .panic

def lookupE (f : Field) (id : Nat) : Option ERef := (f.ehs.find? (·.1 == id)).map (·.2)
def lookupR (f : Field) (id : Nat) : Option RRef := (f.rhs.find? (·.1 == id)).map (·.2)

def opOfName (s : String) : Option VC :=
  match s with
  | "ge" => some .GreaterThanEqual | "le" => some .LessThanEqual | "eq" => some .Equal
  | "gt" => some .GreaterThan | "lt" => some .LessThan | _ => none

def profileOf (t : Str) : BuildProfile :=
  match t with
  | '!' :: n => .Disabled n
  | _ => .Enabled t

/-- position of the entry an entry-level op works on: through the old handle (`h`) when there is
    one, else `get_entry(i)` -/
def entryTarget (s : St) (mode : String) (i : Nat) (id : Nat) : Option Nat :=
  match (if mode == "h" then lookupE s.field id else none) with
  | some (.at p) => some p
  | _ => nthNode .ENTRY s.field.kids i

def relTarget (s : St) (mode : String) (i j rid : Nat) : Option (Nat × Nat) :=
  match (if mode == "h" then lookupR s.field rid else none) with
  | some (.at p q) => some (p, q)
  | _ => do
    let p ← nthNode .ENTRY s.field.kids i
    let q ← nthNode .RELATION (s.field.entryKids p) j
    pure (p, q)

def apply (s : St) (f : List String) : Step :=
  let _n := nEntries s.items
  match f with
  | ["ins", i, way, t] =>
    let i := natOf i
    match entryOperand s.field.kids s.items way t with
    | .skip => .skip
    | o =>
      -- beyond the end `insert` appends: executed, not skipped
      if i > 1000 then .skip else
      match o with
      | .skip => .skip
      | .panic => .panic
      | .ok e len =>
        let fld := s.field.insert i e
        let (item, s1) := newEntry s len
        let pos := (entryPos s.items i).getD s.items.length
        .done { s1 with field := fld, items := s.items.take pos ++ [item] ++ s.items.drop pos }
  | ["push", way, t] =>
    match entryOperand s.field.kids s.items way t with
    | .skip => .skip
    | .panic => .panic
    | .ok e len =>
      let fld := s.field.push e
      let (item, s1) := newEntry s len
      .done { s1 with field := fld, items := s.items ++ [item] }
  | ["repl", i, way, t] =>
    let i := natOf i
    match entryOperand s.field.kids s.items way t with
    | .skip => .skip
    | o =>
      match entryPos s.items i with
      | none =>
        -- no such entry: the call is made and panics (`unwrap`) before it touches the tree
        (match o with
         | .ok e _ => (match s.field.replace i e with | .panic _ => .panic | .ok _ => .returned)
         | _ => .skip)
      | some pos =>
        match o with
        | .skip => .skip
        | .panic => .panic
        | .ok e len =>
          match s.field.replace i e with
          | .panic _ => .panic
          | .ok fld =>
            let (item, s1) := newEntry s len
            .done { s1 with field := fld, items := s.items.take pos ++ [item] ++ s.items.drop (pos + 1) }
  | ["rme", mode, i] =>
    let i := natOf i
    match entryPos s.items i with
    | none =>
      if mode == "f" then (match s.field.removeEntry i with | .panic _ => .panic | .ok _ => .returned) else .skip
    | some pos =>
      let id := (s.items[pos]?.map (·.id)).getD 0
      let target :=
        if mode == "f" || mode == "g" then nthNode .ENTRY s.field.kids i
        else match lookupE s.field id with
          | some (.at p) => some p
          | _ => nthNode .ENTRY s.field.kids i
      match target with
      | none => .panic
      | some p =>
        match s.field.removeEntryAt p with
        | .panic _ => .panic
        | .ok fld => .done { s with field := fld, items := s.items.take pos ++ s.items.drop (pos + 1) }
  | ["epush", mode, i, way, t] =>
    let i := natOf i
    match relOperand s.field.kids s.items way t with
    | none => .skip
    | some r? =>
      match entryPos s.items i with
      | none => .skip
      | some pos =>
        let id := (s.items[pos]?.map (·.id)).getD 0
        match r? with
        | none => .panic
        | some r =>
          match entryTarget s mode i id with
          | none => .panic
          | some p =>
            let fld := s.field.entryPushAt p r
            let (rid, s1) := s.fresh
            .done { s1 with field := fld, items := modifyAlts s.items pos (· ++ [rid]) }
  | ["erepl", mode, i, j, way, t] =>
    let (i, j) := (natOf i, natOf j)
    match relOperand s.field.kids s.items way t with
    | none => .skip
    | some r? =>
      match entryPos s.items i with
      | none => .skip
      | some pos =>
        if j ≥ ((altsOf s.items i).map List.length).getD 0 then
          (match r?, mode == "f", nthNode .ENTRY s.field.kids i with
           | some r, true, some p => (match s.field.entryReplaceAt p j r with | .panic _ => .panic | .ok _ => .returned)
           | _, _, _ => .skip)
        else
        let id := (s.items[pos]?.map (·.id)).getD 0
        match r? with
        | none => .panic
        | some r =>
          match entryTarget s mode i id with
          | none => .panic
          | some p =>
            match s.field.entryReplaceAt p j r with
            | .panic _ => .panic
            | .ok fld =>
              let (rid, s1) := s.fresh
              .done { s1 with field := fld,
                              items := modifyAlts s.items pos fun a => a.take j ++ [rid] ++ a.drop (j + 1) }
  | ["rmr", mode, i, j] =>
    let (i, j) := (natOf i, natOf j)
    match entryPos s.items i with
    | none => .skip
    | some pos =>
      let alts := (altsOf s.items i).getD []
      if j ≥ alts.length then
        (if mode == "f" then (match s.field.removeRelation i j with | .panic _ => .panic | .ok _ => .returned) else .skip)
      else
      let id := (s.items[pos]?.map (·.id)).getD 0
      let rid := alts[j]?.getD 0
      let target : Option (Nat × Nat) :=
        if mode == "h" then
          (match lookupE s.field id with
            | some (.at p) => (nthNode .RELATION (s.field.entryKids p) j).map fun q => (p, q)
            | _ => relTarget s "f" i j rid)
        else if mode == "r" then relTarget s "h" i j rid
        else relTarget s "f" i j rid
      match target with
      | none => .panic
      | some (p, q) =>
        match s.field.removeRelationAt p q with
        | .panic _ => .panic
        | .ok fld =>
          let items1 := modifyAlts s.items pos fun a => a.take j ++ a.drop (j + 1)
          let items2 := if alts.length = 1 then items1.take pos ++ items1.drop (pos + 1) else items1
          .done { s with field := fld, items := items2 }
  | name :: mode :: i :: j :: args =>
    if !(["setv", "unsetv", "dropv", "setq", "seta", "addp"].contains name) then .skip else
    let (i, j) := (natOf i, natOf j)
    match entryPos s.items i with
    | none => .skip
    | some _ =>
      let alts := (altsOf s.items i).getD []
      if j ≥ alts.length then .skip else
      let rid := alts[j]?.getD 0
      match relTarget s mode i j rid with
      | none => .panic
      | some (p, q) =>
        let edit (g : RNode → RNode) : Step := .done { s with field := s.field.relEdit p q g }
        match name, args with
        | "setv", [op, v] =>
          match decStr v with
          | none => .skip
          | some vt =>
            match opOfName op with
            | none => .skip
            | some c =>
              match Version.parse vt with
              | none => .skip
              | some ver => edit fun r => setVersion r (some (c, ver))
        | "unsetv", [] => edit fun r => setVersion r none
        | "dropv", [] => edit fun r => (dropConstraint r).1
        | "setq", [q'] =>
          match decStr q' with
          | none => .skip
          | some a => edit fun r => setArchqual r a
        | "seta", [a] =>
          match decStr a with
          | none => .skip
          | some l => edit fun r => setArchitectures r (Text.splitWhitespace l)
        | "addp", [p'] =>
          match decStr p' with
          | none => .skip
          | some l => edit fun r => addProfile r ((Text.splitWhitespace l).map profileOf)
        | _, _ => .skip
  | _ => .skip

def showHandles (f : Field) : String :=
  "|".intercalate ((f.ehs.map fun (id, r) => s!"e{id}={encStr (f.erefText r)}")
    ++ (f.rhs.map fun (id, r) => s!"r{id}={encStr (f.rrefText r)}"))

/-- the model of the start field: items and handles, ids as the harness assigns them -/
def initState (root : RNode) : St :=
  let step (acc : St × Nat) (pc : RNode × Nat) : St × Nat :=
    let (s, _) := acc
    let (c, p) := pc
    if c.isNode && c.kind == Kind.ENTRY then
      let (id, s1) := s.fresh
      let rposs := nodePositions .RELATION c.children
      let rec go (qs : List Nat) (s : St) (acc : List (Nat × Nat)) : List (Nat × Nat) × St :=
        match qs with
        | [] => (acc.reverse, s)
        | q :: r => let (rid, s') := s.fresh; go r s' ((rid, q) :: acc)
      let (rids, s2) := go rposs s1 []
      ({ s2 with
          items := s2.items ++ [⟨id, some (rids.map (·.1))⟩],
          field := { s2.field with
            ehs := s2.field.ehs ++ [(id, ERef.at p)],
            rhs := s2.field.rhs ++ rids.map fun (rid, q) => (rid, RRef.at p q) } }, 0)
    else if c.isNode && c.kind == Kind.SUBSTVAR then
      let (id, s1) := s.fresh
      ({ s1 with items := s1.items ++ [⟨id, none⟩] }, 0)
    else acc
  (root.children.zipIdx.foldl step (⟨⟨root.children, [], []⟩, [], 0⟩, 0)).1

def runHist (start : Str) (allow : Bool) (ops : String) : String :=
  let p := parse start allow
  if !p.errors.isEmpty then "START-NOT-WELL-FORMED" else
  let rec go (s : St) (os : List String) (acc : List String) : List String :=
    match os with
    | [] => acc.reverse
    | o :: rest =>
      match apply s (o.splitOn ".") with
      | .panic => (s!"{o} => PANIC" :: acc).reverse
      | .returned => (s!"{o} => RETURNED" :: acc).reverse
      | .skip => go s rest (s!"{o} => SKIP" :: acc)
      | .done s' =>
        go s' rest (s!"{o} => {encStr s'.field.root.text} {dump s'.field.root} H[{showHandles s'.field}]" :: acc)
  " ; ".intercalate (go (initState p.tree) ((ops.splitOn ",").filter (!·.isEmpty)) [])

def handle (op : String) (args : List String) : Option String :=
  match op, args with
  | "rel.hist", [t, allow, ops] => do
    let s ← decStr t
    pure (runHist s (allow == "1") ops)
  | "rel.replraw", [field, j, raw] => do
    let f ← decStr field
    let r ← decStr raw
    let j ← j.toNat?
    match readStrict f, readRelation r with
    | .ok root, .ok rel =>
      let fld : Field := ⟨root.children, [], []⟩
      match nthNode .ENTRY fld.kids 0 with
      | none => pure "none"
      | some p =>
        if (nthNode .RELATION (fld.entryKids p) j).isNone then pure "none" else
        match fld.entryReplaceAt p j rel with
        | .ok f' => pure s!"ok {encStr f'.root.text} {dump f'.root}"
        | .panic _ => pure "PANIC"
    | _, _ => pure "none"
  | _, _ => none

end Deb822Verif.Driver.RelEdit
