import Deb822Verif.Driver.Proto
import Deb822Verif.Model.DebAccess
import Deb822Verif.Model.DebLossy
import Deb822Verif.Model.RelParse
import Deb822Verif.Model.Pgp
/-! C02: acceptance class of each modelled text entry point; `*` for entry points the model does
    not cover (their totality is exercised on the real code only). -/
namespace Deb822Verif.Driver.Total
open Deb822Verif Proto

def cls (b : Bool) : String := if b then "ok" else "err"

def isOk {ε α} : Except ε α → Bool
  | .ok _ => true
  | .error _ => false

def entryClass (entry : String) (s : Str) : String :=
  match entry with
  | "deb.strict" => cls (isOk (Deb.readStrict s))
  | "deb.relaxed" => "ok"
  | "deb.para" => cls (isOk (Deb.paragraphFromStr s))
  | "deb.lossy" => cls (isOk (Deb.Lossy.read s))
  | "deb.lossypara" => cls (isOk (Deb.Lossy.readPara s))
  | "rel.strict" => cls (isOk (Rel.readStrict s))
  | "rel.relaxed0" => "ok"
  | "rel.relaxed1" => "ok"
  | "rel.entry" => cls (isOk (Rel.readEntry s))
  | "rel.relation" => cls (isOk (Rel.readRelation s))
  | "pgp.strip" => cls (isOk (Pgp.strip s))
  | _ => "*"

def handle (op : String) (args : List String) : Option String :=
  match op, args with
  | "total", [entry, t] => do
    let s ← decStr t
    pure (entryClass entry s)
  | "total.time", [_, _, _] => some "done"
  | _, _ => none

end Deb822Verif.Driver.Total
