import Deb822Verif.Driver.Proto
import Deb822Verif.Model.DebAccess
import Deb822Verif.Model.DebLossy
import Deb822Verif.Model.RelParse
import Deb822Verif.Model.Pgp
import Deb822Verif.Model.Changes
import Deb822Verif.Driver.Codec
import Deb822Verif.Driver.Rel
import Deb822Verif.Driver.TypedDoc
import Deb822Verif.Props.C01More
/-! C02: acceptance class of each modelled text entry point (`total <entry> <text>`; the nine lossy
    typed document readers take a third argument, the E column of `typed.<kind>`); `*` only for an
    entry point the model does not cover. -/
namespace Deb822Verif.Driver.Total
open Deb822Verif Proto

def cls (b : Bool) : String := if b then "ok" else "err"

def isOk {ε α} : Except ε α → Bool
  | .ok _ => true
  | .error _ => false

/-- entry point -> (codec type name of `Driver/Codec`, text passed twice?) -/
def codecEntry : String → Option (String × Bool)
  | "f.priority" => some ("Priority", false)
  | "f.multiarch" => some ("MultiArch", false)
  | "f.urgency" => some ("Urgency", false)
  | "f.md5" => some ("Md5Checksum", false)
  | "f.sha1" => some ("Sha1Checksum", false)
  | "f.sha256" => some ("Sha256Checksum", false)
  | "f.sha512" => some ("Sha512Checksum", false)
  | "f.pkglist" => some ("PackageListEntry", false)
  | "f.vc" => some ("VersionConstraint", false)
  | "f.profile" => some ("BuildProfile", false)
  | "ctl.changesfile" => some ("File", false)
  | "vcs.parsed" => some ("ParsedVcs", false)
  | "vcs.git" => some ("Vcs", false)
  | "vcs.svn" => some ("Vcs", false)
  | "vcs.bzr" => some ("Vcs", false)
  | "vcs.hg" => some ("Vcs", false)
  | "vcs.cvs" => some ("Vcs", false)
  | "vcs.other" => some ("Vcs", true)
  | "identity" => some ("Identity", false)
  | "cpr.license" => some ("License", false)
  | "dep3.forwarded" => some ("Forwarded", false)
  | "dep3.origincat" => some ("OriginCategory", false)
  | "dep3.origin" => some ("Origin", false)
  | "dep3.applied" => some ("AppliedUpstream", false)
  | "apt.type" => some ("RepositoryType", false)
  | "apt.ynf" => some ("YesNoForce", false)
  | "apt.signature" => some ("Signature", false)
  | _ => none

/-- fixed leading arguments of the codec request -/
def pre : String → List String
  | "vcs.git" => [encStr "Git".toList]
  | "vcs.svn" => [encStr "Svn".toList]
  | "vcs.bzr" => [encStr "Bzr".toList]
  | "vcs.hg" => [encStr "Hg".toList]
  | "vcs.cvs" => [encStr "Cvs".toList]
  | _ => []

/-- `s.starts_with("Format:")`, the gate of the copyright readers -/
def formatGate : Str := "Format:".toList

/-- the bytes a reader / a file delivers for the text `s` -/
def utf8 (s : Str) : ByteArray := (String.ofList s).toUTF8

def entryClass (entry : String) (s : Str) : String :=
  match entry with
  | "deb.strict" => cls (isOk (Deb.readStrict s))
  | "deb.relaxed" => "ok"
  | "deb.para" => cls (isOk (Deb.paragraphFromStr s))
  | "deb.lossy" => cls (isOk (Deb.Lossy.read s))
  | "deb.read" => cls (isOk (Deb.readStrict s))
  | "deb.readrelaxed" => "ok"
  | "deb.lossyreader" => cls (isOk (Deb.Lossy.read s))
  | "deb.lossypara" => cls (isOk (Deb.Lossy.readPara s))
  | "rel.strict" => cls (isOk (Rel.readStrict s))
  | "rel.relaxed0" => "ok"
  | "rel.relaxed1" => "ok"
  | "rel.entry" => cls (isOk (Rel.readEntry s))
  | "rel.relation" => cls (isOk (Rel.readRelation s))
  | "pgp.strip" => cls (isOk (Pgp.strip s))
  -- lossless typed views: thin wrappers over the deb822 readers
  | "ctl.control" => cls (isOk (Deb.readStrict s))
  | "ctl.source" | "ctl.package" | "ctl.release" | "ctl.buildinfo" | "dep3.lossless" =>
    cls (isOk (Deb.paragraphFromStr s))
  -- Changes::read / read_relaxed / from_file / from_file_relaxed: Model/Changes.lean on the bytes
  | "ctl.changes" => cls (isOk (Changes.readBytes (utf8 s)))
  | "ctl.changes_relaxed" => cls (Changes.readBytesRelaxed (utf8 s)).isSome
  | "ctl.changes_from_file" => cls (isOk (Changes.fromFile (utf8 s)))
  | "ctl.changes_from_file_relaxed" => cls (Changes.fromFileRelaxed (utf8 s)).isSome
  -- Control::read / read_relaxed (control.rs:162,167) and the file front ends of Deb822 / Control
  -- (lossless.rs:596,602; control.rs:149,154): `read_to_string`, then from_str / from_str_relaxed
  | "ctl.read" | "deb.from_file" | "ctl.from_file" => cls (isOk (Props.C01.readBytes (utf8 s)))
  | "ctl.read_relaxed" | "deb.from_file_relaxed" | "ctl.from_file_relaxed" =>
    cls (Props.C01.readBytesRelaxed (utf8 s)).isSome
  -- Copyright::from_file / from_file_relaxed (debian-copyright/src/lossless.rs:123,129)
  | "cpr.from_file" => cls (formatGate.isPrefixOf s && isOk (Deb.readStrict s))
  | "cpr.from_file_relaxed" => cls (formatGate.isPrefixOf s)
  | "cpr.lossless" => cls (formatGate.isPrefixOf s && isOk (Deb.readStrict s))
  | "cpr.relaxed" => cls (formatGate.isPrefixOf s)
  | "lrel.relations" => cls (isOk (Rel.Lossy.readRelations s))
  | "lrel.relation" => cls (isOk (Rel.Lossy.readRelation s))
  | _ =>
    -- typed field values: acceptance class of the C18 codec models (`Driver/Codec.handleParse`)
    match codecEntry entry with
    | some (ty, twice) =>
      let t := encStr s
      (match Codec.handleParse ty (if twice then [t, t] else pre entry ++ [t]) with
       | some r => if r.startsWith "ok" then "ok" else "err"
       | none => "*")
    | none => "*"

/-- the nine lossy typed document readers: entry point -> document kind of `Model/TypedDoc.lean` -/
def typedKind : String → Option String
  | "lctl.control" => some "control"
  | "lctl.release" => some "release"
  | "lctl.source" => some "source"
  | "lctl.package" => some "package"
  | "lctl.buildinfo" => some "buildinfo"
  | "lctl.removal" => some "removal"
  | "cpr.lossy" => some "copyright"
  | "dep3.lossy" => some "dep3"
  | "apt.repos" => some "repos"
  | _ => none

/-- acceptance class of a typed document reader: `TypedDoc.parse` over the generated struct table,
    external leaf codecs answered by the request's E column -/
def typedClass (entry : String) (s : Str) (e : String) : Option String := do
  let kind ← typedKind entry
  let o ← TypedDoc.decOracle e
  let ki ← TypedDoc.kindFor o kind
  pure (cls (isOk (Deb822Verif.TypedDoc.parse ki.kind s)))

/-- the large inputs of `total.time`: `prefix ++ unit × k ++ suffix`, `k` the least number of
    repetitions with `k · |unit| ≥ n` (lengths in UTF-8 bytes) — the same table as `shape_parts` in
    `harness/src/total.rs` -/
def shapeParts : String → Option (String × String × String)
  | "valid" => some ("", "Package: a\nDepends: b (>= 1), c | d [amd64] <x>\n x\n\n", "")
  | "errors" => some ("", ":: \u00e9(([[<<${ -\n", "")
  | "long" => some ("", "a", "")
  | "value1" => some ("Package: a\nDepends: ", "b (>= 1), ", "c\n")
  | "contlines" => some ("Package: a\nDescription: x\n", " y\n", "")
  | "archlist" => some ("a [", "b ", "]")
  | "alts" => some ("a", " | a", "")
  | "pgp" => some ("-----BEGIN PGP SIGNED MESSAGE-----\nHash: SHA256\n\n", "x\n",
      "-----BEGIN PGP SIGNATURE-----\nabc\n-----END PGP SIGNATURE-----\n")
  | "files" => some ("Format: https://www.debian.org/doc/packaging-manuals/copyright-format/1.0/\n\nFiles: ",
      "*a ", "\nCopyright: x\nLicense: MIT\n")
  | _ => none

def shapeText (shape : String) (n : Nat) : Option Str := do
  let (p, u, x) ← shapeParts shape
  let ub := u.utf8ByteSize
  let k := (n + ub - 1) / ub
  let mut s := p
  for _ in [0:k] do
    s := s ++ u
  pure (s ++ x).toList

def handle (op : String) (args : List String) : Option String :=
  match op, args with
  | "total", [entry, t, e] => do
    let s ← decStr t
    pure ((typedClass entry s e).getD "*")
  | "total", [entry, t] => do
    let s ← decStr t
    pure (entryClass entry s)
  -- the acceptance class on the large input when the generator asks for it (`cmp` = 1), else `done`
  | "total.time", [_, _, _, "0"] => some "done"
  | "total.time", [entry, shape, size, "1"] => do
    let s ← shapeText shape (← size.toNat?)
    pure (entryClass entry s)
  | "total.time", [entry, shape, size, "1", e] => do
    let s ← shapeText shape (← size.toNat?)
    pure ((typedClass entry s e).getD "*")
  | _, _ => none

end Deb822Verif.Driver.Total
