import Deb822Verif.Driver.Proto
import Deb822Verif.Driver.Deb
import Deb822Verif.Model.Typed
/-!
  Driver of the typed-accessor model (property C15): answers the `acc.*` requests of
  harness/src/typed.rs from `Model/Typed.lean` over the generated rows of `Gen/Accessors.lean`.
  A request the model has no reading for is answered `*` (real code only).  The response carries
  `!F-C15-<n>` when the (Lean-defined) trigger predicate of an open finding holds for the request.
-/
namespace Deb822Verif.Driver.Typed
open Deb822Verif Proto Deb Typed

/-! ## values on the wire -/

def decVal (f : String) : Option Val :=
  if f == "none" then some .absent
  else if f == "b0" then some (.flag false)
  else if f == "b1" then some (.flag true)
  else match f.toList with
    | 'x' :: _ => (decStr f).map .text
    | 'l' :: rest => (decList (String.ofList rest)).map .list
    | 'L' :: _ =>
      match f.splitOn "." with
      | ["L", "N", n] => do pure (.license (.name (← decStr n)))
      | ["L", "T", t] => do pure (.license (.text (← decStr t)))
      | ["L", "NT", n, t] => do pure (.license (.named (← decStr n) (← decStr t)))
      | _ => none
    | 'O' :: _ =>
      match f.splitOn "." with
      | ["O", c, k, t] => do
        let t ← decStr t
        let cat := if c == "-" then none else some c.toList
        if k == "Commit" then pure (.origin cat (.commit t))
        else if k == "Other" then pure (.origin cat (.other t))
        else none
      | _ => none
    | _ => none

/-- maps travel as the sorted list of `KEY=value`; a `=` inside a KEY is written U+2261 (so that
    `{"B": "x=y"}` and `{"B=x": "y"}` differ on the wire) -/
def eqEsc : Char := Char.ofNat 0x2261

def wirePiece (p : Str × Str) : Str := (p.1.map fun c => if c = '=' then eqEsc else c) ++ '=' :: p.2

def unwirePiece (l : Str) : Str × Str :=
  match Codec.splitOnFirst ['='] l with
  | some r => (r.1.map fun c => if c = eqEsc then '=' else c, r.2)
  | none => (l, [])

/-- a list value addressed to an environment-map setter is the map -/
def asShape (sh : Shape) (v : Val) : Val :=
  match sh, v with
  | .envMap, .list l => .map (l.map unwirePiece)
  | _, v => v

/-- `none` for a value the model has no reading of -/
def encVal : Val → Option String
  | .absent => some "none"
  | .text s => some (encStr s)
  | .list l => some ("l" ++ encList l)
  | .flag b => some (if b then "b1" else "b0")
  | .license (.name n) => some s!"L.N.{encStr n}"
  | .license (.text t) => some s!"L.T.{encStr t}"
  | .license (.named n t) => some s!"L.NT.{encStr n}.{encStr t}"
  | .origin c (.commit t) => some s!"O.{match c with | some c => String.ofList c | none => "-"}.Commit.{encStr t}"
  | .origin c (.other t) => some s!"O.{match c with | some c => String.ofList c | none => "-"}.Other.{encStr t}"
  | .map m => some ("l" ++ encList (sortStrs (m.map wirePiece)))
  | .panic => some "PANIC"
  | .unmodelled => none

/-! ## hosts: which documents a view can be built on -/

def isCopyright (view : Str) : Bool := "copyright.".toList.isPrefixOf view

/-- children of the ROOT node when the real constructor of the view accepts the text -/
def hostKids (view : Str) (text : Str) : Option (List DNode) :=
  match readStrict text with
  | .error _ => none
  | .ok t =>
    let n := (paragraphs t).length
    if isCopyright view then
      if "Format:".toList.isPrefixOf text then some t.children else none
    else if view == "dep3.PatchHeader".toList then
      if n ≥ 1 then some t.children else none
    else if view == "changes.Changes".toList then
      if n == 1 then some t.children else none
    else some t.children

def isFilesPara (p : DNode) : Bool := hasField "Files".toList p
def isLicensePara (p : DNode) : Bool := !hasField "Files".toList p && hasField "License".toList p

/-- children of paragraph `idx` when the view exists on it -/
def viewPara (view : Str) (kids : List DNode) (idx : Nat) : Option (Nat × List DNode) :=
  match (paraPositions kids)[idx]? with
  | none => none
  | some pos =>
    match kids[pos]? with
    | some (Node.node .PARAGRAPH cs) =>
      let p : DNode := .node .PARAGRAPH cs
      let ok :=
        if view == "copyright.Header".toList then idx == 0
        else if view == "copyright.FilesParagraph".toList then isFilesPara p
        else if view == "copyright.LicenseParagraph".toList then isLicensePara p
        else if view == "dep3.PatchHeader".toList || view == "changes.Changes".toList then idx == 0
        else true
      if ok then some (pos, cs) else none
    | _ => none

def rootText (kids : List DNode) : Str := (Node.node Kind.ROOT kids).text

def noText (view : Str) : Bool := view == "changes.Changes".toList

/-! ## rows of an accessor addressed by name (the getter, or the setter when there is none) -/

/-- the argument the harness passes for the field-name parameter of a method (harness/src/typed.rs,
    the `custom!` lines) -/
def harnessArg (view method : Str) : Option Str :=
  if view == "apt.Package".toList && (method == "tags".toList || method == "set_tags".toList) then some "Tag".toList
  else if view == "dep3.PatchHeader".toList && method == "set_vendor_bug".toList then some "Debian".toList
  else none

/-- the table row of a method, instantiated with the harness's argument when its name is a template -/
def rowFor (view method : Str) : Option Row :=
  (findRow view method).map fun r =>
    match harnessArg view method with
    | some a => r.inst a
    | none => r

/-- (reading row, writing row) -/
def rowsOf (view name : Str) : Option Row × Option Row :=
  match rowFor view name with
  | none => (none, none)
  | some r =>
    if r.kind == .get then (some r, rowFor view (setPrefix ++ name))
    else (none, some r)

/-- reading side of a setter without a getter: the first field of its name, as text -/
def syntheticGetter (s : Row) : Row :=
  { s with kind := .get, op := .get, clearOp := .none, shape := .str, strict := false, absent := .none, optional := false }

def readBack (g : Option Row) (s : Row) (cs : List DNode) : Val :=
  match g with
  | some g => getSem g true cs
  | none => getSem (syntheticGetter s) true cs

/-! ## triggers of the open findings -/

/-- setters still written with `insert` (open findings) -/
def insertRows : List (String × String) := [("set_upstream_bug", "F-C15-6")]

def present (cs : List DNode) (names : List Str) : Bool := (firstOf cs names).isSome

/-- findings triggered by calling setter row `s` with `v` on paragraph `cs` -/
def setTriggers (s : Row) (v : Val) (cs : List DNode) : List String :=
  let m := String.ofList s.method
  if s.view == "dep3.PatchHeader".toList then
    (insertRows.filterMap fun p => if p.1 == m && present cs s.names then some p.2 else none)
    -- on an absent field the long text is stored as the whole field (its first line becomes the synopsis)
    ++ (if m == "set_long_description" && !present cs s.names then ["F-C15-8"] else [])
    ++ (if m == "set_vendor_bug" && present cs s.names then ["F-C15-14"] else [])
  else if s.view == "copyright.FilesParagraph".toList && m == "set_license" then
    match v with
    | .license (.text _) => ["F-C15-9"]
    | _ => []
  else []

def canPanicRow (r : Row) : Bool :=
  (r.strict && !(match r.shape with
    | .typed ty => ty == "Forwarded".toList || ty == "AppliedUpstream".toList
    | _ => false)) || r.absent == .panic

def withTriggers (resp : String) (ts : List String) : String :=
  if ts.isEmpty then resp else resp ++ "\t!" ++ ",".intercalate ts

/-! ## requests -/

def encItems := Driver.Deb.encItems

def pitemsOf (cs : List DNode) : List (Str × Str) := items (.node .PARAGRAPH cs)

def setget (view name : Str) (text : Str) (idx : Nat) (v : Val) : String :=
  match hostKids view text with
  | none => "bad-doc"
  | some kids =>
    let (g, s) := rowsOf view name
    match s with
    | none =>
      -- accessors with extra arguments (opaque rows): real code only
      let ts := if name == "set_vendor_bug".toList then
          (match viewPara view kids idx with
           | some (_, cs) => if present cs ["Bug-Debian".toList] then ["F-C15-14"] else []
           | none => [])
        else []
      withTriggers "*" ts
    | some s =>
      match viewPara view kids idx with
      | none => "bad-args"
      | some (pos, cs) =>
        let v := asShape s.shape v
        let ts := setTriggers s v cs
        match setSem s v cs with
        | none => withTriggers "*" ts
        | some cs' =>
          match encVal (readBack g s cs') with
          | none => withTriggers "*" ts
          | some gtxt =>
            let kids' := kids.set pos (.node .PARAGRAPH cs')
            let resp :=
              if noText view then s!"{gtxt} ~ ~"
              else s!"{gtxt} {encStr (rootText kids')} {encItems (pitemsOf cs')}"
            withTriggers resp ts

def getOnly (view name : Str) (text : Str) (idx : Nat) (want : Option String := none) : String :=
  match hostKids view text with
  | none => "bad-doc"
  | some kids =>
    match viewPara view kids idx with
    | none => "bad-args"
    | some (_, cs) =>
      match rowFor view name with
      | none => "*"
      | some g =>
        if g.isOpaque then "*"
        else
          let v := getSem g false cs
          match encVal v with
          | none => withTriggers "*" (if canPanicRow g then ["F-C15-11"] else [])
          | some t =>
            let _ := want
            -- F-C15-21: `No-Support-for-Architecture-all` is not a yes/no flag: the one value the
            -- repository format defines is `Packages`, which the accessor reads as false
            let nsaa := view == "apt.Release".toList && name == "no_support_for_architecture_all".toList
              && pget cs "No-Support-for-Architecture-all".toList == some "Packages".toList
            withTriggers t ((if v == .panic then ["F-C15-11"] else []) ++ (if nsaa then ["F-C15-21"] else []))

/-- steps `acc=value;…` -/
def decSteps (f : String) : Option (List (Str × Val)) :=
  (f.splitOn ";").mapM fun st =>
    match st.splitOn "=" with
    | [n, v] => do pure (n.toList, ← decVal v)
    | _ => none

def seqRun (view : Str) (cs : List DNode) :
    List (Str × Val) → List (Str × Option Row × Row) → List String →
      Option (List DNode × List (Str × Option Row × Row) × List String)
  | [], last, ts => some (cs, last, ts)
  | (name, v) :: rest, last, ts =>
    let (g, s) := rowsOf view name
    match s with
    | none => none
    | some s =>
      let v := asShape s.shape v
      -- over-approximation for sequences: an `insert` setter used at all
      let t1 := (setTriggers s v cs) ++
        (if s.op == .insert && s.view == "dep3.PatchHeader".toList then
          insertRows.filterMap fun p => if p.1 == String.ofList s.method then some p.2 else none
         else [])
      match setSem s v cs with
      | none => none
      | some cs' =>
        seqRun view cs' rest ((last.filter fun e => e.1 != name) ++ [(name, g, s)]) (ts ++ t1)

/-- over-approximation for sequences (and for sequences the model cannot follow): an `insert`
    setter used at all; `all`: also the state-dependent triggers, whatever the state -/
def seqTriggersOnly (view : Str) (steps : List (Str × Val)) (all : Bool := false) : List String :=
  steps.foldl (fun acc st =>
    match (rowsOf view st.1).2 with
    | some s =>
      acc ++ (if s.op == .insert && s.view == "dep3.PatchHeader".toList then
              insertRows.filterMap fun p => if p.1 == String.ofList s.method then some p.2 else none
            else [])
        ++ (if s.method == "set_vendor_bug".toList then ["F-C15-14"] else [])
        ++ (if all then setTriggers s st.2 [] else [])
    | none => acc) []

def dedupS (l : List String) : List String := l.foldl (fun acc x => if acc.contains x then acc else acc ++ [x]) []

def seq (view : Str) (text : Str) (idx : Nat) (steps : List (Str × Val)) : String :=
  match hostKids view text with
  | none => "bad-doc"
  | some kids =>
    match viewPara view kids idx with
    | none => "bad-args"
    | some (pos, cs) =>
      match seqRun view cs steps [] [] with
      | none => withTriggers "*" (dedupS (seqTriggersOnly view steps true))
      | some (cs', last, ts) =>
        let gs := last.map fun e => encVal (readBack e.2.1 e.2.2 cs')
        if gs.any Option.isNone then withTriggers "*" (dedupS (ts ++ seqTriggersOnly view steps))
        else
          let g := "|".intercalate (gs.map fun o => o.getD "")
          let kids' := kids.set pos (.node .PARAGRAPH cs')
          let t := if noText view then "~" else encStr (rootText kids')
          withTriggers s!"{g} {t}" (dedupS (ts ++ seqTriggersOnly view steps))

def kindName : Typed.Kind → String
  | .get => "get" | .set => "set" | .clear => "clear" | .other => "other"

def opName : POp → String
  | .get => "get" | .getAll => "getAll" | .set => "set" | .insert => "insert" | .remove => "remove"
  | .rename => "rename" | .contains => "contains" | .items => "items" | .keys => "keys"
  | .paragraphs => "paragraphs" | .addParagraph => "addParagraph" | .none => "none"

def sepName : Sep → String
  | .comma => "comma" | .space => "space" | .ws => "ws" | .nl => "nl" | .lines => "lines" | .fields => "fields"

def shapeName : Shape → String
  | .str => "str"
  | .typed ty => s!"typed:{String.ofList ty}"
  | .list sep trim elem =>
    s!"list:{sepName sep}:{encBool trim}:{match elem with | .str => "str" | .typed ty => String.ofList ty}"
  | .flagYes => "flagYes" | .flagYesNo => "flagYesNo" | .flagYesOrRemove => "flagYesOrRemove"
  | .firstLine => "firstLine" | .restLines => "restLines"
  | .license => "license" | .licenseBareText => "licenseBareText"
  | .licenseName => "licenseName" | .licenseText => "licenseText"
  | .originField => "originField" | .rfc2822 => "rfc2822" | .dateYmd => "dateYmd" | .envMap => "envMap" | .vcsScan => "vcsScan" | .bugsScan => "bugsScan" | .headerFix => "headerFix"
  | .firstPara => "firstPara" | .filterParaWithout excl => s!"filterParaWithout:{String.ofList excl}"
  | .findPara => "findPara" | .filterPara => "filterPara" | .addPara => "addPara"
  | .filterParaTail => "filterParaTail" | .filterParaWithoutTail excl => s!"filterParaWithoutTail:{String.ofList excl}"
  | .composite => "composite" | .derived => "derived" | .opaque => "opaque"

def absentName : Absent → String
  | .none => "none" | .default => "default" | .panic => "panic" | .empty => "empty"

def showRow (r : Row) : String :=
  s!"{kindName r.kind} {opName r.op} {opName r.clearOp} [{encList r.names}] {shapeName r.shape} {encBool r.strict} {absentName r.absent} {encBool r.optional} {encStr r.dflt}"

def strictRoot (text : Str) : Option DNode :=
  match readStrict text with
  | .ok t => some t
  | .error _ => none

/-- the paragraphs a document-level getter of the table yields -/
def parasOf (view method : String) (root : DNode) : List DNode :=
  match findRow view.toList method.toList with
  | some r => (paraSem r root).getD []
  | none => []

def ctlFind (text : Str) : String :=
  match strictRoot text with
  | none => "bad-doc"
  | some t =>
    let src := (parasOf "control.Control" "source" t).head?.map Node.text
    let bins := (parasOf "control.Control" "binaries" t).map Node.text
    s!"{encOpt src} {encList bins}"

def ctlAdd (text : Str) (kind : String) (name : Str) : Option String :=
  match strictRoot text with
  | none => some "bad-doc"
  | some t =>
    let kids := t.children
    let d : Doc := { kids := kids, handles := (paraPositions kids).map some }
    let key := if kind == "source" then some "Source".toList else if kind == "binary" then some "Package".toList else none
    match key with
    | none => none
    | some key =>
      let d' := addPara d key name
      let root' := d'.root
      -- both hand back the paragraph just added
      let ret : Option DNode := d'.para (d'.handles.length - 1)
      match ret with
      | none => none
      | some p =>
        some s!"{encOpt (Deb.get p key)} {encStr p.text} {encStr root'.text}"

def cprFind (text : Str) : String :=
  match hostKids "copyright.".toList text with
  | none => "bad-doc"
  | some kids =>
    let t : DNode := .node .ROOT kids
    let header := (parasOf "copyright.Copyright" "header" t).head?
    let files := (parasOf "copyright.Copyright" "iter_files" t).map fun p =>
      Text.join [' '] (Text.splitWhitespace ((Deb.get p "Files".toList).getD []))
    let names := (parasOf "copyright.Copyright" "iter_licenses" t).map fun p =>
      match decode .licenseName false false ((Deb.get p "License".toList).getD []) with
      | .text n => n
      | _ => []
    s!"{encOpt (header.map Node.text)} {files.length} {names.length} [{encList files}] [{encList names}]"

/-- `Header::fix` on the first paragraph: the format string afterwards, the document text -/
def cprFix (text : Str) : String :=
  match hostKids "copyright.".toList text with
  | none => "bad-doc"
  | some kids =>
    match viewPara "copyright.Header".toList kids 0 with
    | none => "bad-args"
    | some (pos, cs) =>
      let cs' := fixSem cs
      let kids' := kids.set pos (.node .PARAGRAPH cs')
      s!"{encOpt (firstOf cs' [fFormat, fFormatSpec])} {encStr (rootText kids')}"

def handle (op : String) (args : List String) : Option String :=
  match op, args with
  | "acc.setget", [view, name, doc, idx, value] => do
    let text ← decStr doc
    let idx ← idx.toNat?
    let v ← decVal value
    pure (setget view.toList name.toList text idx v)
  | "acc.get", [view, name, doc, idx] => do
    let text ← decStr doc
    let idx ← idx.toNat?
    pure (getOnly view.toList name.toList text idx)
  | "acc.get", [view, name, doc, idx, want] => do
    let text ← decStr doc
    let idx ← idx.toNat?
    pure (getOnly view.toList name.toList text idx (some want))
  | "acc.seq", [view, doc, idx, steps] => do
    let text ← decStr doc
    let idx ← idx.toNat?
    let steps ← decSteps steps
    pure (seq view.toList text idx steps)
  | "acc.row", [view, method] =>
    match findRow view.toList method.toList with
    | some r => some (showRow r)
    | none => some "norow"
  | "acc.ctl.find", [doc] => do
    let text ← decStr doc
    pure (ctlFind text)
  | "acc.ctl.add", [doc, kind, name] => do
    let text ← decStr doc
    let name ← decStr name
    ctlAdd text kind name
  | "acc.cpr.find", [doc] => do
    let text ← decStr doc
    pure (cprFind text)
  | "acc.cpr.fix", [doc] => do
    let text ← decStr doc
    pure (cprFix text)
  | _, _ => none

end Deb822Verif.Driver.Typed
