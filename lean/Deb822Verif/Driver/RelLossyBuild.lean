import Deb822Verif.Driver.Rel
import Deb822Verif.Model.RelLossyBuild
import Deb822Verif.Spec.RelAssemble
/-! Driver twin of `harness/src/lossybuild.rs`: `lrel.new`, `lrel.build`, `lrels.script`. -/
namespace Deb822Verif.Driver.RelLossyBuild
open Deb822Verif Proto Rel LossyBuild
open Deb822Verif.Driver.Rel (decOp decGroup decLossyRel decLossyRels decLossyEntry encLossyRel encEntries lrelResp lossyView)

def decCall (h : String) : Option Call :=
  match h.splitOn "=" with
  | ["aq", x] => do pure (.archqual (← decStr x))
  | ["ar", x] => do pure (.architectures (← decList x))
  | ["ve", x] =>
    match x.splitOn "." with
    | [op, t] => do pure (.version (← decOp op) (← decStr t))
    | _ => none
  | ["pr", x] => do pure (.profile (← decGroup x))
  | _ => none

def encState (rs : Relations) : String := "E[" ++ encEntries rs ++ "]"
def encEntry (e : List Lossy.Relation) : String := "{" ++ "|".intercalate (e.map encLossyRel) ++ "}"

def decInit (h : String) : Option Relations :=
  if h == "new" then some relationsNew
  else if h == "default" then some relationsDefault
  else if h.startsWith "lit:" then decLossyRels (h.drop 4).toString
  else if h.startsWith "vecs:" then do pure (fromIterEntries (← decLossyRels (h.drop 5).toString))
  else if h.startsWith "rels:" then do pure (fromIterRelations (← decLossyEntry (h.drop 5).toString))
  else none

def decNat (s : String) : Option Nat := s.toNat?

def decOpR (h : String) : Option Op :=
  match h.splitOn "=" with
  | ["len"] => some .len
  | ["emp"] => some .isEmpty
  | ["iter"] => some .iter
  | ["show"] => some .show
  | ["rm", i] => do pure (.remove (← decNat i))
  | ["ix", i] => do pure (.index (← decNat i))
  | ["as", i, e] => do pure (.assign (← decNat i) (← decLossyEntry e))
  | ["pu", i, r] => do pure (.push (← decNat i) (← decLossyRel r))
  | _ => none

/-- what the harness prints for the call on the state `rs` (before) / `rs'` (after) -/
def observe (rs rs' : Relations) : Op → String
  | .len => toString (len rs)
  | .isEmpty => encBool (isEmpty rs)
  | .iter => "I" ++ encState (iter rs)
  | .show => s!"{encStr (Lossy.showRelations rs)} RT:{lossyView (Lossy.showRelations rs)}"
  | .index i => match index rs i with | .ok e => encEntry e | .panic _ => "PANIC"
  | _ => encState rs'

def runOps (rs : Relations) : List Op → List String
  | [] => []
  | o :: os =>
    match o.step rs with
    | .ok rs' => observe rs rs' o :: runOps rs' os
    | .panic _ => (o :: os).map fun _ => "PANIC"

def handle (op : String) (args : List String) : Option String :=
  match op, args with
  | "lrel.new", [] =>
    some s!"{encLossyRel relationNew} {encLossyRel relationDefault} P:{encStr (Lossy.showRelation relationNew)}"
  | "lrel.build", name :: calls => do
    let nm ← decStr name
    let cs ← calls.mapM decCall
    let cv := encBool (RelSpec.validCalls nm cs)
    match runBuild nm cs with
    | .panic _ => pure s!"B:PANIC cv={cv}"
    | .ok r => pure s!"B:ok {encLossyRel r} cv={cv} vr={encBool (RelSpec.validR r)} | {lrelResp r}"
  | "lrels.script", init :: ops => do
    let rs ← decInit init
    let os ← ops.mapM decOpR
    pure (" ".intercalate (encState rs :: runOps rs os))
  | _, _ => none

end Deb822Verif.Driver.RelLossyBuild
