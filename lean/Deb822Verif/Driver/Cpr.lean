import Deb822Verif.Driver.Proto
import Deb822Verif.Model.Copyright
/-! C17 driver: `glob.match`, `glob.big`, `cpr.find` (see harness/src/cpr.rs for the line format). -/
namespace Deb822Verif.Driver.Cpr
open Deb822Verif Proto Text Glob Copyright

/-- flat `k1,v1,k2,v2,…` -/
def pairUp : List Str → Option Para
  | [] => some []
  | k :: v :: rest => (pairUp rest).map ((k, v) :: ·)
  | [_] => none

/-- `-` = no paragraph; else paragraphs joined by `;` -/
def decParas (f : String) : Option Doc :=
  if f == "-" then some []
  else (f.splitOn ";").mapM fun g => (decList g).bind pairUp

def showLic : Option License → String
  | none => "none"
  | some l => s!"{encOpt l.name?}/{encOpt l.text?}"

def showIdx : Option Nat → String
  | none => "none"
  | some i => toString i

def showO {α} (f : α → String) : Outcome α → String
  | .ok a => f a
  | .panic _ => "PANIC"

/-- the copyright holders of the paragraph found: `<count>:<list>` (`0:` ≠ `1:x`, the list holding
    one empty string) -/
def showCpr : Option (List Str) → String
  | none => "none"
  | some l => s!"{l.length}:{encList l}"

def showAnswer (tag : String) (a : Answer) (cpr : Outcome (Option (List Str))) : String :=
  s!"{tag}[ok files={showO showIdx a.idx} lic={showO showLic a.lic} cpr={showO showCpr cpr}]"

def showLossless (tag : String) (r : Except Lossless.Err Doc) (path : Str) : String :=
  match r with
  | .error .notMachineReadable => s!"{tag}[nmr]"
  | .error .parseError => s!"{tag}[perr]"
  | .ok c => showAnswer tag (Lossless.answer c path) (Lossless.foundCopyright c path)

def showLossy (tag : String) (r : Except Lossy.Err Lossy.Copyright) (path : Str) : String :=
  match r with
  | .error .notMachineReadable => s!"{tag}[nmr]"
  | .error .parseError => s!"{tag}[perr]"
  | .error (.msg m) => s!"{tag}[err:{encStr m}]"
  | .ok c => showAnswer tag (Lossy.answer c path) (Lossy.foundCopyright c path)

def handle (op : String) (args : List String) : Option String :=
  match op, args with
  | "glob.match", [g, p] => do
    let g ← decStr g
    let p ← decStr p
    -- the pattern reaches `glob_to_regex` through a Files field, i.e. through `split_whitespace`:
    -- white space separates patterns, `any` stops at the first match
    if g.contains '\n' then none
    else pure (showO encBool (anyMatch (Lossy.deserializeFileList g) p))
  | "glob.big", [u, n, pu, m] => do
    -- `unit` x n against `punit` x m (the model has no size limit; the family stays below the
    -- regex crate's compiled-size limit, see harness/src/cpr.rs)
    let u ← decStr u
    let pu ← decStr pu
    let n ← n.toNat?
    let m ← m.toNat?
    if u.any isWhitespace || u.isEmpty || n == 0 || (String.ofList u).utf8ByteSize * n > 1000000
        || (String.ofList pu).utf8ByteSize * m > 1000000 then none
    else pure (showO encBool (anyMatch (Lossy.deserializeFileList (List.replicate n u).flatten)
      (List.replicate m pu).flatten))
  | "cpr.find", [t, p, so, ps] => do
    let s ← decStr t
    let path ← decStr p
    let paras ← decParas ps
    let strictOk := so == "1"
    let strict : Str → Option Doc := fun _ => if strictOk then some paras else none
    let l := showLossless "L" (Lossless.fromStr strict s) path
    let r := showLossless "R" (Lossless.fromStrRelaxed (fun _ => paras) s) path
    let y := showLossy "Y" (Lossy.fromStr strict s) path
    -- no open finding for C17: nothing is appended (F-C17-1, F-C17-2, F-C17-3 are fixed)
    pure s!"{l} {r} {y}"
  | _, _ => none

end Deb822Verif.Driver.Cpr
