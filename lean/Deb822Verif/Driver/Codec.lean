import Deb822Verif.Driver.Proto
import Deb822Verif.Model.Codec
/-! Driver family `codec`: ops `codec.<Type>.parse <text>` and `codec.<Type>.print <fields…>` (C18). -/
namespace Deb822Verif.Driver.Codec
open Deb822Verif Proto Text Enum Codec

def decOpt (f : String) : Option (Option Str) :=
  if f == "none" then some none else (decStr f).map some

def name (s : Str) : String := String.ofList s

def showNat (n : Nat) : String := String.ofList (decDigits n)

/-- a size argument of a print op: decimal, must fit `usize` -/
def decSize (f : String) : Option Nat :=
  match f.toNat? with
  | some n => if n < usizeBound then some n else none
  | none => none

def enumByName (n : String) : Option EnumSpec :=
  Gen.Enums.all.find? fun e => name e.name == n

def checksumTypes : List String := ["Md5Checksum", "Sha1Checksum", "Sha256Checksum", "Sha512Checksum"]

def showOrigin : Origin → String
  | .commit s => s!"Commit {encStr s}"
  | .other s => s!"Other {encStr s}"

def decOrigin (k v : String) : Option Origin :=
  match k, decStr v with
  | "Commit", some s => some (.commit s)
  | "Other", some s => some (.other s)
  | _, _ => none

def showVcs : Vcs → String
  | .git u b p => s!"Git {encStr u} {encOpt b} {encOpt p}"
  | .bzr u p => s!"Bzr {encStr u} {encOpt p}"
  | .hg u => s!"Hg {encStr u}"
  | .svn u => s!"Svn {encStr u}"
  | .cvs r m => s!"Cvs {encStr r} {encOpt m}"

def decVcs (args : List String) : Option Vcs :=
  match args with
  | ["Git", u, b, p] => do pure (.git (← decStr u) (← decOpt b) (← decOpt p))
  | ["Bzr", u, p] => do pure (.bzr (← decStr u) (← decOpt p))
  | ["Hg", u] => do pure (.hg (← decStr u))
  | ["Svn", u] => do pure (.svn (← decStr u))
  | ["Cvs", r, m] => do pure (.cvs (← decStr r) (← decOpt m))
  | _ => none

def handleParse (ty : String) (args : List String) : Option String :=
  match enumByName ty, args with
  | some e, [t] => do
    let s ← decStr t
    pure (match parseOf e s with | some v => s!"ok {name v}" | none => "err")
  | some _, _ => none
  | none, _ =>
  if checksumTypes.contains ty then
    match args with
    | [t] => do
      let s ← decStr t
      pure (match Checksum.parse s with
        | some c => s!"ok {encStr c.hash} {showNat c.size} {encStr c.filename}"
        | none => "err")
    | _ => none
  else match ty, args with
  | "File", [t] => do
    let s ← decStr t
    pure (match ChangesFile.parse s with
      | some c => s!"ok {encStr c.md5sum} {showNat c.size} {encStr c.section_} {name c.priority} {encStr c.filename}"
      | none => "err")
  | "PackageListEntry", [t] => do
    let s ← decStr t
    pure (match PkgEntry.parse s with
      | some e => s!"ok {encStr e.package} {encStr e.ptype} {encStr e.section_} {name e.priority} [{encList (e.extra.map (·.1))}] [{encList (e.extra.map (·.2))}]"
      | none => "err")
  | "BuildProfile", [t] => do
    let s ← decStr t
    pure (match BuildProfile.parse s with
      | .enabled x => s!"ok Enabled {encStr x}"
      | .disabled x => s!"ok Disabled {encStr x}")
  | "ParsedVcs", [t] => do
    let s ← decStr t
    let v := ParsedVcs.parse s
    pure s!"ok {encStr v.repoUrl} {encOpt v.branch} {encOpt v.subpath}"
  | "Vcs", [n, t] => do
    let n ← decStr n
    let s ← decStr t
    pure (match Vcs.fromField n s with | some v => s!"ok {showVcs v}" | none => "err")
  | "Identity", [t] => do
    let s ← decStr t
    pure (match identityParse s with | some r => s!"ok {encStr r.1} {encStr r.2}" | none => "err")
  | "Origin", [t] => do
    let s ← decStr t
    pure s!"ok {showOrigin (Origin.parse s)}"
  | "AppliedUpstream", [t] => do
    let s ← decStr t
    pure s!"ok {showOrigin (Origin.parse s)}"
  | "OriginField", [t] => do
    let s ← decStr t
    let r := parseOrigin s
    pure s!"ok {match r.1 with | some c => name c | none => "none"} {showOrigin r.2}"
  | "Forwarded", [t] => do
    let s ← decStr t
    pure (match Forwarded.parse s with | .kw v => s!"ok {name v}" | .yes x => s!"ok Yes {encStr x}")
  | "License", [t] => do
    let s ← decStr t
    pure (match License.parse s with
      | .name n => s!"ok Name {encStr n}"
      | .text x => s!"ok Text {encStr x}"
      | .named n x => s!"ok Named {encStr n} {encStr x}")
  | "Signature", [t] => do
    let s ← decStr t
    pure (match Signature.parse s with
      | .keyBlock x => s!"ok KeyBlock {encStr x}"
      | .keyPath x => s!"ok KeyPath {encStr x}")
  | _, _ => none

def handlePrint (ty : String) (args : List String) : Option String :=
  match enumByName ty, args with
  | some e, [v] =>
    some (match printOf e v.toList with | some k => encStr k | none => "bad-value")
  | some _, _ => none
  | none, _ =>
  if checksumTypes.contains ty then
    match args with
    | [h, n, f] => do
      let h ← decStr h
      let f ← decStr f
      pure (match decSize n with
        | some n => encStr (Checksum.print ⟨h, n, f⟩)
        | none => "bad-value")
    | _ => none
  else match ty, args with
  | "File", [m, n, sec, pr, f] => do
    let m ← decStr m
    let sec ← decStr sec
    let f ← decStr f
    pure (match decSize n, printOf Gen.Enums.priority pr.toList with
      | some n, some _ => encStr (ChangesFile.print ⟨m, n, sec, pr.toList, f⟩)
      | _, _ => "bad-value")
  | "PackageListEntry", [p, t, sec, pr, ks, vs] => do
    let p ← decStr p
    let t ← decStr t
    let sec ← decStr sec
    let ks ← decList ks
    let vs ← decList vs
    if ks.length != vs.length then none
    else
      pure (match printOf Gen.Enums.priority pr.toList with
        | none => "bad-value"
        | some _ =>
          let m := (ks.zip vs).foldl (fun m kv => mapInsert kv.1 kv.2 m) []
          let e : PkgEntry := ⟨p, t, sec, pr.toList, m⟩
          encStr (PkgEntry.print e))
  | "BuildProfile", [k, x] => do
    let x ← decStr x
    match k with
    | "Enabled" => pure (encStr (BuildProfile.print (.enabled x)))
    | "Disabled" => pure (encStr (BuildProfile.print (.disabled x)))
    | _ => none
  | "ParsedVcs", [u, b, p] => do
    let u ← decStr u
    let b ← decOpt b
    let p ← decOpt p
    pure (encStr (ParsedVcs.print ⟨u, b, p⟩))
  | "Vcs", args => do
    let v ← decVcs args
    let r := Vcs.toField v
    pure s!"{encStr r.1} {encStr r.2}"
  | "Identity", [n, e] => do
    let n ← decStr n
    let e ← decStr e
    pure (encStr (identityText n e))
  | "Origin", [k, x] => do
    let o ← decOrigin k x
    pure (encStr o.print)
  | "AppliedUpstream", [k, x] => do
    let o ← decOrigin k x
    pure (encStr o.print)
  | "OriginField", [c, k, x] => do
    let o ← decOrigin k x
    if c == "none" then pure (encStr (formatOrigin none o))
    else match printOf Gen.Enums.originCategory c.toList with
      | some _ => pure (encStr (formatOrigin (some c.toList) o))
      | none => pure "bad-value"
  | "Forwarded", ["Yes", x] => do
    let x ← decStr x
    pure (encStr (Forwarded.print (.yes x)))
  | "Forwarded", [k] =>
    some (match printOf Gen.Enums.forwarded k.toList with
      | some s => encStr s
      | none => "bad-value")
  | "License", ["Name", n] => do pure (encStr (License.print (.name (← decStr n))))
  | "License", ["Text", t] => do pure (encStr (License.print (.text (← decStr t))))
  | "License", ["Named", n, t] => do pure (encStr (License.print (.named (← decStr n) (← decStr t))))
  | "Signature", ["KeyBlock", s] => do pure (encStr (Signature.print (.keyBlock (← decStr s))))
  | "Signature", ["KeyPath", s] => do pure (encStr (Signature.print (.keyPath (← decStr s))))
  | _, _ => none

/-- `sub=<subpath()> url=<to_branch_url(): some <text> | none | PANIC>` -/
def showBranchUrl (v : Vcs) : String :=
  let u := match Vcs.toBranchUrl v with
    | .ok (some t) => s!"some {encStr t}"
    | .ok none => "none"
    | .panic _ => "PANIC"
  s!"sub={encOpt (Vcs.subpath v)} url={u}"

/-- `vcs.branchurl v <variant> <fields…>` on a value; `vcs.branchurl f <name> <value>` on the result
    of `Vcs::from_field` -/
def handleBranchUrl (args : List String) : Option String :=
  match args with
  | "v" :: rest => do
    let v ← decVcs rest
    pure (showBranchUrl v)
  | ["f", n, t] => do
    let n ← decStr n
    let s ← decStr t
    pure (match Vcs.fromField n s with
      | some v => s!"ok {showVcs v} {showBranchUrl v}"
      | none => "err")
  | _ => none

def handle (op : String) (args : List String) : Option String :=
  if op == "vcs.branchurl" then handleBranchUrl args else
  match op.splitOn "." with
  | ["codec", ty, "parse"] => handleParse ty args
  | ["codec", ty, "print"] => handlePrint ty args
  | _ => none

end Deb822Verif.Driver.Codec
