def hello := "world"
