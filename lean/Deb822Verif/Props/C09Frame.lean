import Deb822Verif.Lemmas.RelParseFrameTree
import Deb822Verif.Lemmas.RelParseFramePanic
/-!
# C09, second part — exact frame of `Entry::from_str` / `Relation::from_str`, converses, panic-freedom

Strengthens `Props/C09.lean` (whose statements are unchanged):

* A. `C09_entry_substring` / `C09_relation_substring` only said `e.text <:+: s`. What holds is an exact
  frame: `s = pre ++ e.text ++ post`, where `pre` and `post` consist of separator characters only
  (space, tab, CR, LF, comma), `e.text` starts with an identifier character — so `pre` is exactly the
  longest separator prefix of `s` — and `post` is empty or `white space / LF, ',', separators`
  (`C09_entry_frame`, `C09_entry_pre_unique`, tree level: `C09_entry_tree_frame`). For `Relation::from_str`: the ENTRY is the RELATION followed by white space /
  line feeds `w` only, `s = pre ++ r.text ++ w ++ post`, and `w` and `post` are not both non-empty
  (`C09_relation_frame`).
* B. converses: `Entry::from_str` is `Ok` exactly when `Relations::from_str` is `Ok` and the root has
  exactly one ENTRY child; `Relation::from_str` when moreover that ENTRY has exactly one RELATION child
  (`C09_entry_iff`, `C09_relation_iff`, with the returned node: `C09_entry_ok_iff`, `C09_relation_ok_iff`),
  and the three error cases of each (`C09_entry_error_iff`, `C09_relation_error_iff`).
* C. explicit panic-freedom: `Lemmas/RelParseFramePanic.lean` defines a twin of the parser with a flag
  raised by `bump()` on an empty token stack (all 26 `bump()` call sites are listed there);
  `C09_twin_result`: the twin computes the model's result; `C09_no_panic`: the flag is never raised;
  `C09_panic_flag_not_vacuous`: it is raised when a guard is missing.
-/
namespace Deb822Verif.Props.C09
open Deb822Verif Rel Node PR

/-! ### A. frame -/

theorem readStrict_ok {s root} (h : readStrict s = .ok root) :
    (parse s false).errors = [] ∧ root = (parse s false).tree := by
  unfold readStrict at h
  split at h
  · rename_i he
    simp at h
    exact ⟨by simpa using he, h.symm⟩
  · simp at h

/-- everything the two frame theorems need, at tree level -/
theorem entry_core (s : Str) (e : RNode) (h : readEntry s = .ok e) :
    ∃ root a b t r, readStrict s = .ok root ∧ root = Node.node .ROOT (a ++ e :: b) ∧
      (∀ n ∈ a, isSepTok n = true) ∧ (∀ n ∈ b, isSepTok n = true) ∧ t.1 = Kind.IDENT ∧
      e = Node.node .ENTRY (entryLoop (t :: r)).nodes ∧ (entryLoop (t :: r)).errs = [] ∧
      ((entryLoop (t :: r)).rest = [] → b = []) ∧ Follow b := by
  obtain ⟨root, hr, he⟩ := readEntry_ok h
  obtain ⟨herr, hroot⟩ := readStrict_ok hr
  simp only [parse, parseTokens] at herr hroot
  have hshape : RootShape ((skipWs (lex s)).nodes ++ (rootLoop false (skipWs (lex s)).rest).nodes) :=
    RootShape.wss (skipWs_nodes_ws _) (rootLoop_shape _ herr)
  subst hroot
  simp only [childNodes, Node.children] at he
  obtain ⟨a, b, hab, ha, hb⟩ := filter_eq_singleton he
  have hpe : (e.isNode && e.kind == Kind.ENTRY) = true := by
    have : e ∈ List.filter (fun c => c.isNode && c.kind == Kind.ENTRY)
        ((skipWs (lex s)).nodes ++ (rootLoop false (skipWs (lex s)).rest).nodes) := by rw [he]; simp
    exact (List.mem_filter.mp this).2
  obtain ⟨hsa, hrest⟩ := RootShape.split hshape hab ha
  rcases RootShape.cons_inv hrest with ⟨h1, _⟩ | ⟨t, r, ht, hE, hee, hlast, hfol, hbs⟩
  · rw [isSepTok_not_node h1] at hpe; cases hpe
  · exact ⟨_, a, b, t, r, hr, by rw [hab], hsa, hbs.all_sep hb, ht, hE, hee, hlast, hfol⟩

/-- every token below a child of the strict reader's root is a token of `lex s` -/
theorem leaves_good {s root} (hr : readStrict s = .ok root) {n : RNode} (hn : n ∈ root.children) :
    ∀ l ∈ n.leaves, TokGood l := by
  intro l hl
  have h1 := leaves_mem_children hn l hl
  rw [(readStrict_ok hr).2] at h1
  simp only [parse] at h1
  rw [C09_tokens_once] at h1
  exact lex_good s l h1

theorem seps_text {s root} (hr : readStrict s = .ok root) {a : List RNode}
    (hsub : ∀ n ∈ a, n ∈ root.children) (ha : ∀ n ∈ a, isSepTok n = true) :
    ∀ c ∈ textList a, sep c = true := by
  intro c hc
  obtain ⟨n, hn, hcn⟩ := mem_textList hc
  exact sepTok_text (ha n hn) (leaves_good hr (hsub n hn)) c hcn

theorem wss_text {s root} (hr : readStrict s = .ok root) {a : List RNode}
    (hsub : ∀ n ∈ a, n ∈ root.children) (ha : ∀ n ∈ a, isWsTok n = true) :
    ∀ c ∈ textList a, isWs c = true ∨ c = '\n' := by
  intro c hc
  obtain ⟨n, hn, hcn⟩ := mem_textList hc
  exact wsTok_text (ha n hn) (leaves_good hr (hsub n hn)) c hcn

/-- text of what follows the ENTRY: nothing, or white space / line feeds and then a comma -/
theorem follow_text {s root} (hr : readStrict s = .ok root) {b : List RNode}
    (hsub : ∀ n ∈ b, n ∈ root.children) (hf : Follow b) :
    textList b = [] ∨ ∃ w rest, textList b = w ++ ',' :: rest ∧ ∀ c ∈ w, isWs c = true ∨ c = '\n' := by
  rcases hf with rfl | ⟨w, c, more, rfl, hw, hc⟩
  · left; simp
  · right
    have hg : TokGood c := leaves_good hr (hsub (tk c) (by simp)) c (by simp)
    refine ⟨textList w, textList more, ?_, wss_text hr (fun n hn => hsub n (by simp [hn])) hw⟩
    have := hg.comma hc
    simp [this]

/-- tree-level frame of `Entry::from_str`: the root of the strict reader is
    `separator tokens, the ENTRY, separator tokens` (WHITESPACE / NEWLINE / COMMA) -/
theorem C09_entry_tree_frame (s : Str) (e : RNode) (h : readEntry s = .ok e) :
    ∃ root a b, readStrict s = .ok root ∧ root = Node.node .ROOT (a ++ e :: b) ∧
      (∀ n ∈ a, isSepTok n = true) ∧ (∀ n ∈ b, isSepTok n = true) := by
  obtain ⟨root, a, b, t, r, hr, hroot, ha, hb, _⟩ := entry_core s e h
  exact ⟨root, a, b, hr, hroot, ha, hb⟩

/-- the ENTRY `parse_entry` builds when entered at the IDENT `t` starts with the text of `t` -/
theorem entry_text_head (t : Tok) (r : List Tok) (ht : t.1 = .IDENT) :
    ∃ X Y, (entryLoop (t :: r)).nodes = Node.node .RELATION (tk t :: X) :: Y := by
  obtain ⟨Y, hY⟩ := entryLoop_head (t :: r)
  obtain ⟨X, hX⟩ := parseRelation_ident t r ht
  exact ⟨X, Y, by rw [hY, hX]; rfl⟩

/-- **Exact frame of `Entry::from_str`.** When it accepts `s`, the entry's text is `s` minus a prefix and
    a suffix that consist of separator characters only (space, tab, CR, LF, comma); the entry's text is not
    empty and starts with an identifier character (which is not a separator); the suffix is empty or is
    white space / line feeds, a comma, and more separators (an entry ends at end of input or at a comma).
    `pre` is arbitrary among separator strings (",\n a" is accepted). -/
theorem C09_entry_frame (s : Str) (e : RNode) (h : readEntry s = .ok e) :
    ∃ pre post, s = pre ++ e.text ++ post ∧ (∀ c ∈ pre, sep c = true) ∧ (∀ c ∈ post, sep c = true) ∧
      e.text ≠ [] ∧ (∃ c rest, e.text = c :: rest ∧ isIdentChar c = true) ∧
      (post = [] ∨ ∃ w rest, post = w ++ ',' :: rest ∧ ∀ c ∈ w, isWs c = true ∨ c = '\n') := by
  obtain ⟨root, a, b, t, r, hr, hroot, ha, hb, ht, hE, _, _, hfol⟩ := entry_core s e h
  have hs := C09_strict_roundtrip s root hr
  have hch : root.children = a ++ e :: b := by rw [hroot]; rfl
  have hhead : ∃ c rest, e.text = c :: rest ∧ isIdentChar c = true := by
    obtain ⟨X, Y, hXY⟩ := entry_text_head t r ht
    have hmem : e ∈ root.children := by rw [hch]; simp
    have hg : TokGood t := by
      refine leaves_good hr hmem t ?_
      rw [hE, hXY]; simp
    obtain ⟨c, rest, hc, hi⟩ := hg.ident ht
    refine ⟨c, rest ++ (textList X ++ textList Y), ?_, hi⟩
    rw [hE, hXY]; simp [hc]
  refine ⟨textList a, textList b, ?_, ?_, ?_, ?_, hhead,
    follow_text hr (fun n hn => by rw [hch]; simp [hn]) hfol⟩
  · rw [← hs, hroot]; simp
  · exact seps_text hr (fun n hn => by rw [hch]; simp [hn]) ha
  · exact seps_text hr (fun n hn => by rw [hch]; simp [hn]) hb
  · obtain ⟨c, rest, hc, _⟩ := hhead; rw [hc]; simp

theorem takeWhile_frame {α} (p : α → Bool) (pre : List α) (c : α) (rest : List α)
    (hpre : ∀ x ∈ pre, p x = true) (hc : p c = false) : (pre ++ c :: rest).takeWhile p = pre := by
  induction pre with
  | nil => simp [hc]
  | cons x xs ih =>
    simp only [List.cons_append, List.takeWhile_cons, hpre x (by simp), if_true]
    rw [ih fun y hy => hpre y (by simp [hy])]

/-- the frame determines the split: `pre` is the longest prefix of separator characters of `s`, and the
    entry's text starts right after it -/
theorem C09_entry_pre_unique (s : Str) (e : RNode) (h : readEntry s = .ok e) :
    ∃ post, s = s.takeWhile sep ++ e.text ++ post ∧ ∀ c ∈ post, sep c = true := by
  obtain ⟨pre, post, hs, hpre, hpost, _, ⟨c, rest, hc, hi⟩, _⟩ := C09_entry_frame s e h
  have : s.takeWhile sep = pre := by
    conv => lhs; rw [hs, hc]
    simp only [List.append_assoc, List.cons_append]
    exact takeWhile_frame sep pre c _ hpre (identChar_not_sep hi)
  exact ⟨post, by rw [this]; exact hs, hpost⟩

/-- **Exact frame of `Relation::from_str`.** When it accepts `s`: the single ENTRY `e` of `s` consists of the
    RELATION followed by white space / line feeds `w` only (`skip_ws()` at end of input happens inside the
    ENTRY); `s = pre ++ r.text ++ w ++ post` with `pre`, `post` separator characters only; `w` and `post`
    are not both non-empty (`w ≠ []` only when the entry ends at end of input); the relation's text starts
    with an identifier character; `post` is empty or white space / line feeds, a comma, more separators.
    No `|` can occur in `w` or `post`. -/
theorem C09_relation_frame (s : Str) (r : RNode) (h : readRelation s = .ok r) :
    ∃ e pre w post, readEntry s = .ok e ∧ e.text = r.text ++ w ∧ s = pre ++ r.text ++ w ++ post ∧
      (∀ c ∈ pre, sep c = true) ∧ (∀ c ∈ w, isWs c = true ∨ c = '\n') ∧ (∀ c ∈ post, sep c = true) ∧
      (w = [] ∨ post = []) ∧ r.text ≠ [] ∧ (∃ c rest, r.text = c :: rest ∧ isIdentChar c = true) ∧
      (post = [] ∨ ∃ w' rest, post = w' ++ ',' :: rest ∧ ∀ c ∈ w', isWs c = true ∨ c = '\n') := by
  obtain ⟨e, he, hrel⟩ := readRelation_ok h
  obtain ⟨root, a, b, t, ts, hr, hroot, ha, hb, ht, hE, hee, hlast, hfol⟩ := entry_core s e he
  have hs := C09_strict_roundtrip s root hr
  have hch : root.children = a ++ e :: b := by rw [hroot]; rfl
  have hmem : e ∈ root.children := by rw [hch]; simp
  -- the ENTRY is the RELATION plus trailing white space
  rw [hE] at hrel
  simp only [childNodes, Node.children] at hrel
  obtain ⟨wn, hnodes, hwn, hend⟩ := entryLoop_single (t :: ts) r hee hrel
  have hEt : e.text = r.text ++ textList wn := by rw [hE, hnodes]; simp
  -- head of the relation
  have hhead : ∃ c rest, r.text = c :: rest ∧ isIdentChar c = true := by
    obtain ⟨X, Y, hXY⟩ := entry_text_head t ts ht
    rw [hnodes] at hXY
    simp only [List.cons.injEq] at hXY
    have hg : TokGood t := by
      refine leaves_good hr hmem t ?_
      rw [hE, hnodes, hXY.1]; simp
    obtain ⟨c, rest, hc, hi⟩ := hg.ident ht
    refine ⟨c, rest ++ textList X, ?_, hi⟩
    rw [hXY.1]; simp [hc]
  refine ⟨e, textList a, textList wn, textList b, he, hEt, ?_, ?_, ?_, ?_, ?_, ?_, hhead,
    follow_text hr (fun n hn => by rw [hch]; simp [hn]) hfol⟩
  · rw [← hs, hroot]; simp [hEt]
  · exact seps_text hr (fun n hn => by rw [hch]; simp [hn]) ha
  · intro c hc
    obtain ⟨n, hn, hcn⟩ := mem_textList hc
    have hne : n ∈ e.children := by rw [hE, hnodes]; simp [Node.children, hn]
    refine wsTok_text (hwn n hn) ?_ c hcn
    intro l hl
    exact leaves_good hr hmem l (leaves_mem_children hne l hl)
  · exact seps_text hr (fun n hn => by rw [hch]; simp [hn]) hb
  · rcases hend with h1 | h1
    · left; rw [h1]; simp
    · right; rw [hlast h1]; simp
  · obtain ⟨c, rest, hc, _⟩ := hhead; rw [hc]; simp

/-! ### B. converses -/

/-- `Entry::from_str(s)` is `Ok(e)` exactly when `Relations::from_str(s)` is `Ok` and `e` is the one and only
    ENTRY child of its root -/
theorem C09_entry_ok_iff (s : Str) (e : RNode) :
    readEntry s = .ok e ↔ ∃ root, readStrict s = .ok root ∧ childNodes .ENTRY root = [e] := by
  constructor
  · exact readEntry_ok
  · rintro ⟨root, hr, he⟩
    simp [readEntry, hr, he]

/-- `Entry::from_str(s)` is `Ok` exactly when the strict field reader accepts `s` (no error at all) and the
    root has exactly one ENTRY child: these are the only two checks of relations.rs:1801-1816 -/
theorem C09_entry_iff (s : Str) :
    (∃ e, readEntry s = .ok e) ↔ ∃ root, readStrict s = .ok root ∧ (childNodes .ENTRY root).length = 1 := by
  constructor
  · rintro ⟨e, h⟩
    obtain ⟨root, hr, he⟩ := readEntry_ok h
    exact ⟨root, hr, by rw [he]; rfl⟩
  · rintro ⟨root, hr, hl⟩
    match hc : childNodes .ENTRY root, hl with
    | [e], _ => exact ⟨e, (C09_entry_ok_iff s e).2 ⟨root, hr, hc⟩⟩

/-- the three `Err` cases of `Entry::from_str` (relations.rs:1802, 1808, 1812), exhaustively -/
theorem C09_entry_error_iff (s : Str) (msg : String) :
    readEntry s = .error msg ↔
      (∃ es, readStrict s = .error es ∧ msg = "\n".intercalate es) ∨
      (∃ root, readStrict s = .ok root ∧ childNodes .ENTRY root = [] ∧ msg = "No entry found") ∨
      (∃ root, readStrict s = .ok root ∧ 2 ≤ (childNodes .ENTRY root).length ∧
        msg = "Multiple entries found") := by
  unfold readEntry
  cases hr : readStrict s with
  | error es => simp; exact eq_comm
  | ok root =>
    simp only [reduceCtorEq, false_and, exists_false, false_or, Except.ok.injEq, exists_eq_left']
    match hc : childNodes .ENTRY root with
    | [] => simp; exact eq_comm
    | [e] => simp
    | _ :: _ :: _ => simp; exact eq_comm

/-- `Relation::from_str(s)` is `Ok(r)` exactly when the strict reader accepts `s`, its root has exactly one
    ENTRY child, and `r` is the one and only RELATION child of that ENTRY -/
theorem C09_relation_ok_iff (s : Str) (r : RNode) :
    readRelation s = .ok r ↔
      ∃ root e, readStrict s = .ok root ∧ childNodes .ENTRY root = [e] ∧ childNodes .RELATION e = [r] := by
  constructor
  · intro h
    obtain ⟨e, he, hr⟩ := readRelation_ok h
    obtain ⟨root, hroot, hent⟩ := readEntry_ok he
    exact ⟨root, e, hroot, hent, hr⟩
  · rintro ⟨root, e, hroot, hent, hr⟩
    have he := (C09_entry_ok_iff s e).2 ⟨root, hroot, hent⟩
    simp [readRelation, he, hr]

/-- `Relation::from_str(s)` is `Ok` exactly when: no parse error, exactly one ENTRY, with exactly one
    RELATION (relations.rs:1822-1837) -/
theorem C09_relation_iff (s : Str) :
    (∃ r, readRelation s = .ok r) ↔
      ∃ root e, readStrict s = .ok root ∧ childNodes .ENTRY root = [e] ∧
        (childNodes .RELATION e).length = 1 := by
  constructor
  · rintro ⟨r, h⟩
    obtain ⟨root, e, h1, h2, h3⟩ := (C09_relation_ok_iff s r).1 h
    exact ⟨root, e, h1, h2, by rw [h3]; rfl⟩
  · rintro ⟨root, e, h1, h2, hl⟩
    match hc : childNodes .RELATION e, hl with
    | [r], _ => exact ⟨r, (C09_relation_ok_iff s r).2 ⟨root, e, h1, h2, hc⟩⟩

/-- the `Err` cases of `Relation::from_str`: those of `Entry::from_str` (passed on unchanged), no RELATION,
    several RELATIONs -/
theorem C09_relation_error_iff (s : Str) (msg : String) :
    readRelation s = .error msg ↔
      readEntry s = .error msg ∨
      (∃ e, readEntry s = .ok e ∧ childNodes .RELATION e = [] ∧ msg = "No relation found") ∨
      (∃ e, readEntry s = .ok e ∧ 2 ≤ (childNodes .RELATION e).length ∧
        msg = "Multiple relations found") := by
  unfold readRelation
  cases hr : readEntry s with
  | error es => simp
  | ok e =>
    simp only [reduceCtorEq, false_or, Except.ok.injEq, exists_eq_left']
    match hc : childNodes .RELATION e with
    | [] => simp; exact eq_comm
    | [r] => simp
    | _ :: _ :: _ => simp; exact eq_comm

/-- in an accepted single relation there is no alternative: an ENTRY whose parse pushed no error and that
    has one RELATION child has no PIPE — the relation is the entry up to trailing white space
    (tree level of `C09_relation_frame`) -/
theorem C09_relation_tree_frame (s : Str) (r : RNode) (h : readRelation s = .ok r) :
    ∃ e w, readEntry s = .ok e ∧ e = Node.node .ENTRY (r :: w) ∧ ∀ n ∈ w, isWsTok n = true := by
  obtain ⟨e, he, hrel⟩ := readRelation_ok h
  obtain ⟨root, a, b, t, ts, hr, hroot, ha, hb, ht, hE, hee, hlast, hfol⟩ := entry_core s e he
  rw [hE] at hrel
  simp only [childNodes, Node.children] at hrel
  obtain ⟨wn, hnodes, hwn, _⟩ := entryLoop_single (t :: ts) r hee hrel
  exact ⟨e, wn, he, by rw [hE, hnodes], hwn⟩

/-! ### C. explicit panic-freedom -/

/-- the twin with the panic flag computes exactly the model's parse result, on every token list -/
theorem C09_twin_result (allow : Bool) (ts : List Tok) :
    (parseTokensP allow ts).parsed = parseTokens allow ts := parseTokensP_parsed allow ts

/-- **No `bump()` of the parser executes `pop().unwrap()` on an empty token stack**: for every token list
    (not only lexer output) and both values of `allow_substvar`, the flag that `bumpP` raises on an empty
    stack stays down through the whole run of `Parser::parse` -/
theorem C09_no_panic (allow : Bool) (ts : List Tok) : (parseTokensP allow ts).panicked = false :=
  parseTokensP_np allow ts

/-- text level: `parse(text, allow_substvar)` never panics in `bump()`, and the twin's result is the
    model's — hence all results of `Props/C09.lean` hold at inputs where the real code does not abort -/
theorem C09_no_panic_text (s : Str) (allow : Bool) :
    (parseP s allow).panicked = false ∧ (parseP s allow).parsed = parse s allow :=
  ⟨parseTokensP_np allow (lex s), parseP_parsed s allow⟩

/-- the flag is not vacuous: `bump()` on an empty stack raises it, and so does `parse_substvar` when
    entered without its caller's guard `current() == Some(DOLLAR)` (site S1); with a token both are fine -/
theorem C09_panic_flag_not_vacuous :
    (bumpP []).panicked = true ∧ (parseSubstvarP []).panicked = true ∧
    (∀ ts, (bumpP ts).panicked = true ↔ ts = []) ∧
    (∀ ts, ts ≠ [] → (parseSubstvarP ts).panicked = false) :=
  ⟨rfl, parseSubstvarP_nil_panics, bumpP_panicked, fun _ h => parseSubstvarP_np h⟩

/-! ### non-vacuity -/

/-- `C09_entry_frame` on " a | b ,": pre = " ", post = " ," -/
example : (match readEntry " a | b ,".toList with
    | .ok e => " a | b ,".toList == " ".toList ++ e.text ++ " ,".toList | _ => false) = true := by
  decide +kernel
/-- leading commas are in `pre` -/
example : (match readEntry ",\n a | b".toList with
    | .ok e => e.text == "a | b".toList | _ => false) = true := by decide +kernel
/-- trailing white space at end of input is INSIDE the entry (post = []) -/
example : (match readEntry "a (>= 1) [amd64] ".toList with
    | .ok e => e.text == "a (>= 1) [amd64] ".toList | _ => false) = true := by decide +kernel
example : (match readEntry "a (>= 1) [amd64]".toList with
    | .ok e => e.text == "a (>= 1) [amd64]".toList | _ => false) = true := by decide +kernel
/-- rejected: two entries / a parse error / no entry -/
example : (match readEntry "a, b".toList with | .error m => m == "Multiple entries found" | _ => false) = true := by decide +kernel
example : (match readEntry " , ".toList with | .error m => m == "No entry found" | _ => false) = true := by decide +kernel
example : (match readEntry "a (".toList with | .error _ => true | _ => false) = true := by decide +kernel
/-- `C09_relation_frame` on "\n a (= 1) ": pre = "\n ", w = " " (inside the entry), post = "" -/
example : (match readRelation "\n a (= 1) ".toList, readEntry "\n a (= 1) ".toList with
    | .ok r, .ok e => r.text == "a (= 1)".toList && e.text == "a (= 1) ".toList | _, _ => false) = true := by
  decide +kernel
/-- … and on "a (>= 1) [amd64] ,": w = "" and post = " ," -/
example : (match readRelation "a (>= 1) [amd64] ,".toList, readEntry "a (>= 1) [amd64] ,".toList with
    | .ok r, .ok e => r.text == "a (>= 1) [amd64]".toList && e.text == "a (>= 1) [amd64]".toList
    | _, _ => false) = true := by
  decide +kernel
/-- an architecture qualifier swallows the white space after it: the relation text may end in white space -/
example : (match readRelation "a:any ,".toList with
    | .ok r => r.text == "a:any ".toList | _ => false) = true := by decide +kernel
example : (match readRelation "a | b".toList with | .error m => m == "Multiple relations found" | _ => false) = true := by decide +kernel
example : (match readRelation "a, b".toList with | .error m => m == "Multiple entries found" | _ => false) = true := by decide +kernel
/-- right-hand sides of the `iff`s are satisfiable -/
example : (match readStrict " a | b ,".toList with
    | .ok root => (childNodes .ENTRY root).length == 1 | _ => false) = true := by decide +kernel
/-- the twin on concrete texts -/
example : (parseP "a (>= 1) [!b] <!c d>, ${x:y} | é\n $".toList true).panicked = false := C09_no_panic _ _
example : (parseP "a ( [ <".toList false).panicked = false := by decide +kernel

end Deb822Verif.Props.C09
