import Deb822Verif.Model.CtlWrap
import Deb822Verif.Props.C13Pairs
/-!
# C07 — the exact trigger of finding F-C07-8 (numbers above `i32::MAX` in a relationship field)

`Model/CtlWrap.lean` normalises relationship fields with the total order `DebVersion.compare`; the
real `format_field` calls `Relations::wrap_and_sort`, whose `Version::cmp` panics when a comparison
reaches a numeric component above `i32::MAX`.  `formatFieldR` is `format_field` as it runs (with
`C13.relationsWrapO`).  The trigger `ctlBig` of the driver (and, on the real objects, of the worker:
`reledit::sort_may_panic`) is the algorithm-independent one of `Props/C13Pairs.lean`:

* every relationship field the formatter normalises can be read by the accessors, and
* in one of them two DISTINCT elements of a list that gets sorted cannot be compared.

Outside the trigger the real formatter is the model's on every normalised field
(`C07_formatField_exact`): `BIGNUM` is answered only where a sort may really meet the panic.
(The earlier trigger `Ctl.hasBigNumber` fired on a single big number and on big numbers under
distinct package names, where nothing is compared: whole control files went unobserved.)

This file is imported by the model driver; it holds definitions and the statement that justifies
them, the other C07 additions are in `Props/C07More.lean`.
-/
namespace Deb822Verif.Props.C07More
open Deb822Verif Deb Rel Ctl

/-- `format_field` as it runs: relationship fields through `Relations::wrap_and_sort` with the real,
    panicking `Version::cmp` (`none` = the call panics) -/
def formatFieldR (name value : Str) : Option Str :=
  if name = kUploaders then some (fmtCommaLines name value)
  else if relFields.contains name then
    if !(Rel.parse value true).errors.isEmpty then some value
    else match C13.relationsWrapO (Rel.parse value true).tree with
      | .ok t => some t.text
      | .panic _ => none
  else some value

/-- the verdict of `C13.sortMayPanic` on the field, when `Entry::wrap_and_sort` hands it to the
    formatter and the formatter normalises it (`none` otherwise): a field with a name among the twelve,
    no comment or error token in the value, read without error -/
def entryVerdict (e : DNode) : Option (Option Bool) :=
  match entryKey e, fmtArg e with
  | some k, some v =>
    if relFields.contains k && (Rel.parse v true).errors.isEmpty then
      some (C13.sortMayPanic (Rel.parse v true).tree)
    else none
  | _, _ => none

/-- the paragraphs the request reformats: all of them (`d`, `Control::wrap_and_sort`) or the first
    (`p`, `Source` / `Binary::wrap_and_sort`) -/
def wrappedParas (level : String) (root : DNode) : List DNode :=
  if level == "d" then paragraphs root else (paragraphs root).take 1

def verdicts (level : String) (root : DNode) : List (Option Bool) :=
  ((wrappedParas level root).map fun p => (entries p).filterMap entryVerdict).flatten

/-- **trigger of F-C07-8**: every normalised relationship field can be read by the accessors and one of
    them has two distinct elements that get sorted and cannot be compared -/
def ctlBig (level : String) (root : DNode) : Bool :=
  (verdicts level root).all Option.isSome && (verdicts level root).any (· == some true)

/-- **outside the trigger the formatter as it runs is the model's.** For a field the formatter
    normalises (`Rel.parse` without error) whose verdict is not `some true`: `format_field` with the
    real `Version::cmp` returns what `Ctl.formatFieldO` returns, or both panic (verdict `none`: an
    accessor `unwrap`); for every other name / value the two are the same function. -/
theorem C07_formatField_exact (name value : Str)
    (h : relFields.contains name = true → (Rel.parse value true).errors = [] →
      C13.sortMayPanic (Rel.parse value true).tree ≠ some true) :
    (formatFieldR name value).isSome = (formatFieldO name value).isSome
      ∧ ((formatFieldO name value).isSome = true → formatFieldR name value = formatFieldO name value) := by
  unfold formatFieldR formatFieldO
  by_cases hu : name = kUploaders
  · simp [hu]
  · rw [if_neg hu, if_neg hu]
    by_cases hr : relFields.contains name = true
    · rw [if_pos hr, if_pos hr]
      by_cases he : (Rel.parse value true).errors = []
      · have he' : (!(Rel.parse value true).errors.isEmpty) = false := by simp [he]
        simp only [he', Bool.false_eq_true, if_false]
        cases hv : C13.sortMayPanic (Rel.parse value true).tree with
        | none =>
          obtain ⟨s, hs⟩ := (C13.C13_sortMayPanic_none _).1 hv
          have hO := C13.C13_wrapO_none _ hv
          rw [hs]
          cases hO' : C13.relationsWrapO (Rel.parse value true).tree with
          | ok t => rw [hO'] at hO; cases hO
          | panic s' => simp
        | some b =>
          cases b with
          | true => exact absurd hv (h hr he)
          | false =>
            rw [C13.C13_wrapO_pairs _ hv]
            exact ⟨rfl, fun _ => rfl⟩
      · have he' : (!(Rel.parse value true).errors.isEmpty) = true := by
          cases hE : (Rel.parse value true).errors with
          | nil => exact absurd hE he
          | cons a as => rfl
        simp [he']
    · rw [if_neg hr, if_neg hr]; simp

/-- non-vacuity: `b (>= 3000000000), a (>= 3000000001)` under `Depends` — two numbers above
    `i32::MAX`, the old trigger fired, the real formatter does not panic and is the model's -/
example : relFields.contains "Depends".toList = true
    ∧ (Rel.parse "b (>= 3000000000), a (>= 3000000001)".toList true).errors = []
    ∧ C13.sortMayPanic (Rel.parse "b (>= 3000000000), a (>= 3000000001)".toList true).tree = some false := by
  refine ⟨by decide, by decide +kernel, by decide +kernel⟩

end Deb822Verif.Props.C07More
