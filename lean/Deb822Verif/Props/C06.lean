import Deb822Verif.Model.DebLossy
import Deb822Verif.Model.DebAccess
/-!
# C06 — lossy and lossless deb822 readers agree on content
-/
namespace Deb822Verif.Props.C06
open Deb822Verif Deb

/-- non-blank value lines -/
def nb (v : Str) : List Str := (Text.splitOn '\n' v).filter (· ≠ [])

/-- the lexer never produces a composite kind, so the lossy reader's `unreachable!()` arm is
    never taken: both readers consume the same token alphabet -/
def isTokenKind : Kind → Bool
  | .KEY | .VALUE | .COLON | .INDENT | .NEWLINE | .WHITESPACE | .COMMENT | .ERROR => true
  | _ => false

theorem lexStep_kind (st c rest) : isTokenKind (lexStep st c rest).1.1 = true := by
  unfold lexStep; (repeat' split) <;> rfl

theorem C06_lex_kinds (st : LexState) (s : Str) : ∀ t ∈ lexAux st s, isTokenKind t.1 = true := by
  fun_induction lexAux st s with
  | case1 => simp
  | case2 st c rest r ih =>
    intro t ht
    simp only [List.mem_cons] at ht
    rcases ht with rfl | ht
    · exact lexStep_kind st c rest
    · exact ih t ht

end Deb822Verif.Props.C06
