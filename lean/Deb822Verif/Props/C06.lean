import Deb822Verif.Model.DebLossy
import Deb822Verif.Model.DebAccess
import Deb822Verif.Lemmas.DebLexLines
import Deb822Verif.Lemmas.DebLossyDoc
import Deb822Verif.Lemmas.DebLexInv
import Deb822Verif.Lemmas.DebTokAgree
import Deb822Verif.Props.C03
/-!
# C06 — lossy and lossless deb822 readers agree on content
-/
namespace Deb822Verif.Props.C06
open Deb822Verif Deb

/-- non-blank value lines -/
def nb (v : Str) : List Str := (Text.splitOn '\n' v).filter (· ≠ [])

/-- the lexer never produces a composite kind, so the lossy reader's `unreachable!()` arm is
    never taken: both readers consume the same token alphabet -/
def isTokenKind : Kind → Bool
  | .KEY | .VALUE | .COLON | .INDENT | .NEWLINE | .WHITESPACE | .COMMENT | .ERROR => true
  | _ => false

theorem lexStep_kind (st c rest) : isTokenKind (lexStep st c rest).1.1 = true := by
  unfold lexStep; (repeat' split) <;> rfl

theorem C06_lex_kinds (st : LexState) (s : Str) : ∀ t ∈ lexAux st s, isTokenKind t.1 = true := by
  fun_induction lexAux st s with
  | case1 => simp
  | case2 st c rest r ih =>
    intro t ht
    simp only [List.mem_cons] at ht
    rcases ht with rfl | ht
    · exact lexStep_kind st c rest
    · exact ih t ht

end Deb822Verif.Props.C06

namespace Deb822Verif.Props.C06
open Deb822Verif Deb Spec Node

/-! ### joint acceptance of well-formed documents, with the same content -/

theorem splitOn_line (l rest : Str) (h : '\n' ∉ l) :
    Text.splitOn '\n' (l ++ '\n' :: rest) = l :: Text.splitOn '\n' rest := by
  induction l with
  | nil => simp [Text.splitOn]
  | cons c cs ih =>
    have hc : c ≠ '\n' := by intro e; apply h; simp [e]
    have hcs : '\n' ∉ cs := by intro e; apply h; simp [e]
    simp [Text.splitOn, hc, ih hcs]

theorem splitOn_single (l : Str) (h : '\n' ∉ l) : Text.splitOn '\n' l = [l] := by
  induction l with
  | nil => simp [Text.splitOn]
  | cons c cs ih =>
    have hc : c ≠ '\n' := by intro e; apply h; simp [e]
    have hcs : '\n' ∉ cs := by intro e; apply h; simp [e]
    simp [Text.splitOn, hc, ih hcs]

theorem splitOn_join (ls : List Str) (hne : ls ≠ []) (h : ∀ l ∈ ls, '\n' ∉ l) :
    Text.splitOn '\n' (Text.join ['\n'] ls) = ls := by
  induction ls with
  | nil => exact absurd rfl hne
  | cons a ls ih =>
    cases ls with
    | nil => simpa [Text.join] using splitOn_single a (h a (by simp))
    | cons b ls =>
      have := ih (by simp) (fun l hl => h l (by simp [hl]))
      simp only [Text.join, List.append_assoc, List.cons_append, List.nil_append]
      rw [splitOn_line a _ (h a (by simp)), this]

/-- the non-blank lines of lines joined by "\n" are the non-empty ones among them -/
theorem nb_join (ls : List Str) (h : ∀ l ∈ ls, '\n' ∉ l) :
    nb (Text.join ['\n'] ls) = ls.filter (· ≠ []) := by
  cases ls with
  | nil => simp [nb, Text.join, Text.splitOn]
  | cons a ls => simp only [nb]; rw [splitOn_join _ (by simp) h]

theorem noNl_noLF {s : Str} (h : NoNl s) : '\n' ∉ s := by
  intro hm; have := h '\n' hm; simp [isNewline] at this

theorem entry_lines_noLF (e : EntryS) (h : e.WF) : ∀ l ∈ e.v :: e.conts.map ContS.text, '\n' ∉ l := by
  intro l hl
  simp only [List.mem_cons, List.mem_map] at hl
  rcases hl with rfl | ⟨c, hc, rfl⟩
  · exact noNl_noLF h.v_ok.1
  · exact noNl_noLF (h.conts_ok c hc).text_ok.1

/-- per field: lossy value and lossless value have the same non-blank lines -/
theorem nb_entry (e : EntryS) (h : e.WF) : nb (lossyValue e) = nb e.content.2 := by
  have h1 := nb_join (e.v :: e.conts.map ContS.text) (entry_lines_noLF e h)
  have h2 := nb_join e.valueLines (by
    intro l hl
    apply entry_lines_noLF e h l
    simp only [EntryS.valueLines, List.mem_append, List.mem_map] at hl
    rcases hl with hl | hl
    · split at hl <;> simp_all
    · simp only [List.mem_cons, List.mem_map]; right; exact hl)
  simp only [lossyValue, EntryS.content] at *
  rw [h1, h2]
  have hc : ∀ c ∈ e.conts, c.text ≠ [] := by
    intro c hc; obtain ⟨_, x, xs, hx, _⟩ := (h.conts_ok c hc).text_ok; rw [hx]; simp
  have : (e.conts.map ContS.text).filter (· ≠ []) = e.conts.map ContS.text := by
    apply List.filter_eq_self.2
    intro l hl; simp only [List.mem_map] at hl; obtain ⟨c, hc', rfl⟩ := hl
    simpa using hc c hc'
  simp only [EntryS.valueLines, List.filter_cons, List.filter_append, this]
  by_cases hv : e.v = [] <;> simp [hv]

/-- a field as (name, non-blank value lines) -/
def nbField (f : Str × Str) : Str × List Str := (f.1, nb f.2)

theorem nb_items (is : List PItem) (h : ∀ i ∈ is, i.WF) :
    (lossyItems is).map nbField = ((is.map PItem.content).flatten).map nbField := by
  induction is with
  | nil => rfl
  | cons i is ih =>
    have := ih (fun x hx => h x (by simp [hx]))
    cases i with
    | comment t nl => simpa [lossyItems, itemEntries, PItem.content] using this
    | entry e =>
      have he : e.WF := h (.entry e) (by simp)
      simp only [lossyItems, itemEntries, List.map_cons, PItem.content, List.flatten_cons,
        List.cons_append, List.nil_append] at this ⊢
      rw [this]
      simp [nbField, lossyEntry, nb_entry e he, EntryS.content]

/-- **C06, clause 2**: both readers accept every well-formed document (in the sense of C03), and
    report the same paragraphs, the same field names in the same order and, for every field, the
    same sequence of non-blank value lines -/
theorem C06_joint_accept (d : DocS) (h : d.WF) :
    Lossy.read d.str = .ok (lossyDoc d) ∧ readStrict d.str = .ok d.tree ∧
    (lossyDoc d).map (·.map nbField) = (docItems d.tree).map (·.map nbField) := by
  refine ⟨?_, ?_, ?_⟩
  · unfold Lossy.read; rw [lex_doc d h]; exact lossy_doc d h
  · simp [readStrict, parse, lex_doc d h, parse_doc d h]
  · rw [docItems_tree]
    simp only [lossyDoc, DocS.content, List.map_map]
    apply List.map_congr_left
    intro pg hpg
    have hp := (h.paras_ok pg hpg).1
    simp only [Function.comp, lossyPara, ParaS.content, List.map_cons]
    rw [nb_items pg.1.rest hp.rest_ok]
    simp [nbField, lossyEntry, nb_entry pg.1.first hp.first_ok, EntryS.content]

/-- non-vacuity: the concrete document of Props/C03 (comments everywhere, duplicate names, an
    empty first line, a ':' continuation, no final newline) is in the domain -/
example : Lossy.read Props.C03.exDoc.str = .ok (lossyDoc Props.C03.exDoc) :=
  (C06_joint_accept _ (by decide)).1

end Deb822Verif.Props.C06

namespace Deb822Verif.Props.C06
open Deb822Verif Deb

/-! ### clause 1: agreement on ARBITRARY texts that both readers accept

The proof does not go through the document grammar `Spec/DocS`: `Lemmas/DebLexInv.lean` proves three
facts about `lex s` for every text `s` (a VALUE token ends its line, no WHITESPACE token at the start
of a line, no line terminator inside a VALUE token), and `Lemmas/DebTokAgree.lean` runs the two
reader loops in lock step over any token list with these properties. -/

abbrev Content := List (List (Str × Str))

/-- the relation between the two contents: same paragraphs, same names in the same order, same
    non-blank value lines -/
def contentRel (d : Lossy.Doc) (c : Content) : Prop := d.map (·.map nbField) = c.map (·.map nbField)

/-- the oracle of `deb.both` (harness/src/lossy.rs, `nb_eq`) transcribed: same number of
    paragraphs; per paragraph the same list of names; per field the same non-blank value lines -/
def nbEq (a b : Content) : Bool :=
  a.length == b.length &&
  (a.zip b).all fun pq =>
    (pq.1.map (·.1) == pq.2.map (·.1)) &&
    (pq.1.zip pq.2).all fun fg => nb fg.1.2 == nb fg.2.2

theorem map_eq_map_iff_zip {α β γ : Type} (f : α → γ) (g : β → γ) (l1 : List α) (l2 : List β) :
    l1.map f = l2.map g ↔ l1.length = l2.length ∧ ∀ p ∈ l1.zip l2, f p.1 = g p.2 := by
  induction l1 generalizing l2 with
  | nil => cases l2 <;> simp
  | cons a l1 ih =>
    cases l2 with
    | nil => simp
    | cons b l2 =>
      simp only [List.map_cons, List.cons.injEq, ih, List.length_cons, Nat.add_right_cancel_iff,
        List.zip_cons_cons, List.mem_cons, forall_eq_or_imp]
      constructor
      · rintro ⟨h1, h2, h3⟩; exact ⟨h2, h1, h3⟩
      · rintro ⟨h1, h2, h3⟩; exact ⟨h2, h1, h3⟩

theorem para_rel_iff (p q : List (Str × Str)) :
    p.map nbField = q.map nbField ↔
      p.map (·.1) = q.map (·.1) ∧ ∀ fg ∈ p.zip q, nb fg.1.2 = nb fg.2.2 := by
  rw [map_eq_map_iff_zip, map_eq_map_iff_zip]
  simp only [nbField, Prod.mk.injEq]
  constructor
  · rintro ⟨h1, h2⟩; exact ⟨⟨h1, fun fg h => (h2 fg h).1⟩, fun fg h => (h2 fg h).2⟩
  · rintro ⟨⟨h1, h2⟩, h3⟩; exact ⟨h1, fun fg h => ⟨h2 fg h, h3 fg h⟩⟩

/-- `contentRel` is exactly what the harness oracle evaluates -/
theorem contentRel_iff_oracle (d : Lossy.Doc) (c : Content) : contentRel d c ↔ nbEq d c = true := by
  unfold contentRel nbEq
  rw [map_eq_map_iff_zip]
  simp only [Bool.and_eq_true, beq_iff_eq, List.all_eq_true]
  constructor
  · rintro ⟨h1, h2⟩
    exact ⟨h1, fun pq hpq => (para_rel_iff pq.1 pq.2).1 (h2 pq hpq)⟩
  · rintro ⟨h1, h2⟩
    exact ⟨h1, fun pq hpq => (para_rel_iff pq.1 pq.2).2 (h2 pq hpq)⟩

/-- **C06, clause 1**: for EVERY text, if the lossy reader accepts it and the lossless reader
    reports no error (`Deb822::from_str` accepts), the two readers report the same paragraphs, the
    same field names in the same order and, for every field, the same sequence of non-blank value
    lines -/
theorem C06_agree (s : Str) (d : Lossy.Doc) (hL : Lossy.read s = .ok d)
    (hS : (parse s).errors = []) : contentRel d (docItems (parse s).tree) :=
  agree_tok (lex s) d (lex_lx s) hL hS

/-- the same with the strict reader's result -/
theorem C06_agree_strict (s : Str) (d : Lossy.Doc) (t : DNode) (hL : Lossy.read s = .ok d)
    (hS : readStrict s = .ok t) : contentRel d (docItems t) := by
  unfold readStrict at hS
  split at hS
  · rename_i he
    simp at hS
    subst hS
    exact C06_agree s d hL (by simpa using he)
  · simp at hS

/-- the same as a statement about the oracle of `deb.both`: it never fires -/
theorem C06_agree_oracle (s : Str) (d : Lossy.Doc) (t : DNode) (hL : Lossy.read s = .ok d)
    (hS : readStrict s = .ok t) : nbEq d (docItems t) = true :=
  (contentRel_iff_oracle _ _).1 (C06_agree_strict s d t hL hS)

/-- the token-level statement behind `C06_agree`: any token list with the three lexer properties -/
theorem C06_agree_tokens (ts : List Tok) (d : Lossy.Doc) (hl : Lx .NEWLINE ts)
    (hL : Lossy.loop [] [] ts = .ok d) (hS : (parseTokens ts).errors = []) :
    contentRel d (docItems (parseTokens ts).tree) :=
  agree_tok ts d hl hL hS

/-- the lexer properties used (Lemmas/DebLexInv.lean), for every text -/
theorem C06_lex_invariant (s : Str) : Lx .NEWLINE (lex s) := lex_lx s

/-! non-vacuity, inside the grammar: the document of Props/C03 satisfies both hypotheses -/
example : Lossy.read Props.C03.exDoc.str = .ok (lossyDoc Props.C03.exDoc) ∧
    (parse Props.C03.exDoc.str).errors = [] := by
  have h := C06_joint_accept Props.C03.exDoc (by decide)
  refine ⟨h.1, ?_⟩
  have h2 := h.2.1
  unfold readStrict at h2
  split at h2
  · rename_i he; simpa using he
  · simp at h2

/-- outside the grammar `Spec/DocS`: CR line ends (a lone CR inside a field, CR LF after a leading
    comment), a comment line and a blank-only line among the continuation lines, a tab-indented
    continuation with trailing blanks, a field whose only continuation is a comment, several blank
    lines, odd whitespace after the colon, no final newline -/
def exOdd : Str :=
  "#lead\r\nA:b\r #c\n \n\td \n#x\nB:\n  # only comment\n\n\n# y\nC: \t e:f\n  g".toList

example : (parse exOdd).errors = [] := by decide +kernel
example : Lossy.read exOdd =
    .ok [[("A".toList, "b\n\n\nd ".toList), ("B".toList, "\n".toList)], [("C".toList, "e:f\ng".toList)]] := by
  decide +kernel
/-- the two contents differ as strings and agree up to blank lines -/
example : docItems (parse exOdd).tree =
    [[("A".toList, "b\nd ".toList), ("B".toList, [])], [("C".toList, "e:f\ng".toList)]] := by
  decide +kernel
example : contentRel [[("A".toList, "b\n\n\nd ".toList), ("B".toList, "\n".toList)],
    [("C".toList, "e:f\ng".toList)]] (docItems (parse exOdd).tree) :=
  C06_agree exOdd _ (by decide +kernel) (by decide +kernel)

/-- the hypotheses matter: a text only one reader accepts (`KEY WHITESPACE COLON`) -/
example : (parse "A : b\n".toList).errors = [] ∧ Lossy.read "A : b\n".toList = .error .UnexpectedToken := by
  decide +kernel

end Deb822Verif.Props.C06
