import Deb822Verif.Model.DebLossy
import Deb822Verif.Model.DebAccess
import Deb822Verif.Lemmas.DebLexLines
import Deb822Verif.Lemmas.DebLossyDoc
import Deb822Verif.Props.C03
/-!
# C06 — lossy and lossless deb822 readers agree on content
-/
namespace Deb822Verif.Props.C06
open Deb822Verif Deb

/-- non-blank value lines -/
def nb (v : Str) : List Str := (Text.splitOn '\n' v).filter (· ≠ [])

/-- the lexer never produces a composite kind, so the lossy reader's `unreachable!()` arm is
    never taken: both readers consume the same token alphabet -/
def isTokenKind : Kind → Bool
  | .KEY | .VALUE | .COLON | .INDENT | .NEWLINE | .WHITESPACE | .COMMENT | .ERROR => true
  | _ => false

theorem lexStep_kind (st c rest) : isTokenKind (lexStep st c rest).1.1 = true := by
  unfold lexStep; (repeat' split) <;> rfl

theorem C06_lex_kinds (st : LexState) (s : Str) : ∀ t ∈ lexAux st s, isTokenKind t.1 = true := by
  fun_induction lexAux st s with
  | case1 => simp
  | case2 st c rest r ih =>
    intro t ht
    simp only [List.mem_cons] at ht
    rcases ht with rfl | ht
    · exact lexStep_kind st c rest
    · exact ih t ht

end Deb822Verif.Props.C06

namespace Deb822Verif.Props.C06
open Deb822Verif Deb Spec Node

/-! ### joint acceptance of well-formed documents, with the same content -/

theorem splitOn_line (l rest : Str) (h : '\n' ∉ l) :
    Text.splitOn '\n' (l ++ '\n' :: rest) = l :: Text.splitOn '\n' rest := by
  induction l with
  | nil => simp [Text.splitOn]
  | cons c cs ih =>
    have hc : c ≠ '\n' := by intro e; apply h; simp [e]
    have hcs : '\n' ∉ cs := by intro e; apply h; simp [e]
    simp [Text.splitOn, hc, ih hcs]

theorem splitOn_single (l : Str) (h : '\n' ∉ l) : Text.splitOn '\n' l = [l] := by
  induction l with
  | nil => simp [Text.splitOn]
  | cons c cs ih =>
    have hc : c ≠ '\n' := by intro e; apply h; simp [e]
    have hcs : '\n' ∉ cs := by intro e; apply h; simp [e]
    simp [Text.splitOn, hc, ih hcs]

theorem splitOn_join (ls : List Str) (hne : ls ≠ []) (h : ∀ l ∈ ls, '\n' ∉ l) :
    Text.splitOn '\n' (Text.join ['\n'] ls) = ls := by
  induction ls with
  | nil => exact absurd rfl hne
  | cons a ls ih =>
    cases ls with
    | nil => simpa [Text.join] using splitOn_single a (h a (by simp))
    | cons b ls =>
      have := ih (by simp) (fun l hl => h l (by simp [hl]))
      simp only [Text.join, List.append_assoc, List.cons_append, List.nil_append]
      rw [splitOn_line a _ (h a (by simp)), this]

/-- the non-blank lines of lines joined by "\n" are the non-empty ones among them -/
theorem nb_join (ls : List Str) (h : ∀ l ∈ ls, '\n' ∉ l) :
    nb (Text.join ['\n'] ls) = ls.filter (· ≠ []) := by
  cases ls with
  | nil => simp [nb, Text.join, Text.splitOn]
  | cons a ls => simp only [nb]; rw [splitOn_join _ (by simp) h]

theorem noNl_noLF {s : Str} (h : NoNl s) : '\n' ∉ s := by
  intro hm; have := h '\n' hm; simp [isNewline] at this

theorem entry_lines_noLF (e : EntryS) (h : e.WF) : ∀ l ∈ e.v :: e.conts.map ContS.text, '\n' ∉ l := by
  intro l hl
  simp only [List.mem_cons, List.mem_map] at hl
  rcases hl with rfl | ⟨c, hc, rfl⟩
  · exact noNl_noLF h.v_ok.1
  · exact noNl_noLF (h.conts_ok c hc).text_ok.1

/-- per field: lossy value and lossless value have the same non-blank lines -/
theorem nb_entry (e : EntryS) (h : e.WF) : nb (lossyValue e) = nb e.content.2 := by
  have h1 := nb_join (e.v :: e.conts.map ContS.text) (entry_lines_noLF e h)
  have h2 := nb_join e.valueLines (by
    intro l hl
    apply entry_lines_noLF e h l
    simp only [EntryS.valueLines, List.mem_append, List.mem_map] at hl
    rcases hl with hl | hl
    · split at hl <;> simp_all
    · simp only [List.mem_cons, List.mem_map]; right; exact hl)
  simp only [lossyValue, EntryS.content] at *
  rw [h1, h2]
  have hc : ∀ c ∈ e.conts, c.text ≠ [] := by
    intro c hc; obtain ⟨_, x, xs, hx, _⟩ := (h.conts_ok c hc).text_ok; rw [hx]; simp
  have : (e.conts.map ContS.text).filter (· ≠ []) = e.conts.map ContS.text := by
    apply List.filter_eq_self.2
    intro l hl; simp only [List.mem_map] at hl; obtain ⟨c, hc', rfl⟩ := hl
    simpa using hc c hc'
  simp only [EntryS.valueLines, List.filter_cons, List.filter_append, this]
  by_cases hv : e.v = [] <;> simp [hv]

/-- a field as (name, non-blank value lines) -/
def nbField (f : Str × Str) : Str × List Str := (f.1, nb f.2)

theorem nb_items (is : List PItem) (h : ∀ i ∈ is, i.WF) :
    (lossyItems is).map nbField = ((is.map PItem.content).flatten).map nbField := by
  induction is with
  | nil => rfl
  | cons i is ih =>
    have := ih (fun x hx => h x (by simp [hx]))
    cases i with
    | comment t nl => simpa [lossyItems, itemEntries, PItem.content] using this
    | entry e =>
      have he : e.WF := h (.entry e) (by simp)
      simp only [lossyItems, itemEntries, List.map_cons, PItem.content, List.flatten_cons,
        List.cons_append, List.nil_append] at this ⊢
      rw [this]
      simp [nbField, lossyEntry, nb_entry e he, EntryS.content]

/-- **C06, clause 2**: both readers accept every well-formed document (in the sense of C03), and
    report the same paragraphs, the same field names in the same order and, for every field, the
    same sequence of non-blank value lines -/
theorem C06_joint_accept (d : DocS) (h : d.WF) :
    Lossy.read d.str = .ok (lossyDoc d) ∧ readStrict d.str = .ok d.tree ∧
    (lossyDoc d).map (·.map nbField) = (docItems d.tree).map (·.map nbField) := by
  refine ⟨?_, ?_, ?_⟩
  · unfold Lossy.read; rw [lex_doc d h]; exact lossy_doc d h
  · simp [readStrict, parse, lex_doc d h, parse_doc d h]
  · rw [docItems_tree]
    simp only [lossyDoc, DocS.content, List.map_map]
    apply List.map_congr_left
    intro pg hpg
    have hp := (h.paras_ok pg hpg).1
    simp only [Function.comp, lossyPara, ParaS.content, List.map_cons]
    rw [nb_items pg.1.rest hp.rest_ok]
    simp [nbField, lossyEntry, nb_entry pg.1.first hp.first_ok, EntryS.content]

/-- non-vacuity: the concrete document of Props/C03 (comments everywhere, duplicate names, an
    empty first line, a ':' continuation, no final newline) is in the domain -/
example : Lossy.read Props.C03.exDoc.str = .ok (lossyDoc Props.C03.exDoc) :=
  (C06_joint_accept _ (by decide)).1

end Deb822Verif.Props.C06
