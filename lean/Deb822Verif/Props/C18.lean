import Deb822Verif.Model.Codec
/-!
# C18 — typed field values round-trip through their text form

Part 1: keyword enumerations, over the tables *generated* from the Rust match arms
(`Gen/Enums.lean`, regenerated on every run).  Part 2: the record / keyword-or-text types of
`Model/Codec.lean`, each with its exact side condition `Canon…` and a witness per conjunct showing
that it cannot be dropped.
-/
namespace Deb822Verif.Props.C18
open Deb822Verif Text Enum Codec
open Deb822Verif.Gen.Enums (all)

/-! ## Part 1 — keyword enumerations -/

/-- printing any variant and parsing the keyword gives the variant back (every type, every variant) -/
theorem C18_enum_print_parse :
    ∀ e ∈ all, ∀ v ∈ e.variants, (printOf e v).bind (parseOf e) = some v := by decide

/-- parsing a canonical (printed) keyword and printing the result gives the keyword back -/
theorem C18_enum_canonical :
    ∀ e ∈ all, ∀ kw ∈ printed e, (parseOf e kw).bind (printOf e) = some kw := by decide

/-- no `from_str` has a catch-all arm that maps unknown input to a default variant -/
theorem C18_enum_no_default : ∀ e ∈ all, e.catchAll = .reject := by decide

theorem lookup_none_of_not_mem (k : Str) (t : List (Str × Str)) (h : k ∉ t.map (·.1)) :
    lookup k t = none := by
  induction t with
  | nil => rfl
  | cons p r ih =>
    simp only [List.map_cons, List.mem_cons, not_or] at h
    simp only [lookup]
    rw [if_neg (fun e => h.1 e.symm)]
    exact ih h.2

theorem lookup_some_of_mem (k : Str) (t : List (Str × Str)) (h : k ∈ t.map (·.1)) :
    (lookup k t).isSome := by
  induction t with
  | nil => simp at h
  | cons p r ih =>
    simp only [lookup]
    by_cases e : p.1 = k
    · simp [e]
    · simp only [List.map_cons, List.mem_cons] at h
      rcases h with h | h
      · exact absurd h.symm e
      · simp [e, ih h]

/-- shape lemma: with a rejecting catch-all, anything whose normal form is not an accepted literal
    is an error — for an arbitrary table -/
theorem parseOf_reject (e : EnumSpec) (hc : e.catchAll = .reject) (s : Str)
    (hs : normalise e.norm s ∉ accepted e) : parseOf e s = none := by
  unfold parseOf
  rw [lookup_none_of_not_mem _ _ hs, hc]

/-- rejection clause, all strings: a text whose normal form (the text itself; lower-cased for the
    one type that lower-cases) is not in the accepted keyword list is rejected -/
theorem C18_enum_reject :
    ∀ e ∈ all, ∀ s : Str, normalise e.norm s ∉ accepted e → parseOf e s = none :=
  fun e he s hs => parseOf_reject e (C18_enum_no_default e he) s hs

/-- … and conversely only those are rejected: acceptance is exactly membership in the keyword list -/
theorem C18_enum_accept_iff :
    ∀ e ∈ all, ∀ s : Str, (parseOf e s).isSome ↔ normalise e.norm s ∈ accepted e := by
  intro e he s
  constructor
  · intro h
    apply Classical.byContradiction
    intro hn
    rw [C18_enum_reject e he s hn] at h
    simp at h
  · intro h
    have := lookup_some_of_mem _ _ h
    unfold parseOf
    cases hl : lookup (normalise e.norm s) e.parseTab with
    | none => rw [hl] at this; simp at this
    | some v => simp

/-- which types compare the text exactly: all of them except `Urgency` (lower-cases its input) -/
theorem C18_enum_exact_except_urgency :
    ∀ e ∈ all, e.norm = .exact ∨ e.name = "Urgency".toList := by decide

/-- for the exact types the rejection clause reads: every string outside the keyword list is an error -/
theorem C18_enum_reject_exact :
    ∀ e ∈ all, e.norm = .exact → ∀ s : Str, s ∉ accepted e → parseOf e s = none := by
  intro e he hn s hs
  apply C18_enum_reject e he s
  rw [hn]; exact hs

/-- every accepted keyword is the printed keyword of its variant (no aliases at present) and the
    accepted keywords are exactly the printed ones -/
theorem C18_enum_accepted_eq_printed :
    ∀ e ∈ all, ∀ kw, kw ∈ accepted e ↔ kw ∈ printed e := by
  intro e he kw
  have : ∀ e ∈ all, (∀ k ∈ accepted e, k ∈ printed e) ∧ (∀ k ∈ printed e, k ∈ accepted e) := by decide
  exact ⟨(this e he).1 kw, (this e he).2 kw⟩

/-- the lower-casing type accepts e.g. `LOW`; the exact types do not -/
example : parseOf Gen.Enums.urgency "LOW".toList = some "Low".toList := by decide
example : parseOf Gen.Enums.priority "Optional".toList = none := by decide

/-! ### the generated side tables agree with the constants of the hand models -/

theorem C18_gen_origin_prefix : Gen.Enums.originPrefix = Gen.Enums.originCategory.parseTab := by decide

theorem C18_gen_vcs_names :
    Gen.Enums.vcsParseNames = [(nGit, nGit), (nBzr, nBzr), (nHg, nHg), (nSvn, nSvn), (nCvs, nCvs)]
    ∧ Gen.Enums.vcsPrintNames = Gen.Enums.vcsParseNames := by decide

theorem C18_gen_literals :
    lookup "parse_origin.sep".toList Gen.Enums.literals = some originSep
    ∧ lookup "format_origin.sep".toList Gen.Enums.literals = some originSep
    ∧ lookup "parse_origin.commit".toList Gen.Enums.literals = some commitPrefix
    ∧ lookup "Origin.parse.prefix".toList Gen.Enums.literals = some commitPrefix
    ∧ lookup "Origin.print.prefix".toList Gen.Enums.literals = some commitPrefix
    ∧ lookup "AppliedUpstream.parse.prefix".toList Gen.Enums.literals = some commitPrefix
    ∧ lookup "AppliedUpstream.print.prefix".toList Gen.Enums.literals = some commitPrefix
    ∧ lookup "ParsedVcs.parse.branch".toList Gen.Enums.literals = some branchMark
    ∧ lookup "ParsedVcs.print.branch".toList Gen.Enums.literals = some (branchMark ++ "{}".toList)
    ∧ lookup "ParsedVcs.print.subpath".toList Gen.Enums.literals = some " [{}]".toList
    ∧ lookup "ParsedVcs.parse.regex".toList Gen.Enums.literals = some " \\[([^] ]+)\\]".toList := by decide

/-! ## Part 2 — records -/

/-- a token of the record domain: non-empty and free of Unicode white space -/
def Tok (s : Str) : Prop := s ≠ [] ∧ ∀ c ∈ s, isWhitespace c = false

instance (s : Str) : Decidable (Tok s) := by unfold Tok; infer_instance

/-! ### decimal `usize` -/

theorem digitVal_digitChar : ∀ d, d < 10 → digitVal (digitChar d) = some d := by decide

theorem digitChar_not_ws : ∀ d, d < 10 → isWhitespace (digitChar d) = false := by decide

theorem digitChar_not_sign : ∀ d, d < 10 → digitChar d ≠ '+' ∧ digitChar d ≠ '-' := by decide

/-- one step of the digit loop -/
def digitStep (a : Nat) (c : Char) : Option Nat :=
  match digitVal c with
  | none => none
  | some d => if a * 10 + d < usizeBound then some (a * 10 + d) else none

theorem parseDigits_snoc (acc : Nat) (xs : Str) (c : Char) :
    parseDigits acc (xs ++ [c]) = (parseDigits acc xs).bind (fun a => digitStep a c) := by
  induction xs generalizing acc with
  | nil =>
    simp only [List.nil_append, parseDigits, digitStep, Option.bind_some]
    cases digitVal c with
    | none => rfl
    | some d => rfl
  | cons x xs ih =>
    simp only [List.cons_append, parseDigits]
    cases digitVal x with
    | none => rfl
    | some d =>
      simp only []
      split
      · exact ih _
      · rfl

theorem parseDigits_decDigits (n : Nat) (h : n < usizeBound) : parseDigits 0 (decDigits n) = some n := by
  induction n using Nat.strongRecOn with
  | _ n ih =>
    rw [decDigits]
    split
    · rename_i h10
      simp only [parseDigits, digitVal_digitChar n h10, Nat.zero_mul, Nat.zero_add, h, ↓reduceIte]
    · rename_i h10
      rw [parseDigits_snoc, ih (n / 10) (by omega) (by omega)]
      simp only [Option.bind_some, digitStep, digitVal_digitChar (n % 10) (by omega)]
      have : n / 10 * 10 + n % 10 = n := by omega
      rw [this, if_pos h]

theorem decDigits_ne_nil (n : Nat) : decDigits n ≠ [] := by
  rw [decDigits]; split <;> simp

theorem decDigits_all_digit (n : Nat) : ∀ c ∈ decDigits n, ∃ d, d < 10 ∧ c = digitChar d := by
  induction n using Nat.strongRecOn with
  | _ n ih =>
    intro c hc
    rw [decDigits] at hc
    split at hc
    · rename_i h10
      simp only [List.mem_singleton] at hc
      exact ⟨n, h10, hc⟩
    · rename_i h10
      simp only [List.mem_append, List.mem_singleton] at hc
      rcases hc with hc | hc
      · exact ih (n / 10) (by omega) c hc
      · exact ⟨n % 10, by omega, hc⟩

theorem decDigits_tok (n : Nat) : Tok (decDigits n) :=
  ⟨decDigits_ne_nil n, fun c hc => by
    obtain ⟨d, hd, rfl⟩ := decDigits_all_digit n c hc
    exact digitChar_not_ws d hd⟩

theorem parseUsize_digit_head (c : Char) (cs : Str) (h1 : c ≠ '+') (h2 : c ≠ '-') :
    parseUsize (c :: cs) = parseDigits 0 (c :: cs) := by
  unfold parseUsize
  split
  · rename_i heq; simp at heq
  · rename_i heq; simp only [List.cons.injEq] at heq; exact absurd heq.1 h1
  · rename_i heq; simp only [List.cons.injEq] at heq; exact absurd heq.1 h2
  · rename_i heq; simp only [List.cons.injEq] at heq; exact absurd heq.1 h1
  · rfl

/-- `usize::from_str(&n.to_string()) == Ok(n)` for every `n < 2^64` -/
theorem parseUsize_decDigits (n : Nat) (h : n < usizeBound) : parseUsize (decDigits n) = some n := by
  have hne := decDigits_ne_nil n
  have hall := decDigits_all_digit n
  cases hd : decDigits n with
  | nil => exact absurd hd hne
  | cons c cs =>
    obtain ⟨d, hd10, rfl⟩ := hall c (by rw [hd]; simp)
    rw [parseUsize_digit_head _ _ (digitChar_not_sign d hd10).1 (digitChar_not_sign d hd10).2, ← hd]
    exact parseDigits_decDigits n h

/-- the bound cannot be dropped: `2^64` prints but does not parse back (Rust: the value does not
    exist; a text `18446744073709551616` is an error) -/
theorem C18_usize_bound_needed : parseUsize (decDigits usizeBound) = none := by decide +kernel

/-- a leading `+` is accepted (so `+5` parses, and prints back as `5`: not a canonical text) -/
example : parseUsize "+5".toList = some 5 ∧ decDigits 5 = "5".toList := by decide +kernel
example : parseUsize "-5".toList = none ∧ parseUsize "+".toList = none ∧ parseUsize [] = none := by decide +kernel

/-! ### `split_whitespace` on tokens joined by single spaces -/

theorem sw_go_tok (t rest cur : Str) (h : ∀ c ∈ t, isWhitespace c = false) :
    splitWhitespace.go (t ++ rest) cur = splitWhitespace.go rest (t.reverse ++ cur) := by
  induction t generalizing cur with
  | nil => rfl
  | cons c t ih =>
    have hc : isWhitespace c = false := h c (by simp)
    simp only [List.cons_append, splitWhitespace.go, hc, Bool.false_eq_true, ↓reduceIte]
    rw [ih _ (fun x hx => h x (by simp [hx]))]
    simp

theorem sw_single (t : Str) (h : Tok t) : splitWhitespace t = [t] := by
  have := sw_go_tok t [] [] h.2
  simp only [List.append_nil] at this
  unfold splitWhitespace
  rw [this]
  simp [splitWhitespace.go, h.1]

theorem sw_cons (t rest : Str) (h : Tok t) :
    splitWhitespace (t ++ ' ' :: rest) = t :: splitWhitespace rest := by
  have := sw_go_tok t (' ' :: rest) [] h.2
  simp only [List.append_nil] at this
  unfold splitWhitespace
  rw [this]
  have hw : isWhitespace ' ' = true := by decide
  simp [splitWhitespace.go, hw, h.1]

/-! ### checksum records -/

/-- exact side condition: hash and file name are tokens, the size fits `usize` -/
structure CanonChecksum (c : Checksum) : Prop where
  hash : Tok c.hash
  filename : Tok c.filename
  size : c.size < usizeBound

/-- Md5/Sha1/Sha256/Sha512Checksum: `from_str(&v.to_string()) == Ok(v)` -/
theorem C18_checksum_roundtrip (c : Checksum) (h : CanonChecksum c) :
    Checksum.parse (Checksum.print c) = some c := by
  unfold Checksum.parse Checksum.print
  rw [sw_cons _ _ h.hash, sw_cons _ _ (decDigits_tok _), sw_single _ h.filename]
  simp only [parseUsize_decDigits _ h.size]

/-- … and printing the parsed canonical text gives the text back -/
theorem C18_checksum_canonical (c : Checksum) (h : CanonChecksum c) :
    (Checksum.parse (Checksum.print c)).map Checksum.print = some (Checksum.print c) := by
  rw [C18_checksum_roundtrip c h]; rfl

example : CanonChecksum ⟨"d41d8cd9".toList, 4294967296, "a_1.0.dsc".toList⟩ :=
  ⟨by decide, by decide, by decide⟩

/-- witnesses: each conjunct of `CanonChecksum` is needed -/
theorem C18_checksum_needs_hash_nonempty :
    Checksum.parse (Checksum.print ⟨[], 1, "f".toList⟩) ≠ some ⟨[], 1, "f".toList⟩ := by decide +kernel
theorem C18_checksum_needs_hash_nows :
    Checksum.parse (Checksum.print ⟨"a b".toList, 1, "f".toList⟩) ≠ some ⟨"a b".toList, 1, "f".toList⟩ := by decide +kernel
theorem C18_checksum_needs_filename_nows :
    Checksum.parse (Checksum.print ⟨"h".toList, 1, "a b".toList⟩) ≠ some ⟨"h".toList, 1, "a b".toList⟩ := by decide +kernel
theorem C18_checksum_needs_filename_nonempty :
    Checksum.parse (Checksum.print ⟨"h".toList, 1, []⟩) = none := by decide +kernel
theorem C18_checksum_needs_size_bound :
    Checksum.parse (Checksum.print ⟨"h".toList, usizeBound, "f".toList⟩) = none := by decide +kernel

/-! ### changes-file entry -/

theorem priority_tok_parse : ∀ v ∈ Gen.Enums.priority.variants,
    Tok (priorityText v) ∧ parseOf Gen.Enums.priority (priorityText v) = some v := by decide

structure CanonChangesFile (c : ChangesFile) : Prop where
  md5sum : Tok c.md5sum
  section_ : Tok c.section_
  filename : Tok c.filename
  size : c.size < usizeBound
  priority : c.priority ∈ Gen.Enums.priority.variants

theorem C18_changesfile_roundtrip (c : ChangesFile) (h : CanonChangesFile c) :
    ChangesFile.parse (ChangesFile.print c) = some c := by
  have hp := priority_tok_parse c.priority h.priority
  unfold ChangesFile.parse ChangesFile.print
  rw [sw_cons _ _ h.md5sum, sw_cons _ _ (decDigits_tok _), sw_cons _ _ h.section_, sw_cons _ _ hp.1,
    sw_single _ h.filename]
  simp only [parseUsize_decDigits _ h.size, hp.2]

example : CanonChangesFile ⟨"d41d".toList, 1234, "utils".toList, "Optional".toList, "a_1.0.dsc".toList⟩ :=
  ⟨by decide, by decide, by decide, by decide, by decide⟩

theorem C18_changesfile_needs_section_tok :
    ChangesFile.parse (ChangesFile.print ⟨"m".toList, 1, "a b".toList, "Optional".toList, "f".toList⟩) = none := by
  decide +kernel
theorem C18_changesfile_needs_filename_tok :
    ChangesFile.parse (ChangesFile.print ⟨"m".toList, 1, "s".toList, "Optional".toList, "a b".toList⟩)
      ≠ some ⟨"m".toList, 1, "s".toList, "Optional".toList, "a b".toList⟩ := by decide +kernel
theorem C18_changesfile_needs_md5_tok :
    ChangesFile.parse (ChangesFile.print ⟨[], 1, "s".toList, "Optional".toList, "f".toList⟩) = none := by
  decide +kernel
theorem C18_changesfile_needs_size_bound :
    ChangesFile.parse (ChangesFile.print ⟨"m".toList, usizeBound, "s".toList, "Optional".toList, "f".toList⟩) = none := by
  decide +kernel
theorem C18_changesfile_needs_priority_variant :
    ChangesFile.parse (ChangesFile.print ⟨"m".toList, 1, "s".toList, "Bogus".toList, "f".toList⟩) = none := by
  decide +kernel

/-! ### first occurrence of a pattern -/

theorem splitOnFirst_skip (c0 : Char) (pt w r : Str) (hw : c0 ∉ w) :
    splitOnFirst (c0 :: pt) (w ++ r) = (splitOnFirst (c0 :: pt) r).map (fun x => (w ++ x.1, x.2)) := by
  induction w with
  | nil => cases h : splitOnFirst (c0 :: pt) r <;> simp [h]
  | cons c cs ih =>
    have hc : c0 ≠ c := by intro e; apply hw; simp [e]
    have hb : (c0 == c) = false := by simp [hc]
    have hcs : c0 ∉ cs := by intro e; apply hw; simp [e]
    simp only [List.cons_append, splitOnFirst, List.isPrefixOf_cons_cons, hb, Bool.false_and,
      Bool.false_eq_true, ↓reduceIte, ih hcs]
    cases splitOnFirst (c0 :: pt) r <;> simp

theorem splitOnFirst_here (pat b : Str) (hp : pat ≠ []) :
    splitOnFirst pat (pat ++ b) = some ([], b) := by
  cases hpb : pat ++ b with
  | nil => cases pat <;> simp at hp hpb
  | cons c cs =>
    have : pat.isPrefixOf (c :: cs) = true := by rw [← hpb]; simp
    simp only [splitOnFirst, this, ↓reduceIte]
    rw [← hpb]; simp

theorem splitOnFirst_none (c0 : Char) (pt w : Str) (hw : c0 ∉ w) : splitOnFirst (c0 :: pt) w = none := by
  have := splitOnFirst_skip c0 pt w [] hw
  simpa [splitOnFirst] using this

theorem splitOnFirst_found (c0 : Char) (pt w b : Str) (hw : c0 ∉ w) :
    splitOnFirst (c0 :: pt) (w ++ (c0 :: pt) ++ b) = some (w, b) := by
  rw [List.append_assoc, splitOnFirst_skip c0 pt w _ hw, splitOnFirst_here _ _ (by simp)]
  simp

/-! ### build profile -/

def CanonBuildProfile : BuildProfile → Prop
  | .enabled s => s.head? ≠ some '!'
  | .disabled _ => True

theorem C18_buildprofile_roundtrip (p : BuildProfile) (h : CanonBuildProfile p) :
    BuildProfile.parse (BuildProfile.print p) = p := by
  cases p with
  | disabled s => rfl
  | enabled s =>
    simp only [BuildProfile.print]
    unfold BuildProfile.parse
    split
    · rename_i r; simp [CanonBuildProfile] at h
    · rfl

example : CanonBuildProfile (.enabled "nocheck".toList) := by simp only [CanonBuildProfile]; decide
theorem C18_buildprofile_needs_no_bang :
    BuildProfile.parse (BuildProfile.print (.enabled "!nocheck".toList)) = .disabled "nocheck".toList := by decide

/-! ### DEP-3: Origin / AppliedUpstream, Forwarded, the Origin field -/

theorem stripPrefix_append (p s : Str) : stripPrefix p (p ++ s) = some s := by
  simp [stripPrefix]

def CanonOrigin : Origin → Prop
  | .commit _ => True
  | .other s => commitPrefix.isPrefixOf s = false

theorem C18_origin_roundtrip (o : Origin) (h : CanonOrigin o) : Origin.parse (Origin.print o) = o := by
  cases o with
  | commit s => simp [Origin.print, Origin.parse, stripPrefix_append]
  | other s =>
    simp only [CanonOrigin] at h
    simp [Origin.print, Origin.parse, stripPrefix, h]

example : CanonOrigin (.other "https://example.org/patch".toList) := by simp only [CanonOrigin]; decide
theorem C18_origin_needs_no_commit_prefix :
    Origin.parse (Origin.print (.other "commit:1".toList)) = .commit "1".toList := by decide

def CanonForwarded : Forwarded → Prop
  | .kw v => v ∈ Gen.Enums.forwarded.variants
  | .yes s => s ∉ accepted Gen.Enums.forwarded

theorem C18_forwarded_roundtrip (f : Forwarded) (h : CanonForwarded f) :
    Forwarded.parse (Forwarded.print f) = f := by
  cases f with
  | kw v =>
    have : ∀ v ∈ Gen.Enums.forwarded.variants, Forwarded.parse (Forwarded.print (.kw v)) = .kw v := by decide
    exact this v h
  | yes s =>
    simp only [Forwarded.print, Forwarded.parse]
    rw [lookup_none_of_not_mem _ _ h]

example : CanonForwarded (.yes "https://bugs.example.org/1".toList) := by simp only [CanonForwarded]; decide
theorem C18_forwarded_needs_not_keyword :
    Forwarded.parse (Forwarded.print (.yes "no".toList)) = .kw "No".toList
    ∧ Forwarded.parse (Forwarded.print (.yes "not-needed".toList)) = .kw "NotNeeded".toList := by decide

/-- exact side condition of the Origin field: the origin itself is canonical; with a category the
    category is a variant; without one the printed origin must not begin with `<category keyword>, `
    (nor be a bare category keyword) -/
def CanonOriginField (cat : Option Str) (o : Origin) : Prop :=
  CanonOrigin o ∧
  match cat with
  | some c => c ∈ Gen.Enums.originCategory.variants
  | none => lookup (firstPiece o.print) Gen.Enums.originPrefix = none

theorem category_facts : ∀ c ∈ Gen.Enums.originCategory.variants,
    ',' ∉ categoryText c ∧ lookup (categoryText c) Gen.Enums.originPrefix = some c := by decide

theorem C18_originfield_roundtrip (cat : Option Str) (o : Origin) (h : CanonOriginField cat o) :
    parseOrigin (formatOrigin cat o) = (cat, o) := by
  obtain ⟨ho, hc⟩ := h
  cases cat with
  | some c =>
    simp only at hc
    obtain ⟨h1, h2⟩ := category_facts c hc
    have hs : splitOnFirst originSep (categoryText c ++ originSep ++ o.print) = some (categoryText c, o.print) :=
      splitOnFirst_found ',' [' '] (categoryText c) o.print h1
    simp only [formatOrigin, parseOrigin, firstPiece, restPiece, hs, h2, C18_origin_roundtrip o ho]
  | none =>
    simp only at hc
    simp only [formatOrigin, List.nil_append, parseOrigin, hc, C18_origin_roundtrip o ho]

/-- no `, ` in a text without a space -/
theorem splitOnFirst_sep_none (c0 : Char) (pt t : Str) (h : ' ' ∉ t) :
    splitOnFirst (c0 :: ' ' :: pt) t = none := by
  induction t with
  | nil => rfl
  | cons c cs ih =>
    have hcs : ' ' ∉ cs := by intro e; apply h; simp [e]
    have hp : (c0 :: ' ' :: pt).isPrefixOf (c :: cs) = false := by
      cases cs with
      | nil => simp [List.isPrefixOf_cons_cons]
      | cons d ds =>
        have hd : (' ' == d) = false := by
          have : ' ' ≠ d := by intro e; apply h; simp [← e]
          simp [this]
        simp [List.isPrefixOf_cons_cons, hd]
    simp only [splitOnFirst, hp, Bool.false_eq_true, ↓reduceIte, ih hcs]

/-- for white-space-free origins the condition reads: the printed origin is not a category keyword -/
theorem C18_originfield_roundtrip_tok (o : Origin) (ho : CanonOrigin o) (hs : ' ' ∉ o.print)
    (hk : o.print ∉ Gen.Enums.originPrefix.map (·.1)) : parseOrigin (formatOrigin none o) = (none, o) := by
  apply C18_originfield_roundtrip none o
  refine ⟨ho, ?_⟩
  have : splitOnFirst originSep o.print = none := splitOnFirst_sep_none ',' [] o.print hs
  simp only [firstPiece, this]
  exact lookup_none_of_not_mem _ _ hk

example : CanonOriginField (some "Backport".toList) (.commit "abc123".toList) := ⟨trivial, by decide⟩
example : CanonOriginField none (.other "https://example.org/p".toList) :=
  ⟨by simp only [CanonOrigin]; decide, by decide +kernel⟩
theorem C18_originfield_needs_not_keyword :
    parseOrigin (formatOrigin none (.other "backport".toList)) = (some "Backport".toList, .other []) := by
  decide +kernel
theorem C18_originfield_needs_no_keyword_prefix :
    parseOrigin (formatOrigin none (.other "other, x".toList)) = (some "Other".toList, .other "x".toList) := by
  decide +kernel
theorem C18_originfield_needs_category_variant :
    parseOrigin (formatOrigin (some "Bogus".toList) (.other "x".toList)) ≠ (some "Bogus".toList, .other "x".toList) := by
  decide +kernel

/-! ### licence -/

def CanonLicense : License → Prop
  | .name n => '\n' ∉ n
  | .text _ => True
  | .named n _ => n ≠ [] ∧ '\n' ∉ n

theorem C18_license_roundtrip (l : License) (h : CanonLicense l) : License.parse (License.print l) = l := by
  cases l with
  | name n =>
    simp only [CanonLicense] at h
    simp only [License.print, License.parse, splitOnFirst_none '\n' [] n h]
  | text t =>
    have := splitOnFirst_here ['\n'] t (by simp)
    simp only [License.print, License.parse]
    simp only [List.cons_append, List.nil_append] at this
    rw [this]; simp
  | named n t =>
    obtain ⟨h1, h2⟩ := h
    have := splitOnFirst_found '\n' [] n t h2
    simp only [List.append_assoc, List.cons_append, List.nil_append] at this
    simp only [License.print, License.parse, this, h1, ↓reduceIte]

example : CanonLicense (.named "GPL-2+ with OpenSSL exception".toList "text\n\nmore".toList) := by
  constructor <;> decide
theorem C18_license_needs_single_line_name :
    License.parse (License.print (.name "a\nb".toList)) = .named "a".toList "b".toList := by decide +kernel
theorem C18_license_needs_nonempty_name :
    License.parse (License.print (.named [] "t".toList)) = .text "t".toList := by decide +kernel
theorem C18_license_needs_single_line_named :
    License.parse (License.print (.named "a\nb".toList "t".toList)) = .named "a".toList "b\nt".toList := by
  decide +kernel

/-! ### Signed-By -/

/-- exact side condition: a key path is a single line; every key block is canonical -/
def CanonSignature : Signature → Prop
  | .keyPath p => '\n' ∉ p
  | .keyBlock _ => True

/-- Signed-By values, key blocks and key paths alike -/
theorem C18_signature_roundtrip (s : Signature) (h : CanonSignature s) :
    Signature.parse (Signature.print s) = s := by
  cases s with
  | keyBlock t => simp [Signature.print, Signature.parse]
  | keyPath p =>
    simp only [CanonSignature] at h
    simp [Signature.print, Signature.parse, h]

theorem C18_signature_canonical (s : Signature) (h : CanonSignature s) :
    Signature.print (Signature.parse (Signature.print s)) = Signature.print s := by
  rw [C18_signature_roundtrip s h]

example : CanonSignature (.keyPath "/usr/share/keyrings/k.gpg".toList) := by simp only [CanonSignature]; decide
example : CanonSignature (.keyBlock "-----BEGIN PGP PUBLIC KEY BLOCK-----\n.\n".toList) := trivial

/-- a path with a newline reads back as a key block -/
theorem C18_signature_needs_single_line_path :
    Signature.parse (Signature.print (.keyPath "a\nb".toList)) = .keyBlock "a\nb".toList := by decide +kernel

/-! ### VCS locations -/

theorem exists_snoc (l : Str) (h : l ≠ []) : ∃ i z, l = i ++ [z] ∧ z ∈ l :=
  ⟨l.dropLast, l.getLast h, (List.dropLast_concat_getLast h).symm, List.getLast_mem h⟩

theorem trim_eq_self (a z : Char) (m i : Str) (e : a :: m = i ++ [z])
    (ha : isWhitespace a = false) (hz : isWhitespace z = false) : trim (a :: m) = a :: m := by
  have h1 : trimStart (a :: m) = a :: m := by simp [trimStart, ha]
  have h2 : trimEnd (i ++ [z]) = i ++ [z] := by simp [trimEnd, hz]
  unfold trim
  rw [h1, e, h2]

theorem matchSubAt_not_space (c : Char) (r : Str) (h : c ≠ ' ') : matchSubAt (c :: r) = none := by
  unfold matchSubAt
  split
  · rename_i heq; simp only [List.cons.injEq] at heq; exact absurd heq.1 h
  · rfl

theorem findSub_skip (w r : Str) (hw : ' ' ∉ w) :
    findSub (w ++ r) = (findSub r).map (fun x => (w ++ x.1, x.2.1, x.2.2)) := by
  induction w with
  | nil => cases h : findSub r <;> simp [h]
  | cons c cs ih =>
    have hc : c ≠ ' ' := by intro e; apply hw; simp [e]
    have hcs : ' ' ∉ cs := by intro e; apply hw; simp [e]
    simp only [List.cons_append, findSub, matchSubAt_not_space c _ hc, ih hcs]
    cases findSub r <;> simp

theorem findSub_none_of_nospace (w : Str) (hw : ' ' ∉ w) : findSub w = none := by
  have := findSub_skip w [] hw
  simpa [findSub] using this

/-- characters of a token that avoids `]` are in the class `[^] ]` -/
theorem subChar_of (p : Str) (hp : ∀ c ∈ p, isWhitespace c = false) (hb : ']' ∉ p) :
    ∀ c ∈ p, subChar c = true := by
  intro c hc
  have h1 : c ≠ ']' := by intro e; apply hb; rw [← e]; exact hc
  have h2 : c ≠ ' ' := by
    intro e
    have := hp c hc
    rw [e] at this
    exact absurd this (by decide)
  simp [subChar, h1, h2]

theorem matchSubAt_sub (p rest : Str) (hp : Tok p) (hb : ']' ∉ p) :
    matchSubAt (' ' :: '[' :: (p ++ ']' :: rest)) = some (p, rest) := by
  have hs := subChar_of p hp.2 hb
  have hn : subChar ']' = false := by decide
  have ht : (p ++ ']' :: rest).takeWhile subChar = p := by
    rw [List.takeWhile_append_of_pos hs]; simp [hn]
  have hd : (p ++ ']' :: rest).dropWhile subChar = ']' :: rest := by
    rw [List.dropWhile_append_of_pos hs]; simp [hn]
  unfold matchSubAt
  simp only [ht, hd]
  cases p with
  | nil => exact absurd rfl hp.1
  | cons a as => rfl

theorem matchSubAt_none_of (t : Str)
    (h : t.takeWhile subChar = [] ∨ (t.dropWhile subChar).head? ≠ some ']') :
    matchSubAt (' ' :: '[' :: t) = none := by
  unfold matchSubAt
  simp only
  split
  · rfl
  · simp_all
  · rfl

/-- a branch name must not itself look like ` [subpath]` when preceded by a space -/
def branchOK (b : Str) : Prop := ∀ t, b = '[' :: t → (t.takeWhile (· != ']') = [] ∨ ']' ∉ t)

theorem takeWhile_subChar_tok (t : Str) (ht : ∀ c ∈ t, isWhitespace c = false) :
    t.takeWhile subChar = t.takeWhile (· != ']') := by
  induction t with
  | nil => rfl
  | cons c cs ih =>
    have hc : c ≠ ' ' := by
      intro e
      have := ht c (by simp)
      rw [e] at this
      exact absurd this (by decide)
    have hcs := ih (fun x hx => ht x (by simp [hx]))
    simp only [List.takeWhile_cons, subChar, hcs]
    simp [hc]

theorem matchSubAt_branch (b r : Str) (hb : Tok b) (hok : branchOK b)
    (hr : r = [] ∨ ∃ r', r = ' ' :: r') : matchSubAt (' ' :: (b ++ r)) = none := by
  cases b with
  | nil => exact absurd rfl hb.1
  | cons c t =>
    by_cases hc : c = '['
    · subst hc
      have htw : ∀ x ∈ t, isWhitespace x = false := fun x hx => hb.2 x (by simp [hx])
      show matchSubAt (' ' :: '[' :: (t ++ r)) = none
      apply matchSubAt_none_of
      rcases hok t rfl with h | h
      · -- the run inside the branch is empty
        left
        by_cases ht : t = []
        · subst ht
          rcases hr with rfl | ⟨r', rfl⟩
          · rfl
          · simp [subChar]
        · -- t starts with `]`
          cases t with
          | nil => exact absurd rfl ht
          | cons d ds =>
            have hd : d = ']' := by
              simp only [List.takeWhile_cons] at h
              split at h
              · simp at h
              · rename_i hh; simpa using hh
            subst hd
            simp [subChar]
      · -- no `]` in the branch: the run reaches its end and meets `r`
        right
        have hs := subChar_of t htw h
        rw [List.dropWhile_append_of_pos hs]
        rcases hr with rfl | ⟨r', rfl⟩
        · simp
        · simp [subChar]
    · unfold matchSubAt
      split
      · rename_i heq
        simp only [List.cons_append, List.cons.injEq, true_and] at heq
        exact absurd heq.1 hc
      · rfl

theorem tok_no_space (s : Str) (h : ∀ c ∈ s, isWhitespace c = false) : ' ' ∉ s := by
  intro hs
  exact absurd (h ' ' hs) (by decide)

structure CanonVcs (v : ParsedVcs) : Prop where
  url : Tok v.repoUrl
  branch : ∀ b, v.branch = some b → Tok b ∧ branchOK b
  subpath : ∀ p, v.subpath = some p → Tok p ∧ ']' ∉ p

theorem findSub_cons_none (c : Char) (cs : Str) (h : matchSubAt (c :: cs) = none) :
    findSub (c :: cs) = (findSub cs).map (fun x => (c :: x.1, x.2.1, x.2.2)) := by
  simp only [findSub, h]
  cases findSub cs <;> rfl

theorem findSub_branch_tail (b r : Str) (hb : Tok b) (hok : branchOK b)
    (hr : r = [] ∨ ∃ r', r = ' ' :: r') :
    findSub (branchMark ++ (b ++ r)) = (findSub r).map (fun x => (branchMark ++ (b ++ x.1), x.2.1, x.2.2)) := by
  have h1 : matchSubAt (' ' :: '-' :: 'b' :: ' ' :: (b ++ r)) = none := by
    unfold matchSubAt
    split
    · rename_i heq; simp at heq
    · rfl
  have h2 := findSub_skip ['-', 'b'] (' ' :: (b ++ r)) (by decide)
  simp only [List.cons_append, List.nil_append] at h2
  have h3 := findSub_cons_none ' ' (b ++ r) (matchSubAt_branch b r hb hok hr)
  have h4 := findSub_skip b r (tok_no_space b hb.2)
  show findSub (' ' :: '-' :: 'b' :: ' ' :: (b ++ r)) = _
  rw [findSub_cons_none _ _ h1, h2, h3, h4]
  cases findSub r <;> simp [branchMark]

theorem findSub_sub_tail (p : Str) (hp : Tok p) (hb : ']' ∉ p) :
    findSub (' ' :: '[' :: (p ++ [']'])) = some ([], p, []) := by
  simp only [findSub, matchSubAt_sub p [] hp hb]

theorem splitBranch_found (u b : Str) (hu : Tok u) :
    splitOnFirst branchMark (u ++ branchMark ++ b) = some (u, b) :=
  splitOnFirst_found ' ' ['-', 'b', ' '] u b (tok_no_space u hu.2)

theorem splitBranch_none (u : Str) (hu : Tok u) : splitOnFirst branchMark u = none :=
  splitOnFirst_none ' ' ['-', 'b', ' '] u (tok_no_space u hu.2)

theorem print_trim (v : ParsedVcs) (h : CanonVcs v) : trim v.print = v.print := by
  obtain ⟨u, b, p⟩ := v
  have hu : Tok u := h.url
  cases hu' : u with
  | nil => exact absurd hu' hu.1
  | cons a as =>
    have ha : isWhitespace a = false := hu.2 a (by simp [hu'])
    have key : ∃ i z, ParsedVcs.print ⟨a :: as, b, p⟩ = i ++ [z] ∧ isWhitespace z = false := by
      cases p with
      | some p =>
        refine ⟨(a :: as) ++ branchPart b ++ ' ' :: '[' :: p, ']', ?_, by decide⟩
        simp [ParsedVcs.print, subPart]
      | none =>
        cases b with
        | some b =>
          have hb := (h.branch b rfl).1
          obtain ⟨bi, bz, hbe, hbm⟩ := exists_snoc b hb.1
          refine ⟨(a :: as) ++ branchMark ++ bi, bz, ?_, hb.2 bz hbm⟩
          simp [ParsedVcs.print, branchPart, subPart, hbe]
        | none =>
          obtain ⟨ui, uz, hue, hum⟩ := exists_snoc u hu.1
          refine ⟨ui, uz, ?_, hu.2 uz hum⟩
          simp [ParsedVcs.print, branchPart, subPart, ← hu', hue]
    obtain ⟨i, z, e, hz⟩ := key
    have e' : a :: (as ++ branchPart b ++ subPart p) = i ++ [z] := by
      rw [← e]; simp [ParsedVcs.print]
    have := trim_eq_self a z _ i e' ha hz
    simpa [ParsedVcs.print] using this

/-- VCS locations, every combination of branch and subpath: `from_str(&v.to_string()) == Ok(v)` -/
theorem C18_parsedvcs_roundtrip (v : ParsedVcs) (h : CanonVcs v) :
    ParsedVcs.parse (ParsedVcs.print v) = v := by
  have htrim := print_trim v h
  obtain ⟨u, b, p⟩ := v
  have hu : Tok u := h.url
  have hus := tok_no_space u hu.2
  unfold ParsedVcs.parse
  simp only [htrim]
  cases b with
  | none =>
    cases p with
    | none =>
      have hf : findSub (ParsedVcs.print ⟨u, none, none⟩) = none := by
        simp only [ParsedVcs.print, branchPart, subPart, List.append_nil]; exact findSub_none_of_nospace u hus
      simp only [hf]
      simp only [ParsedVcs.print, branchPart, subPart, List.append_nil, splitBranch_none u hu]
    | some p =>
      obtain ⟨hp, hpb⟩ := h.subpath p rfl
      have hf : findSub (ParsedVcs.print ⟨u, none, some p⟩) = some (u, p, []) := by
        simp only [ParsedVcs.print, branchPart, subPart, List.append_nil]
        rw [findSub_skip u _ hus, findSub_sub_tail p hp hpb]; simp
      simp only [hf, List.append_nil, splitBranch_none u hu]
  | some b =>
    obtain ⟨hb, hbok⟩ := h.branch b rfl
    cases p with
    | none =>
      have hf : findSub (ParsedVcs.print ⟨u, some b, none⟩) = none := by
        simp only [ParsedVcs.print, branchPart, subPart, List.append_nil]
        rw [findSub_skip u _ hus]
        have := findSub_branch_tail b [] hb hbok (Or.inl rfl)
        simp only [List.append_nil] at this
        rw [this]; simp [findSub]
      simp only [hf]
      simp only [ParsedVcs.print, branchPart, subPart, List.append_nil]
      have := splitBranch_found u b hu
      rw [List.append_assoc] at this
      simp only [this]
    | some p =>
      obtain ⟨hp, hpb⟩ := h.subpath p rfl
      have hf : findSub (ParsedVcs.print ⟨u, some b, some p⟩) = some (u ++ (branchMark ++ b), p, []) := by
        simp only [ParsedVcs.print, branchPart, subPart]
        rw [List.append_assoc, findSub_skip u _ hus, List.append_assoc,
          findSub_branch_tail b _ hb hbok (Or.inr ⟨_, rfl⟩), findSub_sub_tail p hp hpb]
        simp
      simp only [hf, List.append_nil]
      have := splitBranch_found u b hu
      rw [List.append_assoc] at this
      simp only [this]

/-- printing the parsed canonical text gives the text back -/
theorem C18_parsedvcs_canonical (v : ParsedVcs) (h : CanonVcs v) :
    ParsedVcs.print (ParsedVcs.parse (ParsedVcs.print v)) = ParsedVcs.print v := by
  rw [C18_parsedvcs_roundtrip v h]

theorem branchOK_of_not_bracket (b : Str) (h : b.head? ≠ some '[') : branchOK b := by
  intro t e; subst e; simp at h

example : CanonVcs ⟨"https://salsa.debian.org/x/y.git".toList, some "debian/sid".toList, some "sub/dir".toList⟩ where
  url := by decide
  branch := by
    intro b hb
    simp only [Option.some.injEq] at hb
    subst hb
    exact ⟨by decide, branchOK_of_not_bracket _ (by decide)⟩
  subpath := by
    intro p hp
    simp only [Option.some.injEq] at hp
    subst hp
    exact ⟨by decide, by decide⟩

/-- witnesses: each conjunct of `CanonVcs` is needed (tokens of the property's domain included:
    a subpath containing `]`, a branch of the form `[x]`) -/
theorem C18_parsedvcs_needs_url_nonempty :
    ParsedVcs.parse (ParsedVcs.print ⟨[], some "b".toList, none⟩) = ⟨"-b b".toList, none, none⟩ := by decide +kernel
theorem C18_parsedvcs_needs_url_nows :
    ParsedVcs.parse (ParsedVcs.print ⟨"a -b c".toList, none, none⟩) = ⟨"a".toList, some "c".toList, none⟩ := by
  decide +kernel
theorem C18_parsedvcs_needs_branch_nonempty :
    ParsedVcs.parse (ParsedVcs.print ⟨"a".toList, some [], none⟩) = ⟨"a -b".toList, none, none⟩ := by decide +kernel
theorem C18_parsedvcs_needs_branch_nows :
    ParsedVcs.parse (ParsedVcs.print ⟨"a".toList, some "x [y]".toList, none⟩)
      = ⟨"a".toList, some "x".toList, some "y".toList⟩ := by decide +kernel
theorem C18_parsedvcs_needs_branch_not_bracketed :
    ParsedVcs.parse (ParsedVcs.print ⟨"a".toList, some "[x]".toList, none⟩)
      = ⟨"a -b".toList, none, some "x".toList⟩ := by decide +kernel
theorem C18_parsedvcs_needs_branch_not_bracketed' :
    ParsedVcs.parse (ParsedVcs.print ⟨"a".toList, some "[x]".toList, some "y".toList⟩)
      = ⟨"a".toList, some "[y]".toList, some "x".toList⟩ := by decide +kernel
theorem C18_parsedvcs_needs_subpath_nonempty :
    ParsedVcs.parse (ParsedVcs.print ⟨"a".toList, none, some []⟩) = ⟨"a []".toList, none, none⟩ := by decide +kernel
theorem C18_parsedvcs_needs_subpath_nows :
    ParsedVcs.parse (ParsedVcs.print ⟨"a".toList, none, some "x y".toList⟩) = ⟨"a [x y]".toList, none, none⟩ := by
  decide +kernel
theorem C18_parsedvcs_needs_subpath_no_rbracket :
    ParsedVcs.parse (ParsedVcs.print ⟨"a".toList, none, some "x]y".toList⟩) = ⟨"ay]".toList, none, some "x".toList⟩ := by
  decide +kernel

/-- `Vcs::to_field` / `Vcs::from_field` -/
def CanonVcsField : Vcs → Prop
  | .git u b p => CanonVcs ⟨u, b, p⟩
  | .bzr u p => CanonVcs ⟨u, none, p⟩
  | .hg _ => True
  | .svn _ => True
  | .cvs r _ => ' ' ∉ r

theorem vcs_names_distinct :
    nGit ≠ nBzr ∧ nGit ≠ nHg ∧ nGit ≠ nSvn ∧ nGit ≠ nCvs ∧ nBzr ≠ nHg ∧ nBzr ≠ nSvn ∧ nBzr ≠ nCvs
    ∧ nHg ≠ nSvn ∧ nHg ≠ nCvs ∧ nSvn ≠ nCvs ∧ nBzr ≠ nGit ∧ nHg ≠ nGit ∧ nSvn ≠ nGit ∧ nCvs ≠ nGit
    ∧ nHg ≠ nBzr ∧ nSvn ≠ nBzr ∧ nCvs ≠ nBzr ∧ nSvn ≠ nHg ∧ nCvs ≠ nHg ∧ nCvs ≠ nSvn := by decide

theorem C18_vcs_roundtrip (v : Vcs) (h : CanonVcsField v) :
    Vcs.fromField (Vcs.toField v).1 (Vcs.toField v).2 = some v := by
  obtain ⟨d1, d2, d3, d4, d5, d6, d7, d8, d9, d10, e1, e2, e3, e4, e5, e6, e7, e8, e9, e10⟩ := vcs_names_distinct
  cases v with
  | git u b p =>
    simp only [CanonVcsField] at h
    simp only [Vcs.toField, Vcs.fromField, ↓reduceIte, C18_parsedvcs_roundtrip _ h]
  | bzr u p =>
    simp only [CanonVcsField] at h
    have := C18_parsedvcs_roundtrip _ h
    cases p with
    | some p =>
      simp only [ParsedVcs.print, branchPart, subPart, List.append_nil] at this
      simp [Vcs.toField, Vcs.fromField, e1, this]
    | none =>
      simp only [ParsedVcs.print, branchPart, subPart, List.append_nil] at this
      simp [Vcs.toField, Vcs.fromField, e1, this]
  | hg u => simp only [Vcs.toField, Vcs.fromField, e2, e5, ↓reduceIte]
  | svn u => simp only [Vcs.toField, Vcs.fromField, e3, e6, e8, ↓reduceIte]
  | cvs r m =>
    simp only [CanonVcsField] at h
    cases m with
    | some m =>
      have := splitOnFirst_found ' ' [] r m h
      simp only [List.append_assoc, List.cons_append, List.nil_append] at this
      simp only [Vcs.toField, Vcs.fromField, e4, e7, e9, e10, ↓reduceIte, this]
    | none =>
      simp only [Vcs.toField, Vcs.fromField, e4, e7, e9, e10, ↓reduceIte, splitOnFirst_none ' ' [] r h]

example : CanonVcsField (.cvs ":pserver:anon@cvs.example.org:/cvs".toList (some "mod ule".toList)) := by
  simp only [CanonVcsField]; decide
theorem C18_vcs_needs_cvs_root_nospace :
    Vcs.fromField (Vcs.toField (.cvs "a b".toList none)).1 (Vcs.toField (.cvs "a b".toList none)).2
      = some (.cvs "a".toList (some "b".toList)) := by decide +kernel
theorem C18_vcs_needs_bzr_no_branch_marker :
    Vcs.fromField (Vcs.toField (.bzr "a -b c".toList none)).1 (Vcs.toField (.bzr "a -b c".toList none)).2 = none := by
  decide +kernel
theorem C18_vcs_unknown_name_rejected (value : Str) : Vcs.fromField "Darcs".toList value = none := by
  have : ("Darcs".toList ≠ nGit) ∧ ("Darcs".toList ≠ nBzr) ∧ ("Darcs".toList ≠ nHg) ∧ ("Darcs".toList ≠ nSvn)
      ∧ ("Darcs".toList ≠ nCvs) := by decide
  simp only [Vcs.fromField, this.1, this.2.1, this.2.2.1, this.2.2.2.1, this.2.2.2.2, ↓reduceIte]

/-! ### package-list entry -/

theorem strLt_irrefl (a : Str) : strLt a a = false := by
  induction a with
  | nil => rfl
  | cons c cs ih => simp [strLt, ih]

theorem strLt_asymm (a b : Str) (h : strLt a b = true) : strLt b a = false := by
  induction a generalizing b with
  | nil => cases b <;> simp [strLt] at h ⊢
  | cons c cs ih =>
    cases b with
    | nil => simp [strLt] at h
    | cons d ds =>
      simp only [strLt] at h ⊢
      by_cases h1 : c.toNat < d.toNat
      · have : ¬ d.toNat < c.toNat := by omega
        simp [this, h1]
      · by_cases h2 : d.toNat < c.toNat
        · simp [h1, h2] at h
        · simp only [h1, h2, ↓reduceIte] at h ⊢
          exact ih ds h

theorem mapInsert_append (k v : Str) (m : List (Str × Str)) (h : ∀ q ∈ m, strLt q.1 k = true) :
    mapInsert k v m = m ++ [(k, v)] := by
  induction m with
  | nil => rfl
  | cons q r ih =>
    have hq := h q (by simp)
    have h1 : k ≠ q.1 := by
      intro e
      rw [e, strLt_irrefl] at hq
      exact absurd hq (by simp)
    have h2 : strLt k q.1 = false := strLt_asymm _ _ hq
    simp only [mapInsert, h1, ↓reduceIte, h2, Bool.false_eq_true, List.cons_append,
      ih (fun x hx => h x (by simp [hx]))]

def kvText (p : Str × Str) : Str := p.1 ++ '=' :: p.2

/-- keys strictly increasing (code-point order): the canonical form of the map -/
def KeysSorted (m : List (Str × Str)) : Prop := m.Pairwise (fun p q => strLt p.1 q.1 = true)

theorem parseExtras_sorted (m1 m2 : List (Str × Str)) (hs : KeysSorted (m1 ++ m2))
    (he : ∀ p ∈ m2, '=' ∉ p.1) :
    parseExtras (m2.map kvText) m1 = some (m1 ++ m2) := by
  induction m2 generalizing m1 with
  | nil => simp [parseExtras]
  | cons p r ih =>
    have hk := he p (by simp)
    have hsp : splitOnFirst ['='] (kvText p) = some (p.1, p.2) := by
      have := splitOnFirst_found '=' [] p.1 p.2 hk
      simpa [kvText] using this
    have hlt : ∀ q ∈ m1, strLt q.1 p.1 = true := by
      intro q hq
      have := List.pairwise_append.1 hs
      exact this.2.2 q hq p (by simp)
    simp only [List.map_cons, parseExtras, hsp, mapInsert_append _ _ _ hlt]
    have := ih (m1 ++ [p]) (by simpa [KeysSorted] using hs) (fun x hx => he x (by simp [hx]))
    simpa using this

theorem sw_pieces (t : Str) (ht : Tok t) (m : List (Str × Str)) (hm : ∀ p ∈ m, Tok (kvText p)) :
    splitWhitespace (t ++ (extraPieces m).flatten) = t :: m.map kvText := by
  induction m generalizing t with
  | nil => simp [extraPieces, sw_single t ht]
  | cons p r ih =>
    have := ih (kvText p) (hm p (by simp)) (fun x hx => hm x (by simp [hx]))
    simp only [extraPieces, List.map_cons, List.flatten_cons, List.cons_append] at this ⊢
    rw [sw_cons t _ ht]
    simp only [kvText] at this ⊢
    rw [this]

/-- a key-sorted list is a fixed point of the sort that `Display` applies -/
theorem sortedExtras_of_sorted (m : List (Str × Str)) (h : KeysSorted m) : sortedExtras m = m := by
  unfold sortedExtras
  apply List.mergeSort_of_pairwise
  exact List.Pairwise.imp (fun {a b} hab => by simp [pairLe, hab]) h

/-- exact side condition.  The extras are a finite map in its canonical representation (keys
    strictly increasing in code-point order — what a `HashMap` is up to equality); keys are free of
    white space and of `=`, values free of white space (a value may contain `=`; keys and values may
    be empty) -/
structure CanonPkgEntry (e : PkgEntry) : Prop where
  package : Tok e.package
  ptype : Tok e.ptype
  section_ : Tok e.section_
  priority : e.priority ∈ Gen.Enums.priority.variants
  extra : ∀ p ∈ e.extra, (∀ c ∈ p.1, isWhitespace c = false) ∧ (∀ c ∈ p.2, isWhitespace c = false)
    ∧ '=' ∉ p.1
  sorted : KeysSorted e.extra

theorem kv_tok (p : Str × Str) (h1 : ∀ c ∈ p.1, isWhitespace c = false) (h2 : ∀ c ∈ p.2, isWhitespace c = false) :
    Tok (kvText p) := by
  refine ⟨by simp [kvText], ?_⟩
  intro c hc
  simp only [kvText, List.mem_append, List.mem_cons] at hc
  rcases hc with hc | hc | hc
  · exact h1 c hc
  · rw [hc]; decide
  · exact h2 c hc

/-- package-list entries with any number of extra fields: `from_str(&v.to_string()) == Ok(v)` -/
theorem C18_pkgentry_roundtrip (e : PkgEntry) (h : CanonPkgEntry e) :
    PkgEntry.parse (PkgEntry.print e) = some e := by
  have hp := priority_tok_parse e.priority h.priority
  have hm : ∀ p ∈ e.extra, Tok (kvText p) := fun p hp' =>
    kv_tok p (h.extra p hp').1 (h.extra p hp').2.1
  have hx := parseExtras_sorted [] e.extra (by simpa using h.sorted)
    (fun p hp' => (h.extra p hp').2.2)
  unfold PkgEntry.parse PkgEntry.print PkgEntry.printBase
  rw [sortedExtras_of_sorted _ h.sorted]
  simp only [List.append_assoc, List.cons_append]
  rw [sw_cons _ _ h.package, sw_cons _ _ h.ptype, sw_cons _ _ h.section_,
    sw_pieces _ hp.1 e.extra hm]
  simp only [hp.2, hx, List.nil_append]

/-- a text whose extras are in strictly increasing key order (i.e. the printed form of a canonical
    entry) prints back identically -/
theorem C18_pkgentry_canonical (e : PkgEntry) (h : CanonPkgEntry e) :
    (PkgEntry.parse (PkgEntry.print e)).map PkgEntry.print = some (PkgEntry.print e)
    ∧ PkgEntry.print e = e.printBase ++ (extraPieces e.extra).flatten := by
  refine ⟨by rw [C18_pkgentry_roundtrip e h]; rfl, ?_⟩
  unfold PkgEntry.print
  rw [sortedExtras_of_sorted _ h.sorted]

example : CanonPkgEntry ⟨"foo".toList, "deb".toList, "utils".toList, "Optional".toList,
    [("arch".toList, "any".toList), ("profile".toList, "!stage1".toList), ("x".toList, "a=b".toList)]⟩ where
  package := by decide
  ptype := by decide
  section_ := by decide
  priority := by decide
  extra := by decide
  sorted := by simp [KeysSorted]; decide

theorem C18_pkgentry_needs_no_equals_in_key :
    PkgEntry.parse (PkgEntry.print ⟨"p".toList, "deb".toList, "s".toList, "Optional".toList, [("k=a".toList, "b".toList)]⟩)
      = some ⟨"p".toList, "deb".toList, "s".toList, "Optional".toList, [("k".toList, "a=b".toList)]⟩ := by decide +kernel
theorem C18_pkgentry_needs_key_nows :
    PkgEntry.parse (PkgEntry.print ⟨"p".toList, "deb".toList, "s".toList, "Optional".toList, [("a b".toList, "v".toList)]⟩)
      = none := by decide +kernel
theorem C18_pkgentry_needs_value_nows :
    PkgEntry.parse (PkgEntry.print ⟨"p".toList, "deb".toList, "s".toList, "Optional".toList, [("k".toList, "a b".toList)]⟩)
      = none := by decide +kernel
theorem C18_pkgentry_needs_package_tok :
    PkgEntry.parse (PkgEntry.print ⟨[], "deb".toList, "s".toList, "Optional".toList, []⟩) = none := by decide +kernel
theorem C18_pkgentry_needs_priority_variant :
    PkgEntry.parse (PkgEntry.print ⟨"p".toList, "deb".toList, "s".toList, "Bogus".toList, []⟩) = none := by decide +kernel
/-- the representation invariant: an association list that is not key-sorted is not the canonical
    form of its map (the entry that comes back is the canonical one) -/
theorem C18_pkgentry_needs_sorted_keys :
    PkgEntry.parse (PkgEntry.print ⟨"p".toList, "deb".toList, "s".toList, "Optional".toList,
        [("b".toList, "1".toList), ("a".toList, "2".toList)]⟩)
      = some ⟨"p".toList, "deb".toList, "s".toList, "Optional".toList, [("a".toList, "2".toList), ("b".toList, "1".toList)]⟩ := by
  have hs : sortedExtras [("b".toList, "1".toList), ("a".toList, "2".toList)]
      = [("a".toList, "2".toList), ("b".toList, "1".toList)] := by
    unfold sortedExtras
    rw [List.mergeSort]
    simp [List.MergeSort.Internal.splitInTwo, List.merge]
    decide
  unfold PkgEntry.print
  simp only [hs]
  decide +kernel

/-! ### `parse_identity` -/

theorem trimEnd_snoc_space (x : Str) : trimEnd (x ++ [' ']) = trimEnd x := by
  have : isWhitespace ' ' = true := by decide
  simp [trimEnd, this]

theorem trim_snoc_space (s : Str) : trim (s ++ [' ']) = trim s := by
  unfold trim trimStart
  rw [List.dropWhile_append]
  split
  · rename_i h
    have hs : List.dropWhile isWhitespace s = [] := by simpa using h
    have : isWhitespace ' ' = true := by decide
    simp [hs, this]
  · exact trimEnd_snoc_space _

structure CanonIdentity (name email : Str) : Prop where
  name_trimmed : trim name = name
  name_no_lt : '<' ∉ name
  email_trimmed : trim email = email

/-- `parse_identity(format!("{name} <{email}>")) == Ok((name, email))` -/
theorem C18_identity_roundtrip (name email : Str) (h : CanonIdentity name email) :
    identityParse (identityText name email) = some (name, email) := by
  have hlt : '<' ∉ name ++ [' '] := by
    intro hm
    simp only [List.mem_append, List.mem_singleton] at hm
    rcases hm with hm | hm
    · exact h.name_no_lt hm
    · exact absurd hm (by decide)
  have hs := splitOnFirst_found '<' [] (name ++ [' ']) (email ++ ['>']) hlt
  have e1 : identityText name email = name ++ [' '] ++ ['<'] ++ (email ++ ['>']) := by
    simp [identityText]
  have e2 : stripSuffix ['>'] (email ++ ['>']) = some email := by
    simp [stripSuffix]
  unfold identityParse
  rw [e1, hs]
  simp only [e2, trim_snoc_space, h.name_trimmed, h.email_trimmed]

example : CanonIdentity "Joe Example".toList "joe@example.com".toList :=
  ⟨by decide +kernel, by decide, by decide +kernel⟩
theorem C18_identity_needs_name_trimmed :
    identityParse (identityText " J".toList "a@b".toList) = some ("J".toList, "a@b".toList) := by decide +kernel
theorem C18_identity_needs_name_no_lt :
    identityParse (identityText "a<b".toList "c@d".toList) = some ("a".toList, "b <c@d".toList) := by decide +kernel
theorem C18_identity_needs_email_trimmed :
    identityParse (identityText "J".toList "a@b ".toList) = some ("J".toList, "a@b".toList) := by decide +kernel
/-- no `@` and no `<…>`: rejected -/
theorem C18_identity_rejects : identityParse "somebody".toList = none := by decide +kernel

end Deb822Verif.Props.C18
