import Deb822Verif.Props.C01
import Deb822Verif.Lemmas.DebParseBalance
/-!
# C01, continued — the error list is tied to the tree; strict error payload; byte readers

`C01_strict_iff` / `C01_strict_same_tree` only unfold the `if errors.is_empty()` of `from_str`; they
would hold for a parser that never reports anything.  Here the error list itself is pinned down:

* A. for ANY token list the number of messages is the number of ERROR nodes of the tree
  (`C01_errors_eq_error_nodes`: each `errors.push` of `parse()` sits inside one
  `start_node(ERROR) … finish_node()`, lossless.rs:150-153, 171-176, 182-188, 203-206, and there is
  no other `start_node(ERROR)`); every message has one of three forms (`C01_error_messages`);
  an ERROR node holds at most one token and nothing else (`C01_error_node_shape`);
  on a lexed text every ERROR *token* is a direct child of an ERROR node
  (`C01_error_token_in_error_node`; false for arbitrary token lists, witness below), so there are
  at least as many messages as ERROR tokens (`C01_error_tokens_le_errors`), the
  strict reader accepts exactly the texts whose tree has no ERROR node, and an accepted text has no
  ERROR token.
* B. `from_str` returns `Err(ParseError(parsed.errors))` (lossless.rs:1135-1142): the payload is the
  tolerant reader's list, unchanged and non-empty (`C01_strict_err`).
* C. `Deb822::read` / `read_relaxed` (lossless.rs:616-627): `read_to_string` fails with an
  `io::Error` (kind InvalidData) when the bytes are not UTF-8, otherwise `from_str` /
  `from_str_relaxed` run on the decoded text.  UTF-8 is core Lean's `ByteArray.utf8Decode?` /
  `List.utf8Encode` (`ByteArray.IsValidUTF8 b ↔ b` is the encoding of a list of Unicode scalar
  values — shortest form, no surrogates, ≤ U+10FFFF: the same set Rust's `str::from_utf8` accepts;
  that agreement is part of the trusted base, as is "the `Read` object is a byte slice": genuine
  I/O failures of the reader are not modelled).  The inversion lemmas are core's
  (`List.utf8Decode?_utf8Encode`, `ByteArray.utf8Encode_get_utf8Decode?`), so nothing is assumed.
-/
namespace Deb822Verif.Props.C01
open Deb822Verif Deb Node

/-! ### A. errors ↔ ERROR nodes -/

/-- the number of reported errors is the number of ERROR nodes of the tree, for any token list:
    every site that pushes an error builds one ERROR node and vice versa -/
theorem C01_errors_eq_error_nodes (ts : List Tok) :
    (parseTokens ts).errors.length = errNodes (parseTokens ts).tree := parseTokens_bal ts

/-- same, for the tolerant reader of a text -/
theorem C01_relaxed_errors_eq_error_nodes (s : Str) :
    (readRelaxed s).2.length = errNodes (readRelaxed s).1 := parseTokens_bal (lex s)

/-- every message is `expected key`, `expected ':', got <current>` or
    `expected newline, got <kind ≠ NEWLINE>` -/
theorem C01_error_messages (ts : List Tok) : ∀ m ∈ (parseTokens ts).errors, IsParseMsg m :=
  rootLoop_msg ts

/-- token-level form: on a token list with the lexer's line discipline (`Good`: no ERROR token
    between a WHITESPACE / COMMENT token and the end of its line) every ERROR token of the tree is a
    direct child of an ERROR node -/
theorem C01_error_token_in_error_node_tokens (ts : List Tok) (h : Good ts) :
    wrapped false (parseTokens ts).tree = true := parseTokens_wrapped ts h

/-- the lexer's output has that discipline, from any state (`lex` and `lex_inline`) -/
theorem C01_lex_good (s : Str) : Good (lex s) ∧ Good (lexInline s) := ⟨lexAux_good _ _, lexAux_good _ _⟩

/-- in the tree of a text every ERROR *token* (a character the lexer could not classify) is a direct
    child of an ERROR node -/
theorem C01_error_token_in_error_node (s : Str) : wrapped false (parse s).tree = true :=
  parseTokens_wrapped _ (lex_good s)

/-- … which is not so for arbitrary token lists: `skip_ws_and_newlines` bumps an ERROR token that
    follows a WHITESPACE token into an EMPTY_LINE node, without a message -/
theorem C01_error_token_bare_witness :
    wrapped false (parseTokens [(.WHITESPACE, [' ']), (.ERROR, ['é'])]).tree = false ∧
      (parseTokens [(.WHITESPACE, [' ']), (.ERROR, ['é'])]).errors = [] := by
  decide +kernel

/-- the strict reader accepts exactly the texts whose (tolerant) tree has no ERROR node -/
theorem C01_strict_iff_no_error_node (s : Str) :
    (∃ t, readStrict s = .ok t) ↔ errNodes (readRelaxed s).1 = 0 := by
  rw [C01_strict_iff, ← C01_relaxed_errors_eq_error_nodes]
  exact List.length_eq_zero_iff.symm

/-- an accepted text has no ERROR token: the lexer classified every character -/
theorem C01_no_error_no_error_token (s : Str) (h : ∃ t, readStrict s = .ok t) :
    ∀ t ∈ lex s, t.1 ≠ .ERROR := by
  have h0 := (C01_strict_iff_no_error_node s).1 h
  have hw := C01_error_token_in_error_node s
  have := no_err_leaf (parse s).tree hw h0
  rwa [C01_tokens_once] at this

/-- contrapositive: a character the lexer cannot classify makes both readers report an error -/
theorem C01_error_token_rejected (s : Str) (t : Tok) (ht : t ∈ lex s) (hk : t.1 = .ERROR) :
    (readRelaxed s).2 ≠ [] ∧ ∀ tr, readStrict s ≠ .ok tr := by
  have hno : ¬ ∃ tr, readStrict s = .ok tr := fun h => C01_no_error_no_error_token s h t ht hk
  refine ⟨fun h => hno ((C01_strict_iff s).2 h), fun tr h => hno ⟨tr, h⟩⟩

/-- for any token list: an ERROR node holds at most one child, a token (the unexpected token the
    parser bumped; nothing when the input ended) -/
theorem C01_error_node_shape (ts : List Tok) : errShape (parseTokens ts).tree = true :=
  parseTokens_errShape ts

/-- every character the lexer could not classify has its own message: the number of ERROR tokens
    of a text is at most the number of reported errors -/
theorem C01_error_tokens_le_errors (s : Str) :
    (lex s).countP isErrTok ≤ (readRelaxed s).2.length := by
  have := errToks_le (parse s).tree (C01_error_token_in_error_node s) (parseTokens_errShape _)
  rw [C01_tokens_once] at this
  rw [C01_relaxed_errors_eq_error_nodes]; exact this

/-! ### B. the strict reader's `Err` value -/

/-- `from_str` returns `Err(ParseError(parsed.errors))`: the payload is the tolerant reader's error
    list, unchanged, and it is not empty -/
theorem C01_strict_err (s : Str) (e : List String) (h : readStrict s = .error e) :
    e = (readRelaxed s).2 ∧ (readRelaxed s).2 ≠ [] := by
  unfold readStrict at h
  split at h
  · simp at h
  · rename_i hne
    simp only [Except.error.injEq] at h
    refine ⟨h.symm, ?_⟩
    intro h0
    apply hne
    simp only [readRelaxed] at h0
    simp [h0]

/-- the strict reader is one of the two: the tolerant tree with no message, or the tolerant
    reader's non-empty message list -/
theorem C01_strict_cases (s : Str) :
    (readStrict s = .ok (readRelaxed s).1 ∧ (readRelaxed s).2 = []) ∨
      (readStrict s = .error (readRelaxed s).2 ∧ (readRelaxed s).2 ≠ []) := by
  cases h : readStrict s with
  | ok t =>
    left
    exact ⟨by rw [C01_strict_same_tree s t h], (C01_strict_iff s).1 ⟨t, h⟩⟩
  | error e =>
    right
    have := C01_strict_err s e h
    exact ⟨by rw [this.1], this.2⟩

/-- the payload has one message per ERROR node of the tolerant tree, each of the three forms -/
theorem C01_strict_err_shape (s : Str) (e : List String) (h : readStrict s = .error e) :
    e.length = errNodes (readRelaxed s).1 ∧ 0 < errNodes (readRelaxed s).1 ∧ ∀ m ∈ e, IsParseMsg m := by
  have h1 := C01_strict_err s e h
  have h2 := C01_relaxed_errors_eq_error_nodes s
  have hpos : 0 < (readRelaxed s).2.length := List.length_pos_iff.2 h1.2
  refine ⟨by rw [h1.1]; exact h2, by omega, ?_⟩
  rw [h1.1]
  exact C01_error_messages (lex s)

/-! ### C. the byte readers `Deb822::read` / `Deb822::read_relaxed` -/

/-- `String::from_utf8` / `read_to_string`: the text of a byte sequence, if it is UTF-8 -/
def utf8Decode? (b : ByteArray) : Option Str := b.utf8Decode?.map Array.toList

/-- `str::as_bytes` -/
def utf8Encode (s : Str) : ByteArray := (String.ofList s).toUTF8

/-- `deb822_lossless::Error` -/
inductive ReadError where
  /-- `Error::IoError`: here always "stream did not contain valid UTF-8" -/
  | io
  /-- `Error::ParseError(ParseError(errors))` -/
  | parse (errors : List String)
  deriving Repr, DecidableEq

/-- `Deb822::read_relaxed` on an in-memory reader: `none` = `Err(io::Error)` -/
def readBytesRelaxed (b : ByteArray) : Option (DNode × List String) :=
  match utf8Decode? b with
  | none => none
  | some s => some (readRelaxed s)

/-- `Deb822::read` on an in-memory reader (`?` converts `ParseError` with `From`) -/
def readBytes (b : ByteArray) : Except ReadError DNode :=
  match utf8Decode? b with
  | none => .error .io
  | some s =>
    match readStrict s with
    | .ok t => .ok t
    | .error e => .error (.parse e)

theorem utf8Encode_eq (s : Str) : utf8Encode s = s.utf8Encode := by
  simp [utf8Encode]

/-- decoding inverts encoding (core: `List.utf8Decode?_utf8Encode`) -/
theorem utf8Decode_encode (s : Str) : utf8Decode? (utf8Encode s) = some s := by
  simp [utf8Decode?, utf8Encode_eq]

/-- encoding inverts decoding (core: `ByteArray.utf8Encode_get_utf8Decode?`) -/
theorem utf8Encode_decode (b : ByteArray) (s : Str) (h : utf8Decode? b = some s) : utf8Encode s = b := by
  unfold utf8Decode? at h
  cases hd : b.utf8Decode? with
  | none => simp [hd] at h
  | some a =>
    have hs : b.utf8Decode?.isSome = true := by simp [hd]
    have := ByteArray.utf8Encode_get_utf8Decode? (b := b) (h := hs)
    simp only [hd, Option.map_some, Option.some.injEq] at h
    simp only [hd, Option.get_some] at this
    rw [utf8Encode_eq, ← h]; exact this

theorem utf8Decode_none_iff (b : ByteArray) : utf8Decode? b = none ↔ ¬ b.IsValidUTF8 := by
  rw [← ByteArray.isSome_utf8Decode?_iff]
  unfold utf8Decode?
  cases b.utf8Decode? <;> simp

/-- the byte reader on the encoding of a text is the text reader -/
theorem C01_read_bytes_eq (s : Str) :
    readBytesRelaxed (utf8Encode s) = some (readRelaxed s) ∧
      readBytes (utf8Encode s) =
        (match readStrict s with | .ok t => .ok t | .error e => .error (.parse e)) := by
  simp [readBytesRelaxed, readBytes, utf8Decode_encode]

/-- for every text: reading its UTF-8 encoding succeeds, and printing the result and encoding it
    gives back the same bytes -/
theorem C01_read_bytes_roundtrip (s : Str) :
    ∃ t errs, readBytesRelaxed (utf8Encode s) = some (t, errs) ∧ utf8Encode t.text = utf8Encode s :=
  ⟨(readRelaxed s).1, (readRelaxed s).2, (C01_read_bytes_eq s).1, by rw [C01_relaxed_roundtrip]⟩

/-- for every byte sequence: whenever the tolerant byte reader succeeds, printing the result and
    encoding it gives back exactly the bytes that were read (no normalisation of any kind) -/
theorem C01_read_bytes_lossless (b : ByteArray) (t : DNode) (errs : List String)
    (h : readBytesRelaxed b = some (t, errs)) : utf8Encode t.text = b := by
  unfold readBytesRelaxed at h
  cases hd : utf8Decode? b with
  | none => simp [hd] at h
  | some s =>
    simp only [hd, Option.some.injEq] at h
    have ht : t = (readRelaxed s).1 := by rw [h]
    rw [ht, C01_relaxed_roundtrip]
    exact utf8Encode_decode b s hd

/-- same for the strict byte reader -/
theorem C01_read_bytes_strict_lossless (b : ByteArray) (t : DNode) (h : readBytes b = .ok t) :
    utf8Encode t.text = b := by
  unfold readBytes at h
  cases hd : utf8Decode? b with
  | none => simp [hd] at h
  | some s =>
    simp only [hd] at h
    cases hr : readStrict s with
    | error e => simp [hr] at h
    | ok t' =>
      simp only [hr, Except.ok.injEq] at h
      rw [← h, C01_strict_roundtrip s t' hr]
      exact utf8Encode_decode b s hd

/-- the byte readers fail with the I/O error exactly on the byte sequences that are not UTF-8 -/
theorem C01_read_bytes_invalid (b : ByteArray) :
    (readBytesRelaxed b = none ↔ ¬ b.IsValidUTF8) ∧ (readBytes b = .error .io ↔ ¬ b.IsValidUTF8) := by
  rw [← utf8Decode_none_iff]
  constructor
  · unfold readBytesRelaxed
    cases utf8Decode? b <;> simp
  · unfold readBytes
    cases hd : utf8Decode? b with
    | none => simp
    | some s => cases hr : readStrict s <;> simp [hr]

/-- a parse error of the strict byte reader carries the tolerant reader's messages for the decoded
    text, and there is at least one -/
theorem C01_read_bytes_err (b : ByteArray) (e : List String) (h : readBytes b = .error (.parse e)) :
    ∃ s, utf8Decode? b = some s ∧ e = (readRelaxed s).2 ∧ e ≠ [] := by
  unfold readBytes at h
  cases hd : utf8Decode? b with
  | none => simp [hd] at h
  | some s =>
    simp only [hd] at h
    cases hr : readStrict s with
    | ok t => simp [hr] at h
    | error e' =>
      simp only [hr, Except.error.injEq, ReadError.parse.injEq] at h
      have := C01_strict_err s e' hr
      subst h
      exact ⟨s, rfl, this.1, by rw [this.1]; exact this.2⟩

/-! ### non-vacuity / sanity -/

/-- a text with two errors (two entries without colon): two messages, two ERROR nodes -/
example : (readRelaxed "A b\nC d\n".toList).2.length = 2 ∧ errNodes (readRelaxed "A b\nC d\n".toList).1 = 2 := by
  decide +kernel
/-- `é` where a key should be: an ERROR token, wrapped, and the missing colon: two ERROR nodes -/
example : (readRelaxed "é".toList).2 = ["expected key", "expected ':', got None"] ∧
    errNodes (readRelaxed "é".toList).1 = 2 := by
  decide +kernel
/-- all three message forms on one text; five messages, five ERROR nodes -/
example : (readRelaxed "é\nA: b\n".toList).2 = ["expected key", "expected ':', got Some(KEY)",
    "expected newline, got KEY", "expected key", "expected ':', got Some(VALUE)"] ∧
    errNodes (readRelaxed "é\nA: b\n".toList).1 = 5 := by
  decide +kernel
/-- `C01_error_tokens_le_errors`: three unclassifiable characters, three messages (the bound is tight) -/
example : (lex "ééé".toList).countP isErrTok = 3 ∧ (readRelaxed "ééé".toList).2.length = 3 := by
  decide +kernel
/-- an accepted text: no message, no ERROR node, no ERROR token -/
example : (∃ t, readStrict "A: b\n c\n\n#x\nD: e".toList = .ok t) :=
  (C01_strict_iff _).2 (by decide +kernel)
example : errNodes (readRelaxed "A: b\n c\n\n#x\nD: e".toList).1 = 0 := by decide +kernel
/-- hypotheses of `C01_error_token_rejected` / `C01_strict_err` / `C01_strict_err_shape` -/
example : ((.ERROR, ['é']) : Tok) ∈ lex "é".toList := by decide +kernel
example : (match readStrict "A b\n".toList with
    | .error e => e == ["expected ':', got Some(NEWLINE)"] | .ok _ => false) = true := by decide +kernel
/-- hypothesis of `C01_error_token_in_error_node_tokens` on a list the lexer does not produce -/
example : Good [(.ERROR, ['é']), (.WHITESPACE, [' ']), (.NEWLINE, ['\n']), (.ERROR, ['é'])] := by
  simp [Good, notNl]

/-- byte level: `é: x` is `c3 a9 3a 20 78`; the readers see the text, and print the same bytes -/
example : utf8Encode "é: x".toList = ByteArray.mk #[0xc3, 0xa9, 0x3a, 0x20, 0x78] := by decide +kernel
example : utf8Decode? (ByteArray.mk #[0xc3, 0xa9, 0x3a, 0x20, 0x78]) = some "é: x".toList := by
  decide +kernel
/-- hypotheses of `C01_read_bytes_lossless` / `_strict_lossless` / `_err` / `_invalid` -/
example : readBytesRelaxed (ByteArray.mk #[0xc3, 0xa9, 0x3a, 0x20, 0x78])
    = some ((readRelaxed "é: x".toList).1, (readRelaxed "é: x".toList).2) := by
  have h : ByteArray.mk #[0xc3, 0xa9, 0x3a, 0x20, 0x78] = utf8Encode "é: x".toList := by decide +kernel
  rw [h]; exact (C01_read_bytes_eq _).1
example : (match readBytes (ByteArray.mk #[0x41, 0x3a]) with
    | .ok t => t.text == "A:".toList | .error _ => false) = true := by decide +kernel
example : (match readBytes (ByteArray.mk #[0x41]) with
    | .error e => e == .parse ["expected ':', got None"] | .ok _ => false) = true := by decide +kernel
example : ¬ (ByteArray.mk #[0x41, 0xff]).IsValidUTF8 := by decide +kernel
/-- an overlong encoding of `/` and an encoded surrogate are not UTF-8 either -/
example : ¬ (ByteArray.mk #[0xc0, 0xaf]).IsValidUTF8 ∧ ¬ (ByteArray.mk #[0xed, 0xa0, 0x80]).IsValidUTF8 := by
  decide +kernel
example : readBytes (ByteArray.mk #[0x41, 0xff]) = .error .io :=
  (C01_read_bytes_invalid _).2.2 (by decide +kernel)

end Deb822Verif.Props.C01
