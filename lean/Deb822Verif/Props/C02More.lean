import Deb822Verif.Props.C02
import Deb822Verif.Lemmas.TotalMoreDeb
import Deb822Verif.Lemmas.TotalMorePgp
import Deb822Verif.Lemmas.TotalMoreRel
import Deb822Verif.Lemmas.TotalMoreRelList
import Deb822Verif.Lemmas.TotalMoreCodec
/-!
# C02 (continued) — work bounds and panic-freedom of the remaining readers

`Props/C02.lean` bounds the lexers and the two lossless parsers and shows the lossy deb822 reader
never reaches `unreachable!()`.  This file adds, for the entry points `Driver/Total.lean` runs
(`deb.lossy`, `deb.lossypara`, `lrel.relation`, `lrel.relations`, `pgp.strip`, `vcs.parsed`,
`vcs.git`, `vcs.svn`, `vcs.other`):

* a **work bound**: an instrumented twin of each model function (`Lemmas/TotalMore*.lean`) returns
  the model's result together with the number of loop rounds of the Rust loops; `…_twin` says the
  result component *is* the model function the driver runs, `…_work` bounds the count by the
  token / line count and `…_bound` by the text length.  What is counted is stated at each twin;
* **panic-freedom** where the Rust code has a panic-capable construct: the slices of
  `ParsedVcs::from_str` (`Model/Codec.lean` has no `Outcome` branch for them — the twin
  `ParsedVcs.parseO` has one per slice and is shown never to take it).  The lossy relation reader,
  `strip_pgp_signature` and the other codec parsers contain no panic-capable construct at all
  (inventories in `Lemmas/TotalMoreRel.lean`, `Lemmas/TotalMoreCodec.lean`); their models are total
  functions into `Except` / `Option`, which the `…_total` statements spell out.

Not covered here: `glob_to_regex` does have reachable panics; they are characterised exactly by
`Props.C17.C17_glob_panic_iff`.
-/
namespace Deb822Verif.Props.C02
open Deb822Verif

/-! ## 1. lossy deb822 reader (`deb.lossy`, `deb.lossypara`) -/

/-- the instrumented reader returns what `lossy::Deb822::from_str` (model `Lossy.read`) returns -/
theorem C02_deb_lossy_twin (s : Str) : (Deb.Lossy.readC s).1 = Deb.Lossy.read s :=
  Deb.Lossy.readC_fst s

/-- on *any* token list, the rounds of all six loops of the reader together (main `while let`,
    whitespace skip, first-line `for`, `while peek == INDENT`, its inner `loop`, comment `for`)
    are at most the number of tokens: every round consumes a token except the last round of an
    inner continuation loop (stops at `KEY` / end of input), and each field's `COLON` — consumed
    outside any loop — pays for the one such round the field can have -/
theorem C02_deb_lossy_work_toks (paras cur) (ts : List Deb.Tok) :
    (Deb.Lossy.loopC paras cur ts).2 ≤ ts.length :=
  Deb.Lossy.loopC_cost paras cur ts

/-- lossy deb822 reader: loop rounds ≤ tokens of the text -/
theorem C02_deb_lossy_work (s : Str) : (Deb.Lossy.readC s).2 ≤ (Deb.lex s).length :=
  Deb.Lossy.loopC_cost _ _ _

/-- the form asked for in the task: rounds ≤ tokens + 1 (also covers the final `tokens.next()`
    of the main loop that returns `None`, if one wants to count it as a round) -/
theorem C02_deb_lossy_work_succ (s : Str) : (Deb.Lossy.readC s).2 + 1 ≤ (Deb.lex s).length + 1 :=
  Nat.succ_le_succ (C02_deb_lossy_work s)

/-- lossy deb822 reader: loop rounds ≤ characters of the text -/
theorem C02_deb_lossy_bound (s : Str) : (Deb.Lossy.readC s).2 ≤ s.length :=
  Nat.le_trans (C02_deb_lossy_work s) (C02_deb_lex_bound s)

theorem C02_deb_lossy_para_twin (s : Str) : (Deb.Lossy.readParaC s).1 = Deb.Lossy.readPara s :=
  Deb.Lossy.readParaC_fst s

/-- `lossy::Paragraph::from_str`: one run of the document reader -/
theorem C02_deb_lossy_para_bound (s : Str) : (Deb.Lossy.readParaC s).2 ≤ s.length :=
  C02_deb_lossy_bound s

/-- the bound is attained: 7 tokens, 7 rounds (the continuation loop ends at the end of input) -/
example : (Deb.Lossy.readC "A: b\n c".toList).2 = 7 ∧ (Deb.lex "A: b\n c".toList).length = 7 := by
  decide +kernel

example : (Deb.Lossy.readC "A: b\n c\nE: f\n\n# x\nG: h\n".toList).2 = 18
    ∧ (Deb.lex "A: b\n c\nE: f\n\n# x\nG: h\n".toList).length = 21 := by decide +kernel

/-- a token list the lexer never produces (INDENT directly before KEY): 5 tokens, 5 rounds -/
example : (Deb.Lossy.loopC [] []
    [(.KEY, ['A']), (.COLON, [':']), (.NEWLINE, ['\n']), (.INDENT, [' ']), (.KEY, ['B'])]).2 = 5 := by
  decide +kernel

/-! ## 2. lossy relation reader (`lrel.relation`, `lrel.relations`) -/

/-- the model's result type has no panic constructor (the Rust code has no panic-capable construct:
    inventory in `Lemmas/TotalMoreRel.lean`): every text gives a value or an error string -/
theorem C02_lrel_relation_total (s : Str) :
    (∃ r, Rel.Lossy.readRelation s = .ok r) ∨ (∃ e, Rel.Lossy.readRelation s = .error e) := by
  cases Rel.Lossy.readRelation s with
  | ok r => exact Or.inl ⟨r, rfl⟩
  | error e => exact Or.inr ⟨e, rfl⟩

theorem C02_lrel_relations_total (s : Str) :
    (∃ r, Rel.Lossy.readRelations s = .ok r) ∨ (∃ e, Rel.Lossy.readRelations s = .error e) := by
  cases Rel.Lossy.readRelations s with
  | ok r => exact Or.inl ⟨r, rfl⟩
  | error e => exact Or.inr ⟨e, rfl⟩

theorem C02_lrel_relation_twin (s : Str) : (Rel.Lossy.readRelationC s).1 = Rel.Lossy.readRelation s :=
  Rel.Lossy.readRelationC_fst s

/-- `lossy::Relation::from_str` on *any* token list: the rounds of all its loops (`eat_whitespace`
    ×7, constraint, version, architecture, restriction-list loops) ≤ tokens.  Three kinds of round
    consume nothing — the `break` rounds of the constraint and version loops and a `loop` round
    that meets the end of the input; the name, `(` and `)` are consumed outside any loop. -/
theorem C02_lrel_relation_work_toks (ts : List Rel.Tok) :
    (Rel.Lossy.readRelationToksC ts).2 ≤ ts.length :=
  Rel.Lossy.readRelationToksC_cost ts

/-- `lossy::Relation::from_str`: loop rounds ≤ tokens of the text (linear in the token count) -/
theorem C02_lrel_relation_work (s : Str) : (Rel.Lossy.readRelationC s).2 ≤ (Rel.lex s).length :=
  Rel.Lossy.readRelationToksC_cost _

theorem C02_lrel_relation_bound (s : Str) : (Rel.Lossy.readRelationC s).2 ≤ s.length :=
  Rel.Lossy.readRelationC_cost s

theorem C02_lrel_relations_twin (s : Str) :
    (Rel.Lossy.readRelationsC s).1 = Rel.Lossy.readRelations s :=
  Rel.Lossy.readRelationsC_fst s

/-- `lossy::Relations::from_str` (split on `,`, then on `|`, then `Relation::from_str` on each
    trimmed piece): rounds of the two splitting loops + rounds of all `Relation::from_str` calls
    ≤ 2·|s| + 2 (linear in the text length) -/
theorem C02_lrel_relations_bound (s : Str) : (Rel.Lossy.readRelationsC s).2 ≤ 2 * s.length + 2 :=
  Rel.Lossy.readRelationsC_cost s

example : (Rel.Lossy.readRelationC "foo (>= 1.0) [amd64 !i386] <!nocheck>".toList).2 = 16
    ∧ (Rel.lex "foo (>= 1.0) [amd64 !i386] <!nocheck>".toList).length = 20 := by decide +kernel

/-- an unterminated version clause: 7 tokens, 6 rounds, an error -/
example : (Rel.Lossy.readRelationC "foo (>= 1.0".toList) = (.error "Expected ')', found None", 6)
    ∧ (Rel.lex "foo (>= 1.0".toList).length = 7 := by decide +kernel

example : (Rel.Lossy.readRelationsC "a, b | c (>= 1),, d".toList).2 = 15 := by decide +kernel

/-- only separators: one round per `,`-piece -/
example : (Rel.Lossy.readRelationsC ",,,".toList) = (.ok [], 4) := by decide +kernel

/-! ## 3. `strip_pgp_signature` (`pgp.strip`) -/

theorem C02_pgp_total (s : Str) :
    (∃ r, Pgp.strip s = .ok r) ∨ (∃ e, Pgp.strip s = .error e) := by
  cases Pgp.strip s with
  | ok r => exact Or.inl ⟨r, rfl⟩
  | error e => exact Or.inr ⟨e, rfl⟩

theorem C02_pgp_twin (s : Str) : (Pgp.stripC s).1 = Pgp.strip s := Pgp.stripC_fst s

/-- `lines.next()` calls — one per round of the metadata, payload and signature loops, plus the
    first-line read and the junk test — are at most the number of lines + 1 -/
theorem C02_pgp_work (s : Str) : (Pgp.stripC s).2 ≤ (Text.lines s).length + 1 :=
  Pgp.stripLinesC_cost _ _

/-- the form asked for in the task: total rounds ≤ lines + 4 -/
theorem C02_pgp_work4 (s : Str) : (Pgp.stripC s).2 ≤ (Text.lines s).length + 4 :=
  Nat.le_trans (C02_pgp_work s) (by omega)

theorem C02_pgp_bound (s : Str) : (Pgp.stripC s).2 ≤ s.length + 1 :=
  Nat.le_trans (C02_pgp_work s) (Nat.succ_le_succ (Pgp.lines_length_le s))

/-- a complete signed message: 7 lines, 8 calls (the last one finds the end) -/
example :
    (Pgp.stripC ("-----BEGIN PGP SIGNED MESSAGE-----\nHash: SHA256\n\nbody\n" ++
      "-----BEGIN PGP SIGNATURE-----\nabc\n-----END PGP SIGNATURE-----\n").toList)
      = (.ok ("body\n".toList, some "abc".toList), 8) := by decide +kernel

/-- truncated in the metadata: 2 lines, 3 calls -/
example : (Pgp.stripC "-----BEGIN PGP SIGNED MESSAGE-----\nHash: SHA256".toList)
    = (.error .MissingPayload, 3) := by decide +kernel

/-! ## 4. typed field values (`vcs.parsed`, `vcs.git`, `vcs.svn`, `vcs.other`) -/

/-- `ParsedVcs::from_str` with every slice (`m.as_str()[2..len-1]`, `s[..m.start()]`, `s[m.end()..]`,
    `split_at(index)`, `branch_str[4..]`) written as a byte-offset slice that panics when out of
    range or off a character boundary: it never panics, and it returns what the model
    `ParsedVcs.parse` (run by the driver for `vcs.parsed` and inside `Vcs.fromField`) returns -/
theorem C02_vcs_no_panic (s : Str) :
    Codec.ParsedVcs.parseO s = .ok (Codec.ParsedVcs.parse s) :=
  Codec.parseO_eq s

theorem C02_vcs_never_panics (s : Str) (site : String) : Codec.ParsedVcs.parseO s ≠ .panic site := by
  rw [C02_vcs_no_panic]; exact fun h => by cases h

/-- the panic branch of the slice model is a real branch: a range that ends inside a character,
    past the end, or backwards has no slice -/
theorem C02_byteSlice_witness :
    Codec.byteSlice "é".toList 0 1 = none ∧ Codec.byteSlice "ab".toList 1 3 = none
      ∧ Codec.byteSlice "ab".toList 2 1 = none ∧ Codec.byteSlice "aéb".toList 1 3 = some "é".toList := by
  decide +kernel

example : Codec.ParsedVcs.parseO "https://e.org/é -b main [sub]".toList
    = .ok ⟨"https://e.org/é".toList, some "main".toList, some "sub".toList⟩ := by decide +kernel

end Deb822Verif.Props.C02
