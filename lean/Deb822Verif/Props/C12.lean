import Deb822Verif.Model.RelSat
import Deb822Verif.Lemmas.PreCmp
/-!
# C12 — dependency satisfaction is decided per Debian semantics

Models: `RelSat.relationsSatL` (lossless evaluator over the tree, through `Rel.name` /
`Rel.version`), `RelSat.relationsSatY` (lossy evaluator over records), `RelSat.Lookup.*` (the
three `VersionLookup` forms), `DebVersion.compare` (the version order of `debversion` 0.4.4).
The version order is a parameter `cmp` of every theorem about the evaluators.
-/
namespace Deb822Verif.Props.C12
open Deb822Verif Rel RelSat DebVersion

/-! ## the statement -/

/-- "the installed version stands in the stated relation (<<, <=, =, >=, >>) to the required
    version": `o` is the comparison of the installed version with the required one -/
def Stands : VC → Ordering → Prop
  | .LessThan, o => o = .lt
  | .LessThanEqual, o => o = .lt ∨ o = .eq
  | .Equal, o => o = .eq
  | .GreaterThanEqual, o => o = .gt ∨ o = .eq
  | .GreaterThan, o => o = .gt

/-- the 5 × 3 table of the code is the table of the statement -/
theorem holds_iff (vc : VC) (o : Ordering) : holds vc o = true ↔ Stands vc o := by
  cases vc <;> cases o <;> simp [holds, Stands]

/-- an alternative is satisfied: its package is installed and, if the alternative is versioned,
    the installed version stands in the stated relation to the required version -/
def SatisfiedRel (cmp : V → V → Ordering) (lk : Lookup) (r : RelY) : Prop :=
  ∃ v, lk r.name = some v ∧
    (r.version = none ∨ ∃ vc w, r.version = some (vc, w) ∧ Stands vc (cmp v w))

/-- a field is satisfied: every entry has at least one satisfied alternative -/
def Satisfied (cmp : V → V → Ordering) (lk : Lookup) (f : FieldY) : Prop :=
  ∀ e ∈ f, ∃ r ∈ e, SatisfiedRel cmp lk r

/-! ## the lossy evaluator -/

theorem relSatY_iff (cmp : V → V → Ordering) (lk : Lookup) (r : RelY) :
    relSatY cmp lk r = true ↔ SatisfiedRel cmp lk r := by
  unfold relSatY SatisfiedRel
  cases hv : r.version with
  | none =>
    cases hl : lk r.name with
    | none => simp
    | some v => simp
  | some p =>
    obtain ⟨vc, w⟩ := p
    cases hl : lk r.name with
    | none => simp
    | some v =>
      simp only [Option.some.injEq, exists_eq_left', holds_iff, reduceCtorEq, false_or, Prod.mk.injEq]
      constructor
      · intro h; exact ⟨vc, w, ⟨rfl, rfl⟩, h⟩
      · rintro ⟨_, _, ⟨rfl, rfl⟩, h⟩; exact h

/-- **C12, specification (lossy evaluator).** For every version order `cmp`, lookup and field:
    the answer is `true` exactly when every entry has an alternative whose package is installed
    and, if versioned, whose installed version stands in the stated relation to the required one. -/
theorem C12_spec (cmp : V → V → Ordering) (lk : Lookup) (f : FieldY) :
    relationsSatY cmp lk f = true ↔ Satisfied cmp lk f := by
  simp only [relationsSatY, entrySatY, List.all_eq_true, List.any_eq_true, relSatY_iff, Satisfied]

/-! ## the lossless evaluator -/

theorem anyO_ok {α} (f : α → Outcome Bool) (g : α → Bool) (l : List α)
    (h : ∀ a ∈ l, f a = .ok (g a)) : anyO f l = .ok (l.any g) := by
  induction l with
  | nil => rfl
  | cons a as ih =>
    have h1 := h a (by simp)
    have h2 := ih fun x hx => h x (by simp [hx])
    simp only [anyO, h1, List.any_cons]
    cases g a <;> simp [h2]

theorem allO_ok {α} (f : α → Outcome Bool) (g : α → Bool) (l : List α)
    (h : ∀ a ∈ l, f a = .ok (g a)) : allO f l = .ok (l.all g) := by
  induction l with
  | nil => rfl
  | cons a as ih =>
    have h1 := h a (by simp)
    have h2 := ih fun x hx => h x (by simp [hx])
    simp only [allO, h1, List.all_cons]
    cases g a <;> simp [h2]

theorem anyO_congr {α} (f f' : α → Outcome Bool) (l : List α) (h : ∀ a ∈ l, f a = f' a) :
    anyO f l = anyO f' l := by
  induction l with
  | nil => rfl
  | cons a as ih => simp only [anyO, h a (by simp), ih fun x hx => h x (by simp [hx])]

theorem allO_congr {α} (f f' : α → Outcome Bool) (l : List α) (h : ∀ a ∈ l, f a = f' a) :
    allO f l = allO f' l := by
  induction l with
  | nil => rfl
  | cons a as ih => simp only [allO, h a (by simp), ih fun x hx => h x (by simp [hx])]

/-- `mapO g l = ok ys`: `ys` are the values of `g` on `l`, one by one -/
theorem mapO_ok_cons {α β} {g : α → Outcome β} {a : α} {as : List α} {ys : List β}
    (h : mapO g (a :: as) = .ok ys) : ∃ y ys', ys = y :: ys' ∧ g a = .ok y ∧ mapO g as = .ok ys' := by
  unfold mapO at h
  cases hg : g a with
  | panic s => simp [hg] at h
  | ok y =>
    cases hm : mapO g as with
    | panic s => simp [hg, hm] at h
    | ok ys' =>
      simp only [hg, hm, Outcome.ok.injEq] at h
      exact ⟨y, ys', h.symm, rfl, rfl⟩

theorem anyO_of_mapO {α β} {g : α → Outcome β} {p : α → Outcome Bool} {q : β → Bool}
    (hpq : ∀ a y, g a = .ok y → p a = .ok (q y)) :
    ∀ (l : List α) (ys : List β), mapO g l = .ok ys → anyO p l = .ok (ys.any q) := by
  intro l
  induction l with
  | nil => intro ys h; simp only [mapO, Outcome.ok.injEq] at h; subst h; rfl
  | cons a as ih =>
    intro ys h
    obtain ⟨y, ys', rfl, hy, hrest⟩ := mapO_ok_cons h
    simp only [anyO, hpq a y hy, List.any_cons]
    cases q y <;> simp [ih ys' hrest]

theorem allO_of_mapO {α β} {g : α → Outcome β} {p : α → Outcome Bool} {q : β → Bool}
    (hpq : ∀ a y, g a = .ok y → p a = .ok (q y)) :
    ∀ (l : List α) (ys : List β), mapO g l = .ok ys → allO p l = .ok (ys.all q) := by
  intro l
  induction l with
  | nil => intro ys h; simp only [mapO, Outcome.ok.injEq] at h; subst h; rfl
  | cons a as ih =>
    intro ys h
    obtain ⟨y, ys', rfl, hy, hrest⟩ := mapO_ok_cons h
    simp only [allO, hpq a y hy, List.all_cons]
    cases q y <;> simp [ih ys' hrest]

/-- one RELATION node against the record its accessors show -/
theorem relSatL_view (cmp : V → V → Ordering) (lk : Lookup) (r : RNode) (y : RelY)
    (h : viewRel r = .ok y) : relSatL cmp lk r = .ok (relSatY cmp lk y) := by
  unfold viewRel at h
  unfold relSatL relSatLO relSatY
  cases hn : name r with
  | none => simp [hn] at h
  | some n =>
    cases hv : version r with
    | error e => simp [hn, hv] at h
    | ok v =>
      simp only [hn, hv, Outcome.ok.injEq] at h
      subst h
      cases v with
      | none => rfl
      | some p =>
        obtain ⟨vc, w⟩ := p
        cases hl : lk n <;> simp [total, Outcome.map, hl]

/-- **C12, lossless = lossy.** "The same field": the lossy records are the accessor view of the
    tree — entry by entry, alternative by alternative, (`name()`, `version()`) of each RELATION
    node (`viewL`; in particular no accessor panics). Then, for every version order and lookup,
    the lossless evaluator returns what the lossy evaluator returns. -/
theorem C12_lossless_eq_lossy (cmp : V → V → Ordering) (lk : Lookup) (root : RNode) (f : FieldY)
    (hsame : viewL root = .ok f) :
    relationsSatL cmp lk root = .ok (relationsSatY cmp lk f) := by
  unfold relationsSatL relationsSatLO relationsSatY
  refine allO_of_mapO (g := fun e => mapO viewRel (relations e)) ?_ (entries root) f hsame
  intro e ys hys
  unfold entrySatLO entrySatY
  exact anyO_of_mapO (fun r y hy => relSatL_view cmp lk r y hy) (relations e) ys hys

/-- **C12, specification (lossless evaluator).** On a tree none of whose accessors panics (so
    that it denotes a field `f`), the answer is `true` exactly when `f` is satisfied. -/
theorem C12_spec_lossless (cmp : V → V → Ordering) (lk : Lookup) (root : RNode) (f : FieldY)
    (hview : viewL root = .ok f) :
    relationsSatL cmp lk root = .ok true ↔ Satisfied cmp lk f := by
  rw [C12_lossless_eq_lossy cmp lk root f hview, ← C12_spec]
  simp

/-! ## lookup forms -/

theorem all_congr_mem {α} {p q : α → Bool} {l : List α} (h : ∀ a ∈ l, p a = q a) :
    l.all p = l.all q := by
  induction l with
  | nil => rfl
  | cons a as ih => simp only [List.all_cons, h a (by simp), ih fun x hx => h x (by simp [hx])]

theorem any_congr_mem {α} {p q : α → Bool} {l : List α} (h : ∀ a ∈ l, p a = q a) :
    l.any p = l.any q := by
  induction l with
  | nil => rfl
  | cons a as ih => simp only [List.any_cons, h a (by simp), ih fun x hx => h x (by simp [hx])]

/-- the lossy answer depends on the lookup only through the packages the field mentions -/
theorem C12_lookup_agree (cmp : V → V → Ordering) (lk lk' : Lookup) (f : FieldY)
    (h : ∀ e ∈ f, ∀ r ∈ e, lk r.name = lk' r.name) :
    relationsSatY cmp lk f = relationsSatY cmp lk' f := by
  unfold relationsSatY entrySatY
  apply all_congr_mem
  intro e he
  apply any_congr_mem
  intro r hr
  simp only [relSatY, h e he r hr]

/-- the lossless answer (panics included, whatever the comparison) depends on the lookup only
    through the package names of the tree's relations -/
theorem C12_lookup_agree_lossless (cmpO : V → V → Outcome Ordering) (lk lk' : Lookup) (root : RNode)
    (h : ∀ e ∈ entries root, ∀ r ∈ relations e, ∀ n, name r = some n → lk n = lk' n) :
    relationsSatLO cmpO lk root = relationsSatLO cmpO lk' root := by
  unfold relationsSatLO entrySatLO
  apply allO_congr
  intro e he
  apply anyO_congr
  intro r hr
  unfold relSatLO
  cases hn : name r with
  | none => rfl
  | some n => simp only [h e he r hr n hn]

theorem ofMap_eq_lookup (m : List (Str × V)) (n : Str) : Lookup.ofMap m n = m.lookup n := by
  unfold Lookup.ofMap
  induction m with
  | nil => rfl
  | cons e es ih =>
    obtain ⟨k, v⟩ := e
    simp only [List.find?_cons, List.lookup_cons]
    by_cases hk : k = n
    · subst hk; simp
    · have h1 : (k == n) = false := by simpa using hk
      have h2 : (n == k) = false := by simpa using fun e => hk e.symm
      simp only [h1, h2]
      exact ih

/-- a pair is the one-binding map -/
theorem ofPair_eq_ofMap (p : Str × V) (n : Str) : Lookup.ofPair p n = Lookup.ofMap [p] n := by
  unfold Lookup.ofPair Lookup.ofMap
  by_cases h : n = p.1
  · simp [h]
  · have : (p.1 == n) = false := by simpa using fun e => h e.symm
    simp [h, this]

/-- **C12, lookup forms.** A map, a closure and a pair that denote the same assignment (the
    closure returns what the map holds; the pair's single binding is all the map holds) give the
    same answer — for the lossless evaluator (panics and any comparison included) and the lossy one. -/
theorem C12_lookup_forms (cmpO : V → V → Outcome Ordering) (cmp : V → V → Ordering) (root : RNode)
    (f : FieldY) (m : List (Str × V)) (g : Str → Option V) (p : Str × V)
    (hg : ∀ n, g n = Lookup.ofMap m n) (hp : m = [p]) :
    relationsSatLO cmpO (Lookup.ofFn g) root = relationsSatLO cmpO (Lookup.ofMap m) root ∧
    relationsSatLO cmpO (Lookup.ofPair p) root = relationsSatLO cmpO (Lookup.ofMap m) root ∧
    relationsSatY cmp (Lookup.ofFn g) f = relationsSatY cmp (Lookup.ofMap m) f ∧
    relationsSatY cmp (Lookup.ofPair p) f = relationsSatY cmp (Lookup.ofMap m) f := by
  have e1 : Lookup.ofFn g = Lookup.ofMap m := funext hg
  have e2 : Lookup.ofPair p = Lookup.ofMap m := funext fun n => by rw [hp]; exact ofPair_eq_ofMap p n
  rw [e1, e2]
  exact ⟨rfl, rfl, rfl, rfl⟩

/-- the closure form without the pair (any assignment) -/
theorem C12_lookup_map_closure (cmpO : V → V → Outcome Ordering) (cmp : V → V → Ordering)
    (root : RNode) (f : FieldY) (m : List (Str × V)) :
    relationsSatLO cmpO (Lookup.ofFn fun n => m.lookup n) root = relationsSatLO cmpO (Lookup.ofMap m) root ∧
    relationsSatY cmp (Lookup.ofFn fun n => m.lookup n) f = relationsSatY cmp (Lookup.ofMap m) f := by
  have e1 : (Lookup.ofFn fun n => m.lookup n) = Lookup.ofMap m :=
    funext fun n => (ofMap_eq_lookup m n).symm
  rw [e1]; exact ⟨rfl, rfl⟩


/-! ## the Debian version ordering (`DebVersion.compare`, model of `debversion::Version::cmp`) -/

/-- reflexive -/
theorem C12_order_refl (v : V) : DebVersion.compare v v = .eq := compare_pre.refl v

/-- swapping the arguments swaps the answer (hence total: one of `v ≤ w`, `w ≤ v`) -/
theorem C12_order_swap (v w : V) : DebVersion.compare w v = (DebVersion.compare v w).swap := compare_pre.swap v w

theorem C12_order_total (v w : V) : DebVersion.compare v w ≠ .gt ∨ DebVersion.compare w v ≠ .gt := compare_pre.total v w

/-- antisymmetric up to its own equivalence (`1.0`, `1.0-0`, `01.0`, `0:1.0` are equivalent, not equal) -/
theorem C12_order_antisymm (v w : V) (h1 : DebVersion.compare v w ≠ .gt) (h2 : DebVersion.compare w v ≠ .gt) :
    DebVersion.compare v w = .eq := compare_pre.antisymm h1 h2

/-- transitive -/
theorem C12_order_trans (u v w : V) (h1 : DebVersion.compare u v ≠ .gt) (h2 : DebVersion.compare v w ≠ .gt) :
    DebVersion.compare u w ≠ .gt := compare_pre.le_trans u v w h1 h2

theorem C12_order_lt_trans (u v w : V) (h1 : DebVersion.compare u v = .lt) (h2 : DebVersion.compare v w = .lt) :
    DebVersion.compare u w = .lt := compare_pre.lt_of_lt_of_le h1 (by simp [h2])

/-- `DebVersion.compare _ _ = .eq` is an equivalence, and equivalent versions DebVersion.compare alike against anything:
    `==` on `debversion::Version` (which is `cmp == Equal`) is a congruence for the order, so the
    five operators cannot tell equivalent versions apart -/
theorem C12_order_equiv_congr (v w : V) (h : DebVersion.compare v w = .eq) (x : V) :
    DebVersion.compare v x = DebVersion.compare w x ∧ DebVersion.compare x v = DebVersion.compare x w := by
  refine ⟨compare_pre.congr_left h x, ?_⟩
  rw [compare_pre.swap v x, compare_pre.swap w x, compare_pre.congr_left h x]

/-- equal canonical data, equal rank: the order looks at the epoch (absent = 0), the upstream
    chunks and the revision chunks (absent = "0") only -/
theorem C12_order_eq_of_explicit (v w : V) (he : epochOf v = epochOf w)
    (hu : v.upstream = w.upstream) (hr : revOf v = revOf w) : DebVersion.compare v w = .eq := by
  unfold DebVersion.compare
  rw [he, hu, hr, natCmp_pre.refl, cmpPart_pre.refl, cmpPart_pre.refl]
  rfl

/-- a version text as the crate reads it (`Version::from_str`); junk for texts it refuses -/
def ver (s : String) : V := (Version.parse s.toList).getD ⟨none, [], none⟩

/-- concrete facts of the Debian order (Policy 5.6.12), kernel-checked on the model and checked
    against the real `Version::cmp` by `ver.cmp` (corpus/C12/witness.req) -/
theorem C12_order_facts :
    DebVersion.compare (ver "1.0~rc1") (ver "1.0") = .lt ∧          -- `~` sorts before the end of the string
    DebVersion.compare (ver "1.0~~") (ver "1.0~") = .lt ∧
    DebVersion.compare (ver "1.0~rc1-1") (ver "1.0-1") = .lt ∧
    DebVersion.compare (ver "1:0") (ver "9") = .gt ∧                -- the epoch first
    DebVersion.compare (ver "0:1.0") (ver "1.0") = .eq ∧            -- absent epoch = 0
    DebVersion.compare (ver "1.0-1") (ver "1.0-1+b1") = .lt ∧
    DebVersion.compare (ver "1.0") (ver "1.0-0") = .eq ∧            -- absent revision = 0
    DebVersion.compare (ver "1.0") (ver "1.0-1") = .lt ∧
    DebVersion.compare (ver "1.9") (ver "1.10") = .lt ∧             -- digit runs numerically
    DebVersion.compare (ver "1.01") (ver "1.1") = .eq ∧             -- leading zeros
    DebVersion.compare (ver "1.0a") (ver "1.0+") = .lt ∧            -- letters before other characters
    DebVersion.compare (ver "1.0") (ver "1.0a") = .lt ∧
    DebVersion.compare (ver "1.0") (ver "1.0.0") = .lt ∧
    DebVersion.compare (ver "1.0A") (ver "1.0a") = .lt ∧
    DebVersion.compare (ver "1-2-3") (ver "1-2-4") = .lt ∧          -- revision = after the last hyphen
    DebVersion.compare (ver "1.0+b1") (ver "1.0-1") = .gt := by
  decide +kernel

/-! ### where the real `Version::cmp` panics (finding F-C12-1) -/

theorem parseI32_small {d : Str} (h : digitsVal d ≤ i32Max) : parseI32 d = .ok (runVal d) := by
  unfold parseI32 runVal
  cases d with
  | nil => simp [digitsVal]
  | cons c cs => simp [h]

theorem chunkCmpO_small {x y : Chunk} (hx : digitsVal x.2 ≤ i32Max) (hy : digitsVal y.2 ≤ i32Max) :
    chunkCmpO x y = .ok (chunkCmp x y) := by
  unfold chunkCmpO chunkCmp
  cases nonDigitCmp x.1 y.1 <;> simp [parseI32_small hx, parseI32_small hy, Ordering.then]

theorem lexPadNilO_ok {α} {cmpO : α → α → Outcome Ordering} {cmp : α → α → Ordering} {P : α → Prop}
    (pad : α) (hpad : P pad) (h : ∀ a b, P a → P b → cmpO a b = .ok (cmp a b)) :
    ∀ l2 : List α, (∀ b ∈ l2, P b) → lexPadNilO cmpO pad l2 = .ok (lexPadNil cmp pad l2) := by
  intro l2
  induction l2 with
  | nil => intro _; rfl
  | cons b bs ih =>
    intro h2
    have hb := h pad b hpad (h2 b (by simp))
    have := ih fun x hx => h2 x (by simp [hx])
    simp only [lexPadNilO, lexPadNil, hb]
    cases cmp pad b <;> simp [this, Ordering.then]

theorem lexPadO_ok {α} {cmpO : α → α → Outcome Ordering} {cmp : α → α → Ordering} {P : α → Prop}
    (pad : α) (hpad : P pad) (h : ∀ a b, P a → P b → cmpO a b = .ok (cmp a b)) :
    ∀ l1 l2 : List α, (∀ a ∈ l1, P a) → (∀ b ∈ l2, P b) →
      lexPadO cmpO pad l1 l2 = .ok (lexPad cmp pad l1 l2) := by
  intro l1
  induction l1 with
  | nil => intro l2 _ h2; exact lexPadNilO_ok pad hpad h l2 h2
  | cons a as ih =>
    intro l2 h1 h2
    have has : ∀ x ∈ as, P x := fun x hx => h1 x (by simp [hx])
    cases l2 with
    | nil =>
      have ha := h a pad (h1 a (by simp)) hpad
      have := ih [] has (by simp)
      simp only [lexPadO, lexPad, ha]
      cases cmp a pad <;> simp [this, Ordering.then]
    | cons b bs =>
      have hab := h a b (h1 a (by simp)) (h2 b (by simp))
      have := ih bs has fun x hx => h2 x (by simp [hx])
      simp only [lexPadO, lexPad, hab]
      cases cmp a b <;> simp [this, Ordering.then]

theorem cmpPartO_small {a b : Str} (ha : smallStr a = true) (hb : smallStr b = true) :
    cmpPartO a b = .ok (cmpPart a b) := by
  unfold cmpPartO cmpPart
  simp only [smallStr, List.all_eq_true, decide_eq_true_eq] at ha hb
  exact lexPadO_ok (P := fun c : Chunk => digitsVal c.2 ≤ i32Max) ([], []) (by simp [digitsVal, i32Max])
    (fun x y hx hy => chunkCmpO_small hx hy) _ _ ha hb

/-- **when every numeric component fits an `i32`, the real comparison does not panic and is the
    Debian order** -/
theorem C12_compareO_small (v w : V) (hv : small v = true) (hw : small w = true) :
    compareO v w = .ok (DebVersion.compare v w) := by
  simp only [small, Bool.and_eq_true] at hv hw
  unfold compareO DebVersion.compare
  by_cases he : epochOf v = epochOf w
  · simp only [he, ne_eq, not_true_eq_false, if_false, natCmp_pre.refl, Ordering.then,
      cmpPartO_small hv.1 hw.1, cmpPartO_small hv.2 hw.2]
    cases cmpPart v.upstream w.upstream <;> rfl
  · have : natCmp (epochOf v) (epochOf w) ≠ .eq := by
      unfold natCmp; (repeat' split) <;> simp_all
    simp only [ne_eq, he, not_false_eq_true, if_true]
    cases hc : natCmp (epochOf v) (epochOf w) <;> simp_all [Ordering.then]

/-- **witness that the hypothesis cannot be dropped (F-C12-1)**: a digit run above `i32::MAX`
    makes `Version::cmp` panic as soon as the comparison reaches it — and only then -/
theorem C12_compareO_panic_witness :
    small (ver "2147483648") = false ∧
    (compareO (ver "2147483648") (ver "1")).isOk = false ∧
    (compareO (ver "0.0~git20240101123456") (ver "0.0~git20240101123456")).isOk = false ∧
    DebVersion.compare (ver "2147483648") (ver "1") = .gt ∧
    compareO (ver "2147483647") (ver "1") = .ok .gt ∧
    compareO (ver "1:2147483648") (ver "2147483648") = .ok .gt ∧        -- decided by the epoch
    compareO (ver "a.2147483648") (ver "b.2147483648") = .ok .lt := by  -- decided before the number
  decide +kernel

/-- the lossy evaluator as it runs (comparison that may panic) against the plain one -/
theorem relationsSatYO_total (cmp : V → V → Ordering) (lk : Lookup) (f : FieldY) :
    relationsSatYO (total cmp) lk f = .ok (relationsSatY cmp lk f) := by
  unfold relationsSatYO relationsSatY entrySatY
  apply allO_ok
  intro e _
  apply anyO_ok
  intro r _
  unfold relSatYO relSatY
  cases r.version with
  | none => rfl
  | some p => obtain ⟨vc, w⟩ := p; cases lk r.name <;> simp [total, Outcome.map]

/-- **C12 with the real comparison (lossy evaluator)**: if every version of the field and every
    installed version of a package the field mentions has numeric components within `i32`, the
    evaluator does not panic and decides satisfaction under the Debian order. -/
theorem C12_spec_real (lk : Lookup) (f : FieldY)
    (hf : ∀ e ∈ f, ∀ r ∈ e, (r.version.all fun p => small p.2) = true)
    (hl : ∀ e ∈ f, ∀ r ∈ e, ((lk r.name).all small) = true) :
    ∃ b, relationsSatYO compareO lk f = .ok b ∧ (b = true ↔ Satisfied DebVersion.compare lk f) := by
  refine ⟨relationsSatY DebVersion.compare lk f, ?_, C12_spec DebVersion.compare lk f⟩
  rw [← relationsSatYO_total]
  unfold relationsSatYO
  apply allO_congr
  intro e he
  apply anyO_congr
  intro r hr
  unfold relSatYO
  cases hv : r.version with
  | none => rfl
  | some p =>
    obtain ⟨vc, w⟩ := p
    cases hk : lk r.name with
    | none => rfl
    | some v =>
      have h1 := hf e he r hr
      have h2 := hl e he r hr
      simp only [hv, hk, Option.all_some] at h1 h2
      simp [total, C12_compareO_small v w h2 h1]

/-! ## accessor panics: relations the parser accepts but `version()` cannot read -/

def field (s : String) : RNode := (parse s.toList false).tree
def strictOk (s : String) : Bool := (parse s.toList false).errors.isEmpty

/-- **the hypothesis `viewL root = .ok f` cannot be derived from "the strict parser accepts the
    text"**: `a (> 1)`, `a (< 1)`, `a (== 1)` parse without error, and `version()` — hence
    `satisfied_by` — panics on them (`VersionConstraint::from_str(..).unwrap()`); these are outside
    C12's five operators. `a (1)` parses too, has an empty constraint, and panics the same way. -/
theorem C12_accessor_panic_witness :
    strictOk "a (> 1)" = true ∧ (viewL (field "a (> 1)")).isOk = false ∧
    (relationsSatL DebVersion.compare (Lookup.ofMap [("a".toList, ver "2")]) (field "a (> 1)")).isOk = false ∧
    strictOk "a (== 1)" = true ∧ (viewL (field "a (== 1)")).isOk = false ∧
    strictOk "a (1)" = true ∧ (viewL (field "a (1)")).isOk = false ∧
    -- `any` stops at the first satisfied alternative: the unreadable one is not reached
    relationsSatL DebVersion.compare (Lookup.ofMap [("b".toList, ver "2")]) (field "b | a (> 1)") = .ok true := by
  decide +kernel

/-! ## non-vacuity: the hypotheses are satisfiable and the theorems fire -/

/-- `a (>= 1:2.0~rc1-1) | b, c (<< 3)` -/
def exText : String := "a (>= 1:2.0~rc1-1) | b, c (<< 3)"
def exField : FieldY :=
  [[⟨"a".toList, some (.GreaterThanEqual, ver "1:2.0~rc1-1")⟩, ⟨"b".toList, none⟩],
   [⟨"c".toList, some (.LessThan, ver "3")⟩]]
def exMap : List (Str × V) := [("b".toList, ver "0.1"), ("c".toList, ver "3~")]

-- C12_lossless_eq_lossy / C12_spec_lossless: the tree of `exText` denotes `exField`
theorem exView : viewL (field exText) = .ok exField := by decide +kernel

example : relationsSatL DebVersion.compare (Lookup.ofMap exMap) (field exText) = .ok true := by
  rw [C12_lossless_eq_lossy DebVersion.compare _ _ exField exView]; decide +kernel

example : Satisfied DebVersion.compare (Lookup.ofMap exMap) exField :=
  (C12_spec_lossless DebVersion.compare _ _ exField exView).1 (by decide +kernel)

-- C12_spec: and with `c` at 3 the second entry fails
example : ¬ Satisfied DebVersion.compare (Lookup.ofMap [("b".toList, ver "0.1"), ("c".toList, ver "3")]) exField :=
  fun h => absurd ((C12_spec DebVersion.compare _ exField).2 h) (by decide +kernel)

-- C12_lookup_agree / C12_lookup_agree_lossless: a lookup that differs on an unmentioned package
example : relationsSatY DebVersion.compare (Lookup.ofMap (("z".toList, ver "1") :: exMap)) exField
    = relationsSatY DebVersion.compare (Lookup.ofMap exMap) exField :=
  C12_lookup_agree DebVersion.compare _ _ exField (by decide +kernel)

-- C12_lookup_forms: a one-binding assignment in the three forms
example :
    relationsSatL DebVersion.compare (Lookup.ofPair ("b".toList, ver "1")) (field exText)
      = relationsSatL DebVersion.compare (Lookup.ofMap [("b".toList, ver "1")]) (field exText) :=
  (C12_lookup_forms (total DebVersion.compare) DebVersion.compare (field exText) exField [("b".toList, ver "1")]
    (fun n => if n = "b".toList then some (ver "1") else none) ("b".toList, ver "1")
    (fun n => by rw [← ofPair_eq_ofMap]; rfl) rfl).2.1

-- C12_order_antisymm / C12_order_trans / C12_order_equiv_congr on concrete versions
example : DebVersion.compare (ver "1.0") (ver "01.0-0") = .eq :=
  C12_order_antisymm _ _ (by decide +kernel) (by decide +kernel)
example : DebVersion.compare (ver "1.0~rc1") (ver "1:0") ≠ .gt :=
  C12_order_trans _ (ver "1.0") _ (by decide +kernel) (by decide +kernel)
example : DebVersion.compare (ver "1.0") (ver "2") = DebVersion.compare (ver "0:1.0-0") (ver "2") :=
  (C12_order_equiv_congr _ _ (by decide +kernel) _).1

-- C12_compareO_small / C12_spec_real: hypotheses hold for the example
example : compareO (ver "1:2.0~rc1-1") (ver "2147483647") = .ok .gt := by
  rw [C12_compareO_small _ _ (by decide +kernel) (by decide +kernel)]; decide +kernel
example : ∃ b, relationsSatYO compareO (Lookup.ofMap exMap) exField = .ok b ∧
    (b = true ↔ Satisfied DebVersion.compare (Lookup.ofMap exMap) exField) :=
  C12_spec_real _ exField (by decide +kernel) (by decide +kernel)

end Deb822Verif.Props.C12
