import Deb822Verif.Props.C07Ctl
import Deb822Verif.Props.C07Comments
import Deb822Verif.Props.C07Trigger
import Deb822Verif.Lemmas.DebWrapIndentText
import Deb822Verif.Lemmas.DebWrapRereadIdem
/-!
# C07 — additions after the audit of the property (audit report `logs/audit_C07.md`)

* **D2, the panics of the control wrappers** (`C07_control_panic_iff`, `C07_control_para_panic_iff`):
  on a well-formed control file `Control::wrap_and_sort` panics exactly when some relationship field
  is read by the relations parser without error and `Relations::wrap_and_sort` panics on it; that
  happens exactly when an accessor `unwrap` fails (`C07_relationsWrap_panic_iff`,
  `C07_version_error_iff`: an operator outside the five, or a version text `Version::from_str`
  refuses — an epoch of 2^32 or more); such a field is not a well-formed relationship field
  (`C07_control_panic_not_wf`, through C13): a statement about the domain, not a finding.  With the real,
  panicking `Version::cmp` there is one more cause, numbers above `i32::MAX` (open finding F-C07-8,
  exact trigger in `Props/C07Trigger.lean`).
* **D3, indentation at text level** (`C07_indent_text`).
* **D1, a CR inside a value on the formatter path** (`C07_cr_formatter_witness`): outside the domain
  (LF documents); the model reproduces what the code does.
* **idempotence through the printed form** (`C07_reread_idempotent`): no formatter, `DocS.WF`, for a
  paragraph comparator that looks at the fields of the paragraphs only (`ParaInv`).
-/
set_option linter.unusedSimpArgs false
set_option linter.unusedVariables false
namespace Deb822Verif.Props.C07More
open Deb822Verif Deb Node Spec Ctl

/-- the settings of the closed instances of this file: `Spaces(2)`, no empty first line, no width limit -/
def exCfgM : WrapCfg := { indentation := .spaces 2, immediateEmptyLine := false, maxLineLengthOneLiner := none }

/-! ## D2 — when the control wrappers panic -/

/-- `format_field` panics on the field: it is one of the twelve relationship fields, the relations
    parser reads its text without error (substitution variables allowed) and `Relations::wrap_and_sort`
    panics on the tree -/
def FieldPanics (k v : Str) : Prop :=
  relFields.contains k = true ∧ (Rel.parse v true).errors = []
    ∧ ∃ s, Rel.Wrap.relationsWrap (Rel.parse v true).tree = .panic s

theorem formatFieldO_none_iff (k v : Str) : formatFieldO k v = none ↔ FieldPanics k v := by
  unfold formatFieldO FieldPanics
  by_cases hu : k = kUploaders
  · subst hu
    rw [if_pos rfl]
    constructor
    · intro h; cases h
    · rintro ⟨h, _⟩; rw [uploaders_not_rel] at h; cases h
  · rw [if_neg hu]
    by_cases hr : relFields.contains k = true
    · rw [if_pos hr]
      cases he : (Rel.parse v true).errors with
      | cons a as => simp [hr]
      | nil =>
        simp only [List.isEmpty_nil, Bool.not_true, Bool.false_eq_true, if_false, hr, true_and]
        cases hw : Rel.Wrap.relationsWrap (Rel.parse v true).tree with
        | ok t => simp
        | panic s => simp
    · rw [if_neg hr]
      constructor
      · intro h; cases h
      · rintro ⟨h, _⟩; exact absurd h hr

theorem paraPanics_iff (p : ParaS) (more : Bool) (hwf : p.WF) (ht : p.Term more) :
    paraPanics p.node = true ↔ ∃ e ∈ paraEntries p, FieldPanics e.key (rawText e) := by
  unfold paraPanics
  rw [entries_para]
  simp only [List.any_eq_true, List.mem_map]
  constructor
  · rintro ⟨x, ⟨e, he, rfl⟩, hx⟩
    obtain ⟨_, m, hm⟩ := paraEntries_props p more hwf ht e he
    rw [entryPanics_node e m hm] at hx
    refine ⟨e, he, (formatFieldO_none_iff _ _).1 ?_⟩
    cases hf : formatFieldO e.key (rawText e) with
    | none => rfl
    | some v => rw [hf] at hx; cases hx
  · rintro ⟨e, he, hp⟩
    obtain ⟨_, m, hm⟩ := paraEntries_props p more hwf ht e he
    refine ⟨e.node, ⟨e, he, rfl⟩, ?_⟩
    rw [entryPanics_node e m hm, (formatFieldO_none_iff _ _).2 hp]
    rfl

/-- **`Control::wrap_and_sort` panics exactly when `format_field` panics on a relationship field.**
    For every well-formed control file (C03 grammar) and every indentation of at least one column:
    the call panics iff some field named as one of the twelve relationship fields is read by the
    relations parser without error and `Relations::wrap_and_sort` panics on it.  (Nothing else in
    the wrapper can panic on such a document.) -/
theorem C07_control_panic_iff (cfg : WrapCfg) (d : DocS) (hwf : d.WF) (hc : IndentOK cfg) :
    controlWrap cfg d.tree = none
      ↔ ∃ pg ∈ d.paras, ∃ e ∈ paraEntries pg.1, FieldPanics e.key (rawText e) := by
  have hany : (paragraphs d.tree).any paraPanics = true
      ↔ ∃ pg ∈ d.paras, ∃ e ∈ paraEntries pg.1, FieldPanics e.key (rawText e) := by
    rw [paragraphs_tree]
    simp only [List.any_eq_true, List.mem_map]
    constructor
    · rintro ⟨x, ⟨pg, hpg, rfl⟩, hx⟩
      obtain ⟨m, hm⟩ := parasTerm_each d.paras hwf.paras_term pg hpg
      exact ⟨pg, hpg, (paraPanics_iff pg.1 m (hwf.paras_ok pg hpg).1 hm).1 hx⟩
    · rintro ⟨pg, hpg, h⟩
      obtain ⟨m, hm⟩ := parasTerm_each d.paras hwf.paras_term pg hpg
      exact ⟨pg.1.node, ⟨pg, hpg, rfl⟩, (paraPanics_iff pg.1 m (hwf.paras_ok pg hpg).1 hm).2 h⟩
  obtain ⟨root', hs⟩ := deb822Wrap_fmt_success cfg none (some ctlParaLe) formatField d hwf hc
  rw [← hany]
  unfold controlWrap
  cases hp : (paragraphs d.tree).any paraPanics with
  | true => simp
  | false => simp [hs]

/-- the same for `Source::wrap_and_sort` / `Binary::wrap_and_sort` on one paragraph -/
theorem C07_control_para_panic_iff (cfg : WrapCfg) (p : ParaS) (more : Bool) (hwf : p.WF) (ht : p.Term more)
    (hc : IndentOK cfg) :
    paraWrap cfg p.node = none ↔ ∃ e ∈ paraEntries p, FieldPanics e.key (rawText e) := by
  obtain ⟨p', hs⟩ := paragraphWrap_fmt_success cfg none formatField p more hwf ht hc
  rw [← paraPanics_iff p more hwf ht]
  unfold paraWrap
  cases hp : paraPanics p.node with
  | true => simp
  | false => simp [hs]

/-! ### when `Relations::wrap_and_sort` panics: the accessors -/

open Rel Rel.Wrap in
theorem mapO_panic_iff {α β} (f : α → Outcome β) :
    ∀ l : List α, (∃ s, mapO f l = .panic s) ↔ ∃ a ∈ l, ∃ s, f a = .panic s := by
  intro l
  induction l with
  | nil => simp [mapO]
  | cons a as ih =>
    simp only [mapO, List.mem_cons, exists_eq_or_imp]
    cases hf : f a with
    | panic s => simp
    | ok b =>
      cases hm : mapO f as with
      | panic s =>
        have := ih.1 (by rw [hm]; exact ⟨s, rfl⟩)
        simp [this]
      | ok bs =>
        have h : ¬ ∃ a ∈ as, ∃ s, f a = .panic s := fun h => by
          obtain ⟨s, hs⟩ := ih.2 h
          rw [hm] at hs; cases hs
        simp [h]

open Rel Rel.Wrap in
theorem mapO_ok_mem {α β} (f : α → Outcome β) :
    ∀ (l : List α) (bs : List β), mapO f l = .ok bs →
      (∀ a ∈ l, ∃ b ∈ bs, f a = .ok b) ∧ (∀ b ∈ bs, ∃ a ∈ l, f a = .ok b) := by
  intro l
  induction l with
  | nil => intro bs h; simp only [mapO, Outcome.ok.injEq] at h; subst h; simp
  | cons a as ih =>
    intro bs h
    simp only [mapO] at h
    cases hf : f a with
    | panic s => rw [hf] at h; cases h
    | ok b =>
      rw [hf] at h
      simp only at h
      cases hm : mapO f as with
      | panic s => rw [hm] at h; cases h
      | ok bs' =>
        rw [hm] at h
        simp only [Outcome.ok.injEq] at h
        subst h
        obtain ⟨h1, h2⟩ := ih bs' hm
        constructor
        · intro x hx
          simp only [List.mem_cons] at hx
          rcases hx with rfl | hx
          · exact ⟨b, by simp, hf⟩
          · obtain ⟨y, hy, hxy⟩ := h1 x hx
            exact ⟨y, by simp [hy], hxy⟩
        · intro y hy
          simp only [List.mem_cons] at hy
          rcases hy with rfl | hy
          · exact ⟨a, by simp, hf⟩
          · obtain ⟨x, hx, hxy⟩ := h2 y hy
            exact ⟨x, by simp [hx], hxy⟩

/-- the accessors cannot read the relation: as it stands, or as `Relation::wrap_and_sort` rebuilds it
    from the accessor values (`Relation::cmp` reads the rebuilt one) -/
def RelUnreadable (r : Rel.RNode) : Prop :=
  Rel.accRelation r = none ∨ ∃ v, Rel.accRelation r = some v ∧ Rel.accRelation (Rel.Wrap.buildRel v) = none

open Rel Rel.Wrap in
/-- `Entry::wrap_and_sort` panics iff an accessor `unwrap` fails on one of its relations -/
theorem entryWrap_panic_iff (e : Rel.RNode) :
    (∃ s, Rel.Wrap.entryWrap e = .panic s) ↔ ∃ r ∈ relations e, RelUnreadable r := by
  unfold Rel.Wrap.entryWrap
  cases hm : mapO relationWrap (relations e) with
  | panic s =>
    obtain ⟨r, hr, s', hs'⟩ := (mapO_panic_iff relationWrap (relations e)).1 ⟨s, hm⟩
    have : accRelation r = none := by
      unfold relationWrap at hs'
      cases ha : accRelation r with
      | none => rfl
      | some v => rw [ha] at hs'; cases hs'
    exact ⟨fun _ => ⟨r, hr, Or.inl this⟩, fun _ => ⟨s, rfl⟩⟩
  | ok rs =>
    obtain ⟨h1, h2⟩ := mapO_ok_mem relationWrap _ _ hm
    simp only
    constructor
    · rintro ⟨s, hs⟩
      split at hs
      · cases hs
      · rename_i hall
        have hall' : (rs.all fun r => (accRelation r).isSome) = false := by
          cases h : (rs.all fun r => (accRelation r).isSome) with
          | true => exact absurd h hall
          | false => rfl
        obtain ⟨x, hx, hxn⟩ := List.all_eq_false.1 hall'
        obtain ⟨r, hr, hrx⟩ := h2 x hx
        unfold relationWrap at hrx
        cases ha : accRelation r with
        | none => rw [ha] at hrx; cases hrx
        | some v =>
          rw [ha] at hrx
          simp only [Outcome.ok.injEq] at hrx
          subst hrx
          refine ⟨r, hr, Or.inr ⟨v, ha, ?_⟩⟩
          cases hb : accRelation (buildRel v) with
          | none => rfl
          | some w => rw [hb] at hxn; simp at hxn
    · rintro ⟨r, hr, hu⟩
      obtain ⟨x, hx, hrx⟩ := h1 r hr
      unfold relationWrap at hrx
      rcases hu with hn | ⟨v, hv, hb⟩
      · rw [hn] at hrx; cases hrx
      · rw [hv] at hrx
        simp only [Outcome.ok.injEq] at hrx
        subst hrx
        have : (rs.all fun r => (accRelation r).isSome) = false := by
          apply List.all_eq_false.2
          exact ⟨_, hx, by rw [hb]; simp⟩
        rw [if_neg (by rw [this]; simp)]
        exact ⟨_, rfl⟩

open Rel Rel.Wrap in
/-- **`Relations::wrap_and_sort` (model: total version order) panics iff an accessor `unwrap` fails on
    some relation of the field** -/
theorem C07_relationsWrap_panic_iff (root : Rel.RNode) :
    (∃ s, relationsWrap root = .panic s) ↔ ∃ e ∈ entries root, ∃ r ∈ relations e, RelUnreadable r := by
  unfold relationsWrap
  cases hm : mapO Rel.Wrap.entryWrap ((entries root).filter fun e => !(relations e).isEmpty) with
  | panic s =>
    obtain ⟨e, he, hp⟩ := (mapO_panic_iff Rel.Wrap.entryWrap _).1 ⟨s, hm⟩
    obtain ⟨r, hr, hu⟩ := (entryWrap_panic_iff e).1 hp
    exact ⟨fun _ => ⟨e, (List.mem_filter.1 he).1, r, hr, hu⟩, fun _ => ⟨s, rfl⟩⟩
  | ok es =>
    simp only
    constructor
    · rintro ⟨s, hs⟩; cases hs
    · rintro ⟨e, he, r, hr, hu⟩
      have hmem : e ∈ (entries root).filter fun e => !(relations e).isEmpty := by
        apply List.mem_filter.2
        refine ⟨he, ?_⟩
        cases hrel : relations e with
        | nil => rw [hrel] at hr; cases hr
        | cons x xs => rfl
      obtain ⟨x, _, hx⟩ := (mapO_ok_mem Rel.Wrap.entryWrap _ _ hm).1 e hmem
      obtain ⟨s, hs⟩ := (entryWrap_panic_iff e).2 ⟨r, hr, hu⟩
      rw [hs] at hx; cases hx

open Rel in
/-- the accessors fail on a relation iff `name()` finds no identifier or `version()` unwraps an error -/
theorem C07_accRelation_none_iff (r : Rel.RNode) : accRelation r = none ↔ name r = none ∨ version r = .error () := by
  unfold accRelation
  cases hn : name r with
  | none => simp
  | some n =>
    cases hv : version r with
    | ok v => simp
    | error u => cases u; simp

open Rel in
/-- **`Relation::version()` panics** iff the relation has a VERSION node with an operator node and a
    non-empty version text, and either the operator is not one of the five (`VersionConstraint::from_str`
    refuses `>`, `<`, `==`, the empty text, …) or `Version::from_str` refuses the version text (an
    epoch of 2^32 or more, characters outside the version alphabet) -/
theorem C07_version_error_iff (r : Rel.RNode) :
    version r = .error ()
      ↔ ∃ vn c, firstChildNode .VERSION r = some vn ∧ firstChildNode .CONSTRAINT vn = some c
          ∧ versionText vn ≠ []
          ∧ (VC.parse c.text = none ∨ Version.parse (versionText vn) = none) := by
  unfold version
  cases hv : firstChildNode .VERSION r with
  | none => simp
  | some vn =>
    cases hc : firstChildNode .CONSTRAINT vn with
    | none => simp [hc]
    | some c =>
      simp only [hc]
      by_cases ht : versionText vn = []
      · simp [ht]
      · have hte : (versionText vn).isEmpty = false := by
          cases h : versionText vn with
          | nil => exact absurd h ht
          | cons x xs => rfl
        simp only [hte, Bool.false_eq_true, if_false]
        cases hk : VC.parse c.text with
        | none => exact ⟨fun _ => ⟨vn, c, rfl, hc, ht, Or.inl hk⟩, fun _ => rfl⟩
        | some k =>
          cases hp : Version.parse (versionText vn) with
          | none => exact ⟨fun _ => ⟨vn, c, rfl, hc, ht, Or.inr hp⟩, fun _ => rfl⟩
          | some ver =>
            constructor
            · intro h; cases h
            · rintro ⟨vn', c', h1, h2, _, h4⟩
              cases h1
              rw [hc] at h2
              cases h2
              rcases h4 with h4 | h4
              · rw [hk] at h4; cases h4
              · rw [hp] at h4; cases h4

open Rel in
/-- the five operators are exactly the texts `VersionConstraint::from_str` accepts -/
theorem C07_operator_none_iff (s : Str) :
    VC.parse s = none ↔ s ∉ [">=".toList, "<=".toList, "=".toList, ">>".toList, "<<".toList] := by
  unfold VC.parse
  simp only [List.mem_cons, List.not_mem_nil, or_false, not_or]
  repeat' split
  all_goals simp_all
  all_goals decide

/-- **such a field is not a well-formed relationship field**: by C10 / C13 (`formatFieldO_rel`) the
    formatter does not panic on the text of a well-formed field (five operators, epoch below 2^32).
    The panic of the control wrappers on `a (> 1)` is therefore outside the domain of the property
    ("well-formed relationship fields"), although the relations parser reports no error there. -/
theorem C07_control_panic_not_wf (k v : Str) (h : FieldPanics k v) :
    ¬ ∃ f : RelSpec.FieldA, f.WF ∧ f.str = v := by
  rintro ⟨f, hf, rfl⟩
  have h1 := (formatFieldO_none_iff k f.str).2 h
  rw [formatFieldO_rel k h.1 f hf] at h1
  cases h1

/-- … and `format_field` as it runs (real `Version::cmp`, `formatFieldR`) panics there too -/
theorem C07_formatFieldR_panic (k v : Str) (h : FieldPanics k v) : formatFieldR k v = none := by
  obtain ⟨hk, he, hp⟩ := h
  have hv := (C13.C13_sortMayPanic_none _).2 hp
  have hO := C13.C13_wrapO_none _ hv
  unfold formatFieldR
  rw [if_neg (rel_ne_uploaders k hk), if_pos hk]
  simp only [he, List.isEmpty_nil, Bool.not_true, Bool.false_eq_true, if_false]
  cases hw : C13.relationsWrapO (Rel.parse v true).tree with
  | ok t => rw [hw] at hO; cases hO
  | panic s => rfl

/-- the control file `Source: s⏎Build-Depends: a (> 1)⏎` (the deprecated operator `>`) -/
def exOddOp : DocS :=
  { lead := [],
    paras := [
      ({ first := { key := "Source".toList, ws := [' '], v := "s".toList, nl := true, conts := [] },
         rest := [.entry { key := "Build-Depends".toList, ws := [' '], v := "a (> 1)".toList, nl := true,
                           conts := [] }] }, [])] }

/-- **closed witnesses of D2**: the four operator spellings outside the five and an epoch of 2^32 or
    more are read by the relations parser without error, `format_field` panics on them (on the
    model), and `Control::wrap_and_sort` panics on the control file `exOddOp`; the neighbouring
    well-formed spellings do not panic -/
theorem C07_control_panic_witness :
    FieldPanics "Depends".toList "a (> 1)".toList
      ∧ FieldPanics "Depends".toList "a (< 1)".toList
      ∧ FieldPanics "Depends".toList "a (1)".toList
      ∧ FieldPanics "Depends".toList "a (== 1)".toList
      ∧ FieldPanics "Depends".toList "a (>= 4294967296:1)".toList
      ∧ formatFieldO "Depends".toList "a (>> 1)".toList = some "a (>> 1)".toList
      ∧ formatFieldO "Depends".toList "a (>= 4294967295:1)".toList = some "a (>= 4294967295:1)".toList
      ∧ exOddOp.WF ∧ exOddOp.str = "Source: s\nBuild-Depends: a (> 1)\n".toList
      ∧ controlWrap exCfgM exOddOp.tree = none := by
  have h : ∀ v : Str, formatFieldO "Depends".toList v = none → FieldPanics "Depends".toList v :=
    fun v hv => (formatFieldO_none_iff _ v).1 hv
  refine ⟨h _ (by decide +kernel), h _ (by decide +kernel), h _ (by decide +kernel), h _ (by decide +kernel),
    h _ (by decide +kernel), by decide +kernel, by decide +kernel, by decide +kernel, by decide +kernel,
    by decide +kernel⟩

/-- the hypotheses of `C07_control_panic_iff` hold for the witness, and its right-hand side -/
example : exOddOp.WF ∧ IndentOK exCfgM
    ∧ ∃ pg ∈ exOddOp.paras, ∃ e ∈ paraEntries pg.1, FieldPanics e.key (rawText e) := by
  refine ⟨by decide +kernel, by simp [IndentOK, exCfgM], ?_⟩
  exact (C07_control_panic_iff exCfgM exOddOp (by decide +kernel) (by simp [IndentOK, exCfgM])).1
    C07_control_panic_witness.2.2.2.2.2.2.2.2.2

/-! ## D3 — indentation at text level: the indentation, then the value line as it is -/

/-- the width the continuation lines of the reformatted field are indented by: the number given
    (`Spaces(n)`), or the byte length of the field's name (`FieldNameLength`; names of error-free
    documents are ASCII, so bytes are columns) -/
theorem C07_indent_width (cfg : WrapCfg) (e : DNode) :
    (∀ n, cfg.indentation = .spaces n → ewIndent cfg e.children = n)
      ∧ (cfg.indentation = .fieldNameLength → ∀ k, entryKey e = some k → ewIndent cfg e.children = utf8Len k) := by
  constructor
  · intro n hn; simp [ewIndent, hn]
  · intro hf k hk
    unfold entryKey at hk
    simp only [ewIndent, hf, hk]

/-- **the printed field on the formatter path, line by line** (any formatter whose output has no CR;
    every indentation — `Spaces(n)` and `FieldNameLength` —, empty-first-line setting and width limit).
    Let `out = f k arg` be the formatter's output, `L₀` its lines (cut at `'\n'`), `L = stripLead L₀`
    (leading blank lines dropped, the first remaining line without its leading blanks), `ind` the
    indentation (`C07_indent_width`) and `hd` the name and colon as they are re-emitted.  The printed
    field is one of
    * `hd out ⏎` — the output on the line of the name, as it is (it has one line and fits the width);
    * `hd ⏎` followed by every line of `L` written as `ind` spaces + THE LINE AS IT IS + `⏎`;
    * `hd ␠ l ⏎` for the first line `l` of `L`, followed by the other lines written the same way;
    * `hd ␠ ⏎` when nothing is left;
    where a final empty line of `L` is not written (the output ended with a line feed).  So every
    continuation line is exactly the requested indentation followed by a line of the formatter's
    output unchanged — a line that itself starts with a blank (`join(",\n ")`) keeps it and stands one
    column further right (audit D3: an observation about what "the formatter's output is kept exactly"
    means, not a violation). -/
theorem C07_indent_text (cfg : WrapCfg) (f : Str → Str → Str) (e e' : DNode) (k arg : Str)
    (hk : entryKey e = some k) (harg : Ctl.fmtArg e = some arg) (hcr : '\r' ∉ f k arg)
    (h : entryWrap cfg (some f) e = some e') :
    e'.text = textList (e.children.filterMap headOf) ++ (f k arg ++ ['\n'])
      ∨ e'.text = textList (e.children.filterMap headOf)
          ++ '\n' :: bodyText (ewIndent cfg e.children) (dropFinalEmpty (stripLead (Text.splitOn '\n' (f k arg))))
      ∨ (stripLead (Text.splitOn '\n' (f k arg)) = []
          ∧ e'.text = textList (e.children.filterMap headOf) ++ [' ', '\n'])
      ∨ ∃ l r, stripLead (Text.splitOn '\n' (f k arg)) = l :: r ∧ l ≠ []
          ∧ e'.text = textList (e.children.filterMap headOf)
              ++ ' ' :: (l ++ '\n' :: bodyText (ewIndent cfg e.children) (dropFinalEmpty r)) := by
  rcases C07.C07_fmt_cases cfg f e e' h with ⟨h0, _⟩ | ⟨k', arg', hk', harg', he'⟩
  · rw [harg] at h0; cases h0
  · rw [hk] at hk'; rw [harg] at harg'
    cases hk'; cases harg'
    subst he'
    simp only [text_node, textList_append]
    rw [fmtToks_eq (f k arg) hcr]
    rcases rebuildValue_lines_text (Text.splitOn '\n' (f k arg)) (utf8Len k) (ewIndent cfg e.children)
      cfg.immediateEmptyLine cfg.maxLineLengthOneLiner with h1 | h1 | ⟨h0, h1⟩ | ⟨l, r, h0, hne, h1⟩
    · left; rw [h1, join_splitOn]
    · right; left; rw [h1]
    · right; right; left; exact ⟨h0, by rw [h1]⟩
    · right; right; right; exact ⟨l, r, h0, hne, by rw [h1]⟩

/-- what `stripLead` keeps: nothing, or — behind leading blank lines — the first line without its
    leading blanks and ALL LATER LINES UNCHANGED -/
theorem C07_indent_lines_kept (out : Str) :
    stripLead (Text.splitOn '\n' out) = []
      ∨ ∃ pre l r, Text.splitOn '\n' out = pre ++ l :: r ∧ (∀ b ∈ pre, blankLine b = true)
          ∧ l.dropWhile isIndent ≠ [] ∧ stripLead (Text.splitOn '\n' out) = l.dropWhile isIndent :: r :=
  stripLead_spec _

/-- **read line by line**: cut at line feeds, the continuation part `bodyText ind ls` of the printed
    field is exactly the lines `ls`, each behind `ind` spaces (and the empty piece behind the final
    line feed) -/
theorem C07_indent_lines (ind : Nat) (out : Str) (ls : List Str)
    (hls : ls = dropFinalEmpty (stripLead (Text.splitOn '\n' out))
      ∨ ls = dropFinalEmpty (stripLead (Text.splitOn '\n' out)).tail) :
    Text.splitOn '\n' (bodyText ind ls) = ls.map (List.replicate ind ' ' ++ ·) ++ [[]] := by
  apply bodyText_lines
  have hsub : ∀ (L : List Str), ∀ l ∈ dropFinalEmpty L, l ∈ L := by
    intro L
    induction L with
    | nil => intro l hl; cases hl
    | cons a r ih =>
      intro l hl
      cases r with
      | nil =>
        simp only [dropFinalEmpty] at hl
        split at hl
        · cases hl
        · exact hl
      | cons m r' =>
        simp only [dropFinalEmpty, List.mem_cons] at hl
        rcases hl with rfl | hl
        · simp
        · exact List.mem_cons_of_mem _ (ih l hl)
  have hstrip : ∀ l ∈ stripLead (Text.splitOn '\n' out), '\n' ∉ l := by
    intro l hl
    rcases stripLead_spec (Text.splitOn '\n' out) with h0 | ⟨pre, a, r, hsplit, _, _, hs⟩
    · rw [h0] at hl; cases hl
    · rw [hs] at hl
      have hmem : ∀ x ∈ pre ++ a :: r, '\n' ∉ x := by
        rw [← hsplit]; exact splitOn_mem_nosep '\n' out
      simp only [List.mem_cons] at hl
      rcases hl with rfl | hl
      · intro hm
        exact hmem a (by simp) ((List.dropWhile_sublist _).subset hm)
      · exact hmem l (by simp [hl])
  intro l hl
  rcases hls with rfl | rfl
  · exact hstrip l (hsub _ l hl)
  · exact hstrip l (List.mem_of_mem_tail (hsub _ l hl))

/-- **the same without a formatter, on a well-formed field** (C03 grammar): the result is that of the
    identity formatter on the field's raw text, so its continuation lines are the requested
    indentation followed by the value lines as they are (the first one without its leading blanks) -/
theorem C07_indent_text_nofmt (cfg : WrapCfg) (e : EntryS) (more : Bool) (hwf : e.WF) (ht : e.Term more)
    (hc : IndentOK cfg) :
    ∃ e', entryWrap cfg none e.node = some e'
      ∧ (e'.text = textList (e.node.children.filterMap headOf) ++ (rawText e ++ ['\n'])
        ∨ e'.text = textList (e.node.children.filterMap headOf)
            ++ '\n' :: bodyText (ewIndent cfg e.node.children) (dropFinalEmpty (stripLead (Text.splitOn '\n' (rawText e))))
        ∨ (stripLead (Text.splitOn '\n' (rawText e)) = []
            ∧ e'.text = textList (e.node.children.filterMap headOf) ++ [' ', '\n'])
        ∨ ∃ l r, stripLead (Text.splitOn '\n' (rawText e)) = l :: r ∧ l ≠ []
            ∧ e'.text = textList (e.node.children.filterMap headOf)
                ++ ' ' :: (l ++ '\n' :: bodyText (ewIndent cfg e.node.children) (dropFinalEmpty r))) := by
  obtain ⟨h1, h2⟩ := C07.C07_fmt_unchanged cfg (fun _ v => v) e more hwf ht hc rfl
  refine ⟨_, by rw [← h1, h2], ?_⟩
  exact C07_indent_text cfg (fun _ v => v) e.node _ e.key (rawText e) (entryKey_node e) (fmtArg_node e more ht)
    (rawText_nocr e hwf) h2

/-- the formatters of the harness whose output lines start with a blank: `join(",\n ")` -/
def fmtJoinSp (_k v : Str) : Str := Text.join [',', '\n', ' '] ((Text.splitOn ',' v).map Text.trim)

def exJoin : DNode :=
  ((entries ((paragraphs (parse "A: a, b, c\n".toList).tree).headD (.node .PARAGRAPH []))).headD (.node .ENTRY []))

def exCfg4 : WrapCfg := { indentation := .spaces 4, immediateEmptyLine := false, maxLineLengthOneLiner := none }

/-- **D3, closed instance** (the hypotheses of `C07_indent_text` hold): `A: a, b, c` through
    `join(",\n ")` with `Spaces(4)` is printed with the continuation lines in column five — four
    spaces of indentation, then the formatter's lines ` b,` and ` c` as they are; the live tree has
    `INDENT(4) WHITESPACE(1) VALUE`; content, re-read and second pass are fine -/
theorem C07_indent_witness :
    entryKey exJoin = some "A".toList ∧ Ctl.fmtArg exJoin = some " a, b, c".toList
      ∧ fmtJoinSp "A".toList " a, b, c".toList = "a,\n b,\n c".toList
      ∧ stripLead (Text.splitOn '\n' "a,\n b,\n c".toList) = ["a,".toList, " b,".toList, " c".toList]
      ∧ (entryWrap exCfg4 (some fmtJoinSp) exJoin).map Node.text = some "A: a,\n     b,\n     c\n".toList
      ∧ (entryWrap exCfg4 (some fmtJoinSp) exJoin).map entryValue = some "a,\nb,\nc".toList
      ∧ ((entryWrap exCfg4 (some fmtJoinSp) exJoin).bind (entryWrap exCfg4 (some fmtJoinSp))).map Node.text
          = some "A: a,\n     b,\n     c\n".toList := by
  refine ⟨by decide +kernel, by decide +kernel, by decide +kernel, by decide +kernel, by decide +kernel,
    by decide +kernel, by decide +kernel⟩

/-! ## D1 — a CR inside a value on the formatter path (outside the domain: LF documents) -/

/-- `Source: s⏎Description: b<CR> c⏎`: read without error (the lexer takes `\r` for a line end; value
    `b⏎c`) -/
def exCrRoot : DNode := (parse "Source: s\nDescription: b\r c\n".toList).tree

/-- **closed witness of D1** (`Control::wrap_and_sort(Spaces(2), false, None)`, confirmed on the real
    code by the correspondence run): the document parses without error and reports `Description =
    b⏎c`; the first pass prints `Description: b<CR>  c`, the returned object reports `Description = b`
    (the line `c` became a KEY token: `Entry::wrap_and_sort` cuts the formatter's output at `\n` only
    and `lex_inline` is back at the start of a line behind a `\r`) while the printed text re-reads to
    `b⏎c`; the second pass on the returned object prints `Description:c b` — content lost, not
    idempotent.  The hypothesis `'\r' ∉ f k arg` of `C07_fmt_entry` cannot be dropped.  CR line ends
    are outside the stated domain of C07 (LF documents; registry `assumptions`), so this is recorded as
    an observation, and model = code is checked on CR variants of the layouts by the generator. -/
theorem C07_cr_formatter_witness :
    (parse "Source: s\nDescription: b\r c\n".toList).errors = []
      ∧ docItems exCrRoot = [[("Source".toList, "s".toList), ("Description".toList, "b\nc".toList)]]
      ∧ (controlWrap exCfgM exCrRoot).map Node.text = some "Source: s\nDescription: b\r  c\n".toList
      ∧ (controlWrap exCfgM exCrRoot).map docItems
          = some [[("Source".toList, "s".toList), ("Description".toList, "b".toList)]]
      ∧ (controlWrap exCfgM exCrRoot).map (fun r => docItems (parse r.text).tree)
          = some [[("Source".toList, "s".toList), ("Description".toList, "b\nc".toList)]]
      ∧ ((controlWrap exCfgM exCrRoot).bind (controlWrap exCfgM)).map Node.text
          = some "Source: s\nDescription:c b\n".toList
      ∧ (deb822Wrap none (some (paragraphWrap exCfgM none none)) exCrRoot).map Node.text
          = some "Source: s\nDescription: b\r  c\n".toList
      ∧ ((deb822Wrap none (some (paragraphWrap exCfgM none none)) exCrRoot).bind
            (deb822Wrap none (some (paragraphWrap exCfgM none none)))).map Node.text
          = some "Source: s\nDescription: b\r  c\n".toList := by
  refine ⟨by decide +kernel, by decide +kernel, by decide +kernel, by decide +kernel, by decide +kernel,
    by decide +kernel, by decide +kernel, by decide +kernel⟩

/-! ## idempotence through the printed form (no formatter) -/

open Spec in
/-- **reformatting again changes nothing — also after printing and re-reading** (no formatter; every
    indentation of at least one column, empty-first-line setting and width limit; entry and paragraph
    comparators absent or total preorders).  Take the tree of any well-formed document (`DocS.WF`, the
    C03 grammar).  wrap-and-sort returns `root'`; its printed text parses without error; wrap-and-sort
    of THE RE-READ TREE succeeds and prints exactly the same text.

    The re-read tree is not `root'` (comment lines in front of the first field of a paragraph are inside
    the PARAGRAPH node of `root'` and at top level after re-reading; those behind the last paragraph
    the other way round), so this does not follow from `C07_idempotent_doc`.  Hypothesis on the
    paragraph comparator: it depends on the fields of the two paragraphs only (`ParaInv` — true of
    every comparator that looks at `Paragraph::get` values; a comparator that looks at the comments
    inside the paragraph node can tell the two trees apart). -/
theorem C07_reread_idempotent (cfg : WrapCfg) (ele ple : Option (DNode → DNode → Bool))
    (hele : OrderOK ele) (hple : OrderOK ple) (hinv : ParaInv ple)
    (d : DocS) (hwf : d.WF) (hc : IndentOK cfg) :
    ∃ root' root'' : DNode,
      deb822Wrap ple (some (paragraphWrap cfg ele none)) d.tree = some root'
      ∧ (parse root'.text).errors = []
      ∧ deb822Wrap ple (some (paragraphWrap cfg ele none)) (parse root'.text).tree = some root''
      ∧ root''.text = root'.text := by
  obtain ⟨root', d', root'', h1, hd', htext, h2, h3⟩ :=
    deb822Wrap_reread_idem cfg ele ple hele hple hinv d hwf hc
  have hparse : parse root'.text = ⟨d'.tree, []⟩ := by
    rw [htext]; unfold parse; rw [lex_doc d' hd', parse_doc d' hd']
  exact ⟨root', root'', h1, by rw [hparse], by rw [hparse]; exact h2, h3⟩

/-- a comparator on a field value depends on the fields only: the example order of `Props/C07.lean`
    (by the first character of `Package`) -/
theorem paraInv_rank : ParaInv (some (C07.rankOrder C07.exPkgRank)) := by
  intro f hf
  cases hf
  intro a a' b b' ha hb
  have e : ∀ x y : DNode, entries x = entries y → C07.exPkgRank x = C07.exPkgRank y := by
    intro x y h; simp only [C07.exPkgRank, Deb.get, h]
  simp only [C07.rankOrder, e a a' ha, e b b' hb]

theorem paraInv_none : ParaInv none := by intro f hf; cases hf

/-- the hypotheses of `C07_reread_idempotent` are satisfiable: the example document of `C07_reread`
    (comments before / between / after paragraphs, several blank lines, no final newline), both
    example comparators -/
example : OrderOK (some (C07.rankOrder C07.exKeyRank)) ∧ OrderOK (some (C07.rankOrder C07.exPkgRank))
    ∧ ParaInv (some (C07.rankOrder C07.exPkgRank)) ∧ C07.exDocS.WF ∧ IndentOK C07.exCfg :=
  ⟨C07.rankOrder_ok _, C07.rankOrder_ok _, paraInv_rank, by decide, by simp [IndentOK, C07.exCfg]⟩

example : ∃ root' root'' : DNode,
    deb822Wrap (some (C07.rankOrder C07.exPkgRank)) (some (paragraphWrap C07.exCfg (some (C07.rankOrder C07.exKeyRank)) none))
        C07.exDocS.tree = some root'
      ∧ (parse root'.text).errors = []
      ∧ deb822Wrap (some (C07.rankOrder C07.exPkgRank)) (some (paragraphWrap C07.exCfg (some (C07.rankOrder C07.exKeyRank)) none))
          (parse root'.text).tree = some root''
      ∧ root''.text = root'.text :=
  C07_reread_idempotent _ _ _ (C07.rankOrder_ok _) (C07.rankOrder_ok _) paraInv_rank C07.exDocS (by decide)
    (by simp [IndentOK, C07.exCfg])

/-- non-vacuity of `C07_indent_text` on the closed instance -/
example : entryKey exJoin = some "A".toList ∧ Ctl.fmtArg exJoin = some " a, b, c".toList
    ∧ '\r' ∉ fmtJoinSp "A".toList " a, b, c".toList := by
  refine ⟨by decide +kernel, by decide +kernel, by decide +kernel⟩

/-- non-vacuity of `C07_indent_text_nofmt` and `C07_control_para_panic_iff`: the example field /
    paragraph of `Props/C07.lean` -/
example : C07.exHomepage.WF ∧ C07.exHomepage.Term true ∧ IndentOK C07.exCfg :=
  ⟨by decide, by decide, by simp [IndentOK, C07.exCfg]⟩

/-- the source paragraph of `exOddOp` -/
def exOddPara : ParaS :=
  { first := { key := "Source".toList, ws := [' '], v := "s".toList, nl := true, conts := [] },
    rest := [.entry { key := "Build-Depends".toList, ws := [' '], v := "a (> 1)".toList, nl := true, conts := [] }] }

example : exOddPara.WF ∧ exOddPara.Term false ∧ IndentOK exCfgM ∧ paraWrap exCfgM exOddPara.node = none
    ∧ ∃ e ∈ paraEntries exOddPara, FieldPanics e.key (rawText e) := by
  have h : paraWrap exCfgM exOddPara.node = none := by decide +kernel
  exact ⟨by decide, by decide, by simp [IndentOK, exCfgM], h,
    (C07_control_para_panic_iff exCfgM exOddPara false (by decide) (by decide) (by simp [IndentOK, exCfgM])).1 h⟩

end Deb822Verif.Props.C07More
