import Deb822Verif.Model.DebLossy
/-!
# C08 — lossy deb822 values print to text that reads back equal; edits follow a list
-/
namespace Deb822Verif.Props.C08
open Deb822Verif Deb Deb.Lossy

/-! ### edits: the paragraph IS an ordered list of (name, value) -/

/-- `pget` returns the first field of that name -/
theorem C08_get (p : Para) (k : Str) : pget p k = (p.find? (·.1 == k)).map (·.2) := rfl

/-- `pinsert` always appends -/
theorem C08_insert (p : Para) (k v : Str) : pinsert p k v = p ++ [(k, v)] := rfl

/-- `pset` updates the first field of that name in place … -/
theorem C08_set_present (p q : Para) (k v v' : Str) (h : ∀ f ∈ p, f.1 ≠ k) :
    pset (p ++ (k, v') :: q) k v = p ++ (k, v) :: q := by
  induction p with
  | nil => simp [pset]
  | cons f fs ih =>
    have hf : f.1 ≠ k := h f (by simp)
    simp only [List.cons_append, pset, hf, ↓reduceIte]
    rw [ih (fun g hg => h g (by simp [hg]))]

/-- … or appends when there is none -/
theorem C08_set_absent (p : Para) (k v : Str) (h : ∀ f ∈ p, f.1 ≠ k) : pset p k v = p ++ [(k, v)] := by
  induction p with
  | nil => simp [pset]
  | cons f fs ih =>
    have hf : f.1 ≠ k := h f (by simp)
    simp only [pset, hf, ↓reduceIte, List.cons_append]
    rw [ih (fun g hg => h g (by simp [hg]))]

/-- after `pset`, `pget` of that name is the value; other names are untouched -/
theorem C08_get_set (p : Para) (k v k' : Str) :
    pget (pset p k v) k' = if k' = k then some v else pget p k' := by
  induction p with
  | nil =>
    by_cases h : k' = k
    · subst h; simp [pset, pget]
    · have : (k == k') = false := by simp [Ne.symm h]
      simp [pset, pget, h, this]
  | cons f fs ih =>
    simp only [pset]
    split
    · rename_i hf
      by_cases h : k' = k
      · subst h; simp [pget, hf]
      · have : (f.1 == k') = false := by rw [hf]; simp [Ne.symm h]
        simp [pget, h, this]
    · rename_i hf
      by_cases h2 : f.1 = k'
      · have hk : k' ≠ k := by rw [← h2]; exact hf
        simp [pget, h2, hk]
      · have : (f.1 == k') = false := by simp [h2]
        simp only [pget, List.find?_cons, this] at ih ⊢
        exact ih

/-- `pset` keeps the names and their order, except for appending a new one -/
theorem C08_set_names (p : Para) (k v : Str) :
    (pset p k v).map (·.1) = if k ∈ p.map (·.1) then p.map (·.1) else p.map (·.1) ++ [k] := by
  induction p with
  | nil => simp [pset]
  | cons f fs ih =>
    simp only [pset]
    split
    · rename_i hf; simp [hf]
    · rename_i hf
      simp only [List.map_cons, ih, List.mem_cons]
      have : ¬ k = f.1 := fun e => hf e.symm
      by_cases hm : k ∈ fs.map (·.1) <;> simp [hm, this]

/-- `premove` deletes every field of the name, leaving all other fields and their order untouched -/
theorem C08_remove (p : Para) (k : Str) : premove p k = p.filter (fun f => f.1 != k) := rfl

theorem C08_get_remove (p : Para) (k k' : Str) :
    pget (premove p k) k' = if k' = k then none else pget p k' := by
  induction p with
  | nil => simp [premove, pget]
  | cons f fs ih =>
    simp only [premove, pget, List.filter_cons] at ih ⊢
    by_cases hf : f.1 = k
    · simp only [hf, bne_self_eq_false, Bool.false_eq_true, ↓reduceIte, List.find?_cons]
      by_cases h : k' = k
      · subst h; simp at ih ⊢ <;> exact ih
      · have : (k == k') = false := by simp [Ne.symm h]
        simp only [this, h, ↓reduceIte] at ih ⊢; exact ih
    · have hne : (f.1 != k) = true := by simp [hf]
      simp only [hne, ↓reduceIte, List.find?_cons]
      by_cases h2 : f.1 = k'
      · have : k' ≠ k := by rw [← h2]; exact hf
        simp [h2, this]
      · have : (f.1 == k') = false := by simp [h2]
        simp only [this]; exact ih

end Deb822Verif.Props.C08
