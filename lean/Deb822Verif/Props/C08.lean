import Deb822Verif.Model.DebLossy
import Deb822Verif.Lemmas.Text
import Deb822Verif.Lemmas.DebLossyDoc
import Deb822Verif.Spec.LossyCanon
import Deb822Verif.Props.C06
/-!
# C08 — lossy deb822 values print to text that reads back equal; edits follow a list
-/
namespace Deb822Verif.Props.C08
open Deb822Verif Deb Deb.Lossy

/-! ### edits: the paragraph IS an ordered list of (name, value) -/

/-- `pget` returns the first field of that name -/
theorem C08_get (p : Para) (k : Str) : pget p k = (p.find? (·.1 == k)).map (·.2) := rfl

/-- `pinsert` always appends -/
theorem C08_insert (p : Para) (k v : Str) : pinsert p k v = p ++ [(k, v)] := rfl

/-- `pset` updates the first field of that name in place … -/
theorem C08_set_present (p q : Para) (k v v' : Str) (h : ∀ f ∈ p, f.1 ≠ k) :
    pset (p ++ (k, v') :: q) k v = p ++ (k, v) :: q := by
  induction p with
  | nil => simp [pset]
  | cons f fs ih =>
    have hf : f.1 ≠ k := h f (by simp)
    simp only [List.cons_append, pset, hf, ↓reduceIte]
    rw [ih (fun g hg => h g (by simp [hg]))]

/-- … or appends when there is none -/
theorem C08_set_absent (p : Para) (k v : Str) (h : ∀ f ∈ p, f.1 ≠ k) : pset p k v = p ++ [(k, v)] := by
  induction p with
  | nil => simp [pset]
  | cons f fs ih =>
    have hf : f.1 ≠ k := h f (by simp)
    simp only [pset, hf, ↓reduceIte, List.cons_append]
    rw [ih (fun g hg => h g (by simp [hg]))]

/-- after `pset`, `pget` of that name is the value; other names are untouched -/
theorem C08_get_set (p : Para) (k v k' : Str) :
    pget (pset p k v) k' = if k' = k then some v else pget p k' := by
  induction p with
  | nil =>
    by_cases h : k' = k
    · subst h; simp [pset, pget]
    · have : (k == k') = false := by simp [Ne.symm h]
      simp [pset, pget, h, this]
  | cons f fs ih =>
    simp only [pset]
    split
    · rename_i hf
      by_cases h : k' = k
      · subst h; simp [pget, hf]
      · have : (f.1 == k') = false := by rw [hf]; simp [Ne.symm h]
        simp [pget, h, this]
    · rename_i hf
      by_cases h2 : f.1 = k'
      · have hk : k' ≠ k := by rw [← h2]; exact hf
        simp [pget, h2, hk]
      · have : (f.1 == k') = false := by simp [h2]
        simp only [pget, List.find?_cons, this] at ih ⊢
        exact ih

/-- `pset` keeps the names and their order, except for appending a new one -/
theorem C08_set_names (p : Para) (k v : Str) :
    (pset p k v).map (·.1) = if k ∈ p.map (·.1) then p.map (·.1) else p.map (·.1) ++ [k] := by
  induction p with
  | nil => simp [pset]
  | cons f fs ih =>
    simp only [pset]
    split
    · rename_i hf; simp [hf]
    · rename_i hf
      simp only [List.map_cons, ih, List.mem_cons]
      have : ¬ k = f.1 := fun e => hf e.symm
      by_cases hm : k ∈ fs.map (·.1) <;> simp [hm, this]

/-- `premove` deletes every field of the name, leaving all other fields and their order untouched -/
theorem C08_remove (p : Para) (k : Str) : premove p k = p.filter (fun f => f.1 != k) := rfl

theorem C08_get_remove (p : Para) (k k' : Str) :
    pget (premove p k) k' = if k' = k then none else pget p k' := by
  induction p with
  | nil => simp [premove, pget]
  | cons f fs ih =>
    simp only [premove, pget, List.filter_cons] at ih ⊢
    by_cases hf : f.1 = k
    · simp only [hf, bne_self_eq_false, Bool.false_eq_true, ↓reduceIte, List.find?_cons]
      by_cases h : k' = k
      · subst h; simp at ih ⊢ <;> exact ih
      · have : (k == k') = false := by simp [Ne.symm h]
        simp only [this, h, ↓reduceIte] at ih ⊢; exact ih
    · have hne : (f.1 != k) = true := by simp [hf]
      simp only [hne, ↓reduceIte, List.find?_cons]
      by_cases h2 : f.1 = k'
      · have : k' ≠ k := by rw [← h2]; exact hf
        simp [h2, this]
      · have : (f.1 == k') = false := by simp [h2]
        simp only [this]; exact ih

end Deb822Verif.Props.C08

namespace Deb822Verif.Props.C08
open Deb822Verif Deb Deb.Lossy Spec Text

/-! ### print / re-read round trip -/

def valueOf (ls : List Str) : Str := Text.join ['\n'] ls

/-- the field as a grammar entry: `Name: line0` then ` line` per further line -/
def entryOf (k : Str) (ls : List Str) : EntryS :=
  { key := k, ws := [' '], v := ls.headD [], nl := true,
    conts := ls.tail.map fun l => { indent := [' '], text := l, nl := true } }

theorem rawLines_noLF (l : Str) (h : '\n' ∉ l) (hne : l ≠ []) : rawLines l = [(l, false)] := by
  induction l with
  | nil => exact absurd rfl hne
  | cons c cs ih =>
    have hc : c ≠ '\n' := by intro e; apply h; simp [e]
    have hcs : '\n' ∉ cs := by intro e; apply h; simp [e]
    cases cs with
    | nil => simp [rawLines, hc]
    | cons d ds =>
      have := ih hcs (by simp)
      simp only [rawLines, hc, ↓reduceIte] at this ⊢
      rw [this]

theorem lines_single (l : Str) (h : '\n' ∉ l) : (lines l).length ≤ 1 := by
  cases l with
  | nil => simp [lines, rawLines]
  | cons c cs => simp [lines, rawLines_noLF _ h (by simp)]

theorem noNl_lineOK {l : Str} (h : NoNl l) : LineOK l := by
  constructor
  · intro hm; have := h _ hm; simp [isNewline] at this
  · intro hl
    have hm : '\r' ∈ l := List.mem_of_getLast? hl
    have := h _ hm; simp [isNewline] at this

/-- `str::lines()` of lines joined by LF gives the lines back (last line non-empty) -/
theorem lines_join (ls : List Str) (hn : ∀ l ∈ ls, NoNl l) (hlast : ∀ l, ls.getLast? = some l → l ≠ [])
    (hne : ls ≠ []) : lines (Text.join ['\n'] ls) = ls := by
  induction ls with
  | nil => exact absurd rfl hne
  | cons a ls ih =>
    cases ls with
    | nil =>
      have ha : a ≠ [] := hlast a (by simp)
      have : '\n' ∉ a := (noNl_lineOK (hn a (by simp))).1
      simp [Text.join, lines, rawLines_noLF a this ha]
    | cons b ls =>
      have := ih (fun l hl => hn l (by simp [hl])) (fun l hl => hlast l (by simpa using hl)) (by simp)
      simp only [Text.join, List.append_assoc, List.cons_append, List.nil_append]
      rw [lines_line_cons a _ (noNl_lineOK (hn a (by simp))), this]

theorem entryOf_str (k : Str) (ls : List Str) (h : CanonLines ls) :
    printField (k, valueOf ls) = (entryOf k ls).str := by
  have hs : Text.splitOn '\n' (valueOf ls) = ls :=
    C06.splitOn_join ls h.ne (fun l hl => (noNl_lineOK (h.noNl l hl)).1)
  obtain ⟨a, rest, rfl⟩ : ∃ a rest, ls = a :: rest := by
    cases ls with
    | nil => exact absurd rfl h.ne
    | cons a rest => exact ⟨a, rest, rfl⟩
  simp only [printField, hs]
  simp only [entryOf, EntryS.str, nlText, ContS.str, List.headD_cons, List.tail_cons, List.map_cons,
    List.flatten_cons, ↓reduceIte, List.map_map]
  have : (List.map (fun l => ' ' :: (l ++ ['\n'])) rest).flatten =
      (List.map (ContS.str ∘ fun l => { indent := [' '], text := l, nl := true }) rest).flatten := by
    congr 1
  simp [ContS.str, nlText, Function.comp_def]

theorem entryOf_wf (k : Str) (ls : List Str) (hk : ValidKey k) (h : CanonLines ls) : (entryOf k ls).WF := by
  refine ⟨hk, ?_, ?_, ?_⟩
  · intro c hc; simp [entryOf] at hc; subst hc; decide
  · constructor
    · cases ls with
      | nil => intro c hc; simp [entryOf] at hc
      | cons a rest => simpa [entryOf] using h.noNl a (by simp)
    · intro c hc
      apply h.first c
      cases ls with
      | nil => simp [entryOf] at hc
      | cons a rest => simpa [entryOf] using hc
  · intro c hc
    simp only [entryOf, List.mem_map] at hc
    obtain ⟨l, hl, rfl⟩ := hc
    exact ⟨by simp, by intro x hx; simp at hx; subst hx; decide, h.tailOk l hl⟩

theorem entryOf_term (k : Str) (ls : List Str) (more : Bool) : (entryOf k ls).Term more := by
  refine ⟨Or.inl rfl, ?_⟩
  simp only [entryOf]
  induction ls.tail with
  | nil => trivial
  | cons l ls ih => exact ⟨Or.inl rfl, ih⟩

theorem entryOf_lossy (k : Str) (ls : List Str) (h : ls ≠ []) :
    lossyEntry (entryOf k ls) = (k, valueOf ls) := by
  cases ls with
  | nil => exact absurd rfl h
  | cons a rest => simp [lossyEntry, lossyValue, entryOf, valueOf, Function.comp_def]

/-- a lossy paragraph given by (name, lines) pairs -/
abbrev FieldL := Str × List Str
def fieldOf (f : FieldL) : Field := (f.1, valueOf f.2)

def paraOf (f : FieldL) (fs : List FieldL) : ParaS :=
  { first := entryOf f.1 f.2, rest := fs.map fun g => PItem.entry (entryOf g.1 g.2) }

/-- documents as non-empty paragraphs: first field + further fields -/
abbrev DocL := List (FieldL × List FieldL)

def lossyOfDocL (d : DocL) : Doc := d.map fun p => fieldOf p.1 :: p.2.map fieldOf

def docOf : DocL → List (ParaS × List Gap)
  | [] => []
  | [p] => [(paraOf p.1 p.2, [])]
  | p :: q :: ps => (paraOf p.1 p.2, [Gap.blank]) :: docOf (q :: ps)

def CanonDoc (d : DocL) : Prop :=
  ∀ p ∈ d, (ValidKey p.1.1 ∧ CanonLines p.1.2) ∧ ∀ f ∈ p.2, ValidKey f.1 ∧ CanonLines f.2

theorem paraOf_str (f : FieldL) (fs : List FieldL) (hf : CanonLines f.2)
    (hfs : ∀ g ∈ fs, CanonLines g.2) :
    printPara (fieldOf f :: fs.map fieldOf) = (paraOf f fs).str := by
  simp only [printPara, List.map_cons, List.flatten_cons, ParaS.str, paraOf, fieldOf,
    entryOf_str _ _ hf, List.map_map]
  congr 1
  induction fs with
  | nil => rfl
  | cons g gs ih =>
    simp only [List.map_cons, List.flatten_cons, Function.comp, PItem.str]
    have := entryOf_str g.1 g.2 (hfs g (by simp))
    simp only [fieldOf] at this ⊢
    rw [this]
    congr 1
    exact ih (fun x hx => hfs x (by simp [hx]))

theorem docOf_str (d : DocL) (h : CanonDoc d) :
    printDoc (lossyOfDocL d) = (⟨[], docOf d⟩ : DocS).str := by
  simp only [DocS.str, gapsStr, List.map_nil, List.flatten_nil, List.nil_append]
  induction d with
  | nil => rfl
  | cons p d ih =>
    have hp := h p (by simp)
    have ihd := ih (fun q hq => h q (by simp [hq]))
    cases d with
    | nil =>
      simp only [lossyOfDocL, List.map_cons, List.map_nil, printDoc, docOf, List.flatten_cons,
        List.flatten_nil, List.append_nil, gapsStr]
      exact paraOf_str p.1 p.2 hp.1.2 (fun g hg => (hp.2 g hg).2)
    | cons q d =>
      simp only [lossyOfDocL, List.map_cons, printDoc, docOf, List.flatten_cons] at ihd ⊢
      rw [paraOf_str p.1 p.2 hp.1.2 (fun g hg => (hp.2 g hg).2)]
      simp only [gapsStr, List.map_cons, List.map_nil, List.flatten_cons, List.flatten_nil, Gap.str,
        List.append_nil, List.append_assoc, List.cons_append, List.nil_append]
      rw [← ihd]

end Deb822Verif.Props.C08

namespace Deb822Verif.Props.C08
open Deb822Verif Deb Deb.Lossy Spec Text

theorem paraOf_wf (f : FieldL) (fs : List FieldL) (hf : ValidKey f.1 ∧ CanonLines f.2)
    (hfs : ∀ g ∈ fs, ValidKey g.1 ∧ CanonLines g.2) : (paraOf f fs).WF := by
  refine ⟨entryOf_wf _ _ hf.1 hf.2, ?_⟩
  intro i hi
  simp only [paraOf, List.mem_map] at hi
  obtain ⟨g, hg, rfl⟩ := hi
  exact entryOf_wf _ _ (hfs g hg).1 (hfs g hg).2

theorem itemsTerm_entries (fs : List FieldL) (more : Bool) :
    itemsTerm (fs.map fun g => PItem.entry (entryOf g.1 g.2)) more := by
  induction fs with
  | nil => trivial
  | cons g gs ih => exact ⟨entryOf_term _ _ _, ih⟩

theorem paraOf_term (f : FieldL) (fs : List FieldL) (more : Bool) : (paraOf f fs).Term more :=
  ⟨entryOf_term _ _ _, itemsTerm_entries fs more⟩

theorem docOf_paras_ok (d : DocL) (h : CanonDoc d) :
    ∀ pg ∈ docOf d, pg.1.WF ∧ ∀ g ∈ pg.2, g.WF := by
  induction d with
  | nil => intro pg hpg; simp [docOf] at hpg
  | cons p d ih =>
    have hp := h p (by simp)
    have ihd := ih (fun q hq => h q (by simp [hq]))
    cases d with
    | nil =>
      intro pg hpg
      simp only [docOf, List.mem_singleton] at hpg
      subst hpg
      exact ⟨paraOf_wf _ _ hp.1 hp.2, by simp⟩
    | cons q d =>
      intro pg hpg
      simp only [docOf, List.mem_cons] at hpg ihd
      rcases hpg with rfl | hpg
      · refine ⟨paraOf_wf _ _ hp.1 hp.2, ?_⟩
        intro g hg; simp at hg; subst hg; trivial
      · exact ihd pg (by simpa [docOf] using hpg)

theorem docOf_term (d : DocL) : parasTerm (docOf d) := by
  induction d with
  | nil => trivial
  | cons p d ih =>
    cases d with
    | nil => exact ⟨paraOf_term _ _ _, Or.inl rfl, trivial⟩
    | cons q d =>
      obtain ⟨x, xs, hx⟩ : ∃ x xs, docOf (q :: d) = x :: xs := by
        cases d with
        | nil => exact ⟨_, _, rfl⟩
        | cons r d => exact ⟨_, _, rfl⟩
      simp only [docOf, hx] at ih ⊢
      exact ⟨paraOf_term _ _ _, ⟨[], rfl⟩, trivial, ih⟩

theorem docOf_wf (d : DocL) (h : CanonDoc d) : (⟨[], docOf d⟩ : DocS).WF :=
  ⟨by simp, trivial, docOf_paras_ok d h, docOf_term d⟩

theorem lossyItems_entries (fs : List FieldL) (h : ∀ g ∈ fs, g.2 ≠ []) :
    lossyItems (fs.map fun g => PItem.entry (entryOf g.1 g.2)) = fs.map fieldOf := by
  induction fs with
  | nil => rfl
  | cons g gs ih =>
    simp only [List.map_cons, lossyItems, itemEntries] at ih ⊢
    rw [ih (fun x hx => h x (by simp [hx])), entryOf_lossy _ _ (h g (by simp))]
    rfl

theorem lossyDoc_docOf (d : DocL) (h : CanonDoc d) :
    lossyDoc (⟨[], docOf d⟩ : DocS) = lossyOfDocL d := by
  simp only [lossyDoc, lossyOfDocL]
  induction d with
  | nil => rfl
  | cons p d ih =>
    have hp := h p (by simp)
    have ihd := ih (fun q hq => h q (by simp [hq]))
    have hpara : lossyPara (paraOf p.1 p.2) = fieldOf p.1 :: p.2.map fieldOf := by
      simp only [lossyPara, paraOf]
      rw [entryOf_lossy _ _ hp.1.2.ne, lossyItems_entries _ (fun g hg => (hp.2 g hg).2.ne)]
      rfl
    cases d with
    | nil => simp [docOf, hpara]
    | cons q d =>
      simp only [docOf, List.map_cons] at ihd ⊢
      rw [hpara, ihd]

/-- **C08 round trip**: a lossy document whose field names are valid and whose values consist of
    canonical lines prints to text that
    * the lossy reader turns back into an equal value,
    * the lossless reader accepts, exposing the same names and the same non-blank value lines,
    with paragraphs separated by exactly one blank line (`printDoc`). -/
theorem C08_roundtrip (d : DocL) (h : CanonDoc d) :
    Lossy.read (printDoc (lossyOfDocL d)) = .ok (lossyOfDocL d)
    ∧ ∃ t, readStrict (printDoc (lossyOfDocL d)) = .ok t
        ∧ (lossyOfDocL d).map (·.map C06.nbField) = (docItems t).map (·.map C06.nbField) := by
  have hwf := docOf_wf d h
  have hj := C06.C06_joint_accept _ hwf
  rw [docOf_str d h]
  rw [lossyDoc_docOf d h] at hj
  exact ⟨hj.1, _, hj.2.1, hj.2.2⟩

/-- paragraphs are separated by one blank line -/
theorem C08_sep (p q : Para) (ps : Doc) :
    printDoc (p :: q :: ps) = printPara p ++ '\n' :: printDoc (q :: ps) := rfl

/-! ### the side conditions cannot be dropped -/

/-- an empty line that is not the first one is read back as whitespace-only continuation line
    by the lossy reader (kept) but dropped by the lossless reader: outside the canonical values,
    where only the blank-line normalisation of C06 relates the two readers -/
theorem C08_empty_line_readers_differ :
    Lossy.read (printDoc [[("A".toList, "a\n\nb".toList)]]) = .ok [[("A".toList, "a\n\nb".toList)]]
    ∧ (readStrict (printDoc [[("A".toList, "a\n\nb".toList)]])).toOption.map docItems
        = some [[("A".toList, "a\nb".toList)]] := by decide +kernel

/-- a continuation line starting with a space loses it to the indentation -/
theorem C08_needs_no_leading_space :
    Lossy.read (printDoc [[("A".toList, "a\n b".toList)]]) ≠ .ok [[("A".toList, "a\n b".toList)]] := by
  decide +kernel

/-- a continuation line starting with '#' is read as a comment -/
theorem C08_needs_no_hash_continuation :
    Lossy.read (printDoc [[("A".toList, "a\n#b".toList)]]) ≠ .ok [[("A".toList, "a\n#b".toList)]] := by
  decide +kernel

/-! ### non-vacuity -/

def exDoc : DocL :=
  [(("Source".toList, ["foo".toList]), [("A".toList, [[], "x: y".toList, ":z é".toList]), ("A".toList, [[]])]),
   (("Package".toList, ["#c".toList, "l2 ".toList]), [])]

example : CanonDoc exDoc := by
  intro p hp
  simp only [exDoc, List.mem_cons, List.mem_singleton, List.not_mem_nil, or_false] at hp
  rcases hp with rfl | rfl
  · refine ⟨⟨by decide, ⟨by decide, by decide, by decide, by decide⟩⟩, ?_⟩
    intro f hf
    simp only [List.mem_cons, List.not_mem_nil, or_false] at hf
    rcases hf with rfl | rfl
    · exact ⟨by decide, ⟨by decide, by decide, by decide, by decide⟩⟩
    · exact ⟨by decide, ⟨by decide, by decide, by decide, by decide⟩⟩
  · exact ⟨⟨by decide, ⟨by decide, by decide, by decide, by decide⟩⟩, by simp⟩

example : printDoc (lossyOfDocL exDoc) =
    "Source: foo\nA: \n x: y\n :z é\nA: \n\nPackage: #c\n l2 \n".toList := by decide

end Deb822Verif.Props.C08
