import Deb822Verif.Props.C18
import Deb822Verif.Lemmas.SplitOn
/-!
# C18, text side — canonical TEXTS, and rejection at record level

`Props/C18.lean` proves the value-side clause `Canon v → parse (print v) = v` for every type.  This
file adds, per type `T`,

* a decidable predicate on TEXT `canonText<T> : Str → Bool` saying what a canonical text of the type
  is (tokens joined by single spaces, no white space at the ends, decimal size without sign or
  leading zeros, keyword spelled as printed, …);
* `C18_<T>_text` — the text-side clause: `canonText t → parse t = ok v → print v = t`;
* `C18_<T>_print_canontext` — `Canon v → canonText (print v)`: every printed canonical value is a
  canonical text, so the two notions coincide and the text-side clause is not vacuous;
* `C18_<T>_text_needs_*` — closed witnesses (actual parse results, no totalised fall-back) that the
  text-side clause fails outside `canonText`;
* the rejection clause where a keyword is embedded in a record, quantified over the offending token.

## Clause table  (FULL = for all inputs, with the exact side condition shown; n/a = clause has no content)

| type                         | value side `parse(print v)=v` | text side `print(parse t)=t`      | `Canon v → canonText(print v)` | keyword rejection                          |
|------------------------------|-------------------------------|-----------------------------------|--------------------------------|--------------------------------------------|
| 7 keyword enums              | FULL `C18_enum_print_parse`   | FULL `C18_enum_text`; the 6 exact types need no condition (`C18_enum_text_exact`); Urgency RESTRICTED to printed keywords (witness `LOW`) | FULL `C18_enum_print_canontext` | FULL, all strings (`C18_enum_reject`), explicit keyword lists: `C18_versionconstraint_reject`, `C18_yesnoforce_reject`, `C18_repositorytype_reject`, `C18_priority_reject`, `C18_multiarch_reject`, `C18_origincategory_reject`, `C18_urgency_reject` |
| usize (sizes)                | FULL `parseUsize_decDigits`   | RESTRICTED `C18_usize_text` (digits only, no sign, no leading zero; witnesses `+5`, `007`) | FULL `C18_usize_print_canontext` | n/a (`C18_usize_rejects`: sign alone, `-`, non-digits, overflow are errors) |
| 4 checksum records           | FULL under `CanonChecksum`    | RESTRICTED `C18_checksum_text` (witnesses: two spaces, tab, `+5`, fourth token) | FULL `C18_checksum_print_canontext` | n/a (no keyword)                |
| changes-file entry           | FULL under `CanonChangesFile` | RESTRICTED `C18_changesfile_text` | FULL `C18_changesfile_print_canontext` | FULL `C18_changesfile_rejects_priority`, `C18_changesfile_priority_faithful` |
| package-list entry           | FULL under `CanonPkgEntry`    | RESTRICTED `C18_pkgentry_text` (extras in strictly increasing key order) | FULL `C18_pkgentry_print_canontext` | FULL `C18_pkgentry_rejects_priority`, `C18_pkgentry_priority_faithful` |
| build profile                | FULL under `CanonBuildProfile`| FULL, every text `C18_buildprofile_text` | FULL (trivial)           | n/a (`!` is the only marker)               |
| VCS location (`ParsedVcs`)   | FULL under `CanonVcs`         | RESTRICTED `C18_parsedvcs_text`   | FULL `C18_parsedvcs_print_canontext` | n/a                                  |
| `Vcs-*` field                | FULL under `CanonVcsField`    | RESTRICTED `C18_vcs_text` (Git/Bzr: canonical location text; Hg/Svn/Cvs: every text) | FULL `C18_vcs_print_canontext` | FULL `C18_vcs_rejects_unknown_name`, `C18_vcs_name_faithful` |
| identity `Name <email>`      | FULL under `CanonIdentity`    | RESTRICTED `C18_identity_text`    | FULL `C18_identity_print_canontext` | n/a                                   |
| `Origin` / `AppliedUpstream` | FULL under `CanonOrigin`      | FULL, every text `C18_origin_text`| FULL (trivial)                 | n/a (`commit:` is a prefix, not a keyword set) |
| `Forwarded`                  | FULL under `CanonForwarded`   | FULL, every text `C18_forwarded_text` | FULL (trivial)             | by design NOT rejected: `C18_forwarded_non_keyword_is_payload` (kept verbatim as `Yes(text)`, never mapped to `No`/`NotNeeded`) |
| Origin FIELD (category)      | FULL under `CanonOriginField` | RESTRICTED `C18_originfield_text` (the text is not a bare category keyword; witness `backport`) | FULL `C18_originfield_print_canontext` | not an error, not a default either: `C18_originfield_unknown_category` (whole text = uncategorised origin, printed back verbatim), `C18_originfield_category_faithful` |
| licence                      | FULL under `CanonLicense`     | FULL, every text `C18_license_text` | FULL (trivial)               | n/a                                        |
| Signed-By                    | FULL under `CanonSignature`   | RESTRICTED `C18_signature_text` (a multi-line text starts with a line feed; witness `a\nb`) | FULL `C18_signature_print_canontext` | n/a, no keyword: `C18_signature_payload_faithful` |

MISSING: nothing of the property's text; what stays outside Lean is listed in props.json (`trusted_base`).
-/
namespace Deb822Verif.Props.C18Text
open Deb822Verif Text Enum Codec
open Deb822Verif.Props.C18
open Deb822Verif.Gen.Enums (all)

/-! ## text lemmas -/

/-- Boolean form of `C18.Tok`: non-empty, no Unicode white space -/
def tokB (s : Str) : Bool := !s.isEmpty && s.all (fun c => !isWhitespace c)

theorem tokB_iff (s : Str) : tokB s = true ↔ Tok s := by
  cases s with
  | nil => simp [tokB, Tok]
  | cons c cs => simp [tokB, Tok]

theorem join_cons (sep x : Str) (xs : List Str) :
    join sep (x :: xs) = x ++ (xs.map (sep ++ ·)).flatten := by
  induction xs generalizing x with
  | nil => simp [join]
  | cons y ys ih => simp [join, ih y]

theorem join_cons_cons (sep x y : Str) (r : List Str) : join sep (x :: y :: r) = x ++ sep ++ join sep (y :: r) := rfl

theorem splitOn_ne_nil (sep : Char) (v : Str) : splitOn sep v ≠ [] := by
  cases v with
  | nil => simp [splitOn]
  | cons c cs =>
    simp only [splitOn]
    split
    · simp
    · split <;> simp

/-- the pieces joined by the separator are the text -/
theorem join_splitOn (sep : Char) (s : Str) : join [sep] (splitOn sep s) = s := by
  induction s with
  | nil => rfl
  | cons c cs ih =>
    simp only [splitOn]
    split
    · rename_i h
      subst h
      cases hs : splitOn c cs with
      | nil => exact absurd hs (splitOn_ne_nil _ _)
      | cons y r => rw [join_cons_cons, ← hs, ih]; rfl
    · cases hs : splitOn sep cs with
      | nil => exact absurd hs (splitOn_ne_nil _ _)
      | cons y r =>
        rw [hs] at ih
        simp only []
        rw [join_cons] at ih ⊢
        rw [← ih]; rfl

/-- pieces free of the separator are found again -/
theorem splitOn_join (sep : Char) (ps : List Str) (hne : ps ≠ []) (h : ∀ p ∈ ps, sep ∉ p) :
    splitOn sep (join [sep] ps) = ps := by
  induction ps with
  | nil => exact absurd rfl hne
  | cons p r ih =>
    cases r with
    | nil => simpa [join] using splitOn_none sep p (h p (by simp))
    | cons q r' =>
      rw [join_cons_cons]
      have := splitOn_cons sep p (join [sep] (q :: r')) (h p (by simp))
      simp only [List.append_assoc, List.cons_append, List.nil_append] at this ⊢
      rw [this, ih (by simp) (fun x hx => h x (by simp [hx]))]

/-- `split_whitespace` of tokens joined by single spaces -/
theorem sw_join (ps : List Str) (h : ∀ p ∈ ps, Tok p) : splitWhitespace (join [' '] ps) = ps := by
  induction ps with
  | nil => rfl
  | cons p r ih =>
    cases r with
    | nil => simpa [join] using sw_single p (h p (by simp))
    | cons q r' =>
      rw [join_cons_cons]
      have := sw_cons p (join [' '] (q :: r')) (h p (by simp))
      simp only [List.append_assoc, List.cons_append, List.nil_append] at this ⊢
      rw [this, ih (fun x hx => h x (by simp [hx]))]

/-- what `splitOnFirst` returns are the two sides of an occurrence of the pattern -/
theorem splitOnFirst_eq (pat t : Str) (r : Str × Str) (h : splitOnFirst pat t = some r) :
    t = r.1 ++ pat ++ r.2 := by
  induction t generalizing r with
  | nil => simp [splitOnFirst] at h
  | cons c cs ih =>
    simp only [splitOnFirst] at h
    split at h
    · rename_i hp
      simp only [Option.some.injEq] at h
      subst h
      have := List.prefix_iff_eq_append.1 (List.isPrefixOf_iff_prefix.1 hp)
      simpa using this.symm
    · cases hs : splitOnFirst pat cs with
      | none => rw [hs] at h; simp at h
      | some q =>
        rw [hs] at h
        simp only [Option.some.injEq] at h
        subst h
        simp [← ih q hs]

/-- for a one-character pattern the left part is free of it -/
theorem splitOnFirst_left (c0 : Char) (t : Str) (r : Str × Str) (h : splitOnFirst [c0] t = some r) :
    c0 ∉ r.1 := by
  induction t generalizing r with
  | nil => simp [splitOnFirst] at h
  | cons c cs ih =>
    simp only [splitOnFirst] at h
    split at h
    · simp only [Option.some.injEq] at h
      subst h; simp
    · rename_i hp
      cases hs : splitOnFirst [c0] cs with
      | none => rw [hs] at h; simp at h
      | some q =>
        rw [hs] at h
        simp only [Option.some.injEq] at h
        subst h
        have hc : c0 ≠ c := by
          intro e; subst e; simp [List.isPrefixOf] at hp
        simp only [List.mem_cons, not_or]
        exact ⟨hc, ih q hs⟩

theorem splitOnFirst_none_notin (c0 : Char) (t : Str) (h : splitOnFirst [c0] t = none) : c0 ∉ t := by
  induction t with
  | nil => simp
  | cons c cs ih =>
    simp only [splitOnFirst] at h
    split at h
    · simp at h
    · rename_i hp
      cases hs : splitOnFirst [c0] cs with
      | some q => rw [hs] at h; simp at h
      | none =>
        have hc : c0 ≠ c := by
          intro e; subst e; simp [List.isPrefixOf] at hp
        simp only [List.mem_cons, not_or]
        exact ⟨hc, ih hs⟩

theorem lookup_mem (k v : Str) (t : List (Str × Str)) (h : lookup k t = some v) : (k, v) ∈ t := by
  induction t with
  | nil => simp [lookup] at h
  | cons p r ih =>
    simp only [lookup] at h
    split at h
    · rename_i e
      simp only [Option.some.injEq] at h
      subst h; subst e; simp
    · simp [ih h]

theorem lookup_none_not_mem (k : Str) (t : List (Str × Str)) (h : lookup k t = none) :
    k ∉ t.map (·.1) := by
  intro hm
  have := lookup_some_of_mem k t hm
  rw [h] at this; simp at this

/-! ## decimal sizes -/

def isDigit (c : Char) : Bool := decide ('0' ≤ c ∧ c ≤ '9')

/-- a canonical size text: ASCII digits only (so no sign), no leading zero except `0` itself -/
def canonTextUsize (t : Str) : Bool :=
  t.all isDigit && (match t with | [] => false | c :: cs => c != '0' || cs.isEmpty)

theorem digitChar_digitVal (c : Char) (d : Nat) (h : digitVal c = some d) : digitChar d = c ∧ d < 10 := by
  unfold digitVal at h
  split at h
  · rename_i hc
    simp only [Option.some.injEq] at h
    subst h
    have h1 : 48 ≤ c.toNat := by
      have := hc.1; rw [Char.le_def, UInt32.le_iff_toNat_le] at this; exact this
    have h2 : c.toNat ≤ 57 := by
      have := hc.2; rw [Char.le_def, UInt32.le_iff_toNat_le] at this; exact this
    refine ⟨?_, by omega⟩
    unfold digitChar
    have : 48 + (c.toNat - 48) = c.toNat := by omega
    rw [this]
    exact Char.ofNat_toNat c
  · simp at h

/-- with a non-zero accumulator the digit loop appends the digits to the accumulator's decimal form -/
theorem decDigits_parseDigits (acc : Nat) (t : Str) (n : Nat) (ha : 0 < acc)
    (h : parseDigits acc t = some n) : decDigits n = decDigits acc ++ t := by
  induction t generalizing acc with
  | nil => simp [parseDigits] at h; simp [h]
  | cons c cs ih =>
    simp only [parseDigits] at h
    cases hd : digitVal c with
    | none => rw [hd] at h; simp at h
    | some d =>
      rw [hd] at h
      simp only at h
      split at h
      · obtain ⟨hc, hd10⟩ := digitChar_digitVal c d hd
        have := ih (acc * 10 + d) (by omega) h
        rw [this]
        have hstep : decDigits (acc * 10 + d) = decDigits acc ++ [c] := by
          rw [decDigits]
          have h10 : ¬ acc * 10 + d < 10 := by omega
          simp only [h10, ↓reduceIte]
          have e1 : (acc * 10 + d) / 10 = acc := by omega
          have e2 : (acc * 10 + d) % 10 = d := by omega
          rw [e1, e2, hc]
        rw [hstep]; simp
      · simp at h

theorem decDigits_lt10 (d : Nat) (h : d < 10) : decDigits d = [digitChar d] := by
  rw [decDigits]; simp [h]

theorem digitVal_zero_iff (c : Char) : digitVal c = some 0 → c = '0' := by
  intro h
  have := (digitChar_digitVal c 0 h).1
  rw [← this]; rfl

/-- text side, sizes: a canonical size text that parses prints back to itself -/
theorem C18_usize_text (t : Str) (n : Nat) (hc : canonTextUsize t = true) (hp : parseUsize t = some n) :
    decDigits n = t := by
  cases t with
  | nil => simp [canonTextUsize] at hc
  | cons c cs =>
    simp only [canonTextUsize, List.all_cons, Bool.and_eq_true, Bool.or_eq_true, bne_iff_ne, ne_eq,
      List.isEmpty_iff] at hc
    obtain ⟨⟨hdig, _⟩, hz⟩ := hc
    have hplus : c ≠ '+' := by intro e; subst e; revert hdig; decide
    have hminus : c ≠ '-' := by intro e; subst e; revert hdig; decide
    rw [parseUsize_digit_head c cs hplus hminus] at hp
    simp only [parseDigits] at hp
    cases hd : digitVal c with
    | none => rw [hd] at hp; simp at hp
    | some d =>
      rw [hd] at hp
      simp only [Nat.zero_mul, Nat.zero_add] at hp
      split at hp
      · obtain ⟨hcd, hd10⟩ := digitChar_digitVal c d hd
        by_cases hd0 : d = 0
        · subst hd0
          have hc0 := digitVal_zero_iff c hd
          rcases hz with hz | hz
          · exact absurd hc0 hz
          · subst hz
            simp only [parseDigits, Option.some.injEq] at hp
            subst hp
            rw [decDigits_lt10 0 (by omega), hcd]
        · have := decDigits_parseDigits d cs n (by omega) hp
          rw [this, decDigits_lt10 d hd10, hcd]; rfl
      · simp at hp

theorem isDigit_digitChar : ∀ d, d < 10 → isDigit (digitChar d) = true := by decide

theorem digitChar_zero : ∀ d, d < 10 → digitChar d = '0' → d = 0 := by decide

theorem decDigits_head (n : Nat) : ∃ c cs, decDigits n = c :: cs ∧ (c = '0' → n = 0) := by
  induction n using Nat.strongRecOn with
  | _ n ih =>
    rw [decDigits]
    split
    · rename_i h10
      exact ⟨digitChar n, [], rfl, digitChar_zero n h10⟩
    · rename_i h10
      obtain ⟨c, cs, e, hz⟩ := ih (n / 10) (by omega)
      refine ⟨c, cs ++ [digitChar (n % 10)], by rw [e]; rfl, ?_⟩
      intro hc
      have := hz hc
      omega

/-- every printed size is a canonical size text -/
theorem C18_usize_print_canontext (n : Nat) : canonTextUsize (decDigits n) = true := by
  have hall : (decDigits n).all isDigit = true := by
    rw [List.all_eq_true]
    intro c hc
    obtain ⟨d, hd, rfl⟩ := decDigits_all_digit n c hc
    exact isDigit_digitChar d hd
  obtain ⟨c, cs, e, hz⟩ := decDigits_head n
  unfold canonTextUsize
  rw [hall, e]
  simp only [Bool.true_and, Bool.or_eq_true, bne_iff_ne, ne_eq, List.isEmpty_iff]
  by_cases hc : c = '0'
  · right
    have hn := hz hc
    subst hn
    rw [decDigits_lt10 0 (by omega)] at e
    simp only [List.cons.injEq] at e
    exact e.2.symm
  · left; exact hc

/-- what parses is below the bound (so the parsed value is in the domain of the value side) -/
theorem parseDigits_lt (acc : Nat) (t : Str) (n : Nat) (ha : acc < usizeBound)
    (h : parseDigits acc t = some n) : n < usizeBound := by
  induction t generalizing acc with
  | nil => simp [parseDigits] at h; omega
  | cons c cs ih =>
    simp only [parseDigits] at h
    cases hd : digitVal c with
    | none => rw [hd] at h; simp at h
    | some d =>
      rw [hd] at h
      simp only at h
      split at h
      · rename_i hb; exact ih _ hb h
      · simp at h

theorem C18_usize_parse_canon (t : Str) (n : Nat) (h : parseUsize t = some n) : n < usizeBound := by
  unfold parseUsize at h
  split at h
  · simp at h
  · simp at h
  · simp at h
  · exact parseDigits_lt 0 _ n (by decide) h
  · exact parseDigits_lt 0 _ n (by decide) h

example : canonTextUsize "4294967296".toList = true ∧ parseUsize "4294967296".toList = some 4294967296 := by
  decide +kernel

/-- outside `canonTextUsize` the text side fails: a sign or leading zeros are accepted and not printed -/
theorem C18_usize_text_needs_no_sign :
    parseUsize "+5".toList = some 5 ∧ decDigits 5 = "5".toList ∧ canonTextUsize "+5".toList = false := by
  decide +kernel
theorem C18_usize_text_needs_no_leading_zero :
    parseUsize "007".toList = some 7 ∧ decDigits 7 = "7".toList ∧ canonTextUsize "007".toList = false
    ∧ parseUsize "00".toList = some 0 ∧ decDigits 0 = "0".toList ∧ canonTextUsize "00".toList = false := by
  decide +kernel
/-- texts that are not sizes are errors: nothing is mapped to a default size.  (Restates
    `C18.C18_usize_bound_needed` on the TEXT: the value `2^64` does not exist in Rust.) -/
theorem C18_usize_rejects :
    parseUsize [] = none ∧ parseUsize "+".toList = none ∧ parseUsize "-".toList = none
    ∧ parseUsize "-5".toList = none ∧ parseUsize "-0".toList = none ∧ parseUsize "5a".toList = none
    ∧ parseUsize " 5".toList = none ∧ parseUsize "++5".toList = none
    ∧ parseUsize "18446744073709551615".toList = some 18446744073709551615
    ∧ parseUsize "18446744073709551616".toList = none := by
  decide +kernel

/-! ## keyword enumerations -/

/-- a canonical keyword text: one of the printed keywords, spelled as printed -/
def canonTextEnum (e : EnumSpec) (t : Str) : Bool := decide (t ∈ printed e)

/-- text side, every keyword type: a printed keyword that parses prints back to itself -/
theorem C18_enum_text : ∀ e ∈ all, ∀ t v : Str, canonTextEnum e t = true → parseOf e t = some v →
    printOf e v = some t := by
  intro e he t v hc hp
  have hm : t ∈ printed e := by simpa [canonTextEnum] using hc
  have := C18_enum_canonical e he t hm
  rw [hp] at this
  simpa using this

/-- every variant prints, and what it prints is a canonical keyword text -/
theorem C18_enum_print_canontext :
    ∀ e ∈ all, ∀ v ∈ e.variants, ∃ kw, printOf e v = some kw ∧ canonTextEnum e kw = true := by
  have : ∀ e ∈ all, ∀ v ∈ e.variants, (match printOf e v with
      | some kw => canonTextEnum e kw | none => false) = true := by decide
  intro e he v hv
  have h := this e he v hv
  cases hp : printOf e v with
  | none => rw [hp] at h; simp at h
  | some kw => rw [hp] at h; exact ⟨kw, rfl, h⟩

/-- the parsed value is a variant of the type (never something else) and it prints -/
theorem C18_enum_parse_canon : ∀ e ∈ all, ∀ t v : Str, parseOf e t = some v →
    v ∈ e.variants ∧ (printOf e v).isSome := by
  intro e he t v hp
  have hrows : ∀ e ∈ all, ∀ r ∈ e.parseTab, r.2 ∈ e.variants ∧ (printOf e r.2).isSome = true := by decide
  have hc := C18_enum_no_default e he
  unfold parseOf at hp
  cases hl : lookup (normalise e.norm t) e.parseTab with
  | none => rw [hl, hc] at hp; simp at hp
  | some w =>
    rw [hl] at hp
    simp only [Option.some.injEq] at hp
    subst hp
    exact hrows e he _ (lookup_mem _ _ _ hl)

/-- for the types that compare the text exactly (all but `Urgency`) the text side needs no
    condition: EVERY text that parses prints back to itself -/
theorem C18_enum_text_exact : ∀ e ∈ all, e.norm = .exact → ∀ t v : Str, parseOf e t = some v →
    printOf e v = some t := by
  intro e he hn t v hp
  apply C18_enum_text e he t v _ hp
  have h1 : (parseOf e t).isSome := by rw [hp]; rfl
  have h2 := (C18_enum_accept_iff e he t).1 h1
  rw [hn] at h2
  have h3 := (C18_enum_accepted_eq_printed e he t).1 h2
  simpa [canonTextEnum] using h3

example : canonTextEnum Gen.Enums.versionConstraint ">=".toList = true
    ∧ parseOf Gen.Enums.versionConstraint ">=".toList = some "GreaterThanEqual".toList := by decide

/-- `Urgency` lower-cases its input: outside `canonTextEnum` the text side fails for it -/
theorem C18_enum_text_needs_printed_spelling :
    parseOf Gen.Enums.urgency "LOW".toList = some "Low".toList
    ∧ printOf Gen.Enums.urgency "Low".toList = some "low".toList
    ∧ canonTextEnum Gen.Enums.urgency "LOW".toList = false
    ∧ parseOf Gen.Enums.urgency "Medium".toList = some "Medium".toList
    ∧ printOf Gen.Enums.urgency "Medium".toList = some "medium".toList
    ∧ parseOf Gen.Enums.urgency [Char.ofNat 0x212A] = none := by decide

/-! ### rejection with the keyword lists written out

Instances of `C18.C18_enum_reject_exact`, with the list of keywords spelled out in the statement
(a keyword added to or removed from the Rust `match` breaks the proof). -/

theorem mem_all :
    Gen.Enums.priority ∈ all ∧ Gen.Enums.multiArch ∈ all ∧ Gen.Enums.urgency ∈ all
    ∧ Gen.Enums.versionConstraint ∈ all ∧ Gen.Enums.originCategory ∈ all
    ∧ Gen.Enums.repositoryType ∈ all ∧ Gen.Enums.yesNoForce ∈ all := by
  simp [Gen.Enums.all]

theorem reject_of_accepted (e : EnumSpec) (he : e ∈ all) (hn : e.norm = .exact) (kws : List Str)
    (hk : accepted e = kws) (s : Str) (hs : s ∉ kws) : parseOf e s = none :=
  C18_enum_reject_exact e he hn s (by rw [hk]; exact hs)

/-- version constraints: exactly `>=`, `<=`, `=`, `>>`, `<<`; every other text is an error … -/
theorem C18_versionconstraint_reject (s : Str)
    (hs : s ∉ [">=".toList, "<=".toList, "=".toList, ">>".toList, "<<".toList]) :
    parseOf Gen.Enums.versionConstraint s = none :=
  reject_of_accepted _ mem_all.2.2.2.1 (by decide) _ (by decide) s hs

/-- … in particular the single-character and doubled forms found in old control files -/
theorem C18_versionconstraint_rejects_obsolete :
    parseOf Gen.Enums.versionConstraint "<".toList = none
    ∧ parseOf Gen.Enums.versionConstraint ">".toList = none
    ∧ parseOf Gen.Enums.versionConstraint "==".toList = none
    ∧ parseOf Gen.Enums.versionConstraint "!=".toList = none
    ∧ parseOf Gen.Enums.versionConstraint "=>".toList = none
    ∧ parseOf Gen.Enums.versionConstraint "=<".toList = none
    ∧ parseOf Gen.Enums.versionConstraint " >=".toList = none
    ∧ parseOf Gen.Enums.versionConstraint ">= ".toList = none
    ∧ parseOf Gen.Enums.versionConstraint [] = none := by decide

theorem C18_yesnoforce_reject (s : Str) (hs : s ∉ ["yes".toList, "no".toList, "force".toList]) :
    parseOf Gen.Enums.yesNoForce s = none :=
  reject_of_accepted _ mem_all.2.2.2.2.2.2 (by decide) _ (by decide) s hs

theorem C18_yesnoforce_rejects_case :
    parseOf Gen.Enums.yesNoForce "Yes".toList = none ∧ parseOf Gen.Enums.yesNoForce "YES".toList = none
    ∧ parseOf Gen.Enums.yesNoForce "true".toList = none ∧ parseOf Gen.Enums.yesNoForce "1".toList = none
    ∧ parseOf Gen.Enums.yesNoForce [] = none := by decide

theorem C18_repositorytype_reject (s : Str) (hs : s ∉ ["deb".toList, "deb-src".toList]) :
    parseOf Gen.Enums.repositoryType s = none :=
  reject_of_accepted _ mem_all.2.2.2.2.2.1 (by decide) _ (by decide) s hs

theorem C18_priority_reject (s : Str)
    (hs : s ∉ ["required".toList, "important".toList, "standard".toList, "optional".toList, "extra".toList]) :
    parseOf Gen.Enums.priority s = none :=
  reject_of_accepted _ mem_all.1 (by decide) _ (by decide) s hs

theorem C18_multiarch_reject (s : Str)
    (hs : s ∉ ["same".toList, "foreign".toList, "no".toList, "allowed".toList]) :
    parseOf Gen.Enums.multiArch s = none :=
  reject_of_accepted _ mem_all.2.1 (by decide) _ (by decide) s hs

theorem C18_origincategory_reject (s : Str)
    (hs : s ∉ ["backport".toList, "vendor".toList, "upstream".toList, "other".toList]) :
    parseOf Gen.Enums.originCategory s = none :=
  reject_of_accepted _ mem_all.2.2.2.2.1 (by decide) _ (by decide) s hs

/-- `Urgency`: the lower-cased text decides -/
theorem C18_urgency_reject (s : Str)
    (hs : s.map lowerUnicodeChar ∉ ["low".toList, "medium".toList, "high".toList, "emergency".toList, "critical".toList]) :
    parseOf Gen.Enums.urgency s = none :=
  C18_enum_reject Gen.Enums.urgency mem_all.2.2.1 s (by
    have : accepted Gen.Enums.urgency
        = ["low".toList, "medium".toList, "high".toList, "emergency".toList, "critical".toList] := by decide
    rw [this]; exact hs)

example : "deb-bin".toList ∉ ["deb".toList, "deb-src".toList] := by decide
example : "LOW!".toList.map lowerUnicodeChar
    ∉ ["low".toList, "medium".toList, "high".toList, "emergency".toList, "critical".toList] := by decide

/-! ## checksum records -/

theorem isDigit_not_ws (c : Char) (h : isDigit c = true) : isWhitespace c = false := by
  simp only [isDigit, decide_eq_true_eq] at h
  have h1 : 48 ≤ c.toNat := by
    have := h.1; rw [Char.le_def, UInt32.le_iff_toNat_le] at this; exact this
  have h2 : c.toNat ≤ 57 := by
    have := h.2; rw [Char.le_def, UInt32.le_iff_toNat_le] at this; exact this
  simp only [isWhitespace, Bool.or_eq_false_iff, Bool.and_eq_false_iff, decide_eq_false_iff_not,
    beq_eq_false_iff_ne, ne_eq]
  omega

theorem canonTextUsize_tok (t : Str) (h : canonTextUsize t = true) : Tok t := by
  cases t with
  | nil => simp [canonTextUsize] at h
  | cons c cs =>
    simp only [canonTextUsize, Bool.and_eq_true] at h
    refine ⟨by simp, ?_⟩
    intro x hx
    exact isDigit_not_ws x (List.all_eq_true.1 h.1 x hx)

/-- a canonical checksum line: exactly three pieces between single spaces — two tokens around a
    canonical size -/
def canonTextChecksum (t : Str) : Bool :=
  match splitOn ' ' t with
  | [h, sz, f] => tokB h && canonTextUsize sz && tokB f
  | _ => false

theorem canonTextChecksum_shape (t : Str) (hc : canonTextChecksum t = true) :
    ∃ h sz f, t = join [' '] [h, sz, f] ∧ Tok h ∧ canonTextUsize sz = true ∧ Tok f := by
  unfold canonTextChecksum at hc
  split at hc
  · rename_i h sz f heq
    simp only [Bool.and_eq_true, tokB_iff] at hc
    refine ⟨h, sz, f, ?_, hc.1.1, hc.1.2, hc.2⟩
    rw [← heq, join_splitOn]
  · simp at hc

/-- text side, Md5/Sha1/Sha256/Sha512Checksum: a canonical line that parses gives a canonical value
    that prints back to the line -/
theorem C18_checksum_text (t : Str) (c : Checksum) (hc : canonTextChecksum t = true)
    (hp : Checksum.parse t = some c) : c.print = t ∧ CanonChecksum c := by
  obtain ⟨h, sz, f, rfl, hh, hsz, hf⟩ := canonTextChecksum_shape t hc
  have hsw := sw_join [h, sz, f] (by
    intro p hp'
    simp only [List.mem_cons, List.not_mem_nil, or_false] at hp'
    rcases hp' with rfl | rfl | rfl
    · exact hh
    · exact canonTextUsize_tok _ hsz
    · exact hf)
  unfold Checksum.parse at hp
  rw [hsw] at hp
  simp only at hp
  cases hn : parseUsize sz with
  | none => rw [hn] at hp; simp at hp
  | some n =>
    rw [hn] at hp
    simp only [Option.some.injEq] at hp
    subst hp
    refine ⟨?_, ⟨hh, hf, C18_usize_parse_canon sz n hn⟩⟩
    simp [Checksum.print, join, C18_usize_text sz n hsz hn]

theorem checksum_print_join (c : Checksum) : c.print = join [' '] [c.hash, decDigits c.size, c.filename] := by
  simp [Checksum.print, join]

/-- every printed canonical checksum is a canonical checksum line -/
theorem C18_checksum_print_canontext (c : Checksum) (h : CanonChecksum c) :
    canonTextChecksum c.print = true := by
  have hs : splitOn ' ' c.print = [c.hash, decDigits c.size, c.filename] := by
    rw [checksum_print_join]
    apply splitOn_join _ _ (by simp)
    intro p hp
    simp only [List.mem_cons, List.not_mem_nil, or_false] at hp
    rcases hp with rfl | rfl | rfl
    · exact tok_no_space _ h.hash.2
    · exact tok_no_space _ (decDigits_tok _).2
    · exact tok_no_space _ h.filename.2
  unfold canonTextChecksum
  rw [hs]
  simp only [Bool.and_eq_true, tokB_iff]
  exact ⟨⟨h.hash, C18_usize_print_canontext _⟩, h.filename⟩

example : canonTextChecksum "d41d8cd9 4294967296 a_1.0.dsc".toList = true
    ∧ Checksum.parse "d41d8cd9 4294967296 a_1.0.dsc".toList
      = some ⟨"d41d8cd9".toList, 4294967296, "a_1.0.dsc".toList⟩ := by decide +kernel

/-- outside `canonTextChecksum` the text side fails: other separators, a signed size, a fourth
    token — all accepted, none printed back -/
theorem C18_checksum_text_needs_single_spaces :
    Checksum.parse "h  1 f".toList = some ⟨"h".toList, 1, "f".toList⟩
    ∧ Checksum.parse "h\t1\tf".toList = some ⟨"h".toList, 1, "f".toList⟩
    ∧ Checksum.parse " h 1 f ".toList = some ⟨"h".toList, 1, "f".toList⟩
    ∧ Checksum.print ⟨"h".toList, 1, "f".toList⟩ = "h 1 f".toList
    ∧ canonTextChecksum "h  1 f".toList = false ∧ canonTextChecksum "h\t1\tf".toList = false
    ∧ canonTextChecksum " h 1 f ".toList = false := by decide +kernel
theorem C18_checksum_text_needs_canonical_size :
    Checksum.parse "h +5 f".toList = some ⟨"h".toList, 5, "f".toList⟩
    ∧ Checksum.parse "h 05 f".toList = some ⟨"h".toList, 5, "f".toList⟩
    ∧ Checksum.print ⟨"h".toList, 5, "f".toList⟩ = "h 5 f".toList
    ∧ canonTextChecksum "h +5 f".toList = false ∧ canonTextChecksum "h 05 f".toList = false := by
  decide +kernel
theorem C18_checksum_text_needs_three_tokens :
    Checksum.parse "h 1 f g".toList = some ⟨"h".toList, 1, "f".toList⟩
    ∧ Checksum.print ⟨"h".toList, 1, "f".toList⟩ = "h 1 f".toList
    ∧ canonTextChecksum "h 1 f g".toList = false := by decide +kernel

/-! ## changes-file entry -/

theorem priority_printed_parse : ∀ kw ∈ printed Gen.Enums.priority,
    Tok kw ∧ ∃ v, v ∈ Gen.Enums.priority.variants ∧ parseOf Gen.Enums.priority kw = some v ∧ priorityText v = kw := by
  decide

theorem priority_text_printed : ∀ v ∈ Gen.Enums.priority.variants, priorityText v ∈ printed Gen.Enums.priority := by
  decide

/-- a canonical changes-file line: five pieces between single spaces — token, canonical size,
    token, priority keyword as printed, token -/
def canonTextChangesFile (t : Str) : Bool :=
  match splitOn ' ' t with
  | [m, sz, sec, pr, f] =>
    tokB m && canonTextUsize sz && tokB sec && decide (pr ∈ printed Gen.Enums.priority) && tokB f
  | _ => false

theorem canonTextChangesFile_shape (t : Str) (hc : canonTextChangesFile t = true) :
    ∃ m sz sec pr f, t = join [' '] [m, sz, sec, pr, f] ∧ Tok m ∧ canonTextUsize sz = true ∧ Tok sec
      ∧ pr ∈ printed Gen.Enums.priority ∧ Tok f := by
  unfold canonTextChangesFile at hc
  split at hc
  · rename_i m sz sec pr f heq
    simp only [Bool.and_eq_true, tokB_iff, decide_eq_true_eq] at hc
    refine ⟨m, sz, sec, pr, f, ?_, hc.1.1.1.1, hc.1.1.1.2, hc.1.1.2, hc.1.2, hc.2⟩
    rw [← heq, join_splitOn]
  · simp at hc

/-- text side, changes-file entries -/
theorem C18_changesfile_text (t : Str) (c : ChangesFile) (hc : canonTextChangesFile t = true)
    (hp : ChangesFile.parse t = some c) : c.print = t ∧ CanonChangesFile c := by
  obtain ⟨m, sz, sec, pr, f, rfl, hm, hsz, hsec, hpr, hf⟩ := canonTextChangesFile_shape t hc
  obtain ⟨hprt, v, hv, hpv, hvt⟩ := priority_printed_parse pr hpr
  have hsw := sw_join [m, sz, sec, pr, f] (by
    intro p hp'
    simp only [List.mem_cons, List.not_mem_nil, or_false] at hp'
    rcases hp' with rfl | rfl | rfl | rfl | rfl
    · exact hm
    · exact canonTextUsize_tok _ hsz
    · exact hsec
    · exact hprt
    · exact hf)
  unfold ChangesFile.parse at hp
  rw [hsw] at hp
  simp only [hpv] at hp
  cases hn : parseUsize sz with
  | none => rw [hn] at hp; simp at hp
  | some n =>
    rw [hn] at hp
    simp only [Option.some.injEq] at hp
    subst hp
    refine ⟨?_, ⟨hm, hsec, hf, C18_usize_parse_canon sz n hn, hv⟩⟩
    simp [ChangesFile.print, join, C18_usize_text sz n hsz hn, hvt]

theorem changesfile_print_join (c : ChangesFile) :
    c.print = join [' '] [c.md5sum, decDigits c.size, c.section_, priorityText c.priority, c.filename] := by
  simp [ChangesFile.print, join]

theorem C18_changesfile_print_canontext (c : ChangesFile) (h : CanonChangesFile c) :
    canonTextChangesFile c.print = true := by
  have hpr := priority_text_printed c.priority h.priority
  have hprt := (priority_tok_parse c.priority h.priority).1
  have hs : splitOn ' ' c.print = [c.md5sum, decDigits c.size, c.section_, priorityText c.priority, c.filename] := by
    rw [changesfile_print_join]
    apply splitOn_join _ _ (by simp)
    intro p hp
    simp only [List.mem_cons, List.not_mem_nil, or_false] at hp
    rcases hp with rfl | rfl | rfl | rfl | rfl
    · exact tok_no_space _ h.md5sum.2
    · exact tok_no_space _ (decDigits_tok _).2
    · exact tok_no_space _ h.section_.2
    · exact tok_no_space _ hprt.2
    · exact tok_no_space _ h.filename.2
  unfold canonTextChangesFile
  rw [hs]
  simp only [Bool.and_eq_true, tokB_iff, decide_eq_true_eq]
  exact ⟨⟨⟨⟨h.md5sum, C18_usize_print_canontext _⟩, h.section_⟩, hpr⟩, h.filename⟩

example : canonTextChangesFile "d41d 1234 utils optional a_1.0.dsc".toList = true
    ∧ ChangesFile.parse "d41d 1234 utils optional a_1.0.dsc".toList
      = some ⟨"d41d".toList, 1234, "utils".toList, "Optional".toList, "a_1.0.dsc".toList⟩ := by decide +kernel

theorem C18_changesfile_text_needs_single_spaces :
    ChangesFile.parse "m 1 s optional  f".toList = some ⟨"m".toList, 1, "s".toList, "Optional".toList, "f".toList⟩
    ∧ ChangesFile.parse "m +1 s optional f x".toList = some ⟨"m".toList, 1, "s".toList, "Optional".toList, "f".toList⟩
    ∧ ChangesFile.print ⟨"m".toList, 1, "s".toList, "Optional".toList, "f".toList⟩ = "m 1 s optional f".toList
    ∧ canonTextChangesFile "m 1 s optional  f".toList = false
    ∧ canonTextChangesFile "m +1 s optional f x".toList = false := by decide +kernel


/-- rejection at record level: a line whose fourth white-space separated token is not one of the
    five priority keywords is an error, whatever the other tokens are -/
theorem C18_changesfile_rejects_priority (s m sz sec pr f : Str) (rest : List Str)
    (hs : splitWhitespace s = m :: sz :: sec :: pr :: f :: rest)
    (hpr : pr ∉ ["required".toList, "important".toList, "standard".toList, "optional".toList, "extra".toList]) :
    ChangesFile.parse s = none := by
  unfold ChangesFile.parse
  rw [hs]
  simp only [C18_priority_reject pr hpr]
  cases parseUsize sz <;> rfl

/-- … the same on a line written with single spaces -/
theorem C18_changesfile_rejects_priority_line (m sz sec pr f : Str) (hm : Tok m) (hsz : Tok sz)
    (hsec : Tok sec) (hp : Tok pr) (hf : Tok f)
    (hpr : pr ∉ ["required".toList, "important".toList, "standard".toList, "optional".toList, "extra".toList]) :
    ChangesFile.parse (join [' '] [m, sz, sec, pr, f]) = none := by
  apply C18_changesfile_rejects_priority _ m sz sec pr f [] _ hpr
  apply sw_join
  intro p hp'
  simp only [List.mem_cons, List.not_mem_nil, or_false] at hp'
  rcases hp' with rfl | rfl | rfl | rfl | rfl <;> assumption

example : ChangesFile.parse "d41d 12 utils Optional a.dsc".toList = none
    ∧ ChangesFile.parse "d41d 12 utils low a.dsc".toList = none
    ∧ ChangesFile.parse "d41d 12 utils - a.dsc".toList = none := by decide +kernel

/-- … and no default: the priority of an accepted line is the variant whose keyword is the fourth token -/
theorem C18_changesfile_priority_faithful (s : Str) (c : ChangesFile) (h : ChangesFile.parse s = some c) :
    ∃ m sz sec pr f rest, splitWhitespace s = m :: sz :: sec :: pr :: f :: rest
      ∧ c.priority ∈ Gen.Enums.priority.variants ∧ printOf Gen.Enums.priority c.priority = some pr := by
  unfold ChangesFile.parse at h
  split at h
  · rename_i m sz sec pr f rest heq
    refine ⟨m, sz, sec, pr, f, rest, heq, ?_⟩
    cases hn : parseUsize sz with
    | none => rw [hn] at h; simp at h
    | some n =>
      rw [hn] at h
      simp only at h
      cases hq : parseOf Gen.Enums.priority pr with
      | none => rw [hq] at h; simp at h
      | some v =>
        rw [hq] at h
        simp only [Option.some.injEq] at h
        subst h
        have h1 := C18_enum_parse_canon _ mem_all.1 pr v hq
        have h2 := C18_enum_text_exact _ mem_all.1 (by decide) pr v hq
        exact ⟨h1.1, h2⟩
  · simp at h

/-! ## package-list entry -/

/-- `key=value` at the first `=` -/
def kvSplit (p : Str) : Str × Str := (p.takeWhile (· != '='), (p.dropWhile (· != '=')).drop 1)

instance (m : List (Str × Str)) : Decidable (KeysSorted m) := by unfold KeysSorted; infer_instance

/-- a canonical package-list line: pieces between single spaces — three tokens, a priority keyword
    as printed, then `key=value` tokens with strictly increasing keys (code-point order) -/
def canonTextPkgEntry (t : Str) : Bool :=
  match splitOn ' ' t with
  | a :: b :: c :: d :: rest =>
    tokB a && tokB b && tokB c && decide (d ∈ printed Gen.Enums.priority)
      && rest.all (fun p => tokB p && p.contains '=') && decide (KeysSorted (rest.map kvSplit))
  | _ => false

theorem takeWhile_ne_notin (c : Char) (p : Str) : c ∉ p.takeWhile (· != c) := by
  induction p with
  | nil => simp
  | cons x xs ih =>
    simp only [List.takeWhile_cons]
    split
    · rename_i hx
      simp only [List.mem_cons, not_or]
      exact ⟨fun e => by subst e; simp at hx, ih⟩
    · simp

theorem dropWhile_ne_of_mem (c : Char) (p : Str) (h : c ∈ p) : ∃ xs, p.dropWhile (· != c) = c :: xs := by
  induction p with
  | nil => simp at h
  | cons x xs ih =>
    simp only [List.dropWhile_cons]
    split
    · rename_i hx
      simp only [List.mem_cons] at h
      rcases h with h | h
      · subst h; simp at hx
      · exact ih h
    · rename_i hx
      have : x = c := by simpa using hx
      subst this
      exact ⟨xs, rfl⟩

theorem kvText_kvSplit (p : Str) (h : p.contains '=' = true) : kvText (kvSplit p) = p := by
  have h1 : p.takeWhile (· != '=') ++ p.dropWhile (· != '=') = p := List.takeWhile_append_dropWhile
  have hm : '=' ∈ p := by simpa using h
  obtain ⟨xs, hd⟩ := dropWhile_ne_of_mem '=' p hm
  unfold kvText kvSplit
  rw [hd] at h1 ⊢
  simpa using h1

theorem kvSplit_key_no_eq (p : Str) : '=' ∉ (kvSplit p).1 := takeWhile_ne_notin '=' p

theorem kvSplit_kvText (p : Str × Str) (h : '=' ∉ p.1) : kvSplit (kvText p) = p := by
  have hall : ∀ x ∈ p.1, (x != '=') = true := by
    intro x hx
    have : x ≠ '=' := by intro e; subst e; exact h hx
    simpa using this
  unfold kvSplit kvText
  rw [List.takeWhile_append_of_pos hall, List.dropWhile_append_of_pos hall]
  simp

theorem canonTextPkgEntry_shape (t : Str) (hc : canonTextPkgEntry t = true) :
    ∃ a b c d rest, t = join [' '] (a :: b :: c :: d :: rest) ∧ Tok a ∧ Tok b ∧ Tok c
      ∧ d ∈ printed Gen.Enums.priority ∧ (∀ p ∈ rest, Tok p ∧ p.contains '=' = true)
      ∧ KeysSorted (rest.map kvSplit) := by
  unfold canonTextPkgEntry at hc
  split at hc
  · rename_i a b c d rest heq
    simp only [Bool.and_eq_true, tokB_iff, decide_eq_true_eq, List.all_eq_true] at hc
    refine ⟨a, b, c, d, rest, ?_, hc.1.1.1.1.1, hc.1.1.1.1.2, hc.1.1.1.2, hc.1.1.2, hc.1.2, hc.2⟩
    rw [← heq, join_splitOn]
  · simp at hc

theorem flatten_extraPieces (m : List (Str × Str)) :
    (extraPieces m).flatten = ((m.map kvText).map ([' '] ++ ·)).flatten := by
  simp [extraPieces, kvText, List.map_map, Function.comp_def]

theorem pkgentry_print_join (e : PkgEntry) (hs : KeysSorted e.extra) :
    e.print = join [' '] (e.package :: e.ptype :: e.section_ :: priorityText e.priority :: e.extra.map kvText) := by
  unfold PkgEntry.print
  rw [sortedExtras_of_sorted _ hs, flatten_extraPieces]
  rw [join_cons_cons, join_cons_cons, join_cons_cons, join_cons]
  simp [PkgEntry.printBase]

/-- text side, package-list entries with any number of extras -/
theorem C18_pkgentry_text (t : Str) (e : PkgEntry) (hc : canonTextPkgEntry t = true)
    (hp : PkgEntry.parse t = some e) : e.print = t ∧ CanonPkgEntry e := by
  obtain ⟨a, b, c, d, rest, rfl, ha, hb, hcc, hd, hrest, hsorted⟩ := canonTextPkgEntry_shape t hc
  obtain ⟨hdt, v, hv, hpv, hvt⟩ := priority_printed_parse d hd
  have hsw := sw_join (a :: b :: c :: d :: rest) (by
    intro p hp'
    simp only [List.mem_cons] at hp'
    rcases hp' with rfl | rfl | rfl | rfl | hp'
    · exact ha
    · exact hb
    · exact hcc
    · exact hdt
    · exact (hrest p hp').1)
  have hmap : (rest.map kvSplit).map kvText = rest := by
    rw [List.map_map]
    conv => rhs; rw [← List.map_id rest]
    apply List.map_congr_left
    intro p hp'
    exact kvText_kvSplit p (hrest p hp').2
  have hx := parseExtras_sorted [] (rest.map kvSplit) (by simpa using hsorted) (by
    intro p hp'
    simp only [List.mem_map] at hp'
    obtain ⟨q, _, rfl⟩ := hp'
    exact kvSplit_key_no_eq q)
  rw [hmap] at hx
  unfold PkgEntry.parse at hp
  rw [hsw] at hp
  simp only [hpv, hx, List.nil_append, Option.some.injEq] at hp
  subst hp
  constructor
  · rw [pkgentry_print_join _ hsorted]
    simp only [hvt, hmap]
  · refine ⟨ha, hb, hcc, hv, ?_, hsorted⟩
    intro p hp'
    simp only [List.mem_map] at hp'
    obtain ⟨q, hq, rfl⟩ := hp'
    have hqt := (hrest q hq).1
    have hsub1 : ∀ x ∈ (kvSplit q).1, x ∈ q := fun x hx => (List.takeWhile_sublist _).subset hx
    have hsub2 : ∀ x ∈ (kvSplit q).2, x ∈ q := fun x hx =>
      (List.dropWhile_sublist _).subset ((List.drop_sublist _ _).subset hx)
    exact ⟨fun x hx => hqt.2 x (hsub1 x hx), fun x hx => hqt.2 x (hsub2 x hx), kvSplit_key_no_eq q⟩

theorem C18_pkgentry_print_canontext (e : PkgEntry) (h : CanonPkgEntry e) :
    canonTextPkgEntry e.print = true := by
  have hpr := priority_text_printed e.priority h.priority
  have hprt := (priority_tok_parse e.priority h.priority).1
  have hkv : ∀ p ∈ e.extra, Tok (kvText p) := fun p hp => kv_tok p (h.extra p hp).1 (h.extra p hp).2.1
  have hs : splitOn ' ' e.print
      = e.package :: e.ptype :: e.section_ :: priorityText e.priority :: e.extra.map kvText := by
    rw [pkgentry_print_join _ h.sorted]
    apply splitOn_join _ _ (by simp)
    intro p hp
    simp only [List.mem_cons, List.mem_map] at hp
    rcases hp with rfl | rfl | rfl | rfl | ⟨q, hq, rfl⟩
    · exact tok_no_space _ h.package.2
    · exact tok_no_space _ h.ptype.2
    · exact tok_no_space _ h.section_.2
    · exact tok_no_space _ hprt.2
    · exact tok_no_space _ (hkv q hq).2
  have hback : (e.extra.map kvText).map kvSplit = e.extra := by
    rw [List.map_map]
    conv => rhs; rw [← List.map_id e.extra]
    apply List.map_congr_left
    intro p hp
    exact kvSplit_kvText p (h.extra p hp).2.2
  unfold canonTextPkgEntry
  rw [hs]
  simp only [Bool.and_eq_true, tokB_iff, decide_eq_true_eq, List.all_eq_true, hback]
  refine ⟨⟨⟨⟨⟨h.package, h.ptype⟩, h.section_⟩, hpr⟩, ?_⟩, h.sorted⟩
  intro p hp
  simp only [List.mem_map] at hp
  obtain ⟨q, hq, rfl⟩ := hp
  exact ⟨hkv q hq, by simp [kvText]⟩

example : canonTextPkgEntry "foo deb utils optional arch=any profile=!stage1 x=a=b".toList = true := by
  decide +kernel
example : (PkgEntry.parse "foo deb utils optional arch=any profile=!stage1 x=a=b".toList).isSome = true := by
  decide +kernel

/-- outside `canonTextPkgEntry` the text side fails: extras out of key order come back sorted, a
    repeated key keeps its last value, other separators are not printed back -/
theorem C18_pkgentry_text_needs_sorted_keys :
    PkgEntry.parse "p deb s optional b=1 a=2".toList
      = some ⟨"p".toList, "deb".toList, "s".toList, "Optional".toList, [("a".toList, "2".toList), ("b".toList, "1".toList)]⟩
    ∧ PkgEntry.print ⟨"p".toList, "deb".toList, "s".toList, "Optional".toList, [("a".toList, "2".toList), ("b".toList, "1".toList)]⟩
      = "p deb s optional a=2 b=1".toList
    ∧ canonTextPkgEntry "p deb s optional b=1 a=2".toList = false := by
  refine ⟨by decide +kernel, ?_, by decide +kernel⟩
  rw [pkgentry_print_join _ (by simp [KeysSorted]; decide)]
  decide +kernel
theorem C18_pkgentry_text_needs_distinct_keys :
    PkgEntry.parse "p deb s optional k=v k=w".toList
      = some ⟨"p".toList, "deb".toList, "s".toList, "Optional".toList, [("k".toList, "w".toList)]⟩
    ∧ PkgEntry.print ⟨"p".toList, "deb".toList, "s".toList, "Optional".toList, [("k".toList, "w".toList)]⟩
      = "p deb s optional k=w".toList
    ∧ canonTextPkgEntry "p deb s optional k=v k=w".toList = false := by
  refine ⟨by decide +kernel, ?_, by decide +kernel⟩
  rw [pkgentry_print_join _ (by simp [KeysSorted])]
  decide +kernel
theorem C18_pkgentry_text_needs_single_spaces :
    PkgEntry.parse "p\tdeb  s optional".toList = some ⟨"p".toList, "deb".toList, "s".toList, "Optional".toList, []⟩
    ∧ PkgEntry.print ⟨"p".toList, "deb".toList, "s".toList, "Optional".toList, []⟩ = "p deb s optional".toList
    ∧ canonTextPkgEntry "p\tdeb  s optional".toList = false := by
  refine ⟨by decide +kernel, ?_, by decide +kernel⟩
  rw [pkgentry_print_join _ (by simp [KeysSorted])]
  decide +kernel

/-- rejection at record level: a line whose fourth token is not a priority keyword is an error -/
theorem C18_pkgentry_rejects_priority (s a b c d : Str) (rest : List Str)
    (hs : splitWhitespace s = a :: b :: c :: d :: rest)
    (hd : d ∉ ["required".toList, "important".toList, "standard".toList, "optional".toList, "extra".toList]) :
    PkgEntry.parse s = none := by
  unfold PkgEntry.parse
  rw [hs]
  simp only [C18_priority_reject d hd]

theorem C18_pkgentry_rejects_priority_line (a b c d : Str) (rest : List Str) (ha : Tok a) (hb : Tok b)
    (hc : Tok c) (hdt : Tok d) (hr : ∀ p ∈ rest, Tok p)
    (hd : d ∉ ["required".toList, "important".toList, "standard".toList, "optional".toList, "extra".toList]) :
    PkgEntry.parse (join [' '] (a :: b :: c :: d :: rest)) = none := by
  apply C18_pkgentry_rejects_priority _ a b c d rest _ hd
  apply sw_join
  intro p hp'
  simp only [List.mem_cons] at hp'
  rcases hp' with rfl | rfl | rfl | rfl | hp'
  · exact ha
  · exact hb
  · exact hc
  · exact hdt
  · exact hr p hp'

example : PkgEntry.parse "foo deb utils Optional arch=any".toList = none
    ∧ PkgEntry.parse "foo deb utils medium".toList = none
    ∧ PkgEntry.parse "foo deb utils arch=any".toList = none := by decide +kernel

/-- … and no default: the priority of an accepted line is the variant whose keyword is the fourth token -/
theorem C18_pkgentry_priority_faithful (s : Str) (e : PkgEntry) (h : PkgEntry.parse s = some e) :
    ∃ a b c d rest, splitWhitespace s = a :: b :: c :: d :: rest
      ∧ e.priority ∈ Gen.Enums.priority.variants ∧ printOf Gen.Enums.priority e.priority = some d := by
  unfold PkgEntry.parse at h
  split at h
  · rename_i a b c d rest heq
    refine ⟨a, b, c, d, rest, heq, ?_⟩
    cases hq : parseOf Gen.Enums.priority d with
    | none => rw [hq] at h; simp at h
    | some v =>
      rw [hq] at h
      simp only at h
      cases hx : parseExtras rest [] with
      | none => rw [hx] at h; simp at h
      | some m =>
        rw [hx] at h
        simp only [Option.some.injEq] at h
        subst h
        have h1 := C18_enum_parse_canon _ mem_all.1 d v hq
        have h2 := C18_enum_text_exact _ mem_all.1 (by decide) d v hq
        exact ⟨h1.1, h2⟩
  · simp at h

/-! ## build profile, `Origin` / `AppliedUpstream`, `Forwarded`, licence: the text side holds for EVERY text

For these four the parser is total and keeps the whole text, so `print (parse t) = t` needs no
condition on `t` (`canonText` is constantly true), and the parsed value is always canonical.
There is therefore no witness of failure to give. -/

/-- the canonical-text predicates of the four types: every text is canonical -/
def canonTextBuildProfile (_ : Str) : Bool := true
def canonTextOrigin (_ : Str) : Bool := true
def canonTextForwarded (_ : Str) : Bool := true
def canonTextLicense (_ : Str) : Bool := true

/-- text side, build profiles: every text -/
theorem C18_buildprofile_text (t : Str) :
    (BuildProfile.parse t).print = t ∧ CanonBuildProfile (BuildProfile.parse t) := by
  unfold BuildProfile.parse
  split
  · exact ⟨rfl, trivial⟩
  · rename_i hne
    refine ⟨rfl, ?_⟩
    simp only [CanonBuildProfile]
    cases t with
    | nil => simp
    | cons c cs =>
      intro e
      simp only [List.head?_cons, Option.some.injEq] at e
      subst e
      exact hne cs rfl

/-- text side, `Origin` and `AppliedUpstream`: every text -/
theorem C18_origin_text (t : Str) : (Origin.parse t).print = t ∧ CanonOrigin (Origin.parse t) := by
  unfold Origin.parse
  cases hs : stripPrefix commitPrefix t with
  | some r =>
    simp only [Origin.print, CanonOrigin, and_true]
    unfold stripPrefix at hs
    split at hs
    · rename_i hp
      simp only [Option.some.injEq] at hs
      subst hs
      exact List.prefix_iff_eq_append.1 (List.isPrefixOf_iff_prefix.1 hp)
    · simp at hs
  | none =>
    simp only [Origin.print, CanonOrigin, true_and]
    unfold stripPrefix at hs
    split at hs
    · simp at hs
    · rename_i hp
      cases hb : commitPrefix.isPrefixOf t with
      | true => exact absurd hb hp
      | false => rfl

theorem forwarded_rows : ∀ r ∈ Gen.Enums.forwarded.parseTab,
    r.2 ∈ Gen.Enums.forwarded.variants ∧ printOf Gen.Enums.forwarded r.2 = some r.1 := by decide

/-- text side, `Forwarded`: every text (a keyword prints as the keyword, anything else is kept) -/
theorem C18_forwarded_text (t : Str) : (Forwarded.parse t).print = t ∧ CanonForwarded (Forwarded.parse t) := by
  unfold Forwarded.parse
  cases hl : lookup t Gen.Enums.forwarded.parseTab with
  | some v =>
    have := forwarded_rows _ (lookup_mem _ _ _ hl)
    simp only [Forwarded.print, CanonForwarded, this.2, Option.getD_some, this.1, and_self]
  | none =>
    simp only [Forwarded.print, CanonForwarded, true_and]
    exact lookup_none_not_mem _ _ hl

/-- "rejection" for `Forwarded`: by design a text outside the keyword set `no`, `not-needed` is not
    an error; it is NOT mapped to one of the keyword variants either — it is kept verbatim as the
    reference of `Yes` -/
theorem C18_forwarded_non_keyword_is_payload (t : Str) (h : t ∉ ["no".toList, "not-needed".toList]) :
    Forwarded.parse t = .yes t := by
  have ha : accepted Gen.Enums.forwarded = ["no".toList, "not-needed".toList] := by decide
  unfold Forwarded.parse
  rw [lookup_none_of_not_mem _ _ (by rw [← ha] at h; exact h)]

example : Forwarded.parse "No".toList = .yes "No".toList ∧ Forwarded.parse "yes".toList = .yes "yes".toList
    ∧ Forwarded.parse "not needed".toList = .yes "not needed".toList
    ∧ Forwarded.parse " no".toList = .yes " no".toList ∧ Forwarded.parse [] = .yes [] := by decide

/-- text side, licences: every text -/
theorem C18_license_text (t : Str) : (License.parse t).print = t ∧ CanonLicense (License.parse t) := by
  unfold License.parse
  cases hs : splitOnFirst ['\n'] t with
  | none =>
    simp only [License.print, CanonLicense, true_and]
    exact splitOnFirst_none_notin '\n' t hs
  | some r =>
    have he := splitOnFirst_eq _ _ _ hs
    have hl := splitOnFirst_left '\n' t r hs
    simp only
    split
    · rename_i h1
      simp only [License.print, CanonLicense, and_true]
      rw [he, h1]; rfl
    · rename_i h1
      simp only [License.print, CanonLicense]
      refine ⟨?_, h1, hl⟩
      rw [he]; simp

/-! ## Signed-By -/

/-- a canonical Signed-By text: a single line (a path), or a multi-line text that begins with the
    line feed `Display` puts in front of a key block -/
def canonTextSignature (t : Str) : Bool := !t.contains '\n' || t.head? == some '\n'

/-- text side, Signed-By -/
theorem C18_signature_text (t : Str) (hc : canonTextSignature t = true) :
    (Signature.parse t).print = t ∧ CanonSignature (Signature.parse t) := by
  unfold Signature.parse
  by_cases hn : t.contains '\n' = true
  · simp only [hn, ↓reduceIte, CanonSignature, and_true]
    simp only [canonTextSignature, hn, Bool.not_true, Bool.false_or, beq_iff_eq] at hc
    cases t with
    | nil => simp at hc
    | cons c cs =>
      simp only [List.head?_cons, Option.some.injEq] at hc
      subst hc
      rfl
  · simp only [hn, Bool.false_eq_true, ↓reduceIte, Signature.print, CanonSignature, true_and]
    simpa using hn

theorem C18_signature_print_canontext (s : Signature) (h : CanonSignature s) :
    canonTextSignature s.print = true := by
  cases s with
  | keyBlock b => simp [canonTextSignature, Signature.print]
  | keyPath p =>
    simp only [CanonSignature] at h
    simp [canonTextSignature, Signature.print, h]

example : canonTextSignature "/usr/share/keyrings/k.gpg".toList = true
    ∧ canonTextSignature "\n-----BEGIN PGP PUBLIC KEY BLOCK-----\n.\n".toList = true := by decide

/-- outside `canonTextSignature`: a multi-line text without the leading line feed is read as a key
    block and printed with one -/
theorem C18_signature_text_needs_leading_newline :
    Signature.parse "a\nb".toList = .keyBlock "a\nb".toList
    ∧ Signature.print (.keyBlock "a\nb".toList) = "\na\nb".toList
    ∧ canonTextSignature "a\nb".toList = false := by decide +kernel

/-- Signed-By has no keyword set and no default: every text is kept whole, as the path or as the key block -/
theorem C18_signature_payload_faithful (t : Str) :
    ('\n' ∉ t ∧ Signature.parse t = .keyPath t)
    ∨ ('\n' ∈ t ∧ ((∃ r, t = '\n' :: r ∧ Signature.parse t = .keyBlock r)
        ∨ (t.head? ≠ some '\n' ∧ Signature.parse t = .keyBlock t))) := by
  unfold Signature.parse
  by_cases hn : t.contains '\n' = true
  · right
    refine ⟨by simpa using hn, ?_⟩
    simp only [hn, ↓reduceIte]
    cases t with
    | nil => simp at hn
    | cons c cs =>
      by_cases hc : c = '\n'
      · subst hc; left; exact ⟨cs, rfl, rfl⟩
      · right
        refine ⟨by simpa using hc, ?_⟩
        split
        · rename_i r heq; simp only [List.cons.injEq] at heq; exact absurd heq.1 hc
        · rfl
  · left
    exact ⟨by simpa using hn, by simp only [hn, Bool.false_eq_true, ↓reduceIte]⟩

/-! ## the Origin field (category prefix) -/

/-- a canonical Origin-field text: anything but a bare category keyword (a category is always
    printed with `, ` after it) -/
def canonTextOriginField (t : Str) : Bool :=
  decide (t ∉ ["backport".toList, "vendor".toList, "upstream".toList, "other".toList])

theorem originPrefix_keys :
    Gen.Enums.originPrefix.map (·.1) = ["backport".toList, "vendor".toList, "upstream".toList, "other".toList] := by
  decide

theorem originPrefix_rows : ∀ r ∈ Gen.Enums.originPrefix,
    r.2 ∈ Gen.Enums.originCategory.variants ∧ categoryText r.2 = r.1 ∧ ',' ∉ r.1 := by decide

theorem originPrefix_rows' : ∀ r ∈ Gen.Enums.originPrefix,
    r.2 ∈ Gen.Enums.originCategory.variants ∧ printOf Gen.Enums.originCategory r.2 = some r.1 := by decide

theorem firstPiece_of_none (t : Str) (h : splitOnFirst originSep t = none) : firstPiece t = t := by
  simp [firstPiece, h]

/-- text side, Origin field -/
theorem C18_originfield_text (t : Str) (hc : canonTextOriginField t = true) :
    formatOrigin (parseOrigin t).1 (parseOrigin t).2 = t
    ∧ CanonOriginField (parseOrigin t).1 (parseOrigin t).2 := by
  unfold parseOrigin
  cases hl : lookup (firstPiece t) Gen.Enums.originPrefix with
  | none =>
    have ho := C18_origin_text t
    simp only [formatOrigin, List.nil_append, ho.1, true_and]
    exact ⟨ho.2, by simp only [ho.1]; exact hl⟩
  | some cat =>
    have hrow := originPrefix_rows _ (lookup_mem _ _ _ hl)
    cases hs : splitOnFirst originSep t with
    | none =>
      exfalso
      rw [firstPiece_of_none t hs] at hl
      have hm : t ∈ Gen.Enums.originPrefix.map (·.1) := List.mem_map.2 ⟨_, lookup_mem _ _ _ hl, rfl⟩
      rw [originPrefix_keys] at hm
      simp only [canonTextOriginField, decide_eq_true_eq] at hc
      exact hc hm
    | some r =>
      have he := splitOnFirst_eq _ _ _ hs
      have hf : firstPiece t = r.1 := by simp [firstPiece, hs]
      have hr : restPiece t = r.2 := by simp [restPiece, hs]
      have ho := C18_origin_text r.2
      simp only [hr, formatOrigin, ho.1]
      rw [hf] at hrow
      refine ⟨?_, ho.2, hrow.1⟩
      rw [hrow.2.1, ← he]

theorem C18_originfield_print_canontext (cat : Option Str) (o : Origin) (h : CanonOriginField cat o) :
    canonTextOriginField (formatOrigin cat o) = true := by
  have hk : ∀ k ∈ ["backport".toList, "vendor".toList, "upstream".toList, "other".toList], ',' ∉ k := by decide
  simp only [canonTextOriginField, decide_eq_true_eq]
  intro hm
  have hno := hk _ hm
  cases cat with
  | some c =>
    apply hno
    simp [formatOrigin, originSep]
  | none =>
    simp only [formatOrigin, List.nil_append] at hm hno
    have hl := h.2
    simp only at hl
    have hs : splitOnFirst originSep o.print = none := splitOnFirst_none ',' [' '] o.print hno
    rw [firstPiece_of_none _ hs] at hl
    have := lookup_none_not_mem _ _ hl
    rw [originPrefix_keys] at this
    exact this hm

example : canonTextOriginField "backport, commit:abc123".toList = true
    ∧ parseOrigin "backport, commit:abc123".toList = (some "Backport".toList, .commit "abc123".toList) := by
  decide +kernel

/-- outside `canonTextOriginField`: a bare category keyword is read as that category with an empty
    origin and printed with the separator -/
theorem C18_originfield_text_needs_not_bare_keyword :
    parseOrigin "backport".toList = (some "Backport".toList, .other [])
    ∧ formatOrigin (some "Backport".toList) (.other []) = "backport, ".toList
    ∧ canonTextOriginField "backport".toList = false := by decide +kernel

/-- "rejection" for the Origin field: a first piece that is not one of the four category keywords
    is neither an error nor mapped to some category — the WHOLE text (piece, separator and rest) is
    the origin, without category, and it prints back verbatim; `commit:` after such a piece is not
    recognised either -/
theorem C18_originfield_unknown_category (t : Str)
    (h : firstPiece t ∉ ["backport".toList, "vendor".toList, "upstream".toList, "other".toList]) :
    parseOrigin t = (none, Origin.parse t) ∧ formatOrigin none (Origin.parse t) = t := by
  unfold parseOrigin
  rw [lookup_none_of_not_mem _ _ (by rw [originPrefix_keys]; exact h)]
  exact ⟨rfl, by simp [formatOrigin, (C18_origin_text t).1]⟩

/-- … written on the text `k, rest` -/
theorem C18_originfield_unknown_category_prefix (k r : Str) (hc : ',' ∉ k)
    (h : k ∉ ["backport".toList, "vendor".toList, "upstream".toList, "other".toList]) :
    parseOrigin (k ++ originSep ++ r) = (none, Origin.parse (k ++ originSep ++ r)) := by
  apply (C18_originfield_unknown_category _ _).1
  have : firstPiece (k ++ originSep ++ r) = k := by
    have := splitOnFirst_found ',' [' '] k r hc
    unfold firstPiece originSep
    rw [show ", ".toList = [',', ' '] from rfl, this]
  rw [this]; exact h

example : parseOrigin "Backport, x".toList = (none, .other "Backport, x".toList)
    ∧ parseOrigin "bogus, commit:1".toList = (none, .other "bogus, commit:1".toList)
    ∧ parseOrigin "backport,x".toList = (none, .other "backport,x".toList) := by decide +kernel

/-- … and no default: a category in the result is the variant whose keyword is the first piece -/
theorem C18_originfield_category_faithful (t c : Str) (h : (parseOrigin t).1 = some c) :
    c ∈ Gen.Enums.originCategory.variants ∧ printOf Gen.Enums.originCategory c = some (firstPiece t) := by
  unfold parseOrigin at h
  cases hl : lookup (firstPiece t) Gen.Enums.originPrefix with
  | none => rw [hl] at h; simp at h
  | some cat =>
    rw [hl] at h
    simp only [Option.some.injEq] at h
    subst h
    have := originPrefix_rows' _ (lookup_mem _ _ _ hl)
    exact ⟨this.1, this.2⟩

/-! ## identity `Name <email>` -/

theorem stripSuffix_eq (p s e : Str) (h : stripSuffix p s = some e) : s = e ++ p := by
  unfold stripSuffix at h
  split at h
  · rename_i hs
    simp only [Option.some.injEq] at h
    subst h
    obtain ⟨w, rfl⟩ := List.isSuffixOf_iff_suffix.1 hs
    simp
  · simp at h

/-- a canonical identity text: `name <email>` — at the first `<` the text before it ends in exactly
    the one space `format!` writes (the rest of it is trimmed), the text after it ends in `>` and
    the email between them is trimmed -/
def canonTextIdentity (t : Str) : Bool :=
  match splitOnFirst ['<'] t with
  | some r =>
    (match stripSuffix ['>'] r.2, r.1.reverse with
     | some e, ' ' :: nr => trim nr.reverse == nr.reverse && trim e == e
     | _, _ => false)
  | none => false

theorem canonTextIdentity_shape (t : Str) (hc : canonTextIdentity t = true) :
    ∃ n e, t = identityText n e ∧ CanonIdentity n e := by
  unfold canonTextIdentity at hc
  split at hc
  · rename_i r hs
    split at hc
    · rename_i e nr h1 h2
      simp only [Bool.and_eq_true, beq_iff_eq] at hc
      have he := splitOnFirst_eq _ _ _ hs
      have hl := splitOnFirst_left '<' t r hs
      have hr2 := stripSuffix_eq _ _ _ h1
      have hr1 : r.1 = nr.reverse ++ [' '] := by
        have := congrArg List.reverse h2
        simpa using this
      refine ⟨nr.reverse, e, ?_, ⟨hc.1, ?_, hc.2⟩⟩
      · rw [he, hr1, hr2]; simp [identityText]
      · intro hm; apply hl; rw [hr1]; simp [hm]
    · simp at hc
  · simp at hc

/-- text side, identities -/
theorem C18_identity_text (t n e : Str) (hc : canonTextIdentity t = true)
    (hp : identityParse t = some (n, e)) : identityText n e = t ∧ CanonIdentity n e := by
  obtain ⟨n', e', rfl, hcan⟩ := canonTextIdentity_shape t hc
  rw [C18_identity_roundtrip n' e' hcan] at hp
  simp only [Option.some.injEq, Prod.mk.injEq] at hp
  obtain ⟨rfl, rfl⟩ := hp
  exact ⟨rfl, hcan⟩

theorem C18_identity_print_canontext (n e : Str) (h : CanonIdentity n e) :
    canonTextIdentity (identityText n e) = true := by
  have hlt : '<' ∉ n ++ [' '] := by
    intro hm
    simp only [List.mem_append, List.mem_singleton] at hm
    rcases hm with hm | hm
    · exact h.name_no_lt hm
    · exact absurd hm (by decide)
  have hs := splitOnFirst_found '<' [] (n ++ [' ']) (e ++ ['>']) hlt
  have e1 : identityText n e = n ++ [' '] ++ ['<'] ++ (e ++ ['>']) := by simp [identityText]
  have e2 : stripSuffix ['>'] (e ++ ['>']) = some e := by simp [stripSuffix]
  unfold canonTextIdentity
  rw [e1, hs]
  simp only [e2, List.reverse_append, List.reverse_cons, List.reverse_nil, List.nil_append,
    List.cons_append, List.reverse_reverse, h.name_trimmed, h.email_trimmed, beq_self_eq_true, Bool.and_self]

example : canonTextIdentity "Joe Example <joe@example.com>".toList = true
    ∧ identityParse "Joe Example <joe@example.com>".toList = some ("Joe Example".toList, "joe@example.com".toList) := by
  decide +kernel

/-- outside `canonTextIdentity`: other spacing, or the bare-address form, parse but are not the
    conventional text of what they parse to -/
theorem C18_identity_text_needs_single_space :
    identityParse "J  <a@b>".toList = some ("J".toList, "a@b".toList)
    ∧ identityParse "J<a@b>".toList = some ("J".toList, "a@b".toList)
    ∧ identityParse "J < a@b >".toList = some ("J".toList, "a@b".toList)
    ∧ identityText "J".toList "a@b".toList = "J <a@b>".toList
    ∧ canonTextIdentity "J  <a@b>".toList = false ∧ canonTextIdentity "J<a@b>".toList = false
    ∧ canonTextIdentity "J < a@b >".toList = false := by decide +kernel
theorem C18_identity_text_needs_brackets :
    identityParse "a@b".toList = some ([], "a@b".toList)
    ∧ identityText [] "a@b".toList = " <a@b>".toList
    ∧ canonTextIdentity "a@b".toList = false := by decide +kernel

/-! ## VCS locations -/

/-- `[p]` ↦ `p` -/
def unbracket : Str → Option Str
  | '[' :: r => (match r.reverse with | ']' :: q => some q.reverse | _ => none)
  | _ => none

theorem unbracket_eq (x p : Str) (h : unbracket x = some p) : x = '[' :: (p ++ [']']) := by
  unfold unbracket at h
  split at h
  · rename_i r
    split at h
    · rename_i q hq
      simp only [Option.some.injEq] at h
      subst h
      have := congrArg List.reverse hq
      simp only [List.reverse_reverse, List.reverse_cons] at this
      rw [this]
    · simp at h
  · simp at h

theorem unbracket_mk (p : Str) : unbracket ('[' :: (p ++ [']'])) = some p := by
  simp [unbracket]

/-- the bracketed subpath piece: `[p]` with `p` a token free of `]` -/
def subOK (x : Str) : Bool :=
  match unbracket x with
  | some p => tokB p && !p.contains ']'
  | none => false

theorem subOK_shape (x : Str) (h : subOK x = true) : ∃ p, x = '[' :: (p ++ [']']) ∧ Tok p ∧ ']' ∉ p := by
  unfold subOK at h
  split at h
  · rename_i p hp
    simp only [Bool.and_eq_true, tokB_iff, Bool.not_eq_eq_eq_not, Bool.not_true] at h
    exact ⟨p, unbracket_eq x p hp, h.1, by simpa using h.2⟩
  · simp at h

theorem subOK_mk (p : Str) (hp : Tok p) (hb : ']' ∉ p) : subOK ('[' :: (p ++ [']'])) = true := by
  unfold subOK
  rw [unbracket_mk]
  simp only [Bool.and_eq_true, tokB_iff]
  exact ⟨hp, by simpa using hb⟩

/-- Boolean form of `C18.branchOK` -/
def branchOKB (b : Str) : Bool :=
  match b with
  | '[' :: t => (t.takeWhile (· != ']')).isEmpty || !t.contains ']'
  | _ => true

theorem branchOKB_iff (b : Str) : branchOKB b = true ↔ branchOK b := by
  unfold branchOKB branchOK
  split
  · rename_i t
    constructor
    · intro h t' e
      simp only [List.cons.injEq, true_and] at e
      subst e
      simpa using h
    · intro h
      simpa using h t rfl
  · rename_i hne
    constructor
    · intro _ t e; exact absurd e (hne t)
    · intro _; rfl

def dashB : Str := ['-', 'b']

/-- a canonical VCS location text: pieces between single spaces — the url token, then optionally
    `-b` and a branch token (not itself of the shape `[x]…`), then optionally `[subpath]` -/
def canonTextVcs (t : Str) : Bool :=
  match splitOn ' ' t with
  | [u] => tokB u
  | [u, x] => tokB u && subOK x
  | [u, m, b] => tokB u && m == dashB && tokB b && branchOKB b
  | [u, m, b, x] => tokB u && m == dashB && tokB b && branchOKB b && subOK x
  | _ => false

/-- the same without a branch (Vcs-Bzr) -/
def canonTextVcsNoBranch (t : Str) : Bool :=
  match splitOn ' ' t with
  | [u] => tokB u
  | [u, x] => tokB u && subOK x
  | _ => false

theorem canonVcs_mk (u : Str) (b p : Option Str) (hu : Tok u)
    (hb : ∀ x, b = some x → Tok x ∧ branchOK x) (hp : ∀ x, p = some x → Tok x ∧ ']' ∉ x) :
    CanonVcs ⟨u, b, p⟩ := ⟨hu, hb, hp⟩

/-- a canonical location text is the printed form of a canonical value -/
theorem canonTextVcs_image (t : Str) (hc : canonTextVcs t = true) : ∃ v, CanonVcs v ∧ v.print = t := by
  unfold canonTextVcs at hc
  split at hc
  · rename_i u heq
    rw [tokB_iff] at hc
    refine ⟨⟨u, none, none⟩, canonVcs_mk u none none hc (by simp) (by simp), ?_⟩
    rw [← join_splitOn ' ' t, heq]
    simp [ParsedVcs.print, branchPart, subPart, join]
  · rename_i u x heq
    simp only [Bool.and_eq_true, tokB_iff] at hc
    obtain ⟨p, rfl, hp, hpb⟩ := subOK_shape x hc.2
    refine ⟨⟨u, none, some p⟩, canonVcs_mk u none (some p) hc.1 (by simp) ?_, ?_⟩
    · intro y hy; simp only [Option.some.injEq] at hy; subst hy; exact ⟨hp, hpb⟩
    · rw [← join_splitOn ' ' t, heq]
      simp [ParsedVcs.print, branchPart, subPart, join]
  · rename_i u m b heq
    simp only [Bool.and_eq_true, tokB_iff, beq_iff_eq, branchOKB_iff] at hc
    obtain ⟨⟨⟨hu, rfl⟩, hb⟩, hbo⟩ := hc
    refine ⟨⟨u, some b, none⟩, canonVcs_mk u (some b) none hu ?_ (by simp), ?_⟩
    · intro y hy; simp only [Option.some.injEq] at hy; subst hy; exact ⟨hb, hbo⟩
    · rw [← join_splitOn ' ' t, heq]
      simp [ParsedVcs.print, branchPart, subPart, join, branchMark, dashB]
  · rename_i u m b x heq
    simp only [Bool.and_eq_true, tokB_iff, beq_iff_eq, branchOKB_iff] at hc
    obtain ⟨⟨⟨⟨hu, rfl⟩, hb⟩, hbo⟩, hx⟩ := hc
    obtain ⟨p, rfl, hp, hpb⟩ := subOK_shape x hx
    refine ⟨⟨u, some b, some p⟩, canonVcs_mk u (some b) (some p) hu ?_ ?_, ?_⟩
    · intro y hy; simp only [Option.some.injEq] at hy; subst hy; exact ⟨hb, hbo⟩
    · intro y hy; simp only [Option.some.injEq] at hy; subst hy; exact ⟨hp, hpb⟩
    · rw [← join_splitOn ' ' t, heq]
      simp [ParsedVcs.print, branchPart, subPart, join, branchMark, dashB]
  · simp at hc

theorem canonTextVcsNoBranch_image (t : Str) (hc : canonTextVcsNoBranch t = true) :
    ∃ u p, CanonVcs ⟨u, none, p⟩ ∧ ParsedVcs.print ⟨u, none, p⟩ = t := by
  unfold canonTextVcsNoBranch at hc
  split at hc
  · rename_i u heq
    rw [tokB_iff] at hc
    refine ⟨u, none, canonVcs_mk u none none hc (by simp) (by simp), ?_⟩
    rw [← join_splitOn ' ' t, heq]
    simp [ParsedVcs.print, branchPart, subPart, join]
  · rename_i u x heq
    simp only [Bool.and_eq_true, tokB_iff] at hc
    obtain ⟨p, rfl, hp, hpb⟩ := subOK_shape x hc.2
    refine ⟨u, some p, canonVcs_mk u none (some p) hc.1 (by simp) ?_, ?_⟩
    · intro y hy; simp only [Option.some.injEq] at hy; subst hy; exact ⟨hp, hpb⟩
    · rw [← join_splitOn ' ' t, heq]
      simp [ParsedVcs.print, branchPart, subPart, join]
  · simp at hc

/-- text side, VCS locations -/
theorem C18_parsedvcs_text (t : Str) (hc : canonTextVcs t = true) :
    (ParsedVcs.parse t).print = t ∧ CanonVcs (ParsedVcs.parse t) := by
  obtain ⟨v, hv, rfl⟩ := canonTextVcs_image t hc
  rw [C18_parsedvcs_roundtrip v hv]
  exact ⟨rfl, hv⟩

theorem nospace_bracket (p : Str) (hp : Tok p) : ' ' ∉ '[' :: (p ++ [']']) := by
  have := tok_no_space p hp.2
  intro hm
  simp only [List.mem_cons, List.mem_append, List.not_mem_nil, or_false] at hm
  rcases hm with hm | hm | hm
  · exact absurd hm (by decide)
  · exact this hm
  · exact absurd hm (by decide)

/-- the pieces of a printed canonical location -/
theorem parsedvcs_print_pieces (v : ParsedVcs) (h : CanonVcs v) :
    splitOn ' ' v.print =
      v.repoUrl :: ((match v.branch with | some b => [dashB, b] | none => [])
        ++ (match v.subpath with | some p => ['[' :: (p ++ [']'])] | none => [])) := by
  obtain ⟨u, b, p⟩ := v
  have hu := tok_no_space u h.url.2
  have hd : ' ' ∉ dashB := by decide
  cases b with
  | none =>
    cases p with
    | none =>
      simpa [ParsedVcs.print, branchPart, subPart] using splitOn_none ' ' u hu
    | some p =>
      have hp := (h.subpath p rfl).1
      have := splitOn_join ' ' [u, '[' :: (p ++ [']'])] (by simp) (by
        intro q hq
        simp only [List.mem_cons, List.not_mem_nil, or_false] at hq
        rcases hq with rfl | rfl
        · exact hu
        · exact nospace_bracket p hp)
      simpa [ParsedVcs.print, branchPart, subPart, join] using this
  | some b =>
    have hb := tok_no_space b (h.branch b rfl).1.2
    cases p with
    | none =>
      have := splitOn_join ' ' [u, dashB, b] (by simp) (by
        intro q hq
        simp only [List.mem_cons, List.not_mem_nil, or_false] at hq
        rcases hq with rfl | rfl | rfl
        · exact hu
        · exact hd
        · exact hb)
      simpa [ParsedVcs.print, branchPart, subPart, join, branchMark, dashB] using this
    | some p =>
      have hp := (h.subpath p rfl).1
      have := splitOn_join ' ' [u, dashB, b, '[' :: (p ++ [']'])] (by simp) (by
        intro q hq
        simp only [List.mem_cons, List.not_mem_nil, or_false] at hq
        rcases hq with rfl | rfl | rfl | rfl
        · exact hu
        · exact hd
        · exact hb
        · exact nospace_bracket p hp)
      simpa [ParsedVcs.print, branchPart, subPart, join, branchMark, dashB] using this

theorem C18_parsedvcs_print_canontext (v : ParsedVcs) (h : CanonVcs v) : canonTextVcs v.print = true := by
  have hs := parsedvcs_print_pieces v h
  obtain ⟨u, b, p⟩ := v
  unfold canonTextVcs
  rw [hs]
  cases b with
  | none =>
    cases p with
    | none => simpa [tokB_iff] using h.url
    | some p =>
      have hp := h.subpath p rfl
      simp only [List.nil_append, Bool.and_eq_true, tokB_iff]
      exact ⟨h.url, subOK_mk p hp.1 hp.2⟩
  | some b =>
    have hb := h.branch b rfl
    cases p with
    | none =>
      simp only [List.append_nil, Bool.and_eq_true, tokB_iff, beq_self_eq_true, branchOKB_iff]
      exact ⟨⟨⟨h.url, trivial⟩, hb.1⟩, hb.2⟩
    | some p =>
      have hp := h.subpath p rfl
      simp only [List.cons_append, List.nil_append, Bool.and_eq_true, tokB_iff, beq_self_eq_true, branchOKB_iff]
      exact ⟨⟨⟨⟨h.url, trivial⟩, hb.1⟩, hb.2⟩, subOK_mk p hp.1 hp.2⟩

theorem parsedvcs_print_canontext_nobranch (u : Str) (p : Option Str) (h : CanonVcs ⟨u, none, p⟩) :
    canonTextVcsNoBranch (ParsedVcs.print ⟨u, none, p⟩) = true := by
  have hs := parsedvcs_print_pieces _ h
  unfold canonTextVcsNoBranch
  rw [hs]
  cases p with
  | none => simpa [tokB_iff] using h.url
  | some p =>
    have hp := h.subpath p rfl
    simp only [List.nil_append, Bool.and_eq_true, tokB_iff]
    exact ⟨h.url, subOK_mk p hp.1 hp.2⟩

example : canonTextVcs "https://salsa.debian.org/x/y.git -b debian/sid [sub/dir]".toList = true := by
  decide +kernel

/-- outside `canonTextVcs`: surrounding white space is dropped, a subpath written before the branch
    is printed after it -/
theorem C18_parsedvcs_text_needs_trimmed :
    ParsedVcs.parse " a ".toList = ⟨"a".toList, none, none⟩
    ∧ ParsedVcs.print ⟨"a".toList, none, none⟩ = "a".toList
    ∧ canonTextVcs " a ".toList = false := by decide +kernel
theorem C18_parsedvcs_text_needs_branch_before_subpath :
    ParsedVcs.parse "a [s] -b c".toList = ⟨"a".toList, some "c".toList, some "s".toList⟩
    ∧ ParsedVcs.print ⟨"a".toList, some "c".toList, some "s".toList⟩ = "a -b c [s]".toList
    ∧ canonTextVcs "a [s] -b c".toList = false := by decide +kernel

/-! ## the `Vcs-*` field -/

/-- a canonical `Vcs-<name>` field: a known name; for Git a canonical location text, for Bzr one
    without branch; Hg, Svn and Cvs values are kept as they are -/
def canonTextVcsField (name value : Str) : Bool :=
  if name = nGit then canonTextVcs value
  else if name = nBzr then canonTextVcsNoBranch value
  else decide (name = nHg ∨ name = nSvn ∨ name = nCvs)

/-- text side, `Vcs-*` fields -/
theorem C18_vcs_text (name value : Str) (v : Vcs) (hc : canonTextVcsField name value = true)
    (hp : Vcs.fromField name value = some v) : v.toField = (name, value) ∧ CanonVcsField v := by
  obtain ⟨d1, d2, d3, d4, d5, d6, d7, d8, d9, d10, e1, e2, e3, e4, e5, e6, e7, e8, e9, e10⟩ := vcs_names_distinct
  unfold canonTextVcsField at hc
  unfold Vcs.fromField at hp
  by_cases hg : name = nGit
  · subst hg
    simp only [↓reduceIte, Option.some.injEq] at hc hp
    subst hp
    obtain ⟨pv, hpv, rfl⟩ := canonTextVcs_image value hc
    rw [C18_parsedvcs_roundtrip pv hpv]
    exact ⟨rfl, hpv⟩
  · simp only [hg, ↓reduceIte] at hc hp
    by_cases hb : name = nBzr
    · subst hb
      simp only [↓reduceIte] at hc hp
      obtain ⟨u, p, hpv, rfl⟩ := canonTextVcsNoBranch_image value hc
      rw [C18_parsedvcs_roundtrip _ hpv] at hp
      simp only [Option.isSome_none, Bool.false_eq_true, ↓reduceIte, Option.some.injEq] at hp
      subst hp
      simp only [Vcs.toField, CanonVcsField]
      refine ⟨?_, hpv⟩
      cases p <;> simp [ParsedVcs.print, branchPart, subPart]
    · simp only [hb, ↓reduceIte, decide_eq_true_eq] at hc hp
      by_cases hh : name = nHg
      · subst hh
        simp only [↓reduceIte, Option.some.injEq] at hp
        subst hp
        exact ⟨rfl, trivial⟩
      · simp only [hh, ↓reduceIte] at hp
        by_cases hsv : name = nSvn
        · subst hsv
          simp only [↓reduceIte, Option.some.injEq] at hp
          subst hp
          exact ⟨rfl, trivial⟩
        · simp only [hsv, ↓reduceIte] at hp
          have hcv : name = nCvs := by
            rcases hc with h | h | h
            · exact absurd h hh
            · exact absurd h hsv
            · exact h
          subst hcv
          simp only [↓reduceIte] at hp
          cases hs : splitOnFirst [' '] value with
          | none =>
            rw [hs] at hp
            simp only [Option.some.injEq] at hp
            subst hp
            exact ⟨rfl, splitOnFirst_none_notin ' ' value hs⟩
          | some r =>
            rw [hs] at hp
            simp only [Option.some.injEq] at hp
            subst hp
            have he := splitOnFirst_eq _ _ _ hs
            refine ⟨?_, splitOnFirst_left ' ' value r hs⟩
            simp only [Vcs.toField]
            rw [he]; simp

theorem C18_vcs_print_canontext (v : Vcs) (h : CanonVcsField v) :
    canonTextVcsField v.toField.1 v.toField.2 = true := by
  obtain ⟨d1, d2, d3, d4, d5, d6, d7, d8, d9, d10, e1, e2, e3, e4, e5, e6, e7, e8, e9, e10⟩ := vcs_names_distinct
  cases v with
  | git u b p =>
    simp only [CanonVcsField] at h
    simp only [Vcs.toField, canonTextVcsField, ↓reduceIte]
    exact C18_parsedvcs_print_canontext _ h
  | bzr u p =>
    simp only [CanonVcsField] at h
    simp only [Vcs.toField, canonTextVcsField, e1, ↓reduceIte]
    have := parsedvcs_print_canontext_nobranch u p h
    cases p <;> simpa [ParsedVcs.print, branchPart, subPart] using this
  | hg u => simp [Vcs.toField, canonTextVcsField, e2, e5]
  | svn u => simp [Vcs.toField, canonTextVcsField, e3, e6]
  | cvs r m => simp [Vcs.toField, canonTextVcsField, e4, e7]

example : canonTextVcsField "Git".toList "https://e.org/r -b main [sub]".toList = true
    ∧ Vcs.fromField "Git".toList "https://e.org/r -b main [sub]".toList
        = some (.git "https://e.org/r".toList (some "main".toList) (some "sub".toList))
    ∧ canonTextVcsField "Cvs".toList ":pserver:anon@cvs.example.org:/cvs mod ule".toList = true := by
  decide +kernel

/-- outside `canonTextVcsField`: a Git/Bzr value with surrounding white space is printed without it -/
theorem C18_vcs_text_needs_canonical_location :
    Vcs.fromField "Git".toList " a".toList = some (.git "a".toList none none)
    ∧ Vcs.toField (.git "a".toList none none) = ("Git".toList, "a".toList)
    ∧ canonTextVcsField "Git".toList " a".toList = false
    ∧ Vcs.fromField "Bzr".toList "a\n".toList = some (.bzr "a".toList none)
    ∧ Vcs.toField (.bzr "a".toList none) = ("Bzr".toList, "a".toList)
    ∧ canonTextVcsField "Bzr".toList "a\n".toList = false := by decide +kernel

/-- rejection, every name and every value: a field name outside `Git`, `Bzr`, `Hg`, `Svn`, `Cvs`
    (compared exactly) is an error — generalises `C18.C18_vcs_unknown_name_rejected` -/
theorem C18_vcs_rejects_unknown_name (name value : Str)
    (h : name ∉ ["Git".toList, "Bzr".toList, "Hg".toList, "Svn".toList, "Cvs".toList]) :
    Vcs.fromField name value = none := by
  simp only [List.mem_cons, List.not_mem_nil, or_false, not_or] at h
  obtain ⟨h1, h2, h3, h4, h5⟩ := h
  have g1 : name ≠ nGit := h1
  have g2 : name ≠ nBzr := h2
  have g3 : name ≠ nHg := h3
  have g4 : name ≠ nSvn := h4
  have g5 : name ≠ nCvs := h5
  simp only [Vcs.fromField, g1, g2, g3, g4, g5, ↓reduceIte]

example : Vcs.fromField "git".toList "u".toList = none ∧ Vcs.fromField "GIT".toList "u".toList = none
    ∧ Vcs.fromField "Git ".toList "u".toList = none ∧ Vcs.fromField [] "u".toList = none
    ∧ Vcs.fromField "Darcs".toList "u".toList = none ∧ Vcs.fromField "Mtn".toList "u".toList = none := by
  decide +kernel

/-- … and no default: an accepted field keeps its name -/
theorem C18_vcs_name_faithful (name value : Str) (v : Vcs) (h : Vcs.fromField name value = some v) :
    v.toField.1 = name := by
  unfold Vcs.fromField at h
  by_cases hg : name = nGit
  · subst hg
    simp only [↓reduceIte, Option.some.injEq] at h
    subst h; rfl
  · simp only [hg, ↓reduceIte] at h
    by_cases hb : name = nBzr
    · subst hb
      simp only [↓reduceIte] at h
      split at h
      · simp at h
      · simp only [Option.some.injEq] at h
        subst h; rfl
    · simp only [hb, ↓reduceIte] at h
      by_cases hh : name = nHg
      · subst hh
        simp only [↓reduceIte, Option.some.injEq] at h
        subst h; rfl
      · simp only [hh, ↓reduceIte] at h
        by_cases hsv : name = nSvn
        · subst hsv
          simp only [↓reduceIte, Option.some.injEq] at h
          subst h; rfl
        · simp only [hsv, ↓reduceIte] at h
          by_cases hcv : name = nCvs
          · subst hcv
            simp only [↓reduceIte] at h
            split at h <;> (simp only [Option.some.injEq] at h; subst h; rfl)
          · simp [hcv] at h

/-! ## audit of the witnesses of `Props/C18.lean`

Of its 41 witnesses, three are true only through the `getD []` of `priorityText` / `categoryText`
on a variant NAME that is not a variant — a value that does not exist in Rust (the field is an
`enum`): `C18_changesfile_needs_priority_variant`, `C18_pkgentry_needs_priority_variant`,
`C18_originfield_needs_category_variant`.  What they are meant to say is a typing fact about the
model's representation (variants by name), restated here without the fall-back: such a name has
no printed form at all.  Three more speak of the size `2^64`, which is not a `usize`
(`C18_usize_bound_needed`, `C18_checksum_needs_size_bound`, `C18_changesfile_needs_size_bound`);
they are restated on the TEXT.  Four are stated with `≠ some v`; they are restated with the actual
result.  The remaining ones already give the actual parse result of a value that exists. -/

theorem printOf_none_of_not_variant (e : EnumSpec) (hk : ∀ k ∈ e.printTab.map (·.1), k ∈ e.variants)
    (v : Str) (hv : v ∉ e.variants) : printOf e v = none :=
  lookup_none_of_not_mem _ _ (fun hm => hv (hk v hm))

/-- the conjunct `priority ∈ variants` of `CanonChangesFile` / `CanonPkgEntry` (and the category
    conjunct of `CanonOriginField`, the keyword conjunct of `CanonForwarded`) is the TYPE of the Rust
    field: a name outside the `enum` has no printed form — there is no such value to print -/
theorem C18_variant_typing :
    (∀ v, v ∉ Gen.Enums.priority.variants → printOf Gen.Enums.priority v = none)
    ∧ (∀ v, v ∉ Gen.Enums.originCategory.variants → printOf Gen.Enums.originCategory v = none)
    ∧ (∀ v, v ∉ Gen.Enums.forwarded.variants → printOf Gen.Enums.forwarded v = none) :=
  ⟨printOf_none_of_not_variant _ (by decide), printOf_none_of_not_variant _ (by decide),
    printOf_none_of_not_variant _ (by decide)⟩

example : "Bogus".toList ∉ Gen.Enums.priority.variants ∧ printOf Gen.Enums.priority "Bogus".toList = none
    ∧ printOf Gen.Enums.originCategory "Bogus".toList = none := by decide

/-- … conversely every variant has one (so the `getD` of the model never fires on a value that exists) -/
theorem C18_variant_prints :
    (∀ v ∈ Gen.Enums.priority.variants, (printOf Gen.Enums.priority v).isSome = true)
    ∧ (∀ v ∈ Gen.Enums.originCategory.variants, (printOf Gen.Enums.originCategory v).isSome = true)
    ∧ (∀ v ∈ Gen.Enums.forwarded.variants, (printOf Gen.Enums.forwarded v).isSome = true) := by decide

/-- the size bound on the TEXT: `2^64 - 1` is accepted, `2^64` is an error -/
theorem C18_record_size_bound_text :
    Checksum.parse "h 18446744073709551615 f".toList = some ⟨"h".toList, 18446744073709551615, "f".toList⟩
    ∧ Checksum.parse "h 18446744073709551616 f".toList = none
    ∧ ChangesFile.parse "m 18446744073709551615 s optional f".toList
        = some ⟨"m".toList, 18446744073709551615, "s".toList, "Optional".toList, "f".toList⟩
    ∧ ChangesFile.parse "m 18446744073709551616 s optional f".toList = none := by decide +kernel

/-- the four `≠`-witnesses with the actual results: an empty hash leaves two tokens (error), a hash
    with a space shifts a non-number into the size position (error), a file name with a space is cut
    at the space -/
theorem C18_checksum_needs_actual :
    Checksum.print ⟨[], 1, "f".toList⟩ = " 1 f".toList ∧ Checksum.parse " 1 f".toList = none
    ∧ Checksum.print ⟨"a b".toList, 1, "f".toList⟩ = "a b 1 f".toList ∧ Checksum.parse "a b 1 f".toList = none
    ∧ Checksum.print ⟨"h".toList, 1, "a b".toList⟩ = "h 1 a b".toList
    ∧ Checksum.parse "h 1 a b".toList = some ⟨"h".toList, 1, "a".toList⟩ := by decide +kernel
theorem C18_changesfile_needs_actual :
    ChangesFile.print ⟨"m".toList, 1, "s".toList, "Optional".toList, "a b".toList⟩ = "m 1 s optional a b".toList
    ∧ ChangesFile.parse "m 1 s optional a b".toList
        = some ⟨"m".toList, 1, "s".toList, "Optional".toList, "a".toList⟩ := by decide +kernel

end Deb822Verif.Props.C18Text
