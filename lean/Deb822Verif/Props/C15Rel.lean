import Deb822Verif.Props.C15
import Deb822Verif.Props.C10
import Deb822Verif.Lemmas.RelDedent
/-!
# C15 through C10 — relationship-typed accessors: the VALUE that comes back, not only its text

`Props/C15.lean` represents a `Relations` value by its printed text (`Val.text`): its set/get theorems
say that the getter sees the text the setter wrote.  Here the text is read by the model of the real
`Relations::from_str` (`Rel.readStrict` = `parse(s, false)`, `Ok` iff no error — what every
relations getter of the table calls, followed by `unwrap()`), and C10 (`C10_parse_inverts`,
`accEntries_field`) gives the parsed value: for a well-formed relationship field `f : FieldA`
(any layout: gaps with spaces, tabs, CRs, newlines wherever the grammar allows one)

    set_X(f)  then  X()   is the tree `f.tree`, whose accessors expose `f.view`
                          (entries → alternatives → name, archqual, version, architectures, profiles).

Multi-line texts.  `Paragraph::set` lays the value out with `Entry::new`: one VALUE token per
`\n`-separated line, an INDENT token `" "` before every line but the first; `Entry::value()` joins
the VALUE tokens with `\n` and never looks at INDENT tokens.  So on the TREE the getter reads back
exactly `f.str`, whatever the layout (`C15_set_get` has no hypothesis on the value) — that is the
statement of section 2.  What a later READER of the printed document sees is a different matter:
section 4 (`C15_rel_set_reread*`) covers it for the texts `Entry::new` can lay out so that they read
back (`ValidValue`, the domain of the C04 re-read theorems), and section 5 treats paragraphs that
come out of the parser: there the value is the field's lines with the indentation REMOVED
(`C03_lookup`), i.e. the text of another layout of the same field.
-/
namespace Deb822Verif.Props.C15
open Deb822Verif Deb Node Text Typed RelSpec
open Deb822Verif.Props.C04

/-! ## 1 — the rows of the relations shape -/

def relTy : Str := "Relations".toList

/-- rows whose Rust type is `Relations` (codec shape `typed "Relations"`) -/
def isRelRow (r : Row) : Bool := r.shape == .typed relTy

/-- what a relations getter returns (`self.0.get(NAME).map(|s| s.parse().unwrap())`):
    `none` = `None`; `some (.error _)` = the `unwrap()` panics; `some (.ok t)` = the value, as its
    syntax tree (`Relations` is a handle on the lossless tree) -/
def relGet (g : Row) (cs : List DNode) : Option (Except (List String) Rel.RNode) :=
  (firstOf cs g.names).map Rel.readStrict

/-- the value read with `Relations::parse_relaxed(text, true)` — what a caller who wants
    substitution variables does with the field text -/
def relGetRelaxed (g : Row) (cs : List DNode) : Option (Rel.RNode × List String) :=
  (firstOf cs g.names).map fun raw => Rel.readRelaxed raw true

theorem tyParse_rel (raw : Str) : tyParse relTy raw = .unknown := by
  have e1 : (relTy = "Priority".toList) = False := by decide
  have e2 : (relTy = "MultiArch".toList) = False := by decide
  have e3 : (relTy = "Urgency".toList) = False := by decide
  have e4 : (relTy = "usize".toList) = False := by decide
  have e5 : checksumTypes.contains relTy = false := by decide
  have e6 : (relTy = "File".toList) = False := by decide
  have e7 : (relTy = "Forwarded".toList) = False := by decide
  have e8 : (relTy = "AppliedUpstream".toList) = False := by decide
  simp only [tyParse, e1, e2, e3, e4, e5, e6, e7, e8, ↓reduceIte, Bool.false_eq_true]

/-- `relGet` refines the C15 getter semantics of a relations row: `getSem` (with `assume`) returns
    the field text exactly where `relGet` returns the reading of that text, and both report absence
    together -/
theorem relGet_refines (g : Row) (hr : isRelRow g = true) (hop : g.op = .get) (cs : List DNode) :
    (∀ raw, firstOf cs g.names = some raw →
        getSem g true cs = .text raw ∧ relGet g cs = some (Rel.readStrict raw)
          ∧ relGetRelaxed g cs = some (Rel.readRelaxed raw true))
    ∧ (firstOf cs g.names = none → getSem g true cs = absentVal g ∧ relGet g cs = none) := by
  have hs : g.shape = .typed relTy := by simpa [isRelRow] using hr
  refine ⟨fun raw h => ⟨?_, ?_, ?_⟩, fun h => ⟨?_, ?_⟩⟩
  · simp [getSem, hop, h, hs, decode, tyVal, tyParse_rel]
  · simp [relGet, h]
  · simp [relGetRelaxed, h]
  · simp [getSem, hop, h]
  · simp [relGet, h]

/-- the table conditions for a relations getter -/
def relGetterOk (r : Row) : Bool :=
  r.op == .get && r.strict && r.absent == .none && r.names.length == 1
    && (match setterOf r with
        | none => true
        | some s => isRelRow s && !isBad s && !unmodelledShape s && pairOk r s)

/-- … and for a relations setter -/
def relSetterOk (r : Row) : Bool :=
  !isBad r
    && (match findRow r.view (baseName r.method) with
        | none => false
        | some g => isRelRow g && g.kind == .get && setterOf g == some r)

def relTableCheck : Bool :=
  Gen.Accessors.rows.all fun r =>
    !isRelRow r || (r.kind == .get && relGetterOk r) || (r.kind == .set && relSetterOk r)

/-- every row of the relations shape is either a getter — `get` of ONE name, `from_str` + `unwrap()`
    (strict), `None` on an absent field, and when the view has `set_<name>`, that row is a relations
    setter satisfying the pair conditions of `C15_table_pairs` — or a setter outside `knownBad` that
    is the `set_<name>` of a relations getter of the same view -/
theorem C15_rel_table : relTableCheck = true := by decide +kernel

/-- the relations getters that have a setter -/
def relPairs : List (Row × Row) :=
  Gen.Accessors.rows.filterMap fun g =>
    if isRelRow g && g.kind == .get then (setterOf g).map fun s => (g, s) else none

/-- 33 relations getters, 28 of them with a setter (control `Source`: only `build_depends` has one) -/
theorem C15_rel_pairs_count : relPairs.length = 28
    ∧ (Gen.Accessors.rows.filter fun r => isRelRow r && r.kind == .get).length = 33 := by
  decide +kernel

theorem rel_row_facts (g : Row) (hg : g ∈ Gen.Accessors.rows) (hr : isRelRow g = true) (hk : g.kind = .get) :
    g.op = .get ∧ g.strict = true ∧ g.absent = .none ∧ (∃ k, g.names = [k])
      ∧ ∀ s, setterOf g = some s → isRelRow s = true ∧ isBad s = false ∧ pairOk g s = true := by
  have h := C15_rel_table
  simp only [relTableCheck, List.all_eq_true] at h
  have h := h g hg
  have hks : (g.kind == Kind.set) = false := by rw [hk]; decide
  have hkg : (g.kind == Kind.get) = true := by rw [hk]; decide
  rw [hr, hks, hkg] at h
  simp only [Bool.not_true, Bool.false_or, Bool.false_and, Bool.or_false, Bool.true_and] at h
  simp only [relGetterOk, Bool.and_eq_true, beq_iff_eq] at h
  obtain ⟨⟨⟨⟨hop, hst⟩, hab⟩, hlen⟩, hset⟩ := h
  refine ⟨hop, hst, hab, ?_, ?_⟩
  · cases hn : g.names with
    | nil => rw [hn] at hlen; cases hlen
    | cons k ks =>
      cases ks with
      | nil => exact ⟨k, rfl⟩
      | cons _ _ => rw [hn] at hlen; simp at hlen
  · intro s hs
    rw [hs] at hset
    simp only [Bool.and_eq_true, Bool.not_eq_true'] at hset
    exact ⟨hset.1.1.1, hset.1.1.2, hset.2⟩

/-! ## 2 — set then get, on the tree: every prior paragraph, every layout of the field -/

/-- the parsed value of the text of a well-formed field: `from_str` succeeds when the field has no
    substitution variable, `parse_relaxed(_, true)` reports no error in any case; the tree is
    `f.tree`, whose accessors expose `f.view` and `f.substvars` (C10) -/
theorem rel_value (f : FieldA) (hwf : f.WF) :
    (f.hasSubstvar = false → Rel.readStrict f.str = .ok f.tree)
    ∧ Rel.readRelaxed f.str true = (f.tree, [])
    ∧ Rel.accEntries f.tree = some f.view
    ∧ Rel.substvars f.tree = f.substvars :=
  ⟨fun hsv => C10.C10_strict f hwf hsv, (C10.C10_lossless f hwf true (Or.inl rfl)).1,
    Rel.accEntries_field f hwf, Rel.substvars_field f⟩

theorem substvars_nil (f : FieldA) (hsv : f.hasSubstvar = false) : f.substvars = [] := by
  simp only [FieldA.hasSubstvar, List.any_eq_false] at hsv
  simp only [FieldA.substvars, List.filterMap_eq_nil_iff]
  intro s hs
  have := hsv s hs
  cases he : s.entry with
  | substvar p ps => rw [he] at this; simp [EntryA.isSubstvar] at this
  | alts r rest => rfl
  | empty => rfl

/-- what the setter of a relations pair does with the text `t`: ONE `Paragraph::set` on its one
    name; the getter then sees `t` -/
theorem rel_pair_step (g : Row) (hg : g ∈ Gen.Accessors.rows) (hk : g.kind = .get) (hr : isRelRow g = true)
    (s : Row) (hs : setterOf g = some s) (cs : List DNode) (t : Str) :
    ∃ k, g.names = [k] ∧ s.names = [k]
      ∧ setSem s (.text t) cs = some (paraSet cs k t)
      ∧ firstOf (paraSet cs k t) g.names = some t
      ∧ getSem g true (paraSet cs k t) = .text t := by
  obtain ⟨hop, _, _, ⟨k0, hk0⟩, hset⟩ := rel_row_facts g hg hr hk
  obtain ⟨hrs, _, hp⟩ := hset s hs
  obtain ⟨k, hkt, hmem, hnames, h1, _⟩ := C15_pair_sound g s hp cs (.text t) true
  have hsn : s.names = [k0] := by rw [← hnames, hk0]
  have hkk : k = k0 := by rw [hsn] at hmem; simpa using hmem
  subst hkk
  have hsh : s.shape = .typed relTy := by simpa [isRelRow] using hrs
  have hw : writeText s.shape (firstOf cs s.names) (.text t) = some t := by rw [hsh]; rfl
  obtain ⟨e1, e2, e3⟩ := h1 t (by simp [clears]) hw
  refine ⟨k, hk0, hsn, e1, ?_, ?_⟩
  · rw [hk0, firstOf_single]; exact e2
  · have := (relGet_refines g hr hop (paraSet cs k t)).1 t (by rw [hk0, firstOf_single]; exact e2)
    exact this.1

/-- **set then get, as a value** (strict getter).  For every relations getter `g` of the table with
    a setter `s`, every prior paragraph `cs` (field present or not, any other content) and every
    well-formed relationship field `f` without substitution variable, in ANY layout: after
    `set_X(f)` — one `Paragraph::set(k, f.str)` — the getter `X()` finds the text `f.str`,
    `from_str` accepts it (the `unwrap()` does not fire), and the value is the tree `f.tree`, whose
    accessors expose exactly `f.view`: the entries, alternatives, names, architecture qualifiers,
    version constraints, architecture lists and profile groups of `f`; no substitution variables. -/
theorem C15_rel_set_then_get (g : Row) (hg : g ∈ Gen.Accessors.rows) (hk : g.kind = .get)
    (hr : isRelRow g = true) (s : Row) (hs : setterOf g = some s) (cs : List DNode)
    (f : FieldA) (hwf : f.WF) (hsv : f.hasSubstvar = false) :
    ∃ k cs', g.names = [k] ∧ s.names = [k]
      ∧ setSem s (.text f.str) cs = some cs' ∧ cs' = paraSet cs k f.str
      ∧ getSem g true cs' = .text f.str
      ∧ relGet g cs' = some (.ok f.tree)
      ∧ Rel.accEntries f.tree = some f.view
      ∧ Rel.substvars f.tree = [] := by
  obtain ⟨k, h1, h2, h3, h4, h5⟩ := rel_pair_step g hg hk hr s hs cs f.str
  obtain ⟨v1, _, v3, v4⟩ := rel_value f hwf
  refine ⟨k, _, h1, h2, h3, rfl, h5, ?_, v3, ?_⟩
  · simp [relGet, h4, v1 hsv]
  · rw [v4, substvars_nil f hsv]

/-- **set then get, as a value** (any well-formed field, substitution variables included): the
    field text the getter's `get` finds is `f.str`, and `Relations::parse_relaxed(text, true)` reads
    it without error as `f.tree`, exposing `f.view` and the substitution variables of `f` -/
theorem C15_rel_set_then_get_relaxed (g : Row) (hg : g ∈ Gen.Accessors.rows) (hk : g.kind = .get)
    (hr : isRelRow g = true) (s : Row) (hs : setterOf g = some s) (cs : List DNode)
    (f : FieldA) (hwf : f.WF) :
    ∃ k cs', g.names = [k] ∧ s.names = [k]
      ∧ setSem s (.text f.str) cs = some cs' ∧ cs' = paraSet cs k f.str
      ∧ getSem g true cs' = .text f.str
      ∧ relGetRelaxed g cs' = some (f.tree, [])
      ∧ Rel.accEntries f.tree = some f.view
      ∧ Rel.substvars f.tree = f.substvars := by
  obtain ⟨k, h1, h2, h3, h4, h5⟩ := rel_pair_step g hg hk hr s hs cs f.str
  obtain ⟨_, v2, v3, v4⟩ := rel_value f hwf
  refine ⟨k, _, h1, h2, h3, rfl, h5, ?_, v3, v4⟩
  simp [relGetRelaxed, h4, v2]

/-! ## 3 — substitution variables: the strict getters panic -/

theorem rootLoop_dollar_errs (t : Rel.Tok) (r : List Rel.Tok) (ht : t.1 = Rel.Kind.DOLLAR) :
    (Rel.rootLoop false (t :: r)).errs ≠ [] := by
  have h1 : (Rel.rootFirst false t r).errs = ["Substvars are not allowed"] := by
    simp [Rel.rootFirst, ht, Rel.errorTok]
  rw [Rel.rootLoop]
  split
  · simp [h1]
  · simp [h1]

/-- a substitution variable anywhere in the field makes the parser report an error when they are
    not allowed -/
theorem rootLoop_substvar_errs (s : Seg) (ss : List Seg) (hok : ∀ x ∈ s :: ss, x.ok = true)
    (hsv : ∃ x ∈ s :: ss, x.entry.isSubstvar = true) :
    (Rel.rootLoop false (Rel.bodyToks s ++ Rel.tailToks ss)).errs ≠ [] := by
  induction ss generalizing s with
  | nil =>
    obtain ⟨x, hx, hxs⟩ := hsv
    simp only [List.mem_singleton] at hx
    subst hx
    cases he : x.entry with
    | substvar p ps =>
      simp only [Rel.bodyToks, he, EntryA.toks, substvarToks, List.cons_append]
      exact rootLoop_dollar_errs _ _ rfl
    | alts r rest => rw [he] at hxs; simp [EntryA.isSubstvar] at hxs
    | empty => rw [he] at hxs; simp [EntryA.isSubstvar] at hxs
  | cons u us ih =>
    cases hss : s.entry.isSubstvar with
    | true =>
      cases he : s.entry with
      | substvar p ps =>
        simp only [Rel.bodyToks, he, EntryA.toks, substvarToks, List.cons_append]
        exact rootLoop_dollar_errs _ _ rfl
      | alts r rest => rw [he] at hss; simp [EntryA.isSubstvar] at hss
      | empty => rw [he] at hss; simp [EntryA.isSubstvar] at hss
    | false =>
      have hsv' : ∃ x ∈ u :: us, x.entry.isSubstvar = true := by
        obtain ⟨x, hx, hxs⟩ := hsv
        simp only [List.mem_cons] at hx
        rcases hx with rfl | hx
        · rw [hss] at hxs; cases hxs
        · exact ⟨x, by simpa using hx, hxs⟩
      have ih' := ih u (fun x hx => hok x (List.mem_cons_of_mem _ hx)) hsv'
      have hs := hok s (by simp)
      have hu := hok u (by simp)
      obtain ⟨_, _, _, h4⟩ := (Rel.Seg.ok_iff s).1 hs
      have hy : Rel.NoWs (Rel.bodyToks u ++ Rel.tailToks us) := Rel.bodyToks_noWs u hu us
      have etail : Rel.tailToks (u :: us) = commaTok :: (gapToks u.pre ++ (Rel.bodyToks u ++ Rel.tailToks us)) := by
        simp [Rel.tailToks]
      have hp : Rel.segParseOk false s := by intro h; rw [hss] at h; cases h
      cases hemp : s.entry.isEmpty with
      | true =>
        have hpost : s.post = [] := h4 hemp
        have he : s.entry = .empty := by cases h : s.entry <;> simp [h, EntryA.isEmpty] at hemp; rfl
        have h1 : Rel.rootFirst false commaTok (gapToks u.pre ++ (Rel.bodyToks u ++ Rel.tailToks us))
            = ⟨[], [], commaTok :: (gapToks u.pre ++ (Rel.bodyToks u ++ Rel.tailToks us))⟩ := by
          simp [Rel.rootFirst, commaTok, Rel.PR.nil]
        have h2 := Rel.skipWs_noWs (commaTok :: (gapToks u.pre ++ (Rel.bodyToks u ++ Rel.tailToks us))) (Rel.noWs_cons _ _ rfl)
        have := Rel.rootLoop_step false _ _ _ _ _ u.pre _ hy h1 h2
        have e' : Rel.bodyToks s ++ Rel.tailToks (u :: us) = commaTok :: (gapToks u.pre ++ (Rel.bodyToks u ++ Rel.tailToks us)) := by
          simp [Rel.bodyToks, he, EntryA.toks, hpost, gapToks, etail]
        rw [e', this]
        exact ih'
      | false =>
        obtain ⟨t, r, x, n1, n2, e, h1, h2, _⟩ :=
          Rel.seg_head false s hp hemp (Rel.tailToks (u :: us)) (Rel.tailToks_entryEnd _)
        rw [etail] at h2
        have := Rel.rootLoop_step false t r n1 n2 x u.pre _ hy h1 h2
        rw [e, this]
        exact ih'

/-- `Relations::from_str` REJECTS every well-formed field that contains a substitution variable
    (`${misc:Depends}` …): the strict reader returns its non-empty error list -/
theorem readStrict_substvar (f : FieldA) (hwf : f.WF) (hsv : f.hasSubstvar = true) :
    ∃ errs, errs ≠ [] ∧ Rel.readStrict f.str = .error errs := by
  have hok : ∀ s ∈ f.segs, s.ok = true := by
    simpa [FieldA.WF, FieldA.ok, List.all_eq_true] using hwf
  have hex : ∃ x ∈ f.segs, x.entry.isSubstvar = true := by
    simpa [FieldA.hasSubstvar] using hsv
  have herr : (Rel.parse f.str false).errors ≠ [] := by
    unfold Rel.parse
    rw [Rel.lex_field f hwf]
    cases hsegs : f.segs with
    | nil => rw [hsegs] at hex; simp at hex
    | cons s ss =>
      rw [hsegs] at hok hex
      have h1 := Rel.skipWs_gap s.pre (Rel.bodyToks s ++ Rel.tailToks ss) (Rel.bodyToks_noWs s (hok s (by simp)) ss)
      have h2 := rootLoop_substvar_errs s ss hok hex
      simp only [Rel.parseTokens, FieldA.toks, hsegs, Rel.segsToks_eq, h1]
      exact h2
  refine ⟨(Rel.parse f.str false).errors, herr, ?_⟩
  unfold Rel.readStrict
  have : (Rel.parse f.str false).errors.isEmpty = false := by
    cases h : (Rel.parse f.str false).errors with
    | nil => exact absurd h herr
    | cons _ _ => rfl
  simp [this]

/-- **the strict getters panic on their own setter's output** when the value contains a
    substitution variable: for every relations pair of the table, every prior paragraph and every
    well-formed field `f` with a `${…}` entry, `set_X(f)` then `X()` runs `from_str(f.str).unwrap()`
    on an `Err` (these getters are entries of `knownPanic`; control `Binary::depends()` on the usual
    `${shlibs:Depends}, ${misc:Depends}` is the everyday instance).  The relaxed reading of the same
    text is `C15_rel_set_then_get_relaxed`. -/
theorem C15_rel_substvar_panics (g : Row) (hg : g ∈ Gen.Accessors.rows) (hk : g.kind = .get)
    (hr : isRelRow g = true) (s : Row) (hs : setterOf g = some s) (cs : List DNode)
    (f : FieldA) (hwf : f.WF) (hsv : f.hasSubstvar = true) :
    ∃ cs' errs, setSem s (.text f.str) cs = some cs' ∧ errs ≠ [] ∧ relGet g cs' = some (.error errs)
      ∧ knownPanic.contains (g.view, g.method) = true := by
  obtain ⟨k, h1, h2, h3, h4, h5⟩ := rel_pair_step g hg hk hr s hs cs f.str
  obtain ⟨errs, he, hre⟩ := readStrict_substvar f hwf hsv
  refine ⟨_, errs, h3, he, by simp [relGet, h4, hre], ?_⟩
  have : ∀ r ∈ Gen.Accessors.rows, isRelRow r = true → r.kind = .get →
      knownPanic.contains (r.view, r.method) = true := by decide +kernel
  exact this g hg hr hk

/-! ### non-vacuity -/

/-- `debhelper-compat (= 13), libfoo-dev:any (>= 1.2~rc1) [amd64 !i386] <!nocheck> | bar` -/
def exRel : FieldA :=
  ⟨[ ⟨[], .alts ⟨"debhelper-compat".toList, none,
        some ⟨[.ws [' ']], [], .Equal, [.ws [' ']], ⟨none, "13".toList⟩, []⟩, none, []⟩ [], []⟩,
     ⟨[.ws [' ']], .alts
        ⟨"libfoo-dev".toList, some "any".toList,
          some ⟨[.ws [' ']], [], .GreaterThanEqual, [.ws [' ']], ⟨none, "1.2~rc1".toList⟩, []⟩,
          some ⟨[.ws [' ']], [⟨[], false, "amd64".toList⟩, ⟨[.ws [' ']], true, "i386".toList⟩], []⟩,
          [⟨[.ws [' ']], [⟨[], true, "nocheck".toList⟩], []⟩]⟩
        [⟨[.ws [' ']], [.ws [' ']], ⟨"bar".toList, none, none, none, []⟩⟩], []⟩ ]⟩

example : exRel.str =
    "debhelper-compat (= 13), libfoo-dev:any (>= 1.2~rc1) [amd64 !i386] <!nocheck> | bar".toList := by
  decide +kernel

example : exRel.WF ∧ exRel.hasSubstvar = false := by decide +kernel

/-- what the getter's value exposes for the example -/
example : exRel.view =
    [[⟨"debhelper-compat".toList, none, none, some (.Equal, ⟨none, "13".toList, none⟩), []⟩],
     [⟨"libfoo-dev".toList, some "any".toList, some ["amd64".toList, "!i386".toList],
        some (.GreaterThanEqual, ⟨none, "1.2~rc1".toList, none⟩), [[.Disabled "nocheck".toList]]⟩,
      ⟨"bar".toList, none, none, none, []⟩]] := by decide +kernel

/-- the same field folded over three lines with a tab and two spaces of indentation, a trailing
    comma, and `${misc:Depends}`:
    `debhelper-compat (= 13),\n\tlibfoo-dev:any (>= 1.2~rc1) [amd64 !i386] <!nocheck>\n  | bar,\n ${misc:Depends},` -/
def exRelFolded : FieldA :=
  ⟨[ ⟨[], .alts ⟨"debhelper-compat".toList, none,
        some ⟨[.ws [' ']], [], .Equal, [.ws [' ']], ⟨none, "13".toList⟩, []⟩, none, []⟩ [], []⟩,
     ⟨[.nl, .ws ['\t']], .alts
        ⟨"libfoo-dev".toList, some "any".toList,
          some ⟨[.ws [' ']], [], .GreaterThanEqual, [.ws [' ']], ⟨none, "1.2~rc1".toList⟩, []⟩,
          some ⟨[.ws [' ']], [⟨[], false, "amd64".toList⟩, ⟨[.ws [' ']], true, "i386".toList⟩], []⟩,
          [⟨[.ws [' ']], [⟨[], true, "nocheck".toList⟩], []⟩]⟩
        [⟨[.nl, .ws "  ".toList], [.ws [' ']], ⟨"bar".toList, none, none, none, []⟩⟩], []⟩,
     ⟨[.nl, .ws [' ']], .substvar "misc".toList ["Depends".toList], []⟩,
     ⟨[], .empty, []⟩ ]⟩

example : exRelFolded.str =
    "debhelper-compat (= 13),\n\tlibfoo-dev:any (>= 1.2~rc1) [amd64 !i386] <!nocheck>\n  | bar,\n ${misc:Depends},".toList := by
  decide +kernel

example : exRelFolded.WF ∧ exRelFolded.hasSubstvar = true ∧ exRelFolded.view = exRel.view
    ∧ exRelFolded.substvars = ["${misc:Depends}".toList] := by decide +kernel

/-- the row hypotheses are satisfiable: control `Source::build_depends` / `set_build_depends`
    (and 27 more pairs, `C15_rel_pairs_count`) -/
example : ∃ g s, g ∈ Gen.Accessors.rows ∧ g.kind = .get ∧ isRelRow g = true ∧ setterOf g = some s
    ∧ g.view = "control.Source".toList ∧ g.method = "build_depends".toList
    ∧ s.method = "set_build_depends".toList := by
  refine ⟨(findRow "control.Source".toList "build_depends".toList).get (by decide +kernel),
    (findRow "control.Source".toList "set_build_depends".toList).get (by decide +kernel), ?_⟩
  decide +kernel

/-- … and control `Binary::depends` / `set_depends` -/
example : ∃ g s, g ∈ Gen.Accessors.rows ∧ g.kind = .get ∧ isRelRow g = true ∧ setterOf g = some s
    ∧ g.view = "control.Binary".toList ∧ g.names = ["Depends".toList] ∧ s.optional = true := by
  refine ⟨(findRow "control.Binary".toList "depends".toList).get (by decide +kernel),
    (findRow "control.Binary".toList "set_depends".toList).get (by decide +kernel), ?_⟩
  decide +kernel

/-! ## 4 — set, PRINT, read again

`Entry::new` writes every line after the first behind one space.  For a value whose lines are
non-empty, free of CR and do not start with a space, a tab or (after the first) `#` — `ValidValue`,
the domain of the C04 re-read theorems; it contains every non-empty value the lossless reader
returns for a well-formed document (`validValue_parsed`) — the printed paragraph reads back with
exactly that value.  (A text with indentation of its own, `"a,\n b"`, is laid out as `"a,\n  b"` and
reads back as `"a,\nb"`: another layout of the same field, see section 5.) -/

/-- the names of the relations rows are valid deb822 field names -/
theorem C15_rel_names_valid :
    ∀ r ∈ Gen.Accessors.rows, isRelRow r = true → ∀ k ∈ r.names, Spec.ValidKey k := by decide +kernel

/-- the reading of a relations getter on a paragraph node whose field `k` has the text of a
    well-formed field -/
theorem rel_get_on (g : Row) (hr : isRelRow g = true) (hop : g.op = .get) (k : Str) (hn : g.names = [k])
    (cs : List DNode) (f : FieldA) (hwf : f.WF) (h : lget (pitems cs) k = some f.str) :
    getSem g true cs = .text f.str
      ∧ relGetRelaxed g cs = some (f.tree, [])
      ∧ (f.hasSubstvar = false → relGet g cs = some (.ok f.tree)) := by
  have hf : firstOf cs g.names = some f.str := by rw [hn, firstOf_single, C15_refine_get]; exact h
  obtain ⟨e1, e2, e3⟩ := (relGet_refines g hr hop cs).1 f.str hf
  obtain ⟨v1, v2, _, _⟩ := rel_value f hwf
  exact ⟨e1, by rw [e3, v2], fun hsv => by rw [e2, v1 hsv]⟩

theorem para_node_eta (p : Spec.ParaS) : Node.node Kind.PARAGRAPH p.node.children = p.node := rfl

/-- **set, print, parse, get** on a paragraph that is the parse of a well-formed paragraph `p`: for
    a well-formed field `f` whose text is a `ValidValue`, the paragraph printed after `set_X(f)` is
    accepted by the deb822 reader without error, it has one paragraph `q`, the getter on `q` finds the
    text `f.str` again and its value is `f.tree` exposing `f.view` (strict reading when `f` has no
    substitution variable, relaxed reading in any case); every other field of `q` reads as in `p` -/
theorem C15_rel_set_reread (g : Row) (hg : g ∈ Gen.Accessors.rows) (hk : g.kind = .get)
    (hr : isRelRow g = true) (s : Row) (hs : setterOf g = some s)
    (p : Spec.ParaS) (hp : p.WF) (ht : p.Term false)
    (f : FieldA) (hwf : f.WF) (hv : Spec.ValidValue f.str) :
    ∃ k cs', g.names = [k] ∧ setSem s (.text f.str) p.node.children = some cs'
      ∧ ∃ d : Spec.DocS, d.WF ∧ d.str = textList cs' ∧ Deb.parse (textList cs') = ⟨d.tree, []⟩
        ∧ ∃ q : Spec.ParaS, paragraphs d.tree = [q.node]
          ∧ getSem g true q.node.children = .text f.str
          ∧ relGetRelaxed g q.node.children = some (f.tree, [])
          ∧ (f.hasSubstvar = false → relGet g q.node.children = some (.ok f.tree))
          ∧ (∀ k', k' ≠ k → Deb.get q.node k' = Deb.get p.node k')
          ∧ Rel.accEntries f.tree = some f.view ∧ Rel.substvars f.tree = f.substvars := by
  obtain ⟨hop, _, _, _, _⟩ := rel_row_facts g hg hr hk
  obtain ⟨k, h1, _, h3, _, _⟩ := rel_pair_step g hg hk hr s hs p.node.children f.str
  have hkv : Spec.ValidKey k := C15_rel_names_valid g hg hr k (by rw [h1]; simp)
  obtain ⟨d, d1, d2, d3, _, d5⟩ := C04_reread_para_set p hp ht k f.str hkv hv
  refine ⟨k, _, h1, h3, d, d1, d2, d3, ?_⟩
  have hpar : (d.paras.map fun pg => pg.1.node).map items = [ListSpec.set p.content k f.str] := by
    rw [← Deb.paragraphs_tree]; exact d5
  cases hps : d.paras with
  | nil => rw [hps] at hpar; simp at hpar
  | cons pg rest =>
    cases rest with
    | cons _ _ => rw [hps] at hpar; simp at hpar
    | nil =>
      rw [hps] at hpar
      simp only [List.map_cons, List.map_nil, List.cons.injEq, and_true] at hpar
      have hq : pitems pg.1.node.children = ListSpec.set p.content k f.str := hpar
      obtain ⟨_, _, v3, v4⟩ := rel_value f hwf
      have hl : lget (pitems pg.1.node.children) k = some f.str := by rw [hq, lget_set_same]
      obtain ⟨e1, e2, e3⟩ := rel_get_on g hr hop k h1 pg.1.node.children f hwf hl
      refine ⟨pg.1, by rw [Deb.paragraphs_tree, hps]; rfl, e1, e2, e3, ?_, v3, v4⟩
      intro k' hk'
      have a1 : Deb.get pg.1.node k' = lget (pitems pg.1.node.children) k' := C15_refine_get _ k'
      have a2 : Deb.get p.node k' = lget (pitems p.node.children) k' := C15_refine_get _ k'
      rw [a1, a2, hq, lget_set_other _ _ _ _ hk', pitems_para]

/-! the same for a paragraph INSIDE a parsed document (the typed views wrap a paragraph of a
`Control` / `Deb822` document) -/

theorem set_ne_nil (l : ListSpec.Items) (k v : Str) : ListSpec.set l k v ≠ [] := by
  cases l with
  | nil => simp [ListSpec.set]
  | cons f fs => simp only [ListSpec.set]; split <;> simp

/-- the paragraphs among any part of the children of a well-formed document's root have a field -/
theorem docItems_part_nonEmpty (d0 : Spec.DocS) (part : List DNode) (hsub : ∀ n ∈ part, n ∈ d0.tree.children) :
    ∀ l ∈ docItems (.node .ROOT part), nonEmpty l = true := by
  intro l hl
  simp only [docItems, List.mem_map] at hl
  obtain ⟨n, hn, rfl⟩ := hl
  have hn' : n ∈ paragraphs d0.tree := by
    simp only [paragraphs, Node.children, List.mem_filter] at hn ⊢
    exact ⟨hsub n hn.1, hn.2⟩
  rw [Deb.paragraphs_tree] at hn'
  simp only [List.mem_map] at hn'
  obtain ⟨pg, _, rfl⟩ := hn'
  rw [Deb.items_para]
  simp [nonEmpty, Spec.ParaS.content]

/-- **set, print, parse, get inside a document.**  `d` the editing state of a parsed well-formed
    document `d0`, `h` a live handle on the paragraph at child slot `i`.  After `set_X(f)` through
    the handle (for a well-formed field `f` whose text is a `ValidValue`) the printed document is
    accepted by the deb822 reader without error, it has as many paragraphs as before, and on the
    paragraph at the same place among them the getter finds `f.str` and its value is `f.tree`
    exposing `f.view`; the content of all other paragraphs is what it was -/
theorem C15_rel_set_reread_doc (g : Row) (hg : g ∈ Gen.Accessors.rows) (hk : g.kind = .get)
    (hr : isRelRow g = true) (s : Row) (hs : setterOf g = some s)
    (d0 : Spec.DocS) (hwf0 : d0.WF) (d : Doc) (hd : d.kids = d0.tree.children)
    (h i : Nat) (cs : List DNode) (hi : d.handles[h]? = some (some i))
    (hc : d.kids[i]? = some (.node .PARAGRAPH cs))
    (f : FieldA) (hwf : f.WF) (hv : Spec.ValidValue f.str) :
    ∃ k cs', g.names = [k] ∧ setSem s (.text f.str) cs = some cs'
      ∧ ∃ d1 : Spec.DocS, d1.WF ∧ d1.str = (d.onPara h fun _ => cs').root.text
        ∧ Deb.parse (d.onPara h fun _ => cs').root.text = ⟨d1.tree, []⟩
        ∧ docItems d1.tree = docItems (.node .ROOT (d.kids.take i))
            ++ ListSpec.set (pitems cs) k f.str :: docItems (.node .ROOT (d.kids.drop (i + 1)))
        ∧ ∃ q : Spec.ParaS,
          (paragraphs d1.tree)[(docItems (.node .ROOT (d.kids.take i))).length]? = some q.node
          ∧ getSem g true q.node.children = .text f.str
          ∧ relGetRelaxed g q.node.children = some (f.tree, [])
          ∧ (f.hasSubstvar = false → relGet g q.node.children = some (.ok f.tree))
          ∧ Rel.accEntries f.tree = some f.view ∧ Rel.substvars f.tree = f.substvars := by
  obtain ⟨hop, _, _, _, _⟩ := rel_row_facts g hg hr hk
  obtain ⟨k, h1, _, h3, _, _⟩ := rel_pair_step g hg hk hr s hs cs f.str
  have hkv : Spec.ValidKey k := C15_rel_names_valid g hg hr k (by rw [h1]; simp)
  obtain ⟨d1, e1, e2, e3, _, e5⟩ := C04_reread_set d0 hwf0 d hd h i cs hi hc k f.str hkv hv
  have hsame : (d.onPara h fun _ => paraSet cs k f.str) = d.onPara h (fun cs => paraSet cs k f.str) := by
    simp only [Doc.onPara, hi, hc]
  refine ⟨k, _, h1, h3, d1, e1, by rw [hsame]; exact e2, by rw [hsame]; exact e3, ?_⟩
  -- no paragraph is dropped by the reader: every one has a field
  have hA := docItems_part_nonEmpty d0 (d.kids.take i) (fun n hn => by rw [← hd]; exact List.mem_of_mem_take hn)
  have hB := docItems_part_nonEmpty d0 (d.kids.drop (i + 1)) (fun n hn => by rw [← hd]; exact List.mem_of_mem_drop hn)
  have hX : nonEmpty (ListSpec.set (pitems cs) k f.str) = true := by
    have := set_ne_nil (pitems cs) k f.str
    cases hl : ListSpec.set (pitems cs) k f.str with
    | nil => exact absurd hl this
    | cons _ _ => rfl
  have hfil : (docItems (.node .ROOT (d.kids.take i)) ++ ListSpec.set (pitems cs) k f.str
        :: docItems (.node .ROOT (d.kids.drop (i + 1)))).filter nonEmpty
      = docItems (.node .ROOT (d.kids.take i)) ++ ListSpec.set (pitems cs) k f.str
        :: docItems (.node .ROOT (d.kids.drop (i + 1))) := by
    apply List.filter_eq_self.2
    intro l hl
    simp only [List.mem_append, List.mem_cons] at hl
    rcases hl with hl | rfl | hl
    · exact hA l hl
    · exact hX
    · exact hB l hl
  rw [hfil] at e5
  refine ⟨e5, ?_⟩
  -- the paragraph at that place
  have hget : ((paragraphs d1.tree).map items)[(docItems (.node .ROOT (d.kids.take i))).length]?
      = some (ListSpec.set (pitems cs) k f.str) := by
    have : (paragraphs d1.tree).map items = docItems d1.tree := rfl
    rw [this, e5, List.getElem?_append_right (Nat.le_refl _)]
    simp
  rw [List.getElem?_map, Deb.paragraphs_tree, List.getElem?_map] at hget
  cases hq : d1.paras[(docItems (.node .ROOT (d.kids.take i))).length]? with
  | none => rw [hq] at hget; simp at hget
  | some pg =>
    rw [hq] at hget
    simp only [Option.map_some, Option.some.injEq] at hget
    have hqi : pitems pg.1.node.children = ListSpec.set (pitems cs) k f.str := hget
    obtain ⟨_, _, v3, v4⟩ := rel_value f hwf
    have hl : lget (pitems pg.1.node.children) k = some f.str := by rw [hqi, lget_set_same]
    obtain ⟨a1, a2, a3⟩ := rel_get_on g hr hop k h1 pg.1.node.children f hwf hl
    refine ⟨pg.1, ?_, a1, a2, a3, v3, v4⟩
    rw [Deb.paragraphs_tree, List.getElem?_map, hq]
    rfl

/-- the hypotheses are satisfiable: the document example of C03 under edit (`C04.exEditDoc`),
    handle 0 on the paragraph at child slot 2 -/
example : C03.exDoc.WF ∧ C04.exEditDoc.kids = C03.exDoc.tree.children
    ∧ ∃ cs, C04.exEditDoc.handles[0]? = some (some 2) ∧ C04.exEditDoc.kids[2]? = some (.node .PARAGRAPH cs) :=
  ⟨by decide, rfl, _, rfl, rfl⟩

/-! ## 5 — the getter on a paragraph that comes out of the parser -/

/-- **getter on parsed text.**  `d` a well-formed deb822 document, `p` its `i`-th paragraph, `g` a
    relations getter whose field has in `p` the value text `f.str` of a well-formed field `f` (the
    value as `Paragraph::get` returns it: the field's lines, indentation removed, joined by `\n` —
    `ParaS.content`, `C03_lookup`): parsing `d.str` gives no error, its `i`-th paragraph is `p.node`,
    and on it the getter finds `f.str` and its value is `f.tree` exposing `f.view` -/
theorem C15_rel_get_parsed (g : Row) (hg : g ∈ Gen.Accessors.rows) (hk : g.kind = .get)
    (hr : isRelRow g = true) (d : Spec.DocS) (hd : d.WF) (i : Nat) (p : Spec.ParaS) (gs : List Spec.Gap)
    (hp : d.paras[i]? = some (p, gs)) (f : FieldA) (hwf : f.WF)
    (hval : ∃ k, g.names = [k] ∧ lget p.content k = some f.str) :
    (Deb.parse d.str).errors = []
      ∧ (paragraphs (Deb.parse d.str).tree)[i]? = some p.node
      ∧ getSem g true p.node.children = .text f.str
      ∧ relGetRelaxed g p.node.children = some (f.tree, [])
      ∧ (f.hasSubstvar = false → relGet g p.node.children = some (.ok f.tree))
      ∧ Rel.accEntries f.tree = some f.view ∧ Rel.substvars f.tree = f.substvars := by
  obtain ⟨hop, _, _, _, _⟩ := rel_row_facts g hg hr hk
  obtain ⟨k, hn, hl⟩ := hval
  obtain ⟨_, _, v3, v4⟩ := rel_value f hwf
  have hl' : lget (pitems p.node.children) k = some f.str := by rw [pitems_para]; exact hl
  obtain ⟨e1, e2, e3⟩ := rel_get_on g hr hop k hn p.node.children f hwf hl'
  refine ⟨by rw [C03.C03_parse_inverts d hd], ?_, e1, e2, e3, v3, v4⟩
  rw [C03.C03_parse_inverts d hd, Deb.paragraphs_tree]
  simp [hp]

/-! ### 5b — the field as it is WRITTEN in the document

In the document the field is `Key:` followed by a relationship field in some layout `f` —
whitespace after the colon, continuation lines behind their indentation (`rawValue e = f.str`,
`EntryS.str_rawValue`).  `Paragraph::get` hands out the lines without that indentation: the text of
`f.docForm` (`Lemmas/RelDedent.lean`), a well-formed field with the same view. -/

/-- the fields of a paragraph of the grammar, in order -/
def paraEntries (p : Spec.ParaS) : List Spec.EntryS :=
  p.first :: p.rest.filterMap fun i => match i with
    | .entry e => some e
    | .comment _ _ => none

theorem content_entries (p : Spec.ParaS) : p.content = (paraEntries p).map Spec.EntryS.content := by
  have : ∀ is : List Spec.PItem, (is.map Spec.PItem.content).flatten
      = (is.filterMap fun i => match i with
          | .entry e => some e
          | .comment _ _ => none).map Spec.EntryS.content := by
    intro is
    induction is with
    | nil => rfl
    | cons i is ih => cases i <;> simp [Spec.PItem.content, ih]
  simp [Spec.ParaS.content, paraEntries, this]

theorem lget_entries (es : List Spec.EntryS) (k : Str) :
    lget (es.map Spec.EntryS.content) k
      = (es.find? fun e => e.key == k).map fun e => join ['\n'] e.valueLines := by
  induction es with
  | nil => rfl
  | cons e es ih =>
    rw [List.map_cons, lget_cons, List.find?_cons]
    by_cases h : e.key = k
    · simp [Spec.EntryS.content, h]
    · have hb : (e.key == k) = false := beq_false_of_ne h
      simp [Spec.EntryS.content, h, hb, ih]

theorem paraEntries_wf (p : Spec.ParaS) (hp : p.WF) : ∀ e ∈ paraEntries p, e.WF := by
  intro e he
  simp only [paraEntries, List.mem_cons, List.mem_filterMap] at he
  rcases he with rfl | ⟨i, hi, hie⟩
  · exact hp.first_ok
  · cases i with
    | comment _ _ => cases hie
    | entry e' =>
      simp only [Option.some.injEq] at hie
      subst hie
      exact hp.rest_ok _ hi

/-- **getter on parsed text, from the text in the document.**  `d` a well-formed document, `p` its
    `i`-th paragraph, `e` the first field of `p` named `k` (the getter's name), written after its
    colon as the text `f.str` of a well-formed relationship field `f` in any layout the deb822
    grammar allows (continuation lines indented …).  The getter finds the text of `f.docForm` —
    `f` without the whitespace after the colon and without the indentation of its continuation
    lines — and its value is the tree of that layout, exposing exactly `f.view` and the substitution
    variables of `f` -/
theorem C15_rel_get_written (g : Row) (hg : g ∈ Gen.Accessors.rows) (hk : g.kind = .get)
    (hr : isRelRow g = true) (d : Spec.DocS) (hd : d.WF) (i : Nat) (p : Spec.ParaS) (gs : List Spec.Gap)
    (hp : d.paras[i]? = some (p, gs)) (k : Str) (hn : g.names = [k]) (e : Spec.EntryS)
    (he : (paraEntries p).find? (fun e => e.key == k) = some e)
    (f : FieldA) (hwf : f.WF) (hraw : rawValue e = f.str) :
    (Deb.parse d.str).errors = []
      ∧ (paragraphs (Deb.parse d.str).tree)[i]? = some p.node
      ∧ f.docForm.WF ∧ f.docForm.str = dedentStr f.str
      ∧ getSem g true p.node.children = .text f.docForm.str
      ∧ relGetRelaxed g p.node.children = some (f.docForm.tree, [])
      ∧ (f.hasSubstvar = false → relGet g p.node.children = some (.ok f.docForm.tree))
      ∧ Rel.accEntries f.docForm.tree = some f.view ∧ Rel.substvars f.docForm.tree = f.substvars := by
  have hpw : p.WF := (hd.paras_ok (p, gs) (List.mem_of_getElem? hp)).1
  have hew : e.WF := paraEntries_wf p hpw e (List.mem_of_find?_eq_some he)
  have hval : lget p.content k = some f.docForm.str := by
    rw [content_entries, lget_entries, he, Option.map_some, ← dd_rawValue e hew, hraw,
      dedentStr_field f hwf]
  obtain ⟨a1, a2, a3, a4, a5, a6, a7⟩ :=
    C15_rel_get_parsed g hg hk hr d hd i p gs hp f.docForm (docForm_wf f hwf) ⟨k, hn, hval⟩
  refine ⟨a1, a2, docForm_wf f hwf, (dedentStr_field f hwf).symm, a3, a4, ?_, ?_, ?_⟩
  · intro hsv; exact a5 (by rw [docForm_hasSubstvar]; exact hsv)
  · rw [a6, docForm_view]
  · rw [a7, docForm_substvars]

/-- every non-empty value the lossless reader returns for a field of a well-formed document is a
    `ValidValue`: `Entry::new` lays it out so that it reads back unchanged -/
theorem validValue_parsed (e : Spec.EntryS) (h : e.WF) (hne : e.valueLines ≠ []) :
    Spec.ValidValue (join ['\n'] e.valueLines) := by
  obtain ⟨_, _, hv, hc⟩ := h
  have hnl : ∀ x ∈ e.valueLines, '\n' ∉ x := by
    intro x hx hmem
    simp only [Spec.EntryS.valueLines, List.mem_append, List.mem_map] at hx
    rcases hx with hx | ⟨c, hc', rfl⟩
    · split at hx
      · simp at hx
      · simp only [List.mem_singleton] at hx; subst hx
        exact absurd (hv.1 _ hmem) (by decide)
    · exact absurd ((hc c hc').text_ok.1 _ hmem) (by decide)
  unfold Spec.ValidValue
  rw [splitOn_join '\n' _ hne hnl]
  unfold Spec.EntryS.valueLines at hne ⊢
  by_cases hev : e.v = []
  · simp only [hev, ↓reduceIte, List.nil_append] at hne ⊢
    cases hcs : e.conts with
    | nil => rw [hcs] at hne; simp at hne
    | cons c cs =>
      rw [hcs] at hc
      obtain ⟨h3, a, as, hta, hai, _⟩ := (hc c (by simp)).text_ok
      simp only [List.map_cons]
      refine ⟨by rw [hta]; simp, ⟨h3, ?_⟩, ?_⟩
      · intro x hx; rw [hta] at hx; simp only [List.head?_cons, Option.some.injEq] at hx; subst hx; exact hai
      · intro t ht
        simp only [List.mem_map] at ht
        obtain ⟨c', hc'', rfl⟩ := ht
        exact (hc c' (by simp [hc''])).text_ok
  · simp only [hev, ↓reduceIte, List.singleton_append]
    refine ⟨hev, hv, ?_⟩
    intro t ht
    simp only [List.mem_map] at ht
    obtain ⟨c', hc'', rfl⟩ := ht
    exact (hc c' hc'').text_ok

/-- **from one document to another.**  A relationship field read from a parsed well-formed
    document (as in `C15_rel_get_written`; its value text is non-empty) and handed to the setter of
    any relations pair on a paragraph `p2` of another parsed document: the printed paragraph is
    accepted by the deb822 reader without error and the getter on the re-read paragraph has the
    value tree `f.docForm.tree` again, exposing `f.view` -/
theorem C15_rel_transfer (e : Spec.EntryS) (hew : e.WF) (hne : e.valueLines ≠ [])
    (f : FieldA) (hwf : f.WF) (hraw : rawValue e = f.str)
    (g : Row) (hg : g ∈ Gen.Accessors.rows) (hk : g.kind = .get) (hr : isRelRow g = true)
    (s : Row) (hs : setterOf g = some s) (p2 : Spec.ParaS) (hp : p2.WF) (ht : p2.Term false) :
    ∃ k cs', g.names = [k] ∧ setSem s (.text f.docForm.str) p2.node.children = some cs'
      ∧ ∃ d : Spec.DocS, d.WF ∧ d.str = textList cs' ∧ Deb.parse (textList cs') = ⟨d.tree, []⟩
        ∧ ∃ q : Spec.ParaS, paragraphs d.tree = [q.node]
          ∧ getSem g true q.node.children = .text f.docForm.str
          ∧ relGetRelaxed g q.node.children = some (f.docForm.tree, [])
          ∧ (f.hasSubstvar = false → relGet g q.node.children = some (.ok f.docForm.tree))
          ∧ (∀ k', k' ≠ k → Deb.get q.node k' = Deb.get p2.node k')
          ∧ Rel.accEntries f.docForm.tree = some f.view ∧ Rel.substvars f.docForm.tree = f.substvars := by
  have hv : Spec.ValidValue f.docForm.str := by
    rw [← dedentStr_field f hwf, ← hraw, dd_rawValue e hew]
    exact validValue_parsed e hew hne
  obtain ⟨k, cs', a1, a2, d, d1, d2, d3, q, q1, q2, q3, q4, q5, q6, q7⟩ :=
    C15_rel_set_reread g hg hk hr s hs p2 hp ht f.docForm (docForm_wf f hwf) hv
  refine ⟨k, cs', a1, a2, d, d1, d2, d3, q, q1, q2, q3, ?_, q5, ?_, ?_⟩
  · intro hsv; exact q4 (by rw [docForm_hasSubstvar]; exact hsv)
  · rw [q6, docForm_view]
  · rw [q7, docForm_substvars]

/-! ### non-vacuity for sections 4 and 5 -/

/-- the set/print/re-read theorem applies to the one-line example on the paragraph example of C04 … -/
example : C04.exPara.WF ∧ C04.exPara.Term false ∧ exRel.WF ∧ Spec.ValidValue exRel.str := by
  refine ⟨by decide, by decide, by decide +kernel, by decide +kernel⟩

/-- … and to a folded field with a substitution variable (the layout the deb822 reader hands out) -/
example : exRelFolded.docForm.WF ∧ Spec.ValidValue exRelFolded.docForm.str
    ∧ exRelFolded.docForm.str =
      "debhelper-compat (= 13),\nlibfoo-dev:any (>= 1.2~rc1) [amd64 !i386] <!nocheck>\n| bar,\n${misc:Depends},".toList := by
  refine ⟨by decide +kernel, by decide +kernel, by decide +kernel⟩

/-- a text with indentation of its own is outside `ValidValue` (section 4 does not cover it; on the
    tree, section 2 does) -/
example : ¬ Spec.ValidValue exRelFolded.str := by decide +kernel

/-- `exRelFolded` as it stands in a document: one space after the colon -/
def exRelWritten : FieldA :=
  ⟨match exRelFolded.segs with
    | s :: ss => { s with pre := [.ws [' ']] } :: ss
    | [] => []⟩

/-- `\n ${shlibs:Depends},\n libbar (>= 2)`: the field starts on the line after `Depends:` -/
def exRelSecond : FieldA :=
  ⟨[ ⟨[.nl, .ws [' ']], .substvar "shlibs".toList ["Depends".toList], []⟩,
     ⟨[.nl, .ws [' ']], .alts ⟨"libbar".toList, none,
        some ⟨[.ws [' ']], [], .GreaterThanEqual, [.ws [' ']], ⟨none, "2".toList⟩, []⟩, none, []⟩ [], []⟩ ]⟩

def exBuildDepends : Spec.EntryS :=
  { key := "Build-Depends".toList, ws := [' '], v := "debhelper-compat (= 13),".toList, nl := true,
    conts := [⟨['\t'], "libfoo-dev:any (>= 1.2~rc1) [amd64 !i386] <!nocheck>".toList, true⟩,
              ⟨"  ".toList, "| bar,".toList, true⟩,
              ⟨[' '], "${misc:Depends},".toList, true⟩] }

def exDepends : Spec.EntryS :=
  { key := "Depends".toList, ws := [], v := [], nl := true,
    conts := [⟨[' '], "${shlibs:Depends},".toList, true⟩, ⟨[' '], "libbar (>= 2)".toList, false⟩] }

/-- a `debian/control` file -/
def exDocRel : Spec.DocS :=
  { lead := [],
    paras := [
      ({ first := { key := "Source".toList, ws := [' '], v := "foo".toList, nl := true, conts := [] },
         rest := [.entry exBuildDepends,
                  .entry { key := "Standards-Version".toList, ws := [' '], v := "4.6.2".toList, nl := true, conts := [] }] },
       [.blank]),
      ({ first := { key := "Package".toList, ws := [' '], v := "foo".toList, nl := true, conts := [] },
         rest := [.entry exDepends] }, [])] }

example : exDocRel.str =
    ("Source: foo\nBuild-Depends: debhelper-compat (= 13),\n\tlibfoo-dev:any (>= 1.2~rc1) [amd64 !i386] <!nocheck>\n  | bar,\n ${misc:Depends},\n"
      ++ "Standards-Version: 4.6.2\n\nPackage: foo\nDepends:\n ${shlibs:Depends},\n libbar (>= 2)").toList := by
  decide +kernel

example : exDocRel.WF := by decide

/-- the hypotheses of `C15_rel_get_written` for control `Source::build_depends` on paragraph 0 … -/
example : ∃ p gs, exDocRel.paras[0]? = some (p, gs)
    ∧ (paraEntries p).find? (fun e => e.key == "Build-Depends".toList) = some exBuildDepends
    ∧ exRelWritten.WF ∧ rawValue exBuildDepends = exRelWritten.str
    ∧ exRelWritten.view = exRel.view ∧ exRelWritten.substvars = ["${misc:Depends}".toList]
    ∧ exRelWritten.docForm = exRelFolded.docForm :=
  ⟨_, _, rfl, by decide +kernel, by decide +kernel, by decide +kernel, by decide +kernel,
    by decide +kernel, by decide +kernel⟩

/-- … and for control `Binary::depends` on paragraph 1, the field starting on the next line -/
example : ∃ p gs, exDocRel.paras[1]? = some (p, gs)
    ∧ (paraEntries p).find? (fun e => e.key == "Depends".toList) = some exDepends
    ∧ exRelSecond.WF ∧ rawValue exDepends = exRelSecond.str
    ∧ exRelSecond.docForm.str = "${shlibs:Depends},\nlibbar (>= 2)".toList
    ∧ exRelSecond.view = [[⟨"libbar".toList, none, none, some (.GreaterThanEqual, ⟨none, "2".toList, none⟩), []⟩]] :=
  ⟨_, _, rfl, by decide +kernel, by decide +kernel, by decide +kernel, by decide +kernel, by decide +kernel⟩

/-- the hypotheses of `C15_rel_get_parsed`: the value text in the content of paragraph 0 -/
example : lget exDocRel.content[0] "Build-Depends".toList = some exRelFolded.docForm.str := by
  decide +kernel

/-- `validValue_parsed` / `C15_rel_transfer`: the two fields are well-formed and have a value -/
example : exBuildDepends.WF ∧ exBuildDepends.valueLines ≠ [] ∧ exDepends.WF ∧ exDepends.valueLines ≠ [] := by
  refine ⟨by decide, by decide, by decide, by decide⟩

/-- the document text of a field is `key:` ++ `rawValue` ++ the last terminator (`EntryS.str_rawValue`) -/
example : exBuildDepends.Term true ∧ exBuildDepends.str
    = "Build-Depends".toList ++ ':' :: (rawValue exBuildDepends ++ ['\n']) := by
  refine ⟨by decide, by decide +kernel⟩

/-- the theorems fire: `set_build_depends(exRel)` then `build_depends()` on ANY paragraph -/
example (cs : List DNode) : ∃ g s cs', findRow "control.Source".toList "build_depends".toList = some g
    ∧ findRow "control.Source".toList "set_build_depends".toList = some s
    ∧ setSem s (.text exRel.str) cs = some cs'
    ∧ cs' = paraSet cs "Build-Depends".toList exRel.str
    ∧ relGet g cs' = some (.ok exRel.tree) ∧ Rel.accEntries exRel.tree = some exRel.view := by
  let g := (findRow "control.Source".toList "build_depends".toList).get (by decide +kernel)
  let s := (findRow "control.Source".toList "set_build_depends".toList).get (by decide +kernel)
  have hg : g ∈ Gen.Accessors.rows ∧ g.kind = .get ∧ isRelRow g = true ∧ setterOf g = some s
      ∧ g.names = ["Build-Depends".toList] := by decide +kernel
  obtain ⟨k, cs', h1, _, h3, h4, _, h6, h7, _⟩ :=
    C15_rel_set_then_get g hg.1 hg.2.1 hg.2.2.1 s hg.2.2.2.1 cs exRel (by decide +kernel) (by decide +kernel)
  have hk : k = "Build-Depends".toList := by
    have := hg.2.2.2.2; rw [h1] at this; simpa using this
  subst hk
  exact ⟨g, s, cs', by simp [g], by simp [s], h3, h4, h6, h7⟩

end Deb822Verif.Props.C15
