import Deb822Verif.Props.C06More
/-!
# C06 — asking for a field by name

Both readers answer a by-name question from their own field listing: `get(name)` is the value of the
FIRST field whose name is EXACTLY `name` (names that differ in letter case are different fields).
With the normal form `C06_normal` the two readers therefore answer alike: the lossless answer is the
lossy answer without its empty lines, for every name — present, absent, or spelt in another case.
(After seeded change C06-r8m1; the harness evaluates the same clause on every `deb.both` request.)
-/
namespace Deb822Verif.Props.C06
open Deb822Verif Deb Node

/-- first field of a listing with exactly that name -/
def firstNamed (l : List (Str × Str)) (name : Str) : Option Str := (l.find? fun f => f.1 == name).map (·.2)

theorem find_filterMap_key (l : List DNode) (key : Str) :
    ((l.filterMap fun e => (entryKey e).map fun k => (k, entryValue e)).find? fun f => f.1 == key).map (·.2)
      = (l.find? fun e => entryKey e == some key).map entryValue := by
  induction l with
  | nil => rfl
  | cons e l ih =>
    cases hk : entryKey e with
    | none =>
      have h2 : (entryKey e == some key) = false := by rw [hk]; rfl
      rw [List.filterMap_cons, hk, Option.map_none, List.find?_cons, h2]
      exact ih
    | some k =>
      rw [List.filterMap_cons, hk, Option.map_some, List.find?_cons, List.find?_cons]
      by_cases h : k = key
      · subst h
        have h2 : (entryKey e == some k) = true := by rw [hk]; simp
        simp only [beq_self_eq_true, h2, Option.map_some]
      · have h1 : (k == key) = false := by simpa using h
        have h2 : (entryKey e == some key) = false := by rw [hk]; simpa using h
        simp only [h1, h2]
        exact ih

/-- lossless `Paragraph::get(name)` = the first field of `items()` with exactly that name -/
theorem C06_get_is_first_listed (p : DNode) (name : Str) : Deb.get p name = firstNamed (items p) name := by
  simp only [Deb.get, items, firstNamed]
  exact (find_filterMap_key (entries p) name).symm

theorem isSome_firstNamed (l : List (Str × Str)) (name : Str) :
    (firstNamed l name).isSome = l.any (fun f => f.1 == name) := by
  induction l with
  | nil => rfl
  | cons f l ih =>
    simp only [firstNamed, List.find?_cons, List.any_cons] at ih ⊢
    cases h : f.1 == name
    · simpa using ih
    · simp

/-- lossless `contains_key(name)` says whether the listing has a field with exactly that name -/
theorem C06_containsKey_listed (p : DNode) (name : Str) :
    containsKey p name = (items p).any (fun f => f.1 == name) := by
  simp only [containsKey]
  rw [C06_get_is_first_listed, isSome_firstNamed]

/-- lossy `Paragraph::get(name)` = the first field of its listing with exactly that name -/
theorem C06_lossy_get_is_first_listed (p : Lossy.Para) (name : Str) :
    Lossy.pget p name = firstNamed p name := rfl

theorem firstNamed_map_dropBlank (p : List (Str × Str)) (name : Str) :
    firstNamed (p.map dropBlank) name = (firstNamed p name).map fun v => Text.join ['\n'] (nb v) := by
  induction p with
  | nil => rfl
  | cons f l ih =>
    have hd : (dropBlank f).1 = f.1 := rfl
    simp only [firstNamed] at ih ⊢
    rw [List.map_cons, List.find?_cons, List.find?_cons, hd]
    cases h : f.1 == name
    · simpa using ih
    · simp [dropBlank]

/-- **both paragraph readers answer a by-name question alike**: when both accept the text, for EVERY
    name the lossless answer is the lossy answer without its empty lines (`None` for the same names) -/
theorem C06_get_agrees (s : Str) (p : Lossy.Para) (q : DNode) (hL : Lossy.readPara s = .ok p)
    (hS : paragraphFromStr s = .ok q) (name : Str) :
    Deb.get q name = (Lossy.pget p name).map fun v => Text.join ['\n'] (nb v) := by
  rw [C06_get_is_first_listed, C06_para_normal s p q hL hS, firstNamed_map_dropBlank]
  rfl

/-- document form: paragraph by paragraph -/
theorem C06_get_agrees_doc (s : Str) (d : Lossy.Doc) (t : DNode) (hL : Lossy.read s = .ok d)
    (hS : readStrict s = .ok t) (name : Str) :
    (paragraphs t).map (fun q => Deb.get q name)
      = d.map fun p => (Lossy.pget p name).map fun v => Text.join ['\n'] (nb v) := by
  have h := C06_normal s d t hL hS
  simp only [docItems] at h
  have e1 : (paragraphs t).map (fun q => Deb.get q name) = ((paragraphs t).map items).map (firstNamed · name) := by
    rw [List.map_map]
    apply List.map_congr_left
    intro q _
    exact C06_get_is_first_listed q name
  rw [e1, h, List.map_map]
  apply List.map_congr_left
  intro p _
  show firstNamed (p.map dropBlank) name = _
  rw [firstNamed_map_dropBlank]
  rfl

/-- witness: names that differ in letter case are different fields, for both readers -/
theorem C06_case_is_significant :
    (match readStrict "Foo: first\nfoo: second\n".toList, Lossy.read "Foo: first\nfoo: second\n".toList with
     | .ok t, .ok [p] =>
       (paragraphs t).map (fun q => Deb.get q "foo".toList) == [some "second".toList]
         && Lossy.pget p "foo".toList == some "second".toList
         && (paragraphs t).map (fun q => Deb.get q "FOO".toList) == [none]
         && Lossy.pget p "FOO".toList == none
     | _, _ => false) = true := by decide +kernel

end Deb822Verif.Props.C06
