import Deb822Verif.Lemmas.RelEditLayoutHist
import Deb822Verif.Props.C11
/-!
# C11, layouts — re-reading after EVERY operation on ANY well-formed field, and after whole histories

Props/C11.lean proves "the edited field prints to text that parses strictly to the list model" for
histories that start from the canonical layout, and for single setters / `insert` before an entry /
`replace` / `push` behind an item on any well-formed field. This file closes the rest.

`Lay f` (Lemmas/RelEditLayout.lean): the root's children are a *layout* — the grammar of C10 as a
grammar of trees, where a gap is any sequence of blank / newline tokens (two WHITESPACE tokens may be
adjacent: `add_profile` on `a:any | b` makes them) and the gap after a relation is split freely
between the RELATION node, the ENTRY node and the root (the parser puts it at one fixed place, the
removals and `Entry::replace` leave it in pieces). Then
1. the tree the parser builds for a well-formed field is a layout (`C11_lay_parsed`),
2. the tree the constructors build for a valid value is a layout (`C11_lay_built`),
3. every API call with valid operands keeps the layout (`C11_lay_step`; operands: `IOp.lay`), and the
   only calls that panic are the `unwrap`s of an index out of range (`C11_lay_step_returns`),
4. a layout prints a well-formed field of the grammar of C10 whose items are what `abs` reads off the
   tree (`C11_lay_reads`) — so by C10 the text re-reads, without error, to the list model.
Hence `C11_reread_history_any`: after every step of any history from any well-formed field (or any
built one) the field prints text that parses to the list model of the tree, which
(`C11_history_refines`) is the list model run next to it.

Stage 1 (`C11_reread_*_wf`): the single operations on the parse tree of any well-formed field, in the
form of `C11_reread_insert_wf`. None of them is false: no defect of the editing code was found.
-/
namespace Deb822Verif.Props.C11Layout
open Deb822Verif Rel Node RelSpec Lossy Build Edit
open Deb822Verif.Props.C10 Deb822Verif.Props.C11

/-! ### the list operations neither create nor remove substitution variables -/

theorem noSubst_append (a b : FieldS) : noSubst (a ++ b) = (noSubst a && noSubst b) := by simp [noSubst]

theorem noSubst_updEntry (G : List RelRec → List ItemS) (hG : ∀ rs, noSubst (G rs) = true) (s : FieldS) (i : Nat) :
    noSubst (S.updEntry G s i) = noSubst s := by
  induction s generalizing i with
  | nil => rfl
  | cons x xs ih =>
    cases x with
    | subst t => simp only [S.updEntry]; simp [noSubst, ItemS.isAlts] at ih ⊢
    | alts rs =>
      cases i with
      | zero =>
        simp only [S.updEntry, noSubst_append, hG]
        simp [noSubst, ItemS.isAlts]
      | succ i =>
        simp only [S.updEntry]
        have := ih i
        simp only [noSubst, List.all_cons] at this ⊢
        rw [this]

theorem noSubst_removeEntry (s : FieldS) (i : Nat) : noSubst (S.removeEntry s i) = noSubst s :=
  noSubst_updEntry _ (fun _ => rfl) s i

theorem noSubst_removeRel (s : FieldS) (i j : Nat) : noSubst (S.removeRel s i j) = noSubst s :=
  noSubst_updEntry _ (fun rs => by split <;> rfl) s i

theorem noSubst_modEntry (s : FieldS) (i : Nat) (g : List RelRec → List RelRec) : noSubst (S.modEntry s i g) = noSubst s :=
  noSubst_updEntry _ (fun _ => rfl) s i

theorem noSubst_push (s : FieldS) (e : List RelRec) : noSubst (S.push s e) = noSubst s := by
  simp [S.push, noSubst, ItemS.isAlts]

theorem noSubst_insert (s : FieldS) (i : Nat) (e : List RelRec) : noSubst (S.insert s i e) = noSubst s := by
  unfold S.insert
  split
  · exact noSubst_updEntry _ (fun _ => rfl) s i
  · exact noSubst_push s e

theorem noSubst_replace (s : FieldS) (i : Nat) (e : List RelRec) : noSubst (S.replace s i e) = noSubst s :=
  noSubst_updEntry _ (fun _ => rfl) s i

/-! ### from a layout to the re-read statement -/

/-- the conclusion of the single-operation theorems: the printed field is well-formed, reads without
    error, and reads to the list model `s'` -/
def RereadsTo (f' : Field) (allow : Bool) (s' : FieldS) : Prop :=
  (∃ a' : FieldA, a'.WF ∧ f'.root.text = a'.str)
    ∧ (readRelaxed f'.root.text allow).2 = []
    ∧ abs (readRelaxed f'.root.text allow).1 = s'

theorem rereads_of_lay (a : FieldA) (hwf : a.WF) (allow : Bool) (ha : allow = true ∨ a.hasSubstvar = false)
    (f : Field) (hf : f.kids = a.tree.children) (f' : Field) (hl' : Lay f') (s' : FieldS)
    (habs : abs f'.root = s') (hsub : noSubst s' = noSubst (abs f.root)) : RereadsTo f' allow s' := by
  obtain ⟨a', hwf', ht, _, hre⟩ := lay_rereads f' hl'
  have h0 : allow = true ∨ noSubst (abs f'.root) = true := by
    rcases ha with h | h
    · exact Or.inl h
    · right
      rw [habs, hsub, abs_of_tree a hwf f hf]
      have := hasSubstvar_items a
      rw [h] at this
      cases hn : noSubst (itemsA a) <;> simp [hn] at this ⊢
  obtain ⟨herr, hab⟩ := hre allow h0
  exact ⟨⟨a', hwf', ht⟩, herr, by rw [hab, habs]⟩

/-- `get_entry(i)` finds the `i`-th entry of a well-formed field -/
theorem entry_pos (a : FieldA) (hwf : a.WF) (f : Field) (hf : f.kids = a.tree.children) (i : Nat)
    (hi : i < cntAlts a.segs) : ∃ p, nthNode .ENTRY f.kids i = some p := by
  cases hn : nthNode .ENTRY f.kids i with
  | some p => exact ⟨p, rfl⟩
  | none =>
    have h1 := nthPos_none hn
    have h2 : f.kids.countP (isNodeOf .ENTRY) = cntAlts a.segs := by
      rw [← nEntries_abs, ← nEntries_itemsA]
      have := abs_of_tree a hwf f hf
      simp only [abs, Field.root, children_node] at this
      rw [this]
    omega

/-! ### STAGE 1: one structural operation on ANY well-formed field -/

/-- `Relations::remove_entry(i)` / `Entry::remove()` on ANY well-formed field (first, middle or last
    entry; folded lines, odd spacing, trailing commas, substitution variables around it): the call
    returns, the entry leaves with one separator, the text is a well-formed field and re-reads to
    `S.removeEntry` -/
theorem C11_reread_removeEntry_wf (a : FieldA) (hwf : a.WF) (allow : Bool) (ha : allow = true ∨ a.hasSubstvar = false)
    (i : Nat) (hi : i < cntAlts a.segs) (f : Field) (hf : f.kids = a.tree.children) :
    ∃ f', f.removeEntry i = .ok f' ∧ RereadsTo f' allow (S.removeEntry (abs f.root) i) := by
  obtain ⟨p, hp⟩ := entry_pos a hwf f hf i hi
  obtain ⟨f', h, hl'⟩ := lay_removeEntryAt f (lay_of_tree a hwf f hf) i p hp
  have hr : f.removeEntry i = .ok f' := by unfold Field.removeEntry; rw [hp]; exact h
  exact ⟨f', hr, rereads_of_lay a hwf allow ha f hf f' hl' _ (C11_refine_removeEntry f f' i hr) (noSubst_removeEntry _ _)⟩

/-- `Entry::push(rel)` on the `i`-th entry of ANY well-formed field: ` | rel` goes right behind the last
    RELATION node (behind the blanks that are inside that node, in front of those outside); the text is
    a well-formed field and re-reads to `S.entryPush` -/
theorem C11_reread_entryPush_wf (a : FieldA) (hwf : a.WF) (allow : Bool) (ha : allow = true ∨ a.hasSubstvar = false)
    (i : Nat) (hi : i < cntAlts a.segs) (R : RNode) (hR : RelOperand R) (f : Field) (hf : f.kids = a.tree.children) :
    ∃ p, nthNode .ENTRY f.kids i = some p
      ∧ RereadsTo (f.entryPushAt p R) allow (S.entryPush (abs f.root) i (recOf R)) := by
  obtain ⟨p, hp⟩ := entry_pos a hwf f hf i hi
  exact ⟨p, hp, rereads_of_lay a hwf allow ha f hf _ (lay_entryPushAt f (lay_of_tree a hwf f hf) i p hp R hR) _
    (C11_refine_entryPush f i p hp R hR.isRel) (noSubst_modEntry _ _ _)⟩

/-- `Entry::remove_relation(j)` / `Relation::remove()` on ANY well-formed field (first, middle, last or
    only alternative): the call returns, the alternative leaves with its `|` — the whole entry with one
    comma when it was the only one —, the text is a well-formed field and re-reads to `S.removeRel` -/
theorem C11_reread_removeRelation_wf (a : FieldA) (hwf : a.WF) (allow : Bool) (ha : allow = true ∨ a.hasSubstvar = false)
    (f : Field) (hf : f.kids = a.tree.children) (i j p q : Nat) (hA : Addr f i j p q) :
    ∃ f', f.removeRelation i j = .ok f' ∧ f.removeRelationAt p q = .ok f'
      ∧ RereadsTo f' allow (S.removeRel (abs f.root) i j) := by
  obtain ⟨f', h, hl'⟩ := lay_removeRelationAt f (lay_of_tree a hwf f hf) i j p q hA.1 hA.2
  have hr : f.removeRelation i j = .ok f' := by unfold Field.removeRelation; rw [hA.1]; simp only; rw [hA.2]; exact h
  exact ⟨f', hr, h, rereads_of_lay a hwf allow ha f hf f' hl' _ (C11_refine_removeRelation f f' i j hr) (noSubst_removeRel _ _ _)⟩

/-- `Entry::replace(j, rel)` on ANY well-formed field: the call returns, the new relation stands where
    the old one stood and keeps the blanks that were at the end of the old node; the text is a
    well-formed field and re-reads to `S.entryReplace` -/
theorem C11_reread_entryReplace_wf (a : FieldA) (hwf : a.WF) (allow : Bool) (ha : allow = true ∨ a.hasSubstvar = false)
    (f : Field) (hf : f.kids = a.tree.children) (i j p q : Nat) (hA : Addr f i j p q) (R : RNode) (hR : RelOperand R) :
    ∃ f', f.entryReplaceAt p j R = .ok f' ∧ RereadsTo f' allow (S.entryReplace (abs f.root) i j (recOf R)) := by
  obtain ⟨f', h, hl'⟩ := lay_entryReplaceAt f (lay_of_tree a hwf f hf) i j p q hA.1 hA.2 R hR
  exact ⟨f', h, rereads_of_lay a hwf allow ha f hf f' hl' _ (C11_refine_entryReplace f f' i j p hA.1 R hR.isRel h)
    (noSubst_modEntry _ _ _)⟩

/-- `Relations::push(entry)` on ANY well-formed field — empty, blanks only, ending in a trailing comma
    (with or without blanks or a newline behind it), ending in a substitution variable, or in an entry:
    behind a trailing comma the entry is appended (after one blank unless blanks are there already),
    otherwise `, entry` goes right behind the last item; the text is a well-formed field and re-reads
    to `S.push` -/
theorem C11_reread_push_any_wf (a : FieldA) (hwf : a.WF) (allow : Bool) (ha : allow = true ∨ a.hasSubstvar = false)
    (E : RNode) (hE : EntOperand E) (f : Field) (hf : f.kids = a.tree.children) :
    RereadsTo (f.push E) allow (S.push (abs f.root) (relsOf E)) :=
  rereads_of_lay a hwf allow ha f hf _ (lay_push f (lay_of_tree a hwf f hf) E hE) _
    (C11_refine_push f E hE.isEntry) (noSubst_push _ _)

/-- `Relations::insert(i, entry)` with `i` at or past the number of entries: as `push`.
    (`C11_reread_insert_any_wf` below has no condition on `i` at all.) -/
theorem C11_reread_insert_end_wf (a : FieldA) (hwf : a.WF) (allow : Bool) (ha : allow = true ∨ a.hasSubstvar = false)
    (i : Nat) (hi : cntAlts a.segs ≤ i) (E : RNode) (hE : EntOperand E) (f : Field) (hf : f.kids = a.tree.children) :
    RereadsTo (f.insert i E) allow (S.push (abs f.root) (relsOf E)) ∧ (f.insert i E).kids = (f.push E).kids := by
  have hcount : f.kids.countP (isNodeOf .ENTRY) = cntAlts a.segs := by
    rw [← nEntries_abs, ← nEntries_itemsA]
    have := abs_of_tree a hwf f hf
    simp only [abs, Field.root, children_node] at this
    rw [this]
  have hnone : ∀ k, f.kids.countP (isNodeOf .ENTRY) ≤ k → nthNode .ENTRY f.kids k = none := by
    intro k hk
    cases hn : nthNode .ENTRY f.kids k with
    | none => rfl
    | some p =>
      obtain ⟨pre, x, post, e, _, hx, hc⟩ := nthPos_some hn
      rw [e, List.countP_append, List.countP_cons, hc] at hk
      simp [hx] at hk
      omega
  have hS : S.insert (abs f.root) i (relsOf E) = S.push (abs f.root) (relsOf E) := by
    unfold S.insert
    rw [if_neg]; · rfl
    show ¬ i < S.nEntries (absKids f.kids)
    rw [nEntries_abs, hcount]; omega
  refine ⟨?_, ?_⟩
  · rw [← hS]
    exact rereads_of_lay a hwf allow ha f hf _ (lay_insert f (lay_of_tree a hwf f hf) i E hE) _
      (C11_refine_insert f i E hE.isEntry) (noSubst_insert _ _ _)
  · show (relationsInsert f.kids i E).kids = (relationsInsert f.kids (f.kids.countP (isNodeOf .ENTRY)) E).kids
    unfold relationsInsert
    rw [hnone i (by omega), hnone _ (Nat.le_refl _)]

/-- `Relations::insert(i, entry)` for ANY `i` on ANY well-formed field -/
theorem C11_reread_insert_any_wf (a : FieldA) (hwf : a.WF) (allow : Bool) (ha : allow = true ∨ a.hasSubstvar = false)
    (i : Nat) (E : RNode) (hE : EntOperand E) (f : Field) (hf : f.kids = a.tree.children) :
    RereadsTo (f.insert i E) allow (S.insert (abs f.root) i (relsOf E)) :=
  rereads_of_lay a hwf allow ha f hf _ (lay_insert f (lay_of_tree a hwf f hf) i E hE) _
    (C11_refine_insert f i E hE.isEntry) (noSubst_insert _ _ _)

/-- the operands: what the constructors build from valid values and what the parser builds for
    well-formed text -/
theorem C11_operands_lay :
    (∀ r : Lossy.Relation, ValidRS r → RelOperand (toLossless r))
    ∧ (∀ (r : Lossy.Relation) (rest : List Lossy.Relation), (∀ x ∈ r :: rest, ValidRS x) →
        EntOperand (entryFromLossy (r :: rest)))
    ∧ (∀ (r : RelA) (t : Gap), r.ok = true → gapOk t = true → RelOperand (r.node (gapToks t)))
    ∧ (∀ (r : RelA) (rest : List AltA) (post : Gap) (fl : Follow), (EntryA.alts r rest).ok = true → gapOk post = true →
        EntOperand (Node.node .ENTRY (altsNodes r rest post fl).1)) := by
  refine ⟨relOperand_built, entOperand_built, fun r t hr ht => relOperand_parsed r hr t ht, ?_⟩
  intro r rest post fl hok hp
  simp only [EntryA.ok, Bool.and_eq_true, List.all_eq_true] at hok
  exact entOperand_parsed r rest post fl hok.1 hok.2 hp

/-! ### STAGE 2: the invariant -/

/-- (1) the tree the parser builds for a well-formed field is a layout -/
theorem C11_lay_parsed (a : FieldA) (hwf : a.WF) (f : Field) (hf : f.kids = a.tree.children) : Lay f :=
  lay_of_tree a hwf f hf

/-- … in particular the tree the relaxed reader returns for the text of a well-formed field -/
theorem C11_lay_read (a : FieldA) (hwf : a.WF) (allow : Bool) (ha : allow = true ∨ a.hasSubstvar = false)
    (f : Field) (hf : f.kids = (readRelaxed a.str allow).1.children) : Lay f := by
  obtain ⟨e, _, _⟩ := C10_lossless a hwf allow ha
  rw [e] at hf
  exact lay_of_tree a hwf f hf

/-- (2) the tree the constructors build for a valid value is a layout -/
theorem C11_lay_built (rs : List (List Lossy.Relation)) (hv : ValidRSs rs) (f : Field)
    (hf : f.kids = (built rs).children) : Lay f := lay_built rs hv f hf

/-- (3) every API call that returns keeps the layout -/
theorem C11_lay_step (f f' : Field) (hl : Lay f) (o : IOp) (ho : o.lay) (h : istep f o = .ok f') : Lay f' :=
  lay_istep f f' hl o ho h

/-- … and so does every history -/
theorem C11_lay_history (f f' : Field) (hl : Lay f) (os : List IOp) (ho : ∀ o ∈ os, o.lay)
    (h : irun f os = .ok f') : Lay f' := lay_irun f f' hl os ho h

/-- (4) a layout prints a well-formed field of the grammar of C10 whose items are what `abs` reads off
    the tree; the relaxed reader (substitution variables allowed, or none present) reads that text
    without error to the same list model, the strict reader accepts it when there is no substitution
    variable -/
theorem C11_lay_reads (f : Field) (hl : Lay f) :
    (∃ a : FieldA, a.WF ∧ f.root.text = a.str ∧ abs f.root = itemsA a)
    ∧ (∀ allow : Bool, allow = true ∨ noSubst (abs f.root) = true →
        (readRelaxed f.root.text allow).2 = [] ∧ abs (readRelaxed f.root.text allow).1 = abs f.root)
    ∧ (noSubst (abs f.root) = true → ∃ t, readStrict f.root.text = .ok t ∧ abs t = abs f.root) := by
  obtain ⟨a, h1, h2, h3, h4⟩ := lay_rereads f hl
  exact ⟨⟨a, h1, h2, h3⟩, h4, lay_strict f hl⟩

/-! ### the calls that return -/

/-- the indices of the call are in range: `get_entry(i)` / `get_relation(j)` find a node -/
def located (f : Field) : IOp → Prop
  | .setArchqual i j _ => (locate f i j).isSome
  | .setVersion i j _ => (locate f i j).isSome
  | .dropConstraint i j => (locate f i j).isSome
  | .setArchitectures i j _ => (locate f i j).isSome
  | .addProfile i j _ => (locate f i j).isSome
  | .entryPush i _ => (nthNode .ENTRY f.kids i).isSome
  | .entryReplace i j _ => (locate f i j).isSome
  | .removeRelation i j => (locate f i j).isSome
  | .insert _ _ => True
  | .push _ => True
  | .replace i _ => (nthNode .ENTRY f.kids i).isSome
  | .removeEntry i => (nthNode .ENTRY f.kids i).isSome

theorem locate_isSome {f : Field} {i j : Nat} (h : (locate f i j).isSome) :
    ∃ p q, locate f i j = some (p, q) ∧ nthNode .ENTRY f.kids i = some p ∧ nthNode .RELATION (f.entryKids p) j = some q := by
  cases hl : locate f i j with
  | none => rw [hl] at h; cases h
  | some pq =>
    obtain ⟨p, q⟩ := pq
    obtain ⟨h1, h2⟩ := locate_some hl
    exact ⟨p, q, rfl, h1, h2⟩

/-- on a layout a call panics only through the `unwrap` of an index out of range: with the indices in
    range and valid operands it returns (the `Unexpected node` panics of `Entry::remove` and
    `Relation::remove` cannot happen) -/
theorem ok_exists {o : Outcome Field} (h : o.isOk = true) : ∃ f', o = .ok f' := by
  cases o with
  | ok x => exact ⟨x, rfl⟩
  | panic m => cases h

theorem C11_lay_step_returns (f : Field) (hl : Lay f) (o : IOp) (ho : o.lay) (hloc : located f o) :
    ∃ f', istep f o = .ok f' := by
  cases o with
  | setArchqual i j aq =>
    obtain ⟨p, q, h, _, _⟩ := locate_isSome hloc
    apply ok_exists; simp [istep, IOp.resolve, h, step, Outcome.isOk]
  | setVersion i j vc =>
    obtain ⟨p, q, h, _, _⟩ := locate_isSome hloc
    apply ok_exists; simp [istep, IOp.resolve, h, step, Outcome.isOk]
  | dropConstraint i j =>
    obtain ⟨p, q, h, _, _⟩ := locate_isSome hloc
    apply ok_exists; simp [istep, IOp.resolve, h, step, Outcome.isOk]
  | setArchitectures i j as =>
    obtain ⟨p, q, h, _, _⟩ := locate_isSome hloc
    apply ok_exists; simp [istep, IOp.resolve, h, step, Outcome.isOk]
  | addProfile i j g =>
    obtain ⟨p, q, h, _, _⟩ := locate_isSome hloc
    apply ok_exists; simp [istep, IOp.resolve, h, step, Outcome.isOk]
  | entryPush i rel =>
    cases hp : nthNode .ENTRY f.kids i with
    | none => simp [located, hp] at hloc
    | some p => apply ok_exists; simp [istep, IOp.resolve, hp, step, Outcome.isOk]
  | entryReplace i j rel =>
    obtain ⟨p, q, h, hp, hq⟩ := locate_isSome hloc
    obtain ⟨f', h1, _⟩ := lay_entryReplaceAt f hl i j p q hp hq rel ho
    exact ⟨f', by simp [istep, IOp.resolve, hp, step, h1]⟩
  | removeRelation i j =>
    obtain ⟨p, q, h, hp, hq⟩ := locate_isSome hloc
    obtain ⟨f', h1, _⟩ := lay_removeRelationAt f hl i j p q hp hq
    exact ⟨f', by simp [istep, IOp.resolve, step, Field.removeRelation, hp, hq, h1]⟩
  | insert i e => apply ok_exists; simp [istep, IOp.resolve, step, Outcome.isOk]
  | push e => apply ok_exists; simp [istep, IOp.resolve, step, Outcome.isOk]
  | replace i e =>
    cases hp : nthNode .ENTRY f.kids i with
    | none => simp [located, hp] at hloc
    | some p => apply ok_exists; simp [istep, IOp.resolve, step, Field.replace, hp, Outcome.isOk]
  | removeEntry i =>
    cases hp : nthNode .ENTRY f.kids i with
    | none => simp [located, hp] at hloc
    | some p =>
      obtain ⟨f', h1, _⟩ := lay_removeEntryAt f hl i p hp
      exact ⟨f', by simp [istep, IOp.resolve, step, Field.removeEntry, hp, h1]⟩

theorem entry?_none_of_le (s : FieldS) (i : Nat) (h : S.nEntries s ≤ i) : S.entry? s i = none := by
  induction s generalizing i with
  | nil => rfl
  | cons x xs ih =>
    cases x with
    | subst t => simp only [S.entry?]; exact ih i (by simpa [S.nEntries, ItemS.isAlts] using h)
    | alts rs =>
      have e : S.nEntries (ItemS.alts rs :: xs) = S.nEntries xs + 1 := by simp [S.nEntries, List.countP_cons, ItemS.isAlts]
      cases i with
      | zero => omega
      | succ i => simp only [S.entry?]; exact ih i (by omega)

/-- the indices are in range on the tree when they are in range on the list model: entry `i` exists and
    has more than `j` alternatives -/
theorem C11_located_of_model (f : Field) (i j : Nat) (rs : List RelRec) (h : S.entry? (abs f.root) i = some rs)
    (hj : j < rs.length) : (nthNode .ENTRY f.kids i).isSome ∧ (locate f i j).isSome := by
  obtain ⟨g1, g2⟩ := C11_getEntry f i
  cases hn : nthNode .ENTRY f.kids i with
  | none =>
    have := entry?_none_of_le _ i (g2 hn)
    rw [h] at this; cases this
  | some p =>
    obtain ⟨e, he, hrs⟩ := g1 p hn
    rw [h] at hrs
    simp only [Option.some.injEq] at hrs
    have hek : f.entryKids p = e.children := by simp [Field.entryKids, he]
    refine ⟨rfl, ?_⟩
    cases hq : nthNode .RELATION (f.entryKids p) j with
    | some q => simp [locate, hn, hq]
    | none =>
      have h1 := nthPos_none hq
      rw [hek, ← cn_length_countP] at h1
      rw [hrs, relsOf_eq, List.length_map] at hj
      omega

/-! ### whole histories from ANY well-formed layout -/

theorem irun_append (f : Field) (os1 os2 : List IOp) :
    irun f (os1 ++ os2) = (irun f os1).bind fun f1 => irun f1 os2 := by
  induction os1 generalizing f with
  | nil => rfl
  | cons o os ih =>
    simp only [List.cons_append, irun]
    cases istep f o with
    | panic m => rfl
    | ok f1 => simp only [Outcome.bind]; exact ih f1

/-- re-reading after EVERY step of ANY history: start from any layout — the parse tree of any
    well-formed field (`C11_lay_parsed`: folded lines, tabs, trailing commas and blanks, substitution
    variables anywhere, `a :any`-style inner blanks) or any built field (`C11_lay_built`) — and apply any
    history of API calls with valid operands that does not panic (`C11_lay_step_returns`: it panics only
    on an index out of range). After every prefix of the history the field is a layout again: it
    prints a well-formed field of the grammar of C10, the relaxed reader reads that text without error
    to exactly the list model `abs` of the tree, and the strict reader accepts it when the field holds
    no substitution variable. -/
theorem C11_reread_history_any (f f' : Field) (os : List IOp) (hl : Lay f) (ho : ∀ o ∈ os, o.lay)
    (h : irun f os = .ok f') :
    ∀ os1 os2, os = os1 ++ os2 → ∃ f1, irun f os1 = .ok f1 ∧ irun f1 os2 = .ok f' ∧ Lay f1
      ∧ (∃ a : FieldA, a.WF ∧ f1.root.text = a.str ∧ abs f1.root = itemsA a)
      ∧ (∀ allow : Bool, allow = true ∨ noSubst (abs f1.root) = true →
          (readRelaxed f1.root.text allow).2 = [] ∧ abs (readRelaxed f1.root.text allow).1 = abs f1.root)
      ∧ (noSubst (abs f1.root) = true → ∃ t, readStrict f1.root.text = .ok t ∧ abs t = abs f1.root) := by
  intro os1 os2 hos
  rw [hos, irun_append] at h
  cases h1 : irun f os1 with
  | panic m => rw [h1] at h; cases h
  | ok f1 =>
    rw [h1] at h
    have hl1 := lay_irun f f1 hl os1 (fun o ho1 => ho o (by rw [hos]; simp [ho1])) h1
    obtain ⟨r1, r2, r3⟩ := C11_lay_reads f1 hl1
    exact ⟨f1, rfl, h, hl1, r1, r2, r3⟩

/-- (3) for calls made through live handles (`Op`: positions instead of indices): when the position
    holds a node of the handle's kind — which `HOk` keeps true of every live handle through every
    operation (`C11_handles_history`) — and the operands are valid, the call keeps the layout -/
theorem C11_lay_step_handle (f f' : Field) (hl : Lay f) (op : Op) (ho : op.layH f) (h : step f op = .ok f') :
    Lay f' := lay_step f f' hl op ho h

/-- … over whole histories of calls through handles: the field after the history is a layout and
    re-reads to the list model of its tree -/
theorem C11_reread_history_handles (f f' : Field) (ops : List Op) (hl : Lay f) (ho : laysH f ops)
    (h : run f ops = .ok f') :
    Lay f'
      ∧ (∃ a : FieldA, a.WF ∧ f'.root.text = a.str ∧ abs f'.root = itemsA a)
      ∧ (∀ allow : Bool, allow = true ∨ noSubst (abs f'.root) = true →
          (readRelaxed f'.root.text allow).2 = [] ∧ abs (readRelaxed f'.root.text allow).1 = abs f'.root)
      ∧ (noSubst (abs f'.root) = true → ∃ t, readStrict f'.root.text = .ok t ∧ abs t = abs f'.root) := by
  have hl' := lay_run f f' hl ops ho h
  obtain ⟨r1, r2, r3⟩ := C11_lay_reads f' hl'
  exact ⟨hl', r1, r2, r3⟩

/-! ### the list model the text re-reads to is the one run next to the tree -/

theorem shaped_lkids (l : List LSeg) : Shaped (lkids l) := by
  intro e he r hr hrel
  have hmem : ∀ (l : List LSeg), e ∈ lkids l → ∃ s ∈ l, e ∈ s.nodes ∨ e = tk commaTok := by
    intro l
    induction l with
    | nil => intro h; simp [lkids] at h
    | cons s ss ih =>
      intro h
      rw [lkids_cons] at h
      simp only [List.mem_append] at h
      rcases h with h | h
      · exact ⟨s, by simp, Or.inl h⟩
      · split at h
        · simp at h
        · simp only [List.mem_cons] at h
          rcases h with h | h
          · exact ⟨s, by simp, Or.inr h⟩
          · obtain ⟨t, ht, h'⟩ := ih h
            exact ⟨t, by simp [ht], h'⟩
  obtain ⟨s, _, hs | hs⟩ := hmem l he
  · simp only [LSeg.nodes, List.mem_append] at hs
    rcases hs with hs | hs | hs
    · rw [tks_mem_children hs] at hr; simp at hr
    · cases hi : s.item with
      | none => simp [hi, LItem.nodes] at hs
      | sub p ps =>
        simp only [hi, LItem.nodes, List.mem_singleton] at hs
        subst hs
        simp only [children_node] at hr
        simp [isNodeOf, tks_mem_isNode hr] at hrel
      | ent en =>
        simp only [hi, LItem.nodes, List.mem_singleton] at hs
        subst hs
        simp only [LEnt.node, children_node, LEnt.kids, List.mem_cons, List.mem_append] at hr
        rcases hr with rfl | hr | hr
        · exact RelA.node_shape _ _
        · simp only [altsKids, List.mem_flatten, List.mem_map] at hr
          obtain ⟨ns, ⟨b, _, rfl⟩, hr⟩ := hr
          simp only [LAlt.nodes, List.mem_append, List.mem_cons, List.mem_singleton, List.not_mem_nil, or_false] at hr
          rcases hr with hr | rfl | hr | rfl
          · simp [isNodeOf, tks_mem_isNode hr] at hrel
          · simp [isNodeOf, tk, Node.isNode] at hrel
          · simp [isNodeOf, tks_mem_isNode hr] at hrel
          · exact RelA.node_shape _ _
        · simp [isNodeOf, tks_mem_isNode hr] at hrel
    · rw [tks_mem_children hs] at hr; simp at hr
  · subst hs; simp [tk, Node.children] at hr

theorem lay_shaped (f : Field) (hl : Lay f) : Shaped f.kids := by
  obtain ⟨l, _, hk⟩ := hl
  rw [hk]; exact shaped_lkids l

theorem relOperand_shape {R : RNode} (h : RelOperand R) : relShape R := by
  obtain ⟨x, _, rfl⟩ := h; exact RelA.node_shape _ _

theorem entOperand_shaped {E : RNode} (h : EntOperand E) : entryShaped E := by
  obtain ⟨e, _, rfl⟩ := h
  have := shaped_lkids [⟨[], .ent e, []⟩]
  exact this e.node (by simp [lkids, LSeg.nodes, LItem.nodes, gapToks])

/-- valid operands in the sense of the layouts are well-formed operands in the sense of the oracle -/
theorem lay_ok (o : IOp) (h : o.lay) : o.ok := by
  cases o with
  | setVersion i j vc => exact h
  | addProfile i j g => exact h
  | entryPush i rel => exact ⟨h.isRel, relOperand_shape h⟩
  | entryReplace i j rel => exact ⟨h.isRel, relOperand_shape h⟩
  | insert i e => exact ⟨h.isEntry, entOperand_shaped h⟩
  | push e => exact ⟨h.isEntry, entOperand_shaped h⟩
  | replace i e => exact ⟨h.isEntry, entOperand_shaped h⟩
  | setArchqual i j aq => trivial
  | dropConstraint i j => trivial
  | setArchitectures i j as => trivial
  | removeRelation i j => trivial
  | removeEntry i => trivial

/-- the whole statement: after any history from any layout (handles pointing at entries / relations,
    `HOk`; none is fine) the text the field prints re-reads, without error, to the list model run next
    to the tree: the list operations of the calls applied to the list model of the start field -/
theorem C11_reread_history_model (f f' : Field) (os : List IOp) (hl : Lay f) (hk : HOk f) (ho : ∀ o ∈ os, o.lay)
    (h : irun f os = .ok f') (allow : Bool) (ha : allow = true ∨ noSubst (abs f.root) = true) :
    let M' := mrun ⟨abs f.root, shapeOf f⟩ os
    (∃ a : FieldA, a.WF ∧ f'.root.text = a.str)
    ∧ (readRelaxed f'.root.text allow).2 = []
    ∧ abs (readRelaxed f'.root.text allow).1 = M'.items
    ∧ noSubst M'.items = noSubst (abs f.root) := by
  have href := C11_history_refines f f' os (lay_shaped f hl) hk (fun o hmem => lay_ok o (ho o hmem)) h
  have hitems := href.1
  -- the list operations keep the substitution variables
  have hns : ∀ (M : LModel) (os : List IOp), noSubst (mrun M os).items = noSubst M.items := by
    intro M os
    induction os generalizing M with
    | nil => rfl
    | cons o os ih =>
      rw [mrun, ih]
      cases o <;> simp only [mstep, IOp.recFn, S.entryPush, S.entryReplace, S.modRel, noSubst_modEntry, noSubst_removeRel,
        noSubst_insert, noSubst_push, noSubst_replace, noSubst_removeEntry]
  have hsub : noSubst (abs f'.root) = noSubst (abs f.root) := by rw [hitems, hns]
  obtain ⟨⟨a, h1, h2, _⟩, hre, _⟩ := C11_lay_reads f' (lay_irun f f' hl os ho h)
  obtain ⟨herr, hab⟩ := hre allow (by rcases ha with h | h; exact Or.inl h; right; rw [hsub]; exact h)
  exact ⟨⟨a, h1, h2⟩, herr, by rw [hab, hitems], by rw [hns]⟩

/-! ### the hypotheses can be met: an odd layout

`lyA` is the field `a ,⏎ b⇥| c:any  | d, ${x} ,e ,` (⏎ a newline, ⇥ a tab): a folded line, a tab in
front of `|`, two blanks behind a qualified name (inside its RELATION node), a substitution variable
with blanks around it, no blank after a comma, a trailing comma. -/

def lyRel (n : String) (aq : Option String := none) : RelA := ⟨n.toList, aq.map String.toList, none, none, []⟩

def lyA : FieldA := ⟨[
  ⟨[], .alts (lyRel "a") [], [.ws [' ']]⟩,
  ⟨[.nl, .ws [' ']], .alts (lyRel "b") [⟨[.ws ['\t']], [.ws [' ']], lyRel "c" (some "any")⟩,
      ⟨[.ws [' ', ' ']], [.ws [' ']], lyRel "d"⟩], []⟩,
  ⟨[.ws [' ']], .substvar "x".toList [], [.ws [' ']]⟩,
  ⟨[], .alts (lyRel "e") [], [.ws [' ']]⟩,
  ⟨[], .empty, []⟩]⟩

def lyF : Field := ⟨lyA.tree.children, [], []⟩
def lyN : Lossy.Relation := ⟨"n".toList, none, none, none, []⟩
def lyM : Lossy.Relation := ⟨"m".toList, some "any".toList, none, some (.GreaterThanEqual, ⟨none, "1".toList, none⟩), []⟩

example : lyA.WF := by decide +kernel
example : lyA.str = "a ,\n b\t| c:any  | d, ${x} ,e ,".toList := by decide +kernel
example : lyF.kids = lyA.tree.children := rfl
example : cntAlts lyA.segs = 3 := by decide +kernel
example : Addr lyF 1 0 5 0 ∧ Addr lyF 1 1 5 4 ∧ Addr lyF 1 2 5 7 ∧ Addr lyF 0 0 0 0 := by
  refine ⟨?_, ?_, ?_, ?_⟩ <;> (unfold Addr; decide +kernel)
example : RelOperand (toLossless lyN) := relOperand_built lyN (by decide +kernel)
example : RelOperand (toLossless lyM) := relOperand_built lyM (by decide +kernel)
example : EntOperand (entryFromLossy [lyN, lyM]) := entOperand_built lyN [lyM] (by decide +kernel)
/-- a parsed operand: the RELATION node of `n:any ` (with the blank inside) -/
example : RelOperand ((lyRel "n" (some "any")).node (gapToks sp)) :=
  relOperand_parsed _ (by decide +kernel) sp (by decide +kernel)

/-- what the operations print on that field (the theorems above say: each of these texts is a
    well-formed field and re-reads to the list-model result) -/
theorem C11_layout_witness :
    -- remove_entry: first, middle, last
    (lyF.removeEntry 0).map (·.root.text) = .ok "b\t| c:any  | d, ${x} ,e ,".toList
    ∧ (lyF.removeEntry 1).map (·.root.text) = .ok "a , ${x} ,e ,".toList
    ∧ (lyF.removeEntry 2).map (·.root.text) = .ok "a ,\n b\t| c:any  | d, ${x} ,".toList
    -- Entry::push behind `d` / behind `a ` (the blank is outside the node: `a | n ,`)
    ∧ (lyF.entryPushAt 5 (toLossless lyN)).root.text = "a ,\n b\t| c:any  | d | n, ${x} ,e ,".toList
    ∧ (lyF.entryPushAt 0 (toLossless lyN)).root.text = "a | n ,\n b\t| c:any  | d, ${x} ,e ,".toList
    -- remove_relation: first, middle, last alternative, and the only alternative of an entry (removing the
    -- middle one leaves `b| d`: the tab went with the `|` in front of `c:any`, the two blanks behind it were
    -- inside its node — no blank is left in front of the next `|`; still a well-formed field)
    ∧ (lyF.removeRelation 1 0).map (·.root.text) = .ok "a ,\n c:any  | d, ${x} ,e ,".toList
    ∧ (lyF.removeRelation 1 1).map (·.root.text) = .ok "a ,\n b| d, ${x} ,e ,".toList
    ∧ (lyF.removeRelation 1 2).map (·.root.text) = .ok "a ,\n b\t| c:any  , ${x} ,e ,".toList
    ∧ (lyF.removeRelation 2 0).map (·.root.text) = .ok "a ,\n b\t| c:any  | d, ${x} ,".toList
    -- Entry::replace of `c:any  ` (the two blanks stay)
    ∧ (lyF.entryReplaceAt 5 1 (toLossless lyM)).map (·.root.text) = .ok "a ,\n b\t| m:any (>= 1)  | d, ${x} ,e ,".toList
    -- push behind the trailing comma, insert past the end
    ∧ (lyF.push (entryFromLossy [lyN])).root.text = "a ,\n b\t| c:any  | d, ${x} ,e , n".toList
    ∧ (lyF.insert 7 (entryFromLossy [lyN])).root.text = "a ,\n b\t| c:any  | d, ${x} ,e , n".toList := by
  decide +kernel

/-- a history on that field: valid operands, indices in range, it runs -/
def lyOps : List IOp :=
  [.addProfile 1 1 [.Enabled "x".toList], .removeRelation 1 2, .entryPush 1 (toLossless lyN), .removeEntry 0,
   .setArchitectures 0 1 ["i386".toList], .push (entryFromLossy [lyM]), .entryReplace 0 0 (toLossless lyM),
   .removeRelation 1 0, .insert 0 (entryFromLossy [lyN, lyM]), .dropConstraint 1 0]

example : ∀ o ∈ lyOps, o.lay := by
  intro o ho
  simp only [lyOps, List.mem_cons, List.not_mem_nil, or_false] at ho
  rcases ho with rfl | rfl | rfl | rfl | rfl | rfl | rfl | rfl | rfl | rfl
  · intro x hx; simp only [List.mem_singleton] at hx; subst hx; decide +kernel
  · trivial
  · exact relOperand_built lyN (by decide +kernel)
  · trivial
  · intro x hx; simp only [List.mem_singleton] at hx; subst hx; decide +kernel
  · exact entOperand_built lyM [] (by decide +kernel)
  · exact relOperand_built lyM (by decide +kernel)
  · trivial
  · exact entOperand_built lyN [lyM] (by decide +kernel)
  · trivial
example : Lay lyF := C11_lay_parsed lyA (by decide +kernel) lyF rfl
example : HOk lyF := ⟨(by intro h hh; cases hh), (by intro h hh; cases hh)⟩
example : noSubst (abs lyF.root) = false := by decide +kernel
/-- the text after the history: three blanks in front of `[i386]` (two inside the node from the start, one
    token added by `add_profile`), the entry pushed behind the trailing comma that `remove_entry` left -/
example : (irun lyF lyOps).map (·.root.text)
    = .ok "n | m:any (>= 1), m:any\t| c:any   [i386] <x> | n, ${x} , m:any (>= 1)".toList := by decide +kernel

/-- calls through handle positions on that field: the RELATION node `c:any  ` at (5, 4), the entry at 0 -/
example : (Op.removeRelationAt 5 4).layH lyF := ⟨_, _, rfl, rfl, rfl, rfl⟩
example : (Op.entryPush 0 (toLossless lyN)).layH lyF := ⟨⟨_, rfl, rfl⟩, relOperand_built lyN (by decide +kernel)⟩
example : laysH lyF [.removeEntryAt 0] := ⟨⟨_, rfl, rfl⟩, fun _ _ => trivial⟩

end Deb822Verif.Props.C11Layout
