import Deb822Verif.Props.C06More
import Deb822Verif.Props.C03Exact
/-!
# C06 — where the empty lines of a lossy value come from; the blank-after-name condition on texts

After audit_C06 (additions 2 and 3).

1. `C06_lossy_empty_lines` (general, on token lists): after `KEY COLON [WHITESPACE] [VALUE] NEWLINE`
   every physical continuation-position line — `INDENT VALUE NEWLINE`, `INDENT NEWLINE`
   (white-space-only line) or `INDENT COMMENT NEWLINE` (indented `#` line) — contributes exactly one
   piece to the lossy value: its text, resp. the EMPTY piece, in order; the value is the first-line
   text (empty if there is none) and the pieces joined by LF. Hence the empty lines of a lossy value
   are, one each and in order: an empty first line (if any line follows), every white-space-only
   continuation line, every indented `#` line. `C06_lossy_empty_lines_text`: the token lists are the
   lexer's output on the corresponding texts (closed witnesses; the lexer lemmas of `Spec/DocS` do not
   cover token-less continuation lines).
2. `blankAfterKeyText`: the text-level form of `blankAfterKey` (a line that begins with a field name
   directly followed by a space or tab). `C06_blank_text_small_scope`: bounded table — on the 584 small
   documents of `C03Exact.lists3`, whenever the lossless reader reports no error the two agree, and the
   lossy reader accepts iff the lossless one does and `blankAfterKeyText` is false. Without the
   no-error hypothesis they differ (`":A b"`: KEY after a COLON in column 1). NOT proved in general.
-/
namespace Deb822Verif.Props.C06Exact
open Deb822Verif Deb Node Spec Lossy
open Deb822Verif.Props.C06

/-! ### 1. the pieces of a lossy value -/

/-- a physical line in continuation position (LF-terminated) -/
inductive PLine
  /-- indentation, then value text -/
  | value (indent text : Str)
  /-- white-space-only line -/
  | ws (indent : Str)
  /-- indentation, then `#…` -/
  | hash (indent text : Str)
  deriving Repr, DecidableEq

def PLine.toks : PLine → List Tok
  | .value i t => [(.INDENT, i), (.VALUE, t), (.NEWLINE, ['\n'])]
  | .ws i => [(.INDENT, i), (.NEWLINE, ['\n'])]
  | .hash i t => [(.INDENT, i), (.COMMENT, t), (.NEWLINE, ['\n'])]

/-- what the line contributes to the lossy value -/
def PLine.piece : PLine → Str
  | .value _ t => t
  | .ws _ => []
  | .hash _ _ => []

def PLine.str : PLine → Str
  | .value i t => i ++ t ++ ['\n']
  | .ws i => i ++ ['\n']
  | .hash i t => i ++ t ++ ['\n']

def plToks (ls : List PLine) : List Tok := (ls.map PLine.toks).flatten

def accPieces (acc : Str) : List PLine → Str
  | [] => acc
  | l :: ls => accPieces (acc ++ l.piece ++ ['\n']) ls

theorem contLine_pline (acc : Str) (l : PLine) (rest : List Tok) :
    contLine acc (l.toks.tail ++ rest) = .ok (acc ++ l.piece ++ ['\n'], rest) := by
  cases l <;> simp [PLine.toks, PLine.piece, contLine]

theorem contLines_plines (ls : List PLine) : ∀ (acc : Str) (rest : List Tok),
    HeadNot [.INDENT] rest → contLines acc (plToks ls ++ rest) = .ok (accPieces acc ls, rest) := by
  induction ls with
  | nil => intro acc rest hr; simpa [plToks, accPieces] using contLines_stop acc rest hr
  | cons l ls ih =>
    intro acc rest hr
    have hc := contLine_pline acc l (plToks ls ++ rest)
    have : plToks (l :: ls) ++ rest = (.INDENT, (match l with | .value i _ => i | .ws i => i | .hash i _ => i))
        :: (l.toks.tail ++ (plToks ls ++ rest)) := by
      cases l <;> simp [plToks, PLine.toks]
    rw [this, contLines_indent _ _ _ _ _ hc, ih _ _ hr]
    simp [accPieces]

theorem accPieces_join (ls : List PLine) : ∀ (pre : List Str), pre ≠ [] →
    accPieces (Text.join ['\n'] pre ++ ['\n']) ls
      = Text.join ['\n'] (pre ++ ls.map PLine.piece) ++ ['\n'] := by
  induction ls with
  | nil => intro pre _; simp [accPieces]
  | cons l ls ih =>
    intro pre hp
    have hj := join_snoc pre l.piece hp
    have := ih (pre ++ [l.piece]) (by simp)
    rw [hj] at this
    simp only [accPieces, List.map_cons]
    simp only [List.append_assoc, List.cons_append, List.nil_append] at this ⊢
    exact this

/-- the tokens of a field after its name: colon, blanks, first-line text (possibly none), LF, lines -/
def fieldToks (ws v : Str) (ls : List PLine) : List Tok :=
  (.COLON, [':']) :: (optTok .WHITESPACE ws ++ optTok .VALUE v ++ (.NEWLINE, ['\n']) :: plToks ls)

/-- **where the empty lines of a lossy value come from** (every token list of this shape, whatever
    follows that does not begin with INDENT): the lossy reader's value of the field is the first-line
    text `v` (empty when the first line is empty) and ONE PIECE PER PHYSICAL LINE joined by LF — the
    text of a value line, the empty piece for a white-space-only line and for an indented `#` line, in
    order. So `"A: b⏎ ⏎C: d"` gives `b⏎` (trailing LF), `"A:⏎ b"` gives `⏎b`, `"A: b⏎ #c⏎ d"` gives
    `b⏎⏎d`; the lossless value is the same minus the empty pieces (`C06_normal`) -/
theorem C06_lossy_empty_lines (k ws v : Str) (ls : List PLine) (paras : Doc) (cur : Para)
    (rest : List Tok) (hrest : HeadNot [.INDENT] rest) :
    fieldValue (fieldToks ws v ls ++ rest) = .ok (Text.join ['\n'] (v :: ls.map PLine.piece), rest)
    ∧ loop paras cur ((.KEY, k) :: (fieldToks ws v ls ++ rest))
        = loop paras (cur ++ [(k, Text.join ['\n'] (v :: ls.map PLine.piece))]) rest := by
  have h1 : fieldValue (fieldToks ws v ls ++ rest)
      = .ok (Text.join ['\n'] (v :: ls.map PLine.piece), rest) := by
    have hd : ((optTok .WHITESPACE ws ++ optTok .VALUE v ++ (.NEWLINE, ['\n']) :: plToks ls) ++ rest).dropWhile
        (fun t => decide (t.1 = .WHITESPACE))
        = optTok .VALUE v ++ (.NEWLINE, ['\n']) :: (plToks ls ++ rest) := by
      unfold optTok
      by_cases hw : ws = [] <;> by_cases hv : v = [] <;> simp [hw, hv, List.dropWhile]
    have hf : firstLine [] (optTok .VALUE v ++ (.NEWLINE, ['\n']) :: (plToks ls ++ rest))
        = .ok (v, plToks ls ++ rest) := by
      unfold optTok
      by_cases hv : v = []
      · subst hv; simp [firstLine]
      · simp [hv, firstLine]
    have hc := contLines_plines ls (v ++ ['\n']) rest hrest
    have hj := accPieces_join ls [v] (by simp)
    simp only [Text.join, List.singleton_append] at hj
    simp only [fieldToks, List.cons_append, fieldValue, ↓reduceIte, hd, hf, hc, hj, trimNl_snoc]
  exact ⟨h1, loop_key paras cur k _ _ rest h1⟩

/-- the whole reader on a one-field document of this shape -/
theorem C06_lossy_empty_lines_doc (k ws v : Str) (ls : List PLine) :
    loop [] [] ((.KEY, k) :: fieldToks ws v ls) = .ok [[(k, Text.join ['\n'] (v :: ls.map PLine.piece))]] := by
  have := (C06_lossy_empty_lines k ws v ls [] [] [] (headNot_nil _)).2
  simp only [List.append_nil] at this
  rw [this, loop_nil]; simp [flush]

/-- non-vacuity and the tie to texts (closed witnesses): the token lists above ARE what the lexer
    produces; empty first line + white-space-only line + indented `#` line + value line -/
theorem C06_lossy_empty_lines_text :
    lex "A:\n \n #c\n d\n".toList
      = (.KEY, "A".toList) :: fieldToks [] [] [.ws " ".toList, .hash " ".toList "#c".toList,
          .value " ".toList "d".toList]
    ∧ Lossy.read "A:\n \n #c\n d\n".toList = .ok [[("A".toList, "\n\n\nd".toList)]]
    ∧ (∃ t, readStrict "A:\n \n #c\n d\n".toList = .ok t ∧ docItems t = [[("A".toList, "d".toList)]])
    ∧ Lossy.read "A: b\n \nC: d\n".toList
        = .ok [[("A".toList, "b\n".toList), ("C".toList, "d".toList)]]
    ∧ Lossy.read "A: b\n #c\n d\n".toList = .ok [[("A".toList, "b\n\nd".toList)]]
    ∧ Lossy.read "B:\n  # only\n".toList = .ok [[("B".toList, "\n".toList)]] := by
  have e : (parse "A:\n \n #c\n d\n".toList).errors = [] := by decide +kernel
  refine ⟨by decide +kernel, by decide +kernel,
    ⟨_, Props.C03.readStrict_of_no_errors _ e, by decide +kernel⟩, by decide +kernel, by decide +kernel,
    by decide +kernel⟩

example : Text.join ['\n'] ([] :: [PLine.ws " ".toList, .hash " ".toList "#c".toList,
    .value " ".toList "d".toList].map PLine.piece) = "\n\n\nd".toList := by decide

/-! ### 2. the blank-after-name condition on texts -/

/-- does the line begin with a field name directly followed by a space or tab? -/
def lineBlankAfterName (l : Str) : Bool :=
  match l with
  | [] => false
  | c :: cs =>
    c != '#' && isInitialKeyChar c &&
      (match cs.dropWhile isKeyChar with
       | d :: _ => isIndent d
       | [] => false)

/-- the lines of a text: CR and LF are each a line end -/
def splitLines : Str → List Str
  | [] => [[]]
  | c :: cs =>
    if isNewline c then [] :: splitLines cs
    else match splitLines cs with
      | [] => [[c]]
      | l :: ls => (c :: l) :: ls

/-- **text-level form of `blankAfterKey`**: some line begins with a name directly followed by a blank -/
def blankAfterKeyText (s : Str) : Bool := (splitLines s).any lineBlankAfterName

def blankAgree (ls : List Str) : Bool :=
  let s := render (ls.map Line.raw) true
  if (parse s).errors.isEmpty then
    blankAfterKey s == blankAfterKeyText s
      && ((match Lossy.read s with | .ok _ => true | .error _ => false) == !blankAfterKeyText s)
  else (match Lossy.read s with | .ok _ => false | .error _ => true)

/-- **bounded table (kind "witness")**: on the 584 small documents of `C03Exact.lists3` — whenever
    the lossless reader reports no error, `blankAfterKey` (tokens) = `blankAfterKeyText` (text) and the
    lossy reader accepts iff `blankAfterKeyText` is false; whenever it reports an error the lossy
    reader rejects -/
theorem C06_blank_text_small_scope : ∀ ls ∈ Props.C03Exact.lists3, blankAgree ls = true := by
  decide +kernel

/-- the no-error hypothesis is needed: in `":A b"` the name follows a COLON in column 1 -/
theorem C06_blank_text_needs_accept :
    blankAfterKey ":A b".toList = true ∧ blankAfterKeyText ":A b".toList = false
    ∧ (parse ":A b".toList).errors ≠ []
    ∧ blankAfterKeyText "A : b\n".toList = true ∧ blankAfterKeyText "X: y\r\nA\t: b".toList = true
    ∧ blankAfterKeyText "A: b c\n d e\n".toList = false := by
  refine ⟨?_, ?_, ?_, ?_, ?_, ?_⟩ <;> decide +kernel

end Deb822Verif.Props.C06Exact
