import Deb822Verif.Model.RelWrap
import Deb822Verif.Model.RelBuild
/-!
# C13 — an API-built empty entry is gone

The parser never makes an ENTRY node without a relation (for `a, , b` it makes no node at all for the
empty segment), but `Entry::new()` / `Entry::from(vec![])` put into a field through `insert` / `push` /
`From<Vec<Entry>>` is such a node. `Relations::wrap_and_sort` filters entries without relation before
it sorts and joins: the normal form of a field with such a node, and tokens of any kind around it, is
the normal form of the field without them (after seeded change C13-r8m1; harness op `rel.wrape`).
-/
namespace Deb822Verif.Props.C13Empty
open Deb822Verif Rel Node Rel.Wrap

/-- tokens never count: neither as entries nor as substitution variables -/
def AllToks (l : List RNode) : Prop := ∀ x ∈ l, x.isNode = false

theorem childNodes_toks (k : Kind) (A B sep : List RNode) (h : AllToks sep) :
    childNodes k (.node .ROOT (A ++ sep ++ B)) = childNodes k (.node .ROOT (A ++ B)) := by
  have : sep.filter (fun c => c.isNode && c.kind == k) = [] := by
    rw [List.filter_eq_nil_iff]
    intro x hx
    simp [h x hx]
  simp [childNodes, Node.children, List.filter_append, this]

/-- **the empty entry is gone**: an ENTRY node without any RELATION child, together with any
    separator tokens written next to it, does not change the normal form -/
theorem C13_empty_entry_gone (A B sep : List RNode) (e : RNode) (he : e.isNode = true)
    (hk : e.kind = .ENTRY) (hr : relations e = []) (hs : AllToks sep) :
    relationsWrap (.node .ROOT (A ++ (e :: sep) ++ B)) = relationsWrap (.node .ROOT (A ++ B)) := by
  have hE : entries (Node.node Kind.ROOT (A ++ (e :: sep) ++ B))
      = childNodes .ENTRY (.node .ROOT A) ++ e :: childNodes .ENTRY (.node .ROOT (sep ++ B)) := by
    simp [entries, childNodes, Node.children, List.filter_append, he, hk]
  have hE' : entries (Node.node Kind.ROOT (A ++ B))
      = childNodes .ENTRY (.node .ROOT A) ++ childNodes .ENTRY (.node .ROOT (sep ++ B)) := by
    have := childNodes_toks .ENTRY A B sep hs
    simp only [entries]
    rw [← this]
    simp [childNodes, Node.children, List.filter_append]
  have hS : childNodes .SUBSTVAR (Node.node Kind.ROOT (A ++ (e :: sep) ++ B))
      = childNodes .SUBSTVAR (.node .ROOT (A ++ B)) := by
    rw [← childNodes_toks .SUBSTVAR A B sep hs]
    simp [childNodes, Node.children, List.filter_append, he, hk]
  unfold relationsWrap
  rw [hE, hE', hS]
  simp [List.filter_append, hr]

/-- `Entry::new()` is such a node -/
example : Build.entryNew.isNode = true ∧ Build.entryNew.kind = .ENTRY ∧ relations Build.entryNew = [] := by
  decide

end Deb822Verif.Props.C13Empty
