import Deb822Verif.Spec.RelGrammar
import Deb822Verif.Lemmas.RelLexField
import Deb822Verif.Lemmas.RelParseField
import Deb822Verif.Lemmas.RelAccessField
import Deb822Verif.Lemmas.RelLossyField
import Deb822Verif.Props.C09
/-!
# C10 — well-formed relationship fields are read exactly as written, by both readers

Domain: `FieldA.WF` (Spec/RelGrammar.lean) — comma-separated entries (empty entries, trailing comma),
`|`-separated alternatives, `name[:archqual] [(op [epoch:]version)] [[!]arch …] [<[!]profile …> …]`,
`${substitution:variables}`, with an arbitrary gap (spaces, tabs, CRs, newlines) at every place
the grammar allows one.

Readers: `Rel.lex` / `Rel.parse` / the accessors of `Model/RelAccess.lean` (lossless),
`Rel.Lossy.readRelations` (lossy).

The code as it exists departs from the property on five constructs; each is excluded by an explicit
hypothesis below and comes with a closed witness (`decide +kernel`) that the full statement fails:

* F-C10-2 `hasNegatedArch`     — `Relation::architectures()` drops the `!` of `[!arch]` (lossless)
* F-C10-3 `hasCloseGap`        — whitespace between the version and `)` is an error (both readers)
* F-C10-4 `hasNegatedArch`     — the lossy reader rejects `[!arch]`
* F-C10-5 `hasMultiTermGroup`  — the lossy reader reads `<a b>` as two groups `<a> <b>`
* F-C10-6 `hasProfileEdgeGap`  — the lossy reader rejects whitespace after `<` / before `>`
* F-C10-7 `hasInnerNewline`    — the lossy reader rejects a newline inside a relation
-/
namespace Deb822Verif.Props.C10
open Deb822Verif Rel Node RelSpec

/-! ### stage 1: the lexer inverts the rendering -/

/-- lexing the text of a well-formed field yields exactly its token list -/
theorem C10_lex_inverts (f : FieldA) (h : f.WF) : lex f.str = f.toks := lex_field f h

/-! ### stage 2: the parser inverts the token list -/

theorem segParseOk_of (f : FieldA) (allow : Bool) (hc : f.hasCloseGap = false)
    (ha : allow = true ∨ f.hasSubstvar = false) : ∀ s ∈ f.segs, segParseOk allow s := by
  intro s hs
  constructor
  · intro r hr
    have := hc
    simp only [FieldA.hasCloseGap, List.any_eq_false] at this
    simpa using this r (by simp only [FieldA.rels, List.mem_flatMap]; exact ⟨s, hs, hr⟩)
  · intro hsv
    rcases ha with ha | ha
    · exact ha
    · simp only [FieldA.hasSubstvar, List.any_eq_false] at ha
      have := ha s hs
      rw [hsv] at this; exact absurd rfl this

/-
  Full statement (false of the code as it exists — finding F-C10-3, see `C10_parse_inverts_witness`):

    theorem C10_parse_inverts (f : FieldA) (h : f.WF) (allow : Bool)
        (ha : allow = true ∨ f.hasSubstvar = false) : parse f.str allow = ⟨f.tree, []⟩
-/
/-- reading the text of a well-formed field — without whitespace between a version and its `)` —
    yields exactly its tree and no error; with substitution variables allowed, or disallowed when
    the field has none -/
theorem C10_parse_inverts_partial (f : FieldA) (h : f.WF) (hc : f.hasCloseGap = false) (allow : Bool)
    (ha : allow = true ∨ f.hasSubstvar = false) : parse f.str allow = ⟨f.tree, []⟩ := by
  unfold parse
  rw [C10_lex_inverts f h]
  exact parse_field_toks allow f h (segParseOk_of f allow hc ha)

/-- `a (= 1 )` -/
def exCloseGap : FieldA :=
  ⟨[⟨[], .alts ⟨['a'], none, some ⟨[.ws [' ']], [], .Equal, [.ws [' ']], ⟨none, ['1']⟩, [.ws [' ']]⟩, none, []⟩ [], []⟩]⟩

/-- witness: a well-formed field with a space before `)` is *rejected* by the lossless reader -/
theorem C10_parse_inverts_witness :
    exCloseGap.WF ∧ exCloseGap.hasCloseGap = true ∧ exCloseGap.str = "a (= 1 )".toList
      ∧ (parse exCloseGap.str true).errors ≠ [] := by decide +kernel

/-! ### stage 3: the accessors expose what was written -/

/-
  Full statement (false of the code as it exists — findings F-C10-2 and F-C10-3):

    theorem C10_lossless (f : FieldA) (h : f.WF) (allow : Bool) (ha : allow = true ∨ f.hasSubstvar = false) :
        readRelaxed f.str allow = (f.tree, [])
        ∧ accEntries (readRelaxed f.str allow).1 = some f.view
        ∧ substvars (readRelaxed f.str allow).1 = f.substvars
-/
/-- the lossless reader reports no error on a well-formed field and its accessors expose exactly the
    entries, alternatives, names, architecture qualifiers, operators, versions (epochs and `~`
    included), architecture lists, profile groups and substitution variables that were written —
    provided no architecture is negated (F-C10-2) and no version is followed by whitespace (F-C10-3) -/
theorem C10_lossless_partial (f : FieldA) (h : f.WF) (hc : f.hasCloseGap = false)
    (hn : f.hasNegatedArch = false) (allow : Bool) (ha : allow = true ∨ f.hasSubstvar = false) :
    readRelaxed f.str allow = (f.tree, [])
      ∧ accEntries (readRelaxed f.str allow).1 = some f.view
      ∧ substvars (readRelaxed f.str allow).1 = f.substvars := by
  have hp := C10_parse_inverts_partial f h hc allow ha
  have e : readRelaxed f.str allow = (f.tree, []) := by simp [readRelaxed, hp]
  refine ⟨e, ?_, ?_⟩
  · rw [e]; exact accEntries_field f h hn
  · rw [e]; exact substvars_field f

/-- the strict reader accepts the same fields when they have no substitution variable -/
theorem C10_strict_partial (f : FieldA) (h : f.WF) (hc : f.hasCloseGap = false)
    (hs : f.hasSubstvar = false) : readStrict f.str = .ok f.tree := by
  simp [readStrict, C10_parse_inverts_partial f h hc false (Or.inr hs)]

/-- the accessors that do not involve architectures need no exclusion beyond F-C10-3: names,
    qualifiers, versions and profile groups of every relation node of the tree -/
theorem C10_accessors_rel (r : RelA) (hr : r.ok = true) (tail : List Tok) :
    name (r.node tail) = some r.name
      ∧ archqual (r.node tail) = r.archqual
      ∧ version (r.node tail) = .ok (r.version.map fun v => (v.op, v.ver.value))
      ∧ profiles (r.node tail) = r.profiles.map (fun g => g.items.map Item.profile)
      ∧ architectures (r.node tail) = r.archs.map (fun a => a.items.map Item.name) :=
  ⟨name_rel r tail, archqual_rel r tail, version_rel r tail hr, profiles_rel r tail hr,
    architectures_rel r tail⟩

/-- `a [!b]` -/
def exNegArch : FieldA :=
  ⟨[⟨[], .alts ⟨['a'], none, none, some ⟨[.ws [' ']], [⟨[], true, ['b']⟩], []⟩, []⟩ [], []⟩]⟩

/-- witness (F-C10-2): on `a [!b]` the lossless reader reports no error, but `architectures()`
    answers `["b"]` where `["!b"]` was written: the negation is lost -/
theorem C10_lossless_witness :
    exNegArch.WF ∧ exNegArch.hasCloseGap = false ∧ exNegArch.str = "a [!b]".toList
      ∧ (readRelaxed exNegArch.str true).2 = []
      ∧ accEntries (readRelaxed exNegArch.str true).1 ≠ some exNegArch.view
      ∧ ((accEntries (readRelaxed exNegArch.str true).1).map fun es => es.map fun e => e.map (·.architectures))
          = some [[some [['b']]]] := by decide +kernel

/-- the version that was written always parses (epoch below 2^32 is part of `WF`) … -/
theorem C10_version_parses (v : VersionA) (hv : v.ok = true) : Version.parse v.str = some v.value :=
  Version.parse_written v hv

/-- the second `unwrap()` of `Relation::version()` (on `IDENT` or `IDENT:IDENT`, the texts the parser
    accepts since fix 3b0cae0) fails exactly when the first token is all digits and exceeds `u32` -/
theorem C10_version_unwrap_iff (e body : Str) (he : isIdent e = true) (hb : isIdent body = true) :
    Version.parse (e ++ ':' :: body) = none ↔ (isDigits e = true ∧ 4294967296 ≤ digitsVal e) :=
  Version.parse_epoch_ident e body he hb

example : isIdent ['1'] = true ∧ isIdent "2.0".toList = true := by decide

/-- … and an epoch of 2^32 or more makes `Relation::version()` panic on a field the strict reader
    accepts (`a (= 4294967296:1)`; outside `WF`) -/
theorem C10_version_epoch_overflow_witness :
    (match readStrict "a (= 4294967296:1)".toList with
      | .ok t => (entries t).map (fun e => (relations e).map fun r => version r) == [[.error ()]]
      | .error _ => false) = true := by decide +kernel

/-! ### stage 4: the lossy reader -/

/-- `lossyOk` is exactly "outside the trigger regions of F-C10-3 … F-C10-7" -/
theorem C10_lossyOk_iff (f : FieldA) : f.lossyOk = true ↔
    (f.hasNegatedArch = false ∧ f.hasCloseGap = false ∧ f.hasMultiTermGroup = false
      ∧ f.hasProfileEdgeGap = false ∧ f.hasInnerNewline = false) := by
  simp only [FieldA.lossyOk, FieldA.hasNegatedArch, FieldA.hasCloseGap, FieldA.hasMultiTermGroup,
    FieldA.hasProfileEdgeGap, FieldA.hasInnerNewline, List.all_eq_true, List.any_eq_false]
  constructor
  · intro h
    refine ⟨?_, ?_, ?_, ?_, ?_⟩ <;> intro r hr <;> have := (RelA.lossyOk_iff r).1 (h r hr) <;> simp [this]
  · intro ⟨h1, h2, h3, h4, h5⟩ r hr
    exact (RelA.lossyOk_iff r).2 ⟨by simpa using h1 r hr, by simpa using h2 r hr, by simpa using h3 r hr,
      by simpa using h4 r hr, by simpa using h5 r hr⟩

/-
  Full statement (false of the code as it exists — findings F-C10-3 … F-C10-7):

    theorem C10_lossy (f : FieldA) (h : f.WF) (hs : f.hasSubstvar = false) :
        Lossy.readRelations f.str = .ok f.view
-/
/-- the lossy reader accepts a well-formed field without substitution variables and yields the
    structure that was written — outside the five constructs listed at the top of this file -/
theorem C10_lossy_partial (f : FieldA) (h : f.WF) (hs : f.hasSubstvar = false)
    (hn : f.hasNegatedArch = false) (hc : f.hasCloseGap = false) (hm : f.hasMultiTermGroup = false)
    (he : f.hasProfileEdgeGap = false) (hl : f.hasInnerNewline = false) :
    Lossy.readRelations f.str = .ok f.view :=
  readRelations_field f h hs ((C10_lossyOk_iff f).2 ⟨hn, hc, hm, he, hl⟩)

/-- both readers yield the same structure -/
theorem C10_same_structure_partial (f : FieldA) (h : f.WF) (hs : f.hasSubstvar = false)
    (hn : f.hasNegatedArch = false) (hc : f.hasCloseGap = false) (hm : f.hasMultiTermGroup = false)
    (he : f.hasProfileEdgeGap = false) (hl : f.hasInnerNewline = false) :
    (accEntries (readRelaxed f.str false).1).map Except.ok = some (Lossy.readRelations f.str) := by
  rw [C10_lossy_partial f h hs hn hc hm he hl,
    (C10_lossless_partial f h hc hn false (Or.inr hs)).2.1]
  rfl

/-- one relation with the given profile groups / architecture list -/
def mkField (archs : Option Bracket) (profs : List Bracket) (ver : Option VerPart) : FieldA :=
  ⟨[⟨[], .alts ⟨['a'], none, ver, archs, profs⟩ [], []⟩]⟩

/-- `a <b c>` -/
def exMultiTerm : FieldA := mkField none [⟨[.ws [' ']], [⟨[], false, ['b']⟩, ⟨[.ws [' ']], false, ['c']⟩], []⟩] none
/-- `a < b>` -/
def exEdgeGap : FieldA := mkField none [⟨[.ws [' ']], [⟨[.ws [' ']], false, ['b']⟩], []⟩] none
/-- `a\n(= 1)` -/
def exInnerNl : FieldA := mkField none [] (some ⟨[.nl], [], .Equal, [.ws [' ']], ⟨none, ['1']⟩, []⟩)

/-- witness (F-C10-4): `a [!b]` is rejected by the lossy reader -/
theorem C10_lossy_witness_negarch :
    exNegArch.WF ∧ exNegArch.hasSubstvar = false
      ∧ (match Lossy.readRelations exNegArch.str with | .ok _ => true | .error _ => false) = false := by
  decide +kernel

/-- witness (F-C10-5): `a <b c>` is accepted by the lossy reader but read as `a <b> <c>` -/
theorem C10_lossy_witness_multiterm :
    exMultiTerm.WF ∧ exMultiTerm.str = "a <b c>".toList
      ∧ Lossy.readRelations exMultiTerm.str ≠ .ok exMultiTerm.view
      ∧ Lossy.readRelations exMultiTerm.str
          = .ok [[⟨['a'], none, none, none, [[.Enabled ['b']], [.Enabled ['c']]]⟩]]
      ∧ exMultiTerm.view = [[⟨['a'], none, none, none, [[.Enabled ['b'], .Enabled ['c']]]⟩]] := by
  decide +kernel

/-- witness (F-C10-6): `a < b>` is rejected by the lossy reader -/
theorem C10_lossy_witness_edgegap :
    exEdgeGap.WF ∧ exEdgeGap.str = "a < b>".toList
      ∧ (match Lossy.readRelations exEdgeGap.str with | .ok _ => true | .error _ => false) = false := by
  decide +kernel

/-- witness (F-C10-7): `a\n(= 1)` is rejected by the lossy reader -/
theorem C10_lossy_witness_newline :
    exInnerNl.WF ∧ exInnerNl.str = "a\n(= 1)".toList
      ∧ (match Lossy.readRelations exInnerNl.str with | .ok _ => true | .error _ => false) = false := by
  decide +kernel

/-- witness (F-C10-3, lossy side): `a (= 1 )` is rejected by the lossy reader too -/
theorem C10_lossy_witness_closegap :
    (match Lossy.readRelations exCloseGap.str with | .ok _ => true | .error _ => false) = false := by
  decide +kernel

/-! ### non-vacuity: a field using every construct of the grammar, in a folded layout -/

/-- `libc6:any (>= 1:2.3~rc1-4) [amd64 i386] <!nocheck> <cross>\n | g++,\n ${shlibs:Depends}, ,x (<< 0),` -/
def exField : FieldA :=
  ⟨[ ⟨[], .alts
        ⟨"libc6".toList, some "any".toList,
          some ⟨[.ws [' ']], [], .GreaterThanEqual, [.ws [' ']], ⟨some ['1'], "2.3~rc1-4".toList⟩, []⟩,
          some ⟨[.ws [' ']], [⟨[], false, "amd64".toList⟩, ⟨[.ws [' ']], false, "i386".toList⟩], []⟩,
          [⟨[.ws [' ']], [⟨[], true, "nocheck".toList⟩], []⟩, ⟨[.ws [' ']], [⟨[], false, "cross".toList⟩], []⟩]⟩
        [⟨[.nl, .ws [' ']], [.ws [' ']], ⟨"g++".toList, none, none, none, []⟩⟩], []⟩,
     ⟨[.nl, .ws [' ']], .substvar "shlibs".toList ["Depends".toList], []⟩,
     ⟨[.ws [' ']], .empty, []⟩,
     ⟨[], .alts ⟨['x'], none, some ⟨[.ws [' ']], [], .LessThan, [.ws [' ']], ⟨none, ['0']⟩, []⟩, none, []⟩ [], []⟩,
     ⟨[], .empty, []⟩ ]⟩

example : exField.str =
    "libc6:any (>= 1:2.3~rc1-4) [amd64 i386] <!nocheck> <cross>\n | g++,\n ${shlibs:Depends}, ,x (<< 0),".toList := by
  decide +kernel

example : exField.WF := by decide +kernel
example : exField.hasCloseGap = false ∧ exField.hasNegatedArch = false ∧ exField.hasSubstvar = true := by
  decide +kernel

/-- the hypotheses of `C10_lossy_partial` are satisfiable (the example without its substvar) -/
def exFieldLossy : FieldA := ⟨exField.segs.filter fun s => !s.entry.isSubstvar⟩
example : exFieldLossy.WF ∧ exFieldLossy.hasSubstvar = false ∧ exFieldLossy.lossyOk = true
    ∧ exFieldLossy.view.length = 2 := by decide +kernel

example : (readRelaxed exField.str true).2 = [] := (C10_lossless_partial exField (by decide +kernel)
  (by decide +kernel) (by decide +kernel) true (Or.inl rfl)).1 ▸ rfl

end Deb822Verif.Props.C10
