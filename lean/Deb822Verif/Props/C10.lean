import Deb822Verif.Spec.RelGrammar
import Deb822Verif.Lemmas.RelLexField
import Deb822Verif.Lemmas.RelParseField
import Deb822Verif.Lemmas.RelAccessField
import Deb822Verif.Lemmas.RelLossyField
import Deb822Verif.Props.C09
/-!
# C10 — well-formed relationship fields are read exactly as written, by both readers

Domain: `FieldA.WF` (Spec/RelGrammar.lean) — comma-separated entries (empty entries, trailing comma),
`|`-separated alternatives, `name[:archqual] [(op [epoch:]version)] [[!]arch …] [<[!]profile …> …]`
(with an epoch the version may itself contain colons, Policy 5.6.12: `1:2:3`),
`${substitution:variables}`, with an arbitrary gap (spaces, tabs, CRs, newlines) at every place
the grammar allows one.

Readers: `Rel.lex` / `Rel.parse` / the accessors of `Model/RelAccess.lean` (lossless),
`Rel.Lossy.readRelations` (lossy).

All clauses are full statements: the six departures found earlier (F-C10-2 … F-C10-7: negated
architectures, whitespace before `)`, multi-term profile groups, whitespace at the edges of `<>`,
newlines inside a relation) are fixed in the code and in the model; their former witnesses are
kept as positive regression statements `C10_fixed_*` (and as requests in corpus/C10/fixed.req).
So is the seventh: the lossless parser took only `IDENT [COLON IDENT]` for a version and reported three
errors on `a (>= 1:2:3)` (fixed by 4ba50b0: `IDENT (COLON IDENT)*`); `C10_fixed_colon_version`.
-/
namespace Deb822Verif.Props.C10
open Deb822Verif Rel Node RelSpec

/-! ### stage 1: the lexer inverts the rendering -/

/-- lexing the text of a well-formed field yields exactly its token list -/
theorem C10_lex_inverts (f : FieldA) (h : f.WF) : lex f.str = f.toks := lex_field f h

/-! ### stage 2: the parser inverts the token list -/

theorem segParseOk_of (f : FieldA) (allow : Bool) (ha : allow = true ∨ f.hasSubstvar = false) :
    ∀ s ∈ f.segs, segParseOk allow s := by
  intro s hs hsv
  rcases ha with ha | ha
  · exact ha
  · simp only [FieldA.hasSubstvar, List.any_eq_false] at ha
    have := ha s hs
    rw [hsv] at this; exact absurd rfl this

/-- reading the text of a well-formed field yields exactly its tree and no error; with substitution
    variables allowed, or disallowed when the field has none -/
theorem C10_parse_inverts (f : FieldA) (h : f.WF) (allow : Bool)
    (ha : allow = true ∨ f.hasSubstvar = false) : parse f.str allow = ⟨f.tree, []⟩ := by
  unfold parse
  rw [C10_lex_inverts f h]
  exact parse_field_toks allow f h (segParseOk_of f allow ha)

/-! ### stage 3: the accessors expose what was written -/

/-- the lossless reader reports no error on a well-formed field and its accessors expose exactly the
    entries, alternatives, names, architecture qualifiers, operators, versions (epochs and `~`
    included), architecture lists with their negations, profile groups and substitution variables
    that were written -/
theorem C10_lossless (f : FieldA) (h : f.WF) (allow : Bool) (ha : allow = true ∨ f.hasSubstvar = false) :
    readRelaxed f.str allow = (f.tree, [])
      ∧ accEntries (readRelaxed f.str allow).1 = some f.view
      ∧ substvars (readRelaxed f.str allow).1 = f.substvars := by
  have hp := C10_parse_inverts f h allow ha
  have e : readRelaxed f.str allow = (f.tree, []) := by simp [readRelaxed, hp]
  refine ⟨e, ?_, ?_⟩
  · rw [e]; exact accEntries_field f h
  · rw [e]; exact substvars_field f

/-- the strict reader accepts the same fields when they have no substitution variable -/
theorem C10_strict (f : FieldA) (h : f.WF) (hs : f.hasSubstvar = false) : readStrict f.str = .ok f.tree := by
  simp [readStrict, C10_parse_inverts f h false (Or.inr hs)]

/-- every accessor on every relation node of the expected tree -/
theorem C10_accessors_rel (r : RelA) (hr : r.ok = true) (tail : List Tok) :
    name (r.node tail) = some r.name
      ∧ archqual (r.node tail) = r.archqual
      ∧ version (r.node tail) = .ok (r.version.map fun v => (v.op, v.ver.value))
      ∧ profiles (r.node tail) = r.profiles.map (fun g => g.items.map Item.profile)
      ∧ architectures (r.node tail) = r.archs.map (fun a => a.items.map Item.text) :=
  ⟨name_rel r tail, archqual_rel r tail, version_rel r tail hr, profiles_rel r tail hr,
    architectures_rel r tail⟩

/-- the version that was written always parses (epoch below 2^32 is part of `WF`) … -/
theorem C10_version_parses (v : VersionA) (hv : v.ok = true) : Version.parse v.str = some v.value :=
  Version.parse_written v hv

/-- the second `unwrap()` of `Relation::version()` on `IDENT:IDENT` fails exactly when the first token
    is all digits and exceeds `u32` (for `IDENT (:IDENT)+`, all the texts with a colon that the parser
    accepts since fix 4ba50b0, see `C10_version_unwrap_iff_colons`) -/
theorem C10_version_unwrap_iff (e body : Str) (he : isIdent e = true) (hb : isIdent body = true) :
    Version.parse (e ++ ':' :: body) = none ↔ (isDigits e = true ∧ 4294967296 ≤ digitsVal e) :=
  Version.parse_epoch_ident e body he hb

example : isIdent ['1'] = true ∧ isIdent "2.0".toList = true := by decide

/-- the same for any number of `:IDENT` after the first token: `Version::from_str` on the text of
    `IDENT (COLON IDENT)+` fails exactly when the first token is all digits and exceeds `u32` -/
theorem C10_version_unwrap_iff_colons (e q : Str) (qs : List Str) (he : isIdent e = true)
    (hq : ∀ x ∈ q :: qs, isIdent x = true) :
    Version.parse (e ++ ((q :: qs).map fun x => ':' :: x).flatten) = none
      ↔ (isDigits e = true ∧ 4294967296 ≤ digitsVal e) :=
  Version.parse_epoch_idents e q qs he hq

example : isIdent ['1'] = true ∧ ∀ x ∈ [['2'], "3-1".toList], isIdent x = true := by decide

/-- … and an epoch of 2^32 or more makes `Relation::version()` panic on a field the strict reader
    accepts (`a (= 4294967296:1)`; outside `WF`) -/
theorem C10_version_epoch_overflow_witness :
    (match readStrict "a (= 4294967296:1)".toList with
      | .ok t => (entries t).map (fun e => (relations e).map fun r => version r) == [[.error ()]]
      | .error _ => false) = true := by decide +kernel

/-! ### stage 4: the lossy reader -/

/-- the lossy reader accepts a well-formed field without substitution variables and yields the
    structure that was written -/
theorem C10_lossy (f : FieldA) (h : f.WF) (hs : f.hasSubstvar = false) :
    Lossy.readRelations f.str = .ok f.view := readRelations_field f h hs

/-- both readers yield the same structure -/
theorem C10_same_structure (f : FieldA) (h : f.WF) (hs : f.hasSubstvar = false) :
    (accEntries (readRelaxed f.str false).1).map Except.ok = some (Lossy.readRelations f.str) := by
  rw [C10_lossy f h hs, (C10_lossless f h false (Or.inr hs)).2.1]
  rfl

/-! ### regression statements for the fixed findings -/

/-- one relation `a` with the given parts -/
def mkField (archs : Option Bracket) (profs : List Bracket) (ver : Option VerPart) : FieldA :=
  ⟨[⟨[], .alts ⟨['a'], none, ver, archs, profs⟩ [], []⟩]⟩

/-- `a (= 1 )` -/
def exCloseGap : FieldA := mkField none [] (some ⟨[.ws [' ']], [], .Equal, [.ws [' ']], ⟨none, ['1']⟩, [.ws [' ']]⟩)
/-- `a [!b]` -/
def exNegArch : FieldA := mkField (some ⟨[.ws [' ']], [⟨[], true, ['b']⟩], []⟩) [] none
/-- `a <b c>` -/
def exMultiTerm : FieldA := mkField none [⟨[.ws [' ']], [⟨[], false, ['b']⟩, ⟨[.ws [' ']], false, ['c']⟩], []⟩] none
/-- `a < b>` -/
def exEdgeGap : FieldA := mkField none [⟨[.ws [' ']], [⟨[.ws [' ']], false, ['b']⟩], []⟩] none
/-- `a\n(= 1)` -/
def exInnerNl : FieldA := mkField none [] (some ⟨[.nl], [], .Equal, [.ws [' ']], ⟨none, ['1']⟩, []⟩)

/-- `a (>= 1:2:3)`: epoch `1`, upstream version `2:3` -/
def exColonVer : FieldA :=
  mkField none [] (some ⟨[.ws [' ']], [], .GreaterThanEqual, [.ws [' ']], ⟨some ['1'], "2:3".toList⟩, []⟩)

/-- (fixed by 4ba50b0) `a (>= 1:2:3)` — a colon in the upstream part, allowed when there is an epoch —
    is well-formed; the lossless parser reports no error and its accessors expose the version that
    was written, text `1:2:3` (epoch 1, upstream `2:3`), as does the lossy reader -/
theorem C10_fixed_colon_version :
    exColonVer.WF ∧ exColonVer.str = "a (>= 1:2:3)".toList
      ∧ (parse exColonVer.str false).errors = []
      ∧ accEntries (readRelaxed exColonVer.str false).1 = some exColonVer.view
      ∧ exColonVer.view
          = [[⟨['a'], none, none, some (.GreaterThanEqual, ⟨some 1, "2:3".toList, none⟩), []⟩]]
      ∧ exColonVer.view.map (fun e => e.map fun r => r.version.map fun p => p.2.display)
          = [[some "1:2:3".toList]]
      ∧ Lossy.readRelations exColonVer.str = .ok exColonVer.view := by decide +kernel

/-- … and the tree is the expected one: `IDENT:1 COLON IDENT:2 COLON IDENT:3` inside VERSION -/
theorem C10_fixed_colon_version_tree : parse exColonVer.str false = ⟨exColonVer.tree, []⟩ :=
  C10_parse_inverts exColonVer C10_fixed_colon_version.1 false (Or.inr (by decide +kernel))

/-- F-C10-3 (fixed): `a (= 1 )` is read without error by both readers -/
theorem C10_fixed_closegap :
    exCloseGap.WF ∧ exCloseGap.hasCloseGap = true ∧ exCloseGap.str = "a (= 1 )".toList
      ∧ (parse exCloseGap.str true).errors = []
      ∧ Lossy.readRelations exCloseGap.str = .ok exCloseGap.view := by decide +kernel

/-- F-C10-2 (fixed): on `a [!b]` `architectures()` answers `["!b"]` -/
theorem C10_fixed_negarch_lossless :
    exNegArch.WF ∧ exNegArch.hasNegatedArch = true ∧ exNegArch.str = "a [!b]".toList
      ∧ (readRelaxed exNegArch.str true).2 = []
      ∧ accEntries (readRelaxed exNegArch.str true).1 = some exNegArch.view
      ∧ exNegArch.view = [[⟨['a'], none, some ["!b".toList], none, []⟩]] := by decide +kernel

/-- F-C10-4 (fixed): `a [!b]` is accepted by the lossy reader, with `"!b"` -/
theorem C10_fixed_negarch_lossy :
    Lossy.readRelations exNegArch.str = .ok [[⟨['a'], none, some ["!b".toList], none, []⟩]] := by
  decide +kernel

/-- F-C10-5 (fixed): `a <b c>` is one restriction list of two terms for the lossy reader -/
theorem C10_fixed_multiterm :
    exMultiTerm.WF ∧ exMultiTerm.hasMultiTermGroup = true ∧ exMultiTerm.str = "a <b c>".toList
      ∧ Lossy.readRelations exMultiTerm.str
          = .ok [[⟨['a'], none, none, none, [[.Enabled ['b'], .Enabled ['c']]]⟩]] := by decide +kernel

/-- F-C10-6 (fixed): `a < b>` is accepted by the lossy reader -/
theorem C10_fixed_edgegap :
    exEdgeGap.WF ∧ exEdgeGap.hasProfileEdgeGap = true ∧ exEdgeGap.str = "a < b>".toList
      ∧ Lossy.readRelations exEdgeGap.str = .ok exEdgeGap.view := by decide +kernel

/-- F-C10-7 (fixed): `a\n(= 1)` is accepted by the lossy reader -/
theorem C10_fixed_newline :
    exInnerNl.WF ∧ exInnerNl.hasInnerNewline = true ∧ exInnerNl.str = "a\n(= 1)".toList
      ∧ Lossy.readRelations exInnerNl.str = .ok exInnerNl.view := by decide +kernel

/-! ### non-vacuity: a field using every construct of the grammar, in a folded layout -/

/-- `libc6:any (>= 1:2.3~rc1-4 ) [amd64 !i386] < !nocheck stage1> <cross>\n | g++,\n ${shlibs:Depends}, ,x\n(<< 0),` -/
def exField : FieldA :=
  ⟨[ ⟨[], .alts
        ⟨"libc6".toList, some "any".toList,
          some ⟨[.ws [' ']], [], .GreaterThanEqual, [.ws [' ']], ⟨some ['1'], "2.3~rc1-4".toList⟩, [.ws [' ']]⟩,
          some ⟨[.ws [' ']], [⟨[], false, "amd64".toList⟩, ⟨[.ws [' ']], true, "i386".toList⟩], []⟩,
          [⟨[.ws [' ']], [⟨[.ws [' ']], true, "nocheck".toList⟩, ⟨[.ws [' ']], false, "stage1".toList⟩], []⟩,
           ⟨[.ws [' ']], [⟨[], false, "cross".toList⟩], []⟩]⟩
        [⟨[.nl, .ws [' ']], [.ws [' ']], ⟨"g++".toList, none, none, none, []⟩⟩], []⟩,
     ⟨[.nl, .ws [' ']], .substvar "shlibs".toList ["Depends".toList], []⟩,
     ⟨[.ws [' ']], .empty, []⟩,
     ⟨[], .alts ⟨['x'], none, some ⟨[.nl], [], .LessThan, [.ws [' ']], ⟨none, ['0']⟩, []⟩, none, []⟩ [], []⟩,
     ⟨[], .empty, []⟩ ]⟩

example : exField.str =
    "libc6:any (>= 1:2.3~rc1-4 ) [amd64 !i386] < !nocheck stage1> <cross>\n | g++,\n ${shlibs:Depends}, ,x\n(<< 0),".toList := by
  decide +kernel

example : exField.WF := by decide +kernel
example : exField.hasSubstvar = true := by decide +kernel

/-- the hypotheses of `C10_lossy` / `C10_strict` are satisfiable (the example without its substvar) -/
def exFieldLossy : FieldA := ⟨exField.segs.filter fun s => !s.entry.isSubstvar⟩
example : exFieldLossy.WF ∧ exFieldLossy.hasSubstvar = false ∧ exFieldLossy.view.length = 2 := by
  decide +kernel

example : (readRelaxed exField.str true).2 = [] :=
  (C10_lossless exField (by decide +kernel) true (Or.inl rfl)).1 ▸ rfl

end Deb822Verif.Props.C10
