import Deb822Verif.Props.C13Order
/-!
# C13 (continued) — the result does not depend on the sorting algorithm

The model writes Rust's `sort_by` as `List.mergeSort` (trusted-base sentence "any correct sort gives
the same list").  Here that sentence is a theorem: `relationsWrapS srt` is `Relations::wrap_and_sort`
with the three sorts done by an arbitrary function `srt cmp l`; `SortSpec srt` is the contract of
`sort_by`: the result is a permutation of `l`, and it is sorted for `cmp` whenever `cmp` is a total
preorder on the elements of `l`.  For every such `srt` the call succeeds on a well-formed field and
prints what the model with `List.mergeSort` prints (`C13_sort_independent`), because a tie under
`cmp.then(text)` is a pair of textually identical elements.
-/
set_option linter.unusedSimpArgs false
set_option linter.unusedVariables false
namespace Deb822Verif.Props.C13
open Deb822Verif Rel Node RelSpec DebVersion Lossy Rel.Wrap

/-- `cmp` is a total preorder on the elements that satisfy `P` -/
structure PreCmpOn {α : Type} (P : α → Prop) (cmp : α → α → Ordering) : Prop where
  swap : ∀ a b, P a → P b → cmp b a = (cmp a b).swap
  le_trans : ∀ a b c, P a → P b → P c → cmp a b ≠ .gt → cmp b c ≠ .gt → cmp a c ≠ .gt

theorem PreCmpOn.of_pre {α : Type} {cmp : α → α → Ordering} (h : PreCmp cmp) (P : α → Prop) : PreCmpOn P cmp :=
  ⟨fun a b _ _ => h.swap a b, fun a b c _ _ _ => h.le_trans a b c⟩

/-- **the contract of `sort_by`**: a permutation of the input; sorted for the comparison it is given
    whenever that comparison is a total preorder on the elements of the input -/
def SortSpec {α : Type} (srt : (α → α → Ordering) → List α → List α) : Prop :=
  ∀ cmp l, (srt cmp l).Perm l ∧
    (PreCmpOn (fun x => x ∈ l) cmp → (srt cmp l).Pairwise (fun a b => leOf cmp a b = true))

/-- `List.mergeSort` meets the contract -/
theorem sortSpec_mergeSort {α : Type} : SortSpec (fun (cmp : α → α → Ordering) l => l.mergeSort (leOf cmp)) := by
  intro cmp l
  refine ⟨List.mergeSort_perm _ _, ?_⟩
  intro hc
  -- on the subtype of the elements of `l` the comparison is a total preorder
  let cmp' : {x // x ∈ l} → {x // x ∈ l} → Ordering := fun a b => cmp a.1 b.1
  have hc' : PreCmp cmp' :=
    ⟨fun a b => hc.swap a.1 b.1 a.2 b.2, fun a b c => hc.le_trans a.1 b.1 c.1 a.2 b.2 c.2⟩
  have hm : (l.attach.mergeSort (leOf cmp')).map Subtype.val = l.mergeSort (leOf cmp) := by
    rw [List.map_mergeSort (r := leOf cmp') (s := leOf cmp) (f := Subtype.val) (fun a _ b _ => rfl),
      List.attach_map_subtype_val]
  show (l.mergeSort (leOf cmp)).Pairwise _
  rw [← hm, List.pairwise_map]
  exact pairwise_sort hc' l.attach

/-- a permutation of an image is the image of a permutation -/
theorem perm_map_exists {α β : Type} (f : α → β) :
    ∀ (l : List β) (m : List α), l.Perm (m.map f) → ∃ m' : List α, m'.Perm m ∧ l = m'.map f := by
  intro l
  induction l with
  | nil =>
    intro m h
    have : m.map f = [] := List.Perm.eq_nil h.symm
    exact ⟨m, List.Perm.refl m, this.symm⟩
  | cons x l ih =>
    intro m h
    have hx : x ∈ m.map f := h.subset (by simp)
    obtain ⟨y, hy, rfl⟩ := List.mem_map.1 hx
    obtain ⟨m₁, m₂, rfl⟩ := List.append_of_mem hy
    have h' : l.Perm ((m₁ ++ m₂).map f) := by
      have : (f y :: l).Perm (f y :: (m₁ ++ m₂).map f) := by
        refine h.trans ?_
        simp only [List.map_append, List.map_cons]
        exact List.perm_middle
      exact this.cons_inv
    obtain ⟨m', hp, rfl⟩ := ih (m₁ ++ m₂) h'
    exact ⟨y :: m', (hp.cons y).trans List.perm_middle.symm, rfl⟩

/-- a contract-abiding sort of an image, the comparison of the images being a total preorder `cmpA`
    on the originals whose ties are equal elements: the image of the `List.mergeSort` of the originals -/
theorem srt_map_eq {α β : Type} (srt : (β → β → Ordering) → List β → List β) (hs : SortSpec srt)
    (f : α → β) (cmpB : β → β → Ordering) (cmpA : α → α → Ordering) (hA : PreCmp cmpA) (l : List α)
    (hcmp : ∀ a ∈ l, ∀ b ∈ l, cmpB (f a) (f b) = cmpA a b)
    (htie : ∀ a ∈ l, ∀ b ∈ l, cmpA a b = .eq → a = b) :
    srt cmpB (l.map f) = (l.mergeSort (leOf cmpA)).map f := by
  obtain ⟨hperm, hsorted⟩ := hs cmpB (l.map f)
  obtain ⟨l', hp', he⟩ := perm_map_exists f _ l hperm
  have hon : PreCmpOn (fun x => x ∈ l.map f) cmpB := by
    constructor
    · intro a b ha hb
      obtain ⟨a', ha', rfl⟩ := List.mem_map.1 ha
      obtain ⟨b', hb', rfl⟩ := List.mem_map.1 hb
      rw [hcmp a' ha' b' hb', hcmp b' hb' a' ha']; exact hA.swap a' b'
    · intro a b c ha hb hcm
      obtain ⟨a', ha', rfl⟩ := List.mem_map.1 ha
      obtain ⟨b', hb', rfl⟩ := List.mem_map.1 hb
      obtain ⟨c', hcm', rfl⟩ := List.mem_map.1 hcm
      rw [hcmp a' ha' b' hb', hcmp b' hb' c' hcm', hcmp a' ha' c' hcm']; exact hA.le_trans a' b' c'
  have hs' := hsorted hon
  rw [he, List.pairwise_map] at hs'
  have hs'' : l'.Pairwise (fun a b => leOf cmpA a b = true) := by
    refine hs'.imp_of_mem ?_
    intro a b ha hb hab
    simpa [leOf, hcmp a (hp'.subset ha) b (hp'.subset hb)] using hab
  have : l' = l.mergeSort (leOf cmpA) :=
    sorted_perm_eq hA l' _ (fun a ha b hb => htie a (hp'.subset ha) b (hp'.subset hb))
      (hp'.trans (List.mergeSort_perm _ _).symm) hs'' (pairwise_sort hA l)
  rw [he, this]

/-! ## wrap-and-sort with an arbitrary sort -/

/-- `Entry::wrap_and_sort` (`Rel.Wrap.entryWrap`) with `sort_by` = `srt` -/
def entryWrapS (srt : (RNode → RNode → Ordering) → List RNode → List RNode) (e : RNode) : Outcome RNode :=
  match mapO relationWrap (relations e) with
  | .panic s => .panic s
  | .ok rs =>
    if rs.all fun r => (accRelation r).isSome then .ok (buildEntry (srt relNodeCmp rs))
    else .panic "relations.rs Relation::cmp: accessor unwrap on a wrapped relation"

/-- `Relations::wrap_and_sort` (`Rel.Wrap.relationsWrap`) with `sort_by` / `sort_by_key` = `srt` -/
def relationsWrapS (srt : (RNode → RNode → Ordering) → List RNode → List RNode) (root : RNode) :
    Outcome RNode :=
  match mapO (entryWrapS srt) ((entries root).filter fun e => !(relations e).isEmpty) with
  | .panic s => .panic s
  | .ok es =>
    .ok (buildRoot (srt entryNodeCmp es
      ++ srt (fun a b => strCmp a.text b.text) (childNodes .SUBSTVAR root)))

/-- with `List.mergeSort` it is the model of `Model/RelWrap.lean` -/
theorem relationsWrapS_mergeSort (root : RNode) :
    relationsWrapS (fun cmp l => l.mergeSort (leOf cmp)) root = relationsWrap root := rfl

theorem entryWrapS_of_acc (srt : (RNode → RNode → Ordering) → List RNode → List RNode) (hs : SortSpec srt)
    (e : RNode) (vs : List RV) (hacc : (relations e).mapM accRelation = some vs)
    (hv : ∀ v ∈ vs, validR v = true) : entryWrapS srt e = .ok (buildEntryV (sortRels vs)) := by
  have h1 : mapO relationWrap (relations e) = .ok (vs.map buildRel) :=
    mapO_of_mapM (P := fun _ => True) (fun a y hy _ => by simp [relationWrap, hy]) _ _ hacc (fun _ _ => trivial)
  have h2 : ((vs.map buildRel).all fun r => (accRelation r).isSome) = true := by
    simp only [List.all_eq_true, List.mem_map]
    rintro _ ⟨v, hvm, rfl⟩
    simp [acc_buildRel v (hv v hvm)]
  have h3 : srt relNodeCmp (vs.map buildRel) = (sortRels vs).map buildRel :=
    srt_map_eq srt hs buildRel relNodeCmp relKeyCmp relKeyCmp_pre vs
      (fun a ha b hb => relNodeCmp_build a b (hv a ha) (hv b hb))
      (fun a ha b hb => relKeyCmp_tie (hv a ha) (hv b hb))
  simp only [entryWrapS, h1, h2, if_true, h3, buildEntryV]

theorem relationsWrapS_of_acc (srt : (RNode → RNode → Ordering) → List RNode → List RNode) (hs : SortSpec srt)
    (root : RNode) (V : List (List RV))
    (hacc : (entries root).mapM (fun e => (relations e).mapM accRelation) = some V)
    (hval : ∀ e ∈ V, e ≠ [] ∧ ∀ v ∈ e, validR v = true) :
    relationsWrapS srt root
      = .ok (buildRoot ((sortEntries V).map buildEntryV
          ++ srt (fun a b => strCmp a.text b.text) (childNodes .SUBSTVAR root))) := by
  have hfilter : (entries root).filter (fun e => !(relations e).isEmpty) = entries root := by
    apply List.filter_eq_self.2
    intro e he
    obtain ⟨vs, hvs, hm⟩ := mapM_some_mem _ _ hacc e he
    cases hr : relations e with
    | nil => rw [hr] at hm; simp at hm; exact absurd hm (hval vs hvs).1
    | cons x xs => rfl
  have h1 : mapO (entryWrapS srt) (entries root) = .ok (V.map fun vs => buildEntryV (sortRels vs)) :=
    mapO_of_mapM (P := fun vs => ∀ v ∈ vs, validR v = true)
      (fun e vs hvs hP => entryWrapS_of_acc srt hs e vs hvs hP) _ _ hacc (fun vs hvs => (hval vs hvs).2)
  have h2 : srt entryNodeCmp (V.map fun vs => buildEntryV (sortRels vs)) = (sortEntries V).map buildEntryV := by
    have := srt_map_eq srt hs buildEntryV entryNodeCmp entryKeyCmp entryKeyCmp_pre (V.map sortRels)
      (by
        intro a ha b hb
        obtain ⟨a', ha', rfl⟩ := List.mem_map.1 ha
        obtain ⟨b', hb', rfl⟩ := List.mem_map.1 hb
        exact entryNodeCmp_build _ _
          (fun v hv => (hval a' ha').2 v (mem_sortRels.1 hv))
          (fun v hv => (hval b' hb').2 v (mem_sortRels.1 hv)))
      (by
        intro a ha b hb
        obtain ⟨a', ha', rfl⟩ := List.mem_map.1 ha
        obtain ⟨b', hb', rfl⟩ := List.mem_map.1 hb
        exact entryKeyCmp_tie (validEntry_sortRels (hval a' ha')) (validEntry_sortRels (hval b' hb')))
    rw [List.map_map] at this
    exact this
  simp only [relationsWrapS, hfilter, h1, h2]

/-- **C13, independence of the sorting algorithm.** Let `srt` be any function meeting the contract
    of `sort_by` (a permutation; sorted whenever the comparison is a total preorder on the elements).
    `Relations::wrap_and_sort` run with `srt` instead of `List.mergeSort` does not panic on a
    well-formed field and prints exactly what the model prints; its entries are the same nodes. -/
theorem C13_sort_independent (srt : (RNode → RNode → Ordering) → List RNode → List RNode)
    (hs : SortSpec srt) (f : FieldA) (h : f.WF) :
    ∃ out, relationsWrapS srt f.tree = .ok out ∧ out.text = (outTree f).text
      ∧ entries out = entries (outTree f) := by
  have hN : ∀ c ∈ srt (fun a b => strCmp a.text b.text) (childNodes .SUBSTVAR f.tree),
      (c.isNode && c.kind == .SUBSTVAR) = true :=
    fun c hc => mem_childNodes ((hs _ _).1.subset hc)
  have hN' : ∀ c ∈ sortedSubstNodes f.tree, (c.isNode && c.kind == .SUBSTVAR) = true :=
    fun c hc => substNodes_kind hc
  refine ⟨_, relationsWrapS_of_acc srt hs f.tree f.view (accEntries_field f h) (field_view_valid f h), ?_, ?_⟩
  · have hpre : PreCmp (fun a b : RNode => strCmp a.text b.text) := strCmp_pre.comap Node.text
    have ht : (srt (fun a b => strCmp a.text b.text) (childNodes .SUBSTVAR f.tree)).map Node.text
        = (sortedSubstNodes f.tree).map Node.text :=
      sorted_unique hpre Node.text _ _ (fun a _ b _ hab => strCmp_eq hab) (hs _ _).1
        ((hs _ _).2 (PreCmpOn.of_pre hpre _))
    simp only [outTree, outView, buildRoot_text, List.map_append, ht]
  · rw [outTree, outView, entries_out _ _ hN, entries_out _ _ hN']

/-- the same on the level of the accessor values: any two functions that return sorted permutations
    for the two sort keys of the code produce the normalised structure of the model -/
theorem C13_sort_independent_view (srtR : List RV → List RV) (srtE : List (List RV) → List (List RV))
    (hR : IsSortFor relKeyCmp srtR) (hE : IsSortFor entryKeyCmp srtE) (f : FieldA) (h : f.WF) :
    srtE (f.view.map srtR) = outView f := by
  have hval := field_view_valid f h
  have hmap : f.view.map srtR = f.view.map sortRels := by
    apply List.map_congr_left
    intro e he
    exact sorted_perm_eq relKeyCmp_pre _ _
      (fun a ha b hb => relKeyCmp_tie ((hval e he).2 a ((hR e).1.subset ha)) ((hval e he).2 b ((hR e).1.subset hb)))
      ((hR e).1.trans (List.mergeSort_perm _ _).symm) (hR e).2 (sortRels_sorted e)
  rw [hmap]
  have hve : ∀ a ∈ f.view.map sortRels, ValidEntry a := by
    intro a ha
    obtain ⟨a', ha', rfl⟩ := List.mem_map.1 ha
    exact validEntry_sortRels (hval a' ha')
  exact sorted_perm_eq entryKeyCmp_pre _ _
    (fun a ha b hb => entryKeyCmp_tie (hve a ((hE _).1.subset ha)) (hve b ((hE _).1.subset hb)))
    ((hE _).1.trans (List.mergeSort_perm _ _).symm) (hE _).2 (sortEntries_sorted f.view)

/-- **C13, sort uniqueness under the sort keys of the code** (`cmp` THEN printed text): every sorted
    permutation of a list of alternatives prints like the one `List.mergeSort` returns, and so does
    every sorted permutation of a list of entries — for arbitrary values, valid or not: elements that
    tie under the key are textually identical. -/
theorem C13_sort_unique :
    (∀ e e' : List RV, e'.Perm e → e'.Pairwise (fun a b => leOf relKeyCmp a b = true) →
        e'.map showRelation = (sortRels e).map showRelation)
    ∧ (∀ V V' : List (List RV), V'.Perm V → V'.Pairwise (fun a b => leOf entryKeyCmp a b = true) →
        V'.map entryText = (V.mergeSort (leOf entryKeyCmp)).map entryText) :=
  ⟨fun e e' hp hs => sorted_unique relKeyCmp_pre showRelation e e'
      (fun a _ b _ h => strCmp_eq (then_eq_right h)) hp hs,
    fun V V' hp hs => sorted_unique entryKeyCmp_pre entryText V V'
      (fun a _ b _ h => strCmp_eq (then_eq_right h)) hp hs⟩

/-! ## non-vacuity -/

/-- the contract is met by `List.mergeSort`, with which `relationsWrapS` is the model itself … -/
example : ∃ out, relationsWrap ex.tree = .ok out ∧ out.text = (outTree ex).text ∧ entries out = entries (outTree ex) :=
  C13_sort_independent _ sortSpec_mergeSort ex ex_wf

/-- … and by a different algorithm: insertion sort -/
def insertBy {α : Type} (cmp : α → α → Ordering) (a : α) : List α → List α
  | [] => [a]
  | b :: l => if leOf cmp a b then a :: b :: l else b :: insertBy cmp a l

def insertionSort {α : Type} (cmp : α → α → Ordering) : List α → List α
  | [] => []
  | a :: l => insertBy cmp a (insertionSort cmp l)

theorem insertBy_perm {α : Type} (cmp : α → α → Ordering) (a : α) : ∀ l, (insertBy cmp a l).Perm (a :: l)
  | [] => List.Perm.refl _
  | b :: l => by
    unfold insertBy
    split
    · exact List.Perm.refl _
    · exact ((insertBy_perm cmp a l).cons b).trans (List.Perm.swap a b l)

theorem insertionSort_perm {α : Type} (cmp : α → α → Ordering) : ∀ l, (insertionSort cmp l).Perm l
  | [] => List.Perm.refl _
  | a :: l => (insertBy_perm cmp a _).trans ((insertionSort_perm cmp l).cons a)

theorem insertBy_sorted {α : Type} (cmp : α → α → Ordering) (a : α) :
    ∀ (l : List α), PreCmpOn (fun x => x ∈ a :: l) cmp → l.Pairwise (fun x y => leOf cmp x y = true) →
      (insertBy cmp a l).Pairwise (fun x y => leOf cmp x y = true)
  | [], _, _ => by simp [insertBy]
  | b :: l, hc, hl => by
    unfold insertBy
    have hl' := List.pairwise_cons.1 hl
    split
    · rename_i hab
      refine List.pairwise_cons.2 ⟨?_, hl⟩
      intro x hx
      rcases List.mem_cons.1 hx with rfl | hx
      · exact hab
      · have hbx := hl'.1 x hx
        simp only [leOf, bne_iff_ne, ne_eq] at hab hbx ⊢
        exact hc.le_trans a b x (by simp) (by simp) (by simp [hx]) hab hbx
    · rename_i hab
      have hba : leOf cmp b a = true := by
        simp only [leOf, bne_iff_ne, ne_eq, Decidable.not_not] at hab ⊢
        rw [hc.swap a b (by simp) (by simp), hab]; simp [Ordering.swap]
      refine List.pairwise_cons.2 ⟨?_, ?_⟩
      · intro x hx
        rcases List.mem_cons.1 ((insertBy_perm cmp a l).subset hx) with rfl | hx
        · exact hba
        · exact hl'.1 x hx
      · exact insertBy_sorted cmp a l
          ⟨fun x y hx hy => hc.swap x y (by simp at hx ⊢; rcases hx with h | h <;> simp [h])
              (by simp at hy ⊢; rcases hy with h | h <;> simp [h]),
            fun x y z hx hy hz => hc.le_trans x y z (by simp at hx ⊢; rcases hx with h | h <;> simp [h])
              (by simp at hy ⊢; rcases hy with h | h <;> simp [h])
              (by simp at hz ⊢; rcases hz with h | h <;> simp [h])⟩ hl'.2

theorem insertionSort_sorted {α : Type} (cmp : α → α → Ordering) :
    ∀ (l : List α), PreCmpOn (fun x => x ∈ l) cmp →
      (insertionSort cmp l).Pairwise (fun x y => leOf cmp x y = true)
  | [], _ => by simp [insertionSort]
  | a :: l, hc => by
    have hc' : PreCmpOn (fun x => x ∈ l) cmp :=
      ⟨fun x y hx hy => hc.swap x y (by simp [hx]) (by simp [hy]),
        fun x y z hx hy hz => hc.le_trans x y z (by simp [hx]) (by simp [hy]) (by simp [hz])⟩
    have hm : ∀ x, x ∈ a :: insertionSort cmp l ↔ x ∈ a :: l := fun x => by
      simp [(insertionSort_perm cmp l).mem_iff]
    exact insertBy_sorted cmp a _
      ⟨fun x y hx hy => hc.swap x y ((hm x).1 hx) ((hm y).1 hy),
        fun x y z hx hy hz => hc.le_trans x y z ((hm x).1 hx) ((hm y).1 hy) ((hm z).1 hz)⟩
      (insertionSort_sorted cmp l hc')

theorem sortSpec_insertionSort {α : Type} : SortSpec (@insertionSort α) :=
  fun cmp l => ⟨insertionSort_perm cmp l, insertionSort_sorted cmp l⟩

/-- wrap-and-sort with insertion sort (what Rust's `sort_by` runs on short slices) prints the same -/
example : ∃ out, relationsWrapS insertionSort ex.tree = .ok out ∧ out.text = (outTree ex).text :=
  let ⟨o, h1, h2, _⟩ := C13_sort_independent insertionSort sortSpec_insertionSort ex ex_wf
  ⟨o, h1, h2⟩

example : (insertionSort relKeyCmp (ex.view[0]!)).map showRelation = (sortRels (ex.view[0]!)).map showRelation :=
  C13_sort_unique.1 _ _ (insertionSort_perm _ _) (insertionSort_sorted _ _ (PreCmpOn.of_pre relKeyCmp_pre _))

example : insertionSort entryKeyCmp (ex.view.map (insertionSort relKeyCmp)) = outView ex :=
  C13_sort_independent_view _ _
    (fun l => ⟨insertionSort_perm _ l, insertionSort_sorted _ l (PreCmpOn.of_pre relKeyCmp_pre _)⟩)
    (fun l => ⟨insertionSort_perm _ l, insertionSort_sorted _ l (PreCmpOn.of_pre entryKeyCmp_pre _)⟩) ex ex_wf

end Deb822Verif.Props.C13
