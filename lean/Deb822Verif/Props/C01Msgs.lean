import Deb822Verif.Props.C01More
/-!
# C01 — the error MESSAGES as observables of the correspondence run

The audit of C01 (W1) found that `C01_error_messages`, `C01_strict_err`, `C01_strict_err_shape` and
`C01_read_bytes_err` were statements about strings the harness never saw: `deb.read` printed the
NUMBER of messages only.  The `deb.read` / `deb.readbytes` responses now end with

* `msgsObs s` — the tolerant reader's messages joined by a line feed (hex-encoded), and
* `payload=<eq|ne|->` — `payloadFlag s`: `-` when the strict reader accepts, `eq` when its
  `Err(ParseError(l))` carries exactly the tolerant reader's list (on the Rust side the field of
  `ParseError` is private: `to_string()`, every message followed by `\n` (lossless.rs:49-56), is
  compared with the same rendering of the tolerant list), `ne` otherwise.

The theorems here say what these two observables are for EVERY text: the flag is never `ne`
(`C01_msgs_payload`, `C01_msgs_flag`), the printed string is the join of messages of the three
forms, it is empty exactly when the strict reader accepts, and no message contains a line feed, so
the string determines the list (`C01_msgs_observable`, `C01_msgs_no_lf`).  The closed examples at
the end pin the exact lists of texts that are request lines of every run (`generate_c01`,
harness/src/deb.rs `MSG_TEXTS`).
-/
namespace Deb822Verif.Props.C01Msgs
open Deb822Verif Deb Node Props.C01

/-- the rendering of a message list in the responses: joined by a line feed (Rust:
    `errs.join("\n")`) -/
def msgText : List String → String
  | [] => ""
  | [a] => a
  | a :: b :: l => a ++ "\n" ++ msgText (b :: l)

/-- the message observable of `deb.read` -/
def msgsObs (s : Str) : String := msgText (parse s).errors

/-- the payload observable of `deb.read` -/
def payloadFlag (s : Str) : String :=
  match readStrict s with
  | .ok _ => "-"
  | .error e => if e = (parse s).errors then "eq" else "ne"

/-- the payload observable of `deb.readbytes` (`-` also when the bytes are not UTF-8) -/
def payloadFlagBytes (b : ByteArray) : String :=
  match readBytes b, readBytesRelaxed b with
  | .error (.parse e), some (_, errs) => if e = errs then "eq" else "ne"
  | .error (.parse _), none => "ne"
  | _, _ => "-"

/-! ### helper lemmas -/

/-- a join of non-empty strings is empty only for the empty list -/
theorem msgText_eq_empty (l : List String) (hne : ∀ m ∈ l, m ≠ "") (h : msgText l = "") : l = [] := by
  match l, hne, h with
  | [], _, _ => rfl
  | [a], hne, h => exact absurd h (hne a (by simp))
  | a :: b :: l, hne, h =>
    simp only [msgText, String.append_eq_empty_iff] at h
    exact absurd h.1.1 (hne a (by simp))

theorem kindName_ne_empty (k : Kind) : kindName k ≠ "" := by cases k <;> decide

/-- a message of the three forms is not the empty string -/
theorem parseMsg_ne_empty (m : String) (h : IsParseMsg m) : m ≠ "" := by
  rcases h with h | ⟨ts, h⟩ | ⟨k, _, h⟩
  · subst h; decide
  · subst h
    intro h0
    simp only [toString, String.append_eq_empty_iff] at h0
    exact absurd h0.1 (by decide)
  · subst h
    intro h0
    simp only [toString, String.append_eq_empty_iff] at h0
    exact absurd h0.1 (by decide)

/-! ### the property theorems -/

/-- a strict failure carries exactly the tolerant reader's message list, and that list is not
    empty (`C01_strict_err` in the terms of the observable: `e` against `(parse s).errors`) -/
theorem C01_msgs_payload (s : Str) (e : List String) (h : readStrict s = .error e) :
    e = (parse s).errors ∧ e ≠ [] := by
  have := C01_strict_err s e h
  simp only [readRelaxed] at this
  exact ⟨this.1, by rw [this.1]; exact this.2⟩

/-- the payload flag of `deb.read` is `-` when the tolerant reader reports nothing and `eq`
    otherwise: never `ne`, for any text -/
theorem C01_msgs_flag (s : Str) :
    payloadFlag s = (if (parse s).errors = [] then "-" else "eq") ∧ payloadFlag s ≠ "ne" := by
  have key : payloadFlag s = (if (parse s).errors = [] then "-" else "eq") := by
    unfold payloadFlag
    cases h : readStrict s with
    | ok t =>
      have := (C01_strict_iff s).1 ⟨t, h⟩
      simp only [readRelaxed] at this
      simp [this]
    | error e =>
      have := C01_msgs_payload s e h
      have hne : (parse s).errors ≠ [] := by rw [← this.1]; exact this.2
      simp [this.1, hne]
  refine ⟨key, ?_⟩
  rw [key]
  split <;> decide

/-- the same for the byte reader: `eq` exactly when the strict byte reader fails with a parse
    error, `-` otherwise (accepted, or not UTF-8); never `ne` -/
theorem C01_msgs_flag_bytes (b : ByteArray) :
    (∀ e, readBytes b = .error (.parse e) → payloadFlagBytes b = "eq") ∧
      ((∀ e, readBytes b ≠ .error (.parse e)) → payloadFlagBytes b = "-") ∧
      payloadFlagBytes b ≠ "ne" := by
  cases hd : utf8Decode? b with
  | none =>
    have h1 : readBytes b = .error .io := by simp [readBytes, hd]
    have h2 : readBytesRelaxed b = none := by simp [readBytesRelaxed, hd]
    simp [payloadFlagBytes, h1, h2]
  | some s =>
    have h2 : readBytesRelaxed b = some (readRelaxed s) := by simp [readBytesRelaxed, hd]
    cases hr : readStrict s with
    | ok t =>
      have h1 : readBytes b = .ok t := by simp [readBytes, hd, hr]
      simp [payloadFlagBytes, h1, h2]
    | error e =>
      have h1 : readBytes b = .error (.parse e) := by simp [readBytes, hd, hr]
      have := C01_strict_err s e hr
      simp [payloadFlagBytes, h1, h2, ← this.1]

/-- what `deb.read` prints as messages, for every text: the join of the tolerant reader's list,
    every element of which has one of the three forms and is not empty; the printed string is empty
    exactly when the strict reader accepts (so an accepted text prints `x`, a rejected one never) -/
theorem C01_msgs_observable (s : Str) :
    msgsObs s = msgText (parse s).errors ∧
      (∀ m ∈ (parse s).errors, IsParseMsg m ∧ m ≠ "") ∧
      ((∃ t, readStrict s = .ok t) ↔ msgsObs s = "") := by
  have hm : ∀ m ∈ (parse s).errors, IsParseMsg m := C01_error_messages (lex s)
  refine ⟨rfl, fun m h => ⟨hm m h, parseMsg_ne_empty m (hm m h)⟩, ?_⟩
  rw [C01_strict_iff]
  simp only [readRelaxed]
  constructor
  · intro h; simp [msgsObs, msgText, h]
  · intro h
    exact msgText_eq_empty _ (fun m hmem => parseMsg_ne_empty m (hm m hmem)) h

/-- no message contains a line feed: the line-feed-joined observable (and `ParseError`'s `Display`,
    every message followed by `\n`) determines the list -/
theorem C01_msgs_no_lf (s : Str) : ∀ m ∈ (parse s).errors, '\n' ∉ m.toList := by
  intro m hm
  rcases C01_error_messages (lex s) m hm with h | ⟨ts, h⟩ | ⟨k, _, h⟩
  · subst h; decide
  · subst h
    match ts with
    | [] => decide
    | t :: _ =>
      obtain ⟨k, x⟩ := t
      cases k <;> simp only [currentName] <;> decide
  · subst h
    cases k <;> decide

/-! ### non-vacuity and the exact lists of texts that are request lines of every run
(harness/src/deb.rs `MSG_TEXTS`; the correspondence run compares these strings with the real
reader's on every check) -/

/-- hypothesis of `C01_msgs_payload` -/
example : readStrict "A b\n".toList = .error ["expected ':', got Some(NEWLINE)"] := by
  have h : (parse "A b\n".toList).errors = ["expected ':', got Some(NEWLINE)"] := by decide +kernel
  unfold readStrict
  rw [h]; rfl
example : payloadFlag "A b\n".toList = "eq" ∧ payloadFlag "A: b\n".toList = "-" := by decide +kernel
/-- all three message forms on one text -/
example : (parse "é\nA: b\n".toList).errors = ["expected key", "expected ':', got Some(KEY)",
    "expected newline, got KEY", "expected key", "expected ':', got Some(VALUE)"] := by decide +kernel
example : msgsObs "é\nA: b\n".toList = "expected key\nexpected ':', got Some(KEY)\nexpected newline, got KEY\nexpected key\nexpected ':', got Some(VALUE)" := by
  decide +kernel
example : (parse "A b\n".toList).errors = ["expected ':', got Some(NEWLINE)"] := by decide +kernel
example : (parse "é".toList).errors = ["expected key", "expected ':', got None"] := by decide +kernel
example : (parse "A b\nC d\n".toList).errors =
    ["expected ':', got Some(NEWLINE)", "expected ':', got Some(NEWLINE)"] := by decide +kernel
/-- a byte order mark is not a key character: nothing strips it -/
example : (parse "﻿A: b\n".toList).errors = ["expected key", "expected ':', got Some(COLON)",
    "expected newline, got COLON", "expected key", "expected ':', got Some(NEWLINE)"] := by decide +kernel
/-- CR LF line ends: accepted as they are (CR ends the line, LF is an empty line) … -/
example : (parse "A: b\r\nC: d\r\n".toList).errors = [] ∧ msgsObs "A: b\r\nC: d\r\n".toList = "" := by
  decide +kernel
/-- … and a malformed CR LF text -/
example : (parse "A b\r\nC: d\r\n".toList).errors = ["expected ':', got Some(NEWLINE)"] := by decide +kernel
/-- a comment that ends the input without a newline, then a key without colon -/
example : (parse "# c\nx".toList).errors = ["expected ':', got None"] := by decide +kernel
/-- byte reader: hypothesis of `C01_msgs_flag_bytes` (first clause) -/
example : (match readBytes (ByteArray.mk #[0x41]) with
    | .error e => e == .parse ["expected ':', got None"] | .ok _ => false) = true ∧
    payloadFlagBytes (ByteArray.mk #[0x41]) = "eq" := by decide +kernel

end Deb822Verif.Props.C01Msgs
