import Deb822Verif.Model.DeriveCodecs
import Deb822Verif.Gen.Structs
import Deb822Verif.Props.C08
import Deb822Verif.Props.C18
import Deb822Verif.Lemmas.Text
/-!
# C16 — derived struct/paragraph conversions round-trip and update only own fields

Part 1: the macro, for *every* field-spec list and *every* lawful paragraph back-end.
Part 2: the lossy back-end is lawful (laws of Props/C08).
Part 3: the leaf codecs of the registry.
Part 4: the generated table of all deriving structs of the workspace.
-/
namespace Deb822Verif.Props.C16
open Deb822Verif Derive

variable {P V : Type}

/-! ## Part 1 — the macro -/

/-- the getter `g` shows, under every key of the struct, the serialised field value (nothing for an
    absent optional) -/
def Reads (g : Str → Option Str) : List (FieldSpec V) → List (Option V) → Prop
  | [], [] => True
  | f :: fs, v :: vs => g f.key = v.map f.ser ∧ Reads g fs vs
  | _, _ => False

theorem reads_congr (g g' : Str → Option Str) (spec : List (FieldSpec V)) (x : List (Option V))
    (h : ∀ k ∈ specKeys spec, g k = g' k) (hr : Reads g spec x) : Reads g' spec x := by
  induction spec generalizing x with
  | nil => cases x <;> simpa [Reads] using hr
  | cons f fs ih =>
    cases x with
    | nil => simp [Reads] at hr
    | cons v vs =>
      simp only [Reads] at hr ⊢
      refine ⟨by rw [← h f.key (by simp [specKeys])]; exact hr.1, ih vs ?_ hr.2⟩
      intro k hk
      exact h k (by simp only [specKeys, List.map_cons, List.mem_cons]; right; exact hk)

/-- reading: if the paragraph shows the serialised values, `from_paragraph` returns the value -/
theorem fromFields_of_reads (g : Str → Option Str) (spec : List (FieldSpec V)) (x : List (Option V))
    (hr : Reads g spec x) (hw : WellFormed spec x) (hc : CodecsRoundTrip spec x) :
    fromFields g spec = .ok x := by
  induction spec generalizing x with
  | nil => cases x <;> simp [Reads] at hr; rfl
  | cons f fs ih =>
    cases x with
    | nil => simp [Reads] at hr
    | cons v vs =>
      simp only [Reads] at hr
      simp only [WellFormed] at hw
      cases v with
      | none =>
        simp only [CodecsRoundTrip] at hc
        have ho : f.optional = true := by
          cases h : f.optional with
          | true => rfl
          | false => have := hw.1 h; simp at this
        have hg : g f.key = none := by simpa using hr.1
        simp only [fromFields, readField, hg, ho, ↓reduceIte, ih vs hr.2 hw.2 hc]
      | some v =>
        simp only [CodecsRoundTrip] at hc
        have hg : g f.key = some (f.ser v) := by simpa using hr.1
        simp only [fromFields, readField, hg, hc.1, ih vs hr.2 hw.2 hc.2]

theorem toFields_keys_subset (spec : List (FieldSpec V)) (x : List (Option V)) :
    ∀ k ∈ (toFields spec x).map (·.1), k ∈ specKeys spec := by
  induction spec generalizing x with
  | nil => intro k hk; cases x <;> simp [toFields] at hk
  | cons f fs ih =>
    intro k hk
    cases x with
    | nil => simp [toFields] at hk
    | cons v vs =>
      cases v with
      | none =>
        simp only [toFields] at hk
        simp only [specKeys, List.map_cons, List.mem_cons]; right; exact ih vs k hk
      | some v =>
        simp only [toFields, List.map_cons, List.mem_cons] at hk
        simp only [specKeys, List.map_cons, List.mem_cons]
        rcases hk with hk | hk
        · left; exact hk
        · right; exact ih vs k hk

theorem lookupFirst_none_of_not_key (l : List (Str × Str)) (k : Str) (h : k ∉ l.map (·.1)) :
    lookupFirst l k = none := by
  induction l with
  | nil => rfl
  | cons e r ih =>
    simp only [List.map_cons, List.mem_cons, not_or] at h
    have : (e.1 == k) = false := by simp [Ne.symm h.1]
    simp only [lookupFirst, List.find?_cons, this]
    exact ih h.2

theorem lookupFirst_cons_ne (e : Str × Str) (r : List (Str × Str)) (k : Str) (h : e.1 ≠ k) :
    lookupFirst (e :: r) k = lookupFirst r k := by
  have : (e.1 == k) = false := by simp [h]
  simp [lookupFirst, List.find?_cons, this]

theorem lookupFirst_cons_eq (k v : Str) (r : List (Str × Str)) : lookupFirst ((k, v) :: r) k = some v := by
  simp [lookupFirst, List.find?_cons]

/-- the `fields` vector shows every field under its key (keys pairwise distinct) -/
theorem reads_toFields (spec : List (FieldSpec V)) (x : List (Option V))
    (hn : (specKeys spec).Nodup) (hl : x.length = spec.length) :
    Reads (lookupFirst (toFields spec x)) spec x := by
  induction spec generalizing x with
  | nil => cases x <;> simp_all [Reads]
  | cons f fs ih =>
    cases x with
    | nil => simp at hl
    | cons v vs =>
      simp only [specKeys, List.map_cons, List.nodup_cons] at hn
      have hl' : vs.length = fs.length := by simpa using hl
      have ihh := ih vs hn.2 hl'
      have hnot : f.key ∉ (toFields fs vs).map (·.1) := fun hk => hn.1 (toFields_keys_subset fs vs _ hk)
      cases v with
      | none =>
        simp only [Reads, toFields, Option.map_none]
        exact ⟨lookupFirst_none_of_not_key _ _ hnot, ihh⟩
      | some v =>
        simp only [Reads, toFields, Option.map_some]
        refine ⟨lookupFirst_cons_eq _ _ _, reads_congr _ _ fs vs ?_ ihh⟩
        intro k hk
        have : f.key ≠ k := by intro e; apply hn.1; rw [e]; exact hk
        exact (lookupFirst_cons_ne (f.key, f.ser v) _ k this).symm

theorem wellFormed_length (spec : List (FieldSpec V)) (x : List (Option V)) (h : WellFormed spec x) :
    x.length = spec.length := by
  induction spec generalizing x with
  | nil => cases x <;> simp_all [WellFormed]
  | cons f fs ih =>
    cases x with
    | nil => simp [WellFormed] at h
    | cons v vs => simp only [WellFormed] at h; simp [ih vs h.2]

/-- **round trip**: for every struct with pairwise distinct keys, every value whose field codecs
    round-trip on its field values, and every lawful paragraph back-end -/
theorem C16_roundtrip (B : Backend P) (hB : Lawful B) (spec : List (FieldSpec V)) (x : List (Option V))
    (hn : (specKeys spec).Nodup) (hw : WellFormed spec x) (hc : CodecsRoundTrip spec x) :
    fromParagraph B spec (toParagraph B spec x) = .ok x := by
  unfold fromParagraph toParagraph
  apply fromFields_of_reads _ spec x _ hw hc
  apply reads_congr (lookupFirst (toFields spec x))
  · intro k _; exact (hB.get_ofList _ k).symm
  · exact reads_toFields spec x hn (wellFormed_length spec x hw)

/-- **order**: the paragraph lists the present fields in declaration order under their keys -/
theorem C16_order_fields (spec : List (FieldSpec V)) (x : List (Option V)) :
    (toFields spec x).map (·.1) = presentKeys spec x := by
  induction spec generalizing x with
  | nil => cases x <;> simp [toFields, presentKeys]
  | cons f fs ih =>
    cases x with
    | nil => simp [toFields, presentKeys]
    | cons v vs => cases v <;> simp [toFields, presentKeys, ih vs]

theorem C16_order (B : Backend P) (hB : Lawful B) (spec : List (FieldSpec V)) (x : List (Option V)) :
    B.keys (toParagraph B spec x) = presentKeys spec x := by
  unfold toParagraph; rw [hB.keys_ofList, C16_order_fields]

/-- and the values are the serialised ones (custom serialisers where given: `f.ser`) -/
theorem C16_order_values (spec : List (FieldSpec V)) (x : List (Option V)) :
    ∀ e ∈ toFields spec x, ∃ f ∈ spec, ∃ v, e = (f.key, f.ser v) ∧ some v ∈ x := by
  induction spec generalizing x with
  | nil => intro e he; cases x <;> simp [toFields] at he
  | cons f fs ih =>
    intro e he
    cases x with
    | nil => simp [toFields] at he
    | cons v vs =>
      cases v with
      | none =>
        simp only [toFields] at he
        obtain ⟨g, hg, w, hw1, hw2⟩ := ih vs e he
        exact ⟨g, by simp [hg], w, hw1, by simp [hw2]⟩
      | some v =>
        simp only [toFields, List.mem_cons] at he
        rcases he with he | he
        · exact ⟨f, by simp, v, he, by simp⟩
        · obtain ⟨g, hg, w, hw1, hw2⟩ := ih vs e he
          exact ⟨g, by simp [hg], w, hw1, by simp [hw2]⟩

/-- **frame**: `update_paragraph` leaves every field the struct does not own as it was -/
theorem C16_update_frame (B : Backend P) (hB : Lawful B) (spec : List (FieldSpec V)) (x : List (Option V))
    (p : P) (k : Str) (hk : k ∉ specKeys spec) :
    B.get (updateParagraph B spec x p) k = B.get p k := by
  induction spec generalizing x p with
  | nil => cases x <;> rfl
  | cons f fs ih =>
    simp only [specKeys, List.map_cons, List.mem_cons, not_or] at hk
    cases x with
    | nil => rfl
    | cons v vs =>
      cases v with
      | none =>
        simp only [updateParagraph]
        rw [ih vs _ hk.2, hB.get_remove_ne _ _ _ hk.1]
      | some v =>
        simp only [updateParagraph]
        rw [ih vs _ hk.2, hB.get_set_ne _ _ _ _ hk.1]

theorem reads_update (B : Backend P) (hB : Lawful B) (spec : List (FieldSpec V)) (x : List (Option V)) (p : P)
    (hn : (specKeys spec).Nodup) (hl : x.length = spec.length) :
    Reads (B.get (updateParagraph B spec x p)) spec x := by
  induction spec generalizing x p with
  | nil => cases x <;> simp_all [Reads]
  | cons f fs ih =>
    cases x with
    | nil => simp at hl
    | cons v vs =>
      simp only [specKeys, List.map_cons, List.nodup_cons] at hn
      have hl' : vs.length = fs.length := by simpa using hl
      cases v with
      | none =>
        simp only [Reads, updateParagraph, Option.map_none]
        exact ⟨by rw [C16_update_frame B hB fs vs _ _ hn.1, hB.get_remove], ih vs _ hn.2 hl'⟩
      | some v =>
        simp only [Reads, updateParagraph, Option.map_some]
        exact ⟨by rw [C16_update_frame B hB fs vs _ _ hn.1, hB.get_set], ih vs _ hn.2 hl'⟩

/-- **update reads back**: whatever the paragraph held before, after `update_paragraph` it reads
    back as the value -/
theorem C16_update_reads_back (B : Backend P) (hB : Lawful B) (spec : List (FieldSpec V))
    (x : List (Option V)) (p : P)
    (hn : (specKeys spec).Nodup) (hw : WellFormed spec x) (hc : CodecsRoundTrip spec x) :
    fromParagraph B spec (updateParagraph B spec x p) = .ok x :=
  fromFields_of_reads _ spec x (reads_update B hB spec x p hn (wellFormed_length spec x hw)) hw hc

theorem reads_get (g : Str → Option Str) (spec : List (FieldSpec V)) (x : List (Option V)) (hr : Reads g spec x) :
    ∀ fv ∈ spec.zip x, g fv.1.key = fv.2.map fv.1.ser := by
  induction spec generalizing x with
  | nil => intro fv h; simp at h
  | cons f fs ih =>
    cases x with
    | nil => intro fv h; simp at h
    | cons v vs =>
      simp only [Reads] at hr
      intro fv h
      simp only [List.zip_cons_cons, List.mem_cons] at h
      rcases h with h | h
      · rw [h]; exact hr.1
      · exact ih vs hr.2 fv h

/-- **update removes absent**: an optional field that the value does not have is gone afterwards;
    a present one shows its serialised value -/
theorem C16_update_removes_absent (B : Backend P) (hB : Lawful B) (spec : List (FieldSpec V))
    (x : List (Option V)) (p : P) (hn : (specKeys spec).Nodup) (hl : x.length = spec.length) :
    ∀ fv ∈ spec.zip x,
      (fv.2 = none → B.get (updateParagraph B spec x p) fv.1.key = none)
      ∧ (∀ v, fv.2 = some v → B.get (updateParagraph B spec x p) fv.1.key = some (fv.1.ser v)) := by
  intro fv h
  have := reads_get _ spec x (reads_update B hB spec x p hn hl) fv h
  constructor
  · intro e; rw [this, e]; rfl
  · intro v e; rw [this, e]; rfl

/-! ### errors -/

theorem fromFields_append_ok (g : Str → Option Str) (pre post : List (FieldSpec V)) (xs : List (Option V))
    (h : fromFields g pre = .ok xs) :
    fromFields g (pre ++ post) = match fromFields g post with | .ok ys => .ok (xs ++ ys) | .error e => .error e := by
  induction pre generalizing xs with
  | nil => simp [fromFields] at h; subst h; cases hp : fromFields g post <;> simp [hp]
  | cons f fs ih =>
    simp only [List.cons_append, fromFields] at h ⊢
    cases hr : readField g f with
    | error e => rw [hr] at h; simp at h
    | ok v =>
      rw [hr] at h
      simp only at h ⊢
      cases hf : fromFields g fs with
      | error e => rw [hf] at h; simp at h
      | ok vs =>
        rw [hf] at h
        simp only [Except.ok.injEq] at h
        rw [ih vs hf]
        cases fromFields g post with
        | error e => rfl
        | ok ys => simp [← h]

/-- **errors (1)**: the first field that cannot be read is a mandatory field the paragraph lacks →
    exactly `missing field: <key>` -/
theorem C16_error_missing (B : Backend P) (pre post : List (FieldSpec V)) (f : FieldSpec V) (p : P)
    (xs : List (Option V)) (hpre : fromFields (B.get p) pre = .ok xs)
    (hm : f.optional = false) (hg : B.get p f.key = none) :
    fromParagraph B (pre ++ f :: post) p = .error (errMissing f.key) := by
  unfold fromParagraph
  rw [fromFields_append_ok _ pre (f :: post) xs hpre]
  simp [fromFields, readField, hg, hm]

/-- **errors (2)**: the first field that cannot be read holds a text its deserialiser rejects with
    message `e` → exactly `parsing field <key>: <e>` (mandatory and optional fields alike) -/
theorem C16_error_parse (B : Backend P) (pre post : List (FieldSpec V)) (f : FieldSpec V) (p : P)
    (xs : List (Option V)) (t e : Str) (hpre : fromFields (B.get p) pre = .ok xs)
    (hg : B.get p f.key = some t) (hd : f.de t = .error e) :
    fromParagraph B (pre ++ f :: post) p = .error (errParse f.key e) := by
  unfold fromParagraph
  rw [fromFields_append_ok _ pre (f :: post) xs hpre]
  simp [fromFields, readField, hg, hd]

/-- **errors (3)**: and there is no other kind of error: every error names a field of the struct -/
theorem C16_errors (g : Str → Option Str) (spec : List (FieldSpec V)) (m : Str)
    (h : fromFields g spec = .error m) :
    ∃ f ∈ spec, (f.optional = false ∧ g f.key = none ∧ m = errMissing f.key)
      ∨ (∃ t e, g f.key = some t ∧ f.de t = .error e ∧ m = errParse f.key e) := by
  induction spec with
  | nil => simp [fromFields] at h
  | cons f fs ih =>
    simp only [fromFields] at h
    cases hr : readField g f with
    | error e =>
      rw [hr] at h
      simp only [Except.error.injEq] at h
      subst h
      refine ⟨f, by simp, ?_⟩
      unfold readField at hr
      cases hg : g f.key with
      | none =>
        rw [hg] at hr
        cases ho : f.optional with
        | true => simp [ho] at hr
        | false => simp [ho] at hr; left; exact ⟨rfl, rfl, hr.symm⟩
      | some t =>
        rw [hg] at hr
        cases hd : f.de t with
        | ok v => simp [hd] at hr
        | error e' => simp [hd] at hr; right; exact ⟨t, e', rfl, hd, hr.symm⟩
    | ok v =>
      rw [hr] at h
      simp only at h
      cases hf : fromFields g fs with
      | ok vs => rw [hf] at h; simp at h
      | error e =>
        rw [hf] at h
        simp only [Except.error.injEq] at h
        subst h
        obtain ⟨f', hf', hh⟩ := ih hf
        exact ⟨f', by simp [hf'], hh⟩

/-- the exact strings -/
example : errMissing "Source".toList = "missing field: Source".toList := by decide
example : errParse "Priority".toList "Invalid priority: x".toList
    = "parsing field Priority: Invalid priority: x".toList := by decide

/-! ### back-end independence -/

/-- two paragraphs (of possibly different back-ends) read the same under every key -/
def SameReads (B1 : Backend P) {Q : Type} (B2 : Backend Q) (p : P) (q : Q) : Prop :=
  ∀ k, B1.get p k = B2.get q k

theorem sameReads_update {Q : Type} (B1 : Backend P) (B2 : Backend Q) (h1 : Lawful B1) (h2 : Lawful B2)
    (spec : List (FieldSpec V)) (x : List (Option V)) (p : P) (q : Q) (h : SameReads B1 B2 p q) :
    SameReads B1 B2 (updateParagraph B1 spec x p) (updateParagraph B2 spec x q) := by
  induction spec generalizing x p q with
  | nil => cases x <;> exact h
  | cons f fs ih =>
    cases x with
    | nil => exact h
    | cons v vs =>
      cases v with
      | none =>
        apply ih
        intro k
        by_cases hk : k = f.key
        · subst hk; rw [h1.get_remove, h2.get_remove]
        · rw [h1.get_remove_ne _ _ _ hk, h2.get_remove_ne _ _ _ hk]; exact h k
      | some v =>
        apply ih
        intro k
        by_cases hk : k = f.key
        · subst hk; rw [h1.get_set, h2.get_set]
        · rw [h1.get_set_ne _ _ _ _ hk, h2.get_set_ne _ _ _ _ hk]; exact h k

/-- **identical for both back-ends**: paragraphs that read the same convert to the same value or
    the same error; `to_paragraph` results read the same; updates keep them reading the same -/
theorem C16_backend_independent {Q : Type} (B1 : Backend P) (B2 : Backend Q) (h1 : Lawful B1) (h2 : Lawful B2)
    (spec : List (FieldSpec V)) (x : List (Option V)) :
    (∀ p q, SameReads B1 B2 p q → fromParagraph B1 spec p = fromParagraph B2 spec q)
    ∧ SameReads B1 B2 (toParagraph B1 spec x) (toParagraph B2 spec x)
    ∧ (∀ p q, SameReads B1 B2 p q →
        SameReads B1 B2 (updateParagraph B1 spec x p) (updateParagraph B2 spec x q)) := by
  refine ⟨?_, ?_, fun p q h => sameReads_update B1 B2 h1 h2 spec x p q h⟩
  · intro p q h
    unfold fromParagraph
    have : B1.get p = B2.get q := funext h
    rw [this]
  · intro k
    unfold toParagraph
    rw [h1.get_ofList, h2.get_ofList]

/-! ## Part 2 — the lossy paragraph is a lawful back-end -/

theorem C16_lossy_lawful : Lawful lossyBackend where
  get_set := by intro p k v; simp [lossyBackend, Props.C08.C08_get_set]
  get_set_ne := by intro p k v k' h; simp [lossyBackend, Props.C08.C08_get_set, h]
  get_remove := by intro p k; simp [lossyBackend, Props.C08.C08_get_remove]
  get_remove_ne := by intro p k k' h; simp [lossyBackend, Props.C08.C08_get_remove, h]
  get_ofList := by intro l k; rfl
  keys_ofList := by intro l; rfl

/-- the five theorems of Part 1 for the lossy paragraph, without hypotheses on the back-end -/
theorem C16_lossy_roundtrip (spec : List (FieldSpec V)) (x : List (Option V))
    (hn : (specKeys spec).Nodup) (hw : WellFormed spec x) (hc : CodecsRoundTrip spec x) :
    fromParagraph lossyBackend spec (toParagraph lossyBackend spec x) = .ok x :=
  C16_roundtrip lossyBackend C16_lossy_lawful spec x hn hw hc

/-! ## Part 3 — the leaf codecs of the registry -/

open Deb822Verif.Text Deb822Verif.Enum Deb822Verif.Codec

def KindOK : Kind → Prop
  | .modelled c => ∀ v, c.canon v → c.de (c.ser v) = .ok v
  | .noRoundTrip c w => c.de (c.ser w) ≠ .ok w
  | .external _ => True

def AllOK : List ((Str × Str × Str) × Kind) → Prop
  | [] => True
  | e :: r => KindOK e.2 ∧ AllOK r

theorem allOK_mem (l : List ((Str × Str × Str) × Kind)) (h : AllOK l) : ∀ e ∈ l, KindOK e.2 := by
  induction l with
  | nil => intro e he; simp at he
  | cons a r ih =>
    intro e he
    simp only [List.mem_cons] at he
    rcases he with rfl | he
    · exact h.1
    · exact ih h.2 e he

theorem str_ok : KindOK (.modelled strCodec) := by
  intro v ⟨s, hs⟩; subst hs; rfl

theorem bool_ok : KindOK (.modelled boolCodec) := by
  intro v ⟨b, hb⟩; subst hb; cases b <;> decide

theorem yesno_ok (err : Str → Str) : KindOK (.modelled (yesnoCodec err)) := by
  intro v ⟨b, hb⟩; subst hb
  cases b
  · have : ("no".toList = "yes".toList) = False := by decide
    simp [yesnoCodec, yesnoText, this]
  · simp [yesnoCodec, yesnoText]

theorem jaNee_ok : KindOK (.modelled jaNeeCodec) := by
  intro v ⟨b, hb⟩; subst hb
  cases b
  · have : ("nee".toList = "ja".toList) = False := by decide
    simp [jaNeeCodec, this]
  · simp [jaNeeCodec]

/-! #### unsigned integers -/

def uStep (bound a : Nat) (c : Char) : Except Str Nat :=
  match digitVal c with
  | none => .error eDigit
  | some d => if a * 10 + d < bound then .ok (a * 10 + d) else .error eOverflow

theorem unsignedDigits_snoc (bound acc : Nat) (xs : Str) (c : Char) :
    unsignedDigits bound acc (xs ++ [c]) =
      match unsignedDigits bound acc xs with
      | .ok a => uStep bound a c
      | .error e => .error e := by
  induction xs generalizing acc with
  | nil =>
    simp only [List.nil_append, unsignedDigits, uStep]
    cases digitVal c with
    | none => rfl
    | some d => rfl
  | cons x xs ih =>
    simp only [List.cons_append, unsignedDigits]
    cases digitVal x with
    | none => rfl
    | some d =>
      simp only []
      split
      · exact ih _
      · rfl

theorem unsignedDigits_decDigits (bound n : Nat) (h : n < bound) :
    unsignedDigits bound 0 (decDigits n) = .ok n := by
  induction n using Nat.strongRecOn with
  | _ n ih =>
    rw [decDigits]
    split
    · rename_i h10
      simp only [unsignedDigits, C18.digitVal_digitChar n h10, Nat.zero_mul, Nat.zero_add, h, ↓reduceIte]
    · rename_i h10
      rw [unsignedDigits_snoc, ih (n / 10) (by omega) (by omega)]
      simp only [uStep, C18.digitVal_digitChar (n % 10) (by omega)]
      have : n / 10 * 10 + n % 10 = n := by omega
      rw [this, if_pos h]

theorem parseUnsigned_digit_head (bound : Nat) (c : Char) (cs : Str) (h1 : c ≠ '+') (h2 : c ≠ '-') :
    parseUnsigned bound (c :: cs) = unsignedDigits bound 0 (c :: cs) := by
  unfold parseUnsigned
  split
  · rename_i heq; simp at heq
  · rename_i heq; simp only [List.cons.injEq] at heq; exact absurd heq.1 h1
  · rename_i heq; simp only [List.cons.injEq] at heq; exact absurd heq.1 h2
  · rename_i heq; simp only [List.cons.injEq] at heq; exact absurd heq.1 h1
  · rfl

theorem parseUnsigned_decDigits (bound n : Nat) (h : n < bound) : parseUnsigned bound (decDigits n) = .ok n := by
  have hne := C18.decDigits_ne_nil n
  have hall := C18.decDigits_all_digit n
  cases hd : decDigits n with
  | nil => exact absurd hd hne
  | cons c cs =>
    obtain ⟨d, hd10, rfl⟩ := hall c (by rw [hd]; simp)
    rw [parseUnsigned_digit_head _ _ _ (C18.digitChar_not_sign d hd10).1 (C18.digitChar_not_sign d hd10).2, ← hd]
    exact unsignedDigits_decDigits bound n h

theorem nat_ok (bound : Nat) : KindOK (.modelled (natCodec bound)) := by
  intro v ⟨n, hv, hn⟩; subst hv
  simp only [natCodec, parseUnsigned_decDigits bound n hn]

/-- the error texts of `ParseIntError` -/
example : parseUnsigned (2 ^ 32) [] = .error "cannot parse integer from empty string".toList
    ∧ parseUnsigned (2 ^ 32) "-1".toList = .error "invalid digit found in string".toList
    ∧ parseUnsigned (2 ^ 32) "4294967296".toList = .error "number too large to fit in target type".toList
    ∧ parseUnsigned (2 ^ 32) "+5".toList = .ok 5 := by decide +kernel

/-! #### keyword enumerations -/

theorem enum_ok (e : EnumSpec) (err : Str → Str)
    (h : ∀ k ∈ e.variants, parseOf e ((printOf e k).getD []) = some k) : KindOK (.modelled (enumCodec e err)) := by
  intro v ⟨k, hv, hk⟩; subst hv
  simp only [enumCodec, h k hk]

theorem priority_ok : KindOK (.modelled (enumCodec Gen.Enums.priority errPriority)) :=
  enum_ok _ _ (by decide)
theorem multiArch_ok : KindOK (.modelled (enumCodec Gen.Enums.multiArch errMultiArch)) :=
  enum_ok _ _ (by decide)
theorem yesNoForce_ok : KindOK (.modelled (enumCodec Gen.Enums.yesNoForce errRepoType)) :=
  enum_ok _ _ (by decide)

/-! #### lists -/

theorem sw_cons_ws (t rest : Str) (c : Char) (hc : isWhitespace c = true) (h : C18.Tok t) :
    splitWhitespace (t ++ c :: rest) = t :: splitWhitespace rest := by
  have := C18.sw_go_tok t (c :: rest) [] h.2
  simp only [List.append_nil] at this
  unfold splitWhitespace
  rw [this]
  simp [splitWhitespace.go, hc, h.1]

theorem sw_join (c : Char) (hc : isWhitespace c = true) (l : List Str) (h : ∀ w ∈ l, C18.Tok w) :
    splitWhitespace (joinWith [c] l) = l := by
  induction l with
  | nil => rfl
  | cons x r ih =>
    cases r with
    | nil => simpa [joinWith, Text.join] using C18.sw_single x (h x (by simp))
    | cons y r' =>
      have := ih (fun w hw => h w (by simp [hw]))
      simp only [joinWith, Text.join, List.append_assoc, List.cons_append, List.nil_append] at this ⊢
      rw [sw_cons_ws x _ c hc (h x (by simp)), this]

theorem words_ok : KindOK (.modelled wordsCodec) := by
  intro v ⟨l, hv, hl⟩; subst hv
  simp only [wordsCodec, listSer]
  rw [sw_join ' ' (by decide) l (fun w hw => ⟨(hl w hw).1, (hl w hw).2⟩)]

theorem fileList_ok : KindOK (.modelled fileListCodec) := by
  intro v ⟨l, hv, hl⟩; subst hv
  simp only [fileListCodec, listSer]
  rw [sw_join '\n' (by decide) l (fun w hw => ⟨(hl w hw).1, (hl w hw).2⟩)]

theorem splitOn_none (sep : Char) (v : Str) (h : sep ∉ v) : splitOn sep v = [v] := by
  induction v with
  | nil => rfl
  | cons c cs ih =>
    have hc : c ≠ sep := by intro e; apply h; simp [e]
    have hcs : sep ∉ cs := by intro e; apply h; simp [e]
    simp [splitOn, hc, ih hcs]

theorem splitOn_cons (sep : Char) (k v : Str) (h : sep ∉ k) :
    splitOn sep (k ++ sep :: v) = k :: splitOn sep v := by
  induction k with
  | nil => simp [splitOn]
  | cons c cs ih =>
    have hc : c ≠ sep := by intro e; apply h; simp [e]
    have hcs : sep ∉ cs := by intro e; apply h; simp [e]
    simp [splitOn, hc, ih hcs]

theorem splitOn_join (l : List Str) (hne : l ≠ []) (h : ∀ w ∈ l, '\n' ∉ w) :
    splitOn '\n' (joinWith ['\n'] l) = l := by
  induction l with
  | nil => exact absurd rfl hne
  | cons x r ih =>
    cases r with
    | nil => simpa [joinWith, Text.join] using splitOn_none '\n' x (h x (by simp))
    | cons y r' =>
      have := ih (by simp) (fun w hw => h w (by simp [hw]))
      simp only [joinWith, Text.join, List.append_assoc, List.cons_append, List.nil_append] at this ⊢
      rw [splitOn_cons '\n' x _ (h x (by simp)), this]

theorem join_eq_nil (l : List Str) (h : joinWith ['\n'] l = []) : l = [] ∨ l = [[]] := by
  cases l with
  | nil => left; rfl
  | cons x r =>
    cases r with
    | nil => right; simp [joinWith, Text.join] at h; simp [h]
    | cons y r' => simp [joinWith, Text.join] at h

theorem splitLines_ok : KindOK (.modelled splitLinesCodec) := by
  intro v ⟨l, hv, hne, hl⟩; subst hv
  simp only [splitLinesCodec, listSer]
  by_cases hj : joinWith ['\n'] l = []
  · rcases join_eq_nil l hj with rfl | rfl
    · simp [joinWith, Text.join]
    · exact absurd rfl hne
  · have hl0 : l ≠ [] := by intro e; apply hj; rw [e]; rfl
    simp only [hj, ↓reduceIte, splitOn_join l hl0 hl]

/-- the domain condition `l ≠ [""]` of `splitLinesCodec` cannot be dropped: `[""]` prints like `[]` -/
theorem C16_splitLines_needs_not_single_empty :
    splitLinesCodec.de (splitLinesCodec.ser (.list [[]])) = .ok (.list []) := by decide

theorem rawLines_single (w : Str) (hne : w ≠ []) (h : '\n' ∉ w) : rawLines w = [(w, false)] := by
  induction w with
  | nil => exact absurd rfl hne
  | cons c cs ih =>
    have hc : c ≠ '\n' := by intro e; apply h; simp [e]
    have hcs : '\n' ∉ cs := by intro e; apply h; simp [e]
    cases cs with
    | nil => simp [rawLines, hc]
    | cons d ds =>
      have := ih (by simp) hcs
      rw [rawLines, if_neg hc, this]

theorem lines_join (l : List Str) (h : ∀ w ∈ l, w ≠ [] ∧ '\n' ∉ w ∧ w.getLast? ≠ some '\r') :
    Text.lines (joinWith ['\n'] l) = l := by
  induction l with
  | nil => rfl
  | cons x r ih =>
    cases r with
    | nil =>
      have hx := h x (by simp)
      simp [joinWith, Text.join, Text.lines, rawLines_single x hx.1 hx.2.1]
    | cons y r' =>
      have hx := h x (by simp)
      have := ih (fun w hw => h w (by simp [hw]))
      simp only [joinWith, Text.join, List.append_assoc, List.cons_append, List.nil_append] at this ⊢
      rw [lines_line_cons x _ ⟨hx.2.1, hx.2.2⟩, this]

theorem lines_ok : KindOK (.modelled linesCodec) := by
  intro v ⟨l, hv, hl⟩; subst hv
  simp only [linesCodec, listSer, lines_join l hl]

theorem sortStrings_sorted (l : List Str) (h : l.Pairwise (fun a b => strLe a b = true)) : sortStrings l = l :=
  List.mergeSort_of_pairwise h

theorem types_ok : KindOK (.modelled typesCodec) := by
  intro v hv
  rcases hv with rfl | rfl | rfl | rfl
  · have : sortStrings [] = [] := sortStrings_sorted _ (by simp)
    simp only [typesCodec, this]; decide +kernel
  · have : sortStrings [c!"deb"] = [c!"deb"] := sortStrings_sorted _ (by simp)
    simp only [typesCodec, this]; decide +kernel
  · have : sortStrings [c!"deb-src"] = [c!"deb-src"] := sortStrings_sorted _ (by simp)
    simp only [typesCodec, this]; decide +kernel
  · have : sortStrings [c!"deb", c!"deb-src"] = [c!"deb", c!"deb-src"] :=
      sortStrings_sorted _ (by simp; decide)
    simp only [typesCodec, this]; decide +kernel

/-! #### the environment map: any number of variables -/

theorem char_eq_of_toNat (a b : Char) (h : a.toNat = b.toNat) : a = b :=
  Char.ext (UInt32.toNat_inj.mp h)

theorem strLt_trans (a b c : Str) (h1 : strLt a b = true) (h2 : strLt b c = true) : strLt a c = true := by
  induction a generalizing b c with
  | nil =>
    cases b with
    | nil => simp [strLt] at h1
    | cons y ys => cases c <;> simp [strLt] at h2 ⊢
  | cons x xs ih =>
    cases b with
    | nil => simp [strLt] at h1
    | cons y ys =>
      cases c with
      | nil => simp [strLt] at h2
      | cons z zs =>
        simp only [strLt] at h1 h2 ⊢
        by_cases hxy : x.toNat < y.toNat
        · by_cases hyz : y.toNat < z.toNat
          · have : x.toNat < z.toNat := by omega
            simp [this]
          · by_cases hzy : z.toNat < y.toNat
            · simp [hyz, hzy] at h2
            · have : x.toNat < z.toNat := by omega
              simp [this]
        · by_cases hyx : y.toNat < x.toNat
          · simp [hxy, hyx] at h1
          · simp only [hxy, hyx, ↓reduceIte] at h1
            by_cases hyz : y.toNat < z.toNat
            · have : x.toNat < z.toNat := by omega
              simp [this]
            · by_cases hzy : z.toNat < y.toNat
              · simp [hyz, hzy] at h2
              · simp only [hyz, hzy, ↓reduceIte] at h2
                have h3 : ¬ x.toNat < z.toNat := by omega
                have h4 : ¬ z.toNat < x.toNat := by omega
                simp only [h3, h4, ↓reduceIte]
                exact ih ys zs h1 h2

theorem strLt_total (a b : Str) (h1 : strLt a b = false) (h2 : a ≠ b) : strLt b a = true := by
  induction a generalizing b with
  | nil =>
    cases b with
    | nil => exact absurd rfl h2
    | cons y ys => simp [strLt] at h1
  | cons x xs ih =>
    cases b with
    | nil => simp [strLt]
    | cons y ys =>
      simp only [strLt] at h1 ⊢
      by_cases hxy : x.toNat < y.toNat
      · simp [hxy] at h1
      · by_cases hyx : y.toNat < x.toNat
        · simp [hyx]
        · simp only [hxy, hyx, ↓reduceIte] at h1 ⊢
          have hc : x = y := char_eq_of_toNat x y (by omega)
          subst hc
          exact ih ys h1 (fun e => h2 (by rw [e]))

theorem mem_mapInsert (k v : Str) (m : List (Str × Str)) (q : Str × Str) (h : q ∈ mapInsert k v m) :
    q = (k, v) ∨ q ∈ m := by
  induction m with
  | nil => simp [mapInsert] at h; left; exact h
  | cons p r ih =>
    simp only [mapInsert] at h
    split at h
    · simp only [List.mem_cons] at h ⊢
      rcases h with h | h
      · left; exact h
      · right; right; exact h
    · split at h
      · simp only [List.mem_cons] at h ⊢
        rcases h with h | h | h
        · left; exact h
        · right; left; exact h
        · right; right; exact h
      · simp only [List.mem_cons] at h ⊢
        rcases h with h | h
        · right; left; exact h
        · rcases ih h with h | h
          · left; exact h
          · right; right; exact h

theorem mapInsert_sorted (k v : Str) (m : List (Str × Str)) (h : MapSorted m) : MapSorted (mapInsert k v m) := by
  induction m with
  | nil => simp [mapInsert, MapSorted]
  | cons p r ih =>
    have hp := List.pairwise_cons.1 h
    simp only [mapInsert]
    split
    · rename_i hk
      apply List.pairwise_cons.2
      exact ⟨fun q hq => by simpa [hk] using hp.1 q hq, hp.2⟩
    · rename_i hk
      split
      · rename_i hlt
        apply List.pairwise_cons.2
        refine ⟨?_, h⟩
        intro q hq
        simp only [List.mem_cons] at hq
        rcases hq with rfl | hq
        · exact hlt
        · exact strLt_trans _ _ _ hlt (hp.1 q hq)
      · rename_i hlt
        apply List.pairwise_cons.2
        refine ⟨?_, ih hp.2⟩
        intro q hq
        rcases mem_mapInsert k v r q hq with rfl | hq
        · exact strLt_total k p.1 (by simpa using hlt) hk
        · exact hp.1 q hq

theorem mapInsert_perm (k v : Str) (m : List (Str × Str)) (h : k ∉ m.map (·.1)) :
    List.Perm (mapInsert k v m) ((k, v) :: m) := by
  induction m with
  | nil => simp [mapInsert]
  | cons p r ih =>
    simp only [List.map_cons, List.mem_cons, not_or] at h
    simp only [mapInsert, h.1, ↓reduceIte]
    split
    · exact List.Perm.refl _
    · exact (List.Perm.cons p (ih h.2)).trans (List.Perm.swap _ _ _)

def insAll (acc : List (Str × Str)) (ps : List (Str × Str)) : List (Str × Str) :=
  ps.foldl (fun a p => mapInsert p.1 p.2 a) acc

theorem insAll_spec (ps acc : List (Str × Str)) (hs : MapSorted acc) (hn : (ps.map (·.1)).Nodup)
    (hd : ∀ p ∈ ps, p.1 ∉ acc.map (·.1)) :
    MapSorted (insAll acc ps) ∧ List.Perm (insAll acc ps) (ps ++ acc) := by
  induction ps generalizing acc with
  | nil => exact ⟨hs, List.Perm.refl _⟩
  | cons p r ih =>
    simp only [List.map_cons, List.nodup_cons] at hn
    have hp := hd p (by simp)
    have hperm := mapInsert_perm p.1 p.2 acc hp
    have hd' : ∀ q ∈ r, q.1 ∉ (mapInsert p.1 p.2 acc).map (·.1) := by
      intro q hq hmem
      simp only [List.mem_map] at hmem
      obtain ⟨e, he, hek⟩ := hmem
      rcases mem_mapInsert _ _ _ e he with rfl | he'
      · apply hn.1; simp only [List.mem_map]; exact ⟨q, hq, hek.symm⟩
      · exact hd q (by simp [hq]) (by simp only [List.mem_map]; exact ⟨e, he', hek⟩)
    obtain ⟨h1, h2⟩ := ih (mapInsert p.1 p.2 acc) (mapInsert_sorted _ _ _ hs) hn.2 hd'
    refine ⟨h1, ?_⟩
    show List.Perm (insAll (mapInsert p.1 p.2 acc) r) (p :: r ++ acc)
    refine h2.trans ?_
    have : List.Perm (r ++ mapInsert p.1 p.2 acc) (r ++ (p.1, p.2) :: acc) := List.Perm.append_left r hperm
    refine this.trans ?_
    simpa using (List.perm_middle (a := p) (l₁ := r) (l₂ := acc))

theorem mapSorted_nodup (m : List (Str × Str)) (h : MapSorted m) : (m.map (·.1)).Nodup := by
  induction m with
  | nil => simp
  | cons p r ih =>
    have hp := List.pairwise_cons.1 h
    simp only [List.map_cons, List.nodup_cons]
    refine ⟨?_, ih hp.2⟩
    intro hm
    simp only [List.mem_map] at hm
    obtain ⟨q, hq, hqk⟩ := hm
    have := hp.1 q hq
    rw [hqk, C18.strLt_irrefl] at this
    simp at this

/-- inserting the entries of a canonical map in any order rebuilds it -/
theorem insAll_perm_eq (m ps : List (Str × Str)) (hm : MapSorted m) (hp : List.Perm ps m) : insAll [] ps = m := by
  have hn : (ps.map (·.1)).Nodup := (hp.map (·.1)).nodup_iff.2 (mapSorted_nodup m hm)
  obtain ⟨h1, h2⟩ := insAll_spec ps [] (by simp [MapSorted]) hn (by simp)
  simp only [List.append_nil] at h2
  have key := @List.Perm.eq_of_pairwise (Str × Str) (fun p q => strLt p.1 q.1 = true) (insAll [] ps) m
    (by
      intro a b _ _ hab hba
      rw [C18.strLt_asymm _ _ hab] at hba
      simp at hba) h1 hm (h2.trans hp)
  exact key

def unpiece (l : Str) : Str × Str :=
  match splitOnFirst ['='] l with
  | some kv => kv
  | none => ([], [])

theorem split_envPiece (p : Str × Str) (h : '=' ∉ p.1) : splitOnFirst ['='] (envPiece p) = some p := by
  have := C18.splitOnFirst_found '=' [] p.1 p.2 h
  simpa [envPiece] using this

theorem envDe_pieces (ps acc : List (Str × Str)) (h : ∀ p ∈ ps, '=' ∉ p.1) :
    envDe (ps.map envPiece) acc = .ok (insAll acc ps) := by
  induction ps generalizing acc with
  | nil => rfl
  | cons p r ih =>
    simp only [List.map_cons, envDe, split_envPiece p (h p (by simp))]
    exact ih _ (fun q hq => h q (by simp [hq]))

theorem env_ok : KindOK (.modelled envCodec) := by
  intro v ⟨m, hv, hsorted, hm⟩; subst hv
  -- the sorted pieces are the pieces of a permutation `ps` of `m`
  have hperm : List.Perm (sortStrings (m.map envPiece)) (m.map envPiece) := List.mergeSort_perm _ _
  let ps := (sortStrings (m.map envPiece)).map unpiece
  have hinv : ∀ p ∈ m, unpiece (envPiece p) = p := by
    intro p hp; simp [unpiece, split_envPiece p (hm p hp).1]
  have hps : List.Perm ps m := by
    have h1 : List.Perm ps ((m.map envPiece).map unpiece) := hperm.map unpiece
    have h2 : (m.map envPiece).map unpiece = m := by
      rw [List.map_map]
      conv => rhs; rw [← List.map_id m]
      apply List.map_congr_left
      intro p hp; exact hinv p hp
    rwa [h2] at h1
  have hlines : ps.map envPiece = sortStrings (m.map envPiece) := by
    simp only [ps, List.map_map]
    conv => rhs; rw [← List.map_id (sortStrings (m.map envPiece))]
    apply List.map_congr_left
    intro l hl
    have : l ∈ m.map envPiece := hperm.subset hl
    simp only [List.mem_map] at this
    obtain ⟨p, hp, rfl⟩ := this
    simp [hinv p hp]
  have hpm : ∀ p ∈ ps, p ∈ m := fun p hp => hps.subset hp
  have hl : Text.lines (joinWith ['\n'] (sortStrings (m.map envPiece))) = sortStrings (m.map envPiece) := by
    apply lines_join
    intro w hw
    have : w ∈ m.map envPiece := hperm.subset hw
    simp only [List.mem_map] at this
    obtain ⟨p, hp, rfl⟩ := this
    obtain ⟨h1, h2, h3, h4⟩ := hm p hp
    refine ⟨by simp [envPiece], ?_, h4⟩
    intro hmem
    simp only [envPiece, List.mem_append, List.mem_cons] at hmem
    rcases hmem with hmem | hmem | hmem
    · exact h2 hmem
    · exact absurd hmem (by decide)
    · exact h3 hmem
  simp only [envCodec, envSer, hl]
  rw [← hlines, envDe_pieces ps [] (fun p hp => (hm p (hpm p hp)).1), insAll_perm_eq m ps hsorted hps]

/-! #### the typed values of C18: the domain is the round-trip equation itself; the `Canon…`
    conditions of Props/C18 imply it -/

theorem vcs_ok : KindOK (.modelled vcsCodec) := by
  intro v ⟨x, hv, hx⟩; subst hv; simp only [vcsCodec, hx]
theorem fwd_ok : KindOK (.modelled fwdCodec) := by
  intro v ⟨x, hv, hx⟩; subst hv; simp only [fwdCodec, hx]
theorem origin_ok : KindOK (.modelled originCodec) := by
  intro v ⟨x, hv, hx⟩; subst hv; simp only [originCodec, hx]
theorem originField_ok : KindOK (.modelled originFieldCodec) := by
  intro v ⟨c, o, hv, hx⟩; subst hv; simp only [originFieldCodec, hx]
theorem license_ok : KindOK (.modelled licenseCodec) := by
  intro v ⟨x, hv, hx⟩; subst hv; simp only [licenseCodec, hx]
theorem sig_ok : KindOK (.modelled sigCodec) := by
  intro v ⟨x, hv, hx⟩; subst hv; simp only [sigCodec, hx]

theorem C16_canon_of_C18 :
    (∀ x, C18.CanonVcs x → vcsCodec.canon (.vcs x))
    ∧ (∀ x, C18.CanonForwarded x → fwdCodec.canon (.fwd x))
    ∧ (∀ x, C18.CanonOrigin x → originCodec.canon (.origin x))
    ∧ (∀ c o, C18.CanonOriginField c o → originFieldCodec.canon (.originField c o))
    ∧ (∀ x, C18.CanonLicense x → licenseCodec.canon (.license x))
    ∧ (∀ x, C18.CanonSignature x → sigCodec.canon (.sig x)) :=
  ⟨fun x h => ⟨x, rfl, C18.C18_parsedvcs_roundtrip x h⟩,
   fun x h => ⟨x, rfl, C18.C18_forwarded_roundtrip x h⟩,
   fun x h => ⟨x, rfl, C18.C18_origin_roundtrip x h⟩,
   fun c o h => ⟨c, o, rfl, C18.C18_originfield_roundtrip c o h⟩,
   fun x h => ⟨x, rfl, C18.C18_license_roundtrip x h⟩,
   fun x h => ⟨x, rfl, C18.C18_signature_roundtrip x h⟩⟩

/-- every registry entry: a modelled pair round-trips on its domain; a `noRoundTrip` mark has a
    concrete value that does not survive -/
theorem C16_registry_ok : ∀ e ∈ registry, KindOK e.2 := by
  apply allOK_mem
  unfold registry
  exact ⟨str_ok, bool_ok, nat_ok _, nat_ok _, trivial, priority_ok, priority_ok, multiArch_ok, multiArch_ok,
    yesNoForce_ok, vcs_ok, fwd_ok, origin_ok, license_ok, sig_ok, trivial, trivial, trivial, trivial, trivial,
    trivial, yesno_ok _, yesno_ok _, yesno_ok _, jaNee_ok, words_ok, words_ok, words_ok, words_ok,
    words_ok, splitLines_ok, splitLines_ok, fileList_ok, lines_ok, types_ok, env_ok, str_ok, originField_ok,
    trivial⟩

/-! ## Part 4 — the deriving structs of the workspace (generated table) -/

/-- every shipped (and synthetic) struct has pairwise distinct keys -/
theorem C16_structs_keys_nodup : ∀ s ∈ Gen.Structs.all, (s.fields.map (·.key)).Nodup := by decide +kernel

/-- every (serialize_with, deserialize_with, type) triple of every struct is in the registry -/
theorem C16_structs_codecs_registered :
    ∀ s ∈ Gen.Structs.all, ∀ f ∈ s.fields, (kindOf f).isSome = true := by decide +kernel

/-- no struct of the workspace has a field whose codec pair is marked `noRoundTrip` -/
theorem C16_structs_noRoundTrip_fields :
    ∀ s ∈ Gen.Structs.all, ∀ f ∈ s.fields, ((kindOf f).map Kind.isNoRoundTrip).getD false = false := by
  decide +kernel

-- PINNED-KEYS-BEGIN (regenerate with `python3 tools/translate.py pins` after reviewing the change)
def pinnedKeys : List (Str × List Str) := [
  (c!"aptsources.Repository", [c!"Enabled", c!"Types", c!"URIs", c!"Suites", c!"Components", c!"Architectures", c!"Languages", c!"Targets", c!"PDiffs", c!"By-Hash", c!"Allow-Insecure", c!"Allow-Weak", c!"Allow-Downgrade-To-Insecure", c!"Trusted", c!"Signed-By", c!"X-Repolib-Name", c!"Description"]),
  (c!"apt.Release", [c!"Codename", c!"Components", c!"Architectures", c!"Description", c!"Origin", c!"Label", c!"Suite", c!"Version", c!"Date", c!"NotAutomatic", c!"ButAutomaticUpgrades", c!"Acquire-By-Hash"]),
  (c!"apt.Source", [c!"Directory", c!"Description", c!"Version", c!"Package", c!"Binary", c!"Maintainer", c!"Build-Depends", c!"Build-Depends-Indep", c!"Build-Conflicts", c!"Build-Conflicts-Indep", c!"Standards-Version", c!"Homepage", c!"Autobuild", c!"Testsuite", c!"Vcs-Browser", c!"Vcs-Git", c!"Vcs-Bzr", c!"Vcs-Hg", c!"Vcs-Svn", c!"Vcs-Darcs", c!"Vcs-Cvs", c!"Vcs-Arch", c!"Vcs-Mtn", c!"Priority", c!"Section", c!"Format", c!"Package-List"]),
  (c!"apt.Package", [c!"Package", c!"Version", c!"Architecture", c!"Maintainer", c!"Installed-Size", c!"Depends", c!"Pre-Depends", c!"Recommends", c!"Suggests", c!"Enhances", c!"Breaks", c!"Conflicts", c!"Provides", c!"Replaces", c!"Built-Using", c!"Description", c!"Homepage", c!"Priority", c!"Section", c!"Essential", c!"Tag", c!"Size", c!"MD5sum", c!"SHA256", c!"Description-md5"]),
  (c!"buildinfo.Buildinfo", [c!"Format", c!"Build-Architecture", c!"Source", c!"Binary", c!"Architecture", c!"Version", c!"Binary-Only-Changes", c!"Checksums-Sha256", c!"Checksums-Sha1", c!"Checksums-Md5", c!"Build-Origin", c!"Build-Date", c!"Build-Tainted-By", c!"Build-Path", c!"Environment", c!"Installed-Build-Depends"]),
  (c!"control.Source", [c!"Source", c!"Build-Depends", c!"Build-Depends-Indep", c!"Build-Depends-Arch", c!"Build-Conflicts", c!"Build-Conflicts-Indep", c!"Build-Conflicts-Arch", c!"Standards-Version", c!"Homepage", c!"Section", c!"Priority", c!"Maintainer", c!"Uploaders", c!"Architecture", c!"Rules-Requires-Root", c!"Testsuite", c!"Vcs-Git", c!"Vcs-Browser"]),
  (c!"control.Binary", [c!"Package", c!"Depends", c!"Recommends", c!"Suggests", c!"Enhances", c!"Pre-Depends", c!"Breaks", c!"Conflicts", c!"Replaces", c!"Provides", c!"Built-Using", c!"Architecture", c!"Section", c!"Priority", c!"Multi-Arch", c!"Essential", c!"Description"]),
  (c!"ftpmaster.Removal", [c!"Date", c!"Suite", c!"Ftpmaster", c!"Sources", c!"Binaries", c!"Reason", c!"Bug"]),
  (c!"debiancopyright.Header", [c!"Format", c!"Files-Excluded", c!"Source", c!"Upstream-Contact"]),
  (c!"debiancopyright.LicenseParagraph", [c!"License", c!"Comment"]),
  (c!"debiancopyright.FilesParagraph", [c!"Files", c!"License", c!"Copyright", c!"Comment"]),
  (c!"dep3.PatchHeader", [c!"Origin", c!"Forwarded", c!"Author", c!"Reviewed-by", c!"Bug-Debian", c!"Last-Update", c!"Applied-Upstream", c!"Bug", c!"Description"]),
  (c!"convert.Foo@74", [c!"bar", c!"baz", c!"blah"]),
  (c!"convert.Foo@95", [c!"bar", c!"baz"]),
  (c!"convert.Foo@118", [c!"bar", c!"baz"]),
  (c!"convert.Foo@154", [c!"bar", c!"baz"]),
  (c!"convert.Foo@179", [c!"bar", c!"baz"]),
  (c!"derive.SynMandatory", [c!"plain", c!"Renamed-Key", c!"number", c!"flag", c!"Yes-No", c!"Words", c!"Priority"]),
  (c!"derive.SynOptional", [c!"plain", c!"Renamed-Key", c!"number", c!"flag", c!"Yes-No", c!"Words", c!"Priority"]),
  (c!"derive.SynMixed", [c!"Name", c!"name_lower", c!"Size", c!"Multi-Arch", c!"Words", c!"tail"]),
  (c!"derive.SynOne", [c!"Only"]),
  (c!"derive.SynEmpty", []),
  (c!"derive.SynFront", [c!"r#type", c!"r#match", c!"path_opt", c!"abs_opt", c!"Second", c!"Twice-B"])]
-- PINNED-KEYS-END
/-- the key literals (explicit `field = "…"` or the identifier) of every struct, pinned: a changed
    or added key in /repo has to be acknowledged here -/
theorem C16_structs_keys_pinned :
    Gen.Structs.all.map (fun s => (s.name, s.fields.map (·.key))) = pinnedKeys := by decide +kernel

-- PINNED-SOURCES-BEGIN
def pinnedSources : List (Str × Str) := [
  (c!"apt.deserialize_architectures", c!"24c12893df7949fc"),
  (c!"apt.deserialize_binaries", c!"4c08b5c0849e2cb0"),
  (c!"apt.deserialize_components", c!"ef6e5d7cf3234fb6"),
  (c!"apt.deserialize_package_list", c!"99aaf0caef4d5ed1"),
  (c!"apt.join_lines", c!"9647f45e651fa1aa"),
  (c!"apt.join_whitespace", c!"a76afdce556f0f0e"),
  (c!"aptsources.deserialize_string_chain", c!"48fa7950dc3f182f"),
  (c!"aptsources.deserialize_types", c!"ea993bdc9907f691"),
  (c!"aptsources.deserialize_uris", c!"4442d6d8d83e6d3d"),
  (c!"aptsources.deserialize_yesno", c!"54e6cda5837bc546"),
  (c!"aptsources.serialize_string_chain", c!"349b89024a077916"),
  (c!"aptsources.serialize_types", c!"5ff90701a83ce5cb"),
  (c!"aptsources.serialize_uris", c!"6302934f11f45d6f"),
  (c!"aptsources.serializer_yesno", c!"4e7cbbb69baccb2a"),
  (c!"buildinfo.deserialize_env", c!"f58c97b8afde71f7"),
  (c!"buildinfo.deserialize_pathbuf", c!"3444f68eaadb4d0a"),
  (c!"buildinfo.deserialize_version", c!"719f4249e1db1afc"),
  (c!"buildinfo.serialize_env", c!"29b1fd943570c429"),
  (c!"buildinfo.serialize_pathbuf", c!"af9aee2952bbc689"),
  (c!"buildinfo.serialize_version", c!"ccf0f1c6c10d2665"),
  (c!"control.deserialize_yesno", c!"230ef134300e05e5"),
  (c!"control.serialize_yesno", c!"a5e2d3ca5cfd8540"),
  (c!"convert.from_bool", c!"eaf5c46349d0a804"),
  (c!"convert.to_bool", c!"587ba262f0a349a8"),
  (c!"debiancopyright.deserialize_copyrights", c!"27f4f216647b1082"),
  (c!"debiancopyright.deserialize_file_list", c!"33ebd9d0d264b62c"),
  (c!"debiancopyright.serialize_copyrights", c!"fd9b2ccbbc0fef76"),
  (c!"debiancopyright.serialize_file_list", c!"4e3ab4adc45f0781"),
  (c!"dep3.deserialize_date", c!"32d3d8394ee2e429"),
  (c!"dep3.deserialize_origin", c!"07f1e216803b78c3"),
  (c!"dep3.serialize_date", c!"8c3b2096cf78b0f1"),
  (c!"dep3.serialize_origin", c!"185981206b51b145"),
  (c!"derive.syn_de_words", c!"1d3f3906cedad140"),
  (c!"derive.syn_de_yesno", c!"c42623990846bef3"),
  (c!"derive.syn_ser_words", c!"02a9085f55bed229"),
  (c!"derive.syn_ser_yesno", c!"ab90ca3ba6ac3375"),
  (c!"ftpmaster.deserialize_list", c!"8fb0e78c259044d0"),
  (c!"ftpmaster.serialize_list", c!"81d35b527149ef67")]
-- PINNED-SOURCES-END
/-- the source text (SHA-256 prefix; the text itself is in the comment of `Gen.Structs.codecSources`)
    of every custom (de)serialiser named by a struct field, pinned: an edit of a
    codec function in /repo has to be acknowledged here (and its model in `DeriveCodecs` reviewed) -/
theorem C16_codec_sources_pinned : Gen.Structs.codecSources = pinnedSources := by decide +kernel

/-- the struct-level statement for the shipped table: for every struct of the table, every lawful
    back-end and every value whose leaf values lie in their codecs' domains, the conversions
    round-trip, and an update reads back -/
def specOfRow (s : StructRow) : Option (List (FieldSpec Val)) :=
  s.fields.mapM fun f => (kindOf f).map fun k => ⟨f.key, f.optional, k.codec.ser, k.codec.de⟩

theorem C16_structs_roundtrip_of_codecs (B : Backend P) (hB : Lawful B) :
    ∀ s ∈ Gen.Structs.all, ∀ spec, specOfRow s = some spec → ∀ x,
      WellFormed spec x → CodecsRoundTrip spec x →
      fromParagraph B spec (toParagraph B spec x) = .ok x
      ∧ ∀ p, fromParagraph B spec (updateParagraph B spec x p) = .ok x := by
  intro s hs spec hspec x hw hc
  have hk : (specKeys spec).Nodup := by
    have h1 := C16_structs_keys_nodup s hs
    have : specKeys spec = s.fields.map (·.key) := by
      unfold specOfRow at hspec
      clear h1 hs hw hc
      generalize s.fields = fl at hspec
      induction fl generalizing spec with
      | nil => simp at hspec; subst hspec; rfl
      | cons f fs ih =>
        simp only [List.mapM_cons, Option.bind_eq_bind] at hspec
        cases hk : kindOf f with
        | none => simp [hk] at hspec
        | some k =>
          simp only [hk, Option.map_some, Option.bind_some] at hspec
          cases hr : List.mapM (fun f => (kindOf f).map fun k => (⟨f.key, f.optional, k.codec.ser, k.codec.de⟩ : FieldSpec Val)) fs with
          | none => simp [hr] at hspec
          | some rest =>
            simp only [hr, Option.bind_some, Option.pure_def, Option.some.injEq] at hspec
            subst hspec
            simp [specKeys, ← ih rest hr]
    rw [this]; exact h1
  exact ⟨C16_roundtrip B hB spec x hk hw hc, fun p => C16_update_reads_back B hB spec x p hk hw hc⟩


theorem lookupKind_mem (k : Str × Str × Str) (l : List ((Str × Str × Str) × Kind)) (kd : Kind)
    (h : lookupKind k l = some kd) : (k, kd) ∈ l := by
  induction l with
  | nil => simp [lookupKind] at h
  | cons e r ih =>
    simp only [lookupKind] at h
    split at h
    · rename_i he
      simp only [Option.some.injEq] at h
      have : e = (k, kd) := by rw [← he, ← h]
      simp [this]
    · exact List.mem_cons_of_mem _ (ih h)

/-- every present field value lies in the domain of its (modelled) leaf codec -/
def LeafDomain : List FieldRow → List (Option Val) → Prop
  | f :: fs, some v :: vs => (∃ c, kindOf f = some (.modelled c) ∧ c.canon v) ∧ LeafDomain fs vs
  | _ :: fs, none :: vs => LeafDomain fs vs
  | _, _ => True

theorem codecs_of_leafDomain (fl : List FieldRow) (spec : List (FieldSpec Val)) (x : List (Option Val))
    (hs : fl.mapM (fun f => (kindOf f).map fun k => (⟨f.key, f.optional, k.codec.ser, k.codec.de⟩ : FieldSpec Val)) = some spec)
    (hd : LeafDomain fl x) : CodecsRoundTrip spec x := by
  induction fl generalizing spec x with
  | nil => simp at hs; subst hs; cases x <;> trivial
  | cons f fs ih =>
    simp only [List.mapM_cons, Option.bind_eq_bind] at hs
    cases hk : kindOf f with
    | none => simp [hk] at hs
    | some k =>
      simp only [hk, Option.map_some, Option.bind_some] at hs
      cases hr : List.mapM (fun f => (kindOf f).map fun k => (⟨f.key, f.optional, k.codec.ser, k.codec.de⟩ : FieldSpec Val)) fs with
      | none => simp [hr] at hs
      | some rest =>
        simp only [hr, Option.bind_some, Option.pure_def, Option.some.injEq] at hs
        subst hs
        cases x with
        | nil => trivial
        | cons v vs =>
          cases v with
          | none => simp only [LeafDomain] at hd; simp only [CodecsRoundTrip]; exact ih rest vs hr hd
          | some v =>
            simp only [LeafDomain] at hd
            obtain ⟨⟨c, hc, hcan⟩, hrest⟩ := hd
            simp only [CodecsRoundTrip]
            refine ⟨?_, ih rest vs hr hrest⟩
            rw [hk] at hc
            simp only [Option.some.injEq] at hc
            subst hc
            have hmem := lookupKind_mem _ _ _ hk
            have := C16_registry_ok _ hmem
            exact this v hcan

/-- **all shipped structs**: for every struct of the generated table (none has a `noRoundTrip`
    field), every lawful back-end and every value whose field values lie in the domains of their
    modelled leaf codecs: `from_paragraph(to_paragraph(x)) = Ok(x)`, and after `update_paragraph` on
    any prior paragraph it reads back as `x` -/
theorem C16_structs_roundtrip (B : Backend P) (hB : Lawful B) :
    ∀ s ∈ Gen.Structs.all, ∀ spec, specOfRow s = some spec → ∀ x,
      WellFormed spec x → LeafDomain s.fields x →
      fromParagraph B spec (toParagraph B spec x) = .ok x
      ∧ ∀ p, fromParagraph B spec (updateParagraph B spec x p) = .ok x := by
  intro s hs spec hspec x hw hd
  exact C16_structs_roundtrip_of_codecs B hB s hs spec hspec x hw
    (codecs_of_leafDomain s.fields spec x (by unfold specOfRow at hspec; exact hspec) hd)

end Deb822Verif.Props.C16
