import Deb822Verif.Model.Copyright
/-!
# C17 — copyright lookup: last matching Files paragraph wins; DEP-5 globs and licences

Models: `Glob.globToRegex`/`regexMatch` (glob.rs), `Copyright.Lossless.*` (lossless.rs),
`Copyright.Lossy.*` (lossy.rs), `License` (lib.rs).
-/
namespace Deb822Verif.Props.C17
open Deb822Verif Text Glob Copyright

/-! ## the declarative glob semantics of the property -/
namespace GlobSpec

/-- `Matches g p`: pattern `g` matches the whole of path `p`.
    `*` matches any run of characters (including `/`), `?` exactly one character, a backslash makes
    the following `*`, `?` or backslash literal, every other character matches only itself. -/
inductive Matches : Str → Str → Prop
  | nil : Matches [] []
  | star (run : Str) {g p : Str} : Matches g p → Matches ('*' :: g) (run ++ p)
  | question (x : Char) {g p : Str} : Matches g p → Matches ('?' :: g) (x :: p)
  | escape (c : Char) {g p : Str} : isEscapable c = true → Matches g p →
      Matches ('\\' :: c :: g) (c :: p)
  | literal (c : Char) {g p : Str} : c ≠ '*' → c ≠ '?' → c ≠ '\\' → Matches g p →
      Matches (c :: g) (c :: p)

theorem nil_inv {p : Str} (h : Matches [] p) : p = [] := by
  cases h; rfl

/-- inversion on the first pattern character -/
theorem cons_inv {c : Char} {g p : Str} (h : Matches (c :: g) p) :
    (c = '*' ∧ ∃ run p', p = run ++ p' ∧ Matches g p') ∨
    (c = '?' ∧ ∃ x p', p = x :: p' ∧ Matches g p') ∨
    (c = '\\' ∧ ∃ e g' p', g = e :: g' ∧ isEscapable e = true ∧ p = e :: p' ∧ Matches g' p') ∨
    (c ≠ '*' ∧ c ≠ '?' ∧ c ≠ '\\' ∧ ∃ p', p = c :: p' ∧ Matches g p') := by
  generalize hg : c :: g = g0 at h
  cases h with
  | nil => cases hg
  | star run hm =>
    injection hg with h1 h2; subst h1; subst h2
    exact .inl ⟨rfl, run, _, rfl, hm⟩
  | question x hm =>
    injection hg with h1 h2; subst h1; subst h2
    exact .inr (.inl ⟨rfl, x, _, rfl, hm⟩)
  | escape e he hm =>
    injection hg with h1 h2; subst h1; subst h2
    exact .inr (.inr (.inl ⟨rfl, e, _, _, rfl, he, rfl, hm⟩))
  | literal c' h1' h2' h3' hm =>
    injection hg with h1 h2; subst h1; subst h2
    exact .inr (.inr (.inr ⟨h1', h2', h3', _, rfl, hm⟩))

end GlobSpec
open GlobSpec

/-! ## `glob_to_regex` + `is_match` against the declarative semantics -/

/-- `.*k` matches `p` iff `p` is a newline-free run followed by something `k` matches -/
theorem starMatch_iff (k : Str → Bool) (p : Str) :
    starMatch k p = true ↔ ∃ run rest, p = run ++ rest ∧ '\n' ∉ run ∧ k rest = true := by
  induction p with
  | nil =>
    simp only [starMatch]
    constructor
    · intro h; exact ⟨[], [], rfl, by simp, h⟩
    · rintro ⟨run, rest, e, _, hk⟩
      have : rest = [] := by
        have := congrArg List.length e; simp at this; exact List.eq_nil_of_length_eq_zero (by omega)
      subst this; exact hk
  | cons x xs ih =>
    simp only [starMatch, Bool.or_eq_true, Bool.and_eq_true, bne_iff_ne, ne_eq]
    constructor
    · rintro (h | ⟨hx, h⟩)
      · exact ⟨[], x :: xs, rfl, by simp, h⟩
      · obtain ⟨run, rest, e, hn, hk⟩ := ih.1 h
        refine ⟨x :: run, rest, by simp [e], ?_, hk⟩
        intro hm; simp at hm; rcases hm with hm | hm
        · exact hx hm.symm
        · exact hn hm
    · rintro ⟨run, rest, e, hn, hk⟩
      cases run with
      | nil => simp at e; subst e; exact .inl hk
      | cons y ys =>
        simp at e
        obtain ⟨e1, e2⟩ := e
        subst e1
        refine .inr ⟨?_, ih.2 ⟨ys, rest, e2, ?_, hk⟩⟩
        · intro hx; apply hn; simp [hx]
        · intro hm; apply hn; simp [hm]

theorem isEscapable_iff (c : Char) : isEscapable c = true ↔ (c = '?' ∨ c = '*' ∨ c = '\\') := by
  simp [isEscapable, or_assoc]

/-- on patterns with valid escapes `glob_to_regex` returns (no panic) -/
theorem globToRegex_ok (g : Str) (hg : validEscapes g = true) : ∃ r, globToRegex g = .ok r := by
  fun_induction validEscapes g with
  | case1 => exact ⟨[], rfl⟩
  | case2 => simp at hg
  | case3 x rest' ih =>
    simp only [Bool.and_eq_true] at hg
    obtain ⟨r, hr⟩ := ih hg.2
    refine ⟨.lit x :: r, ?_⟩
    simp [globToRegex, hg.1, hr, Outcome.map]
  | case4 c rest hc ih =>
    obtain ⟨r, hr⟩ := ih hg
    unfold globToRegex
    by_cases h1 : c = '*'
    · exact ⟨.anyStar :: r, by simp [h1, hr, Outcome.map]⟩
    · by_cases h2 : c = '?'
      · exact ⟨.any :: r, by simp [h2, hr, Outcome.map]⟩
      · exact ⟨.lit c :: r, by simp [h1, h2, hc, hr, Outcome.map]⟩


theorem validEscapes_cons_ne {c : Char} {rest : Str} (h : c ≠ '\\') :
    validEscapes (c :: rest) = validEscapes rest := by
  rw [validEscapes.eq_def]; simp [h]

/-- the patterns on which `glob_to_regex` panics are exactly those with an invalid escape -/
theorem C17_glob_panic_iff (g : Str) :
    (∃ site, globToRegex g = .panic site) ↔ validEscapes g = false := by
  constructor
  · rintro ⟨site, h⟩
    cases hv : validEscapes g with
    | false => rfl
    | true => obtain ⟨r, hr⟩ := globToRegex_ok g hv; rw [hr] at h; cases h
  · intro hv
    fun_induction globToRegex g with
    | case1 => simp [validEscapes] at hv
    | case2 rest ih =>
      have : validEscapes rest = false := by rw [validEscapes_cons_ne (by decide)] at hv; exact hv
      obtain ⟨s, hs⟩ := ih this; exact ⟨s, by simp [hs, Outcome.map]⟩
    | case3 rest _ ih =>
      have : validEscapes rest = false := by rw [validEscapes_cons_ne (by decide)] at hv; exact hv
      obtain ⟨s, hs⟩ := ih this; exact ⟨s, by simp [hs, Outcome.map]⟩
    | case4 => exact ⟨_, rfl⟩
    | case5 x rest' hx _ _ ih =>
      have : validEscapes rest' = false := by simpa [validEscapes, hx] using hv
      obtain ⟨s, hs⟩ := ih this; exact ⟨s, by simp [hs, Outcome.map]⟩
    | case6 x rest' hx _ _ => exact ⟨_, rfl⟩
    | case7 c rest h1 h2 h3 ih =>
      have : validEscapes rest = false := by rw [validEscapes_cons_ne h3] at hv; exact hv
      obtain ⟨s, hs⟩ := ih this; exact ⟨s, by simp [hs, Outcome.map]⟩

/-- the translated regex decides the declarative semantics (paths without `\n`) -/
theorem regexMatch_iff (g : Str) : ∀ (r : List RegexItem), globToRegex g = .ok r →
    ∀ p : Str, '\n' ∉ p → (regexMatch r p = true ↔ Matches g p) := by
  fun_induction globToRegex g with
  | case1 =>
    intro r hr p _
    cases hr
    simp only [regexMatch, List.isEmpty_iff]
    exact ⟨fun h => h ▸ Matches.nil, nil_inv⟩
  | case2 rest ih =>
    intro r hr p hp
    cases hrest : globToRegex rest with
    | panic s => simp [hrest, Outcome.map] at hr
    | ok r' =>
      simp only [hrest, Outcome.map, Outcome.ok.injEq] at hr
      subst hr
      simp only [regexMatch]
      rw [starMatch_iff]
      constructor
      · rintro ⟨run, rest', e, _, hk⟩
        subst e
        exact Matches.star run ((ih r' hrest rest' (fun h => hp (by simp [h]))).1 hk)
      · intro h
        rcases cons_inv h with ⟨_, run, p', e, hm⟩ | ⟨h1, _⟩ | ⟨h1, _⟩ | ⟨h1, _⟩
        · subst e
          exact ⟨run, p', rfl, fun h => hp (by simp [h]), (ih r' hrest p' (fun h => hp (by simp [h]))).2 hm⟩
        · exact absurd h1 (by decide)
        · exact absurd h1 (by decide)
        · exact absurd rfl h1
  | case3 rest _ ih =>
    intro r hr p hp
    cases hrest : globToRegex rest with
    | panic s => simp [hrest, Outcome.map] at hr
    | ok r' =>
      simp only [hrest, Outcome.map, Outcome.ok.injEq] at hr
      subst hr
      cases p with
      | nil =>
        simp only [regexMatch]
        constructor
        · intro h; cases h
        · intro h
          rcases cons_inv h with ⟨h1, _⟩ | ⟨_, x, p', e, _⟩ | ⟨h1, _⟩ | ⟨_, h1, _⟩
          · exact absurd h1 (by decide)
          · cases e
          · exact absurd h1 (by decide)
          · exact absurd rfl h1
      | cons x xs =>
        have hx : x ≠ '\n' := fun e => hp (by simp [e])
        have hxs : '\n' ∉ xs := fun h => hp (by simp [h])
        simp only [regexMatch, Bool.and_eq_true, bne_iff_ne, ne_eq]
        constructor
        · rintro ⟨_, hk⟩
          exact Matches.question x ((ih r' hrest xs hxs).1 hk)
        · intro h
          rcases cons_inv h with ⟨h1, _⟩ | ⟨_, y, p', e, hm⟩ | ⟨h1, _⟩ | ⟨_, h1, _⟩
          · exact absurd h1 (by decide)
          · injection e with e1 e2; subst e1; subst e2
            exact ⟨hx, (ih r' hrest _ hxs).2 hm⟩
          · exact absurd h1 (by decide)
          · exact absurd rfl h1
  | case4 => intro r hr; cases hr
  | case5 x rest' hx _ _ ih =>
    intro r hr p hp
    cases hrest : globToRegex rest' with
    | panic s => simp [hrest, Outcome.map] at hr
    | ok r' =>
      simp only [hrest, Outcome.map, Outcome.ok.injEq] at hr
      subst hr
      cases p with
      | nil =>
        simp only [regexMatch]
        constructor
        · intro h; cases h
        · intro h
          rcases cons_inv h with ⟨h1, _⟩ | ⟨h1, _⟩ | ⟨_, e, g', p', _, _, ep, _⟩ | ⟨_, _, h1, _⟩
          · exact absurd h1 (by decide)
          · exact absurd h1 (by decide)
          · cases ep
          · exact absurd rfl h1
      | cons y ys =>
        have hys : '\n' ∉ ys := fun h => hp (by simp [h])
        simp only [regexMatch, Bool.and_eq_true, beq_iff_eq]
        constructor
        · rintro ⟨e, hk⟩
          subst e
          exact Matches.escape y hx ((ih r' hrest ys hys).1 hk)
        · intro h
          rcases cons_inv h with ⟨h1, _⟩ | ⟨h1, _⟩ | ⟨_, e, g', p', eg, _, ep, hm⟩ | ⟨_, _, h1, _⟩
          · exact absurd h1 (by decide)
          · exact absurd h1 (by decide)
          · injection eg with e1 e2; subst e1; subst e2
            injection ep with e1 e2; subst e1; subst e2
            exact ⟨rfl, (ih r' hrest _ hys).2 hm⟩
          · exact absurd rfl h1
  | case6 x rest' hx _ _ => intro r hr; cases hr
  | case7 c rest h1 h2 h3 ih =>
    intro r hr p hp
    cases hrest : globToRegex rest with
    | panic s => simp [hrest, Outcome.map] at hr
    | ok r' =>
      simp only [hrest, Outcome.map, Outcome.ok.injEq] at hr
      subst hr
      cases p with
      | nil =>
        simp only [regexMatch]
        constructor
        · intro h; cases h
        · intro h
          rcases cons_inv h with ⟨e, _⟩ | ⟨e, _⟩ | ⟨e, _⟩ | ⟨_, _, _, p', ep, _⟩
          · exact absurd e h1
          · exact absurd e h2
          · exact absurd e h3
          · cases ep
      | cons y ys =>
        have hys : '\n' ∉ ys := fun h => hp (by simp [h])
        simp only [regexMatch, Bool.and_eq_true, beq_iff_eq]
        constructor
        · rintro ⟨e, hk⟩
          subst e
          exact Matches.literal y h1 h2 h3 ((ih r' hrest ys hys).1 hk)
        · intro h
          rcases cons_inv h with ⟨e, _⟩ | ⟨e, _⟩ | ⟨e, _⟩ | ⟨_, _, _, p', ep, hm⟩
          · exact absurd e h1
          · exact absurd e h2
          · exact absurd e h3
          · injection ep with e1 e2; subst e1; subst e2
            exact ⟨rfl, (ih r' hrest _ hys).2 hm⟩

/-- **C17, glob clause.** For every pattern whose backslashes are each followed by `*`, `?` or a
    backslash, and every path without a newline: `glob_to_regex(g).is_match(p)` returns `true`
    exactly when `g` matches the whole of `p` in the declarative sense. -/
theorem C17_glob (g p : Str) (hg : validEscapes g = true) (hp : '\n' ∉ p) :
    matchGlob g p = .ok true ↔ Matches g p := by
  obtain ⟨r, hr⟩ := globToRegex_ok g hg
  have := regexMatch_iff g r hr p hp
  simp only [matchGlob, hr, Outcome.map, Outcome.ok.injEq]
  exact this

/-- …and it never panics there: the answer is `true` or `false` -/
theorem C17_glob_total (g p : Str) (hg : validEscapes g = true) :
    ∃ b, matchGlob g p = .ok b := by
  obtain ⟨r, hr⟩ := globToRegex_ok g hg
  exact ⟨regexMatch r p, by simp [matchGlob, hr, Outcome.map]⟩


/-! ## `any`, `filter … last` -/

theorem globB_iff (g path : Str) (hg : validEscapes g = true) (hp : '\n' ∉ path) :
    Spec.globB g path = true ↔ Matches g path := by
  rw [← C17_glob g path hg hp]; simp [Spec.globB]

theorem anyMatch_ok (gs : List Str) (path : Str) (h : ∀ g ∈ gs, validEscapes g = true) :
    anyMatch gs path = .ok (gs.any (Spec.globB · path)) := by
  induction gs with
  | nil => rfl
  | cons g rest ih =>
    obtain ⟨b, hb⟩ := C17_glob_total g path (h g (by simp))
    have ih' := ih (fun x hx => h x (by simp [hx]))
    cases b with
    | true => simp [anyMatch, hb, Spec.globB]
    | false => simp [anyMatch, hb, Spec.globB, ih']

theorem filterO_ok {α} (f : α → Outcome Bool) (g : α → Bool) (l : List α)
    (h : ∀ a ∈ l, f a = .ok (g a)) : filterO f l = .ok (l.filter g) := by
  induction l with
  | nil => rfl
  | cons a as ih =>
    have h1 := h a (by simp)
    have h2 := ih (fun x hx => h x (by simp [hx]))
    simp only [filterO, h1, h2, List.filter_cons]

theorem filterO_map {α β} (f : β → Outcome Bool) (g : α → β) (l : List α) :
    filterO f (l.map g) = (filterO (fun a => f (g a)) l).map (List.map g) := by
  induction l with
  | nil => rfl
  | cons a as ih =>
    simp only [List.map_cons, filterO, ih]
    cases f (g a) with
    | panic s => rfl
    | ok b =>
      cases filterO (fun a => f (g a)) as with
      | panic s => rfl
      | ok r => cases b <;> rfl

theorem filterO_congr {α} (f f' : α → Outcome Bool) (l : List α) (h : ∀ a ∈ l, f a = f' a) :
    filterO f l = filterO f' l := by
  induction l with
  | nil => rfl
  | cons a as ih =>
    simp only [filterO, h a (by simp), ih (fun x hx => h x (by simp [hx]))]

theorem find?_congr' {α} (p q : α → Bool) (l : List α) (h : ∀ a ∈ l, p a = q a) :
    l.find? p = l.find? q := by
  induction l with
  | nil => rfl
  | cons a as ih =>
    simp only [List.find?_cons, h a (by simp), ih (fun x hx => h x (by simp [hx]))]

/-- **C17, "one of whose whitespace-separated patterns matches".** A (lossless) Files paragraph
    matches a path iff one of the whitespace-separated patterns of its Files field does. -/
theorem C17_matches_any (fp : Para) (v path : Str) (hv : fp.get kFiles = some v)
    (hvalid : ∀ g ∈ splitWhitespace v, validEscapes g = true) (hp : '\n' ∉ path) :
    Lossless.paraMatches fp path = .ok true ↔ ∃ g ∈ splitWhitespace v, Matches g path := by
  simp only [Lossless.paraMatches, Lossless.files, hv, anyMatch_ok _ path hvalid,
    Outcome.ok.injEq, List.any_eq_true]
  constructor
  · rintro ⟨g, hg, hb⟩; exact ⟨g, hg, (globB_iff g path (hvalid g hg) hp).1 hb⟩
  · rintro ⟨g, hg, hm⟩; exact ⟨g, hg, (globB_iff g path (hvalid g hg) hp).2 hm⟩

/-- the answer is `true` or `false` there (no panic) -/
theorem C17_matches_total (fp : Para) (v path : Str) (hv : fp.get kFiles = some v)
    (hvalid : ∀ g ∈ splitWhitespace v, validEscapes g = true) :
    Lossless.paraMatches fp path = .ok (Spec.paraMatchesB fp path) := by
  simp [Lossless.paraMatches, Lossless.files, hv, anyMatch_ok _ path hvalid, Spec.paraMatchesB,
    Spec.patterns]

/-- the lossy counterpart: one of the *stored* patterns (since 546a36f lossy.rs stores the white-space-separated patterns of the field, `deserialize_file_list`) -/
theorem C17_matches_any_lossy (fp : Lossy.FilesParagraph) (path : Str)
    (hvalid : ∀ g ∈ fp.files, validEscapes g = true) (hp : '\n' ∉ path) :
    Lossy.paraMatches fp path = .ok true ↔ ∃ g ∈ fp.files, Matches g path := by
  simp only [Lossy.paraMatches, anyMatch_ok _ path hvalid, Outcome.ok.injEq, List.any_eq_true]
  constructor
  · rintro ⟨g, hg, hb⟩; exact ⟨g, hg, (globB_iff g path (hvalid g hg) hp).1 hb⟩
  · rintro ⟨g, hg, hm⟩; exact ⟨g, hg, (globB_iff g path (hvalid g hg) hp).2 hm⟩

/-- **C17, "last wins".** `find_files` is the last element, in file order, of the Files
    paragraphs that match (lossless view; no pattern evaluation panics). -/
theorem C17_last_wins (c : Doc) (path : Str)
    (h : ∀ fp ∈ Lossless.iterFiles c, ∃ b, Lossless.paraMatches fp path = .ok b) :
    Lossless.findFiles c path =
      .ok ((Lossless.iterFiles c).filter (fun fp => Lossless.paraMatches fp path == .ok true)).getLast? := by
  unfold Lossless.findFiles
  rw [filterO_ok _ (fun fp => Lossless.paraMatches fp path == .ok true)]
  · rfl
  · intro fp hfp
    obtain ⟨b, hb⟩ := h fp hfp
    cases b <;> simp [hb]

/-- the same for the lossy view -/
theorem C17_last_wins_lossy (c : Lossy.Copyright) (path : Str)
    (h : ∀ fp ∈ c.files, ∃ b, Lossy.paraMatches fp path = .ok b) :
    Lossy.findFiles c path =
      .ok (c.files.filter (fun fp => Lossy.paraMatches fp path == .ok true)).getLast? := by
  unfold Lossy.findFiles
  rw [filterO_ok _ (fun fp => Lossy.paraMatches fp path == .ok true)]
  · rfl
  · intro fp hfp
    obtain ⟨b, hb⟩ := h fp hfp
    cases b <;> simp [hb]


/-! ## paragraph-list helpers -/

theorem mem_filesParas {c : Doc} {p : Para} (h : p ∈ Spec.filesParas c) :
    p ∈ c.drop 1 ∧ ∃ f, p.get kFiles = some f := by
  simp only [Spec.filesParas, List.mem_filter, Para.containsKey, Option.isSome_iff_exists] at h
  exact h

theorem mem_standalone {c : Doc} {p : Para} (h : p ∈ Spec.standalone c) :
    p ∈ c.drop 1 ∧ p.get kFiles = none ∧ ∃ l, p.get kLicense = some l := by
  simp only [Spec.standalone, List.mem_filter, Para.containsKey, Bool.and_eq_true,
    Bool.not_eq_true', Option.isSome_eq_false_iff, Option.isNone_iff_eq_none,
    Option.isSome_iff_exists] at h
  exact ⟨h.1, h.2.1, h.2.2⟩

theorem filterO_mem {α} (f : α → Outcome Bool) (l r : List α) (h : filterO f l = .ok r) :
    ∀ x ∈ r, x ∈ l := by
  induction l generalizing r with
  | nil => simp only [filterO, Outcome.ok.injEq] at h; subst h; simp
  | cons a as ih =>
    unfold filterO at h
    cases hfa : f a with
    | panic s => simp [hfa] at h
    | ok b =>
      cases hr : filterO f as with
      | panic s => simp [hfa, hr] at h
      | ok r' =>
        simp only [hfa, hr, Outcome.ok.injEq] at h
        subst h
        intro x hx
        cases b with
        | true =>
          simp only [if_true, List.mem_cons] at hx
          rcases hx with e | hx
          · simp [e]
          · exact List.mem_cons_of_mem _ (ih r' hr x hx)
        | false =>
          simp only [Bool.false_eq_true, if_false] at hx
          exact List.mem_cons_of_mem _ (ih r' hr x hx)

/-! ## the property's domain (`Spec.wellFormed` = shape ∧ licences named ∧ valid escapes; the
    header paragraph may carry any fields besides `Format`, a `License` or `Files` field included) -/

theorem wf_parts {c : Doc} (hwf : Spec.wellFormed c = true) :
    Spec.lossyShape c = true ∧ Spec.licenceNamed c = true ∧ Spec.patternsValid c = true := by
  simp only [Spec.wellFormed, Bool.and_eq_true] at hwf
  exact ⟨hwf.1.1, hwf.1.2, hwf.2⟩

theorem patternsValid_mem {c : Doc} (hv : Spec.patternsValid c = true) {fp : Para}
    (hfp : fp ∈ Spec.filesParas c) {f : Str} (hf : fp.get kFiles = some f) :
    ∀ g ∈ splitWhitespace f, validEscapes g = true := by
  simp only [Spec.patternsValid, List.all_eq_true] at hv
  have := hv fp hfp
  simpa [Spec.patterns, hf] using this

/-- **C17, lookup.** When every pattern has valid escapes, the lossless `find_files` returns
    exactly "the last Files paragraph, in file order, one of whose whitespace-separated patterns
    matches" — on any paragraph list whatsoever. -/
theorem C17_find_files_spec (c : Doc) (path : Str) (hv : Spec.patternsValid c = true) :
    Lossless.findFiles c path = .ok (Spec.findFiles c path) := by
  unfold Lossless.findFiles Spec.findFiles
  rw [filterO_ok _ (Spec.paraMatchesB · path)]
  · rfl
  · intro fp hfp
    obtain ⟨_, f, hf⟩ := mem_filesParas hfp
    exact C17_matches_total fp f path hf (patternsValid_mem hv hfp hf)

/-- `Spec.paraMatchesB` is the declarative "one of its patterns matches" -/
theorem C17_spec_matches (c : Doc) (path : Str) (hv : Spec.patternsValid c = true)
    (hp : '\n' ∉ path) (fp : Para) (hfp : fp ∈ Spec.filesParas c) :
    Spec.paraMatchesB fp path = true ↔ ∃ g ∈ Spec.patterns fp, Matches g path := by
  obtain ⟨_, f, hf⟩ := mem_filesParas hfp
  have hval := patternsValid_mem hv hfp hf
  have := C17_matches_any fp f path hf hval hp
  rw [C17_matches_total fp f path hf hval] at this
  simpa [Spec.patterns, hf] using this

theorem spec_found_mem {c : Doc} {path : Str} {fp : Para} (h : Spec.findFiles c path = some fp) :
    fp ∈ Spec.filesParas c := by
  unfold Spec.findFiles at h
  exact (List.mem_filter.1 (List.mem_of_getLast? h)).1

theorem lossless_found_mem {c : Doc} {path : Str} {fp : Para}
    (h : Lossless.findFiles c path = .ok (some fp)) : fp ∈ Spec.filesParas c := by
  unfold Lossless.findFiles at h
  cases hr : filterO (Lossless.paraMatches · path) (Lossless.iterFiles c) with
  | panic s => simp [hr, Outcome.map] at h
  | ok r =>
    simp only [hr, Outcome.map, Outcome.ok.injEq] at h
    exact filterO_mem _ _ r hr fp (List.mem_of_getLast? h)

/-! ## licences -/

theorem splitOnce_fst_nil {l : Str} {r : Str × Str} (h : splitOnce '\n' l = some r) (hr : r.1 = []) :
    l.head? = some '\n' := by
  cases l with
  | nil => simp [splitOnce] at h
  | cons c cs =>
    unfold splitOnce at h
    by_cases hc : c = '\n'
    · simp [hc]
    · simp only [hc, if_false] at h
      cases hs : splitOnce '\n' cs with
      | none => simp [hs] at h
      | some r' => simp only [hs, Option.some.injEq] at h; subst h; simp at hr

/-- name of a licence value whose first line is not empty = that first line -/
theorem ofValue_name {l : Str} (h : l.head? ≠ some '\n') :
    (License.ofValue l).name? = some (Spec.firstLine l) := by
  cases hs : splitOnce '\n' l with
  | none => simp [License.ofValue, hs, Spec.firstLine, License.name?]
  | some r =>
    have hr : r.1 ≠ [] := fun e => h (splitOnce_fst_nil hs e)
    simp [License.ofValue, hs, Spec.firstLine, hr, License.name?]

/-- the licence value carries text iff the parsed licence has a text -/
theorem ofValue_text (l : Str) : (License.ofValue l).text?.isSome = Spec.hasText l := by
  cases hs : splitOnce '\n' l with
  | none => simp [License.ofValue, hs, Spec.hasText, License.text?]
  | some r =>
    simp only [License.ofValue, hs, Spec.hasText, Option.isSome_some]
    split <;> rfl

theorem ofValue_noText {l : Str} (h : Spec.hasText l = false) : License.ofValue l = .name l := by
  cases hs : splitOnce '\n' l with
  | none => simp [License.ofValue, hs]
  | some r => simp [Spec.hasText, hs] at h

/-- `LicenseParagraph::name()` (after d2a6901) is the first line of the License field -/
theorem licName_eq (p : Para) : Lossless.licName p = (p.get kLicense).map Spec.firstLine := by
  unfold Lossless.licName
  cases p.get kLicense with
  | none => rfl
  | some x => simp only [Option.map_some, Spec.firstLine]

/-- lossless `find_license_by_name` = the first stand-alone licence paragraph of that name -/
theorem lossless_findByName_spec (c : Doc) (n : Str) :
    Lossless.findLicenseByName c n =
      .ok (match (Spec.standalone c).find? (fun p => (p.get kLicense).map Spec.firstLine == some n) with
        | none => none
        | some p => (p.get kLicense).map License.ofValue) := by
  unfold Lossless.findLicenseByName
  have hiter : Lossless.iterLicenses c = Spec.standalone c := rfl
  rw [hiter, find?_congr' (fun p => Lossless.licName p == some n)
    (fun p => (p.get kLicense).map Spec.firstLine == some n) _ (fun p _ => by rw [licName_eq])]
  cases hfind : (Spec.standalone c).find? (fun p => (p.get kLicense).map Spec.firstLine == some n) with
  | none => rfl
  | some p =>
    obtain ⟨_, _, l, hl⟩ := mem_standalone (List.mem_of_find?_eq_some hfind)
    simp [Lossless.intoLicense, hl, Outcome.map]

/-- lossless `find_license_for_file`, given what `find_files` returned -/
theorem lossless_license_of_found (c : Doc) (path : Str) (o : Option Para)
    (hf : Lossless.findFiles c path = .ok o) :
    Lossless.findLicenseForFile c path = .ok (o.bind (Spec.licenseFor c)) := by
  unfold Lossless.findLicenseForFile
  rw [hf]
  cases o with
  | none => rfl
  | some fp =>
    simp only [Lossless.license, Option.bind_some, Spec.licenseFor]
    cases hl : fp.get kLicense with
    | none => rfl
    | some l =>
      simp only [Option.map_some, ofValue_text]
      cases ht : Spec.hasText l with
      | true => simp
      | false =>
        simp only [ofValue_noText ht, License.name?, Bool.false_eq_true, if_false]
        exact lossless_findByName_spec c l

/-- **C17, licence (lossless view).** Whatever the file: the licence of a file whose Files
    paragraph is `fp` is `fp`'s own licence when it carries text, otherwise the first stand-alone
    licence paragraph whose name (first line) is `fp`'s licence name. No hypothesis beyond
    "`find_files` returned `fp`". (Before fix d2a6901 this needed "every stand-alone licence
    paragraph carries text".) -/
theorem C17_license (c : Doc) (path : Str) (fp : Para)
    (hfound : Lossless.findFiles c path = .ok (some fp)) :
    Lossless.findLicenseForFile c path = .ok (Spec.licenseFor c fp) :=
  lossless_license_of_found c path (some fp) hfound

/-! ## the lossy structs as functions of the paragraphs -/

/-- what `FilesParagraph::from_paragraph` builds when it succeeds -/
def convF (p : Para) : Lossy.FilesParagraph where
  files := Lossy.deserializeFileList ((p.get kFiles).getD [])
  license := License.ofValue ((p.get kLicense).getD [])
  copyright := Lossy.deserializeCopyrights ((p.get kCopyright).getD [])
  comment := p.get kComment

/-- what `LicenseParagraph::from_paragraph` builds when it succeeds -/
def convL (p : Para) : Lossy.LicenseParagraph where
  license := License.ofValue ((p.get kLicense).getD [])
  comment := p.get kComment

theorem filesOfPara_eq {p : Para} {f : Lossy.FilesParagraph}
    (h : Lossy.FilesParagraph.ofPara p = .ok f) : f = convF p ∧ ∃ l, p.get kLicense = some l := by
  unfold Lossy.FilesParagraph.ofPara Lossy.required at h
  cases hF : p.get kFiles with
  | none => simp [hF] at h
  | some fv =>
    cases hL : p.get kLicense with
    | none => simp [hF, hL] at h
    | some lv =>
      cases hC : p.get kCopyright with
      | none => simp [hF, hL, hC] at h
      | some cv =>
        simp only [hF, hL, hC, Except.ok.injEq] at h
        subst h
        exact ⟨by simp [convF, hF, hL, hC], lv, rfl⟩

theorem licOfPara_eq {p : Para} {l : Lossy.LicenseParagraph}
    (h : Lossy.LicenseParagraph.ofPara p = .ok l) : l = convL p := by
  unfold Lossy.LicenseParagraph.ofPara Lossy.required at h
  cases hL : p.get kLicense with
  | none => simp [hL] at h
  | some lv =>
    simp only [hL, Except.ok.injEq] at h
    subst h
    simp [convL, hL]

/-- the Files paragraphs among the paragraphs that follow the header -/
def tailFiles (rest : List Para) : List Para := rest.filter (·.containsKey kFiles)

/-- the stand-alone licence paragraphs among the paragraphs that follow the header -/
def tailStandalone (rest : List Para) : List Para :=
  rest.filter fun x => !x.containsKey kFiles && x.containsKey kLicense

/-- the header paragraph is set aside, whatever its fields -/
theorem filesParas_cons (hd : Para) (rest : List Para) :
    Spec.filesParas (hd :: rest) = tailFiles rest := rfl

theorem standalone_cons (hd : Para) (rest : List Para) :
    Spec.standalone (hd :: rest) = tailStandalone rest := rfl

theorem tailFiles_cons_some {p : Para} {rest : List Para} {f : Str} (h : p.get kFiles = some f) :
    tailFiles (p :: rest) = p :: tailFiles rest ∧
    tailStandalone (p :: rest) = tailStandalone rest := by
  simp [tailFiles, tailStandalone, Para.containsKey, h]

theorem tailFiles_cons_none {p : Para} {rest : List Para} (h : p.get kFiles = none) :
    tailFiles (p :: rest) = tailFiles rest := by
  simp [tailFiles, Para.containsKey, h]

theorem tailStandalone_cons_lic {p : Para} {rest : List Para} {l : Str} (h : p.get kFiles = none)
    (hl : p.get kLicense = some l) :
    tailStandalone (p :: rest) = p :: tailStandalone rest := by
  simp [tailStandalone, Para.containsKey, h, hl]

/-- the paragraph loop of the lossy reader, when it succeeds: Files paragraphs and stand-alone
    licence paragraphs, each in file order, converted one by one; every Files paragraph has a
    License field -/
theorem classify_spec (rest : List Para) :
    ∀ r, Lossy.classify rest = .ok r →
      r.1 = (tailFiles rest).map convF ∧ r.2 = (tailStandalone rest).map convL ∧
      ∀ p ∈ tailFiles rest, ∃ l, p.get kLicense = some l := by
  induction rest with
  | nil =>
    intro r h
    simp only [Lossy.classify, Except.ok.injEq] at h
    subst h
    exact ⟨rfl, rfl, by simp [tailFiles]⟩
  | cons p rest ih =>
    intro r h
    unfold Lossy.classify at h
    cases hF : p.get kFiles with
    | some fv =>
      simp only [hF, Option.isSome_some, if_true] at h
      cases hp : Lossy.FilesParagraph.ofPara p with
      | error e => simp [hp] at h
      | ok f =>
        cases hc : Lossy.classify rest with
        | error e => simp [hp, hc] at h
        | ok r' =>
          simp only [hp, hc, Except.ok.injEq] at h
          subst h
          obtain ⟨h1, h2, h3⟩ := ih r' hc
          obtain ⟨e1, e2⟩ := @tailFiles_cons_some p rest fv hF
          obtain ⟨ef, hlic⟩ := filesOfPara_eq hp
          refine ⟨by simp [e1, h1, ef], by simp [e2, h2], ?_⟩
          intro q hq
          rw [e1] at hq
          rcases List.mem_cons.1 hq with e | hq
          · subst e; exact hlic
          · exact h3 q hq
    | none =>
      simp only [hF, Option.isSome_none, Bool.false_eq_true, if_false] at h
      cases hL : p.get kLicense with
      | none => simp [hL] at h
      | some lv =>
        simp only [hL, Option.isSome_some, if_true] at h
        cases hp : Lossy.LicenseParagraph.ofPara p with
        | error e => simp [hp] at h
        | ok l =>
          cases hc : Lossy.classify rest with
          | error e => simp [hp, hc] at h
          | ok r' =>
            simp only [hp, hc, Except.ok.injEq] at h
            subst h
            obtain ⟨h1, h2, h3⟩ := ih r' hc
            refine ⟨by simp [tailFiles_cons_none hF, h1],
              by simp [tailStandalone_cons_lic hF hL, h2, licOfPara_eq hp], ?_⟩
            rw [tailFiles_cons_none hF]; exact h3

/-- the loop never reports "not machine readable" -/
theorem classify_not_nmr (rest : List Para) : Lossy.classify rest ≠ .error .notMachineReadable := by
  induction rest with
  | nil => simp [Lossy.classify]
  | cons p rest ih =>
    unfold Lossy.classify Lossy.FilesParagraph.ofPara Lossy.LicenseParagraph.ofPara Lossy.required
    cases p.get kFiles <;> cases p.get kLicense <;> cases p.get kCopyright <;>
      cases hc : Lossy.classify rest <;> simp_all [Lossy.missing]

/-- the loop succeeds exactly on paragraphs of the two admitted shapes -/
theorem classify_ok_iff (rest : List Para) :
    (∃ r, Lossy.classify rest = .ok r) ↔ rest.all Spec.shapePara = true := by
  induction rest with
  | nil => simp [Lossy.classify]
  | cons p rest ih =>
    unfold Lossy.classify Lossy.FilesParagraph.ofPara Lossy.LicenseParagraph.ofPara Lossy.required
    simp only [List.all_cons, Bool.and_eq_true, ← ih]
    cases hF : p.get kFiles <;> cases hL : p.get kLicense <;> cases hC : p.get kCopyright <;>
      cases hc : Lossy.classify rest <;> simp [Spec.shapePara, hF, hL, hC]

/-- what the lossy reader stores when it accepts a text: the conversions of the Files paragraphs
    and of the stand-alone licence paragraphs that follow the header — the header's own `Files` /
    `License` fields, if any, are not looked at -/
theorem lossy_fromStr_inv (read : Str → Option Doc) (s : Str) (c : Doc) (cr : Lossy.Copyright)
    (hr : read s = some c) (h : Lossy.fromStr read s = .ok cr) :
    gate s = true ∧
      cr.files = (Spec.filesParas c).map convF ∧ cr.licenses = (Spec.standalone c).map convL ∧
      ∀ p ∈ Spec.filesParas c, ∃ l, p.get kLicense = some l := by
  unfold Lossy.fromStr at h
  cases hg : gate s with
  | false => simp [hg] at h
  | true =>
    simp only [hg, Bool.not_true, Bool.false_eq_true, if_false, hr] at h
    cases c with
    | nil => simp at h
    | cons hd rest =>
      simp only at h
      cases hh : Lossy.Header.ofPara hd with
      | error e => simp [hh] at h
      | ok hv =>
        cases hc : Lossy.classify rest with
        | error e => simp [hh, hc] at h
        | ok r =>
          simp only [hh, hc, Except.ok.injEq] at h
          subst h
          obtain ⟨h1, h2, h3⟩ := classify_spec rest r hc
          exact ⟨rfl, h1, h2, h3⟩

/-- **which files the lossy reader accepts**: exactly the texts that pass the gate, parse, and
    have the shape "header with Format, then Files paragraphs (with License and Copyright) and
    stand-alone licence paragraphs" (`Spec.lossyShape`) -/
theorem C17_lossy_accepts_iff (read : Str → Option Doc) (s : Str) :
    (∃ cr, Lossy.fromStr read s = .ok cr) ↔
      gate s = true ∧ ∃ c, read s = some c ∧ Spec.lossyShape c = true := by
  unfold Lossy.fromStr
  cases hg : gate s with
  | false => simp
  | true =>
    simp only [Bool.not_true, Bool.false_eq_true, if_false, true_and]
    cases hr : read s with
    | none => simp
    | some c =>
      cases c with
      | nil => simp [Spec.lossyShape]
      | cons hd rest =>
        simp only [Option.some.injEq, exists_eq_left', Spec.lossyShape, Bool.and_eq_true,
          ← classify_ok_iff, Lossy.Header.ofPara, Lossy.required]
        cases hf : hd.get kFormat with
        | none => simp
        | some f =>
          cases hc : Lossy.classify rest with
          | error e => simp
          | ok r => simp

/-- **lossy `find_files` against the lossless one.** When the lossy reader stores the
    conversions of the file's Files paragraphs, it finds the conversion of the very paragraph the
    lossless reader finds (panics included). (Before fix 546a36f this needed "every Files field
    splits the same on newlines as on white space".) -/
theorem C17_lossy_find_files (c : Doc) (cr : Lossy.Copyright) (path : Str)
    (hfiles : cr.files = (Spec.filesParas c).map convF) :
    Lossy.findFiles cr path = (Lossless.findFiles c path).map (·.map convF) := by
  unfold Lossy.findFiles Lossless.findFiles
  have hiter : Lossless.iterFiles c = Spec.filesParas c := rfl
  rw [hfiles, filterO_map, hiter,
    filterO_congr (fun a => Lossy.paraMatches (convF a) path) (Lossless.paraMatches · path)]
  · cases filterO (Lossless.paraMatches · path) (Spec.filesParas c) with
    | panic s => rfl
    | ok l => simp [Outcome.map, List.getLast?_map]
  · intro p hp
    obtain ⟨_, f, hf⟩ := mem_filesParas hp
    simp [Lossy.paraMatches, convF, Lossless.paraMatches, Lossless.files, hf,
      Lossy.deserializeFileList]

/-- lossy `find_license_by_name` when no stand-alone licence field begins with an empty line -/
theorem lossy_findByName_spec (c : Doc) (cr : Lossy.Copyright) (n : Str)
    (hname : Spec.licenceNamed c = true) (hlic : cr.licenses = (Spec.standalone c).map convL) :
    Lossy.findLicenseByName cr n =
      (match (Spec.standalone c).find? (fun p => (p.get kLicense).map Spec.firstLine == some n) with
        | none => none
        | some p => (p.get kLicense).map License.ofValue) := by
  unfold Lossy.findLicenseByName
  rw [hlic, List.find?_map, find?_congr' _ (fun p => (p.get kLicense).map Spec.firstLine == some n)]
  · cases hfind : (Spec.standalone c).find? (fun p => (p.get kLicense).map Spec.firstLine == some n) with
    | none => rfl
    | some p =>
      obtain ⟨_, _, l, hl⟩ := mem_standalone (List.mem_of_find?_eq_some hfind)
      simp [convL, hl]
  · intro p hp
    obtain ⟨_, _, l, hl⟩ := mem_standalone hp
    simp only [Spec.licenceNamed, List.all_eq_true, bne_iff_ne, ne_eq] at hname
    have hh := hname p hp
    simp only [hl, Option.getD_some] at hh
    simp [convL, hl, ofValue_name hh]

/-- lossy `find_license_for_file`, given what `find_files` returned -/
theorem lossy_license_of_found (c : Doc) (cr : Lossy.Copyright) (path : Str)
    (hname : Spec.licenceNamed c = true) (hlic : cr.licenses = (Spec.standalone c).map convL)
    (o : Option Para) (ho : ∀ fp, o = some fp → ∃ l, fp.get kLicense = some l)
    (hf : Lossy.findFiles cr path = .ok (o.map convF)) :
    Lossy.findLicenseForFile cr path = .ok (o.bind (Spec.licenseFor c)) := by
  unfold Lossy.findLicenseForFile
  rw [hf]
  cases o with
  | none => rfl
  | some fp =>
    obtain ⟨l, hl⟩ := ho fp rfl
    have hlicense : (convF fp).license = License.ofValue l := by simp [convF, hl]
    simp only [Option.map_some, Option.bind_some, Spec.licenseFor, hl, hlicense, ofValue_text]
    cases ht : Spec.hasText l with
    | true => simp
    | false =>
      simp only [ofValue_noText ht, License.name?, Bool.false_eq_true, if_false]
      rw [lossy_findByName_spec c cr l hname hlic]
      rfl

/-! ## the machine-readable gate -/

/-- what is tested, exactly: the first seven characters are `Format:` -/
theorem C17_gate_exact (s : Str) :
    gate s = true ↔ ∃ rest, s = 'F' :: 'o' :: 'r' :: 'm' :: 'a' :: 't' :: ':' :: rest := by
  unfold gate startsWith
  rw [List.isPrefixOf_iff_prefix]
  constructor
  · rintro ⟨t, ht⟩; exact ⟨t, ht.symm⟩
  · rintro ⟨t, ht⟩; exact ⟨t, ht.symm⟩

/-- **C17, gate.** Text that does not start with `Format:` is refused as not machine-readable —
    by the lossless reader, its tolerant variant and the lossy reader, whatever the deb822 reader
    would make of the text. -/
theorem C17_gate (s : Str) (h : gate s = false) (read : Str → Option Doc) (readR : Str → Doc) :
    Lossless.fromStr read s = .error .notMachineReadable ∧
    Lossless.fromStrRelaxed readR s = .error .notMachineReadable ∧
    Lossy.fromStr read s = .error .notMachineReadable := by
  simp [Lossless.fromStr, Lossless.fromStrRelaxed, Lossy.fromStr, h]

/-- conversely, nothing else is ever refused as not machine-readable -/
theorem C17_gate_only (s : Str) (h : gate s = true) (read : Str → Option Doc) (readR : Str → Doc) :
    Lossless.fromStr read s ≠ .error .notMachineReadable ∧
    Lossless.fromStrRelaxed readR s ≠ .error .notMachineReadable ∧
    Lossy.fromStr read s ≠ .error .notMachineReadable := by
  refine ⟨?_, ?_, ?_⟩
  · simp only [Lossless.fromStr, h]; cases read s <;> simp
  · simp [Lossless.fromStrRelaxed, h]
  · simp only [Lossy.fromStr, h]
    cases read s with
    | none => simp
    | some d =>
      cases d with
      | nil => simp
      | cons first rest =>
        simp only [Bool.not_true, Bool.false_eq_true, if_false, Lossy.Header.ofPara, Lossy.required]
        cases first.get kFormat with
        | none => simp [Lossy.missing]
        | some f =>
          simp only
          cases hc : Lossy.classify rest with
          | ok r => simp
          | error e =>
            simp only [ne_eq, Except.error.injEq]
            intro he; subst he
            exact classify_not_nmr rest hc

/-! ## lossless view = lossy view -/

/-- a text the deb822 reader rejects is refused alike: ParseError by both readers -/
theorem C17_parse_error_alike (read : Str → Option Doc) (s : Str) (hg : gate s = true)
    (hr : read s = none) :
    Lossless.fromStr read s = .error .parseError ∧ Lossy.fromStr read s = .error .parseError := by
  simp [Lossless.fromStr, Lossy.fromStr, hg, hr]

/-- the core: once the lossy reader has accepted the text. No condition on the header paragraph:
    since b19e977 the lossless iterators skip it, as the lossy reader always did. -/
theorem C17_lossless_eq_lossy_of_accepted (read : Str → Option Doc) (s : Str) (c : Doc)
    (cr : Lossy.Copyright) (path : Str)
    (hr : read s = some c) (hacc : Lossy.fromStr read s = .ok cr)
    (hname : Spec.licenceNamed c = true) :
    Lossless.fromStr read s = .ok c ∧
    Lossy.findFiles cr path = (Lossless.findFiles c path).map (·.map convF) ∧
    Lossy.findLicenseForFile cr path = Lossless.findLicenseForFile c path := by
  obtain ⟨hg, hfiles, hlic, hhas⟩ := lossy_fromStr_inv read s c cr hr hacc
  have hff := C17_lossy_find_files c cr path hfiles
  refine ⟨by simp [Lossless.fromStr, hg, hr], hff, ?_⟩
  cases hfind : Lossless.findFiles c path with
  | panic site =>
    rw [hfind] at hff
    simp [Lossy.findLicenseForFile, Lossless.findLicenseForFile, hff, hfind, Outcome.map]
  | ok o =>
    rw [lossless_license_of_found _ path o hfind]
    apply lossy_license_of_found _ cr path hname hlic o
    · intro fp hfp
      subst hfp
      exact hhas fp (lossless_found_mem hfind)
    · rw [hff, hfind]; rfl

/-- **C17, "the lossless and lossy readers give the same answers".** For every text that passes
    the gate and parses, every path, under two named conditions on the paragraph list —
      * `hshape`  (`Spec.lossyShape`): header paragraph with Format first, every other paragraph a
                  Files paragraph with License and Copyright or a stand-alone licence paragraph
                  — otherwise the lossy reader refuses the file (`C17_needs_shape`);
      * `hname`   (`Spec.licenceNamed`): no stand-alone licence field begins with an empty line
                  (`C17_needs_licenceNamed`; cannot arise from the deb822 reader) —
    both readers accept the file, the lossy reader finds the conversion of the very Files
    paragraph the lossless reader finds, and both return the same licence — panics on invalid
    escapes and the newline behaviour of `.` included, so neither valid escapes nor a newline-free
    path is assumed. The header paragraph may carry any further fields: a `License` field (the
    licence of the package as a whole, DEP-5) or even a `Files` field is looked at by neither
    reader (before fix b19e977 this needed "the first paragraph has neither Files nor License";
    `C17_fixed_header_license`, `C17_header_set_aside`). -/
theorem C17_lossless_eq_lossy (read : Str → Option Doc) (s : Str) (c : Doc) (path : Str)
    (hg : gate s = true) (hr : read s = some c)
    (hshape : Spec.lossyShape c = true) (hname : Spec.licenceNamed c = true) :
    ∃ cr, Lossy.fromStr read s = .ok cr ∧ Lossless.fromStr read s = .ok c ∧
      Lossy.findFiles cr path = (Lossless.findFiles c path).map (·.map convF) ∧
      Lossy.findLicenseForFile cr path = Lossless.findLicenseForFile c path := by
  obtain ⟨cr, hacc⟩ := (C17_lossy_accepts_iff read s).2 ⟨hg, c, hr, hshape⟩
  exact ⟨cr, hacc, C17_lossless_eq_lossy_of_accepted read s c cr path hr hacc hname⟩

/-- **C17, licence (lossy view — the crate's default `Copyright`).** -/
theorem C17_license_lossy (read : Str → Option Doc) (s : Str) (c : Doc) (cr : Lossy.Copyright)
    (path : Str) (fp : Para)
    (hr : read s = some c) (hacc : Lossy.fromStr read s = .ok cr)
    (hname : Spec.licenceNamed c = true)
    (hfound : Lossless.findFiles c path = .ok (some fp)) :
    Lossy.findFiles cr path = .ok (some (convF fp)) ∧
    Lossy.findLicenseForFile cr path = .ok (Spec.licenseFor c fp) := by
  obtain ⟨_, hff, hl⟩ := C17_lossless_eq_lossy_of_accepted read s c cr path hr hacc hname
  exact ⟨by rw [hff, hfound]; rfl, by rw [hl, C17_license c path fp hfound]⟩

/-- **everything against the property's own reading.** On a well-formed file (`Spec.wellFormed`:
    the two conditions above and valid escapes; header with or without `License` / `Files`
    fields) both readers accept the text, both find `Spec.findFiles` — the last Files paragraph
    after the header one of whose patterns matches — and both return `Spec.findLicenseForFile`. -/
theorem C17_both_spec (read : Str → Option Doc) (s : Str) (c : Doc) (path : Str)
    (hg : gate s = true) (hr : read s = some c) (hwf : Spec.wellFormed c = true) :
    Lossless.fromStr read s = .ok c ∧
    Lossless.findFiles c path = .ok (Spec.findFiles c path) ∧
    Lossless.findLicenseForFile c path = .ok (Spec.findLicenseForFile c path) ∧
    ∃ cr, Lossy.fromStr read s = .ok cr ∧
      Lossy.findFiles cr path = .ok ((Spec.findFiles c path).map convF) ∧
      Lossy.findLicenseForFile cr path = .ok (Spec.findLicenseForFile c path) := by
  obtain ⟨hshape, hname, hv⟩ := wf_parts hwf
  obtain ⟨cr, hfrom, hll, hff, hlic⟩ := C17_lossless_eq_lossy read s c path hg hr hshape hname
  have hspec := C17_find_files_spec c path hv
  have hl := lossless_license_of_found c path _ hspec
  refine ⟨hll, hspec, hl, cr, hfrom, ?_, ?_⟩
  · rw [hff, hspec]; rfl
  · rw [hlic, hl]; rfl

/-! ## the header paragraph is set aside (fix b19e977) -/

/-- **C17, the header never contributes (lossless view).** Whatever the first paragraph is —
    with or without `Files`, `License`, `Copyright` fields — every lossless lookup over
    `h :: rest` gives the answer it gives over `h' :: rest` for any other first paragraph `h'`:
    the Files paragraphs enumerated, the paragraph found, the licence found by name, the licence
    of a file, and the observable answer. No hypothesis (panics included). -/
theorem C17_header_set_aside (h h' : Para) (rest : List Para) (path name : Str) :
    Lossless.iterFiles (h :: rest) = Lossless.iterFiles (h' :: rest) ∧
    Lossless.iterLicenses (h :: rest) = Lossless.iterLicenses (h' :: rest) ∧
    Lossless.findFiles (h :: rest) path = Lossless.findFiles (h' :: rest) path ∧
    Lossless.findLicenseByName (h :: rest) name = Lossless.findLicenseByName (h' :: rest) name ∧
    Lossless.findLicenseForFile (h :: rest) path = Lossless.findLicenseForFile (h' :: rest) path ∧
    Lossless.answer (h :: rest) path = Lossless.answer (h' :: rest) path ∧
    Spec.answer (h :: rest) path = Spec.answer (h' :: rest) path :=
  ⟨rfl, rfl, rfl, rfl, rfl, rfl, rfl⟩

/-- the paragraphs the lossless lookups run over are exactly those after the first one, whatever
    the first one holds (so a header with a `License` field is no stand-alone licence paragraph,
    and one with a `Files` field is no Files paragraph) -/
theorem C17_header_not_enumerated (h : Para) (rest : List Para) :
    Lossless.iterFiles (h :: rest) = tailFiles rest ∧
    Lossless.iterLicenses (h :: rest) = tailStandalone rest ∧
    Lossless.iterFiles [h] = [] ∧ Lossless.iterLicenses [h] = [] :=
  ⟨rfl, rfl, rfl, rfl⟩

/-- **the same for the lossy view.** The lossy reader takes from the first paragraph only the
    header fields (`Format` required; `Files-Excluded`, `Source`, `Upstream-Contact`); two files
    that differ in the first paragraph only and are both accepted store the same Files and licence
    paragraphs and answer every lookup alike. Acceptance itself depends on the first paragraph
    only through "has a `Format` field" (`C17_lossy_accepts_iff`, `Spec.lossyShape`). -/
theorem C17_header_set_aside_lossy (read read' : Str → Option Doc) (s s' : Str) (h h' : Para)
    (rest : List Para) (cr cr' : Lossy.Copyright) (path : Str)
    (hr : read s = some (h :: rest)) (hr' : read' s' = some (h' :: rest))
    (hacc : Lossy.fromStr read s = .ok cr) (hacc' : Lossy.fromStr read' s' = .ok cr') :
    cr.files = cr'.files ∧ cr.licenses = cr'.licenses ∧
    Lossy.findFiles cr path = Lossy.findFiles cr' path ∧
    Lossy.findLicenseForFile cr path = Lossy.findLicenseForFile cr' path ∧
    Lossy.answer cr path = Lossy.answer cr' path := by
  obtain ⟨_, hf, hl, _⟩ := lossy_fromStr_inv read s _ cr hr hacc
  obtain ⟨_, hf', hl', _⟩ := lossy_fromStr_inv read' s' _ cr' hr' hacc'
  have e1 : cr.files = cr'.files := by rw [hf, hf']; rfl
  have e2 : cr.licenses = cr'.licenses := by rw [hl, hl']; rfl
  have e3 : Lossy.findFiles cr path = Lossy.findFiles cr' path := by
    simp only [Lossy.findFiles, e1]
  have e4 : Lossy.findLicenseForFile cr path = Lossy.findLicenseForFile cr' path := by
    simp only [Lossy.findLicenseForFile, Lossy.findLicenseByName, e3, e2]
  refine ⟨e1, e2, e3, e4, ?_⟩
  simp only [Lossy.answer, e1, e3, e4]

/-- a `License` or `Files` field in the header changes nothing to the lossy reader's verdict: the
    file is accepted iff it is accepted with the bare header `Format: …` -/
theorem C17_header_fields_accept (h : Para) (f : Str) (rest : List Para)
    (hf : h.get kFormat = some f) :
    Spec.lossyShape (h :: rest) = Spec.lossyShape ([(kFormat, f)] :: rest) ∧
    Spec.licenceNamed (h :: rest) = Spec.licenceNamed ([(kFormat, f)] :: rest) ∧
    Spec.patternsValid (h :: rest) = Spec.patternsValid ([(kFormat, f)] :: rest) ∧
    Spec.wellFormed (h :: rest) = Spec.wellFormed ([(kFormat, f)] :: rest) := by
  have e : Spec.lossyShape (h :: rest) = Spec.lossyShape ([(kFormat, f)] :: rest) := by
    simp [Spec.lossyShape, hf, Para.get]
  exact ⟨e, rfl, rfl, by simp only [Spec.wellFormed, e]; rfl⟩

/-! ## witnesses (`decide +kernel` on the model; the same inputs are run against the real crate on
    every check — corpus/C17/witness.req) -/

def hdr : Para := [(kFormat, "x".toList)]
def fpara (files lic : String) : Para :=
  [(kFiles, files.toList), (kCopyright, "c".toList), (kLicense, lic.toList)]
def lpara (lic : String) : Para := [(kLicense, lic.toList)]
/-- only the gate looks at the text -/
def wText : Str := "Format: x\n".toList

/-- the lossy reader's observable answer for a paragraph list -/
def lossyAnswer (c : Doc) (s path : Str) : Option Answer :=
  match Lossy.fromStr (fun _ => some c) s with
  | .ok cr => some (Lossy.answer cr path)
  | .error _ => none

/-! ### each named hypothesis of `C17_lossless_eq_lossy` is needed -/

/-- **`hshape` cannot be dropped**: a Files paragraph without Copyright (licences named) — the
    lossless reader answers, the lossy reader refuses the file; likewise a paragraph that is
    neither. -/
theorem C17_needs_shape :
    (let c : Doc := [hdr, [(kFiles, "*".toList), (kLicense, "MIT".toList)]]
     Spec.lossyShape c = false ∧ Spec.licenceNamed c = true ∧
     Lossless.answer c "a".toList = ⟨.ok (some 0), .ok none⟩ ∧
     lossyAnswer c wText "a".toList = none) ∧
    (let c : Doc := [hdr, [(kComment, "x".toList)]]
     Spec.lossyShape c = false ∧ Spec.licenceNamed c = true ∧
     Lossless.answer c "a".toList = ⟨.ok none, .ok none⟩ ∧
     Lossy.fromStr (fun _ => some c) wText
       = .error (.msg "Paragraph is neither License nor Files".toList)) := by
  decide +kernel

/-- **`hname` cannot be dropped** (on abstract paragraph lists): a stand-alone licence field that
    begins with an empty line has the name "" for the lossless view and no name for the lossy
    view; an empty `License:` in a Files paragraph looks it up. -/
theorem C17_needs_licenceNamed :
    let c : Doc := [hdr, fpara "*" "", lpara "\ntext"]
    Spec.lossyShape c = true ∧ Spec.licenceNamed c = false ∧
    Lossless.answer c "a".toList = ⟨.ok (some 0), .ok (some (.text "text".toList))⟩ ∧
    lossyAnswer c wText "a".toList = some ⟨.ok (some 0), .ok none⟩ := by
  decide +kernel

/-! ### the three repaired findings, as regression statements -/

/-- `Files: a/* b/*` -/
def w1 : Doc := [hdr, fpara "a/* b/*" "MIT"]
/-- `Files: a b` -/
def w1b : Doc := [hdr, fpara "a b" "MIT"]

/-- **F-C17-1 (fixed in 546a36f).** `Files: a/* b/*`: the lossy reader now finds the paragraph for
    `a/x` like the lossless reader and the property; `Files: a b` no longer matches the path `a b`. -/
theorem C17_fixed_F1 :
    Spec.wellFormed w1 = true ∧
    Spec.answer w1 "a/x".toList = ⟨.ok (some 0), .ok none⟩ ∧
    Lossless.answer w1 "a/x".toList = ⟨.ok (some 0), .ok none⟩ ∧
    lossyAnswer w1 wText "a/x".toList = some ⟨.ok (some 0), .ok none⟩ ∧
    Spec.wellFormed w1b = true ∧
    Spec.answer w1b "a b".toList = ⟨.ok none, .ok none⟩ ∧
    Lossless.answer w1b "a b".toList = ⟨.ok none, .ok none⟩ ∧
    lossyAnswer w1b wText "a b".toList = some ⟨.ok none, .ok none⟩ := by
  decide +kernel

/-- `License: MIT` alone in a paragraph -/
def w2 : Doc := [hdr, fpara "*" "MIT", lpara "MIT"]
/-- the same followed by a second `MIT` paragraph that has a text -/
def w2b : Doc := [hdr, fpara "*" "MIT", lpara "MIT", lpara "MIT\nsecond"]

/-- **F-C17-2 (fixed in d2a6901).** A stand-alone licence paragraph with only a name is found by
    the lossless reader too, and it is the *first* of that name that is returned. -/
theorem C17_fixed_F2 :
    Spec.wellFormed w2 = true ∧
    Spec.licenseFor w2 (fpara "*" "MIT") = some (.name "MIT".toList) ∧
    Lossless.findLicenseForFile w2 "a".toList = .ok (some (.name "MIT".toList)) ∧
    lossyAnswer w2 wText "a".toList = some ⟨.ok (some 0), .ok (some (.name "MIT".toList))⟩ ∧
    Spec.wellFormed w2b = true ∧
    Lossless.findLicenseForFile w2b "a".toList = .ok (some (.name "MIT".toList)) ∧
    lossyAnswer w2b wText "a".toList = some ⟨.ok (some 0), .ok (some (.name "MIT".toList))⟩ := by
  decide +kernel

/-- header with a `License` field and text (the licence of the package as a whole) -/
def hdrLic (lic : String) : Para := [(kFormat, "x".toList), (kLicense, lic.toList)]

/-- the paragraph list of
    `Format: x⏎License: GPL-2⏎ Header text.⏎⏎Files: *⏎Copyright: c⏎License: GPL-2⏎⏎License: GPL-2⏎ Real text⏎` -/
def w3 : Doc := [hdrLic "GPL-2
Header text.", fpara "*" "GPL-2", lpara "GPL-2
Real text"]
/-- header licence with a name only, and no stand-alone paragraph of that name -/
def w3b : Doc := [hdrLic "GPL-2", fpara "*" "GPL-2"]
/-- header that also has `Files`, `Copyright` (legal for the deb822 reader, not DEP-5) -/
def w3c : Doc :=
  [[(kFormat, "x".toList), (kFiles, "*".toList), (kCopyright, "c".toList), (kLicense, "MIT
hdr".toList)],
   fpara "a/*" "MIT", lpara "MIT
real"]

/-- **F-C17-3 (fixed in b19e977).** A header paragraph with a `License` field: the lossless reader,
    the lossy reader and the property's reading all return the *stand-alone* paragraph's licence
    (`Real text`), not the header's (`Header text.`); with no stand-alone paragraph of that name
    there is no licence; a header that also carries a `Files` field is not a Files paragraph (the
    path `q` that only its `*` would match is not found, and the index of `a/*` is 0). Before the
    fix the lossless answers were `Named GPL-2 "Header text."`, `Name GPL-2`, and paragraph 0 for
    `q`. -/
theorem C17_fixed_header_license :
    Spec.wellFormed w3 = true ∧
    Spec.answer w3 "a".toList = ⟨.ok (some 0), .ok (some (.named "GPL-2".toList "Real text".toList))⟩ ∧
    Lossless.answer w3 "a".toList = Spec.answer w3 "a".toList ∧
    lossyAnswer w3 wText "a".toList = some (Spec.answer w3 "a".toList) ∧
    Lossless.findLicenseByName w3 "GPL-2".toList
      = .ok (some (.named "GPL-2".toList "Real text".toList)) ∧
    Spec.wellFormed w3b = true ∧
    Spec.answer w3b "a".toList = ⟨.ok (some 0), .ok none⟩ ∧
    Lossless.answer w3b "a".toList = ⟨.ok (some 0), .ok none⟩ ∧
    lossyAnswer w3b wText "a".toList = some ⟨.ok (some 0), .ok none⟩ ∧
    Spec.wellFormed w3c = true ∧
    Spec.answer w3c "q".toList = ⟨.ok none, .ok none⟩ ∧
    Lossless.answer w3c "q".toList = ⟨.ok none, .ok none⟩ ∧
    lossyAnswer w3c wText "q".toList = some ⟨.ok none, .ok none⟩ ∧
    Spec.answer w3c "a/q".toList = ⟨.ok (some 0), .ok (some (.named "MIT".toList "real".toList))⟩ ∧
    Lossless.answer w3c "a/q".toList = Spec.answer w3c "a/q".toList ∧
    lossyAnswer w3c wText "a/q".toList = some (Spec.answer w3c "a/q".toList) := by
  decide +kernel

/-! ### the side conditions of the glob clause -/

/-- **the `\n` side condition of `C17_glob` is needed**: `.` of the regex crate does not match a
    newline, so `*` does not match a path containing one, although the declarative `*` does.
    (Recorded as a domain exclusion: paths are taken without newlines.) -/
theorem C17_glob_newline_witness :
    matchGlob "*".toList "a\nb".toList = .ok false ∧ Matches "*".toList "a\nb".toList :=
  ⟨by decide +kernel, by simpa using Matches.star "a\nb".toList Matches.nil⟩

/-- **the `validEscapes` side condition is needed**: a backslash before anything else, or at the
    end, panics (glob.rs:17, glob.rs:20) — also through `find_files` of either view, and even for
    a path that an earlier paragraph already matched. (Recorded as a domain exclusion.) -/
theorem C17_glob_panic_witness :
    matchGlob "a\\b".toList "a".toList = .panic "invalid escape sequence: \\b" ∧
    matchGlob "a\\".toList "a".toList = .panic "invalid escape sequence: \\" ∧
    Lossless.findFiles [hdr, fpara "*" "MIT", fpara "x\\y" "MIT"] "q".toList
      = .panic "invalid escape sequence: \\y" := by
  decide +kernel

/-- an empty `Files` field (no pattern at all) is no longer a difference: neither view matches -/
example :
    let c : Doc := [hdr, fpara "" "MIT"]
    Lossless.answer c [] = ⟨.ok none, .ok none⟩ ∧
    lossyAnswer c wText [] = some ⟨.ok none, .ok none⟩ := by decide +kernel

/-! ## non-vacuity: the hypotheses of every theorem above are satisfiable, and the theorems fire -/

/-- header *with a `License: MIT` field and its own text* (the licence of the package as a whole);
    `Files: *` (MIT); `License: MIT` + text; `Files: a/*⏎ b/* c/d` (GPL + inline text);
    `Files: a/b` (MIT); a second `License: MIT` + other text; `License: BSD` (name only) -/
def exDoc : Doc :=
  [hdrLic "MIT\nheader text", fpara "*" "MIT", lpara "MIT\ntext", fpara "a/*\nb/* c/d" "GPL\ninline", fpara "a/b" "MIT",
   lpara "MIT\nsecond", lpara "BSD"]

def exCr : Lossy.Copyright where
  header := { format := "x".toList, filesExcluded := none, source := none, upstreamContact := none }
  files := (Spec.filesParas exDoc).map convF
  licenses := (Spec.standalone exDoc).map convL

theorem exDoc_wf : Spec.wellFormed exDoc = true := by decide +kernel
theorem exDoc_shape : Spec.lossyShape exDoc = true := by decide +kernel
theorem exDoc_named : Spec.licenceNamed exDoc = true := by decide +kernel
theorem exDoc_valid : Spec.patternsValid exDoc = true := by decide +kernel
theorem exDoc_lossy : Lossy.fromStr (fun _ => some exDoc) wText = .ok exCr := by decide +kernel

-- C17_glob: hypotheses hold for a pattern using every construct, and the theorem yields a match
example : Matches "a/\\**.?".toList "a/*x/y.c".toList :=
  (C17_glob "a/\\**.?".toList "a/*x/y.c".toList (by decide +kernel) (by decide +kernel)).1 (by decide +kernel)
-- … and a non-match
example : ¬ Matches "*.rs".toList "foo.rs.bak".toList := fun h =>
  absurd ((C17_glob "*.rs".toList "foo.rs.bak".toList (by decide +kernel) (by decide +kernel)).2 h) (by decide +kernel)

-- C17_matches_any / C17_matches_total
example : ∃ g ∈ splitWhitespace "a/*\nb/* c/d".toList, Matches g "c/d".toList :=
  (C17_matches_any (fpara "a/*\nb/* c/d" "GPL") _ "c/d".toList rfl (by decide +kernel) (by decide +kernel)).1
    (by decide +kernel)

-- C17_matches_any_lossy
example : ∃ g ∈ (convF (fpara "a/*\nb/* c/d" "GPL")).files, Matches g "c/d".toList :=
  (C17_matches_any_lossy _ "c/d".toList (by decide +kernel) (by decide +kernel)).1 (by decide +kernel)

-- C17_last_wins: three Files paragraphs match `a/b`; the last one is returned
example : Lossless.findFiles exDoc "a/b".toList = .ok (some (fpara "a/b" "MIT")) := by
  rw [C17_last_wins exDoc _ (fun fp hfp => by
    obtain ⟨_, f, hf⟩ := mem_filesParas hfp
    exact ⟨_, C17_matches_total fp f _ hf (patternsValid_mem exDoc_valid hfp hf)⟩)]
  decide +kernel

-- C17_last_wins_lossy
example : Lossy.findFiles exCr "a/b".toList = .ok (some (convF (fpara "a/b" "MIT"))) := by
  rw [C17_last_wins_lossy exCr _ (by decide +kernel)]
  decide +kernel

-- C17_find_files_spec
example : Lossless.findFiles exDoc "b/q".toList = .ok (some (fpara "a/*\nb/* c/d" "GPL\ninline")) := by
  rw [C17_find_files_spec exDoc _ exDoc_valid]; decide +kernel

-- C17_spec_matches: its hypotheses hold for `exDoc` and it yields the declarative statement
example : ∃ g ∈ Spec.patterns (fpara "a/*\nb/* c/d" "GPL\ninline"), Matches g "b/q".toList :=
  (C17_spec_matches exDoc "b/q".toList exDoc_valid (by decide +kernel) _ (by decide +kernel)).1
    (by decide +kernel)

-- C17_lossy_find_files
example : Lossy.findFiles exCr "b/q".toList
    = .ok (some (convF (fpara "a/*\nb/* c/d" "GPL\ninline"))) := by
  rw [C17_lossy_find_files exDoc exCr _ rfl, C17_find_files_spec exDoc _ exDoc_valid]
  decide +kernel

-- C17_license (lossless): the Files paragraph found has a name-only licence; the first of the
-- two stand-alone `MIT` paragraphs is returned
example : Lossless.findLicenseForFile exDoc "a/b".toList
    = .ok (some (.named "MIT".toList "text".toList)) := by
  rw [C17_license exDoc "a/b".toList (fpara "a/b" "MIT") (by decide +kernel)]
  decide +kernel

-- C17_license: own licence with text
example : Lossless.findLicenseForFile exDoc "c/d".toList
    = .ok (some (.named "GPL".toList "inline".toList)) := by
  rw [C17_license exDoc "c/d".toList (fpara "a/*\nb/* c/d" "GPL\ninline") (by decide +kernel)]
  decide +kernel

-- C17_license_lossy
example : Lossy.findLicenseForFile exCr "a/b".toList
    = .ok (some (.named "MIT".toList "text".toList)) := by
  rw [(C17_license_lossy (fun _ => some exDoc) wText exDoc exCr "a/b".toList (fpara "a/b" "MIT")
    rfl exDoc_lossy exDoc_named (by decide +kernel)).2]
  decide +kernel

-- C17_lossy_accepts_iff
example : ∃ cr, Lossy.fromStr (fun _ => some exDoc) wText = .ok cr :=
  (C17_lossy_accepts_iff _ wText).2 ⟨by decide +kernel, exDoc, rfl, exDoc_shape⟩

-- C17_parse_error_alike: hypotheses satisfiable (a reader that rejects everything)
example : Lossy.fromStr (fun _ => none) wText = .error .parseError :=
  (C17_parse_error_alike (fun _ => none) wText (by decide +kernel) rfl).2

-- C17_gate / C17_gate_only / C17_gate_exact
example : gate "\nFormat: x\n".toList = false ∧ gate "format: x".toList = false ∧
    gate "Format".toList = false ∧ gate "# c\nFormat: x".toList = false ∧
    gate "Format:".toList = true ∧ gate "Format:x".toList = true := by decide +kernel

-- C17_lossless_eq_lossy: the two named hypotheses hold for `exDoc` (whose header has a License field)
example : ∃ cr, Lossy.fromStr (fun _ => some exDoc) wText = .ok cr ∧
    Lossless.fromStr (fun _ => some exDoc) wText = .ok exDoc ∧
    Lossy.findFiles cr "a/b".toList = (Lossless.findFiles exDoc "a/b".toList).map (·.map convF) ∧
    Lossy.findLicenseForFile cr "a/b".toList = Lossless.findLicenseForFile exDoc "a/b".toList :=
  C17_lossless_eq_lossy _ wText exDoc _ (by decide +kernel) rfl exDoc_shape exDoc_named

-- C17_lossless_eq_lossy_of_accepted
example : Lossy.findLicenseForFile exCr "q".toList = Lossless.findLicenseForFile exDoc "q".toList :=
  (C17_lossless_eq_lossy_of_accepted (fun _ => some exDoc) wText exDoc exCr _ rfl exDoc_lossy
    exDoc_named).2.2

-- C17_both_spec
example : Lossless.findLicenseForFile exDoc "a/b".toList
    = .ok (some (.named "MIT".toList "text".toList)) := by
  rw [(C17_both_spec (fun _ => some exDoc) wText exDoc "a/b".toList (by decide +kernel) rfl
    exDoc_wf).2.2.1]
  decide +kernel

-- C17_header_set_aside_lossy: `exDoc` and the same file with a bare header are both accepted
-- (the hypotheses hold) and answer alike
def exDocBare : Doc := hdr :: exDoc.drop 1
theorem exDocBare_lossy : Lossy.fromStr (fun _ => some exDocBare) wText = .ok exCr := by
  decide +kernel
example : Lossy.answer exCr "a/b".toList = Lossy.answer exCr "a/b".toList :=
  (C17_header_set_aside_lossy (fun _ => some exDoc) (fun _ => some exDocBare) wText wText
    (hdrLic "MIT\nheader text") hdr (exDoc.drop 1) exCr exCr _ rfl rfl exDoc_lossy exDocBare_lossy).2.2.2.2

-- C17_header_set_aside (no hypotheses): the header's `License: MIT` + text is not the answer
example : Lossless.findLicenseForFile exDoc "a/b".toList
    = Lossless.findLicenseForFile exDocBare "a/b".toList :=
  (C17_header_set_aside _ _ _ _ []).2.2.2.2.1

-- C17_header_fields_accept: hypothesis holds for the header of `exDoc`
example : Spec.wellFormed exDoc = Spec.wellFormed exDocBare :=
  (C17_header_fields_accept (hdrLic "MIT\nheader text") "x".toList (exDoc.drop 1) rfl).2.2.2

end Deb822Verif.Props.C17
