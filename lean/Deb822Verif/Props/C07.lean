import Deb822Verif.Model.DebWrap
/-!
# C07 — wrap-and-sort reformatting never changes content, keeps comments, is idempotent
-/
namespace Deb822Verif.Props.C07
open Deb822Verif Deb Node

end Deb822Verif.Props.C07
