import Deb822Verif.Model.DebWrap
import Deb822Verif.Lemmas.DebWrapEntry
import Deb822Verif.Lemmas.DebWrapPara
import Deb822Verif.Lemmas.DebWrapIdem
import Deb822Verif.Lemmas.DebWrapDoc
import Deb822Verif.Lemmas.DebWrapSpec
import Deb822Verif.Lemmas.DebWrapReread
import Deb822Verif.Spec.DocSDec
import Deb822Verif.Lemmas.DebWrapFmt
import Deb822Verif.Lemmas.CtlWrapOrder
import Deb822Verif.Lemmas.CtlWrapRel
import Deb822Verif.Lemmas.CtlWrapDoc
import Deb822Verif.Lemmas.DebWrapFmtIdem
import Deb822Verif.Lemmas.CtlWrapUploaders
import Deb822Verif.Lemmas.DebWrapFmtFixed
import Deb822Verif.Lemmas.CtlWrapIdem
import Deb822Verif.Lemmas.CtlWrapReread
import Deb822Verif.Lemmas.DebWrapSpecC
import Deb822Verif.Lemmas.DebWrapRereadC
/-!
# C07 — wrap-and-sort reformatting never changes content, keeps comments, is idempotent

The helper lemmas live in `Lemmas/DebWrap*.lean`; this file states the property's theorems.
-/
namespace Deb822Verif.Props.C07
open Deb822Verif Deb Node

/-- `rebuild_value` keeps exactly the VALUE tokens of its input, in order: re-indentation, the
    one-liner / multi-line layout choice and the leading newline touch nothing else -/
theorem C07_rebuild_values (ts : List Tok) (keyLen ind : Nat) (imm : Bool) (mx : Option Nat) :
    valuesOf (rebuildValue ts keyLen ind imm mx) = valuesOfToks ts :=
  rebuildValue_values ts keyLen ind imm mx

/-- continuation lines are indented by exactly the requested width (multi-line layout) -/
theorem C07_rebuild_indent (ts : List Tok) (keyLen ind : Nat) (imm : Bool)
    (h : ∀ t ∈ ts, t.1 ≠ .INDENT) :
    ∀ n ∈ rebuildValue ts keyLen ind imm none, n.kind = .INDENT →
      n = Node.tok .INDENT (List.replicate ind ' ') :=
  rebuildValue_indent ts keyLen ind imm h

/-- the rebuilt value never introduces a KEY token -/
theorem rebuild_no_key (ts : List Tok) (kl ind : Nat) (imm : Bool) (mx : Option Nat)
    (h : ∀ t ∈ ts, t.1 ≠ .KEY) : (rebuildValue ts kl ind imm mx).find? (isTokOf .KEY) = none :=
  rebuildValue_no_key ts kl ind imm mx h

/-- **entry level, no formatter**: whatever the indentation, empty-first-line setting and width
    limit, the reformatted entry has the same key and exactly the same value lines -/
theorem C07_entry_content (cfg : WrapCfg) (e e' : DNode) (h : entryWrap cfg none e = some e') :
    entryKey e' = entryKey e ∧ entryValue e' = entryValue e :=
  entryWrap_content cfg e e' h

/-! ### paragraph level: every field kept, in the original or the requested order -/

/-- the fields of a reformatted paragraph, without a value formatter: exactly the fields of the
    original — in the original order when no order is requested, otherwise a permutation of them
    (and `List.mergeSort` output, i.e. sorted for a total preorder) -/
theorem C07_para_fields (cfg : WrapCfg) (le : Option (DNode → DNode → Bool)) (p p' : DNode)
    (h : paragraphWrap cfg le none p = some p') :
    ∃ es' : List DNode,
      (p'.children.filter isEntryNode) = es'
      ∧ (match le with
         | none => es'.map kv = (p.children.filter isEntryNode).map kv
         | some f => ∃ ws : List (List DNode × DNode),
             ws.map (fun x => kv x.2) = (p.children.filter isEntryNode).map kv
             ∧ es' = (ws.mergeSort fun a b => f a.2 b.2).map (·.2)) :=
  paragraphWrap_fields cfg le p p' h

/-! ### examples used below: a comparator that is a total preorder, concrete inputs -/

/-- order by a numeric rank (a total preorder whatever the rank is) -/
def rankOrder (r : DNode → Nat) : DNode → DNode → Bool := fun a b => decide (r a ≤ r b)

theorem rankOrder_ok (r : DNode → Nat) : OrderOK (some (rankOrder r)) := by
  intro f hf
  simp only [Option.some.injEq] at hf
  subst hf
  refine ⟨?_, ?_⟩
  · intro a b c h1 h2
    simp only [rankOrder, decide_eq_true_eq] at h1 h2 ⊢
    exact Nat.le_trans h1 h2
  · intro a b
    simp only [rankOrder, Bool.or_eq_true, decide_eq_true_eq]
    exact Nat.le_total _ _

theorem orderOK_none : OrderOK none := by intro f hf; cases hf

/-- fields by the first character of their name -/
def exKeyRank (e : DNode) : Nat := match entryKey e with | some (c :: _) => c.toNat | _ => 0
/-- paragraphs by the first character of their `Package` value -/
def exPkgRank (p : DNode) : Nat := match Deb.get p "Package".toList with | some (c :: _) => c.toNat | _ => 0

def exCfg : WrapCfg := { indentation := .spaces 4, immediateEmptyLine := true, maxLineLengthOneLiner := some 20 }
def exRoot : DNode :=
  (parse "# top\n\nPackage: b\nDepends: x,\n  y\n# c\nArch: any\n\n\n# mid\nPackage: a".toList).tree
def exPara : DNode := (paragraphs exRoot).headD (.node .PARAGRAPH [])
def exEntry : DNode := ((entries exPara).drop 1).headD (.node .ENTRY [])

/-! ### (a) paragraph level: comments and fields -/

/-- **paragraph level, no formatter, every setting and comparator.** Let `ws` be the fields of the
    input in file order, each with the comment (and error) tokens in front of it, each field
    reformatted (`entryWrap`: same name, same value lines). Then
    * the result consists of exactly these groups, stably sorted by the comparator applied to the
      reformatted fields (file order when there is none), every comment followed by its own line
      terminator and standing in front of the same field, then the trailing comments (`paraOut`);
    * grouping the result again returns these groups: each comment stays attached to its field;
    * the comment texts of the result are a permutation of the input's — the same sequence when
      no order is requested;
    * `items` of the result are the `(name, value)` pairs of the sorted groups, a permutation of
      the input's items — the same list when no order is requested. -/
theorem C07_para_comments (cfg : WrapCfg) (le : Option (DNode → DNode → Bool)) (p p' : DNode)
    (h : paragraphWrap cfg le none p = some p') :
    ∃ ws : List (List DNode × DNode),
      Pointwise (fun g w => w.1 = g.1 ∧ entryWrap cfg none g.2 = some w.2
          ∧ entryKey w.2 = entryKey g.2 ∧ entryValue w.2 = entryValue g.2
          ∧ commentTexts w.2.children = commentTexts g.2.children) (paraGroups p).1 ws
      ∧ p' = .node .PARAGRAPH (paraOut (sortBy le ws) (paraGroups p).2)
      ∧ paraGroups p' = (sortBy le ws, (paraGroups p).2)
      ∧ commentTexts p'.children = groupsComments (sortBy le ws) (paraGroups p).2
      ∧ commentTexts p.children = groupsComments ws (paraGroups p).2
      ∧ (commentTexts p'.children).Perm (commentTexts p.children)
      ∧ (le = none → commentTexts p'.children = commentTexts p.children)
      ∧ items p' = (sortBy le ws).filterMap (fun w => kv w.2)
      ∧ items p = ws.filterMap (fun w => kv w.2)
      ∧ (items p').Perm (items p)
      ∧ (le = none → items p' = items p) := by
  obtain ⟨ws, hpw, hpre, hent, htr, rfl⟩ := paragraphWrap_spec cfg le none p p' h
  have hpre' : ∀ w ∈ sortBy le ws, ∀ c ∈ w.1, isTrivTok c = true :=
    fun w hw => hpre w ((mem_sortBy le ws w).1 hw)
  have hent' : ∀ w ∈ sortBy le ws, isEntryNode w.2 = true :=
    fun w hw => hent w ((mem_sortBy le ws w).1 hw)
  have hpw2 : Pointwise (fun g w => w.1 = g.1 ∧ entryWrap cfg none g.2 = some w.2
      ∧ entryKey w.2 = entryKey g.2 ∧ entryValue w.2 = entryValue g.2
      ∧ commentTexts w.2.children = commentTexts g.2.children) (paraGroups p).1 ws :=
    Pointwise.imp (fun g w hgw => ⟨hgw.1, hgw.2, (entryWrap_content cfg g.2 w.2 hgw.2).1,
      (entryWrap_content cfg g.2 w.2 hgw.2).2, entryWrap_comments cfg g.2 w.2 hgw.2⟩) hpw
  have hg : paraGroups (.node .PARAGRAPH (paraOut (sortBy le ws) (paraGroups p).2))
      = (sortBy le ws, (paraGroups p).2) := groupBy_paraOut _ _ hpre' hent' htr
  have hc' : commentTexts (paraOut (sortBy le ws) (paraGroups p).2)
      = groupsComments (sortBy le ws) (paraGroups p).2 :=
    commentTexts_paraOut _ _ fun w hw => isEntryNode_isNode w.2 (hent' w hw)
  have hc : commentTexts p.children = groupsComments ws (paraGroups p).2 := by
    have := groupBy_comments p.children []
    rw [show commentTexts ([] : List DNode) = [] from rfl, List.nil_append] at this
    rw [← this]
    exact (groupsComments_congr (paraGroups p).1 ws _ (Pointwise.imp (fun _ _ h => h.1) hpw)).symm
  have hi' : items (.node .PARAGRAPH (paraOut (sortBy le ws) (paraGroups p).2))
      = (sortBy le ws).filterMap (fun w => kv w.2) := by
    have h1 : entries (.node .PARAGRAPH (paraOut (sortBy le ws) (paraGroups p).2))
        = (sortBy le ws).map (·.2) := by
      have := groupBy_units (paraOut (sortBy le ws) (paraGroups p).2) []
      rw [show groupBy isEntryNode isTriviaNode (paraOut (sortBy le ws) (paraGroups p).2) [] = _ from hg] at this
      exact this.symm
    show (entries _).filterMap kv = _
    rw [h1, List.filterMap_map]; rfl
  have hi : items p = ws.filterMap (fun w => kv w.2) := by
    show (entries p).filterMap kv = _
    have h1 : entries p = (paraGroups p).1.map (·.2) := (groupBy_units p.children []).symm
    have h2 : (paraGroups p).1.map (fun g => kv g.2) = ws.map (fun w => kv w.2) :=
      Pointwise.map_eq _ _ (fun g w hgw => by simp only [kv, hgw.2.2.1, hgw.2.2.2.1]) hpw2
    rw [h1, List.filterMap_map]
    have e1 : List.filterMap (kv ∘ fun x : List DNode × DNode => x.2) (paraGroups p).1
        = ((paraGroups p).1.map (fun g => kv g.2)).filterMap id := by
      rw [List.filterMap_map]; rfl
    have e2 : ws.filterMap (fun w => kv w.2) = (ws.map (fun w => kv w.2)).filterMap id := by
      rw [List.filterMap_map]; rfl
    rw [e1, e2, h2]
  refine ⟨ws, hpw2, rfl, hg, hc', hc, ?_, ?_, hi', hi, ?_, ?_⟩
  · show (commentTexts (paraOut _ _)).Perm _
    rw [hc', hc]
    exact groupsComments_perm _ _ _ (sortBy_perm le ws)
  · intro hle; subst hle
    show commentTexts (paraOut _ _) = _
    rw [hc', hc]; rfl
  · rw [hi', hi]
    exact List.Perm.filterMap _ (sortBy_perm le ws)
  · intro hle; subst hle
    rw [hi', hi]; rfl

/-- the hypothesis holds on a paragraph with a comment between two fields, sorted by name: the
    comment travels with `Arch` -/
example : ∃ p', paragraphWrap exCfg (some (rankOrder exKeyRank)) none exPara = some p' := by
  have h : (paragraphWrap exCfg none none exPara).isSome = true := by decide +kernel
  obtain ⟨p0, hp0⟩ := Option.isSome_iff_exists.1 h
  exact paragraphWrap_any_order exCfg none _ none exPara p0 hp0

/-- the same paragraph in file order (`List.mergeSort` does not reduce in the kernel, so the sorted
    text is not shown here; the harness prints it: `"# c\nArch: any\nDepends:\n    x,\n    y\nPackage: b\n"`) -/
example : (paragraphWrap exCfg none none exPara).map Node.text
    = some "Package: b\nDepends:\n    x,\n    y\n# c\nArch: any\n".toList := by decide +kernel

/-! ### (b) document level -/

/-- **document level, no formatter, every setting and both comparators.** Let `ws` be the
    paragraphs of the input in file order, each with the top-level comment (and error) tokens in
    front of it — whether they stood directly under the root or inside blank-line nodes —, each
    paragraph reformatted by `paragraphWrap`. Then
    * the paragraphs of the result are the stable sort of the reformatted paragraphs by the
      paragraph comparator (file order when there is none); `docItems` of the result lists their
      items, and the items of every reformatted paragraph are a permutation of (equal to, without
      entry order) the items of the paragraph it came from;
    * grouping the result again gives the same groups: every top-level comment stays in front of
      the same paragraph, the comments after the last paragraph stay last;
    * the top-level comment texts are a permutation of the input's (equal without paragraph order). -/
theorem C07_doc_content (cfg : WrapCfg) (ele ple : Option (DNode → DNode → Bool)) (root root' : DNode)
    (h : deb822Wrap ple (some (paragraphWrap cfg ele none)) root = some root') :
    ∃ ws : List (List DNode × DNode),
      Pointwise (fun g w => w.1 = g.1 ∧ paragraphWrap cfg ele none g.2 = some w.2
          ∧ (items w.2).Perm (items g.2) ∧ (ele = none → items w.2 = items g.2)) (rootGroups root).1 ws
      ∧ (rootGroups root).1.map (·.2) = paragraphs root
      ∧ root' = .node .ROOT (docOut (sortBy ple ws) (rootGroups root).2)
      ∧ rootGroups root' = (sortBy ple ws, (rootGroups root).2)
      ∧ paragraphs root' = (sortBy ple ws).map (·.2)
      ∧ docItems root' = (sortBy ple ws).map (fun w => items w.2)
      ∧ (topCommentTexts root').Perm (topCommentTexts root)
      ∧ (ple = none → topCommentTexts root' = topCommentTexts root) := by
  obtain ⟨ws, hpw, hpre, htr, rfl⟩ := deb822Wrap_spec ple _ root root' h
  have hpre' : ∀ w ∈ sortBy ple ws, ∀ c ∈ w.1, isTrivTok c = true :=
    fun w hw => hpre w ((mem_sortBy ple ws w).1 hw)
  have hpara : ∀ w ∈ ws, isParaNode w.2 = true := by
    intro w hw
    obtain ⟨g, _, hr⟩ := Pointwise.mem_right hpw w hw
    obtain ⟨_, _, _, _, _, he⟩ := paragraphWrap_spec cfg ele none g.2 w.2 hr.2
    rw [he]; rfl
  have hpara' : ∀ w ∈ sortBy ple ws, isParaNode w.2 = true :=
    fun w hw => hpara w ((mem_sortBy ple ws w).1 hw)
  have hg : rootGroups (.node .ROOT (docOut (sortBy ple ws) (rootGroups root).2))
      = (sortBy ple ws, (rootGroups root).2) := groupRoot_docOut _ _ hpre' hpara' htr
  have hpw2 : Pointwise (fun g w => w.1 = g.1 ∧ paragraphWrap cfg ele none g.2 = some w.2
      ∧ (items w.2).Perm (items g.2) ∧ (ele = none → items w.2 = items g.2)) (rootGroups root).1 ws := by
    refine Pointwise.imp ?_ hpw
    intro g w hgw
    obtain ⟨_, _, _, _, _, _, _, _, _, _, h1, h2⟩ := C07_para_comments cfg ele g.2 w.2 hgw.2
    exact ⟨hgw.1, hgw.2, h1, h2⟩
  have hparas : paragraphs (.node .ROOT (docOut (sortBy ple ws) (rootGroups root).2))
      = (sortBy ple ws).map (·.2) := by
    rw [paragraphs_of_groups, hg]
  have hct : topCommentTexts (.node .ROOT (docOut (sortBy ple ws) (rootGroups root).2))
      = groupsComments (sortBy ple ws) (rootGroups root).2 := by
    rw [topCommentTexts_eq, hg]
  have hct0 : topCommentTexts root = groupsComments ws (rootGroups root).2 := by
    rw [topCommentTexts_eq]
    exact (groupsComments_congr _ ws _ (Pointwise.imp (fun _ _ h => h.1) hpw)).symm
  refine ⟨ws, hpw2, (paragraphs_of_groups root).symm, rfl, hg, hparas, ?_, ?_, ?_⟩
  · simp only [docItems, hparas, List.map_map]; rfl
  · rw [hct, hct0]
    exact groupsComments_perm _ _ _ (sortBy_perm ple ws)
  · intro hle; subst hle
    rw [hct, hct0]; rfl

/-- the same without a per-paragraph callback: the paragraphs themselves, stably sorted -/
theorem C07_doc_content_nowrap (ple : Option (DNode → DNode → Bool)) (root root' : DNode)
    (h : deb822Wrap ple none root = some root') :
    root' = .node .ROOT (docOut (sortBy ple (rootGroups root).1) (rootGroups root).2)
      ∧ rootGroups root' = (sortBy ple (rootGroups root).1, (rootGroups root).2)
      ∧ paragraphs root' = (sortBy ple (rootGroups root).1).map (·.2)
      ∧ (paragraphs root').Perm (paragraphs root)
      ∧ (ple = none → paragraphs root' = paragraphs root) := by
  obtain ⟨ws, hpw, hpre, htr, rfl⟩ := deb822Wrap_spec ple none root root' h
  have hws : ws = (rootGroups root).1 := by
    have h1 := Pointwise.map_eq (fun g : List DNode × DNode => g) (fun w => w)
      (fun g w (hgw : w.1 = g.1 ∧ applyW none g.2 = some w.2) => by
        have h2 : g.2 = w.2 := by simpa [applyW] using hgw.2
        exact Prod.ext hgw.1.symm h2) hpw
    simpa using h1.symm
  subst hws
  have hpre' : ∀ w ∈ sortBy ple (rootGroups root).1, ∀ c ∈ w.1, isTrivTok c = true :=
    fun w hw => hpre w ((mem_sortBy ple _ w).1 hw)
  have hpara' : ∀ w ∈ sortBy ple (rootGroups root).1, isParaNode w.2 = true :=
    fun w hw => groupRoot_paras _ _ w ((mem_sortBy ple _ w).1 hw)
  have hg := groupRoot_docOut _ _ hpre' hpara' htr
  have hparas : paragraphs (.node .ROOT (docOut (sortBy ple (rootGroups root).1) (rootGroups root).2))
      = (sortBy ple (rootGroups root).1).map (·.2) := by
    rw [paragraphs_of_groups]
    exact congrArg (fun x => x.1.map (·.2)) hg
  refine ⟨rfl, hg, hparas, ?_, ?_⟩
  · rw [hparas, paragraphs_of_groups root]
    exact List.Perm.map _ (sortBy_perm ple _)
  · intro hle; subst hle
    rw [hparas, paragraphs_of_groups root]; rfl

example : ∃ r', deb822Wrap (some (rankOrder exPkgRank))
      (some (paragraphWrap exCfg (some (rankOrder exKeyRank)) none)) exRoot = some r' := by
  have h : (deb822Wrap none (some (paragraphWrap exCfg none none)) exRoot).isSome = true := by decide +kernel
  obtain ⟨r0, hr0⟩ := Option.isSome_iff_exists.1 h
  exact deb822Wrap_any_order exCfg none _ none _ none exRoot r0 hr0

example : (deb822Wrap none (some (paragraphWrap exCfg none none)) exRoot).map Node.text
    = some "# top\nPackage: b\nDepends:\n    x,\n    y\n# c\nArch: any\n\n# mid\nPackage: a\n".toList := by
  decide +kernel

/-- **paragraphs are separated by exactly one blank line**: the children of the result are the
    paragraph groups (comment lines, paragraph, line terminator if the paragraph lacked one) joined
    by single blank-line nodes `EMPTY_LINE["\n"]`, then the trailing comment lines; the result
    contains no other blank-line node, i.e. exactly (number of paragraphs − 1) of them. Holds for any
    per-paragraph callback that returns paragraphs. -/
theorem C07_doc_separated (ple : Option (DNode → DNode → Bool)) (wp : Option (DNode → Option DNode))
    (hwp : ∀ p p', isParaNode p = true → applyW wp p = some p' → isParaNode p' = true)
    (root root' : DNode) (h : deb822Wrap ple wp root = some root') :
    ∃ ws : List (List DNode × DNode),
      root'.children = joinParas (ws.map docGroup) ++ commentLines (rootGroups root).2
      ∧ paragraphs root' = ws.map (·.2)
      ∧ root'.children.filter isEmptyLineKind
          = List.replicate ((paragraphs root').length - 1) (.node .EMPTY_LINE [Node.tok .NEWLINE ['\n']])
      ∧ (∀ w ∈ ws, (docGroup w).filter isEmptyLineKind = [])
      -- every group ends with a line terminator — when its paragraph has a `last_token()` (rowan:
      -- the chain of LAST children ends in a token; not so when it ends in an empty ERROR node, as
      -- in the parse of a key without colon at the end of the input: then nothing is supplied)
      ∧ (∀ w ∈ ws, lastTok w.2.children ≠ none → ∃ t, (leavesList (w.2 :: termOf w.2)).getLast? = some t ∧ t.1 = .NEWLINE) := by
  obtain ⟨ws, hpw, hpre, htr, rfl⟩ := deb822Wrap_spec ple wp root root' h
  have hpre' : ∀ w ∈ sortBy ple ws, ∀ c ∈ w.1, isTrivTok c = true :=
    fun w hw => hpre w ((mem_sortBy ple ws w).1 hw)
  have hpara' : ∀ w ∈ sortBy ple ws, isParaNode w.2 = true := by
    intro w hw
    obtain ⟨g, hg, hr⟩ := Pointwise.mem_right hpw w ((mem_sortBy ple ws w).1 hw)
    exact hwp g.2 w.2 (groupRoot_paras _ _ g hg) hr.2
  have hg := groupRoot_docOut _ _ hpre' hpara' htr
  have hparas : paragraphs (.node .ROOT (docOut (sortBy ple ws) (rootGroups root).2))
      = (sortBy ple ws).map (·.2) := by
    rw [paragraphs_of_groups]
    exact congrArg (fun x => x.1.map (·.2)) hg
  refine ⟨sortBy ple ws, rfl, hparas, ?_, ?_, ?_⟩
  · rw [hparas, List.length_map]
    exact filter_el_docOut _ _ hpre' hpara' htr
  · intro w hw
    exact filter_el_docGroup w (hpre' w hw) (hpara' w hw)
  · intro w _ hne
    cases hl : lastTok w.2.children with
    | none => exact absurd hl hne
    | some t =>
      have hlv : (leavesList [w.2]).getLast? = some t := by
        cases hw2 : w.2 with
        | tok k x => rw [hw2] at hl; simp [Node.children, lastTok_nil] at hl
        | node k cs =>
          rw [hw2] at hl
          simpa [Node.children] using lastTok_leaves cs t hl
      by_cases ht : t.1 = .NEWLINE
      · refine ⟨t, ?_, ht⟩
        have : termOf w.2 = [] := by simp only [termOf, hl, ht]; rfl
        rw [this]; exact hlv
      · refine ⟨(.NEWLINE, ['\n']), ?_, rfl⟩
        have : termOf w.2 = [Node.tok .NEWLINE ['\n']] := by
          simp only [termOf, hl]
          have : (t.1 == Kind.NEWLINE) = false := by simp [ht]
          simp [this]
        rw [this]
        simp


/-- the restriction of the last clause is genuine: the parse of `A` is
    `PARAGRAPH(ENTRY(KEY "A", ERROR()))`, its `last_token()` is `None` (the chain of last children
    ends in the empty ERROR node), and `wrap_and_sort` supplies no terminator — the result prints
    `A`, as in /repo (`deb.wrap d x41 1/0/n/n/n/x`) -/
example : (deb822Wrap none none (parse "A".toList).tree).map Node.text = some "A".toList := by
  decide +kernel

/-- comment lines inside a value (COMMENT tokens among the children of the field) are kept, in
    order, by the entry-level reformatting -/
theorem C07_entry_comments (cfg : WrapCfg) (e e' : DNode) (h : entryWrap cfg none e = some e') :
    commentTexts e'.children = commentTexts e.children := entryWrap_comments cfg e e' h

/-- **requested order**: with a comparator that is a total preorder the fields of the result are
    sorted (each field is `≤` every later one); same for the paragraphs of a document -/
theorem C07_sorted_para (cfg : WrapCfg) (f : DNode → DNode → Bool) (hf : OrderOK (some f)) (p p' : DNode)
    (h : paragraphWrap cfg (some f) none p = some p') :
    (entries p').Pairwise (fun a b => f a b = true) := by
  obtain ⟨ws, _, rfl, hg, _⟩ := C07_para_comments cfg (some f) p p' h
  have h1 : entries (.node .PARAGRAPH (paraOut (sortBy (some f) ws) (paraGroups p).2))
      = (sortBy (some f) ws).map (·.2) := by
    have := groupBy_units (paraOut (sortBy (some f) ws) (paraGroups p).2) []
    rw [show groupBy isEntryNode isTriviaNode (paraOut (sortBy (some f) ws) (paraGroups p).2) [] = _ from hg] at this
    exact this.symm
  rw [h1, List.pairwise_map]
  obtain ⟨htrans, htot⟩ := hf f rfl
  exact List.pairwise_mergeSort (le := fun a b => f a.2 b.2)
    (fun a b c => htrans a.2 b.2 c.2) (fun a b => htot a.2 b.2) ws

theorem C07_sorted_doc (cfg : WrapCfg) (ele : Option (DNode → DNode → Bool)) (f : DNode → DNode → Bool)
    (hf : OrderOK (some f)) (root root' : DNode)
    (h : deb822Wrap (some f) (some (paragraphWrap cfg ele none)) root = some root') :
    (paragraphs root').Pairwise (fun a b => f a b = true) := by
  obtain ⟨ws, _, _, _, _, hp, _⟩ := C07_doc_content cfg ele (some f) root root' h
  rw [hp, List.pairwise_map]
  obtain ⟨htrans, htot⟩ := hf f rfl
  exact List.pairwise_mergeSort (le := fun a b => f a.2 b.2)
    (fun a b c => htrans a.2 b.2 c.2) (fun a b => htot a.2 b.2) ws

example : OrderOK (some (rankOrder exKeyRank)) := rankOrder_ok _

/-! ### (d) idempotence -/

/-- **entry level**: reformatting a reformatted field with the same settings returns it unchanged
    (no formatter; every indentation, empty-first-line setting and width limit) -/
theorem C07_idempotent_entry (cfg : WrapCfg) (e e' : DNode) (h : entryWrap cfg none e = some e') :
    entryWrap cfg none e' = some e' := entryWrap_idem cfg e e' h

example : (entryWrap exCfg none exEntry).map Node.text = some "Depends:\n    x,\n    y\n".toList := by
  decide +kernel

/-- **paragraph level**, for an entry comparator that is absent or a total preorder
    (`OrderOK`: transitive and total) -/
theorem C07_idempotent_para (cfg : WrapCfg) (le : Option (DNode → DNode → Bool)) (hle : OrderOK le)
    (p p' : DNode) (h : paragraphWrap cfg le none p = some p') :
    paragraphWrap cfg le none p' = some p' := paragraphWrap_idem cfg le hle p p' h

example : OrderOK (some (rankOrder exKeyRank)) := rankOrder_ok _

/-- **document level**, for comparators that are absent or total preorders: the second
    application returns the same tree (hence the same text) -/
theorem C07_idempotent_doc (cfg : WrapCfg) (ele ple : Option (DNode → DNode → Bool))
    (hele : OrderOK ele) (hple : OrderOK ple) (root root' : DNode)
    (h : deb822Wrap ple (some (paragraphWrap cfg ele none)) root = some root') :
    deb822Wrap ple (some (paragraphWrap cfg ele none)) root' = some root' := by
  refine deb822Wrap_idem ple hple _ ?_ ?_ root root' h
  · intro p p' _ hp
    obtain ⟨_, _, _, _, _, he⟩ := paragraphWrap_spec cfg ele none p p' hp
    rw [he]; rfl
  · intro p p' _ hp
    exact paragraphWrap_idem cfg ele hele p p' hp

/-- without a per-paragraph callback (sorting and blank-line normalisation only) -/
theorem C07_idempotent_doc_nowrap (ple : Option (DNode → DNode → Bool)) (hple : OrderOK ple)
    (root root' : DNode) (h : deb822Wrap ple none root = some root') :
    deb822Wrap ple none root' = some root' := by
  refine deb822Wrap_idem ple hple none ?_ ?_ root root' h
  · intro p p' hp hpp
    simp only [applyW, Option.some.injEq] at hpp
    subst hpp; exact hp
  · intro p p' _ hpp
    simp only [applyW, Option.some.injEq] at hpp
    subst hpp; rfl

example : OrderOK (some (rankOrder exPkgRank)) ∧ OrderOK (some (rankOrder exKeyRank)) :=
  ⟨rankOrder_ok _, rankOrder_ok _⟩


/-! ### (c) strict re-read -/

open Spec in
/-- **strict re-read** (no formatter; every indentation of at least one column, empty-first-line
    setting, width limit, entry and paragraph comparator). Take the tree `d.tree` of any well-formed
    document `d` (`DocS.WF`; by C03 this is exactly what the parser returns for `d.str`). Then
    * wrap-and-sort succeeds (no panic) and returns a tree `root'` with as many paragraphs as `d`;
    * the printed result `root'.text` parses with no error, the strict reader accepts it, and what
      it reads back — `docItems` of the re-read tree — is exactly `docItems root'`, the content the
      returned object reports (computed in `C07_doc_content` / `C07_para_comments`);
    * the printed result is the text of a well-formed document `d'` every line of which is
      LF-terminated (`DocTermAll`), in which nothing but comment lines precedes the first paragraph, every paragraph except the last is followed by exactly
      one blank line (then comment lines only) and the last one by nothing. -/
theorem C07_reread (cfg : WrapCfg) (ele ple : Option (DNode → DNode → Bool)) (d : DocS)
    (hwf : d.WF) (hc : IndentOK cfg) :
    ∃ root' : DNode,
      deb822Wrap ple (some (paragraphWrap cfg ele none)) d.tree = some root'
      ∧ (paragraphs root').length = d.paras.length
      ∧ (parse root'.text).errors = []
      ∧ (∃ t, readStrict root'.text = .ok t ∧ docItems t = docItems root')
      ∧ ∃ d' : DocS, d'.WF ∧ DocTermAll d' ∧ root'.text = d'.str ∧ parse root'.text = ⟨d'.tree, []⟩
          ∧ (∃ cs, d'.lead = cGaps cs)
          ∧ (∀ pg ∈ d'.paras, pg.2 = [] ∨ ∃ cs, pg.2 = Gap.blank :: cGaps cs) := by
  obtain ⟨root', d', hres, hd', hterm, htext, _, hitems, hlen, hlead, hgaps⟩ :=
    deb822Wrap_reread cfg ele ple d hwf hc
  have hparse : parse root'.text = ⟨d'.tree, []⟩ := by
    rw [htext]; unfold parse; rw [lex_doc d' hd', parse_doc d' hd']
  refine ⟨root', hres, hlen, by rw [hparse], ⟨d'.tree, ?_, hitems⟩, d', hd', hterm, htext, hparse, hlead, hgaps⟩
  simp [readStrict, hparse]

open Spec in
/-- the same, starting from the text: the strict reader's result for a well-formed document -/
theorem C07_reread_text (cfg : WrapCfg) (ele ple : Option (DNode → DNode → Bool)) (d : DocS)
    (hwf : d.WF) (hc : IndentOK cfg) :
    ∃ root root' : DNode, readStrict d.str = .ok root
      ∧ deb822Wrap ple (some (paragraphWrap cfg ele none)) root = some root'
      ∧ ∃ t, readStrict root'.text = .ok t ∧ docItems t = docItems root' := by
  obtain ⟨root', hres, _, _, ht, _⟩ := C07_reread cfg ele ple d hwf hc
  have hparse : parse d.str = ⟨d.tree, []⟩ := by unfold parse; rw [lex_doc d hwf, parse_doc d hwf]
  exact ⟨d.tree, root', by simp [readStrict, hparse], hres, ht⟩

/-- a well-formed document with a comment between fields, a multi-line value whose first line is
    on the line of the field name, several blank lines between paragraphs, no final newline -/
def exDocS : Spec.DocS :=
  { lead := [.comment " top".toList true, .blank],
    paras := [
      ({ first := { key := "Package".toList, ws := [' '], v := "b".toList, nl := true, conts := [] },
         rest := [.entry { key := "Depends".toList, ws := [' '], v := "x,".toList, nl := true,
                           conts := [{ indent := "  ".toList, text := "y".toList, nl := true }] },
                  .comment " c".toList true,
                  .entry { key := "Arch".toList, ws := [' '], v := "any".toList, nl := true, conts := [] }] },
       [.blank, .blank, .comment " mid".toList true]),
      ({ first := { key := "Package".toList, ws := [' '], v := "a".toList, nl := false, conts := [] },
         rest := [] }, [])] }

example : exDocS.WF ∧ IndentOK exCfg := ⟨by decide, by simp [IndentOK, exCfg]⟩
example : exDocS.str = "# top\n\nPackage: b\nDepends: x,\n  y\n# c\nArch: any\n\n\n# mid\nPackage: a".toList := by
  decide


/-! ## the formatter path (`fmt = some f`) -/

/-- **formatter path, field name**: whatever the formatter returns, the reformatted field keeps its
    name (the KEY token is re-emitted before the formatter's output) -/
theorem C07_fmt_key (cfg : WrapCfg) (f : Str → Str → Str) (e e' : DNode)
    (h : entryWrap cfg (some f) e = some e') : entryKey e' = entryKey e :=
  entryWrap_fmt_key cfg f e e' h

/-- **formatter path, the two cases.** `Ctl.fmtArg e` is the raw text `Entry::wrap_and_sort` hands to
    the formatter (`none` when the value holds a COMMENT or ERROR token).
    * A comment / error token inside the value: the formatter is not called and the result is that of
      the no-formatter path — `C07_entry_content`, `C07_entry_comments`, `C07_idempotent_entry` apply.
    * Otherwise the field must have a name `k` (else the call panics) and the result is
      `KEY COLON` + `rebuild_value` of the formatter's output `f k arg` split at `'\n'`, every piece
      lexed by `lex_inline` (`fmtToks`). -/
theorem C07_fmt_cases (cfg : WrapCfg) (f : Str → Str → Str) (e e' : DNode)
    (h : entryWrap cfg (some f) e = some e') :
    (Ctl.fmtArg e = none ∧ entryWrap cfg none e = some e')
    ∨ ∃ k arg, entryKey e = some k ∧ Ctl.fmtArg e = some arg
        ∧ e' = .node .ENTRY (e.children.filterMap headOf ++
            rebuildValue (fmtToks (f k arg)) (utf8Len k) (ewIndent cfg e.children)
              cfg.immediateEmptyLine cfg.maxLineLengthOneLiner) :=
  entryWrap_fmt_cases cfg f e e' h

/-- **formatter path, value** (any formatter, every setting). Hypothesis: the formatter's output
    contains no `'\r'` (the C07 domain is LF text; with a CR `lex_inline` starts a new line and may
    produce KEY tokens). Then the value of the result (`Entry::value`) is exactly `fmtValue (f k arg)`:
    the output split at `'\n'`, the leading spaces and tabs of every piece removed, pieces that are
    empty after that dropped, the rest joined by `'\n'`. The KEY / COLON tokens are those of the input
    and no other appears. (The harness oracle compares `nb_trim`, which trims both ends of every
    line and drops blank lines: it is implied, trailing blanks of a line are kept as they are.) -/
theorem C07_fmt_entry (cfg : WrapCfg) (f : Str → Str → Str) (e e' : DNode) (k arg : Str)
    (hk : entryKey e = some k) (harg : Ctl.fmtArg e = some arg) (hcr : '\r' ∉ f k arg)
    (h : entryWrap cfg (some f) e = some e') :
    entryKey e' = some k
      ∧ e'.children.filterMap headOf = e.children.filterMap headOf
      ∧ entryValue e' = fmtValue (f k arg)
      ∧ valuesOf e'.children = fmtLines (f k arg) :=
  entryWrap_fmt cfg f e e' k arg hk harg hcr h

/-- with a CR in the formatter's output the value is not the formatter's output read line by line:
    `lex_inline` ends the line at the CR and what follows is lexed as a new field -/
example : valuesOfToks (fmtToks "a\rB: c".toList) ≠ fmtLines "a\rB: c".toList := by decide +kernel

/-- **formatter path on well-formed fields, formatter leaves the text alone.** For a well-formed
    field `e` (C03 grammar) whose raw text `rawText e` — what stands behind the colon, continuation
    lines without their indentation — is returned unchanged by the formatter, the formatter path and
    the no-formatter path return the same tree: `(e.wrap cfg).node`. Every no-formatter theorem
    therefore transfers to such fields (in particular to every field `format_field` leaves alone). -/
theorem C07_fmt_unchanged (cfg : WrapCfg) (f : Str → Str → Str) (e : Spec.EntryS) (more : Bool)
    (hwf : e.WF) (ht : e.Term more) (hc : IndentOK cfg) (hid : f e.key (rawText e) = rawText e) :
    entryWrap cfg (some f) e.node = entryWrap cfg none e.node
      ∧ entryWrap cfg (some f) e.node = some (e.wrap cfg).node := by
  have h1 := entryWrap_fmt_id cfg f e more hwf ht hc hid
  exact ⟨h1, by rw [h1]; exact entryWrap_node cfg e more hwf ht hc⟩

/-- `format_field` leaves alone every field that is neither `Uploaders` nor one of the twelve
    relationship fields, and relationship fields that do not parse -/
theorem C07_control_other_fields (k v : Str) (h1 : k ≠ Ctl.kUploaders) (h2 : Ctl.relFields.contains k = false) :
    Ctl.formatFieldO k v = some v ∧ Ctl.formatField k v = v := by
  have : Ctl.formatFieldO k v = some v := by
    unfold Ctl.formatFieldO; rw [if_neg h1, h2]; rfl
  exact ⟨this, by simp [Ctl.formatField, this]⟩

/-- a `Homepage` field, multi-line layout: the two paths agree -/
def exHomepage : Spec.EntryS :=
  { key := "Homepage".toList, ws := [], v := [], nl := true,
    conts := [{ indent := [' '], text := "https://example.com/".toList, nl := true }] }

example : exHomepage.WF ∧ exHomepage.Term true ∧ IndentOK exCfg
    ∧ Ctl.formatField exHomepage.key (rawText exHomepage) = rawText exHomepage :=
  ⟨by decide, by decide, by simp [IndentOK, exCfg],
    (C07_control_other_fields _ _ (by decide) (by decide)).2⟩

/-- **formatter path, paragraph level** (any formatter, setting, comparator): same structure as
    without a formatter — the groups (comments in front of a field, field), every field through
    `entryWrap cfg (some f)` with its name kept, stably sorted; regrouping returns them; comment texts
    and field names are a permutation of the input's (equal without order) -/
theorem C07_fmt_para (cfg : WrapCfg) (le : Option (DNode → DNode → Bool)) (f : Str → Str → Str)
    (p p' : DNode) (h : paragraphWrap cfg le (some f) p = some p') :
    ∃ ws : List (List DNode × DNode),
      Pointwise (fun g w => w.1 = g.1 ∧ entryWrap cfg (some f) g.2 = some w.2 ∧ entryKey w.2 = entryKey g.2)
        (paraGroups p).1 ws
      ∧ p' = .node .PARAGRAPH (paraOut (sortBy le ws) (paraGroups p).2)
      ∧ paraGroups p' = (sortBy le ws, (paraGroups p).2)
      ∧ entries p' = (sortBy le ws).map (·.2)
      ∧ entries p = (paraGroups p).1.map (·.2)
      ∧ (commentTexts p'.children).Perm (commentTexts p.children)
      ∧ (le = none → commentTexts p'.children = commentTexts p.children)
      ∧ (keys p').Perm (keys p)
      ∧ (le = none → keys p' = keys p) :=
  paragraphWrap_fmt cfg le f p p' h

/-! ## the control-file wrappers (`Control` / `Source` / `Binary::wrap_and_sort`) -/

open Ctl in
/-- **`Control::wrap_and_sort`'s paragraph order is a total preorder** (transitive and total):
    paragraphs with a `Source` field first, by that name; the others by `Package`, a missing one
    first -/
theorem C07_control_order : TotalPreorder ctlParaLe ∧ OrderOK (some ctlParaLe) :=
  ⟨ctlParaLe_pre, ctlParaLe_ok⟩

open Ctl in
/-- **control file, content and order.** When `Control::wrap_and_sort` returns (no panic):
    * `ws` = the paragraphs of the input in file order, each with the top-level comments in front of
      it, each passed through `Paragraph::wrap_and_sort(…, None, Some(&format_field))`: same field
      names in the same order, same comments inside the paragraph, every field through
      `entryWrap cfg (some formatField)` (name kept; value by `C07_fmt_entry` / `C07_fmt_cases`);
    * the paragraphs of the result are the stable sort of these by `ctlParaLe`, hence pairwise in
      order (Source paragraphs first) and a permutation of them;
    * regrouping the result returns the same groups (every top-level comment in front of the same
      paragraph), the top-level comment texts are a permutation of the input's. -/
theorem C07_control_content (cfg : WrapCfg) (root root' : DNode) (h : controlWrap cfg root = some root') :
    ∃ ws : List (List DNode × DNode),
      Pointwise (fun g w => w.1 = g.1 ∧ paragraphWrap cfg none (some formatField) g.2 = some w.2
          ∧ keys w.2 = keys g.2
          ∧ commentTexts w.2.children = commentTexts g.2.children
          ∧ Pointwise (fun e e' => entryWrap cfg (some formatField) e = some e' ∧ entryKey e' = entryKey e)
              (entries g.2) (entries w.2))
        (rootGroups root).1 ws
      ∧ (rootGroups root).1.map (·.2) = paragraphs root
      ∧ root' = .node .ROOT (docOut (sortBy (some ctlParaLe) ws) (rootGroups root).2)
      ∧ rootGroups root' = (sortBy (some ctlParaLe) ws, (rootGroups root).2)
      ∧ paragraphs root' = (sortBy (some ctlParaLe) ws).map (·.2)
      ∧ (paragraphs root').Pairwise (fun a b => ctlParaLe a b = true)
      ∧ (paragraphs root').length = (paragraphs root).length
      ∧ (topCommentTexts root').Perm (topCommentTexts root) := by
  obtain ⟨_, hd⟩ := controlWrap_some cfg root root' h
  obtain ⟨ws, hpw, hparas, hroot, hg, hp', hct, _⟩ := deb822Wrap_content (some ctlParaLe)
    (some (paragraphWrap cfg none (some formatField)))
    (fun p p' _ hp => paragraphWrap_isPara cfg none (some formatField) p p' hp) root root' hd
  refine ⟨ws, ?_, hparas, hroot, hg, hp', ?_, ?_, hct⟩
  · refine Pointwise.imp ?_ hpw
    intro g w hgw
    obtain ⟨ws', hpw', _, _, he', he, _, hc, _, hk⟩ := paragraphWrap_fmt cfg none formatField g.2 w.2 hgw.2
    refine ⟨hgw.1, hgw.2, hk rfl, hc rfl, ?_⟩
    rw [he', he]
    exact Pointwise.map
      (S := fun e e' => entryWrap cfg (some formatField) e = some e' ∧ entryKey e' = entryKey e)
      (·.2) (·.2) (fun a b hab => ⟨hab.2.1, hab.2.2⟩) hpw'
  · rw [hp', List.pairwise_map]
    obtain ⟨htrans, htot⟩ := ctlParaLe_pre
    exact List.pairwise_mergeSort (le := fun a b => ctlParaLe a.2 b.2)
      (fun a b c => htrans a.2 b.2 c.2) (fun a b => htot a.2 b.2) ws
  · rw [hp', ← hparas, List.length_map, List.length_map, (sortBy_perm _ ws).length_eq, (Pointwise.length hpw)]

open Ctl in
/-- **control file, blank lines**: the paragraph groups of the result are joined by single
    `EMPTY_LINE["\n"]` nodes, there is no other blank-line node, every group ends with a NEWLINE -/
theorem C07_control_separated (cfg : WrapCfg) (root root' : DNode) (h : controlWrap cfg root = some root') :
    ∃ ws : List (List DNode × DNode),
      root'.children = joinParas (ws.map docGroup) ++ commentLines (rootGroups root).2
      ∧ paragraphs root' = ws.map (·.2)
      ∧ root'.children.filter isEmptyLineKind
          = List.replicate ((paragraphs root').length - 1) (.node .EMPTY_LINE [Node.tok .NEWLINE ['\n']])
      ∧ (∀ w ∈ ws, (docGroup w).filter isEmptyLineKind = [])
      ∧ (∀ w ∈ ws, lastTok w.2.children ≠ none → ∃ t, (leavesList (w.2 :: termOf w.2)).getLast? = some t ∧ t.1 = .NEWLINE) :=
  C07_doc_separated (some ctlParaLe) (some (paragraphWrap cfg none (some formatField)))
    (fun p p' _ hp => paragraphWrap_isPara cfg none (some formatField) p p' hp) root root'
    (controlWrap_some cfg root root' h).2

open Ctl in
/-- `Source::wrap_and_sort` / `Binary::wrap_and_sort`: one paragraph, no sorting — field names and
    comments kept in order -/
theorem C07_control_para (cfg : WrapCfg) (p p' : DNode) (h : paraWrap cfg p = some p') :
    keys p' = keys p ∧ commentTexts p'.children = commentTexts p.children
      ∧ Pointwise (fun e e' => entryWrap cfg (some formatField) e = some e' ∧ entryKey e' = entryKey e)
          (entries p) (entries p') := by
  obtain ⟨_, hd⟩ := paraWrap_some cfg p p' h
  obtain ⟨ws', hpw', _, _, he', he, _, hc, _, hk⟩ := paragraphWrap_fmt cfg none formatField p p' hd
  refine ⟨hk rfl, hc rfl, ?_⟩
  rw [he', he]
  exact Pointwise.map
      (S := fun e e' => entryWrap cfg (some formatField) e = some e' ∧ entryKey e' = entryKey e)
      (·.2) (·.2) (fun a b hab => ⟨hab.2.1, hab.2.2⟩) hpw'

/-! ### relationship fields: through C13 -/

open Ctl in
/-- **`format_field` on a well-formed relationship field** (`RelSpec.FieldA`, the C10 grammar: any
    layout, substitution variables, empty entries): it does not panic and returns the canonical text
    of C13 — `canonText` of the sorted entries and sorted substitution variables (`C13_canonical`;
    `C13_meaning`: same dependencies; `C13_sorted`). The canonical text is a single line (no CR, LF
    or tab) that does not start with a space, and `format_field` maps it — also with one space in
    front, as a second wrap-and-sort pass finds it — to itself. -/
theorem C07_control_rel (k : Str) (hk : relFields.contains k = true) (f : RelSpec.FieldA) (hwf : f.WF) :
    formatFieldO k f.str = some (canonOf f)
      ∧ canonOf f = Rel.Wrap.canonText (C13.outView f) (C13.outSubst f)
      ∧ formatFieldO k (canonOf f) = some (canonOf f)
      ∧ (canonOf f ≠ [] → formatFieldO k (' ' :: canonOf f) = some (canonOf f))
      ∧ (∀ c ∈ canonOf f, isNewline c = false ∧ c ≠ '\t')
      ∧ (∀ c, (canonOf f).head? = some c → isIndent c = false) :=
  ⟨formatFieldO_rel k hk f hwf, rfl, formatFieldO_canon k hk f hwf, formatFieldO_sp_canon k hk f hwf,
    fun c hc => canonChar_plain c (canonOf_chars f hwf c hc), canonOf_head f hwf⟩

example : Ctl.relFields.contains "Depends".toList = true ∧ C13.ex.WF := ⟨by decide, C13.ex_wf⟩

open Ctl in
/-- **the control wrapper does not panic** on a well-formed control file (C03 grammar, indentation
    ≥ 1) every relationship field of which has, as raw text, the text of a well-formed relationship
    field (C10 grammar) — numbers above `i32::MAX` in versions apart (finding F-C07-8: the panic of
    `debversion::Version::cmp` is outside the model) -/
theorem C07_control_total (cfg : WrapCfg) (d : Spec.DocS) (hwf : d.WF) (hc : IndentOK cfg)
    (hrel : ∀ pg ∈ d.paras, ∀ e ∈ paraEntries pg.1, relFields.contains e.key = true →
      ∃ f : RelSpec.FieldA, f.WF ∧ f.str = rawText e) :
    ∃ root', controlWrap cfg d.tree = some root' :=
  controlWrap_success cfg d hwf hc fun pg hpg e he => fieldOK_of e (hrel pg hpg e he)

/-- `exDocS` has one relationship field, `Depends: x,\n  y`; its raw text `" x,\ny"` is the text of
    a well-formed relationship field -/
def exDependsA : RelSpec.FieldA :=
  ⟨[⟨[.ws [' ']], .alts ⟨"x".toList, none, none, none, []⟩ [], []⟩,
    ⟨[.nl], .alts ⟨"y".toList, none, none, none, []⟩ [], []⟩]⟩

example : exDependsA.WF ∧ exDependsA.str = " x,\ny".toList := ⟨by decide, by decide⟩

example : ∀ pg ∈ exDocS.paras, ∀ e ∈ paraEntries pg.1, Ctl.relFields.contains e.key = true →
    ∃ f : RelSpec.FieldA, f.WF ∧ f.str = rawText e := by
  intro pg hpg e he hk
  refine ⟨exDependsA, by decide, ?_⟩
  simp only [exDocS, List.mem_cons, List.not_mem_nil, or_false] at hpg
  rcases hpg with rfl | rfl
  · simp only [paraEntries, itemEntries, List.mem_cons, List.not_mem_nil, or_false] at he
    rcases he with rfl | rfl | rfl
    · exact absurd hk (by decide)
    · decide
    · exact absurd hk (by decide)
  · simp only [paraEntries, itemEntries, List.mem_cons, List.not_mem_nil, or_false] at he
    subst he
    exact absurd hk (by decide)


/-! ### idempotence on the formatter path -/

/-- **formatter path, entry-level fixed point** (any formatter, every setting). Hypotheses, all on
    the formatter's output `out = f k arg` for this field: it is a single line (no CR / LF) not
    starting with a space or tab, and the formatter maps it to itself — also with one space in front,
    which is how a second pass finds a value written behind `": "`. Then the second application
    returns the reformatted field unchanged. -/
theorem C07_fmt_idempotent_entry (cfg : WrapCfg) (f : Str → Str → Str) (e e' : DNode) (k arg : Str)
    (hk : entryKey e = some k) (harg : Ctl.fmtArg e = some arg)
    (hn : Spec.NoNl (f k arg)) (hh : HeadFails isIndent (f k arg))
    (hst1 : f k (f k arg) = f k arg) (hst2 : f k arg ≠ [] → f k (' ' :: f k arg) = f k arg)
    (h : entryWrap cfg (some f) e = some e') :
    entryWrap cfg (some f) e' = some e' :=
  entryWrap_fmt_line_fixed cfg f e e' k arg hk harg hn hh hst1 hst2 h

open Ctl in
/-- **relationship fields are left unchanged by a second pass**: for any entry (any tree) named as
    one of the twelve relationship fields whose raw text is the text of a well-formed relationship
    field (C10 grammar), `Entry::wrap_and_sort` with `format_field` is the identity on its result -/
theorem C07_control_rel_idempotent (cfg : WrapCfg) (e e' : DNode) (k : Str) (hk : entryKey e = some k)
    (hrel : relFields.contains k = true) (f : RelSpec.FieldA) (hwf : f.WF) (harg : fmtArg e = some f.str)
    (h : entryWrap cfg (some formatField) e = some e') :
    entryWrap cfg (some formatField) e' = some e' :=
  entryWrap_rel_fixed cfg e e' k hk hrel f hwf harg h

open Ctl in
/-- **fields `format_field` leaves alone are left unchanged by a second pass** (well-formed field,
    name neither `Uploaders` nor a relationship field): the first pass gives `(e.wrap cfg).node`, the
    second returns it -/
theorem C07_control_other_idempotent (cfg : WrapCfg) (e : Spec.EntryS) (more : Bool)
    (hwf : e.WF) (ht : e.Term more) (hc : IndentOK cfg)
    (h1 : e.key ≠ kUploaders) (h2 : relFields.contains e.key = false) :
    entryWrap cfg (some formatField) e.node = some (e.wrap cfg).node
      ∧ entryWrap cfg (some formatField) (e.wrap cfg).node = some (e.wrap cfg).node :=
  entryWrap_other_fixed cfg formatField e more hwf ht hc
    (fun v => (C07_control_other_fields e.key v h1 h2).2)

open Ctl in
/-- **control file, idempotence — partial.** If `Control::wrap_and_sort` returns `root'` and every
    field of the input is a fixed point of the entry-level reformatting (hypothesis `hfix`; it holds
    for well-formed relationship fields by `C07_control_rel_idempotent` and for the fields
    `format_field` leaves alone by `C07_control_other_idempotent`; for `Uploaders` it is not proved),
    then the reformatting of `root'` returns `root'`, and so does `Control::wrap_and_sort` unless its
    panic guard fires on `root'`. -/
theorem C07_control_idempotent_partial (cfg : WrapCfg) (root root' : DNode)
    (h : controlWrap cfg root = some root')
    (hfix : ∀ p ∈ paragraphs root, ∀ e ∈ entries p, ∀ e',
      entryWrap cfg (some formatField) e = some e' → entryWrap cfg (some formatField) e' = some e') :
    deb822Wrap (some ctlParaLe) (some (paragraphWrap cfg none (some formatField))) root' = some root'
      ∧ ((paragraphs root').any paraPanics = false → controlWrap cfg root' = some root') := by
  obtain ⟨_, hd⟩ := controlWrap_some cfg root root' h
  have h2 := deb822Wrap_idem_on (some ctlParaLe) ctlParaLe_ok
    (some (paragraphWrap cfg none (some formatField)))
    (fun p p' _ hp => paragraphWrap_isPara cfg none (some formatField) p p' hp) root root' hd
    (fun p p' hp hpp => paragraphWrap_idem_of cfg none (some formatField) orderOK_none p p' hpp
      (fun e e' he hee => hfix p hp e he e' hee))
  exact ⟨h2, fun hnp => by simp [controlWrap, hnp, h2]⟩


/-- the hypotheses of `C07_control_rel_idempotent` hold for the `Depends` field of the example -/
example : entryKey exEntry = some "Depends".toList ∧ Ctl.fmtArg exEntry = some exDependsA.str
    ∧ Ctl.relFields.contains "Depends".toList = true ∧ exDependsA.WF := by
  refine ⟨by decide +kernel, by decide +kernel, by decide, by decide⟩

/-- a formatter satisfying the hypotheses of `C07_fmt_idempotent_entry` on that field: the one that
    joins the value's lines by a single space -/
example : let f : Str → Str → Str := fun _ _ => ['x', ',', ' ', 'y']
    Spec.NoNl (f [] []) ∧ HeadFails isIndent (f [] []) := by
  refine ⟨by decide, ?_⟩
  intro c hc
  simp only [List.head?_cons, Option.some.injEq] at hc
  subst hc; decide


/-! ### the second pass in general; `Uploaders`; the control wrapper is idempotent -/

open Ctl in
/-- **formatter path, what the second pass hands to the formatter** (any formatter whose output
    has no CR): the raw text of the reformatted field is the first output `f k arg` up to
    whitespace (spaces, tabs, line feeds) at its two ends — trailing whitespace dropped, the text
    possibly moved behind one space or one line feed (`WsEquiv`) -/
theorem C07_fmt_second_pass (cfg : WrapCfg) (f : Str → Str → Str) (e e' : DNode) (k arg : Str)
    (hk : entryKey e = some k) (harg : fmtArg e = some arg) (hcr : '\r' ∉ f k arg)
    (h : entryWrap cfg (some f) e = some e') :
    ∃ a, fmtArg e' = some a ∧ WsEquiv (f k arg) a ∧ entryKey e' = some k := by
  obtain ⟨a, h1, h2, _, h3, _⟩ := entryWrap_fmt_second cfg f e e' k arg hk harg hcr h
  exact ⟨a, h1, h2, h3⟩

open Ctl in
/-- **formatter path, entry-level fixed point, general form**: a formatter that returns the same
    output for every text differing from its output by whitespace at the ends only is idempotent
    through `Entry::wrap_and_sort` -/
theorem C07_fmt_idempotent_general (cfg : WrapCfg) (f : Str → Str → Str) (e e' : DNode) (k arg : Str)
    (hk : entryKey e = some k) (harg : fmtArg e = some arg) (hcr : '\r' ∉ f k arg)
    (hst : ∀ a, WsEquiv (f k arg) a → f k a = f k arg)
    (h : entryWrap cfg (some f) e = some e') :
    entryWrap cfg (some f) e' = some e' :=
  entryWrap_fmt_fixed_of cfg f e e' k arg hk harg hcr hst h

open Ctl in
/-- **the one-per-line formatter is stable**: `fmtCommaLines` (split at `','`, trim, join by
    `",\n"`) returns its own output again, also after whitespace was removed at the ends of that
    output and other whitespace put in front -/
theorem C07_control_uploaders_stable (k v a : Str) (h : WsEquiv (fmtCommaLines k v) a) :
    fmtCommaLines k a = fmtCommaLines k v := fmtCommaLines_stable k v a h

open Ctl in
/-- **the `Uploaders` field is an entry-level fixed point of the control formatter on its own
    output**: for any entry tree named `Uploaders` whose raw text has no CR (continuation lines,
    any layout), the second `Entry::wrap_and_sort` returns the reformatted field unchanged -/
theorem C07_control_uploaders_idempotent (cfg : WrapCfg) (e e' : DNode) (arg : Str)
    (hk : entryKey e = some kUploaders) (harg : fmtArg e = some arg) (hcr : '\r' ∉ arg)
    (h : entryWrap cfg (some formatField) e = some e') :
    entryWrap cfg (some formatField) e' = some e' :=
  entryWrap_uploaders_fixed cfg e e' arg hk harg hcr h

open Ctl in
/-- **`Control::wrap_and_sort` is idempotent** on every well-formed control file (C03 grammar) whose
    relationship fields are well-formed (C10 grammar; `RelFieldsOK`), indentation ≥ 1, every other
    setting: the second application does not panic and returns the same tree, hence the same text.
    (Numbers above `i32::MAX` in versions: finding F-C07-8, outside the model.) -/
theorem C07_control_idempotent (cfg : WrapCfg) (d : Spec.DocS) (hwf : d.WF) (hc : IndentOK cfg)
    (hrel : RelFieldsOK d) (root' : DNode) (h : controlWrap cfg d.tree = some root') :
    controlWrap cfg root' = some root' :=
  controlWrap_idem cfg d hwf hc hrel root' h

/-- a control file with an `Uploaders` field over two lines, a relationship field and comments -/
def exControl : Spec.DocS :=
  { lead := [],
    paras := [
      ({ first := { key := "Package".toList, ws := [' '], v := "b".toList, nl := true, conts := [] },
         rest := [.entry { key := "Depends".toList, ws := [' '], v := "x,".toList, nl := true,
                           conts := [{ indent := "  ".toList, text := "y".toList, nl := true }] }] },
       [.blank]),
      ({ first := { key := "Source".toList, ws := [' '], v := "a".toList, nl := true, conts := [] },
         rest := [.comment " who".toList true,
                  .entry { key := "Uploaders".toList, ws := [' '], v := "A <a@b>,".toList, nl := true,
                           conts := [{ indent := [' '], text := "B <c@d>, C".toList, nl := false }] }] }, [])] }

example : exControl.WF ∧ IndentOK exCfg := ⟨by decide, by simp [IndentOK, exCfg]⟩

example : Ctl.RelFieldsOK exControl := by
  intro pg hpg e he hk
  refine ⟨exDependsA, by decide, ?_⟩
  simp only [exControl, List.mem_cons, List.not_mem_nil, or_false] at hpg
  rcases hpg with rfl | rfl
  · simp only [paraEntries, itemEntries, List.mem_cons, List.not_mem_nil, or_false] at he
    rcases he with rfl | rfl
    · exact absurd hk (by decide)
    · decide
  · simp only [paraEntries, itemEntries, List.mem_cons, List.not_mem_nil, or_false] at he
    rcases he with rfl | rfl
    · exact absurd hk (by decide)
    · exact absurd hk (by decide)

/-! ### a formatter output line that starts with `#` is written as a comment -/

def exHashCfg : WrapCfg := { indentation := .spaces 4, immediateEmptyLine := false, maxLineLengthOneLiner := none }
def exHashPara : DNode := (paragraphs (parse "Uploaders: A, #B\n".toList).tree).headD (.node .PARAGRAPH [])

/-- **defect of the formatter path, closed witness (confirmed on the real code).** `Uploaders: A, #B`
    through `Source::wrap_and_sort` / `Binary::wrap_and_sort`: the returned paragraph reports the value
    `A,\n#B`; it prints as `Uploaders: A,\n    #B\n`; reading that text back gives the value `A,` — the
    line `    #B` is a comment. `rebuild_value` protects only the first value token against a leading
    `#` (`first_is_hash`); the formatter path creates new line starts (here after the comma). The
    re-read clause of C07 fails here. -/
theorem C07_fmt_hash_witness :
    (Ctl.paraWrap exHashCfg exHashPara).map Node.text = some "Uploaders: A,\n    #B\n".toList
      ∧ (Ctl.paraWrap exHashCfg exHashPara).map items = some [("Uploaders".toList, "A,\n#B".toList)]
      ∧ (Ctl.paraWrap exHashCfg exHashPara).map (fun p' => docItems (parse p'.text).tree)
          = some [[("Uploaders".toList, "A,".toList)]] := by
  refine ⟨by decide +kernel, by decide +kernel, by decide +kernel⟩


/-! ### strict re-read on the formatter path -/

open Spec in
/-- **strict re-read, any formatter.** Hypothesis: every field of the well-formed document is
    reformatted to the node of some well-formed, fully terminated field (`EntryOut`; see
    `entryOut_line`, `entryOut_lines`, `Ctl.entryOut_control` for when that holds). Then wrap-and-sort
    succeeds, the printed result parses without error, the strict reader accepts it and reads back
    exactly the content of the returned tree; the text is that of a well-formed, fully LF-terminated
    document with one blank line after every paragraph but the last. -/
theorem C07_fmt_reread (cfg : WrapCfg) (ele ple : Option (DNode → DNode → Bool)) (f : Str → Str → Str)
    (d : DocS) (hwf : d.WF)
    (hout : ∀ pg ∈ d.paras, ∀ e ∈ paraEntries pg.1, ∃ eo, EntryOut cfg (some f) e eo) :
    ∃ root' : DNode,
      deb822Wrap ple (some (paragraphWrap cfg ele (some f))) d.tree = some root'
      ∧ (paragraphs root').length = d.paras.length
      ∧ (parse root'.text).errors = []
      ∧ (∃ t, readStrict root'.text = .ok t ∧ docItems t = docItems root')
      ∧ ∃ d' : DocS, d'.WF ∧ DocTermAll d' ∧ root'.text = d'.str ∧ parse root'.text = ⟨d'.tree, []⟩
          ∧ (∃ cs, d'.lead = cGaps cs)
          ∧ (∀ pg ∈ d'.paras, pg.2 = [] ∨ ∃ cs, pg.2 = Gap.blank :: cGaps cs) := by
  classical
  let outE : EntryS → EntryS := fun e =>
    if h : ∃ eo, EntryOut cfg (some f) e eo then Classical.choose h else e
  have houtE : ∀ pg ∈ d.paras, ∀ e ∈ paraEntries pg.1, EntryOut cfg (some f) e (outE e) := by
    intro pg hpg e he
    have h := hout pg hpg e he
    simp only [outE, dif_pos h]
    exact Classical.choose_spec h
  obtain ⟨root', d', hres, hd', hterm, htext, _, hitems, hlen, hlead, hgaps⟩ :=
    deb822Wrap_reread_gen cfg ele ple (some f) d hwf outE houtE
  have hparse : parse root'.text = ⟨d'.tree, []⟩ := by
    rw [htext]; unfold parse; rw [lex_doc d' hd', parse_doc d' hd']
  refine ⟨root', hres, hlen, by rw [hparse], ⟨d'.tree, ?_, hitems⟩, d', hd', hterm, htext, hparse, hlead, hgaps⟩
  simp [readStrict, hparse]

open Ctl Spec in
/-- **strict re-read of the control wrapper's output.** For a well-formed control file (C03 grammar),
    indentation ≥ 1, whose relationship fields are well-formed (C10 grammar) and whose `Uploaders`
    fields are formatted to good lines — at least one line; every line non-empty, not starting with a
    space or tab; **no line after the first starting with `#`** (open finding F-C07-10,
    `C07_fmt_hash_witness`); no trailing line feed (i.e. no trailing comma in the field) —
    `Control::wrap_and_sort` does not panic, and its printed result parses strictly and reads back
    exactly the content the returned tree reports. -/
theorem C07_control_reread (cfg : WrapCfg) (d : DocS) (hwf : d.WF) (hc : IndentOK cfg)
    (hrel : RelFieldsOK d)
    (hup : ∀ pg ∈ d.paras, ∀ e ∈ paraEntries pg.1, e.key = kUploaders →
      ∃ L, GoodLines L ∧ fmtCommaLines kUploaders (rawText e) = Text.join ['\n'] L) :
    ∃ root' : DNode,
      controlWrap cfg d.tree = some root'
      ∧ (paragraphs root').length = d.paras.length
      ∧ (parse root'.text).errors = []
      ∧ (∃ t, readStrict root'.text = .ok t ∧ docItems t = docItems root')
      ∧ ∃ d' : DocS, d'.WF ∧ DocTermAll d' ∧ root'.text = d'.str ∧ parse root'.text = ⟨d'.tree, []⟩ := by
  have hout : ∀ pg ∈ d.paras, ∀ e ∈ paraEntries pg.1, ∃ eo, EntryOut cfg (some formatField) e eo := by
    intro pg hpg e he
    obtain ⟨m, hm⟩ := parasTerm_each d.paras hwf.paras_term pg hpg
    obtain ⟨h1, m', h2⟩ := paraEntries_props pg.1 m (hwf.paras_ok pg hpg).1 hm e he
    by_cases hu : e.key = kUploaders
    · obtain ⟨L, hL, hfl⟩ := hup pg hpg e he hu
      exact ⟨_, entryOut_lines cfg formatField e m' h1 h2 hc L hL (by
        rw [hu, formatField_uploaders]; exact hfl)⟩
    · exact entryOut_control cfg e m' h1 h2 hc hu (hrel pg hpg e he)
  obtain ⟨root', hres, hlen, herr, hstrict, d', hd', hterm, htext, hparse, _, _⟩ :=
    C07_fmt_reread cfg none (some ctlParaLe) formatField d hwf hout
  have hnp : (paragraphs d.tree).any paraPanics = false := by
    rw [paragraphs_tree]
    apply List.any_eq_false.2
    intro x hx
    simp only [List.mem_map] at hx
    obtain ⟨pg, hpg, rfl⟩ := hx
    obtain ⟨m, hm⟩ := parasTerm_each d.paras hwf.paras_term pg hpg
    simp [paraPanics_node pg.1 m (hwf.paras_ok pg hpg).1 hm
      (fun e he => fieldOK_of e (hrel pg hpg e he))]
  exact ⟨root', by simp [controlWrap, hnp, hres], hlen, herr, hstrict, d', hd', hterm, htext, hparse⟩

/-- the hypotheses of `C07_control_reread` hold for `exControl`: its `Uploaders` field
    `A <a@b>,⏎ B <c@d>, C` is formatted to the three lines `A <a@b>,` / `B <c@d>,` / `C` -/
example : ∀ pg ∈ exControl.paras, ∀ e ∈ paraEntries pg.1, e.key = Ctl.kUploaders →
    ∃ L, GoodLines L ∧ Ctl.fmtCommaLines Ctl.kUploaders (rawText e) = Text.join ['\n'] L := by
  intro pg hpg e he hk
  refine ⟨["A <a@b>,".toList, "B <c@d>,".toList, "C".toList], ⟨by decide, ?_, by decide⟩, ?_⟩
  · intro l hl
    simp only [List.mem_cons, List.not_mem_nil, or_false] at hl
    rcases hl with rfl | rfl | rfl
    · exact ⟨by decide, _, _, rfl, by decide⟩
    · exact ⟨by decide, _, _, rfl, by decide⟩
    · exact ⟨by decide, _, _, rfl, by decide⟩
  · simp only [exControl, List.mem_cons, List.not_mem_nil, or_false] at hpg
    rcases hpg with rfl | rfl
    · simp only [paraEntries, itemEntries, List.mem_cons, List.not_mem_nil, or_false] at he
      rcases he with rfl | rfl <;> exact absurd hk (by decide)
    · simp only [paraEntries, itemEntries, List.mem_cons, List.not_mem_nil, or_false] at he
      rcases he with rfl | rfl
      · exact absurd hk (by decide)
      · decide +kernel


/-! ### comment lines inside a value (no formatter): the domain of fix abfd7c8 -/

open Spec in
/-- **fields with comment lines inside the value, re-read at field level.** `EntryC` is a field whose
    continuation lines are value lines or indented comment lines (`A: b⏎ #c⏎ d` — outside `DocS`).
    For every well-formed one (`WF`; `Term`: only the last line may lack its terminator), every
    indentation ≥ 1 and every other setting, with `e' = e.wrap cfg`:
    * `Entry::wrap_and_sort` returns the node of `e'`, a well-formed, fully terminated field with the
      same name and the same lines — value lines and comment lines, in their order (`lineToks`);
    * when the first line of the value is a comment (nothing after the colon, then `#…`), the result
      has nothing on the line of the field name: the comment starts a line of its own (abfd7c8);
    * the text of `e'` lexes to exactly its tokens (in front of any following text): comment lines are
      COMMENT tokens again, value lines VALUE tokens; `parse_entry` builds the node of `e'` from them
      with no error (whatever follows, unless it starts with an INDENT token);
    * a document consisting of `e'` alone parses, without error, to one paragraph with that node. -/
theorem C07_entry_comment_reread (cfg : WrapCfg) (e : EntryC) (hwf : e.WF) (ht : e.Term) (hc : IndentOK cfg) :
    entryWrap cfg none e.node = some (e.wrap cfg).node
      ∧ (e.wrap cfg).WF ∧ (e.wrap cfg).TermAll
      ∧ (e.wrap cfg).key = e.key
      ∧ (e.wrap cfg).lineToks = e.lineToks
      ∧ (e.firstIsComment = true → (e.wrap cfg).ws = [] ∧ (e.wrap cfg).v = [])
      ∧ (∀ rest, lexAux initState ((e.wrap cfg).str ++ rest) = (e.wrap cfg).toks ++ lexAux initState rest)
      ∧ (∀ rest, HeadNot [.INDENT] rest →
          parseEntry ((e.wrap cfg).toks ++ rest) = ⟨[(e.wrap cfg).node], [], rest⟩)
      ∧ parse (e.wrap cfg).str = ⟨.node .ROOT [.node .PARAGRAPH [(e.wrap cfg).node]], []⟩
      ∧ (e.wrap cfg).node.text = (e.wrap cfg).str := by
  obtain ⟨h1, h2, h3, h4⟩ := wrapC_props cfg e hwf hc
  refine ⟨entryWrap_nodeC cfg e hwf ht hc, h1, h2, wrapC_key cfg e, h3, h4,
    fun rest => lex_entryC _ rest h1 h2, fun rest hr => parseEntry_entryC _ rest h1 h2 hr,
    parse_entryC _ h1 h2, ?_⟩
  rw [← tokText_leaves, nodeC_text]
  have := lex_entryC (e.wrap cfg) [] h1 h2
  simp only [List.append_nil, lexAux_nil] at this
  rw [← this]
  exact lexAux_tokText _ _

/-- the field of abfd7c8: `A:⏎ #c⏎ b` (nothing after the colon, an indented comment, a value line) -/
def exCommentEntry : Spec.EntryC :=
  { key := ['A'], ws := [], v := [], nl := true,
    conts := [⟨[' '], ['#', 'c'], true, true⟩, ⟨[' '], ['b'], true, false⟩] }

example : exCommentEntry.WF ∧ exCommentEntry.Term ∧ exCommentEntry.firstIsComment = true := by
  refine ⟨⟨by decide, by decide, by decide, ?_⟩, ⟨Or.inl rfl, Or.inl rfl, Or.inl rfl, trivial⟩, rfl⟩
  intro c hc
  simp only [exCommentEntry, List.mem_cons, List.not_mem_nil, or_false] at hc
  rcases hc with rfl | rfl
  · exact ⟨by decide, by decide, ⟨['c'], rfl, by decide⟩⟩
  · exact ⟨by decide, by decide, ⟨by decide, 'b', [], rfl, by decide, by decide⟩⟩

/-- it is written back with the comment on a line of its own (before the fix: `A: #c⏎ b`) -/
example : exCommentEntry.str = "A:\n #c\n b\n".toList
    ∧ (exCommentEntry.wrap exHashCfg).str = "A:\n    #c\n    b\n".toList := by
  constructor <;> decide

/-! ### `Source::wrap_and_sort` / `Binary::wrap_and_sort` -/

open Ctl Spec in
/-- **`Source` / `Binary::wrap_and_sort` is idempotent** on a well-formed paragraph (C03 grammar)
    whose relationship fields are well-formed (C10 grammar), indentation ≥ 1: the second application
    does not panic and returns the same paragraph -/
theorem C07_control_para_idempotent (cfg : WrapCfg) (p : ParaS) (more : Bool) (hwf : p.WF) (ht : p.Term more)
    (hc : IndentOK cfg) (hrel : ParaRelOK p) (p' : DNode) (h : paraWrap cfg p.node = some p') :
    paraWrap cfg p' = some p' :=
  paraWrap_idem cfg p more hwf ht hc hrel p' h

open Ctl Spec in
/-- **strict re-read of `Source` / `Binary::wrap_and_sort`'s output** (same hypotheses as
    `C07_control_reread`, for one paragraph): no panic; the printed paragraph is the text of a
    well-formed, fully terminated document that parses without error to one paragraph with exactly
    the items the returned paragraph reports -/
theorem C07_control_para_reread (cfg : WrapCfg) (p : ParaS) (more : Bool) (hwf : p.WF) (ht : p.Term more)
    (hc : IndentOK cfg) (hrel : ParaRelOK p)
    (hup : ∀ e ∈ paraEntries p, e.key = kUploaders →
      ∃ L, GoodLines L ∧ fmtCommaLines kUploaders (rawText e) = Text.join ['\n'] L) :
    ∃ p' : DNode, paraWrap cfg p.node = some p'
      ∧ (parse p'.text).errors = []
      ∧ (∃ t, readStrict p'.text = .ok t ∧ docItems t = [items p']) := by
  obtain ⟨p', h1, d', hd', _, htext, hparse, hitems⟩ := paraWrap_reread cfg p more hwf ht hc hrel hup
  exact ⟨p', h1, by rw [hparse], d'.tree, by simp [readStrict, hparse], hitems⟩


end Deb822Verif.Props.C07
