import Deb822Verif.Model.DebParse
/-!
# C01 — the lossless deb822 reader reproduces every input

Model: `Deb.lex` (src/lex.rs), `Deb.parse` (src/lossless.rs:125-282), `Display` = `Node.text`.
Quantifier: all texts (`List Char` = all sequences of Unicode scalar values = all UTF-8 strings).
-/
namespace Deb822Verif.Props.C01
open Deb822Verif Deb Node

/-! ### lexer: each step returns a non-empty prefix and continues with the exact suffix -/

theorem lexStep_text (st c rest) :
    (lexStep st c rest).1.2 ++ (lexStep st c rest).2.2 = c :: rest := by
  unfold lexStep
  (repeat' split) <;> simp [List.takeWhile_append_dropWhile]

theorem lexStep_nonempty (st c rest) : (lexStep st c rest).1.2 ≠ [] := by
  unfold lexStep
  (repeat' split) <;> simp

theorem lexAux_text (st input) : tokText (lexAux st input) = input := by
  fun_induction lexAux st input with
  | case1 => simp
  | case2 st c rest r ih =>
    have := lexStep_text st c rest
    simp only [tokText_cons, ih]; exact this

theorem lexAux_nonempty (st input) : ∀ t ∈ lexAux st input, t.2 ≠ [] := by
  fun_induction lexAux st input with
  | case1 => simp
  | case2 st c rest r ih =>
    intro t ht
    simp only [List.mem_cons] at ht
    rcases ht with rfl | ht
    · exact lexStep_nonempty st c rest
    · exact ih t ht

/-- the token texts partition the input, and no token is empty (both lexer entry points) -/
theorem C01_lex_partition (s : Str) : tokText (lex s) = s ∧ ∀ t ∈ lex s, t.2 ≠ [] :=
  ⟨lexAux_text _ _, lexAux_nonempty _ _⟩

theorem C01_lex_inline_partition (s : Str) : tokText (lexInline s) = s ∧ ∀ t ∈ lexInline s, t.2 ≠ [] :=
  ⟨lexAux_text _ _, lexAux_nonempty _ _⟩

/-! ### parser: every token is copied into the tree exactly once, in order -/

/-- for ANY token list (not only lexer output) the leaves of the parse tree are that list -/
theorem parseTokens_leaves (ts : List Tok) : (parseTokens ts).tree.leaves = ts := by
  have h := rootLoop_leaves ts
  rw [rootLoop_rest] at h
  simpa [parseTokens] using h

/-- each token is bumped exactly once, in order -/
theorem C01_tokens_once (s : Str) : (parse s).tree.leaves = lex s := parseTokens_leaves _

/-- tolerant reader: printing the result yields exactly the original text -/
theorem C01_relaxed_roundtrip (s : Str) : (readRelaxed s).1.text = s := by
  have h := C01_tokens_once s
  have := tokText_leaves (parse s).tree
  rw [h, (C01_lex_partition s).1] at this
  exact this.symm

/-- the strict reader fails exactly when the tolerant reader reports at least one error -/
theorem C01_strict_iff (s : Str) :
    (∃ t, readStrict s = .ok t) ↔ (readRelaxed s).2 = [] := by
  unfold readStrict readRelaxed
  cases h : (parse s).errors with
  | nil => simp
  | cons e es => simp

/-- the strict reader, when it succeeds, returns the tolerant reader's tree … -/
theorem C01_strict_same_tree (s : Str) (t : DNode) (h : readStrict s = .ok t) : t = (readRelaxed s).1 := by
  unfold readStrict at h
  split at h
  · simp at h; exact h.symm
  · simp at h

/-- … and therefore prints exactly the original text -/
theorem C01_strict_roundtrip (s : Str) (t : DNode) (h : readStrict s = .ok t) : t.text = s := by
  rw [C01_strict_same_tree s t h]; exact C01_relaxed_roundtrip s

/-- the parser is total on arbitrary token lists and never drops text -/
theorem C01_parse_text (ts : List Tok) : (parseTokens ts).tree.text = tokText ts := by
  rw [← tokText_leaves, parseTokens_leaves]

/-! ### non-vacuity / sanity: a malformed multi-byte text goes through both theorems -/

example : (readRelaxed "é: x\n\r #c\nA: b".toList).1.text = "é: x\n\r #c\nA: b".toList :=
  C01_relaxed_roundtrip _

example : (readRelaxed "é".toList).2 ≠ [] := by decide +kernel
example : (readRelaxed "A: b\n".toList).2 = [] := by decide +kernel

end Deb822Verif.Props.C01
