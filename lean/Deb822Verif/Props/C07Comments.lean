import Deb822Verif.Model.DebWrap
import Deb822Verif.Lemmas.DebWrapRereadDocCOut
import Deb822Verif.Lemmas.DebWrapRereadDocCEmbed
import Deb822Verif.Spec.DocCDec
/-!
# C07 — strict re-read at document level for documents with comment lines inside values

`C07_reread` (Props/C07.lean) covers the documents of `Spec/DocS.lean`, whose continuation lines are
value lines. A continuation-position line whose first non-blank character is `#` (`A: b⏎ #c⏎ d`) is
lexed INDENT COMMENT NEWLINE, kept inside the ENTRY by the parser and treated as a comment by every
reader; such documents are error-free, hence inside C07's domain. `Spec/DocC.lean` is the grammar with
such lines (`EntryC` of Lemmas/DebWrapSpecC.lean as the field), `Lemmas/DebWrapRereadDocC{Lex,Parse}`
its lexer / parser inversion, `Lemmas/DebWrapRereadDocC{Wrap,Out}` the wrap-and-sort development.
This file states the theorems; `C07_reread_comments` has the shape of `C07_reread` with `DocC` for
`DocS`, and `DocS` is the special case `DocS.toC` (`C07_docS_embeds`).
-/
namespace Deb822Verif.Props.C07
open Deb822Verif Deb Node

open Spec in
/-- **C03 for the grammar with comment lines inside values**: the text of a well-formed `DocC` lexes
    to `d.toks` and parses, without error, to `d.tree`; the strict reader returns `d.tree` -/
theorem C07_parse_comments (d : DocC) (hwf : d.WF) :
    lex d.str = d.toks ∧ parse d.str = ⟨d.tree, []⟩ ∧ readStrict d.str = .ok d.tree := by
  have hparse := DebC.parse_str d hwf
  exact ⟨DebC.lex_doc d hwf, hparse, by simp [readStrict, hparse]⟩

open Spec in
/-- **strict re-read, documents with comment lines inside values** (no formatter; every indentation
    of at least one column, empty-first-line setting, width limit, entry and paragraph comparator).
    Take the tree `d.tree` of any well-formed document `d` of the grammar `DocC` (`DocC.WF`; by
    `C07_parse_comments` this is exactly what the parser returns for `d.str`). Then
    * wrap-and-sort succeeds (no panic) and returns a tree `root'` with as many paragraphs as `d`;
    * the printed result `root'.text` parses with no error, the strict reader accepts it, and what
      it reads back — `docItems` of the re-read tree — is exactly `docItems root'`, the content the
      returned object reports (computed in `C07_doc_content` / `C07_para_comments`);
    * the printed result is the text of a well-formed document `d'` of the same grammar every line of
      which is LF-terminated (`DocC.TermAll`), in which nothing but comment lines precedes the first
      paragraph, every paragraph except the last is followed by exactly one blank line (then comment
      lines only) and the last one by nothing. -/
theorem C07_reread_comments (cfg : WrapCfg) (ele ple : Option (DNode → DNode → Bool)) (d : DocC)
    (hwf : d.WF) (hc : IndentOK cfg) :
    ∃ root' : DNode,
      deb822Wrap ple (some (paragraphWrap cfg ele none)) d.tree = some root'
      ∧ (paragraphs root').length = d.paras.length
      ∧ (parse root'.text).errors = []
      ∧ (∃ t, readStrict root'.text = .ok t ∧ docItems t = docItems root')
      ∧ ∃ d' : DocC, d'.WF ∧ d'.TermAll ∧ root'.text = d'.str ∧ parse root'.text = ⟨d'.tree, []⟩
          ∧ (∃ cs, d'.lead = cGaps cs)
          ∧ (∀ pg ∈ d'.paras, pg.2 = [] ∨ ∃ cs, pg.2 = Gap.blank :: cGaps cs) := by
  obtain ⟨root', d', hres, hd', hterm, htext, _, hitems, hlen, hlead, hgaps, _⟩ :=
    DebC.deb822Wrap_reread cfg ele ple d hwf hc
  have hparse : parse root'.text = ⟨d'.tree, []⟩ := by
    rw [htext]; exact DebC.parse_str d' hd'
  refine ⟨root', hres, hlen, by rw [hparse], ⟨d'.tree, ?_, hitems⟩, d', hd', hterm, htext, hparse, hlead, hgaps⟩
  simp [readStrict, hparse]

open Spec in
/-- the same, starting from the text: the strict reader's result for a well-formed document -/
theorem C07_reread_comments_text (cfg : WrapCfg) (ele ple : Option (DNode → DNode → Bool)) (d : DocC)
    (hwf : d.WF) (hc : IndentOK cfg) :
    ∃ root root' : DNode, readStrict d.str = .ok root
      ∧ deb822Wrap ple (some (paragraphWrap cfg ele none)) root = some root'
      ∧ ∃ t, readStrict root'.text = .ok t ∧ docItems t = docItems root' := by
  obtain ⟨root', hres, _, _, ht, _⟩ := C07_reread_comments cfg ele ple d hwf hc
  exact ⟨d.tree, root', (C07_parse_comments d hwf).2.2, hres, ht⟩

open Spec in
/-- **the re-read tree has the same fields, token for token.** Under the hypotheses of
    `C07_reread_comments` the strict reader's tree for the printed result has, paragraph by paragraph,
    exactly the ENTRY nodes of the returned tree: the same value lines *and the same comment lines
    inside the values* (a comment line of a value is re-read as a comment line of that value, a value
    line as a value line), with the same indentation. -/
theorem C07_reread_comments_entries (cfg : WrapCfg) (ele ple : Option (DNode → DNode → Bool)) (d : DocC)
    (hwf : d.WF) (hc : IndentOK cfg) :
    ∃ root' t : DNode,
      deb822Wrap ple (some (paragraphWrap cfg ele none)) d.tree = some root'
      ∧ readStrict root'.text = .ok t
      ∧ (paragraphs t).map entries = (paragraphs root').map entries
      ∧ docItems t = docItems root' := by
  obtain ⟨root', d', hres, hd', _, htext, _, hitems, _, _, _, hent⟩ :=
    DebC.deb822Wrap_reread cfg ele ple d hwf hc
  have hparse : parse root'.text = ⟨d'.tree, []⟩ := by
    rw [htext]; exact DebC.parse_str d' hd'
  exact ⟨root', d'.tree, hres, by simp [readStrict, hparse], hent, hitems⟩

open Spec in
/-- **strict re-read of `Paragraph::wrap_and_sort`'s result** for a well-formed paragraph with comment
    lines inside values (`more`: whether text follows the paragraph — only then must its last line be
    terminated): no panic; the printed paragraph parses with no error to one paragraph that has exactly
    the ENTRY nodes, hence the items, of the returned paragraph. (Comments that end up in front of the
    first field are top-level comments of the re-read document.) -/
theorem C07_para_reread_comments (cfg : WrapCfg) (le : Option (DNode → DNode → Bool)) (p : ParaC)
    (more : Bool) (hwf : p.WF) (ht : p.Term more) (hc : IndentOK cfg) :
    ∃ p' : DNode, paragraphWrap cfg le none p.node = some p'
      ∧ (parse p'.text).errors = []
      ∧ (∃ t, readStrict p'.text = .ok t ∧ docItems t = [items p']
          ∧ (paragraphs t).map entries = [entries p'])
      ∧ ∃ d' : DocC, d'.WF ∧ d'.TermAll ∧ p'.text = d'.str ∧ parse p'.text = ⟨d'.tree, []⟩
          ∧ d'.paras.length = 1 := by
  obtain ⟨p', d', hres, hd', hterm, htext, _, hitems, hent, hlen⟩ :=
    DebC.paragraphWrap_reread cfg le p more hwf ht hc
  have hparse : parse p'.text = ⟨d'.tree, []⟩ := by
    rw [htext]; exact DebC.parse_str d' hd'
  exact ⟨p', hres, by rw [hparse], ⟨d'.tree, by simp [readStrict, hparse], hitems, hent⟩,
    d', hd', hterm, htext, hparse, hlen⟩

open Spec in
/-- **`DocS` is the special case without comment lines**: a well-formed document of the C03 grammar,
    seen as a `DocC` (`DocS.toC`), is well formed, has the same text and the same tree and no comment
    line inside a value; so `C07_reread_comments` applies to every document `C07_reread` applies to. -/
theorem C07_docS_embeds (d : DocS) (hwf : d.WF) :
    d.toC.WF ∧ d.toC.str = d.str ∧ d.toC.toks = d.toks ∧ d.toC.tree = d.tree
      ∧ ∀ pg ∈ d.paras, pg.1.first.toC.NoComments :=
  ⟨DocS.toC_wf d hwf, DocS.toC_str d, DocS.toC_toks d, DocS.toC_tree d,
    fun pg _ => EntryS.toC_noComments pg.1.first⟩

/-! ### a concrete document -/

def exCfgC : WrapCfg := { indentation := .spaces 4, immediateEmptyLine := false, maxLineLengthOneLiner := some 20 }

/-- comment lines inside two values (one of them the first line of the value, the case of abfd7c8), a
    comment between fields, several blank lines, no final newline -/
def exDocC : Spec.DocC :=
  { lead := [.comment " top".toList true, .blank],
    paras := [
      ({ first := { key := "Package".toList, ws := [' '], v := "b".toList, nl := true, conts := [] },
         rest := [.entry { key := "Depends".toList, ws := [' '], v := "x,".toList, nl := true,
                           conts := [⟨"  ".toList, "# why y".toList, true, true⟩,
                                     ⟨"  ".toList, "y".toList, true, false⟩] },
                  .comment " c".toList true,
                  .entry { key := "Arch".toList, ws := [' '], v := "any".toList, nl := true, conts := [] }] },
       [.blank, .blank, .comment " mid".toList true]),
      ({ first := { key := "Package".toList, ws := [' '], v := "a".toList, nl := true, conts := [] },
         rest := [.entry { key := "Files".toList, ws := [], v := [], nl := true,
                           conts := [⟨[' '], "#first".toList, true, true⟩,
                                     ⟨[' '], "f1".toList, false, false⟩] }] }, [])] }

example : exDocC.WF ∧ IndentOK exCfgC := ⟨by decide, by simp [IndentOK, exCfgC]⟩

example : exDocC.str =
    "# top\n\nPackage: b\nDepends: x,\n  # why y\n  y\n# c\nArch: any\n\n\n# mid\nPackage: a\nFiles:\n #first\n f1".toList := by
  decide

/-- the model on this document: the comment lines stay inside their values, re-indented; the value
    that starts with a comment line keeps the line of the field name empty -/
example : (deb822Wrap none (some (paragraphWrap exCfgC none none)) exDocC.tree).map Node.text
    = some ("# top\nPackage: b\nDepends: x,\n    # why y\n    y\n# c\nArch: any\n\n# mid\nPackage: a\n"
        ++ "Files:\n    #first\n    f1\n").toList := by
  decide +kernel

/-- and what is read back from that text: the comment lines are no content -/
example : (deb822Wrap none (some (paragraphWrap exCfgC none none)) exDocC.tree).map
      (fun r => docItems (parse r.text).tree)
    = some [[("Package".toList, "b".toList), ("Depends".toList, "x,\ny".toList), ("Arch".toList, "any".toList)],
            [("Package".toList, "a".toList), ("Files".toList, "f1".toList)]] := by
  decide +kernel

/-- the two paragraphs of the example on their own: text follows the first; the second ends the
    input and its last line (a value line after a comment line) has no terminator -/
def exParaC1 : Spec.ParaC := (exDocC.paras.map (·.1)).headD ⟨⟨[], [], [], true, []⟩, []⟩
def exParaC2 : Spec.ParaC := ((exDocC.paras.map (·.1)).drop 1).headD ⟨⟨[], [], [], true, []⟩, []⟩

example : exParaC1.WF ∧ exParaC1.Term true ∧ exParaC2.WF ∧ exParaC2.Term false ∧ ¬ exParaC2.Term true := by
  decide

example : (paragraphWrap exCfgC none none exParaC2.node).map Node.text
    = some "Package: a\nFiles:\n    #first\n    f1\n".toList := by decide +kernel

/-- the embedding is not vacuous: a well-formed `DocS` (a field with a continuation line) -/
def exEmbed : Spec.DocS :=
  { lead := [], paras := [({ first := ⟨['A'], [' '], ['b'], true, [⟨[' '], ['c'], false⟩]⟩, rest := [] }, [])] }

example : exEmbed.WF ∧ exEmbed.toC.WF ∧ exEmbed.toC.str = "A: b\n c".toList := by decide

end Deb822Verif.Props.C07
