import Deb822Verif.Props.C20Blank
import Deb822Verif.Lemmas.DebLossyRange
import Deb822Verif.Props.C08More
/-!
# C20Apt — print / re-parse stability of the apt Release / Sources / Packages stanzas on PARSE OUTPUTS

`Props/C20.lean` has, for the three kinds read with the LOSSY paragraph reader, only
`C20_stable_lossyPara`: stability under the ASSUMED hypothesis that the printed paragraph is canonical
(`CanonD`, the C08 domain).  The reader's own outputs leave that domain: a whitespace-only or comment
continuation line gives an empty line inside the value, `Name:` + continuation lines an empty first
line, ` \n` at the end a trailing empty line.  Here the clause "whenever the text parses to a value, the
printed value parses to an equal value and prints identically" is proved for EVERY accepted text:

* `Lemmas/DebLossyRange.lean`: range of the lossy reader (`LossyText`: lines without terminators that do
  not start with a blank and — after the first — not with `#`; they may be empty) and the lossy round
  trip `read (printDoc D) = ok D` on that whole range;
* per-field conditions on `LossyText` for the codecs of the three structs (`String`, `bool`, `usize`,
  `Priority`, word lists, `split('\n')` lists, lossy `Relations`, `debversion::Version`) — none of them is
  one of the three codecs that remain assumed (`ExtOK3`), so the theorems need NO codec assumption;
* `C20_roundtrip_release_shipped`, `C20_roundtrip_source_shipped`, `C20_roundtrip_package_shipped`.

The second half removes hypothesis `hSigned` of `C20Ext.C20_roundtrip_repos_shipped_rv` (apt sources list):
a key block prints with an empty first line, which the lossless reader does not show
(`C08.C08_lossless_view`); re-reading gives the block back.  What remains is `hSignedHash`: the key block
does not start with `#` — there the real code FAILS (open finding F-C20-10; `C20_signed_hash_witness`).
-/
set_option linter.unusedSimpArgs false
set_option linter.unusedVariables false
namespace Deb822Verif.Props.C20Apt
open Deb822Verif Deb Deb.Lossy Spec Derive TypedDoc Rel
open Deb822Verif.Props.C20 Deb822Verif.Props.C20Ext Deb822Verif.Props.C20Blank

/-! ## per-field conditions relative to a predicate on the texts the reader can show -/

structure FieldOKP (P : Str → Prop) (f : FieldSpec Val) : Prop where
  validKey : ValidKey f.key
  stable : ∀ t y, P t → f.de t = .ok y → f.de (f.ser y) = .ok y
  canon : ∀ t y, P t → f.de t = .ok y → P (f.ser y)

theorem fromFields_goodP (P : Str → Prop) (g : Str → Option Str) (spec : Spec) (v : SV)
    (hg : ∀ k t, g k = some t → P t) (hs : ∀ f ∈ spec, FieldOKP P f)
    (h : fromFields g spec = .ok v) :
    WellFormed spec v ∧ CodecsRoundTrip spec v ∧ ∀ e ∈ toFields spec v, ValidKey e.1 ∧ P e.2 := by
  induction spec generalizing v with
  | nil => simp [fromFields] at h; subst h; simp [WellFormed, CodecsRoundTrip, toFields]
  | cons f fs ih =>
    simp only [fromFields] at h
    cases hr : readField g f with
    | error e => rw [hr] at h; simp at h
    | ok x =>
      rw [hr] at h
      simp only at h
      cases hf : fromFields g fs with
      | error e => rw [hf] at h; simp at h
      | ok xs =>
        rw [hf] at h
        simp only [Except.ok.injEq] at h
        subst h
        obtain ⟨i1, i2, i3⟩ := ih xs (fun f' hf' => hs f' (by simp [hf'])) hf
        have hfo := hs f (by simp)
        unfold readField at hr
        cases hgk : g f.key with
        | none =>
          rw [hgk] at hr
          cases ho : f.optional with
          | false => simp [ho] at hr
          | true =>
            simp [ho] at hr; subst hr
            exact ⟨⟨by simp [ho], i1⟩, i2, i3⟩
        | some t =>
          rw [hgk] at hr
          cases hd : f.de t with
          | error e => simp [hd] at hr
          | ok y =>
            simp [hd] at hr; subst hr
            refine ⟨⟨by simp, i1⟩, ⟨hfo.stable t y (hg _ _ hgk) hd, i2⟩, ?_⟩
            intro e he
            simp only [toFields, List.mem_cons] at he
            rcases he with rfl | he
            · exact ⟨hfo.validKey, hfo.canon t y (hg _ _ hgk) hd⟩
            · exact i3 e he

/-! ## the lossy paragraph reader: one stanza, parse outputs -/

/-- what `lossy::Paragraph::from_str` returns: one paragraph of the reader's range -/
theorem lyPara_range (s : Str) (p : Para) (h : lyPara s = .ok p) :
    Lossy.read s = .ok [p] ∧ p ≠ [] ∧ LossyP p := by
  unfold lyPara Lossy.readPara at h
  cases hr : Lossy.read s with
  | error e => rw [hr] at h; simp at h
  | ok D =>
    rw [hr] at h
    have hD := read_range s D hr
    match D, h, hD with
    | [], h, _ => simp at h
    | [q], h, hD =>
      simp only [Except.ok.injEq] at h
      subst h
      exact ⟨rfl, (hD q (by simp)).1, (hD q (by simp)).2⟩
    | _ :: _ :: _, h, _ => simp at h

theorem pget_lossyText (p : Para) (hp : LossyP p) : ∀ k t, Lossy.pget p k = some t → LossyText t := by
  intro k t h
  rw [pget_eq_lookup] at h
  simp only [lookupFirst, Option.map_eq_some_iff] at h
  obtain ⟨f, hf, rfl⟩ := h
  exact (hp f (List.mem_of_find?_eq_some hf)).2

/-- stability on the whole range of the reader (replaces the assumed `CanonD` of `C20_stable_lossyPara`) -/
theorem C20_stable_lossyPara_range (spec : Spec) (v : SV) (hg : Good spec v)
    (hc : LossyD [paraOf spec v]) :
    TypedDoc.parse (.lossyPara spec) (TypedDoc.print (.lossyPara spec) (.single v)) = .ok (.single v) := by
  have hr := read_printDoc_lossy _ hc
  simp only [TypedDoc.parse, TypedDoc.print, docOf, parseLossyPara, lyPara, Lossy.readPara, hr, fromLY, pget_eq_lookup,
    from_paraOf spec v hg, liftMsg]

/-- **apt stanza, any spec**: whatever text parsed to `v`, printing `v` gives a text that parses to `v`
    again — for every accepted text, values with empty lines included -/
theorem C20_roundtrip_lossyPara (spec : Spec) (hn : (specKeys spec).Nodup)
    (hs : ∀ f ∈ spec, FieldOKP LossyText f) (hm : ∃ f ∈ spec, f.optional = false)
    (s : Str) (v : SV) (h : TypedDoc.parse (.lossyPara spec) s = .ok (.single v)) :
    TypedDoc.parse (.lossyPara spec) (TypedDoc.print (.lossyPara spec) (.single v)) = .ok (.single v) := by
  simp only [TypedDoc.parse, parseLossyPara] at h
  cases hp : lyPara s with
  | error e => rw [hp] at h; simp at h
  | ok p =>
    rw [hp] at h
    simp only at h
    cases hv : fromLY spec p with
    | error e => rw [hv] at h; simp at h
    | ok v' =>
      rw [hv] at h
      simp only [Except.ok.injEq, TV.single.injEq] at h
      subst h
      obtain ⟨_, _, hlp⟩ := lyPara_range s p hp
      have hff : fromFields (Lossy.pget p) spec = .ok v' := by
        unfold fromLY liftMsg at hv
        cases hf : fromFields (Lossy.pget p) spec with
        | ok x => rw [hf] at hv; simp at hv; rw [hv]
        | error e => rw [hf] at hv; simp at hv
      obtain ⟨h1, h2, h3⟩ := fromFields_goodP LossyText _ spec v' (pget_lossyText p hlp) hs hff
      have hg : Good spec v' := ⟨hn, h1, h2⟩
      refine C20_stable_lossyPara_range spec v' hg ?_
      intro q hq
      simp only [List.mem_singleton] at hq
      subst hq
      exact ⟨paraOf_ne_nil spec v' hg hm, h3⟩

/-- **range of the lossy reader** (Lemmas/DebLossyRange.lean): whatever text `lossy::Deb822::from_str`
    accepts, every paragraph has a field, every name is a valid key, and every value splits at LF into
    lines without terminators that do not start with a blank nor — after the first — with `#` -/
theorem C20_lossy_range (s : Str) (D : Lossy.Doc) (h : Lossy.read s = .ok D) :
    ∀ p ∈ D, p ≠ [] ∧ ∀ f ∈ p, ValidKey f.1 ∧ LossyLines (Text.splitOn '\n' f.2) :=
  read_range s D h

/-- **lossy round trip on the whole range** (beyond `CanonD`, the domain of C08): for every accepted text,
    the printed document reads back as the same document -/
theorem C20_lossy_print_read (s : Str) (D : Lossy.Doc) (h : Lossy.read s = .ok D) :
    Lossy.read (printDoc D) = .ok D := read_print_read s D h

/-- the range is strictly wider than the C08 domain: `K: a` + whitespace-only line + ` b` -/
example : Lossy.read (c!"K: a\n \n b\n") = .ok [[(c!"K", c!"a\n\nb")]]
    ∧ ¬ CanonD [[(c!"K", c!"a\n\nb")]] ∧ LossyD [[(c!"K", c!"a\n\nb")]] := by
  refine ⟨by decide +kernel, ?_, read_range _ _ (by decide +kernel : Lossy.read (c!"K: a\n \n b\n") = .ok _)⟩
  intro hc
  have h2 := (C08.canonDocB_iff _).2 (by
    intro p hp
    exact ⟨(hc p hp).1, fun f hf => (hc p hp).2 f hf⟩)
  have : canonDocB [[(c!"K", c!"a\n\nb")]] = false := by decide +kernel
  rw [this] at h2; cases h2

/-! ## the codecs of the three structs on `LossyText` -/

def CodecOKL (c : LeafCodec) : Prop :=
  (∀ t y, LossyText t → c.de t = .ok y → c.de (c.ser y) = .ok y)
  ∧ (∀ t y, LossyText t → c.de t = .ok y → LossyText (c.ser y))

theorem lossyLines_of_canon (ls : List Str) (h : CanonLines ls) : LossyLines ls := by
  refine ⟨h.ne, ?_, ?_⟩
  · intro l hl
    refine ⟨h.noNl l hl, ?_⟩
    cases ls with
    | nil => simp at hl
    | cons a r =>
      simp only [List.mem_cons] at hl
      rcases hl with rfl | hl
      · intro c hc
        exact h.first c (by simpa using hc)
      · obtain ⟨_, c, cs, hc, hi, _⟩ := h.tailOk l (by simpa using hl)
        intro d hd
        rw [hc] at hd
        simp only [List.head?_cons, Option.some.injEq] at hd
        subst hd; exact hi
  · intro l hl
    obtain ⟨_, c, cs, hc, _, hh⟩ := h.tailOk l hl
    rw [hc]
    simp only [NoHash, List.head?_cons, ne_eq, Option.some.injEq]
    exact hh

theorem lossyText_of_goodText (v : Str) (h : GoodText v) : LossyText v := lossyLines_of_canon _ h.1

theorem lossyText_nil : LossyText [] := lossyText_of_goodText [] goodText_nil

theorem codecOKL_of_identity (c : LeafCodec) (h : ∀ t y, c.de t = .ok y → c.ser y = t) : CodecOKL c :=
  ⟨fun t y _ hd => by rw [h t y hd]; exact hd, fun t y hg hd => by rw [h t y hd]; exact hg⟩

/-- a codec whose accepted values print as good text and re-read -/
theorem codecOKL_of_range (c : LeafCodec) (R : Val → Prop) (hr : ∀ t y, c.de t = .ok y → R y)
    (hs : ∀ y, R y → c.de (c.ser y) = .ok y) (hg : ∀ y, R y → GoodText (c.ser y)) : CodecOKL c :=
  ⟨fun t y _ hd => hs y (hr t y hd), fun t y _ hd => lossyText_of_goodText _ (hg y (hr t y hd))⟩

theorem str_codecOKL : CodecOKL strCodec := by
  apply codecOKL_of_identity
  intro t y h
  have : y = .str t := by
    simp only [strCodec] at h
    exact (Except.ok.inj h).symm
  subst this; rfl

theorem splitLines_codecOKL : CodecOKL splitLinesCodec := by
  apply codecOKL_of_identity
  intro t y h
  have hy : y = .list (if t = [] then [] else Text.splitOn '\n' t) := (Except.ok.inj h).symm
  subst hy
  show joinWith ['\n'] (if t = [] then [] else Text.splitOn '\n' t) = t
  split
  · rename_i ht; rw [ht]; rfl
  · exact join_splitOn t

theorem bool_codecOKL : CodecOKL boolCodec := by
  apply codecOKL_of_identity
  intro t y h
  simp only [boolCodec] at h
  split at h
  · rename_i ht
    have : y = .bool true := (Except.ok.inj h).symm
    subst this; rw [ht]; rfl
  · split at h
    · rename_i _ ht
      have : y = .bool false := (Except.ok.inj h).symm
      subst this; rw [ht]; rfl
    · simp at h

theorem words_codecOKL : CodecOKL wordsCodec := by
  apply codecOKL_of_range wordsCodec (fun y => ∃ l, y = .list l ∧ ∀ w ∈ l, C18.Tok w)
  · intro t y h
    exact ⟨Text.splitWhitespace t, (Except.ok.inj h).symm, sw_tokens t⟩
  · rintro y ⟨l, rfl, hl⟩
    exact C16.words_ok _ ⟨l, rfl, hl⟩
  · rintro y ⟨l, rfl, hl⟩
    -- `words_codecOK` gives it for the re-read text; here directly: l = split_whitespace (join l)
    have hst : wordsCodec.de (wordsCodec.ser (.list l)) = .ok (.list l) := C16.words_ok _ ⟨l, rfl, hl⟩
    by_cases hne : l = []
    · subst hne; exact goodText_nil
    · have hc := C20_canon_words l hne hl
      refine goodText_of_line _ hc ?_
      intro hh
      have hj : Text.join ['\n'] (Text.splitOn '\n' (joinWith [' '] l)) = joinWith [' '] l := join_splitOn _
      cases hs : Text.splitOn '\n' (joinWith [' '] l) with
      | nil => exact absurd hs (C20.splitOn_ne_nil _ _)
      | cons a r =>
        change (Text.splitOn '\n' (joinWith [' '] l)).head? = some [] at hh
        rw [hs] at hh hc
        simp only [List.head?_cons, Option.some.injEq] at hh
        subst hh
        -- the joined text then starts with LF or is empty; it does neither
        cases l with
        | nil => exact hne rfl
        | cons w ws =>
          obtain ⟨c, cs, hw⟩ : ∃ c cs, w = c :: cs := by
            cases w with
            | nil => exact absurd rfl (hl [] (by simp)).1
            | cons c cs => exact ⟨c, cs, rfl⟩
          have hcw : Text.isWhitespace c = false := (hl w (by simp)).2 c (by rw [hw]; simp)
          have hhead : (joinWith [' '] (w :: ws)).head? = some c := by
            rw [hw]; cases ws <;> simp [joinWith, Text.join]
          rw [← hj, hs] at hhead
          cases r with
          | nil => simp [Text.join] at hhead
          | cons b r' =>
            simp [Text.join] at hhead
            rw [← hhead] at hcw
            exact absurd hcw (by decide)

theorem nat_range (bound : Nat) : ∀ t y, (natCodec bound).de t = .ok y → ∃ n, y = .nat n ∧ n < bound := by
  intro t y h
  simp only [natCodec] at h
  cases hp : parseUnsigned bound t with
  | error e => rw [hp] at h; simp at h
  | ok n =>
    rw [hp] at h
    simp only [Except.ok.injEq] at h
    refine ⟨n, h.symm, ?_⟩
    have hd : ∀ (acc : Nat) (l : Str) (r : Nat), l ≠ [] → unsignedDigits bound acc l = .ok r → r < bound := by
      intro acc l
      induction l generalizing acc with
      | nil => intro r hne; exact absurd rfl hne
      | cons c cs ih =>
        intro r _ hr
        simp only [unsignedDigits] at hr
        cases hdv : Codec.digitVal c with
        | none => rw [hdv] at hr; simp at hr
        | some d =>
          rw [hdv] at hr
          simp only at hr
          split at hr
          · rename_i hlt
            cases cs with
            | nil => simp [unsignedDigits] at hr; rw [← hr]; exact hlt
            | cons c2 cs2 => exact ih _ r (by simp) hr
          · simp at hr
    unfold parseUnsigned at hp
    split at hp
    · simp at hp
    · simp at hp
    · simp at hp
    · rename_i rest hrest1
      exact hd 0 rest n (fun e => hrest1 (by rw [e])) hp
    · rename_i hs1 hs2 hs3 hs4
      cases t with
      | nil => exact absurd rfl hs1
      | cons a as => exact hd 0 _ n (by simp) hp

theorem nat_codecOKL (bound : Nat) : CodecOKL (natCodec bound) := by
  apply codecOKL_of_range (natCodec bound) (fun y => ∃ n, y = .nat n ∧ n < bound) (nat_range bound)
  · rintro y ⟨n, rfl, hn⟩
    exact C16.nat_ok bound (.nat n) ⟨n, rfl, hn⟩
  · rintro y ⟨n, rfl, _⟩
    refine goodText_of_line _ (C20_canon_nat n) ?_
    show (Text.splitOn '\n' (Codec.decDigits n)).head? ≠ some []
    have hnl : '\n' ∉ Codec.decDigits n := by
      intro hm
      have := (C18.decDigits_tok n).2 _ hm
      exact absurd this (by decide)
    rw [splitOn_no_nl _ hnl]
    simp [C18.decDigits_ne_nil n]

/-- the accepted `Priority` keywords are good texts, so `enum_codecOK` applies to every accepted text -/
theorem priority_accepted_good : ∀ kw ∈ Enum.accepted Gen.Enums.priority, GoodText kw := by decide +kernel

theorem priority_codecOKL : CodecOKL (enumCodec Gen.Enums.priority errPriority) := by
  have hok := enum_codecOK Gen.Enums.priority (by simp [Gen.Enums.all]) errPriority C16.priority_ok
  have hgood : ∀ t y, (enumCodec Gen.Enums.priority errPriority).de t = .ok y → GoodText t := by
    intro t y h
    simp only [enumCodec] at h
    cases hp : Enum.parseOf Gen.Enums.priority t with
    | none => rw [hp] at h; simp at h
    | some k =>
      apply priority_accepted_good
      apply Classical.byContradiction
      intro hn
      have hl : Enum.lookup t Gen.Enums.priority.parseTab = none := C18.lookup_none_of_not_mem _ _ hn
      have : Enum.parseOf Gen.Enums.priority t = none := by
        unfold Enum.parseOf
        show (match Enum.lookup (Enum.normalise .exact t) Gen.Enums.priority.parseTab with
          | some v => some v
          | none => none) = none
        simp only [Enum.normalise, hl]
      rw [this] at hp; cases hp
  exact ⟨fun t y _ h => hok.1 t y (hgood t y h) h,
    fun t y _ h => lossyText_of_goodText _ (hok.2 t y (hgood t y h) h)⟩

/-- lossy `Relations` and `debversion::Version`: proved for every text in Props/C20Ext -/
theorem relations_codecOKL : CodecOKL relationsCodec := by
  refine ⟨?_, ?_⟩
  · intro t y _ h
    obtain ⟨rs, hr, rfl⟩ := relationsCodec_de_ok t y h
    have := Rel.readRelations_reprint hr
    show relationsCodec.de (Rel.Lossy.showRelations rs) = _
    simp only [relationsCodec, this]
  · intro t y _ h
    obtain ⟨rs, hr, rfl⟩ := relationsCodec_de_ok t y h
    exact lossyText_of_goodText _ (C20_ext_relations_goodText rs (Rel.readRelations_range hr))

theorem version_codecOKL : CodecOKL versionCodec := by
  refine ⟨?_, ?_⟩
  · intro t y _ h
    obtain ⟨v, hv, rfl⟩ := versionCodec_de_ok t y h
    have := Version.parse_display_stable hv
    show versionCodec.de v.display = _
    simp only [versionCodec, this]
  · intro t y _ h
    obtain ⟨v, hv, rfl⟩ := versionCodec_de_ok t y h
    exact lossyText_of_goodText _ (C20_ext_version_goodText v (Version.parse_display_stable hv))

/-! ## the three shipped structs -/

/-- the (serialize_with, deserialize_with, type) triples of the apt structs -/
def aptTriples : List (Str × Str × Str) := [
  (c!"", c!"", c!"String"), (c!"", c!"", c!"bool"), (c!"", c!"", c!"usize"),
  (c!"", c!"", c!"crate::fields::Priority"),
  (c!"apt.join_whitespace", c!"apt.deserialize_components", c!"Vec<String>"),
  (c!"apt.join_whitespace", c!"apt.deserialize_architectures", c!"Vec<String>"),
  (c!"apt.join_whitespace", c!"apt.deserialize_binaries", c!"Vec<String>"),
  (c!"apt.join_lines", c!"apt.deserialize_package_list", c!"Vec<String>"),
  (c!"", c!"", c!"Relations"), (c!"", c!"", c!"debversion::Version")]

def aptIds : List Str := [c!"apt.Release", c!"apt.Source", c!"apt.Package"]

/-- table facts: every field of the three apt structs has a valid key and one of the ten codecs above;
    each struct has a mandatory field -/
theorem tf_apt : ∀ id ∈ aptIds,
    (∀ f ∈ rowFields id, ValidKey f.key ∧ (f.ser, f.de, f.ty) ∈ aptTriples)
    ∧ (rowSig id).any (fun p => !p.2) = true := by decide +kernel

theorem fieldOKP_of_codec (key : Str) (opt : Bool) (c : LeafCodec) (hk : ValidKey key) (hc : CodecOKL c) :
    FieldOKP LossyText ⟨key, opt, c.ser, c.de⟩ := ⟨hk, hc.1, hc.2⟩

theorem fieldSpecE_modelled (E : ExtCodecs) (fr : FieldRow) (fs : FieldSpec Val) (c : LeafCodec)
    (h : fieldSpecE E fr = some fs) (hk : kindOf fr = some (.modelled c)) :
    fs = ⟨fr.key, fr.optional, c.ser, c.de⟩ := by
  unfold fieldSpecE at h
  rw [hk] at h
  simp only [Option.some.injEq] at h
  exact h.symm

theorem fieldSpecE_external (E : ExtCodecs) (fr : FieldRow) (fs : FieldSpec Val) (why : String) (c : LeafCodec)
    (h : fieldSpecE E fr = some fs) (hk : kindOf fr = some (.external why)) (he : extOf E fr = some c) :
    fs = ⟨fr.key, fr.optional, c.ser, c.de⟩ := by
  unfold fieldSpecE at h
  rw [hk] at h
  simp only [he, Option.map_some, Option.some.injEq] at h
  exact h.symm

/-- every field of an apt struct meets the per-field conditions on `LossyText`, when relations and
    versions are the modelled codecs (no assumption about the remaining external codecs is needed:
    the apt structs do not use them) -/
theorem fieldSpecE_okL (E : ExtCodecs) (hrv : ModelledRV E) (fr : FieldRow) (fs : FieldSpec Val)
    (h : fieldSpecE E fr = some fs) (hk : ValidKey fr.key) (ht : (fr.ser, fr.de, fr.ty) ∈ aptTriples) :
    FieldOKP LossyText fs := by
  simp only [aptTriples, List.mem_cons, List.not_mem_nil, or_false] at ht
  have hkind : ∀ k, (fr.ser, fr.de, fr.ty) = k → kindOf fr = lookupKind k registry := by
    intro k hk'; unfold kindOf; rw [hk']
  have hty : ∀ a b c, (fr.ser, fr.de, fr.ty) = (a, b, c) → fr.ty = c := by
    intro a b c e; exact (Prod.mk.inj (Prod.mk.inj e).2).2
  rcases ht with ht | ht | ht | ht | ht | ht | ht | ht | ht | ht
  · rw [fieldSpecE_modelled E fr fs strCodec h ((hkind _ ht).trans rfl)]
    exact fieldOKP_of_codec _ _ _ hk str_codecOKL
  · rw [fieldSpecE_modelled E fr fs boolCodec h ((hkind _ ht).trans rfl)]
    exact fieldOKP_of_codec _ _ _ hk bool_codecOKL
  · rw [fieldSpecE_modelled E fr fs (natCodec Codec.usizeBound) h ((hkind _ ht).trans rfl)]
    exact fieldOKP_of_codec _ _ _ hk (nat_codecOKL _)
  · rw [fieldSpecE_modelled E fr fs (enumCodec Gen.Enums.priority errPriority) h ((hkind _ ht).trans rfl)]
    exact fieldOKP_of_codec _ _ _ hk priority_codecOKL
  · rw [fieldSpecE_modelled E fr fs wordsCodec h ((hkind _ ht).trans rfl)]
    exact fieldOKP_of_codec _ _ _ hk words_codecOKL
  · rw [fieldSpecE_modelled E fr fs wordsCodec h ((hkind _ ht).trans rfl)]
    exact fieldOKP_of_codec _ _ _ hk words_codecOKL
  · rw [fieldSpecE_modelled E fr fs wordsCodec h ((hkind _ ht).trans rfl)]
    exact fieldOKP_of_codec _ _ _ hk words_codecOKL
  · rw [fieldSpecE_modelled E fr fs splitLinesCodec h ((hkind _ ht).trans rfl)]
    exact fieldOKP_of_codec _ _ _ hk splitLines_codecOKL
  · have he : extOf E fr = some E.relations := by
      unfold extOf; rw [hty _ _ _ ht]; rfl
    rw [fieldSpecE_external E fr fs _ E.relations h ((hkind _ ht).trans rfl) he, hrv.1]
    exact fieldOKP_of_codec _ _ _ hk relations_codecOKL
  · have he : extOf E fr = some E.version := by
      unfold extOf; rw [hty _ _ _ ht]; rfl
    rw [fieldSpecE_external E fr fs _ E.version h ((hkind _ ht).trans rfl) he, hrv.2]
    exact fieldOKP_of_codec _ _ _ hk version_codecOKL

/-- the structural facts of a shipped struct that need no codec assumption -/
theorem shipped_sig (E : ExtCodecs) (id : Str) (spec : Spec) (h : Shipped E id spec) :
    (specKeys spec).Nodup ∧ spec.map fsig = rowSig id
    ∧ (∀ fs ∈ spec, ∃ fr ∈ rowFields id, fieldSpecE E fr = some fs) := by
  obtain ⟨r, hr, hs⟩ := h
  have hmem : r ∈ Gen.Structs.all := List.mem_of_find?_eq_some hr
  obtain ⟨h1, h2⟩ := specOfRowE_spec E r.fields spec hs
  have hk : specKeys spec = r.fields.map (·.key) := by
    rw [keys_of_sig, h1]; simp [rsig]
  refine ⟨by rw [hk]; exact C16.C16_structs_keys_nodup r hmem, ?_, ?_⟩
  · simp only [rowSig, rowFields, hr]; exact h1
  · simp only [rowFields, hr]; exact h2

theorem C20_roundtrip_apt_shipped (E : ExtCodecs) (hrv : ModelledRV E) (id : Str) (hid : id ∈ aptIds) (spec : Spec)
    (hS : Shipped E id spec) (s : Str) (v : SV)
    (h : TypedDoc.parse (.lossyPara spec) s = .ok (.single v)) :
    TypedDoc.parse (.lossyPara spec) (TypedDoc.print (.lossyPara spec) (.single v)) = .ok (.single v) := by
  obtain ⟨n, sig, rows⟩ := shipped_sig E id spec hS
  obtain ⟨t1, t2⟩ := tf_apt id hid
  refine C20_roundtrip_lossyPara spec n ?_ (any_mand spec (by rw [sig]; exact t2)) s v h
  intro fs hfs
  obtain ⟨fr, hfr, hspec⟩ := rows fs hfs
  exact fieldSpecE_okL E hrv fr fs hspec (t1 fr hfr).1 (t1 fr hfr).2

/-- **apt Release, shipped struct**: for EVERY accepted text (values with empty lines, an empty first
    line, a trailing empty line included) the printed value parses to an equal value.  No hypothesis
    beyond "relations and versions are the modelled codecs" (the struct uses neither, nor any of the
    three assumed codecs). -/
theorem C20_roundtrip_release_shipped (E : ExtCodecs) (hrv : ModelledRV E) (spec : Spec)
    (hS : Shipped E (c!"apt.Release") spec) (s : Str) (v : SV)
    (h : TypedDoc.parse (.lossyPara spec) s = .ok (.single v)) :
    TypedDoc.parse (.lossyPara spec) (TypedDoc.print (.lossyPara spec) (.single v)) = .ok (.single v) :=
  C20_roundtrip_apt_shipped E hrv _ (by simp [aptIds]) spec hS s v h

/-- **apt Sources stanza, shipped struct** -/
theorem C20_roundtrip_source_shipped (E : ExtCodecs) (hrv : ModelledRV E) (spec : Spec)
    (hS : Shipped E (c!"apt.Source") spec) (s : Str) (v : SV)
    (h : TypedDoc.parse (.lossyPara spec) s = .ok (.single v)) :
    TypedDoc.parse (.lossyPara spec) (TypedDoc.print (.lossyPara spec) (.single v)) = .ok (.single v) :=
  C20_roundtrip_apt_shipped E hrv _ (by simp [aptIds]) spec hS s v h

/-- **apt Packages stanza, shipped struct** -/
theorem C20_roundtrip_package_shipped (E : ExtCodecs) (hrv : ModelledRV E) (spec : Spec)
    (hS : Shipped E (c!"apt.Package") spec) (s : Str) (v : SV)
    (h : TypedDoc.parse (.lossyPara spec) s = .ok (.single v)) :
    TypedDoc.parse (.lossyPara spec) (TypedDoc.print (.lossyPara spec) (.single v)) = .ok (.single v) :=
  C20_roundtrip_apt_shipped E hrv _ (by simp [aptIds]) spec hS s v h

/-- … and prints identically again -/
theorem C20_second_print_apt (E : ExtCodecs) (hrv : ModelledRV E) (id : Str) (hid : id ∈ aptIds) (spec : Spec)
    (hS : Shipped E id spec) (s : Str) (v : SV)
    (h : TypedDoc.parse (.lossyPara spec) s = .ok (.single v)) :
    ∃ v2, TypedDoc.parse (.lossyPara spec) (TypedDoc.print (.lossyPara spec) (.single v)) = .ok v2
      ∧ v2 = .single v ∧ TypedDoc.print (.lossyPara spec) v2 = TypedDoc.print (.lossyPara spec) (.single v) :=
  ⟨_, C20_roundtrip_apt_shipped E hrv id hid spec hS s v h, rfl, rfl⟩

/-! ### non-vacuity: stanzas outside `CanonD` -/

/-- a Packages stanza whose Description has a whitespace-only continuation line, an indented comment
    line and a trailing whitespace-only line, and whose Tag field is `Name:` + continuation lines -/
def messyPackage : Str :=
  c!"Package: p\nVersion: 01:1.0\nArchitecture: all\nDepends: a(>=1)|b ,, c\nInstalled-Size: +007\nDescription: short\n \n # not part of the value\n long\n \nTag:\n x::y,\n z\n"

def messyVal : SV :=
  match TypedDoc.parse (.lossyPara (spec1 (c!"apt.Package"))) messyPackage with | .ok (.single v) => v | _ => []

theorem messyPackage_parses :
    TypedDoc.parse (.lossyPara (spec1 (c!"apt.Package"))) messyPackage = .ok (.single messyVal) := by decide +kernel

/-- its printed paragraph is NOT in the C08 domain (`C20_stable_lossyPara` does not apply), it is in the
    reader's range, and the value is read back from the printed text -/
example : ¬ CanonD [paraOf (spec1 (c!"apt.Package")) messyVal]
    ∧ valueAt (c!"Description") (spec1 (c!"apt.Package")) messyVal = some (.str (c!"short\n\n\nlong\n"))
    ∧ valueAt (c!"Tag") (spec1 (c!"apt.Package")) messyVal = some (.str (c!"\nx::y,\nz"))
    ∧ valueAt (c!"Installed-Size") (spec1 (c!"apt.Package")) messyVal = some (.nat 7)
    ∧ TypedDoc.print (.lossyPara (spec1 (c!"apt.Package"))) (.single messyVal)
        = c!"Package: p\nVersion: 1:1.0\nArchitecture: all\nInstalled-Size: 7\nDepends: a (>= 1) | b, c\nDescription: short\n \n \n long\n \nTag: \n x::y,\n z\n"
    ∧ TypedDoc.parse (.lossyPara (spec1 (c!"apt.Package")))
        (TypedDoc.print (.lossyPara (spec1 (c!"apt.Package"))) (.single messyVal)) = .ok (.single messyVal) := by
  refine ⟨?_, by decide +kernel, by decide +kernel, by decide +kernel, by decide +kernel,
    C20_roundtrip_package_shipped E1 E1_rv _ (shipped1 _ (by decide +kernel)) messyPackage _ messyPackage_parses⟩
  intro hc
  have : canonDocB [paraOf (spec1 (c!"apt.Package")) messyVal] = false := by decide +kernel
  have h2 := (C08.canonDocB_iff _).2 (by
    intro p hp
    exact ⟨(hc p hp).1, fun f hf => (hc p hp).2 f hf⟩)
  rw [this] at h2; cases h2

example : Shipped E1 (c!"apt.Release") (spec1 (c!"apt.Release")) ∧ Shipped E1 (c!"apt.Source") (spec1 (c!"apt.Source")) :=
  ⟨shipped1 _ (by decide +kernel), shipped1 _ (by decide +kernel)⟩

/-! ## apt sources list: the `Signed-By` key block (hypothesis `hSigned` removed) -/

/-- the spec as the lossless reader sees the printed values: an empty first line is not shown -/
def viewSpec (spec : Spec) : Spec := spec.map fun f => { f with ser := fun y => C08.dropLead (f.ser y) }

theorem fromFields_viewSpec (g : Str → Option Str) (spec : Spec) :
    fromFields g (viewSpec spec) = fromFields g spec := by
  induction spec with
  | nil => rfl
  | cons f fs ih =>
    simp only [viewSpec, List.map_cons, fromFields] at ih ⊢
    rw [ih]
    rfl

theorem toFields_viewSpec (spec : Spec) (v : SV) :
    toFields (viewSpec spec) v = (toFields spec v).map C08.viewF := by
  induction spec generalizing v with
  | nil => cases v <;> rfl
  | cons f fs ih =>
    cases v with
    | nil => rfl
    | cons x xs =>
      cases x with
      | none => simpa [viewSpec, toFields] using ih xs
      | some y =>
        have := ih xs
        simp only [viewSpec, List.map_cons, toFields] at this ⊢
        rw [this]
        rfl

theorem specKeys_viewSpec (spec : Spec) : specKeys (viewSpec spec) = specKeys spec := by
  simp [specKeys, viewSpec, List.map_map, Function.comp_def]

theorem wellFormed_viewSpec (spec : Spec) (v : SV) (h : WellFormed spec v) : WellFormed (viewSpec spec) v := by
  induction spec generalizing v with
  | nil => cases v <;> simpa [viewSpec, WellFormed] using h
  | cons f fs ih =>
    cases v with
    | nil => simp [WellFormed] at h
    | cons x xs =>
      simp only [WellFormed] at h
      simp only [viewSpec, List.map_cons, WellFormed]
      exact ⟨h.1, ih xs h.2⟩

/-- reading back what the lossless reader shows of the printed paragraph -/
theorem from_view (spec : Spec) (v : SV) (hn : (specKeys spec).Nodup) (hw : WellFormed spec v)
    (hc : CodecsRoundTrip (viewSpec spec) v) :
    fromFields (lookupFirst ((paraOf spec v).map C08.viewF)) spec = .ok v := by
  have := from_toFields (viewSpec spec) v ⟨by rw [specKeys_viewSpec]; exact hn, wellFormed_viewSpec spec v hw, hc⟩
  rw [fromFields_viewSpec, toFields_viewSpec] at this
  exact this

theorem reposLoop_ok_view (R : Spec) (l : List SV) (ps : List DNode)
    (hps : ps.map items = l.map fun r => (paraOf R r).map C08.viewF)
    (hg : ∀ r ∈ l, (specKeys R).Nodup ∧ WellFormed R r ∧ CodecsRoundTrip (viewSpec R) r) :
    reposLoop R ps = .ok l := by
  induction l generalizing ps with
  | nil => simp at hps; subst hps; rfl
  | cons r rs ih =>
    cases ps with
    | nil => simp at hps
    | cons p ps' =>
      simp only [List.map_cons, List.cons.injEq] at hps
      obtain ⟨g1, g2, g3⟩ := hg r (by simp)
      have hp : fromLL R p = .ok r := by
        unfold fromLL
        rw [get_eq_lookup, hps.1, from_view R r g1 g2 g3]; rfl
      simp only [reposLoop, hp, ih ps' hps.2 (fun x hx => hg x (by simp [hx]))]

/-- stability for a list of repositories whose printed paragraphs are canonical — values with an empty
    first line (a key block) allowed: the lossless reader shows them without it -/
theorem C20_stable_repos_view (R : Spec) (l : List SV)
    (hg : ∀ r ∈ l, (specKeys R).Nodup ∧ WellFormed R r ∧ CodecsRoundTrip (viewSpec R) r)
    (hc : CanonD (l.map (paraOf R))) :
    TypedDoc.parse (.repos R) (TypedDoc.print (.repos R) (.repos l)) = .ok (.repos l) := by
  obtain ⟨t, ht, hd⟩ := C08.C08_lossless_view (l.map (paraOf R)) (fun p hp => (hc p hp).2)
  rw [(C08.nonEmptyParas_eq_self _).2 (fun p hp => (hc p hp).1)] at hd
  have hps : llParas (Lossy.printDoc (l.map (paraOf R))) = .ok (paragraphs t) := by simp [llParas, ht]
  have hit : (paragraphs t).map items = l.map fun r => (paraOf R r).map C08.viewF := by
    have : docItems t = (paragraphs t).map items := rfl
    rw [← this, hd, List.map_map]; rfl
  simp only [TypedDoc.parse, TypedDoc.print, docOf, parseRepos, hps, reposLoop_ok_view R l _ hit hg]

/- `kSignedBy`, `hashBlock`, `signedHashField` (the trigger of finding F-C20-10, shared with the driver) are
   defined in Props/C20Blank.lean -/

theorem signedHash_false (e : Str × Str) (h : signedHashField e = false) (hk : e.1 = kSignedBy) :
    hashBlock.isPrefixOf e.2 = false := by
  unfold signedHashField at h
  rw [hk] at h
  simpa using h

theorem dropLead_goodText (v : Str) (h : GoodText v) : C08.dropLead v = v := by
  cases v with
  | nil => rfl
  | cons c r =>
    by_cases hc : c = '\n'
    · subst hc
      have := h.2 (by simp [Text.splitOn])
      simp at this
    · simp [C08.dropLead, hc]

theorem goodText_head (t : Str) (hg : GoodText t) : t.head? ≠ some '\n' := by
  intro e
  cases t with
  | nil => simp at e
  | cons c cs =>
    simp only [List.head?_cons, Option.some.injEq] at e
    subst e
    have := hg.2 (by simp [Text.splitOn])
    simp at this

/-- a key block read from good text prints canonically unless its first line starts with `#` -/
theorem canon_block (t : Str) (hg : GoodText t) (hnl : '\n' ∈ t) (hh : t.head? ≠ some '#') :
    CanonLines (Text.splitOn '\n' ('\n' :: t)) := by
  have hs : Text.splitOn '\n' ('\n' :: t) = [] :: Text.splitOn '\n' t := by simp [Text.splitOn]
  rw [hs]
  cases t with
  | nil => simp at hnl
  | cons c cs =>
    have hc : c ≠ '\n' := by
      intro e; exact goodText_head _ hg (by simp [e])
    obtain ⟨a, r, hsp⟩ : ∃ a r, Text.splitOn '\n' (c :: cs) = (c :: a) :: r := by
      simp only [Text.splitOn, hc, ↓reduceIte]
      cases Text.splitOn '\n' cs with
      | nil => exact ⟨[], [], rfl⟩
      | cons l ls => exact ⟨l, ls, rfl⟩
    have hcan := hg.1
    rw [hsp] at hcan ⊢
    refine ⟨by simp, ?_, by intro d hd; simp at hd, ?_⟩
    · intro l hl
      simp only [List.mem_cons] at hl
      rcases hl with rfl | hl
      · intro x hx; simp at hx
      · exact hcan.noNl l (by simpa using hl)
    · intro l hl
      simp only [List.tail_cons, List.mem_cons] at hl
      rcases hl with rfl | hl
      · refine ⟨hcan.noNl _ (by simp), c, a, rfl, hcan.first c (by simp), ?_⟩
        intro e; apply hh; simp [e]
      · exact hcan.tailOk l (by simpa using hl)

/-- one repository paragraph read through the lossless reader: well-formed, re-readable from the lossless
    view of its printed form, printed canonically — provided a key block does not start with `#` -/
theorem fromFields_view (g : Str → Option Str) (spec : Spec) (v : SV)
    (hg : ∀ k t, g k = some t → GoodText t)
    (hs : ∀ f ∈ spec, FieldOKx (fun _ => False) (· = kSignedBy) f)
    (hsig : ∀ f ∈ spec, f.key = kSignedBy → f.ser = sigCodec.ser ∧ f.de = sigCodec.de)
    (h : fromFields g spec = .ok v)
    (hhash : ∀ e ∈ toFields spec v, e.1 = kSignedBy → hashBlock.isPrefixOf e.2 = false) :
    WellFormed spec v ∧ CodecsRoundTrip spec v ∧ CodecsRoundTrip (viewSpec spec) v
    ∧ ∀ e ∈ toFields spec v, ValidKey e.1 ∧ CanonLines (Text.splitOn '\n' e.2) := by
  induction spec generalizing v with
  | nil => simp [fromFields] at h; subst h; simp [WellFormed, CodecsRoundTrip, toFields, viewSpec]
  | cons f fs ih =>
    simp only [fromFields] at h
    cases hr : readField g f with
    | error e => rw [hr] at h; simp at h
    | ok x =>
      rw [hr] at h
      simp only at h
      cases hf : fromFields g fs with
      | error e => rw [hf] at h; simp at h
      | ok xs =>
        rw [hf] at h
        simp only [Except.ok.injEq] at h
        subst h
        have hfo := hs f (by simp)
        unfold readField at hr
        cases hgk : g f.key with
        | none =>
          rw [hgk] at hr
          cases ho : f.optional with
          | false => simp [ho] at hr
          | true =>
            simp [ho] at hr; subst hr
            obtain ⟨i1, i2, i3, i4⟩ := ih xs (fun f' hf' => hs f' (by simp [hf']))
              (fun f' hf' => hsig f' (by simp [hf'])) hf (fun e he => hhash e (by simpa [toFields] using he))
            exact ⟨⟨by simp [ho], i1⟩, i2, by simpa [viewSpec, CodecsRoundTrip] using i3, i4⟩
        | some t =>
          rw [hgk] at hr
          cases hd : f.de t with
          | error e => simp [hd] at hr
          | ok y =>
            simp [hd] at hr; subst hr
            obtain ⟨i1, i2, i3, i4⟩ := ih xs (fun f' hf' => hs f' (by simp [hf']))
              (fun f' hf' => hsig f' (by simp [hf'])) hf
              (fun e he => hhash e (by simp only [toFields, List.mem_cons]; exact Or.inr he))
            have hgt := hg _ _ hgk
            have hst : f.de (f.ser y) = .ok y := hfo.stable (fun x => x) t y hgt hd
            -- the view of the printed value re-reads, and the printed value is canonical
            have hview : f.de (C08.dropLead (f.ser y)) = .ok y ∧ CanonLines (Text.splitOn '\n' (f.ser y)) := by
              by_cases hk : f.key = kSignedBy
              · obtain ⟨hser, hde⟩ := hsig f (by simp) hk
                have hy : y = .sig (Codec.Signature.parse t) := by
                  rw [hde] at hd; exact (Except.ok.inj hd).symm
                by_cases hnl : '\n' ∈ t
                · have hp := (sig_print t).2 hnl (goodText_head t hgt)
                  rw [hser, hy, hp]
                  refine ⟨by simpa [C08.dropLead, ← hy] using hd, canon_block t hgt hnl ?_⟩
                  have := hhash (f.key, f.ser y) (by simp [toFields]) hk
                  rw [hser, hy, hp] at this
                  intro e
                  cases t with
                  | nil => simp at e
                  | cons c cs =>
                    simp only [List.head?_cons, Option.some.injEq] at e
                    subst e
                    simp [hashBlock, List.isPrefixOf] at this
                · have hp := (sig_print t).1 hnl
                  rw [hser, hy, hp, dropLead_goodText t hgt]
                  exact ⟨by rw [← hy]; exact hd, hgt.1⟩
              · have hcg := hfo.canon hk t y hgt hd
                rw [dropLead_goodText _ hcg]
                exact ⟨hst, hcg.1⟩
            refine ⟨⟨by simp, i1⟩, ⟨hst, i2⟩, ?_, ?_⟩
            · simp only [viewSpec, List.map_cons, CodecsRoundTrip]
              exact ⟨hview.1, i3⟩
            · intro e he
              simp only [toFields, List.mem_cons] at he
              rcases he with rfl | he
              · exact ⟨hfo.validKey, hview.2⟩
              · exact i4 e he

/-- **APT sources list, any spec whose `Signed-By` field is the `Signature` codec**: whatever text parsed
    to the list `l` — key blocks included — printing it gives a text that parses to `l` again.  The only
    exception is finding F-C20-10: `hSignedHash` (no printed `Signed-By` value starts with LF `#`) -/
theorem C20_roundtrip_repos_view (R : Spec) (hn : (specKeys R).Nodup)
    (hs : ∀ f ∈ R, FieldOKx (fun _ => False) (· = kSignedBy) f) (hm : ∃ f ∈ R, f.optional = false)
    (hsig : ∀ f ∈ R, f.key = kSignedBy → f.ser = sigCodec.ser ∧ f.de = sigCodec.de)
    (s : Str) (l : List SV) (h : TypedDoc.parse (.repos R) s = .ok (.repos l))
    (hSignedHash : ∀ r ∈ l, ∀ e ∈ paraOf R r, e.1 = kSignedBy → hashBlock.isPrefixOf e.2 = false) :
    TypedDoc.parse (.repos R) (TypedDoc.print (.repos R) (.repos l)) = .ok (.repos l) := by
  simp only [TypedDoc.parse, parseRepos] at h
  cases hp : llParas s with
  | error e => rw [hp] at h; simp at h
  | ok ps =>
    rw [hp] at h
    simp only at h
    cases hr : reposLoop R ps with
    | error e => rw [hr] at h; simp at h
    | ok rs =>
      rw [hr] at h
      simp only [Except.ok.injEq, TV.repos.injEq] at h
      subst h
      have hall := reposLoop_ok_all R ps rs hr
      have hgood := llParas_good s ps hp
      have hvals : ∀ r ∈ rs, WellFormed R r ∧ CodecsRoundTrip R r ∧ CodecsRoundTrip (viewSpec R) r
          ∧ ∀ e ∈ paraOf R r, ValidKey e.1 ∧ CanonLines (Text.splitOn '\n' e.2) := by
        intro r hr'
        obtain ⟨p, hpm, hv⟩ := hall r hr'
        have hff : fromFields (Deb.get p) R = .ok r := by
          unfold fromLL liftMsg at hv
          cases hf : fromFields (Deb.get p) R with
          | ok x => rw [hf] at hv; simp at hv; rw [hv]
          | error e => rw [hf] at hv; simp at hv
        exact fromFields_view _ R r (get_goodText p (hgood p hpm)) hs hsig hff (hSignedHash r hr')
      refine C20_stable_repos_view R rs (fun r hr' => ⟨hn, (hvals r hr').1, (hvals r hr').2.2.1⟩) ?_
      intro q hq
      simp only [List.mem_map] at hq
      obtain ⟨r, hr', rfl⟩ := hq
      exact ⟨paraOf_ne_nil R r ⟨hn, (hvals r hr').1, (hvals r hr').2.1⟩ hm, (hvals r hr').2.2.2⟩

theorem tf_repos_sig : ∀ f ∈ rowFields (c!"aptsources.Repository"), f.key = kSignedBy →
    (f.ser, f.de, f.ty) = (c!"", c!"", c!"Signature") := by decide +kernel

/-- **deb822 sources (`.sources`), shipped struct, `hSigned` removed.**  Hypotheses: `ExtOK` and the
    F-C20-10 exception (a key block does not start with `#`).  A repository with an embedded key block —
    the crate's own documentation example — is now inside the theorem. -/
theorem C20_roundtrip_repos_shipped_keyblock (E : ExtCodecs) (hE : ExtOK E) (R : Spec)
    (hS : Shipped E (c!"aptsources.Repository") R) (s : Str) (l : List SV)
    (h : TypedDoc.parse (.repos R) s = .ok (.repos l))
    (hSignedHash : ∀ r ∈ l, ∀ e ∈ paraOf R r, signedHashField e = false) :
    TypedDoc.parse (.repos R) (TypedDoc.print (.repos R) (.repos l)) = .ok (.repos l) := by
  obtain ⟨n, f, sig, rows⟩ := shipped_facts E hE _ R hS
  obtain ⟨t1, t2⟩ := tf_repos
  have key : ∀ f ∈ R, f.key ∈ (rowSig (c!"aptsources.Repository")).map (·.1) := fun f hf => by
    rw [← sig]; exact key_mem_sig R f hf
  refine C20_roundtrip_repos_view R n ?_ (any_mand R (by rw [sig]; exact t1)) ?_ s l h
    (fun r hr e he hk => signedHash_false e (hSignedHash r hr e he) hk)
  · intro g hg
    exact fieldOKx_mono _ _ _ _ g (f g hg) (fun hx => (t2 _ (key g hg)).1 hx) (fun hx => (t2 _ (key g hg)).2 hx)
  · intro g hg hk
    obtain ⟨fr, hfr, hspec⟩ := rows g hg
    obtain ⟨k1, _⟩ := fieldSpecE_key E fr g hspec
    have htr := tf_repos_sig fr hfr (by rw [← k1]; exact hk)
    have hkind : kindOf fr = some (.modelled sigCodec) := by
      unfold kindOf; rw [htr]; rfl
    rw [fieldSpecE_modelled E fr g sigCodec hspec hkind]
    exact ⟨rfl, rfl⟩

/-- the same under `ExtOK3` (relations and versions modelled) -/
theorem C20_roundtrip_repos_shipped_keyblock_rv (E : ExtCodecs) (hrv : ModelledRV E) (h3 : ExtOK3 E) (R : Spec)
    (hS : Shipped E (c!"aptsources.Repository") R) (s : Str) (l : List SV)
    (h : TypedDoc.parse (.repos R) s = .ok (.repos l))
    (hSignedHash : ∀ r ∈ l, ∀ e ∈ paraOf R r, signedHashField e = false) :
    TypedDoc.parse (.repos R) (TypedDoc.print (.repos R) (.repos l)) = .ok (.repos l) :=
  C20_roundtrip_repos_shipped_keyblock E (C20_extOK_of_rv E hrv h3) R hS s l h hSignedHash

/-! ### the key block inside the theorem, and the witness that `hSignedHash` is needed -/

abbrev reposKind : DocKind := .repos (spec1 (c!"aptsources.Repository"))

/-- a repository with an embedded key block (layout of the crate's documentation example) -/
def keyBlockDoc : Str :=
  c!"Types: deb\nURIs: https://example.org/debian\nSuites: stable\nComponents: main\nArchitectures: amd64\nSigned-By:\n -----BEGIN PGP PUBLIC KEY BLOCK-----\n .\n mQENBF\n -----END PGP PUBLIC KEY BLOCK-----\n"

def keyBlockVal : List SV := match TypedDoc.parse reposKind keyBlockDoc with | .ok (.repos l) => l | _ => []

theorem keyBlockDoc_parses : TypedDoc.parse reposKind keyBlockDoc = .ok (.repos keyBlockVal) := by decide +kernel

/-- accepted, printed with the block on continuation lines, and read back (the old hypothesis `hSigned`
    is FALSE here: the printed `Signed-By` value starts with an empty line) -/
example : keyBlockVal.length = 1
    ∧ ¬ (∀ r ∈ keyBlockVal, ∀ e ∈ paraOf (spec1 (c!"aptsources.Repository")) r, e.1 = c!"Signed-By" → GoodText e.2)
    ∧ TypedDoc.parse reposKind (TypedDoc.print reposKind (.repos keyBlockVal)) = .ok (.repos keyBlockVal) := by
  refine ⟨by decide +kernel, by decide +kernel, ?_⟩
  exact C20_roundtrip_repos_shipped_keyblock_rv E1 E1_rv E1_ok3 _ (shipped1 _ (by decide +kernel)) keyBlockDoc _
    keyBlockDoc_parses (by decide +kernel)

def hashBlockDoc : Str :=
  c!"Types: deb\nURIs: http://a.b/\nSuites: s\nComponents: c\nArchitectures: amd64\nSigned-By: #a\n b\n"

def hashBlockVal : List SV := match TypedDoc.parse reposKind hashBlockDoc with | .ok (.repos l) => l | _ => []

/-- **witness of F-C20-10** (`hSignedHash` cannot be dropped): `Signed-By: #a` + ` b` is accepted as the
    key block `#a\nb`; it prints as `Signed-By:` + ` #a` + ` b`, where ` #a` is a comment line; the printed
    text parses to a DIFFERENT value (the key path `b`) -/
theorem C20_signed_hash_witness :
    TypedDoc.parse reposKind hashBlockDoc = .ok (.repos hashBlockVal)
    ∧ (∀ r ∈ hashBlockVal, valueAt kSignedBy (spec1 (c!"aptsources.Repository")) r
        = some (.sig (.keyBlock (c!"#a\nb"))))
    ∧ TypedDoc.print reposKind (.repos hashBlockVal)
        = c!"Types: deb\nURIs: http://a.b/\nSuites: s\nComponents: c\nArchitectures: amd64\nSigned-By: \n #a\n b\n"
    ∧ (∃ l', TypedDoc.parse reposKind (TypedDoc.print reposKind (.repos hashBlockVal)) = .ok (.repos l')
        ∧ l' ≠ hashBlockVal
        ∧ ∀ r ∈ l', valueAt kSignedBy (spec1 (c!"aptsources.Repository")) r = some (.sig (.keyPath (c!"b"))))
    ∧ ¬ (∀ r ∈ hashBlockVal, ∀ e ∈ paraOf (spec1 (c!"aptsources.Repository")) r, signedHashField e = false) := by
  refine ⟨by decide +kernel, by decide +kernel, by decide +kernel, ?_, by decide +kernel⟩
  refine ⟨match TypedDoc.parse reposKind (TypedDoc.print reposKind (.repos hashBlockVal)) with
    | .ok (.repos l) => l | _ => [], by decide +kernel, by decide +kernel, by decide +kernel⟩

end Deb822Verif.Props.C20Apt
