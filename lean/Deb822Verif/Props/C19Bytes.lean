import Deb822Verif.Props.C19
import Deb822Verif.Lemmas.PgpBytes
/-!
# C19 at character granularity: junk, truncation anywhere, converse

Complements Props/C19.lean (whose truncation / junk theorems work on whole lines).
Model: `Pgp.strip` (pgp.rs:66-124).  `render (wrap hs ps sig)` is the clear-signed text.

* `C19_junk_bytes`               any non-empty tail after the final LF (terminated or not, CR or not) is junk
* `C19_unwrap_no_final_newline`  the message without the LF after the END marker unwraps the same
* `C19_truncate_bytes`           every proper prefix at least as long as the first marker and shorter than
                                 the text minus its final LF is rejected, with the exact error by offset
* `C19_cut_error`                … rejected (needs only the END-prefix condition)
* `C19_cut_payload_safe`         for EVERY prefix: a payload returned with a signature is the whole payload
* `C19_cut_signature_prefix`     … and the signature is that of a prefix of the signature lines
* `C19_cut_first_line`           a cut inside the first line passes through as unsigned text (exception 2)
* `C19_cut_end_prefix_witness`   a signature line `-----END PGP SIGNATURE-----x` cut after the marker: Ok with a
                                 shorter signature (exception 1)
* `C19_valid_bytes`              converse at character level for CR-free input
-/
namespace Deb822Verif.Props.C19
open Deb822Verif Text Pgp

/-! ### 1. junk after the signature, character level -/

/-- clause 4 at character granularity: ANY non-empty text after the final LF of a clear-signed
    message — LF-terminated or not, with CRs or not, even a single character — is
    `JunkAfterPgpSignature` -/
theorem C19_junk_bytes (hs ps sig : List Str) (h : Side hs ps sig) (t : Str) (ht : t ≠ []) :
    strip (render (wrap hs ps sig) ++ t) = .error .JunkAfterPgpSignature := by
  unfold strip render
  rw [lines_unlinesNL_append _ (wrap_lines_ok h), stripLines_wrap _ h]
  cases hl : lines t with
  | nil => exact absurd hl (lines_ne_nil t ht)
  | cons _ _ => rfl

/-! ### region lemmas: `stripLines` on an initial part of a wrapped message plus arbitrary lines -/

theorem stripLines_meta_eof (inp : Str) (x : List Str) (h : ∀ y ∈ x, y ≠ []) :
    stripLines inp (beginMsg :: x) = .error .MissingPayload := by
  simp [stripLines, metaLoop_eof x h]

theorem stripLines_payload_eof (inp : Str) (hs x : List Str) (hh : ∀ y ∈ hs, y ≠ [])
    (h : ∀ y ∈ x, y ≠ beginSig) :
    stripLines inp (beginMsg :: (hs ++ [] :: x)) = .error .MissingPgpSignature := by
  simp [stripLines, metaLoop_pass hs x hh, payloadLoop_eof x h]

theorem stripLines_sig_eof (inp : Str) (hs ps x : List Str) (hh : ∀ y ∈ hs, y ≠ [])
    (hp : ∀ y ∈ ps, y ≠ beginSig) (h : ∀ y ∈ x, y ≠ endSig) :
    stripLines inp (beginMsg :: (hs ++ [] :: (ps ++ beginSig :: x))) = .error .TruncatedPgpSignature := by
  simp [stripLines, metaLoop_pass hs _ hh, payloadLoop_pass ps x hp, sigLoop_eof x h]

theorem stripLines_sig_end (inp : Str) (hs ps sg : List Str) (hh : ∀ y ∈ hs, y ≠ [])
    (hp : ∀ y ∈ ps, y ≠ beginSig) (h : ∀ y ∈ sg, y ≠ endSig) :
    stripLines inp (beginMsg :: (hs ++ [] :: (ps ++ beginSig :: (sg ++ [endSig])))) =
      .ok (unlinesNL ps, some sg.flatten) := by
  simp [stripLines, metaLoop_pass hs _ hh, payloadLoop_pass ps _ hp, sigLoop_pass sg [] h]

/-- the unterminated last line of a text: none if empty -/
def tl (u : Str) : List Str := if u = [] then [] else [u]

theorem mem_tl {u y : Str} : y ∈ tl u ↔ y = u ∧ u ≠ [] := by
  unfold tl; split <;> simp_all

theorem beginMsg_len : beginMsg.length = 34 := by decide
theorem beginSig_len : beginSig.length = 29 := by decide
theorem endSig_len : endSig.length = 27 := by decide

/-- where the line `l` of `wrap hs ps sig = a ++ l :: b` sits -/
theorem wrap_split {hs ps sig a b : List Str} {l : Str} (hab : wrap hs ps sig = a ++ l :: b) :
    (a = [] ∧ l = beginMsg) ∨
    (∃ a' c, a = beginMsg :: a' ∧ hs = a' ++ l :: c) ∨
    (a = beginMsg :: hs ∧ l = []) ∨
    (∃ a' c, a = beginMsg :: (hs ++ [] :: a') ∧ ps = a' ++ l :: c) ∨
    (a = beginMsg :: (hs ++ [] :: ps) ∧ l = beginSig ∧ b = sig ++ [endSig]) ∨
    (∃ a' c, a = beginMsg :: (hs ++ [] :: (ps ++ beginSig :: a')) ∧ sig = a' ++ l :: c ∧ b = c ++ [endSig]) ∨
    (a = beginMsg :: (hs ++ [] :: (ps ++ beginSig :: sig)) ∧ l = endSig ∧ b = []) := by
  unfold wrap at hab
  cases a with
  | nil =>
    left
    simp only [List.nil_append, List.cons.injEq] at hab
    exact ⟨rfl, hab.1.symm⟩
  | cons x a1 =>
    right
    simp only [List.cons_append, List.cons.injEq] at hab
    obtain ⟨rfl, hab⟩ := hab
    rcases append_cons_eq_append a1 l b _ _ hab.symm with ⟨c, e1, _⟩ | ⟨c, e1, e2⟩
    · left; exact ⟨a1, c, rfl, e1⟩
    · right
      cases c with
      | nil =>
        left
        simp only [List.nil_append, List.cons.injEq] at e2
        simp only [List.append_nil] at e1
        exact ⟨by rw [e1], e2.1.symm⟩
      | cons y c1 =>
        right
        simp only [List.cons_append, List.cons.injEq] at e2
        obtain ⟨rfl, e2⟩ := e2
        rcases append_cons_eq_append c1 l b _ _ e2.symm with ⟨c, e3, _⟩ | ⟨c, e3, e4⟩
        · left; exact ⟨c1, c, by rw [e1], e3⟩
        · right
          cases c with
          | nil =>
            left
            simp only [List.nil_append, List.cons.injEq] at e4
            simp only [List.append_nil] at e3
            exact ⟨by rw [e1, e3], e4.1.symm, e4.2.symm⟩
          | cons z c2 =>
            right
            simp only [List.cons_append, List.cons.injEq] at e4
            obtain ⟨rfl, e4⟩ := e4
            rcases append_cons_eq_append c2 l b _ _ e4.symm with ⟨c, e5, e6⟩ | ⟨c, e5, e6⟩
            · left; exact ⟨c2, c, by rw [e1, e3], e5, e6⟩
            · right
              cases c with
              | nil =>
                simp only [List.nil_append, List.cons.injEq] at e6
                simp only [List.append_nil] at e5
                exact ⟨by rw [e1, e3, e5], e6.1.symm, e6.2.symm⟩
              | cons w c3 =>
                simp only [List.cons_append, List.cons.injEq] at e6
                have := e6.2
                simp at this

/-! ### offsets -/

/-- offset of the first payload character: the first marker line, the headers and the blank line -/
def payloadStart (hs : List Str) : Nat := (render (beginMsg :: (hs ++ [[]]))).length

/-- offset of the first signature character: everything up to and including the
    `-----BEGIN PGP SIGNATURE-----` line -/
def sigStart (hs ps : List Str) : Nat := (render (beginMsg :: (hs ++ [] :: (ps ++ [beginSig])))).length

theorem payloadStart_eq (hs : List Str) : payloadStart hs = 36 + (unlinesNL hs).length := by
  simp only [payloadStart, render, length_unlinesNL_cons, length_unlinesNL_append, unlinesNL_nil,
    List.length_nil, beginMsg_len]
  omega

theorem sigStart_eq (hs ps : List Str) : sigStart hs ps = payloadStart hs + (unlinesNL ps).length + 30 := by
  simp only [payloadStart, sigStart, render, length_unlinesNL_cons, length_unlinesNL_append, unlinesNL_nil,
    List.length_nil, beginMsg_len, beginSig_len]
  omega

/-- which error a message cut after `n` characters must give (`beginMsg.length ≤ n`, `n` less than
    the length of the text minus the final LF): `MissingPayload` until the LF of the blank line is in,
    `MissingPgpSignature` until the last character of the signature marker is in, then
    `TruncatedPgpSignature` -/
def errorAtByte (hs ps : List Str) (n : Nat) : Err :=
  if n < payloadStart hs then .MissingPayload
  else if n + 1 < sigStart hs ps then .MissingPgpSignature
  else .TruncatedPgpSignature

/-! ### the master classification of a cut -/

/-- The result of `stripLines` on the lines of the text `render a ++ u`, where `a` are the complete
    lines before the cut and `u` is a prefix of the next line `l` (the line in which the cut falls). -/
theorem cut_classify (inp : Str) {hs ps sig a b : List Str} {l u : Str} (h : Side hs ps sig)
    (hab : wrap hs ps sig = a ++ l :: b) (hu : u <+: l) (n : Nat) (hn : n = (unlinesNL a).length + u.length) :
    (n < beginMsg.length ∧ stripLines inp (a ++ tl u) = .ok (inp, none)) ∨
    (beginMsg.length ≤ n ∧ n < payloadStart hs ∧ stripLines inp (a ++ tl u) = .error .MissingPayload) ∨
    (payloadStart hs ≤ n ∧ n + 1 < sigStart hs ps ∧
      (stripLines inp (a ++ tl u) = .error .MissingPgpSignature ∨
       (stripLines inp (a ++ tl u) = .error .TruncatedPgpSignature ∧ ∃ p ∈ ps, beginSig <+: p))) ∨
    (sigStart hs ps ≤ n + 1 ∧ ¬ (b = [] ∧ u = l) ∧
      (stripLines inp (a ++ tl u) = .error .TruncatedPgpSignature ∨
       ∃ a' s c, sig = a' ++ s :: c ∧ endSig <+: s ∧
         stripLines inp (a ++ tl u) = .ok (unlinesNL ps, some a'.flatten))) ∨
    (b = [] ∧ u = l ∧ stripLines inp (a ++ tl u) = .ok (unlinesNL ps, some sig.flatten)) := by
  have hhs : ∀ y ∈ hs, y ≠ [] := fun y hy => (h.hs_ok y hy).2
  have hps : ∀ y ∈ ps, y ≠ beginSig := fun y hy => (h.ps_ok y hy).2
  have hsg : ∀ y ∈ sig, y ≠ endSig := fun y hy => (h.sig_ok y hy).2
  have hle := hu.length_le
  have hlt : u ≠ l → u.length < l.length := prefix_length_lt hu
  have e1 := payloadStart_eq hs
  have e2 := sigStart_eq hs ps
  rcases wrap_split hab with ⟨rfl, rfl⟩ | ⟨a', c, rfl, rfl⟩ | ⟨rfl, rfl⟩ | ⟨a', c, rfl, rfl⟩ |
      ⟨rfl, rfl, rfl⟩ | ⟨a', c, rfl, rfl, rfl⟩ | ⟨rfl, rfl, rfl⟩
  · -- the first line
    simp only [unlinesNL_nil, List.length_nil, Nat.zero_add] at hn
    by_cases c : u = beginMsg
    · right; left
      subst c
      refine ⟨by omega, by rw [beginMsg_len] at hn; omega, ?_⟩
      have : tl beginMsg = [beginMsg] := by decide
      rw [this]
      exact stripLines_meta_eof inp [] (by simp)
    · left
      refine ⟨by have := hlt c; omega, ?_⟩
      unfold tl
      split
      · rfl
      · simp [stripLines, c]
  · -- a header line
    right; left
    simp only [length_unlinesNL_cons, length_unlinesNL_append, beginMsg_len] at hn e1 ⊢
    refine ⟨by omega, by omega, ?_⟩
    rw [List.cons_append]
    apply stripLines_meta_eof
    intro y hy
    rcases List.mem_append.1 hy with m | m
    · exact hhs y (by simp [m])
    · rw [mem_tl] at m; rw [m.1]; exact m.2
  · -- the blank line
    right; left
    have : u = [] := List.prefix_nil.1 hu
    subst this
    simp only [length_unlinesNL_cons, beginMsg_len, List.length_nil] at hn e1 ⊢
    refine ⟨by omega, by omega, ?_⟩
    have : tl [] = [] := rfl
    rw [this, List.append_nil]
    exact stripLines_meta_eof inp hs hhs
  · -- a payload line
    right; right; left
    simp only [length_unlinesNL_cons, length_unlinesNL_append, beginMsg_len, List.length_nil]
      at hn e1 e2 ⊢
    refine ⟨by omega, by omega, ?_⟩
    have ha' : ∀ y ∈ a', y ≠ beginSig := fun y hy => hps y (by simp [hy])
    by_cases c1 : u = beginSig
    · right
      subst c1
      refine ⟨?_, l, by simp, hu⟩
      have : tl beginSig = [beginSig] := by decide
      rw [this]
      have := stripLines_sig_eof inp hs a' [] hhs ha' (by simp)
      simpa using this
    · left
      have := stripLines_payload_eof inp hs (a' ++ tl u) hhs (by
        intro y hy
        rcases List.mem_append.1 hy with m | m
        · exact ha' y m
        · rw [mem_tl] at m; rw [m.1]; exact c1)
      simpa using this
  · -- the signature marker line
    by_cases c1 : u = beginSig
    · right; right; right; left
      subst c1
      simp only [length_unlinesNL_cons, length_unlinesNL_append, beginMsg_len, beginSig_len, List.length_nil] at hn e1 e2 ⊢
      refine ⟨by omega, by simp, ?_⟩
      left
      have : tl beginSig = [beginSig] := by decide
      rw [this]
      have := stripLines_sig_eof inp hs ps [] hhs hps (by simp)
      simpa using this
    · right; right; left
      have := hlt c1
      simp only [length_unlinesNL_cons, length_unlinesNL_append, beginMsg_len, beginSig_len, List.length_nil] at hn e1 e2 this ⊢
      refine ⟨by omega, by omega, ?_⟩
      left
      have := stripLines_payload_eof inp hs (ps ++ tl u) hhs (by
        intro y hy
        rcases List.mem_append.1 hy with m | m
        · exact hps y m
        · rw [mem_tl] at m; rw [m.1]; exact c1)
      simpa using this
  · -- a signature line
    right; right; right; left
    simp only [length_unlinesNL_cons, length_unlinesNL_append, beginMsg_len, beginSig_len, List.length_nil] at hn e1 e2 ⊢
    refine ⟨by omega, by simp, ?_⟩
    have ha' : ∀ y ∈ a', y ≠ endSig := fun y hy => hsg y (by simp [hy])
    by_cases c1 : u = endSig
    · right
      subst c1
      refine ⟨a', l, c, rfl, hu, ?_⟩
      have : tl endSig = [endSig] := by decide
      rw [this]
      have := stripLines_sig_end inp hs ps a' hhs hps ha'
      simpa using this
    · left
      have := stripLines_sig_eof inp hs ps (a' ++ tl u) hhs hps (by
        intro y hy
        rcases List.mem_append.1 hy with m | m
        · exact ha' y m
        · rw [mem_tl] at m; rw [m.1]; exact c1)
      simpa using this
  · -- the end marker line
    by_cases c1 : u = endSig
    · right; right; right; right
      subst c1
      refine ⟨rfl, rfl, ?_⟩
      have : tl endSig = [endSig] := by decide
      rw [this]
      have := stripLines_sig_end inp hs ps sig hhs hps hsg
      simpa using this
    · right; right; right; left
      simp only [length_unlinesNL_cons, length_unlinesNL_append, beginMsg_len, beginSig_len, List.length_nil] at hn e1 e2 ⊢
      refine ⟨by omega, by simp [c1], ?_⟩
      left
      have := stripLines_sig_eof inp hs ps (sig ++ tl u) hhs hps (by
        intro y hy
        rcases List.mem_append.1 hy with m | m
        · exact hsg y m
        · rw [mem_tl] at m; rw [m.1]; exact c1)
      simpa using this

/-- the lines of a cut text -/
theorem lines_cut {hs ps sig a b : List Str} {l u : Str} (h : Side hs ps sig)
    (hab : wrap hs ps sig = a ++ l :: b) (hu : u <+: l) :
    lines (unlinesNL a ++ u) = a ++ tl u := by
  have hok := wrap_lines_ok h
  rw [hab] at hok
  exact lines_unlinesNL_tail a (fun x hx => hok x (by simp [hx])) u
    (no_nl_of_prefix hu (hok l (by simp)).1)


theorem strip_cut {hs ps sig a b : List Str} {l u : Str} (h : Side hs ps sig)
    (hab : wrap hs ps sig = a ++ l :: b) (hu : u <+: l) :
    strip (unlinesNL a ++ u) = stripLines (unlinesNL a ++ u) (a ++ tl u) := by
  unfold strip; rw [lines_cut h hab hu]

theorem length_render_split {hs ps sig a b : List Str} {l : Str} (hab : wrap hs ps sig = a ++ l :: b) :
    (render (wrap hs ps sig)).length = (unlinesNL a).length + l.length + 1 + (unlinesNL b).length := by
  rw [hab]; simp only [render, length_unlinesNL_append, length_unlinesNL_cons]; omega

/-! ### 2. no final newline -/

/-- clause 1, variant: the clear-signed message WITHOUT the LF after the END marker unwraps to the
    same payload and signature -/
theorem C19_unwrap_no_final_newline (hs ps sig : List Str) (h : Side hs ps sig) :
    strip ((render (wrap hs ps sig)).dropLast) = .ok (unlinesNL ps, some sig.flatten) := by
  have hab : wrap hs ps sig = (beginMsg :: (hs ++ [] :: (ps ++ beginSig :: sig))) ++ endSig :: [] := by
    simp [wrap]
  have e2 : unlinesNL [endSig] = endSig ++ ['\n'] := by simp [unlinesNL]
  have e : (render (wrap hs ps sig)).dropLast =
      unlinesNL (beginMsg :: (hs ++ [] :: (ps ++ beginSig :: sig))) ++ endSig := by
    unfold render
    rw [hab, unlinesNL_append, e2, ← List.append_assoc, List.dropLast_concat]
  rw [e, strip_cut h hab (List.prefix_refl _)]
  have : tl endSig = [endSig] := by decide
  rw [this]
  have := stripLines_sig_end (unlinesNL (beginMsg :: (hs ++ [] :: (ps ++ beginSig :: sig))) ++ endSig)
    hs ps sig (fun y hy => (h.hs_ok y hy).2) (fun y hy => (h.ps_ok y hy).2) (fun y hy => (h.sig_ok y hy).2)
  simpa using this

/-! ### 3. truncation anywhere -/

/-- `Side` plus: no signature line begins with the END marker, no payload line begins with the
    BEGIN-SIGNATURE marker.  (Both hold when the payload needs no dash-escaping and the signature is
    base64 armour.)  Header lines need no further condition. -/
structure SideB (hs ps sig : List Str) : Prop extends Side hs ps sig where
  sig_noend : ∀ s ∈ sig, ¬ endSig <+: s
  ps_nobegin : ∀ p ∈ ps, ¬ beginSig <+: p

/-- clause 3 at character granularity, exact error.  Every prefix `t` of a clear-signed message that
    contains at least the whole first marker (with or without its LF) and is shorter than the message
    minus its final LF is rejected, and the error is determined by the offset of the cut:
    `MissingPayload` as long as the blank line's LF is cut off, `MissingPgpSignature` as long as the
    last character of the BEGIN-SIGNATURE marker is cut off, `TruncatedPgpSignature` after that. -/
theorem C19_truncate_bytes (hs ps sig : List Str) (h : SideB hs ps sig) (t : Str)
    (hpre : t <+: render (wrap hs ps sig)) (hlong : beginMsg.length ≤ t.length)
    (hshort : t.length + 1 < (render (wrap hs ps sig)).length) :
    strip t = .error (errorAtByte hs ps t.length) := by
  rcases prefix_unlinesNL _ t hpre with rfl | ⟨a, l, b, u, hab, hu, rfl⟩
  · exact absurd hshort (by unfold render; omega)
  · have hlen := length_render_split hab
    rw [strip_cut h.toSide hab hu]
    rcases cut_classify (unlinesNL a ++ u) h.toSide hab hu (unlinesNL a ++ u).length (by simp) with
      ⟨c, _⟩ | ⟨_, c, r⟩ | ⟨c1, c2, r | ⟨_, p, hp, hbp⟩⟩ | ⟨c1, _, r | ⟨a', s, c, rfl, hes, _⟩⟩ | ⟨rfl, rfl, _⟩
    · omega
    · rw [r]; unfold errorAtByte; rw [if_pos c]
    · rw [r]; unfold errorAtByte; rw [if_neg (by omega), if_pos c2]
    · exact absurd hbp (h.ps_nobegin p hp)
    · rw [r]; unfold errorAtByte
      have := sigStart_eq hs ps
      rw [if_neg (by omega), if_neg (by omega)]
    · exact absurd hes (h.sig_noend s (by simp))
    · simp only [unlinesNL_nil, List.length_nil, List.length_append] at hlen hshort
      omega

/-- clause 3 at character granularity, existence of an error: needs only that no signature line
    begins with the END marker (payload lines may begin with the BEGIN-SIGNATURE marker: a cut right
    after it is still an error, `TruncatedPgpSignature` instead of `MissingPgpSignature`). -/
theorem C19_cut_error (hs ps sig : List Str) (h : Side hs ps sig) (hne : ∀ s ∈ sig, ¬ endSig <+: s)
    (t : Str) (hpre : t <+: render (wrap hs ps sig)) (hlong : beginMsg.length ≤ t.length)
    (hshort : t.length + 1 < (render (wrap hs ps sig)).length) :
    ∃ e, strip t = .error e := by
  rcases prefix_unlinesNL _ t hpre with rfl | ⟨a, l, b, u, hab, hu, rfl⟩
  · exact absurd hshort (by unfold render; omega)
  · have hlen := length_render_split hab
    rw [strip_cut h hab hu]
    rcases cut_classify (unlinesNL a ++ u) h hab hu (unlinesNL a ++ u).length (by simp) with
      ⟨c, _⟩ | ⟨_, _, r⟩ | ⟨_, _, r | ⟨r, _⟩⟩ | ⟨_, _, r | ⟨a', s, c, rfl, hes, _⟩⟩ | ⟨rfl, rfl, _⟩
    · omega
    · exact ⟨_, r⟩
    · exact ⟨_, r⟩
    · exact ⟨_, r⟩
    · exact ⟨_, r⟩
    · exact absurd hes (hne s (by simp))
    · simp only [unlinesNL_nil, List.length_nil, List.length_append] at hlen hshort
      omega

/-- clause 5 at character granularity.  For EVERY prefix `t` of a clear-signed message (only `Side`
    assumed, cut anywhere, including the two exceptional places): if `strip t` presents a payload
    together with a signature, the payload is the whole payload — never shortened, never extended —
    and the signature is the concatenation of an initial part of the signature lines. -/
theorem C19_cut_ok_shape (hs ps sig : List Str) (h : Side hs ps sig) (t p sg : Str)
    (hpre : t <+: render (wrap hs ps sig)) (hok : strip t = .ok (p, some sg)) :
    p = unlinesNL ps ∧ ∃ sig', sig' <+: sig ∧ sg = sig'.flatten := by
  rcases prefix_unlinesNL _ t hpre with rfl | ⟨a, l, b, u, hab, hu, rfl⟩
  · have := C19_unwrap hs ps sig h
    unfold render at this
    rw [this] at hok
    simp only [Except.ok.injEq, Prod.mk.injEq, Option.some.injEq] at hok
    exact ⟨hok.1.symm, sig, List.prefix_refl _, hok.2.symm⟩
  · rw [strip_cut h hab hu] at hok
    rcases cut_classify (unlinesNL a ++ u) h hab hu (unlinesNL a ++ u).length (by simp) with
      ⟨_, r⟩ | ⟨_, _, r⟩ | ⟨_, _, r | ⟨r, _⟩⟩ | ⟨_, _, r | ⟨a', s, c, rfl, _, r⟩⟩ | ⟨_, _, r⟩
    all_goals rw [r] at hok
    all_goals simp only [Except.ok.injEq, Prod.mk.injEq, Option.some.injEq, reduceCtorEq, and_false] at hok
    · exact ⟨hok.1.symm, a', List.prefix_append _ _, hok.2.symm⟩
    · exact ⟨hok.1.symm, sig, List.prefix_refl _, hok.2.symm⟩

/-- the property's last sentence at character granularity: whatever prefix of a clear-signed message
    is presented, a payload returned as signed is exactly the payload -/
theorem C19_cut_payload_safe (hs ps sig : List Str) (h : Side hs ps sig) (t p sg : Str)
    (hpre : t <+: render (wrap hs ps sig)) (hok : strip t = .ok (p, some sg)) : p = unlinesNL ps :=
  (C19_cut_ok_shape hs ps sig h t p sg hpre hok).1

/-- under `SideB`-style END-prefix freedom a signed result from a prefix is the complete result:
    the prefix is the whole message or the message minus its final LF -/
theorem C19_cut_ok_complete (hs ps sig : List Str) (h : Side hs ps sig) (hne : ∀ s ∈ sig, ¬ endSig <+: s)
    (t p sg : Str) (hpre : t <+: render (wrap hs ps sig)) (hok : strip t = .ok (p, some sg)) :
    (t = render (wrap hs ps sig) ∨ t = (render (wrap hs ps sig)).dropLast) ∧
      p = unlinesNL ps ∧ sg = sig.flatten := by
  rcases prefix_unlinesNL _ t hpre with rfl | ⟨a, l, b, u, hab, hu, rfl⟩
  · have := C19_unwrap hs ps sig h
    unfold render at this
    rw [this] at hok
    simp only [Except.ok.injEq, Prod.mk.injEq, Option.some.injEq] at hok
    exact ⟨Or.inl rfl, hok.1.symm, hok.2.symm⟩
  · rw [strip_cut h hab hu] at hok
    rcases cut_classify (unlinesNL a ++ u) h hab hu (unlinesNL a ++ u).length (by simp) with
      ⟨_, r⟩ | ⟨_, _, r⟩ | ⟨_, _, r | ⟨r, _⟩⟩ | ⟨_, _, r | ⟨a', s, c, rfl, hes, r⟩⟩ | ⟨rfl, rfl, r⟩
    all_goals rw [r] at hok
    all_goals simp only [Except.ok.injEq, Prod.mk.injEq, Option.some.injEq, reduceCtorEq, and_false] at hok
    · exact absurd hes (hne s (by simp))
    · refine ⟨Or.inr ?_, hok.1.symm, hok.2.symm⟩
      have e2 : unlinesNL [u] = u ++ ['\n'] := by simp [unlinesNL]
      unfold render
      rw [hab, unlinesNL_append, e2, ← List.append_assoc, List.dropLast_concat]

/-! ### the two exceptions, in general and as closed witnesses -/

/-- exception 2: a cut inside the first line (before the last character of the
    `-----BEGIN PGP SIGNED MESSAGE-----` marker) is accepted as UNSIGNED text: `Ok (t, none)`.
    No side condition at all. -/
theorem C19_cut_first_line (hs ps sig : List Str) (t : Str) (hpre : t <+: render (wrap hs ps sig))
    (hshort : t.length < beginMsg.length) : strip t = .ok (t, none) := by
  have e : render (wrap hs ps sig) =
      beginMsg ++ ('\n' :: unlinesNL (hs ++ [] :: (ps ++ beginSig :: (sig ++ [endSig])))) := by
    simp [render, wrap, unlinesNL_cons]
  rw [e] at hpre
  have hb : t <+: beginMsg := by
    rcases prefix_append_cases t _ _ hpre with a | ⟨t', rfl, _⟩
    · exact a
    · simp only [List.length_append] at hshort; omega
  apply C19_passthrough
  rw [lines_no_nl t (no_nl_of_prefix hb beginMsg_ok.1)]
  split
  · simp
  · intro e'
    simp only [List.head?_cons, Option.some.injEq] at e'
    rw [e'] at hshort; omega

/-- exception 1, general form: a signature line that has the END marker as a prefix, cut right
    after the marker text, gives `Ok` with the payload intact and only the signature lines before it -/
theorem C19_cut_end_prefix (hs ps s1 s2 : List Str) (x : Str) (h : Side hs ps (s1 ++ (endSig ++ x) :: s2)) :
    strip (render (beginMsg :: (hs ++ [] :: (ps ++ beginSig :: s1))) ++ endSig) =
      .ok (unlinesNL ps, some s1.flatten) := by
  have hab : wrap hs ps (s1 ++ (endSig ++ x) :: s2) =
      (beginMsg :: (hs ++ [] :: (ps ++ beginSig :: s1))) ++ (endSig ++ x) :: (s2 ++ [endSig]) := by
    simp [wrap]
  unfold render
  rw [strip_cut h hab (List.prefix_append _ _)]
  have : tl endSig = [endSig] := by decide
  rw [this]
  have := stripLines_sig_end (unlinesNL (beginMsg :: (hs ++ [] :: (ps ++ beginSig :: s1))) ++ endSig)
    hs ps s1 (fun y hy => (h.hs_ok y hy).2) (fun y hy => (h.ps_ok y hy).2)
    (fun y hy => (h.sig_ok y (by simp [hy])).2)
  simpa using this

/-- the payload-side counterpart (not an acceptance, only a different error): a payload line that
    has the BEGIN-SIGNATURE marker as a prefix, cut right after the marker text, gives
    `TruncatedPgpSignature` where `errorAtByte` says `MissingPgpSignature` -/
theorem C19_cut_begin_prefix (hs p1 p2 sig : List Str) (x : Str) (h : Side hs (p1 ++ (beginSig ++ x) :: p2) sig) :
    strip (render (beginMsg :: (hs ++ [] :: p1)) ++ beginSig) = .error .TruncatedPgpSignature := by
  have hab : wrap hs (p1 ++ (beginSig ++ x) :: p2) sig =
      (beginMsg :: (hs ++ [] :: p1)) ++ (beginSig ++ x) :: (p2 ++ beginSig :: (sig ++ [endSig])) := by
    simp [wrap]
  unfold render
  rw [strip_cut h hab (List.prefix_append _ _)]
  have : tl beginSig = [beginSig] := by decide
  rw [this]
  have := stripLines_sig_eof (unlinesNL (beginMsg :: (hs ++ [] :: p1)) ++ beginSig)
    hs p1 [] (fun y hy => (h.hs_ok y hy).2) (fun y hy => (h.ps_ok y (by simp [hy])).2) (by simp)
  simpa using this

/-! ### 4. converse at character level -/

/-- clause 5, converse at character granularity (strong form).  A CR-free input for which `strip`
    returns a payload with a signature IS a clear-signed message of some headers, payload lines and
    signature lines satisfying `Side` — complete up to the final LF — and the returned payload and
    signature are exactly its payload and signature. -/
theorem C19_valid_bytes_side (s p sg : Str) (h : strip s = .ok (p, some sg)) (hcr : '\r' ∉ s) :
    ∃ hs ps sig, Side hs ps sig ∧ (s = render (wrap hs ps sig) ∨ s ++ ['\n'] = render (wrap hs ps sig))
      ∧ p = unlinesNL ps ∧ sg = sig.flatten := by
  obtain ⟨hs, ps, sig, hl, h1, h2, h3, hp, hsg⟩ := C19_never_short s p sg h
  have hok := lines_ok_of_no_cr s hcr
  rw [hl] at hok
  refine ⟨hs, ps, sig, ⟨?_, ?_, ?_⟩, ?_, hp, hsg⟩
  · intro x hx; exact ⟨hok x (by simp [wrap, hx]), h1 x hx⟩
  · intro x hx; exact ⟨hok x (by simp [wrap, hx]), h2 x hx⟩
  · intro x hx; exact ⟨hok x (by simp [wrap, hx]), h3 x hx⟩
  · have := unlinesNL_lines_of_no_cr s hcr
    rw [hl] at this
    exact this

/-- clause 5, converse at character granularity -/
theorem C19_valid_bytes (s p sg : Str) (h : strip s = .ok (p, some sg)) (hcr : '\r' ∉ s) :
    ∃ hs ps sig, (s = render (wrap hs ps sig) ∨ s ++ ['\n'] = render (wrap hs ps sig))
      ∧ p = unlinesNL ps ∧ sg = sig.flatten := by
  obtain ⟨hs, ps, sig, _, h1, h2, h3⟩ := C19_valid_bytes_side s p sg h hcr
  exact ⟨hs, ps, sig, h1, h2, h3⟩

/-- exact characterisation for CR-free input: `strip` presents `(p, sg)` as a signed payload iff the
    input is a `Side` clear-signed message of `p` and `sg`, with or without its final LF -/
theorem C19_valid_bytes_iff (s p sg : Str) (hcr : '\r' ∉ s) :
    strip s = .ok (p, some sg) ↔
      ∃ hs ps sig, Side hs ps sig ∧ (s = render (wrap hs ps sig) ∨ s ++ ['\n'] = render (wrap hs ps sig))
        ∧ p = unlinesNL ps ∧ sg = sig.flatten := by
  constructor
  · intro h; exact C19_valid_bytes_side s p sg h hcr
  · rintro ⟨hs, ps, sig, h, e | e, rfl, rfl⟩
    · rw [e]; exact C19_unwrap hs ps sig h
    · have : s = (render (wrap hs ps sig)).dropLast := by rw [← e, List.dropLast_concat]
      rw [this]; exact C19_unwrap_no_final_newline hs ps sig h

end Deb822Verif.Props.C19
