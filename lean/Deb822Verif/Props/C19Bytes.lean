import Deb822Verif.Props.C19
import Deb822Verif.Lemmas.PgpBytes
/-!
# C19 at character granularity: junk, truncation anywhere, converse

Complements Props/C19.lean (whose truncation / junk theorems work on whole lines).
Model: `Pgp.strip` (pgp.rs:66-124).  `render (wrap hs ps sig)` is the clear-signed text.

* `C19_junk_bytes`               any non-empty tail after the final LF (terminated or not, CR or not) is junk
* `C19_unwrap_no_final_newline`  the message without the LF after the END marker unwraps the same
* `C19_truncate_bytes`           every proper prefix at least as long as the first marker and shorter than
                                 the text minus its final LF is rejected, with the exact error by offset
* `C19_truncate_in_line`         the same by the line in which the cut falls (`errorAt` of Props/C19.lean);
                                 `errorAtByte_eq_errorAt`: the two rules agree
* `C19_cut_error`                … rejected (needs only the END-prefix condition)
* `C19_cut_payload_safe`         for EVERY prefix: a payload returned with a signature is the whole payload
* `C19_cut_ok_shape`             … and the signature is that of an initial part of the signature lines
* `C19_cut_ok_complete`          … and, without END-prefixed signature lines, the prefix is the whole message
                                 or the message minus its final LF
* `C19_cut_first_line`           a cut inside the first line passes through as unsigned text (exception 2)
* `C19_cut_end_prefix(_witness)` a signature line `-----END PGP SIGNATURE-----x` cut after the marker: Ok with a
                                 shorter signature (exception 1)
* `C19_cut_begin_prefix(_witness)` a payload line `-----BEGIN PGP SIGNATURE-----y` cut after the marker: still an
                                 error, but `TruncatedPgpSignature` instead of `MissingPgpSignature`
* `C19_valid_bytes(_side,_iff)`  converse at character level for CR-free input, and the exact characterisation
-/
namespace Deb822Verif.Props.C19
open Deb822Verif Text Pgp

/-! ### 1. junk after the signature, character level -/

/-- clause 4 at character granularity: ANY non-empty text after the final LF of a clear-signed
    message — LF-terminated or not, with CRs or not, even a single character — is
    `JunkAfterPgpSignature` -/
theorem C19_junk_bytes (hs ps sig : List Str) (h : Side hs ps sig) (t : Str) (ht : t ≠ []) :
    strip (render (wrap hs ps sig) ++ t) = .error .JunkAfterPgpSignature := by
  unfold strip render
  rw [lines_unlinesNL_append _ (wrap_lines_ok h), stripLines_wrap _ h]
  cases hl : lines t with
  | nil => exact absurd hl (lines_ne_nil t ht)
  | cons _ _ => rfl

/-! ### region lemmas: `stripLines` on an initial part of a wrapped message plus arbitrary lines -/

theorem stripLines_meta_eof (inp : Str) (x : List Str) (h : ∀ y ∈ x, y ≠ []) :
    stripLines inp (beginMsg :: x) = .error .MissingPayload := by
  simp [stripLines, metaLoop_eof x h]

theorem stripLines_payload_eof (inp : Str) (hs x : List Str) (hh : ∀ y ∈ hs, y ≠ [])
    (h : ∀ y ∈ x, y ≠ beginSig) :
    stripLines inp (beginMsg :: (hs ++ [] :: x)) = .error .MissingPgpSignature := by
  simp [stripLines, metaLoop_pass hs x hh, payloadLoop_eof x h]

theorem stripLines_sig_eof (inp : Str) (hs ps x : List Str) (hh : ∀ y ∈ hs, y ≠ [])
    (hp : ∀ y ∈ ps, y ≠ beginSig) (h : ∀ y ∈ x, y ≠ endSig) :
    stripLines inp (beginMsg :: (hs ++ [] :: (ps ++ beginSig :: x))) = .error .TruncatedPgpSignature := by
  simp [stripLines, metaLoop_pass hs _ hh, payloadLoop_pass ps x hp, sigLoop_eof x h]

theorem stripLines_sig_end (inp : Str) (hs ps sg : List Str) (hh : ∀ y ∈ hs, y ≠ [])
    (hp : ∀ y ∈ ps, y ≠ beginSig) (h : ∀ y ∈ sg, y ≠ endSig) :
    stripLines inp (beginMsg :: (hs ++ [] :: (ps ++ beginSig :: (sg ++ [endSig])))) =
      .ok (unlinesNL ps, some sg.flatten) := by
  simp [stripLines, metaLoop_pass hs _ hh, payloadLoop_pass ps _ hp, sigLoop_pass sg [] h]

/-- the unterminated last line of a text: none if empty -/
def tl (u : Str) : List Str := if u = [] then [] else [u]

theorem mem_tl {u y : Str} : y ∈ tl u ↔ y = u ∧ u ≠ [] := by
  unfold tl; split <;> simp_all

theorem beginMsg_len : beginMsg.length = 34 := by decide
theorem beginSig_len : beginSig.length = 29 := by decide
theorem endSig_len : endSig.length = 27 := by decide

/-- where the line `l` of `wrap hs ps sig = a ++ l :: b` sits -/
theorem wrap_split {hs ps sig a b : List Str} {l : Str} (hab : wrap hs ps sig = a ++ l :: b) :
    (a = [] ∧ l = beginMsg) ∨
    (∃ a' c, a = beginMsg :: a' ∧ hs = a' ++ l :: c) ∨
    (a = beginMsg :: hs ∧ l = []) ∨
    (∃ a' c, a = beginMsg :: (hs ++ [] :: a') ∧ ps = a' ++ l :: c) ∨
    (a = beginMsg :: (hs ++ [] :: ps) ∧ l = beginSig ∧ b = sig ++ [endSig]) ∨
    (∃ a' c, a = beginMsg :: (hs ++ [] :: (ps ++ beginSig :: a')) ∧ sig = a' ++ l :: c ∧ b = c ++ [endSig]) ∨
    (a = beginMsg :: (hs ++ [] :: (ps ++ beginSig :: sig)) ∧ l = endSig ∧ b = []) := by
  unfold wrap at hab
  cases a with
  | nil =>
    left
    simp only [List.nil_append, List.cons.injEq] at hab
    exact ⟨rfl, hab.1.symm⟩
  | cons x a1 =>
    right
    simp only [List.cons_append, List.cons.injEq] at hab
    obtain ⟨rfl, hab⟩ := hab
    rcases append_cons_eq_append a1 l b _ _ hab.symm with ⟨c, e1, _⟩ | ⟨c, e1, e2⟩
    · left; exact ⟨a1, c, rfl, e1⟩
    · right
      cases c with
      | nil =>
        left
        simp only [List.nil_append, List.cons.injEq] at e2
        simp only [List.append_nil] at e1
        exact ⟨by rw [e1], e2.1.symm⟩
      | cons y c1 =>
        right
        simp only [List.cons_append, List.cons.injEq] at e2
        obtain ⟨rfl, e2⟩ := e2
        rcases append_cons_eq_append c1 l b _ _ e2.symm with ⟨c, e3, _⟩ | ⟨c, e3, e4⟩
        · left; exact ⟨c1, c, by rw [e1], e3⟩
        · right
          cases c with
          | nil =>
            left
            simp only [List.nil_append, List.cons.injEq] at e4
            simp only [List.append_nil] at e3
            exact ⟨by rw [e1, e3], e4.1.symm, e4.2.symm⟩
          | cons z c2 =>
            right
            simp only [List.cons_append, List.cons.injEq] at e4
            obtain ⟨rfl, e4⟩ := e4
            rcases append_cons_eq_append c2 l b _ _ e4.symm with ⟨c, e5, e6⟩ | ⟨c, e5, e6⟩
            · left; exact ⟨c2, c, by rw [e1, e3], e5, e6⟩
            · right
              cases c with
              | nil =>
                simp only [List.nil_append, List.cons.injEq] at e6
                simp only [List.append_nil] at e5
                exact ⟨by rw [e1, e3, e5], e6.1.symm, e6.2.symm⟩
              | cons w c3 =>
                simp only [List.cons_append, List.cons.injEq] at e6
                have := e6.2
                simp at this

/-! ### offsets -/

/-- offset of the first payload character: the first marker line, the headers and the blank line -/
def payloadStart (hs : List Str) : Nat := (render (beginMsg :: (hs ++ [[]]))).length

/-- offset of the first signature character: everything up to and including the
    `-----BEGIN PGP SIGNATURE-----` line -/
def sigStart (hs ps : List Str) : Nat := (render (beginMsg :: (hs ++ [] :: (ps ++ [beginSig])))).length

theorem payloadStart_eq (hs : List Str) : payloadStart hs = 36 + (unlinesNL hs).length := by
  simp only [payloadStart, render, length_unlinesNL_cons, length_unlinesNL_append, unlinesNL_nil,
    List.length_nil, beginMsg_len]
  omega

theorem sigStart_eq (hs ps : List Str) : sigStart hs ps = payloadStart hs + (unlinesNL ps).length + 30 := by
  simp only [payloadStart, sigStart, render, length_unlinesNL_cons, length_unlinesNL_append, unlinesNL_nil,
    List.length_nil, beginMsg_len, beginSig_len]
  omega

/-- which error a message cut after `n` characters must give (`beginMsg.length ≤ n`, `n` less than
    the length of the text minus the final LF): `MissingPayload` until the LF of the blank line is in,
    `MissingPgpSignature` until the last character of the signature marker is in, then
    `TruncatedPgpSignature` -/
def errorAtByte (hs ps : List Str) (n : Nat) : Err :=
  if n < payloadStart hs then .MissingPayload
  else if n + 1 < sigStart hs ps then .MissingPgpSignature
  else .TruncatedPgpSignature

/-! ### the master classification of a cut -/

/-- The result of `stripLines` on the lines of the text `render a ++ u`, where `a` are the complete
    lines before the cut and `u` is a prefix of the next line `l` (the line in which the cut falls). -/
theorem cut_classify (inp : Str) {hs ps sig a b : List Str} {l u : Str} (h : Side hs ps sig)
    (hab : wrap hs ps sig = a ++ l :: b) (hu : u <+: l) (n : Nat) (hn : n = (unlinesNL a).length + u.length) :
    (n < beginMsg.length ∧ stripLines inp (a ++ tl u) = .ok (inp, none)) ∨
    (beginMsg.length ≤ n ∧ n < payloadStart hs ∧ stripLines inp (a ++ tl u) = .error .MissingPayload) ∨
    (payloadStart hs ≤ n ∧ n + 1 < sigStart hs ps ∧
      (stripLines inp (a ++ tl u) = .error .MissingPgpSignature ∨
       (stripLines inp (a ++ tl u) = .error .TruncatedPgpSignature ∧ ∃ p ∈ ps, beginSig <+: p))) ∨
    (sigStart hs ps ≤ n + 1 ∧ ¬ (b = [] ∧ u = l) ∧
      (stripLines inp (a ++ tl u) = .error .TruncatedPgpSignature ∨
       ∃ a' s c, sig = a' ++ s :: c ∧ endSig <+: s ∧
         stripLines inp (a ++ tl u) = .ok (unlinesNL ps, some a'.flatten))) ∨
    (b = [] ∧ u = l ∧ stripLines inp (a ++ tl u) = .ok (unlinesNL ps, some sig.flatten)) := by
  have hhs : ∀ y ∈ hs, y ≠ [] := fun y hy => (h.hs_ok y hy).2
  have hps : ∀ y ∈ ps, y ≠ beginSig := fun y hy => (h.ps_ok y hy).2
  have hsg : ∀ y ∈ sig, y ≠ endSig := fun y hy => (h.sig_ok y hy).2
  have hle := hu.length_le
  have hlt : u ≠ l → u.length < l.length := prefix_length_lt hu
  have e1 := payloadStart_eq hs
  have e2 := sigStart_eq hs ps
  rcases wrap_split hab with ⟨rfl, rfl⟩ | ⟨a', c, rfl, rfl⟩ | ⟨rfl, rfl⟩ | ⟨a', c, rfl, rfl⟩ |
      ⟨rfl, rfl, rfl⟩ | ⟨a', c, rfl, rfl, rfl⟩ | ⟨rfl, rfl, rfl⟩
  · -- the first line
    simp only [unlinesNL_nil, List.length_nil, Nat.zero_add] at hn
    by_cases c : u = beginMsg
    · right; left
      subst c
      refine ⟨by omega, by rw [beginMsg_len] at hn; omega, ?_⟩
      have : tl beginMsg = [beginMsg] := by decide
      rw [this]
      exact stripLines_meta_eof inp [] (by simp)
    · left
      refine ⟨by have := hlt c; omega, ?_⟩
      unfold tl
      split
      · rfl
      · simp [stripLines, c]
  · -- a header line
    right; left
    simp only [length_unlinesNL_cons, length_unlinesNL_append, beginMsg_len] at hn e1 ⊢
    refine ⟨by omega, by omega, ?_⟩
    rw [List.cons_append]
    apply stripLines_meta_eof
    intro y hy
    rcases List.mem_append.1 hy with m | m
    · exact hhs y (by simp [m])
    · rw [mem_tl] at m; rw [m.1]; exact m.2
  · -- the blank line
    right; left
    have : u = [] := List.prefix_nil.1 hu
    subst this
    simp only [length_unlinesNL_cons, beginMsg_len, List.length_nil] at hn e1 ⊢
    refine ⟨by omega, by omega, ?_⟩
    have : tl [] = [] := rfl
    rw [this, List.append_nil]
    exact stripLines_meta_eof inp hs hhs
  · -- a payload line
    right; right; left
    simp only [length_unlinesNL_cons, length_unlinesNL_append, beginMsg_len, List.length_nil]
      at hn e1 e2 ⊢
    refine ⟨by omega, by omega, ?_⟩
    have ha' : ∀ y ∈ a', y ≠ beginSig := fun y hy => hps y (by simp [hy])
    by_cases c1 : u = beginSig
    · right
      subst c1
      refine ⟨?_, l, by simp, hu⟩
      have : tl beginSig = [beginSig] := by decide
      rw [this]
      have := stripLines_sig_eof inp hs a' [] hhs ha' (by simp)
      simpa using this
    · left
      have := stripLines_payload_eof inp hs (a' ++ tl u) hhs (by
        intro y hy
        rcases List.mem_append.1 hy with m | m
        · exact ha' y m
        · rw [mem_tl] at m; rw [m.1]; exact c1)
      simpa using this
  · -- the signature marker line
    by_cases c1 : u = beginSig
    · right; right; right; left
      subst c1
      simp only [length_unlinesNL_cons, length_unlinesNL_append, beginMsg_len, beginSig_len, List.length_nil] at hn e1 e2 ⊢
      refine ⟨by omega, by simp, ?_⟩
      left
      have : tl beginSig = [beginSig] := by decide
      rw [this]
      have := stripLines_sig_eof inp hs ps [] hhs hps (by simp)
      simpa using this
    · right; right; left
      have := hlt c1
      simp only [length_unlinesNL_cons, length_unlinesNL_append, beginMsg_len, beginSig_len, List.length_nil] at hn e1 e2 this ⊢
      refine ⟨by omega, by omega, ?_⟩
      left
      have := stripLines_payload_eof inp hs (ps ++ tl u) hhs (by
        intro y hy
        rcases List.mem_append.1 hy with m | m
        · exact hps y m
        · rw [mem_tl] at m; rw [m.1]; exact c1)
      simpa using this
  · -- a signature line
    right; right; right; left
    simp only [length_unlinesNL_cons, length_unlinesNL_append, beginMsg_len, beginSig_len, List.length_nil] at hn e1 e2 ⊢
    refine ⟨by omega, by simp, ?_⟩
    have ha' : ∀ y ∈ a', y ≠ endSig := fun y hy => hsg y (by simp [hy])
    by_cases c1 : u = endSig
    · right
      subst c1
      refine ⟨a', l, c, rfl, hu, ?_⟩
      have : tl endSig = [endSig] := by decide
      rw [this]
      have := stripLines_sig_end inp hs ps a' hhs hps ha'
      simpa using this
    · left
      have := stripLines_sig_eof inp hs ps (a' ++ tl u) hhs hps (by
        intro y hy
        rcases List.mem_append.1 hy with m | m
        · exact ha' y m
        · rw [mem_tl] at m; rw [m.1]; exact c1)
      simpa using this
  · -- the end marker line
    by_cases c1 : u = endSig
    · right; right; right; right
      subst c1
      refine ⟨rfl, rfl, ?_⟩
      have : tl endSig = [endSig] := by decide
      rw [this]
      have := stripLines_sig_end inp hs ps sig hhs hps hsg
      simpa using this
    · right; right; right; left
      simp only [length_unlinesNL_cons, length_unlinesNL_append, beginMsg_len, beginSig_len, List.length_nil] at hn e1 e2 ⊢
      refine ⟨by omega, by simp [c1], ?_⟩
      left
      have := stripLines_sig_eof inp hs ps (sig ++ tl u) hhs hps (by
        intro y hy
        rcases List.mem_append.1 hy with m | m
        · exact hsg y m
        · rw [mem_tl] at m; rw [m.1]; exact c1)
      simpa using this

/-- the lines of a cut text -/
theorem lines_cut {hs ps sig a b : List Str} {l u : Str} (h : Side hs ps sig)
    (hab : wrap hs ps sig = a ++ l :: b) (hu : u <+: l) :
    lines (unlinesNL a ++ u) = a ++ tl u := by
  have hok := wrap_lines_ok h
  rw [hab] at hok
  exact lines_unlinesNL_tail a (fun x hx => hok x (by simp [hx])) u
    (no_nl_of_prefix hu (hok l (by simp)).1)


theorem strip_cut {hs ps sig a b : List Str} {l u : Str} (h : Side hs ps sig)
    (hab : wrap hs ps sig = a ++ l :: b) (hu : u <+: l) :
    strip (unlinesNL a ++ u) = stripLines (unlinesNL a ++ u) (a ++ tl u) := by
  unfold strip; rw [lines_cut h hab hu]

theorem length_render_split {hs ps sig a b : List Str} {l : Str} (hab : wrap hs ps sig = a ++ l :: b) :
    (render (wrap hs ps sig)).length = (unlinesNL a).length + l.length + 1 + (unlinesNL b).length := by
  rw [hab]; simp only [render, length_unlinesNL_append, length_unlinesNL_cons]; omega

/-! ### 2. no final newline -/

/-- clause 1, variant: the clear-signed message WITHOUT the LF after the END marker unwraps to the
    same payload and signature -/
theorem C19_unwrap_no_final_newline (hs ps sig : List Str) (h : Side hs ps sig) :
    strip ((render (wrap hs ps sig)).dropLast) = .ok (unlinesNL ps, some sig.flatten) := by
  have hab : wrap hs ps sig = (beginMsg :: (hs ++ [] :: (ps ++ beginSig :: sig))) ++ endSig :: [] := by
    simp [wrap]
  have e2 : unlinesNL [endSig] = endSig ++ ['\n'] := by simp [unlinesNL]
  have e : (render (wrap hs ps sig)).dropLast =
      unlinesNL (beginMsg :: (hs ++ [] :: (ps ++ beginSig :: sig))) ++ endSig := by
    unfold render
    rw [hab, unlinesNL_append, e2, ← List.append_assoc, List.dropLast_concat]
  rw [e, strip_cut h hab (List.prefix_refl _)]
  have : tl endSig = [endSig] := by decide
  rw [this]
  have := stripLines_sig_end (unlinesNL (beginMsg :: (hs ++ [] :: (ps ++ beginSig :: sig))) ++ endSig)
    hs ps sig (fun y hy => (h.hs_ok y hy).2) (fun y hy => (h.ps_ok y hy).2) (fun y hy => (h.sig_ok y hy).2)
  simpa using this

/-! ### 3. truncation anywhere -/

/-- `Side` plus: no signature line begins with the END marker, no payload line begins with the
    BEGIN-SIGNATURE marker.  (Both hold when the payload needs no dash-escaping and the signature is
    base64 armour.)  Header lines need no further condition. -/
structure SideB (hs ps sig : List Str) : Prop extends Side hs ps sig where
  sig_noend : ∀ s ∈ sig, ¬ endSig <+: s
  ps_nobegin : ∀ p ∈ ps, ¬ beginSig <+: p

/-- clause 3 at character granularity, exact error.  Every prefix `t` of a clear-signed message that
    contains at least the whole first marker (with or without its LF) and is shorter than the message
    minus its final LF is rejected, and the error is determined by the offset of the cut:
    `MissingPayload` as long as the blank line's LF is cut off, `MissingPgpSignature` as long as the
    last character of the BEGIN-SIGNATURE marker is cut off, `TruncatedPgpSignature` after that. -/
theorem C19_truncate_bytes (hs ps sig : List Str) (h : SideB hs ps sig) (t : Str)
    (hpre : t <+: render (wrap hs ps sig)) (hlong : beginMsg.length ≤ t.length)
    (hshort : t.length + 1 < (render (wrap hs ps sig)).length) :
    strip t = .error (errorAtByte hs ps t.length) := by
  rcases prefix_unlinesNL _ t hpre with rfl | ⟨a, l, b, u, hab, hu, rfl⟩
  · exact absurd hshort (by unfold render; omega)
  · have hlen := length_render_split hab
    rw [strip_cut h.toSide hab hu]
    rcases cut_classify (unlinesNL a ++ u) h.toSide hab hu (unlinesNL a ++ u).length (by simp) with
      ⟨c, _⟩ | ⟨_, c, r⟩ | ⟨c1, c2, r | ⟨_, p, hp, hbp⟩⟩ | ⟨c1, _, r | ⟨a', s, c, rfl, hes, _⟩⟩ | ⟨rfl, rfl, _⟩
    · omega
    · rw [r]; unfold errorAtByte; rw [if_pos c]
    · rw [r]; unfold errorAtByte; rw [if_neg (by omega), if_pos c2]
    · exact absurd hbp (h.ps_nobegin p hp)
    · rw [r]; unfold errorAtByte
      have := sigStart_eq hs ps
      rw [if_neg (by omega), if_neg (by omega)]
    · exact absurd hes (h.sig_noend s (by simp))
    · simp only [unlinesNL_nil, List.length_nil, List.length_append] at hlen hshort
      omega

/-- clause 3 at character granularity, existence of an error: needs only that no signature line
    begins with the END marker (payload lines may begin with the BEGIN-SIGNATURE marker: a cut right
    after it is still an error, `TruncatedPgpSignature` instead of `MissingPgpSignature`). -/
theorem C19_cut_error (hs ps sig : List Str) (h : Side hs ps sig) (hne : ∀ s ∈ sig, ¬ endSig <+: s)
    (t : Str) (hpre : t <+: render (wrap hs ps sig)) (hlong : beginMsg.length ≤ t.length)
    (hshort : t.length + 1 < (render (wrap hs ps sig)).length) :
    ∃ e, strip t = .error e := by
  rcases prefix_unlinesNL _ t hpre with rfl | ⟨a, l, b, u, hab, hu, rfl⟩
  · exact absurd hshort (by unfold render; omega)
  · have hlen := length_render_split hab
    rw [strip_cut h hab hu]
    rcases cut_classify (unlinesNL a ++ u) h hab hu (unlinesNL a ++ u).length (by simp) with
      ⟨c, _⟩ | ⟨_, _, r⟩ | ⟨_, _, r | ⟨r, _⟩⟩ | ⟨_, _, r | ⟨a', s, c, rfl, hes, _⟩⟩ | ⟨rfl, rfl, _⟩
    · omega
    · exact ⟨_, r⟩
    · exact ⟨_, r⟩
    · exact ⟨_, r⟩
    · exact ⟨_, r⟩
    · exact absurd hes (hne s (by simp))
    · simp only [unlinesNL_nil, List.length_nil, List.length_append] at hlen hshort
      omega

/-- clause 5 at character granularity.  For EVERY prefix `t` of a clear-signed message (only `Side`
    assumed, cut anywhere, including the two exceptional places): if `strip t` presents a payload
    together with a signature, the payload is the whole payload — never shortened, never extended —
    and the signature is the concatenation of an initial part of the signature lines. -/
theorem C19_cut_ok_shape (hs ps sig : List Str) (h : Side hs ps sig) (t p sg : Str)
    (hpre : t <+: render (wrap hs ps sig)) (hok : strip t = .ok (p, some sg)) :
    p = unlinesNL ps ∧ ∃ sig', sig' <+: sig ∧ sg = sig'.flatten := by
  rcases prefix_unlinesNL _ t hpre with rfl | ⟨a, l, b, u, hab, hu, rfl⟩
  · have := C19_unwrap hs ps sig h
    unfold render at this
    rw [this] at hok
    simp only [Except.ok.injEq, Prod.mk.injEq, Option.some.injEq] at hok
    exact ⟨hok.1.symm, sig, List.prefix_refl _, hok.2.symm⟩
  · rw [strip_cut h hab hu] at hok
    rcases cut_classify (unlinesNL a ++ u) h hab hu (unlinesNL a ++ u).length (by simp) with
      ⟨_, r⟩ | ⟨_, _, r⟩ | ⟨_, _, r | ⟨r, _⟩⟩ | ⟨_, _, r | ⟨a', s, c, rfl, _, r⟩⟩ | ⟨_, _, r⟩
    all_goals rw [r] at hok
    all_goals simp only [Except.ok.injEq, Prod.mk.injEq, Option.some.injEq, reduceCtorEq, and_false] at hok
    · exact ⟨hok.1.symm, a', List.prefix_append _ _, hok.2.symm⟩
    · exact ⟨hok.1.symm, sig, List.prefix_refl _, hok.2.symm⟩

/-- the property's last sentence at character granularity: whatever prefix of a clear-signed message
    is presented, a payload returned as signed is exactly the payload -/
theorem C19_cut_payload_safe (hs ps sig : List Str) (h : Side hs ps sig) (t p sg : Str)
    (hpre : t <+: render (wrap hs ps sig)) (hok : strip t = .ok (p, some sg)) : p = unlinesNL ps :=
  (C19_cut_ok_shape hs ps sig h t p sg hpre hok).1

/-- under `SideB`-style END-prefix freedom a signed result from a prefix is the complete result:
    the prefix is the whole message or the message minus its final LF -/
theorem C19_cut_ok_complete (hs ps sig : List Str) (h : Side hs ps sig) (hne : ∀ s ∈ sig, ¬ endSig <+: s)
    (t p sg : Str) (hpre : t <+: render (wrap hs ps sig)) (hok : strip t = .ok (p, some sg)) :
    (t = render (wrap hs ps sig) ∨ t = (render (wrap hs ps sig)).dropLast) ∧
      p = unlinesNL ps ∧ sg = sig.flatten := by
  rcases prefix_unlinesNL _ t hpre with rfl | ⟨a, l, b, u, hab, hu, rfl⟩
  · have := C19_unwrap hs ps sig h
    unfold render at this
    rw [this] at hok
    simp only [Except.ok.injEq, Prod.mk.injEq, Option.some.injEq] at hok
    exact ⟨Or.inl rfl, hok.1.symm, hok.2.symm⟩
  · rw [strip_cut h hab hu] at hok
    rcases cut_classify (unlinesNL a ++ u) h hab hu (unlinesNL a ++ u).length (by simp) with
      ⟨_, r⟩ | ⟨_, _, r⟩ | ⟨_, _, r | ⟨r, _⟩⟩ | ⟨_, _, r | ⟨a', s, c, rfl, hes, r⟩⟩ | ⟨rfl, rfl, r⟩
    all_goals rw [r] at hok
    all_goals simp only [Except.ok.injEq, Prod.mk.injEq, Option.some.injEq, reduceCtorEq, and_false] at hok
    · exact absurd hes (hne s (by simp))
    · refine ⟨Or.inr ?_, hok.1.symm, hok.2.symm⟩
      have e2 : unlinesNL [u] = u ++ ['\n'] := by simp [unlinesNL]
      unfold render
      rw [hab, unlinesNL_append, e2, ← List.append_assoc, List.dropLast_concat]

/-! ### the same, by the line in which the cut falls (`errorAt` of Props/C19.lean) -/

theorem errorAt_mp (hs ps : List Str) (k : Nat) (h : k ≤ 1 + hs.length) : errorAt hs ps k = .MissingPayload := by
  unfold errorAt; rw [if_pos h]
theorem errorAt_ms (hs ps : List Str) (k : Nat) (h1 : 1 + hs.length < k) (h2 : k ≤ 2 + hs.length + ps.length) :
    errorAt hs ps k = .MissingPgpSignature := by
  unfold errorAt; rw [if_neg (by omega), if_pos h2]
theorem errorAt_tr (hs ps : List Str) (k : Nat) (h : 2 + hs.length + ps.length < k) :
    errorAt hs ps k = .TruncatedPgpSignature := by
  unfold errorAt; rw [if_neg (by omega), if_neg (by omega)]
theorem errorAtByte_mp (hs ps : List Str) (n : Nat) (h : n < payloadStart hs) :
    errorAtByte hs ps n = .MissingPayload := by
  unfold errorAtByte; rw [if_pos h]
theorem errorAtByte_ms (hs ps : List Str) (n : Nat) (h1 : payloadStart hs ≤ n) (h2 : n + 1 < sigStart hs ps) :
    errorAtByte hs ps n = .MissingPgpSignature := by
  unfold errorAtByte; rw [if_neg (by omega), if_pos h2]
theorem errorAtByte_tr (hs ps : List Str) (n : Nat) (h : sigStart hs ps ≤ n + 1) :
    errorAtByte hs ps n = .TruncatedPgpSignature := by
  have := sigStart_eq hs ps
  unfold errorAtByte; rw [if_neg (by omega), if_neg (by omega)]

/-- the number of lines of the message whose text is completely present in `render a ++ u`
    (`u` a prefix of the next line `l`): the LF of the last one may be missing, except that an empty
    line only counts with its LF -/
def linesPresent (a : List Str) (l u : Str) : Nat := if u = l ∧ l ≠ [] then a.length + 1 else a.length

local macro "lomega" : tactic =>
  `(tactic| ((try simp only [List.length_append, List.length_cons, List.length_nil]); omega))

/-- the offset rule `errorAtByte` and the line rule `errorAt` agree (pure arithmetic, no side
    condition): for a cut in line `l` after the complete lines `a`, keeping the prefix `u` of `l` -/
theorem errorAtByte_eq_errorAt {hs ps sig a b : List Str} {l u : Str}
    (hab : wrap hs ps sig = a ++ l :: b) (hu : u <+: l) (hfirst : a = [] → u = l) :
    errorAtByte hs ps ((unlinesNL a).length + u.length) = errorAt hs ps (linesPresent a l u) := by
  have hle := hu.length_le
  have hlt : u ≠ l → u.length < l.length := prefix_length_lt hu
  have e1 := payloadStart_eq hs
  have e2 := sigStart_eq hs ps
  have hk : (u = l ∧ l ≠ [] → linesPresent a l u = a.length + 1) ∧
      (¬ (u = l ∧ l ≠ []) → linesPresent a l u = a.length) := by
    unfold linesPresent; constructor <;> intro c
    · rw [if_pos c]
    · rw [if_neg c]
  have hk' : a.length ≤ linesPresent a l u ∧ linesPresent a l u ≤ a.length + 1 := by
    unfold linesPresent; split <;> omega
  rcases wrap_split hab with ⟨rfl, rfl⟩ | ⟨a', c, rfl, rfl⟩ | ⟨rfl, rfl⟩ | ⟨a', c, rfl, rfl⟩ |
      ⟨rfl, rfl, rfl⟩ | ⟨a', c, rfl, rfl, rfl⟩ | ⟨rfl, rfl, rfl⟩
  · have := hfirst rfl
    subst this
    simp only [unlinesNL_nil, List.length_nil, Nat.zero_add, beginMsg_len] at *
    rw [errorAtByte_mp _ _ _ (by lomega), errorAt_mp _ _ _ (by lomega)]
  · simp only [length_unlinesNL_cons, length_unlinesNL_append, beginMsg_len, List.length_cons] at *
    rw [errorAtByte_mp _ _ _ (by lomega), errorAt_mp _ _ _ (by lomega)]
  · have : u = [] := List.prefix_nil.1 hu
    subst this
    have := hk.2 (by simp)
    simp only [length_unlinesNL_cons, beginMsg_len, List.length_cons, List.length_nil] at *
    rw [errorAtByte_mp _ _ _ (by lomega), errorAt_mp _ _ _ (by lomega)]
  · simp only [length_unlinesNL_cons, length_unlinesNL_append, beginMsg_len, List.length_cons,
      List.length_append, List.length_nil] at *
    rw [errorAtByte_ms _ _ _ (by lomega) (by lomega), errorAt_ms _ _ _ (by lomega) (by lomega)]
  · by_cases c1 : u = beginSig
    · have := hk.1 ⟨c1, by decide⟩
      subst c1
      simp only [length_unlinesNL_cons, length_unlinesNL_append, beginMsg_len, beginSig_len, List.length_cons,
        List.length_append, List.length_nil] at *
      rw [errorAtByte_tr _ _ _ (by lomega), errorAt_tr _ _ _ (by lomega)]
    · have := hk.2 (by simp [c1])
      have := hlt c1
      simp only [length_unlinesNL_cons, length_unlinesNL_append, beginMsg_len, beginSig_len, List.length_cons,
        List.length_append, List.length_nil] at *
      rw [errorAtByte_ms _ _ _ (by lomega) (by lomega), errorAt_ms _ _ _ (by lomega) (by lomega)]
  · simp only [length_unlinesNL_cons, length_unlinesNL_append, beginMsg_len, beginSig_len, List.length_cons,
      List.length_append, List.length_nil] at *
    rw [errorAtByte_tr _ _ _ (by lomega), errorAt_tr _ _ _ (by lomega)]
  · simp only [length_unlinesNL_cons, length_unlinesNL_append, beginMsg_len, beginSig_len, List.length_cons,
      List.length_append, List.length_nil] at *
    rw [errorAtByte_tr _ _ _ (by lomega), errorAt_tr _ _ _ (by lomega)]

/-- clause 3 at character granularity, by the line in which the cut falls.  Cut the message inside
    (or at either end of the text of) the line `l` that follows the complete lines `a`, keeping the
    prefix `u` of `l`: unless the cut is inside the first marker (`a = []`, `u ≠ l`) or only the final
    LF is missing (`b = []`, `u = l`), the result is the error `errorAt` gives for the number of lines
    whose text is completely present.  For `u = []` this is `C19_truncate`. -/
theorem C19_truncate_in_line (hs ps sig : List Str) (h : SideB hs ps sig) (a b : List Str) (l u : Str)
    (hab : wrap hs ps sig = a ++ l :: b) (hu : u <+: l) (hfirst : a = [] → u = l) (hlast : b = [] → u ≠ l) :
    strip (render a ++ u) = .error (errorAt hs ps (linesPresent a l u)) := by
  have hlen := length_render_split hab
  have hpre : render a ++ u <+: render (wrap hs ps sig) := by
    obtain ⟨v, rfl⟩ := hu
    unfold render
    rw [hab, unlinesNL_append, unlinesNL_cons]
    exact ⟨v ++ '\n' :: unlinesNL b, by simp⟩
  have hlong : beginMsg.length ≤ (render a ++ u).length := by
    cases a with
    | nil =>
      have := hfirst rfl
      subst this
      rcases wrap_split hab with ⟨_, rfl⟩ | ⟨_, _, e, _⟩ | ⟨e, _⟩ | ⟨_, _, e, _⟩ | ⟨e, _⟩ | ⟨_, _, e, _⟩ | ⟨e, _⟩
      · simp
      all_goals exact absurd e (by simp)
    | cons x xs =>
      have : x = beginMsg := by
        unfold wrap at hab
        simp only [List.cons_append, List.cons.injEq] at hab
        exact hab.1.symm
      subst this
      simp only [render, List.length_append, length_unlinesNL_cons]
      omega
  have hshort : (render a ++ u).length + 1 < (render (wrap hs ps sig)).length := by
    rw [hlen]
    simp only [render, List.length_append]
    by_cases c : u = l
    · have hb : b ≠ [] := fun e => hlast e c
      cases b with
      | nil => exact absurd rfl hb
      | cons y ys => rw [length_unlinesNL_cons, c]; omega
    · have := prefix_length_lt hu c
      omega
  rw [C19_truncate_bytes hs ps sig h _ hpre hlong hshort]
  have := errorAtByte_eq_errorAt hab hu hfirst
  simp only [render, List.length_append] at this ⊢
  rw [this]

/-! ### the two exceptions, in general and as closed witnesses -/

/-- exception 2: a cut inside the first line (before the last character of the
    `-----BEGIN PGP SIGNED MESSAGE-----` marker) is accepted as UNSIGNED text: `Ok (t, none)`.
    No side condition at all. -/
theorem C19_cut_first_line (hs ps sig : List Str) (t : Str) (hpre : t <+: render (wrap hs ps sig))
    (hshort : t.length < beginMsg.length) : strip t = .ok (t, none) := by
  have e : render (wrap hs ps sig) =
      beginMsg ++ ('\n' :: unlinesNL (hs ++ [] :: (ps ++ beginSig :: (sig ++ [endSig])))) := by
    simp [render, wrap, unlinesNL_cons]
  rw [e] at hpre
  have hb : t <+: beginMsg := by
    rcases prefix_append_cases t _ _ hpre with a | ⟨t', rfl, _⟩
    · exact a
    · simp only [List.length_append] at hshort; omega
  apply C19_passthrough
  rw [lines_no_nl t (no_nl_of_prefix hb beginMsg_ok.1)]
  split
  · simp
  · intro e'
    simp only [List.head?_cons, Option.some.injEq] at e'
    rw [e'] at hshort; omega

/-- exception 1, general form: a signature line that has the END marker as a prefix, cut right
    after the marker text, gives `Ok` with the payload intact and only the signature lines before it -/
theorem C19_cut_end_prefix (hs ps s1 s2 : List Str) (x : Str) (h : Side hs ps (s1 ++ (endSig ++ x) :: s2)) :
    strip (render (beginMsg :: (hs ++ [] :: (ps ++ beginSig :: s1))) ++ endSig) =
      .ok (unlinesNL ps, some s1.flatten) := by
  have hab : wrap hs ps (s1 ++ (endSig ++ x) :: s2) =
      (beginMsg :: (hs ++ [] :: (ps ++ beginSig :: s1))) ++ (endSig ++ x) :: (s2 ++ [endSig]) := by
    simp [wrap]
  unfold render
  rw [strip_cut h hab (List.prefix_append _ _)]
  have : tl endSig = [endSig] := by decide
  rw [this]
  have := stripLines_sig_end (unlinesNL (beginMsg :: (hs ++ [] :: (ps ++ beginSig :: s1))) ++ endSig)
    hs ps s1 (fun y hy => (h.hs_ok y hy).2) (fun y hy => (h.ps_ok y hy).2)
    (fun y hy => (h.sig_ok y (by simp [hy])).2)
  simpa using this

/-- the payload-side counterpart (not an acceptance, only a different error): a payload line that
    has the BEGIN-SIGNATURE marker as a prefix, cut right after the marker text, gives
    `TruncatedPgpSignature` where `errorAtByte` says `MissingPgpSignature` -/
theorem C19_cut_begin_prefix (hs p1 p2 sig : List Str) (x : Str) (h : Side hs (p1 ++ (beginSig ++ x) :: p2) sig) :
    strip (render (beginMsg :: (hs ++ [] :: p1)) ++ beginSig) = .error .TruncatedPgpSignature := by
  have hab : wrap hs (p1 ++ (beginSig ++ x) :: p2) sig =
      (beginMsg :: (hs ++ [] :: p1)) ++ (beginSig ++ x) :: (p2 ++ beginSig :: (sig ++ [endSig])) := by
    simp [wrap]
  unfold render
  rw [strip_cut h hab (List.prefix_append _ _)]
  have : tl beginSig = [beginSig] := by decide
  rw [this]
  have := stripLines_sig_eof (unlinesNL (beginMsg :: (hs ++ [] :: p1)) ++ beginSig)
    hs p1 [] (fun y hy => (h.hs_ok y hy).2) (fun y hy => (h.ps_ok y (by simp [hy])).2) (by simp)
  simpa using this

/-! ### 4. converse at character level -/

/-- clause 5, converse at character granularity (strong form).  A CR-free input for which `strip`
    returns a payload with a signature IS a clear-signed message of some headers, payload lines and
    signature lines satisfying `Side` — complete up to the final LF — and the returned payload and
    signature are exactly its payload and signature. -/
theorem C19_valid_bytes_side (s p sg : Str) (h : strip s = .ok (p, some sg)) (hcr : '\r' ∉ s) :
    ∃ hs ps sig, Side hs ps sig ∧ (s = render (wrap hs ps sig) ∨ s ++ ['\n'] = render (wrap hs ps sig))
      ∧ p = unlinesNL ps ∧ sg = sig.flatten := by
  obtain ⟨hs, ps, sig, hl, h1, h2, h3, hp, hsg⟩ := C19_never_short s p sg h
  have hok := lines_ok_of_no_cr s hcr
  rw [hl] at hok
  refine ⟨hs, ps, sig, ⟨?_, ?_, ?_⟩, ?_, hp, hsg⟩
  · intro x hx; exact ⟨hok x (by simp [wrap, hx]), h1 x hx⟩
  · intro x hx; exact ⟨hok x (by simp [wrap, hx]), h2 x hx⟩
  · intro x hx; exact ⟨hok x (by simp [wrap, hx]), h3 x hx⟩
  · have := unlinesNL_lines_of_no_cr s hcr
    rw [hl] at this
    exact this

/-- clause 5, converse at character granularity -/
theorem C19_valid_bytes (s p sg : Str) (h : strip s = .ok (p, some sg)) (hcr : '\r' ∉ s) :
    ∃ hs ps sig, (s = render (wrap hs ps sig) ∨ s ++ ['\n'] = render (wrap hs ps sig))
      ∧ p = unlinesNL ps ∧ sg = sig.flatten := by
  obtain ⟨hs, ps, sig, _, h1, h2, h3⟩ := C19_valid_bytes_side s p sg h hcr
  exact ⟨hs, ps, sig, h1, h2, h3⟩

/-- exact characterisation for CR-free input: `strip` presents `(p, sg)` as a signed payload iff the
    input is a `Side` clear-signed message of `p` and `sg`, with or without its final LF -/
theorem C19_valid_bytes_iff (s p sg : Str) (hcr : '\r' ∉ s) :
    strip s = .ok (p, some sg) ↔
      ∃ hs ps sig, Side hs ps sig ∧ (s = render (wrap hs ps sig) ∨ s ++ ['\n'] = render (wrap hs ps sig))
        ∧ p = unlinesNL ps ∧ sg = sig.flatten := by
  constructor
  · intro h; exact C19_valid_bytes_side s p sg h hcr
  · rintro ⟨hs, ps, sig, h, e | e, rfl, rfl⟩
    · rw [e]; exact C19_unwrap hs ps sig h
    · have : s = (render (wrap hs ps sig)).dropLast := by rw [← e, List.dropLast_concat]
      rw [this]; exact C19_unwrap_no_final_newline hs ps sig h

/-! ### non-vacuity and closed witnesses (on the example message of Props/C19.lean) -/

theorem exSide : Side exHs exPs exSig := by
  constructor <;> intro x hx <;> simp [exHs, exPs, exSig] at hx
  · subst hx; exact ⟨by constructor <;> decide, by decide⟩
  · rcases hx with rfl | rfl | rfl <;> exact ⟨by constructor <;> decide, by decide⟩
  · rcases hx with rfl | rfl | rfl <;> exact ⟨by constructor <;> decide, by decide⟩

theorem exSideB : SideB exHs exPs exSig where
  toSide := exSide
  sig_noend := by
    intro x hx; simp [exSig] at hx
    rcases hx with rfl | rfl | rfl <;> decide
  ps_nobegin := by
    intro x hx; simp [exPs] at hx
    rcases hx with rfl | rfl | rfl <;> decide

/-- the example message -/
def exMsg : Str := render (wrap exHs exPs exSig)

example : exMsg.length = 166 ∧ payloadStart exHs = 49 ∧ sigStart exHs exPs = 126 := by decide +kernel

-- junk: an unterminated tail, a lone CR, a single LF
example : strip (exMsg ++ "junk".toList) = .error .JunkAfterPgpSignature :=
  C19_junk_bytes _ _ _ exSide _ (by decide)
example : strip (exMsg ++ ['\r']) = .error .JunkAfterPgpSignature :=
  C19_junk_bytes _ _ _ exSide _ (by decide)
example : strip (exMsg ++ ['\n']) = .error .JunkAfterPgpSignature := by decide +kernel

-- no final newline
example : strip exMsg.dropLast =
    .ok ("Origin: Debian\n\n -----BEGIN PGP SIGNATURE-----\n".toList, some "iQIz=olY7".toList) :=
  C19_unwrap_no_final_newline _ _ _ exSide

-- truncation anywhere: the hypotheses of `C19_truncate_bytes` / `C19_cut_error` are met by a cut in
-- the middle of a payload line …
example : strip (exMsg.take 60) = .error (errorAtByte exHs exPs (exMsg.take 60).length) :=
  C19_truncate_bytes _ _ _ exSideB _ (List.take_prefix _ _) (by decide +kernel) (by decide +kernel)
example : ∃ e, strip (exMsg.take 60) = .error e :=
  C19_cut_error _ _ _ exSide exSideB.sig_noend _ (List.take_prefix _ _) (by decide +kernel) (by decide +kernel)
-- … and the three errors change exactly at the stated offsets (evaluated on the model)
example : strip (exMsg.take 34) = .error .MissingPayload := by decide +kernel
example : strip (exMsg.take 48) = .error .MissingPayload := by decide +kernel
example : strip (exMsg.take 49) = .error .MissingPgpSignature := by decide +kernel
example : strip (exMsg.take 124) = .error .MissingPgpSignature := by decide +kernel
example : strip (exMsg.take 125) = .error .TruncatedPgpSignature := by decide +kernel
example : strip (exMsg.take 164) = .error .TruncatedPgpSignature := by decide +kernel
example : errorAtByte exHs exPs 48 = .MissingPayload ∧ errorAtByte exHs exPs 49 = .MissingPgpSignature
    ∧ errorAtByte exHs exPs 124 = .MissingPgpSignature ∧ errorAtByte exHs exPs 125 = .TruncatedPgpSignature := by
  decide +kernel

/-- a signature with a line that has the END marker as a proper prefix (allowed by `Side`) -/
def exSigEnd : List Str := ["iQIz".toList, "-----END PGP SIGNATURE-----x".toList, "=olY7".toList]

theorem exSideEnd : Side exHs exPs exSigEnd := by
  constructor <;> intro x hx <;> simp [exHs, exPs, exSigEnd] at hx
  · subst hx; exact ⟨by constructor <;> decide, by decide⟩
  · rcases hx with rfl | rfl | rfl <;> exact ⟨by constructor <;> decide, by decide⟩
  · rcases hx with rfl | rfl | rfl <;> exact ⟨by constructor <;> decide, by decide⟩

/-- exception 1 (witness): a `Side` message whose proper prefix — 36 characters short of the end,
    cut right after the END-marker text inside the signature line `-----END PGP SIGNATURE-----x` —
    is accepted with the payload intact and a SHORTER signature (`iQIz` instead of
    `iQIz-----END PGP SIGNATURE-----x=olY7`) -/
theorem C19_cut_end_prefix_witness :
    Side exHs exPs exSigEnd ∧
    (render (wrap exHs exPs exSigEnd)).length = 194 ∧
    strip ((render (wrap exHs exPs exSigEnd)).take 158) = .ok (unlinesNL exPs, some "iQIz".toList) ∧
    strip (render (wrap exHs exPs exSigEnd)) =
      .ok (unlinesNL exPs, some "iQIz-----END PGP SIGNATURE-----x=olY7".toList) :=
  ⟨exSideEnd, by decide +kernel, by decide +kernel, by decide +kernel⟩

-- the general form of exception 1 fires on it
example : strip (render (beginMsg :: (exHs ++ [] :: (exPs ++ beginSig :: ["iQIz".toList]))) ++ endSig) =
    .ok (unlinesNL exPs, some (["iQIz".toList] : List Str).flatten) :=
  C19_cut_end_prefix exHs exPs ["iQIz".toList] ["=olY7".toList] ['x'] exSideEnd

/-- exception 2 (witness): the example message cut inside its first line (33 of the 34 marker
    characters) is accepted as unsigned text -/
theorem C19_cut_first_line_witness :
    strip (exMsg.take 33) = .ok ("-----BEGIN PGP SIGNED MESSAGE----".toList, none) := by decide +kernel

example : strip (exMsg.take 33) = .ok (exMsg.take 33, none) :=
  C19_cut_first_line exHs exPs exSig _ (List.take_prefix _ _) (by decide)

/-- the payload-side counterpart (witness): payload line `-----BEGIN PGP SIGNATURE-----y` cut right
    after the marker text: `TruncatedPgpSignature`, where a cut one character earlier or later gives
    `MissingPgpSignature` -/
theorem C19_cut_begin_prefix_witness :
    Side exHs ["-----BEGIN PGP SIGNATURE-----y".toList] exSig ∧
    strip ((render (wrap exHs ["-----BEGIN PGP SIGNATURE-----y".toList] exSig)).take 77) = .error .MissingPgpSignature ∧
    strip ((render (wrap exHs ["-----BEGIN PGP SIGNATURE-----y".toList] exSig)).take 78) = .error .TruncatedPgpSignature ∧
    strip ((render (wrap exHs ["-----BEGIN PGP SIGNATURE-----y".toList] exSig)).take 79) = .error .MissingPgpSignature := by
  refine ⟨?_, by decide +kernel, by decide +kernel, by decide +kernel⟩
  constructor <;> intro x hx <;> simp [exHs, exSig] at hx
  · subst hx; exact ⟨by constructor <;> decide, by decide⟩
  · subst hx; exact ⟨by constructor <;> decide, by decide⟩
  · rcases hx with rfl | rfl | rfl <;> exact ⟨by constructor <;> decide, by decide⟩

example : strip (render (beginMsg :: (exHs ++ [] :: [])) ++ beginSig) = .error .TruncatedPgpSignature := by
  have h := (C19_cut_begin_prefix_witness).1
  exact C19_cut_begin_prefix exHs [] [] exSig ['y'] h

-- payload safety: the hypotheses are met by the whole message, by the message without its final LF,
-- and by the exceptional proper prefix of exception 1
example : unlinesNL exPs = unlinesNL exPs :=
  C19_cut_payload_safe exHs exPs exSig exSide exMsg.dropLast _ _ (List.dropLast_prefix _)
    (C19_unwrap_no_final_newline _ _ _ exSide)
example : unlinesNL exPs = unlinesNL exPs ∧ ∃ sig', sig' <+: exSigEnd ∧ "iQIz".toList = sig'.flatten :=
  C19_cut_ok_shape exHs exPs exSigEnd exSideEnd _ _ _ (List.take_prefix 158 _) C19_cut_end_prefix_witness.2.2.1
example : (exMsg.dropLast = render (wrap exHs exPs exSig) ∨ exMsg.dropLast = (render (wrap exHs exPs exSig)).dropLast)
    ∧ unlinesNL exPs = unlinesNL exPs ∧ exSig.flatten = exSig.flatten :=
  C19_cut_ok_complete exHs exPs exSig exSide exSideB.sig_noend exMsg.dropLast _ _ (List.dropLast_prefix _)
    (C19_unwrap_no_final_newline _ _ _ exSide)

-- converse: the hypotheses are met by the example message with and without its final LF
example : ∃ hs ps sig, (exMsg = render (wrap hs ps sig) ∨ exMsg ++ ['\n'] = render (wrap hs ps sig))
    ∧ unlinesNL exPs = unlinesNL ps ∧ exSig.flatten = sig.flatten :=
  C19_valid_bytes exMsg _ _ (C19_unwrap _ _ _ exSide) (by decide)
example : ∃ hs ps sig, Side hs ps sig ∧
    (exMsg.dropLast = render (wrap hs ps sig) ∨ exMsg.dropLast ++ ['\n'] = render (wrap hs ps sig))
    ∧ unlinesNL exPs = unlinesNL ps ∧ exSig.flatten = sig.flatten :=
  C19_valid_bytes_side exMsg.dropLast _ _ (C19_unwrap_no_final_newline _ _ _ exSide) (by decide)
/-- without CR-freeness the converse fails (`lines()` strips the CR of CRLF): witness -/
theorem C19_valid_bytes_needs_no_cr :
    strip "-----BEGIN PGP SIGNED MESSAGE-----\n\na\r\n-----BEGIN PGP SIGNATURE-----\n-----END PGP SIGNATURE-----\n".toList
      = .ok ("a\n".toList, some []) := by decide


-- line form: a cut two characters into the payload line `Origin: Debian`, and right after the text of the
-- BEGIN-SIGNATURE marker line (its LF missing)
example : strip (render (beginMsg :: (exHs ++ [[]])) ++ "Or".toList) = .error .MissingPgpSignature :=
  C19_truncate_in_line exHs exPs exSig exSideB (beginMsg :: (exHs ++ [[]])) _ "Origin: Debian".toList "Or".toList
    (by rfl) (by decide) (by simp) (by simp)
example : strip (render (beginMsg :: (exHs ++ [] :: exPs)) ++ beginSig) = .error .TruncatedPgpSignature :=
  C19_truncate_in_line exHs exPs exSig exSideB (beginMsg :: (exHs ++ [] :: exPs)) _ beginSig beginSig
    (by rfl) (by decide) (by simp) (by simp)

end Deb822Verif.Props.C19
