import Deb822Verif.Lemmas.CtlWrapRel
/-!
# C13 (continued) — the normalised field is a single line

Kept in its own module because the character lemma (`Ctl.canonOf_chars`) lives in the development of
the control-file wrappers (C07), which imports `Props/C13`.
-/
namespace Deb822Verif.Props.C13
open Deb822Verif Deb Rel RelSpec Rel.Wrap Ctl

/-- **the result of `Relations::wrap_and_sort` on a well-formed field is one line**: the call succeeds
    and the printed text contains no LF, no CR and no tab; it does not start with a blank. -/
theorem C13_single_line (f : FieldA) (h : f.WF) :
    ∃ out, relationsWrap f.tree = .ok out ∧
      (∀ c ∈ out.text, c ≠ '\n' ∧ c ≠ '\r' ∧ c ≠ '\t') ∧
      (∀ c, out.text.head? = some c → c ≠ ' ') := by
  refine ⟨outTree f, C13_total f h, ?_, ?_⟩
  · intro c hc
    rw [outTree_text] at hc
    have hp := canonChar_plain c (canonOf_chars f h c hc)
    have hn := hp.1
    simp only [isNewline, Bool.or_eq_false_iff, beq_eq_false_iff_ne] at hn
    exact ⟨hn.1, hn.2, hp.2⟩
  · intro c hc
    rw [outTree_text] at hc
    have := canonOf_head f h c hc
    intro e; subst e; simp [isIndent] at this

example : ∃ out, relationsWrap ex.tree = .ok out ∧ ∀ c ∈ out.text, c ≠ '\n' ∧ c ≠ '\r' ∧ c ≠ '\t' :=
  let ⟨o, h1, h2, _⟩ := C13_single_line ex ex_wf; ⟨o, h1, h2⟩

end Deb822Verif.Props.C13
