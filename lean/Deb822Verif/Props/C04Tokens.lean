import Deb822Verif.Props.C04
import Deb822Verif.Lemmas.DebEditTok
import Deb822Verif.Lemmas.DebWrapTok
/-!
# C04 (tokens) — the history refinement for ANY root child list, bare tokens included

  `Props/C04.lean` proves `C04_step_refines` / `C04_history_refines` / `C04_history_oracle` under the
  hypothesis `AllNodes kids` ("every child of the root is a node"). That holds of every parsed and of
  every built document, but NOT of the live result of `Deb822::wrap_and_sort` (`deb822Wrap`), whose
  root holds the free-standing comment lines as bare COMMENT / NEWLINE tokens. Since
  `insert_empty_paragraph` appends at `children_with_tokens().count()` (F-C05-3, repaired) the
  hypothesis is not needed any more: here the same theorems for arbitrary `kids`.

  What replaces `terminateLastLine_sig` (same length, same signature — false when the last child of
  the root is a bare non-NEWLINE token: then a NEWLINE token is appended to the ROOT):
  `terminateLastLine_decomp` — the result is a list with the same signature, followed by at most one
  NEWLINE token.
-/
namespace Deb822Verif.Props.C04Tokens
open Deb822Verif Deb Node Props.C04 Spec

/-! ### `terminate_last_line` on an arbitrary child list -/

/-- `terminate_last_line` on ANY child list: every child keeps its paragraph-ness and its items (only
    the last one may change, a NEWLINE being appended inside it), and at most one NEWLINE token is
    appended behind them (exactly when the last child is a bare token that is not a NEWLINE) -/
theorem terminateLastLine_decomp (kids : List DNode) :
    ∃ kids1 extra, terminateLastLine kids = kids1 ++ extra ∧ kids1.map sig = kids.map sig
      ∧ kids1.length = kids.length
      ∧ (extra = [] ∨ extra = [Node.tok .NEWLINE ['\n']]) := by
  unfold terminateLastLine
  split
  · exact ⟨kids, [], by simp, rfl, rfl, Or.inl rfl⟩
  · split
    · exact ⟨kids, [], by simp, rfl, rfl, Or.inl rfl⟩
    · split
      · exact ⟨kids, [Node.tok .NEWLINE ['\n']], rfl, rfl, rfl, Or.inr rfl⟩
      · rename_i hlast
        rcases getLast_snoc_cases kids with rfl | ⟨init, last, rfl⟩
        · exact ⟨[], [], by simp [terminateLast], rfl, rfl, Or.inl rfl⟩
        · rw [terminateLast_snoc]
          cases last with
          | tok k t => exact absurd (by simp) (hlast k t)
          | node k cs =>
            refine ⟨init ++ terminatedLast (.node k cs), [], by simp, ?_, by simp [terminatedLast],
              Or.inl rfl⟩
            simp only [terminatedLast, List.map_append, List.map_cons, List.map_nil]
            congr 2
            simp only [sig, isParaNode, Node.isNode, Node.kind, items_node_any, Prod.mk.injEq, true_and]
            split
            · exact pitems_terminateLast cs
            · simp [pitems_eq, childItem, Node.isNode]

theorem newline_not_para : isParaNode (Node.tok .NEWLINE ['\n'] : DNode) = false := by
  simp [isParaNode, Node.isNode]

end Deb822Verif.Props.C04Tokens

namespace Deb822Verif.Deb
open Node

/-- children that are not paragraphs may be appended behind the document: no handle moves, every
    handle reads what it read -/
theorem HRel.append_nonpara {kids hs M} (H : HRel kids hs M) (extra : List DNode)
    (hx : ∀ c ∈ extra, isParaNode c = false) : HRel (kids ++ extra) hs M := by
  refine ⟨?_, ?_, H.cover, H.inj⟩
  · rw [H.reads]
    apply List.ext_getElem?
    intro j
    simp only [List.getElem?_map]
    cases hj : hs[j]? with
    | none => rfl
    | some o =>
      cases o with
      | none => rfl
      | some s =>
        obtain ⟨n, hn, _⟩ := H.valid_node hj
        have hlt : s < kids.length := (List.getElem?_eq_some_iff.mp hn).1
        simp only [Option.map_some, rd, Option.bind_some]
        rw [List.getElem?_append_left hlt]
  · rw [slots_append, slots_none extra _ hx, List.append_nil]; exact H.order

/-- `add_paragraph` (also `insert_paragraph` beyond the end) on ANY document, bare tokens under the
    root included: the list model pushes an empty paragraph -/
theorem HRel.add_any {d : Doc} {M : LModel} (H : HRel d.kids d.handles M) :
    HRel (addParagraph d).kids (addParagraph d).handles M.addp := by
  obtain ⟨kids1, extra, hT, hsig, _, hextra⟩ := Props.C04Tokens.terminateLastLine_decomp d.kids
  have H' : HRel (terminateLastLine d.kids) d.handles M := by
    rw [hT]
    apply (H.congr hsig.symm).append_nonpara
    intro c hc
    rcases hextra with rfl | rfl
    · simp at hc
    · simp at hc; subst hc; exact Props.C04Tokens.newline_not_para
  generalize hsep : (if (d.kids.filter Node.isNode).length > 0 then [emptyLine] else ([] : List DNode)) = sep
  have hsepnp : ∀ c ∈ sep, isParaNode c = false := by
    intro c hc; rw [← hsep] at hc
    split at hc
    · simp at hc; subst hc; simp [emptyLine, isParaNode, Node.isNode, Node.kind]
    · simp at hc
  have := H'.ins (terminateLastLine d.kids).length (Nat.le_refl _) sep [] (.node .PARAGRAPH [])
    (by simp [isParaNode, Node.isNode, Node.kind]) hsepnp (by simp)
  simp only [List.take_length, List.drop_length, List.append_nil] at this
  have hordl : (slots (terminateLastLine d.kids) 0).length = M.order.length := H'.order_len.symm
  rw [hordl, insertIdx_take_drop _ _ _ (Nat.le_refl _), List.take_length, List.drop_length] at this
  simp only [addParagraph, insertEmptyParagraph, insertAt, hsep, LModel.addp]
  rw [List.take_length, List.drop_length, H.len]
  have e1 : 1 + sep.length = (sep ++ [Node.node Kind.PARAGRAPH []]).length := by simp; omega
  rw [e1]
  simpa [items, entries, Node.children] using this

end Deb822Verif.Deb

namespace Deb822Verif.Props.C04Tokens
open Deb822Verif Deb Node Props.C04 Spec

/-! ### the refinement, without `AllNodes` -/

/-- **one step, any document**: every operation — any handle (live, dead, never handed out), any
    name, any value, any index — acts on the document exactly as the oracle's list model says;
    the root may hold bare tokens (the live result of `wrap_and_sort`) -/
theorem C04_step_refines_any (d : Doc) (M : LModel) (H : HRel d.kids d.handles M) (o : EditOp) :
    HRel (step d o).kids (step d o).handles (mstep M o) := by
  cases o with
  | set h k v => exact H.onPara h _ _ (fun cs => C04_refine_set cs k v)
  | ins h k v => exact H.onPara h _ _ (fun cs => C04_refine_insert cs k v)
  | rm h k => exact H.onPara h _ _ (fun cs => C04_refine_remove cs k)
  | ren h k k' => exact H.onPara h _ _ (fun cs => (C04_refine_rename cs k k').1)
  | addp => exact H.add_any
  | insp i =>
    cases hc : convertIndex d.kids i with
    | some p => exact H.insert_at i p hc
    | none =>
      have h1 : step d (.insp i) = addParagraph d := by simp [step, insertParagraph, hc, addParagraph]
      have h2 : mstep M (.insp i) = M.addp := by
        rw [convertIndex_slots] at hc
        have hl : M.order.length ≤ i := by
          rw [H.order_len]
          rcases Nat.lt_or_ge i (slots d.kids 0).length with h | h
          · rw [List.getElem?_eq_getElem h] at hc; simp at hc
          · exact h
        simp [mstep, LModel.insp, LModel.addp, Nat.min_eq_right hl, List.insertIdx_length_self]
      rw [h1, h2]
      exact H.add_any
  | rmp i => exact H.remove i

/-- **whole histories refine the list model, any start** (and so does every prefix) -/
theorem C04_history_refines_any (ops : List EditOp) : ∀ (d : Doc) (M : LModel),
    HRel d.kids d.handles M → HRel (run d ops).kids (run d ops).handles (mrun M ops) := by
  induction ops with
  | nil => intro d M H; exact H
  | cons o ops ih => intro d M H; exact ih (step d o) (mstep M o) (C04_step_refines_any d M H o)

/-- **the history oracle, steps (1) and (2), for ANY root child list** (`C04_history_oracle` without
    its `AllNodes` hypothesis): start from any children of the root — nodes and bare tokens alike —
    with one handle per paragraph, run ANY list of operations; then with
    `M = mrun (LModel.init kids) ops`:
    * per handle number `j`: `M.paras[j] = none` — never handed out; `some none` — the handle is
      dead in the document too; `some (some m)` — live, denotes a PARAGRAPH node, reads exactly `m`;
    * the document's paragraphs, in order, are the model's `order`, all of them live. -/
theorem C04_history_oracle_any (kids : List DNode) (ops : List EditOp) :
    let d' := run (startOf kids) ops
    let M := mrun (LModel.init kids) ops
    (∀ j : Nat, match M.paras[j]? with
      | none => d'.handles.length ≤ j ∧ d'.para j = none
      | some none => d'.handles[j]? = some none ∧ d'.para j = none
      | some (some m) => ∃ n, d'.para j = some n ∧ isParaNode n = true ∧ items n = m)
    ∧ docItems d'.root = M.order.map (fun h => ((M.paras[h]?).join).getD [])
    ∧ ∀ h ∈ M.order, ∃ m, M.paras[h]? = some (some m) := by
  have H := C04_history_refines_any ops (startOf kids) (LModel.init kids) (HRel.init kids)
  exact ⟨fun j => H.oracle1 j, H.oracle2.1, H.oracle2.2⟩

/-- the old statement is the special case -/
theorem C04_history_oracle_of_any (kids : List DNode) (_hn : AllNodes kids) (ops : List EditOp) :
    let d' := run (startOf kids) ops
    let M := mrun (LModel.init kids) ops
    (∀ j : Nat, match M.paras[j]? with
      | none => d'.handles.length ≤ j ∧ d'.para j = none
      | some none => d'.handles[j]? = some none ∧ d'.para j = none
      | some (some m) => ∃ n, d'.para j = some n ∧ isParaNode n = true ∧ items n = m)
    ∧ docItems d'.root = M.order.map (fun h => ((M.paras[h]?).join).getD [])
    ∧ ∀ h ∈ M.order, ∃ m, M.paras[h]? = some (some m) :=
  C04_history_oracle_any kids ops


/-! ## the edited document survives a re-read — start = the live result of `wrap_and_sort`

  The root of `deb822Wrap none none d0.tree` holds bare tokens, so the unit-list invariant `UWF` of
  `Lemmas/DebEditDoc.lean` (one node per unit) does not describe it; `Lemmas/DebEditTok.lean` extends
  it (`RUnit`, `RInv`): every edit keeps `RInv`, and a document satisfying `RInv` prints the text of
  a well-formed `DocS` with the same paragraphs (`rinv_flat`: a paragraph absorbs the bare comment
  lines behind it, as a reader does). -/

/-- every document satisfying the token-aware edit invariant re-reads -/
theorem rereads_of_runits (kids : List DNode) (us : List RUnit) (hk : kids = rkids us) (h : RInv us) :
    Rereads kids := by
  subst hk
  obtain ⟨huwf, hstr, hcont⟩ := rinv_flat us h
  have hwf := erase_wf _ huwf
  have hs : (erase (flat .g us)).str = textList (rkids us) := by rw [erase_str, hstr]
  refine ⟨erase (flat .g us), hwf, hs, ?_, ?_, ?_⟩
  · rw [← hs]; exact C03.C03_parse_inverts _ hwf
  · rw [← hs]; exact (C03.C03_accept _ hwf).1
  · rw [docItems_tree, erase_content, hcont]; rfl

/-- **whole histories on a wrapped document**: `w` = the live result of
    `Deb822::wrap_and_sort(None, None)` on a parsed well-formed document (free-standing comment
    lines are bare tokens under its root, the blank lines around them are gone), ANY handles on it,
    any sequence of field edits and paragraph operations with valid arguments: the printed document
    is accepted by the strict reader without error and reads back to exactly the live paragraphs
    that have a field, in order (`C04_reread_history` with start `w`). -/
theorem C04_reread_history_wrapped (d0 : DocS) (hwf : d0.WF) (w : DNode)
    (hw : deb822Wrap none none d0.tree = some w) (d : Doc) (hd : d.kids = w.children)
    (ops : List EditOp) (hv : ∀ o ∈ ops, o.Valid) :
    let d' := run d ops
    ∃ s : DocS, s.WF ∧ s.str = d'.root.text ∧ parse d'.root.text = ⟨s.tree, []⟩
      ∧ readStrict d'.root.text = .ok s.tree
      ∧ docItems s.tree = (docItems d'.root).filter nonEmpty := by
  have hw' : w = .node .ROOT (rkids (wrapUnits d0)) := by
    have := deb822Wrap_runits d0
    rw [hw] at this; exact Option.some.inj this
  obtain ⟨us', h1, h2⟩ := run_runits ops (wrapUnits d0) d (rinv_wrapUnits d0 hwf)
    (by rw [hd, hw']; rfl) hv
  exact rereads_of_runits _ us' h1 h2

/-! ### non-vacuity -/

example : C03.exDoc.WF := by decide
example : ∀ o ∈ exOps, o.Valid := by decide
/-- the wrapped example document is outside the reach of the node-only theorems -/
example : ¬ AllNodes (rkids (wrapUnits C03.exDoc)) := by decide +kernel
example : RInv (wrapUnits C03.exDoc) := by decide +kernel

end Deb822Verif.Props.C04Tokens
