import Deb822Verif.Props.C16Lossless
import Deb822Verif.Props.C20Ext
import Deb822Verif.Model.DeriveTree
/-!
# C16More — what the audit of C16 (logs/audit_C16.md) found missing

* Part 1  exact forms: `toFields` as a `filterMap` over the zipped (field, value) list; the key order
          after `update_paragraph` in closed form; `to_paragraph` prints the same text on both back-ends.
* Part 2  `Nodup` of the keys is necessary (two struct fields mapped to one key): closed witnesses.
* Part 3  the list leaf codecs round-trip EXACTLY on their stated domains (iff), with the values of
          `ftpmaster::Removal` that do not survive as witnesses.
* Part 4  the table-level round trip with the external codecs as parameters: lossy `Relations` and
          `debversion::Version` by their models (`C20Ext`), url / date / URI list under a named
          per-field assumption; one kernel-checked inhabitant per shipped struct.
* Part 5  clause "comments and formatting of untouched fields are unchanged" of the property text:
          `update_paragraph` on a lossless paragraph keeps every child of the PARAGRAPH node that is
          not an entry of an owned key — the same nodes in the same order, up to the one NEWLINE that
          `terminate_last_line` may add.
-/
set_option linter.unusedSimpArgs false
set_option linter.unusedVariables false
namespace Deb822Verif.Props.C16More
open Deb822Verif Deb Node Derive Derive.Lossless
open Deb822Verif.Props.C16

variable {V : Type}

/-! ## Part 1 — exact forms -/

/-- **`to_paragraph`, exactly**: the `fields` vector is the list of (key, serialiser of THAT field applied
    to THAT field's value) over the present fields, in declaration order (replaces the existential
    `C16_order_values`: no other field's serialiser, no other field's value) -/
theorem C16_toFields_exact (spec : List (FieldSpec V)) (x : List (Option V)) :
    toFields spec x = (spec.zip x).filterMap fun fv => fv.2.map fun v => (fv.1.key, fv.1.ser v) := by
  induction spec generalizing x with
  | nil => cases x <;> simp [toFields]
  | cons f fs ih =>
    cases x with
    | nil => simp [toFields]
    | cons v vs => cases v <;> simp [toFields, ih vs]

/-- the keys of the absent (optional) fields, in declaration order -/
def absentKeys : List (FieldSpec V) → List (Option V) → List Str
  | _ :: fs, some _ :: vs => absentKeys fs vs
  | f :: fs, none :: vs => f.key :: absentKeys fs vs
  | _, _ => []

theorem presentKeys_sub (spec : List (FieldSpec V)) (x : List (Option V)) :
    ∀ k ∈ presentKeys spec x, k ∈ specKeys spec := by
  induction spec generalizing x with
  | nil => intro k hk; cases x <;> simp [presentKeys] at hk
  | cons f fs ih =>
    intro k hk
    cases x with
    | nil => simp [presentKeys] at hk
    | cons v vs =>
      cases v with
      | none =>
        simp only [presentKeys] at hk
        simp only [specKeys, List.map_cons, List.mem_cons]; right; exact ih vs k hk
      | some v =>
        simp only [presentKeys, List.mem_cons] at hk
        simp only [specKeys, List.map_cons, List.mem_cons]
        rcases hk with hk | hk
        · left; exact hk
        · right; exact ih vs k hk

theorem absentKeys_sub (spec : List (FieldSpec V)) (x : List (Option V)) :
    ∀ k ∈ absentKeys spec x, k ∈ specKeys spec := by
  induction spec generalizing x with
  | nil => intro k hk; cases x <;> simp [absentKeys] at hk
  | cons f fs ih =>
    intro k hk
    cases x with
    | nil => simp [absentKeys] at hk
    | cons v vs =>
      cases v with
      | some v =>
        simp only [absentKeys] at hk
        simp only [specKeys, List.map_cons, List.mem_cons]; right; exact ih vs k hk
      | none =>
        simp only [absentKeys, List.mem_cons] at hk
        simp only [specKeys, List.map_cons, List.mem_cons]
        rcases hk with hk | hk
        · left; exact hk
        · right; exact ih vs k hk

theorem keys_pset (p : Deb.Lossy.Para) (k v : Str) :
    (Deb.Lossy.pset p k v).map (·.1) = if k ∈ p.map (·.1) then p.map (·.1) else p.map (·.1) ++ [k] := by
  induction p with
  | nil => simp [Deb.Lossy.pset]
  | cons f fs ih =>
    simp only [Deb.Lossy.pset]
    by_cases hf : f.1 = k
    · simp [hf]
    · have hf' : ¬ k = f.1 := fun e => hf e.symm
      simp only [hf, ↓reduceIte, List.map_cons, ih, List.mem_cons, hf', false_or]
      split <;> simp

theorem keys_premove (p : Deb.Lossy.Para) (k : Str) :
    (Deb.Lossy.premove p k).map (·.1) = (p.map (·.1)).filter (fun k' => k' != k) := by
  unfold Deb.Lossy.premove
  induction p with
  | nil => rfl
  | cons f fs ih =>
    simp only [List.filter_cons, List.map_cons]
    by_cases hf : f.1 = k
    · simp [hf, ih]
    · simp [hf, ih]

/-- **the key order after `update_paragraph`, in closed form** (lossy paragraph; keys pairwise
    distinct): the fields that were there keep their places, every occurrence of an absent optional
    field goes, and the present fields that were not there are appended in declaration order -/
theorem C16_update_keys_closed (spec : List (FieldSpec V)) (x : List (Option V)) (p : Deb.Lossy.Para)
    (hn : (specKeys spec).Nodup) :
    (updateParagraph lossyBackend spec x p).map (·.1)
      = (p.map (·.1)).filter (fun k => decide (k ∉ absentKeys spec x))
        ++ (presentKeys spec x).filter (fun k => decide (k ∉ p.map (·.1))) := by
  induction spec generalizing x p with
  | nil =>
    cases x <;> simp only [updateParagraph, absentKeys, presentKeys, List.filter_nil, List.append_nil]
      <;> exact (List.filter_eq_self.2 (by simp)).symm
  | cons f fs ih =>
    simp only [specKeys, List.map_cons, List.nodup_cons] at hn
    cases x with
    | nil =>
      simp only [updateParagraph, absentKeys, presentKeys, List.filter_nil, List.append_nil]
      exact (List.filter_eq_self.2 (by simp)).symm
    | cons v vs =>
      cases v with
      | some v =>
        simp only [updateParagraph, absentKeys, presentKeys]
        rw [ih vs _ hn.2]
        show ((Deb.Lossy.pset p f.key (f.ser v)).map (·.1)).filter _ ++
          (presentKeys fs vs).filter (fun k => decide (k ∉ (Deb.Lossy.pset p f.key (f.ser v)).map (·.1))) = _
        rw [keys_pset]
        have hna : f.key ∉ absentKeys fs vs := fun h => hn.1 (absentKeys_sub fs vs _ h)
        have hnp : f.key ∉ presentKeys fs vs := fun h => hn.1 (presentKeys_sub fs vs _ h)
        by_cases hk : f.key ∈ p.map (·.1)
        · simp only [hk, ↓reduceIte, List.filter_cons, not_true_eq_false, decide_false,
            Bool.false_eq_true]
          rfl
        · simp only [hk, ↓reduceIte, List.filter_append, List.filter_cons, hna, not_false_eq_true,
            decide_true, List.filter_nil, List.append_assoc, List.cons_append, List.nil_append]
          congr 2
          apply List.filter_congr
          intro k' hk'
          have : k' ≠ f.key := fun e => hnp (e ▸ hk')
          simp [this]
      | none =>
        simp only [updateParagraph, absentKeys, presentKeys]
        rw [ih vs _ hn.2]
        show ((Deb.Lossy.premove p f.key).map (·.1)).filter _ ++
          (presentKeys fs vs).filter (fun k => decide (k ∉ (Deb.Lossy.premove p f.key).map (·.1))) = _
        rw [keys_premove]
        have hnp : f.key ∉ presentKeys fs vs := fun h => hn.1 (presentKeys_sub fs vs _ h)
        congr 1
        · rw [List.filter_filter]
          apply List.filter_congr
          intro k' _
          by_cases e : k' = f.key <;> simp [e]
        · apply List.filter_congr
          intro k' hk'
          have : k' ≠ f.key := fun e => hnp (e ▸ hk')
          simp [this]

/-- no key of an absent field is left, whatever the prior paragraph held (all duplicates go) -/
theorem C16_update_absent_gone (spec : List (FieldSpec V)) (x : List (Option V)) (p : Deb.Lossy.Para)
    (hn : (specKeys spec).Nodup) :
    ∀ k ∈ absentKeys spec x, k ∉ (updateParagraph lossyBackend spec x p).map (·.1) := by
  have hdisj : ∀ k ∈ absentKeys spec x, k ∉ presentKeys spec x := by
    clear p
    induction spec generalizing x with
    | nil => intro k hk; cases x <;> simp [absentKeys] at hk
    | cons f fs ih =>
      simp only [specKeys, List.map_cons, List.nodup_cons] at hn
      cases x with
      | nil => intro k hk; simp [absentKeys] at hk
      | cons v vs =>
        cases v with
        | some v =>
          intro k hk
          simp only [absentKeys] at hk
          simp only [presentKeys, List.mem_cons, not_or]
          exact ⟨fun e => hn.1 (e ▸ absentKeys_sub fs vs k hk), ih vs hn.2 k hk⟩
        | none =>
          intro k hk
          simp only [absentKeys, List.mem_cons] at hk
          simp only [presentKeys]
          rcases hk with rfl | hk
          · exact fun h => hn.1 (presentKeys_sub fs vs _ h)
          · exact ih vs hn.2 k hk
  intro k hk
  rw [C16_update_keys_closed spec x p hn]
  simp only [List.mem_append, List.mem_filter, decide_eq_true_eq, not_or, not_and]
  exact ⟨fun _ h => h hk, fun h => absurd h (hdisj k hk)⟩

/-- the same closed form for `Paragraph::keys` of a lossless paragraph (any tree) -/
theorem C16_lossless_update_keys_closed (spec : List (FieldSpec V)) (x : List (Option V)) (p : DNode)
    (hn : (specKeys spec).Nodup) :
    Deb.keys (updateParagraph losslessBackend spec x p)
      = (Deb.keys p).filter (fun k => decide (k ∉ absentKeys spec x))
        ++ (presentKeys spec x).filter (fun k => decide (k ∉ Deb.keys p)) := by
  rw [C16_lossless_update_keys]
  show (updateParagraph lossyBackend spec x (items p)).map (·.1) = _
  rw [C16_update_keys_closed spec x _ hn, keys_eq_items]

/-- `Entry::new(k, v)` prints exactly what `Display for Field` prints for `(k, v)` -/
theorem text_entryNew_eq_printField (k v : Str) : (entryNew k v).text = Deb.Lossy.printField (k, v) := by
  rw [text_entryNew]
  unfold Deb.Lossy.printField
  cases h : Text.splitOn '\n' v with
  | nil => exact absurd h (C04.splitOn_ne_nil v)
  | cons l ls => simp

/-- **`to_paragraph` prints the same text on both back-ends**: the text of the lossless paragraph built
    by `to_paragraph(x)` is `Display` of the lossy one -/
theorem C16_to_paragraph_text_agrees (spec : List (FieldSpec V)) (x : List (Option V)) :
    (toParagraph losslessBackend spec x).text = Deb.Lossy.printPara (toParagraph lossyBackend spec x) := by
  show (paraOfPairs (toFields spec x)).text = Deb.Lossy.printPara (toFields spec x)
  unfold paraOfPairs Deb.Lossy.printPara
  generalize toFields spec x = l
  rw [text_node]
  induction l with
  | nil => rfl
  | cons kv l ih =>
    simp only [List.map_cons, textList_cons, List.flatten_cons, ih, text_entryNew_eq_printField]

/-! ### non-vacuity of Part 1 -/

/-- three fields, the middle one optional -/
def exSpec3 : List (FieldSpec Str) :=
  [⟨c!"Name", false, id, .ok⟩, ⟨c!"Size", true, id, .ok⟩, ⟨c!"New", false, id, .ok⟩]

example : (specKeys exSpec3).Nodup := by decide
/-- prior `X, Size, Size, Name`, value with `Size` absent: `X` and `Name` keep their places, both
    `Size` go, `New` is appended -/
example : (updateParagraph lossyBackend exSpec3 [some (c!"n"), none, some (c!"v")]
      [(c!"X", c!"1"), (c!"Size", c!"1"), (c!"Size", c!"2"), (c!"Name", c!"old")]).map (·.1)
    = [c!"X", c!"Name", c!"New"] := by decide
example : absentKeys exSpec3 [some (c!"n"), none, some (c!"v")] = [c!"Size"]
    ∧ presentKeys exSpec3 [some (c!"n"), none, some (c!"v")] = [c!"Name", c!"New"] := by decide
example : toFields exSpec3 [some (c!"n"), none, some "v\nw".toList] = [(c!"Name", c!"n"), (c!"New", "v\nw".toList)]
    ∧ Deb.Lossy.printPara (toFields exSpec3 [some (c!"n"), none, some "v\nw".toList]) = "Name: n\nNew: v\n w\n".toList := by
  decide

/-! ## Part 2 — `Nodup` of the keys is necessary

  The macro accepts two struct fields mapped to the same key (`#[deb822(field = "K")]` twice; audit
  D2). The real code on these inputs answers what the model answers (scratch crate, audit §4). -/

/-- `struct { #[deb822(field="K")] a: String, #[deb822(field="K")] b: String }` -/
def sameKey : List (FieldSpec Str) := [⟨c!"K", false, id, .ok⟩, ⟨c!"K", false, id, .ok⟩]
/-- the same with two optional fields -/
def sameKeyOpt : List (FieldSpec Str) := [⟨c!"K", true, id, .ok⟩, ⟨c!"K", true, id, .ok⟩]

/-- **round trip needs distinct keys**: `{a: "1", b: "2"}` is a well-formed value whose codecs
    round-trip; `to_paragraph` writes `K: 1⏎K: 2⏎` and `from_paragraph` of that is `{a: "1", b: "1"}`
    — on both back-ends -/
theorem C16_roundtrip_needs_nodup :
    ¬ (specKeys sameKey).Nodup
    ∧ WellFormed sameKey [some (c!"1"), some (c!"2")] ∧ CodecsRoundTrip sameKey [some (c!"1"), some (c!"2")]
    ∧ toParagraph lossyBackend sameKey [some (c!"1"), some (c!"2")] = [(c!"K", c!"1"), (c!"K", c!"2")]
    ∧ fromParagraph lossyBackend sameKey (toParagraph lossyBackend sameKey [some (c!"1"), some (c!"2")])
        = .ok [some (c!"1"), some (c!"1")]
    ∧ fromParagraph losslessBackend sameKey (toParagraph losslessBackend sameKey [some (c!"1"), some (c!"2")])
        = .ok [some (c!"1"), some (c!"1")] := by
  refine ⟨by decide, by simp [WellFormed, sameKey], by simp [CodecsRoundTrip, sameKey], by decide, by decide, ?_⟩
  rw [(C16_lossless_simulates_lossy sameKey [some (c!"1"), some (c!"2")]).1,
    (C16_lossless_simulates_lossy sameKey [some (c!"1"), some (c!"2")]).2.1]
  decide

/-- **update needs distinct keys**: `{a: Some("1"), b: None}` on the prior paragraph `K: old⏎Z: z⏎`:
    `set K 1` then `remove K` leaves `Z: z⏎`, which reads back as `{None, None}` — the value is lost;
    with two mandatory fields `{a:"1", b:"2"}` the paragraph ends as `K: 2⏎Z: z⏎` and reads `{2, 2}` -/
theorem C16_update_needs_nodup :
    WellFormed sameKeyOpt [some (c!"1"), none] ∧ CodecsRoundTrip sameKeyOpt [some (c!"1"), none]
    ∧ updateParagraph lossyBackend sameKeyOpt [some (c!"1"), none] [(c!"K", c!"old"), (c!"Z", c!"z")]
        = [(c!"Z", c!"z")]
    ∧ fromParagraph lossyBackend sameKeyOpt
        (updateParagraph lossyBackend sameKeyOpt [some (c!"1"), none] [(c!"K", c!"old"), (c!"Z", c!"z")])
        = .ok [none, none]
    ∧ updateParagraph lossyBackend sameKey [some (c!"1"), some (c!"2")] [(c!"K", c!"old"), (c!"Z", c!"z")]
        = [(c!"K", c!"2"), (c!"Z", c!"z")]
    ∧ fromParagraph lossyBackend sameKey
        (updateParagraph lossyBackend sameKey [some (c!"1"), some (c!"2")] [(c!"K", c!"old"), (c!"Z", c!"z")])
        = .ok [some (c!"2"), some (c!"2")] := by
  refine ⟨by simp [WellFormed, sameKeyOpt], by simp [CodecsRoundTrip, sameKeyOpt], by decide, by decide,
    by decide, by decide⟩

/-! ## Part 3 — the list leaf codecs: exact domains

  `KindOK` (Props/C16) says: on `canon` the pair round-trips. Here the converse: a list that
  round-trips lies in the stated domain — the domains are exact, no value is excluded without need. -/

open Deb822Verif.Text

theorem rawLines_no_nl (t : Str) : ∀ p ∈ rawLines t, '\n' ∉ p.1 := by
  induction t with
  | nil => intro p hp; simp [rawLines] at hp
  | cons c cs ih =>
    intro p hp
    rw [rawLines] at hp
    split at hp
    · simp only [List.mem_cons] at hp
      rcases hp with rfl | hp
      · simp
      · exact ih p hp
    · rename_i hc
      split at hp
      · simp only [List.mem_singleton] at hp
        subst hp
        simp [Ne.symm hc]
      · rename_i l t ls hr
        simp only [List.mem_cons] at hp
        rcases hp with rfl | hp
        · have := ih (l, t) (by rw [hr]; simp)
          simp only [List.mem_cons, not_or]
          exact ⟨Ne.symm hc, this⟩
        · exact ih p (by rw [hr]; simp [hp])

/-- no line of `str::lines()` contains a line feed -/
theorem lines_no_nl (t : Str) : ∀ w ∈ Text.lines t, '\n' ∉ w := by
  intro w hw
  simp only [Text.lines, List.mem_map] at hw
  obtain ⟨p, hp, rfl⟩ := hw
  have := rawLines_no_nl t p hp
  split
  · unfold stripCR
    split
    · intro h; exact this (List.dropLast_subset _ h)
    · exact this
  · exact this

theorem stripCR_eq_self (l : Str) : stripCR l = l ↔ l.getLast? ≠ some '\r' := by
  constructor
  · intro h hl
    unfold stripCR at h
    rw [if_pos hl] at h
    have := congrArg List.length h
    have hne : l ≠ [] := by intro e; subst e; simp at hl
    simp only [List.length_dropLast] at this
    have : 0 < l.length := List.length_pos_iff.mpr hne
    omega
  · exact stripCR_of_ok l

/-- the exact domain of `lines()` / `join("\n")` -/
def LinesDom (l : List Str) : Prop :=
  l = [] ∨ (l.getLast? ≠ some [] ∧ (∀ w ∈ l, '\n' ∉ w) ∧ ∀ w ∈ l.dropLast, w.getLast? ≠ some '\r')

theorem lines_join_iff (l : List Str) (hnl : ∀ w ∈ l, '\n' ∉ w) :
    Text.lines (joinWith ['\n'] l) = l ↔
      (l = [] ∨ (l.getLast? ≠ some [] ∧ ∀ w ∈ l.dropLast, w.getLast? ≠ some '\r')) := by
  induction l with
  | nil => simp [joinWith, Text.join, Text.lines, rawLines]
  | cons x r ih =>
    cases r with
    | nil =>
      simp only [joinWith, Text.join, List.getLast?_singleton, ne_eq, Option.some.injEq,
        List.dropLast_singleton, List.not_mem_nil, false_imp_iff, implies_true, and_true, reduceCtorEq,
        false_or]
      by_cases hx : x = []
      · subst hx; simp [Text.lines, rawLines]
      · simp [Text.lines, rawLines_single x hx (hnl x (by simp)), hx]
    | cons y r' =>
      have hx := hnl x (by simp)
      have ih' := ih (fun w hw => hnl w (by simp [hw]))
      have hraw := rawLines_line_cons x (joinWith ['\n'] (y :: r')) hx
      have hl : Text.lines (joinWith ['\n'] (x :: y :: r')) = stripCR x :: Text.lines (joinWith ['\n'] (y :: r')) := by
        simp only [joinWith, Text.join, List.append_assoc, List.cons_append, List.nil_append] at hraw ⊢
        simp only [Text.lines, hraw, List.map_cons, ↓reduceIte]
      rw [hl]
      simp only [List.cons.injEq, stripCR_eq_self, ih', reduceCtorEq, false_or, List.getLast?_cons_cons,
        List.dropLast_cons_cons, List.mem_cons, forall_eq_or_imp]
      constructor
      · rintro ⟨h1, h2, h3⟩; exact ⟨h2, h1, h3⟩
      · rintro ⟨h2, h1, h3⟩; exact ⟨h1, h2, h3⟩

/-- **`ftpmaster::{serialize_list, deserialize_list}` round-trips a list exactly on `LinesDom`**: the
    empty list, or: no element contains a line feed, the last element is not empty, and no element but
    the last ends in a carriage return. (`linesCodec.canon` — every element non-empty and not ending
    in CR — is a sub-domain: `["", "a"]`, `["a\r"]` round-trip as well.) -/
theorem C16_lines_roundtrip_iff (l : List Str) :
    linesCodec.de (linesCodec.ser (.list l)) = .ok (.list l) ↔ LinesDom l := by
  simp only [linesCodec, listSer, Except.ok.injEq, Val.list.injEq, LinesDom]
  constructor
  · intro h
    have hnl : ∀ w ∈ l, '\n' ∉ w := by rw [← h]; exact lines_no_nl _
    rcases (lines_join_iff l hnl).1 h with h | ⟨h1, h2⟩
    · left; exact h
    · right; exact ⟨h1, hnl, h2⟩
  · rintro (rfl | ⟨h1, hnl, h2⟩)
    · rfl
    · exact (lines_join_iff l hnl).2 (Or.inr ⟨h1, h2⟩)

theorem linesCanon_sub (l : List Str) (h : linesCodec.canon (.list l)) : LinesDom l := by
  obtain ⟨l', hl', h⟩ := h
  cases hl'
  by_cases hl : l = []
  · left; exact hl
  · right
    refine ⟨?_, fun w hw => (h w hw).2.1, fun w hw => (h w (List.dropLast_subset _ hw)).2.2⟩
    intro hlast
    exact (h [] (List.mem_of_getLast? hlast)).1 rfl

/-- **the values of `ftpmaster::Removal { sources, binaries }` that do not survive** (audit D3; the
    real code answers the same: `derive.value` requests of the generator): `Some(vec![""])` reads back
    `Some(vec![])`, `["a", ""]` reads back `["a"]`, `["a\r", "b"]` reads back `["a", "b"]`; none is in
    `LinesDom`; `["", "a"]` and `["a\r"]` are, and survive -/
theorem C16_lines_witnesses :
    linesCodec.de (linesCodec.ser (.list [[]])) = .ok (.list [])
    ∧ linesCodec.de (linesCodec.ser (.list [c!"a", []])) = .ok (.list [c!"a"])
    ∧ linesCodec.de (linesCodec.ser (.list ["a\r".toList, c!"b"])) = .ok (.list [c!"a", c!"b"])
    ∧ ¬ LinesDom [[]] ∧ ¬ LinesDom [c!"a", []] ∧ ¬ LinesDom ["a\r".toList, c!"b"]
    ∧ LinesDom [[], c!"a"] ∧ LinesDom ["a\r".toList]
    ∧ linesCodec.de (linesCodec.ser (.list [[], c!"a"])) = .ok (.list [[], c!"a"])
    ∧ linesCodec.de (linesCodec.ser (.list ["a\r".toList])) = .ok (.list ["a\r".toList]) := by
  refine ⟨by decide, by decide, by decide, ?_, ?_, ?_, ?_, ?_, by decide, by decide⟩
  · rw [← C16_lines_roundtrip_iff]; decide
  · rw [← C16_lines_roundtrip_iff]; decide
  · rw [← C16_lines_roundtrip_iff]; decide
  · rw [← C16_lines_roundtrip_iff]; decide
  · rw [← C16_lines_roundtrip_iff]; decide

/-- every piece of `split_whitespace` is non-empty and free of white space -/
theorem sw_go_pieces (s cur : Str) (hc : ∀ c ∈ cur, isWhitespace c = false) :
    ∀ w ∈ splitWhitespace.go s cur, C18.Tok w := by
  induction s generalizing cur with
  | nil =>
    intro w hw
    simp only [splitWhitespace.go] at hw
    split at hw
    · simp at hw
    · rename_i hne
      simp only [List.mem_singleton] at hw
      subst hw
      exact ⟨by simpa using hne, fun c hc' => hc c (by simpa using hc')⟩
  | cons c cs ih =>
    intro w hw
    simp only [splitWhitespace.go] at hw
    split at hw
    · split at hw
      · exact ih [] (by simp) w hw
      · rename_i hne
        simp only [List.mem_cons] at hw
        rcases hw with rfl | hw
        · exact ⟨by simpa using hne, fun c' hc' => hc c' (by simpa using hc')⟩
        · exact ih [] (by simp) w hw
    · rename_i hws
      refine ih (c :: cur) ?_ w hw
      intro c' hc'
      simp only [List.mem_cons] at hc'
      rcases hc' with rfl | hc'
      · simpa using hws
      · exact hc c' hc'

theorem sw_pieces_tok (s : Str) : ∀ w ∈ splitWhitespace s, C18.Tok w :=
  sw_go_pieces s [] (by simp)

/-- the exact domain of the `split_whitespace` list codecs: every element is a non-empty word without
    white space -/
def WordsDom (l : List Str) : Prop := ∀ w ∈ l, w ≠ [] ∧ ∀ c ∈ w, isWhitespace c = false

/-- **`split_whitespace` / `join(" ")`** (components, architectures, binaries, string chains) -/
theorem C16_words_roundtrip_iff (l : List Str) :
    wordsCodec.de (wordsCodec.ser (.list l)) = .ok (.list l) ↔ WordsDom l := by
  constructor
  · intro h w hw
    simp only [wordsCodec, listSer, Except.ok.injEq, Val.list.injEq] at h
    rw [← h] at hw
    exact sw_pieces_tok _ w hw
  · intro h; exact words_ok _ ⟨l, rfl, h⟩

/-- **`split_whitespace` / `join("\n")`** (copyright `Files`, `Files-Excluded`) -/
theorem C16_fileList_roundtrip_iff (l : List Str) :
    fileListCodec.de (fileListCodec.ser (.list l)) = .ok (.list l) ↔ WordsDom l := by
  constructor
  · intro h w hw
    simp only [fileListCodec, listSer, Except.ok.injEq, Val.list.injEq] at h
    rw [← h] at hw
    exact sw_pieces_tok _ w hw
  · intro h; exact fileList_ok _ ⟨l, rfl, h⟩

theorem splitOn_no_sep (sep : Char) (t : Str) : ∀ w ∈ splitOn sep t, sep ∉ w := by
  induction t with
  | nil => intro w hw; simp [splitOn] at hw; subst hw; simp
  | cons c cs ih =>
    intro w hw
    rw [splitOn] at hw
    split at hw
    · simp only [List.mem_cons] at hw
      rcases hw with rfl | hw
      · simp
      · exact ih w hw
    · rename_i hc
      split at hw
      · simp only [List.mem_singleton] at hw; subst hw; simp [Ne.symm hc]
      · rename_i l ls hr
        simp only [List.mem_cons] at hw
        rcases hw with rfl | hw
        · have := ih l (by rw [hr]; simp)
          simp only [List.mem_cons, not_or]; exact ⟨Ne.symm hc, this⟩
        · exact ih w (by rw [hr]; simp [hw])

/-- the exact domain of `join("\n")` / `split('\n')`-unless-empty -/
def SplitLinesDom (l : List Str) : Prop := l ≠ [[]] ∧ ∀ w ∈ l, '\n' ∉ w

/-- **`join("\n")` / `if text.is_empty() { [] } else { text.split('\n') }`** (`Package-List`,
    `Copyright`): exactly the lists other than `[""]` whose elements contain no line feed -/
theorem C16_splitLines_roundtrip_iff (l : List Str) :
    splitLinesCodec.de (splitLinesCodec.ser (.list l)) = .ok (.list l) ↔ SplitLinesDom l := by
  constructor
  · intro h
    simp only [splitLinesCodec, listSer, Except.ok.injEq, Val.list.injEq] at h
    constructor
    · rintro rfl
      simp [joinWith, Text.join] at h
    · intro w hw
      split at h
      · subst h; simp at hw
      · rw [← h] at hw; exact splitOn_no_sep '\n' _ w hw
  · intro h; exact splitLines_ok _ ⟨l, rfl, h.1, h.2⟩

/-- witnesses for the word lists (real code: `derive.value apt.Release` with these components):
    `[""]` reads back `[]`, `["a b"]` reads back `["a", "b"]` -/
theorem C16_words_witnesses :
    wordsCodec.de (wordsCodec.ser (.list [[]])) = .ok (.list [])
    ∧ wordsCodec.de (wordsCodec.ser (.list [c!"a b"])) = .ok (.list [c!"a", c!"b"])
    ∧ ¬ WordsDom [[]] ∧ ¬ WordsDom [c!"a b"]
    ∧ fileListCodec.de (fileListCodec.ser (.list [c!"a", []])) = .ok (.list [c!"a"]) := by
  refine ⟨by decide, by decide, ?_, ?_, by decide⟩
  · rw [← C16_words_roundtrip_iff]; decide
  · rw [← C16_words_roundtrip_iff]; decide

/-! ## Part 4 — the table-level round trip, with the external codecs as parameters

  `C16_structs_roundtrip` (Props/C16) demands a MODELLED codec for every present field (`LeafDomain`),
  and `Repository.URIs`, `Version` of apt.Source / apt.Package / Buildinfo are mandatory fields with an
  external codec: for these four structs its hypotheses are contradictory
  (`C16_structs_roundtrip_vacuous_rows`), for control.Source / Binary / PatchHeader it covers only values
  without any Relations / Url / date field. Here the external codecs are parameters (`ExtCodecs` of
  Props/C20): the spec of a row is `specOfRowE E`, the domain of an external field is the explicit
  per-field hypothesis `de (ser v) = ok v` (`C16_structs_roundtrip_ext`). For lossy `Relations` and
  `debversion::Version` the hypothesis is discharged by the models of Props/C20Ext
  (`C16_structs_roundtrip_rv`); for `url::Url`, chrono dates and the URI list it stays, as the named
  assumption `ExtRoundTrips`. `C16_structs_domain_inhabited` and one `example` per shipped struct show
  a realistic value inside the domain, so that no row is vacuous. -/

open Deb822Verif.Props.C20 (ExtCodecs extOf fieldSpecE specOfRowE)
open Deb822Verif.Props.C20Ext (extRV)

variable {P : Type}

/-- the old statement is empty for the four structs with a mandatory external field: a well-formed
    value has that field, and `LeafDomain` asks for a modelled codec there -/
theorem C16_structs_roundtrip_vacuous_rows :
    ∀ id ∈ [c!"aptsources.Repository", c!"apt.Source", c!"apt.Package", c!"buildinfo.Buildinfo"],
      ∃ s ∈ Gen.Structs.all, s.name = id ∧ ∃ f ∈ s.fields, f.optional = false
        ∧ ((kindOf f).map Kind.isExternal) = some true := by decide +kernel

/-- the domain of one field: `canon` of a modelled codec; for an external codec, that the codec `E`
    supplies for it reads the serialised value back -/
def FieldDomainE (E : ExtCodecs) (f : FieldRow) (v : Val) : Prop :=
  match kindOf f with
  | some (.modelled c) => c.canon v
  | some (.external _) => ∃ c, extOf E f = some c ∧ c.de (c.ser v) = .ok v
  | _ => False

def LeafDomainE (E : ExtCodecs) : List FieldRow → List (Option Val) → Prop
  | f :: fs, some v :: vs => FieldDomainE E f v ∧ LeafDomainE E fs vs
  | _ :: fs, none :: vs => LeafDomainE E fs vs
  | _, _ => True

theorem fieldDomainE_roundtrip (E : ExtCodecs) (f : FieldRow) (fs : FieldSpec Val) (v : Val)
    (h : fieldSpecE E f = some fs) (hd : FieldDomainE E f v) : fs.de (fs.ser v) = .ok v := by
  unfold fieldSpecE at h
  unfold FieldDomainE at hd
  split at h
  · rename_i c hk
    rw [hk] at hd
    simp only [Option.some.injEq] at h; subst h
    exact C16_registry_ok _ (lookupKind_mem _ _ _ hk) v hd
  · rename_i why hk
    rw [hk] at hd
    obtain ⟨c, hc, hrt⟩ := hd
    rw [hc] at h
    simp only [Option.map_some, Option.some.injEq] at h; subst h
    exact hrt
  · cases h

theorem mapM_cons_some {α β : Type} (g : α → Option β) (a : α) (as : List α) (bs : List β)
    (h : (a :: as).mapM g = some bs) : ∃ b bs', g a = some b ∧ as.mapM g = some bs' ∧ bs = b :: bs' := by
  simp only [List.mapM_cons, Option.bind_eq_bind] at h
  cases hg : g a with
  | none => simp [hg] at h
  | some b =>
    cases hr : as.mapM g with
    | none => simp [hg, hr] at h
    | some bs' =>
      simp only [hg, hr, Option.bind_some, Option.pure_def, Option.some.injEq] at h
      exact ⟨b, bs', rfl, rfl, h.symm⟩

theorem codecs_of_leafDomainE (E : ExtCodecs) (fl : List FieldRow) (spec : List (FieldSpec Val))
    (x : List (Option Val)) (hs : fl.mapM (fieldSpecE E) = some spec) (hd : LeafDomainE E fl x) :
    CodecsRoundTrip spec x := by
  induction fl generalizing spec x with
  | nil => simp at hs; subst hs; cases x <;> trivial
  | cons f fs ih =>
    obtain ⟨b, bs', hb, hbs, rfl⟩ := mapM_cons_some _ _ _ _ hs
    cases x with
    | nil => trivial
    | cons v vs =>
      cases v with
      | none => simp only [LeafDomainE] at hd; simp only [CodecsRoundTrip]; exact ih bs' vs hbs hd
      | some v =>
        simp only [LeafDomainE] at hd
        simp only [CodecsRoundTrip]
        exact ⟨fieldDomainE_roundtrip E f b v hb hd.1, ih bs' vs hbs hd.2⟩

theorem specKeys_specOfRowE (E : ExtCodecs) (fl : List FieldRow) (spec : List (FieldSpec Val))
    (hs : fl.mapM (fieldSpecE E) = some spec) :
    specKeys spec = fl.map (·.key) ∧ spec.map (·.optional) = fl.map (·.optional) := by
  induction fl generalizing spec with
  | nil => simp at hs; subst hs; exact ⟨rfl, rfl⟩
  | cons f fs ih =>
    obtain ⟨b, bs', hb, hbs, rfl⟩ := mapM_cons_some _ _ _ _ hs
    obtain ⟨h1, h2⟩ := C20.fieldSpecE_key E f b hb
    obtain ⟨i1, i2⟩ := ih bs' hbs
    simp only [specKeys] at i1
    exact ⟨by simp [specKeys, h1, i1], by simp [h2, i2]⟩

/-- **all shipped structs, external codecs as parameters**: for every struct of the generated table,
    every family `E` of codecs for the external leaf types, every lawful back-end and every value
    whose modelled fields lie in their codecs' domains and whose external fields are read back from
    their serialisation by `E`: `from_paragraph(to_paragraph(x)) = Ok(x)`, and after `update_paragraph`
    on any prior paragraph it reads back as `x` -/
theorem C16_structs_roundtrip_ext (B : Backend P) (hB : Lawful B) (E : ExtCodecs) :
    ∀ s ∈ Gen.Structs.all, ∀ spec, specOfRowE E s = some spec → ∀ x,
      WellFormed spec x → LeafDomainE E s.fields x →
      fromParagraph B spec (toParagraph B spec x) = .ok x
      ∧ ∀ p, fromParagraph B spec (updateParagraph B spec x p) = .ok x := by
  intro s hs spec hspec x hw hd
  have hk : (specKeys spec).Nodup := by
    rw [(specKeys_specOfRowE E s.fields spec hspec).1]; exact C16_structs_keys_nodup s hs
  have hc := codecs_of_leafDomainE E s.fields spec x hspec hd
  exact ⟨C16_roundtrip B hB spec x hk hw hc, fun p => C16_update_reads_back B hB spec x p hk hw hc⟩

/-- the ASSUMPTION that remains, per present field of type `url::Url`, `chrono::NaiveDate` or
    `Vec<Url>`: the real codec reads the serialised value back (checked on the real code by the
    worker's round-trip oracle on every request; not proved) -/
def ExtRoundTrips (c : LeafCodec) (v : Val) : Prop := c.de (c.ser v) = .ok v

/-- the domain of one field when lossy `Relations` and `debversion::Version` are the modelled codecs:
    their canonical values (`relationsCodec.canon`: the printed text of a value the reader returns;
    `versionCodec.canon` likewise) — no assumption; url / date / URI list: `ExtRoundTrips` -/
def FieldDomainRV (url date uris : LeafCodec) (f : FieldRow) (v : Val) : Prop :=
  match kindOf f with
  | some (.modelled c) => c.canon v
  | some (.external _) =>
    if f.ty = c!"Relations" then relationsCodec.canon v
    else if f.ty = c!"debversion::Version" then versionCodec.canon v
    else ∃ c, extOf (extRV url date uris) f = some c ∧ ExtRoundTrips c v
  | _ => False

def LeafDomainRV (url date uris : LeafCodec) : List FieldRow → List (Option Val) → Prop
  | f :: fs, some v :: vs => FieldDomainRV url date uris f v ∧ LeafDomainRV url date uris fs vs
  | _ :: fs, none :: vs => LeafDomainRV url date uris fs vs
  | _, _ => True

theorem fieldDomainE_of_rv (url date uris : LeafCodec) (f : FieldRow) (v : Val)
    (h : FieldDomainRV url date uris f v) : FieldDomainE (extRV url date uris) f v := by
  unfold FieldDomainRV at h
  unfold FieldDomainE
  cases hk : kindOf f with
  | none => rw [hk] at h; exact h
  | some kd =>
    rw [hk] at h
    cases kd with
    | modelled c => exact h
    | noRoundTrip c w => exact h
    | external why =>
      simp only at h ⊢
      split at h
      · rename_i hty
        exact ⟨relationsCodec, by simp [extOf, hty, extRV], C20Ext.C20_ext_kindOK.1 v h⟩
      · rename_i hty
        split at h
        · rename_i hty2
          refine ⟨versionCodec, ?_, C20Ext.C20_ext_kindOK.2 v h⟩
          have e1 : ¬ (c!"debversion::Version" = c!"Relations") := by decide
          have e2 : ¬ (c!"debversion::Version" = c!"url::Url") := by decide
          simp [extOf, hty2, extRV, e1, e2]
        · exact h

theorem leafDomainE_of_rv (url date uris : LeafCodec) (fl : List FieldRow) (x : List (Option Val))
    (h : LeafDomainRV url date uris fl x) : LeafDomainE (extRV url date uris) fl x := by
  induction fl generalizing x with
  | nil => cases x <;> trivial
  | cons f fs ih =>
    cases x with
    | nil => trivial
    | cons v vs =>
      cases v with
      | none => simp only [LeafDomainRV] at h; simp only [LeafDomainE]; exact ih vs h
      | some v =>
        simp only [LeafDomainRV] at h
        simp only [LeafDomainE]
        exact ⟨fieldDomainE_of_rv url date uris f v h.1, ih vs h.2⟩

/-- **all shipped structs, `Relations` and `Version` modelled**: the spec of a row takes the Lean
    models `relationsCodec` / `versionCodec` (Model/DeriveCodecs; `CodecOK` proved in Props/C20Ext) for
    these two types; a value is in the domain when every present field lies in `canon` of its codec —
    Relations and Version fields included — and the present url / date / URI-list fields satisfy the
    assumption `ExtRoundTrips` -/
theorem C16_structs_roundtrip_rv (B : Backend P) (hB : Lawful B) (url date uris : LeafCodec) :
    ∀ s ∈ Gen.Structs.all, ∀ spec, specOfRowE (extRV url date uris) s = some spec → ∀ x,
      WellFormed spec x → LeafDomainRV url date uris s.fields x →
      fromParagraph B spec (toParagraph B spec x) = .ok x
      ∧ ∀ p, fromParagraph B spec (updateParagraph B spec x p) = .ok x :=
  fun s hs spec hspec x hw hd =>
    C16_structs_roundtrip_ext B hB _ s hs spec hspec x hw (leafDomainE_of_rv url date uris s.fields x hd)

/-- the same on the lossless paragraph, any prior tree -/
theorem C16_lossless_structs_roundtrip_rv (url date uris : LeafCodec) :
    ∀ s ∈ Gen.Structs.all, ∀ spec, specOfRowE (extRV url date uris) s = some spec → ∀ x,
      WellFormed spec x → LeafDomainRV url date uris s.fields x →
      fromParagraph losslessBackend spec (toParagraph losslessBackend spec x) = .ok x
      ∧ ∀ p, fromParagraph losslessBackend spec (updateParagraph losslessBackend spec x p) = .ok x :=
  C16_structs_roundtrip_rv losslessBackend C16_lossless_lawful url date uris

/-! ### a decidable check of the domain, and one inhabitant per shipped struct

  `Kind` holds functions, so `kindOf f = some (.modelled wordsCodec)` is not decidable. `Tag` names the
  registry's codecs; `registryTags` is the registry with tags instead of codecs (`registry_tags`: entry
  for entry the same keys, and the tag names the codec); `canonB` decides `canon` per tag. -/

inductive Tag
  | str | bool | u32 | usize | priority | multiArch | yesNoForce | vcs | fwd | origin | license | sig
  | yesnoControl | yesnoApt | jaNee | words | splitLines | fileList | lines | types | env | originField
  | ext
  deriving DecidableEq, Repr

def codecOfTag : Tag → Option LeafCodec
  | .str => some strCodec
  | .bool => some boolCodec
  | .u32 => some (natCodec (2 ^ 32))
  | .usize => some (natCodec Codec.usizeBound)
  | .priority => some (enumCodec Gen.Enums.priority errPriority)
  | .multiArch => some (enumCodec Gen.Enums.multiArch errMultiArch)
  | .yesNoForce => some (enumCodec Gen.Enums.yesNoForce errRepoType)
  | .vcs => some vcsCodec
  | .fwd => some fwdCodec
  | .origin => some originCodec
  | .license => some licenseCodec
  | .sig => some sigCodec
  | .yesnoControl => some (yesnoCodec errYesnoControl)
  | .yesnoApt => some (yesnoCodec errYesnoApt)
  | .jaNee => some jaNeeCodec
  | .words => some wordsCodec
  | .splitLines => some splitLinesCodec
  | .fileList => some fileListCodec
  | .lines => some linesCodec
  | .types => some typesCodec
  | .env => some envCodec
  | .originField => some originFieldCodec
  | .ext => none

def tagMatches (t : Tag) : Derive.Kind → Prop
  | .modelled c => codecOfTag t = some c
  | .external _ => t = .ext
  | .noRoundTrip _ _ => False

def registryTags : List ((Str × Str × Str) × Tag) := [
  ((c!"", c!"", c!"String"), .str),
  ((c!"", c!"", c!"bool"), .bool),
  ((c!"", c!"", c!"u32"), .u32),
  ((c!"", c!"", c!"usize"), .usize),
  ((c!"", c!"", c!"i32"), .ext),
  ((c!"", c!"", c!"Priority"), .priority),
  ((c!"", c!"", c!"crate::fields::Priority"), .priority),
  ((c!"", c!"", c!"crate::fields::MultiArch"), .multiArch),
  ((c!"", c!"", c!"MultiArch"), .multiArch),
  ((c!"", c!"", c!"YesNoForce"), .yesNoForce),
  ((c!"", c!"", c!"crate::vcs::ParsedVcs"), .vcs),
  ((c!"", c!"", c!"Forwarded"), .fwd),
  ((c!"", c!"", c!"AppliedUpstream"), .origin),
  ((c!"", c!"", c!"License"), .license),
  ((c!"", c!"", c!"Signature"), .sig),
  ((c!"", c!"", c!"Relations"), .ext),
  ((c!"", c!"", c!"url::Url"), .ext),
  ((c!"", c!"", c!"debversion::Version"), .ext),
  ((c!"buildinfo.serialize_version", c!"buildinfo.deserialize_version", c!"debversion::Version"), .ext),
  ((c!"dep3.serialize_date", c!"dep3.deserialize_date", c!"chrono::NaiveDate"), .ext),
  ((c!"aptsources.serialize_uris", c!"aptsources.deserialize_uris", c!"Vec<Url>"), .ext),
  ((c!"control.serialize_yesno", c!"control.deserialize_yesno", c!"bool"), .yesnoControl),
  ((c!"aptsources.serializer_yesno", c!"aptsources.deserialize_yesno", c!"bool"), .yesnoApt),
  ((c!"derive.syn_ser_yesno", c!"derive.syn_de_yesno", c!"bool"), .yesnoControl),
  ((c!"convert.from_bool", c!"convert.to_bool", c!"bool"), .jaNee),
  ((c!"apt.join_whitespace", c!"apt.deserialize_components", c!"Vec<String>"), .words),
  ((c!"apt.join_whitespace", c!"apt.deserialize_architectures", c!"Vec<String>"), .words),
  ((c!"apt.join_whitespace", c!"apt.deserialize_binaries", c!"Vec<String>"), .words),
  ((c!"aptsources.serialize_string_chain", c!"aptsources.deserialize_string_chain", c!"Vec<String>"), .words),
  ((c!"derive.syn_ser_words", c!"derive.syn_de_words", c!"Vec<String>"), .words),
  ((c!"apt.join_lines", c!"apt.deserialize_package_list", c!"Vec<String>"), .splitLines),
  ((c!"debiancopyright.serialize_copyrights", c!"debiancopyright.deserialize_copyrights", c!"Vec<String>"), .splitLines),
  ((c!"debiancopyright.serialize_file_list", c!"debiancopyright.deserialize_file_list", c!"Vec<String>"), .fileList),
  ((c!"ftpmaster.serialize_list", c!"ftpmaster.deserialize_list", c!"Vec<String>"), .lines),
  ((c!"aptsources.serialize_types", c!"aptsources.deserialize_types", c!"HashSet<RepositoryType>"), .types),
  ((c!"buildinfo.serialize_env", c!"buildinfo.deserialize_env", c!"HashMap<String, String>"), .env),
  ((c!"buildinfo.serialize_pathbuf", c!"buildinfo.deserialize_pathbuf", c!"PathBuf"), .str),
  ((c!"dep3.serialize_origin", c!"dep3.deserialize_origin", c!"(Option<OriginCategory>, Origin)"), .originField)
]

def Aligned : List ((Str × Str × Str) × Derive.Kind) → List ((Str × Str × Str) × Tag) → Prop
  | [], [] => True
  | e :: r, et :: rt => e.1 = et.1 ∧ tagMatches et.2 e.2 ∧ Aligned r rt
  | _, _ => False

/-- the tag table is the registry: the same keys in the same order, each tag names that entry's codec -/
theorem registry_tags : Aligned registry registryTags := by
  unfold registry registryTags
  simp only [Aligned]
  repeat (first | exact trivial | refine ⟨trivial, rfl, ?_⟩)

def lookupTag (k : Str × Str × Str) : List ((Str × Str × Str) × Tag) → Option Tag
  | [] => none
  | e :: r => if e.1 = k then some e.2 else lookupTag k r

def tagOf (f : FieldRow) : Option Tag := lookupTag (f.ser, f.de, f.ty) registryTags

theorem lookup_tag_kind (k : Str × Str × Str) (reg : List ((Str × Str × Str) × Derive.Kind))
    (tags : List ((Str × Str × Str) × Tag)) (h : Aligned reg tags) (t : Tag) (ht : lookupTag k tags = some t) :
    ∃ kd, lookupKind k reg = some kd ∧ tagMatches t kd := by
  induction reg generalizing tags with
  | nil => cases tags <;> simp [Aligned, lookupTag] at h ht
  | cons e r ih =>
    cases tags with
    | nil => simp [Aligned] at h
    | cons et rt =>
      simp only [Aligned] at h
      obtain ⟨h1, h2, h3⟩ := h
      simp only [lookupTag] at ht
      simp only [lookupKind]
      rw [h1]
      split at ht
      · rename_i hk
        simp only [Option.some.injEq] at ht
        subst ht
        exact ⟨e.2, by simp [hk], h2⟩
      · rename_i hk
        simp only [hk, ↓reduceIte]
        exact ih rt h3 ht

theorem kindOf_of_tag (f : FieldRow) (t : Tag) (h : tagOf f = some t) :
    ∃ kd, kindOf f = some kd ∧ tagMatches t kd :=
  lookup_tag_kind _ _ _ registry_tags t h

/-- `canon` of the codec a tag names, as a Boolean -/
def canonB : Tag → Val → Bool
  | .str, .str _ => true
  | .bool, .bool _ => true
  | .yesnoControl, .bool _ => true
  | .yesnoApt, .bool _ => true
  | .jaNee, .bool _ => true
  | .u32, .nat n => decide (n < 2 ^ 32)
  | .usize, .nat n => decide (n < Codec.usizeBound)
  | .priority, .kw k => decide (k ∈ Gen.Enums.priority.variants)
  | .multiArch, .kw k => decide (k ∈ Gen.Enums.multiArch.variants)
  | .yesNoForce, .kw k => decide (k ∈ Gen.Enums.yesNoForce.variants)
  | .vcs, .vcs x => decide (Codec.ParsedVcs.parse x.print = x)
  | .fwd, .fwd x => decide (Codec.Forwarded.parse x.print = x)
  | .origin, .origin x => decide (Codec.Origin.parse x.print = x)
  | .license, .license x => decide (Codec.License.parse x.print = x)
  | .sig, .sig x => decide (Codec.Signature.parse x.print = x)
  | .originField, .originField c o => decide (Codec.parseOrigin (Codec.formatOrigin c o) = (c, o))
  | .words, .list l => decide (∀ w ∈ l, w ≠ [] ∧ ∀ c ∈ w, Text.isWhitespace c = false)
  | .fileList, .list l => decide (∀ w ∈ l, w ≠ [] ∧ ∀ c ∈ w, Text.isWhitespace c = false)
  | .splitLines, .list l => decide (l ≠ [[]] ∧ ∀ w ∈ l, '\n' ∉ w)
  | .lines, .list l => decide (∀ w ∈ l, w ≠ [] ∧ '\n' ∉ w ∧ w.getLast? ≠ some '\r')
  | .types, v => decide (v = .list [] ∨ v = .list [c!"deb"] ∨ v = .list [c!"deb-src"] ∨ v = .list [c!"deb", c!"deb-src"])
  | .env, .map m => decide (m.Pairwise (fun p q => Codec.strLt p.1 q.1 = true)
      ∧ ∀ p ∈ m, '=' ∉ p.1 ∧ '\n' ∉ p.1 ∧ '\n' ∉ p.2 ∧ (envPiece p).getLast? ≠ some '\r')
  | _, _ => false

theorem canonB_sound (t : Tag) (v : Val) (h : canonB t v = true) (c : LeafCodec) (hc : codecOfTag t = some c) :
    c.canon v := by
  cases t <;> simp only [codecOfTag, Option.some.injEq, reduceCtorEq] at hc <;> subst hc <;>
    cases v <;> simp only [canonB, decide_eq_true_eq, Bool.false_eq_true] at h
  all_goals first
    | exact ⟨_, rfl⟩
    | exact ⟨_, rfl, h⟩
    | exact ⟨_, _, rfl, h⟩
    | exact ⟨_, rfl, h.1, h.2⟩
    | exact h

/-- the Boolean form of the external branch of `FieldDomainRV` -/
def extDomB (url date uris : LeafCodec) (f : FieldRow) (v : Val) : Bool :=
  if f.ty = c!"Relations" then
    (match v with | .ext t => decide (relationsCodec.de t = .ok (.ext t)) | _ => false)
  else if f.ty = c!"debversion::Version" then
    (match v with | .ext t => decide (versionCodec.de t = .ok (.ext t)) | _ => false)
  else match extOf (extRV url date uris) f with
    | some c => decide (c.de (c.ser v) = .ok v)
    | none => false

/-- the Boolean form of `FieldDomainRV` -/
def fieldDomB (url date uris : LeafCodec) (f : FieldRow) (v : Val) : Bool :=
  match tagOf f with
  | none => false
  | some t => if t = .ext then extDomB url date uris f v else canonB t v

theorem fieldDomB_sound (url date uris : LeafCodec) (f : FieldRow) (v : Val)
    (h : fieldDomB url date uris f v = true) : FieldDomainRV url date uris f v := by
  unfold fieldDomB at h
  split at h
  · cases h
  · rename_i t ht
    obtain ⟨kd, hk, hm⟩ := kindOf_of_tag f t ht
    unfold FieldDomainRV
    rw [hk]
    cases kd with
    | noRoundTrip c w => exact hm.elim
    | modelled c =>
      simp only [tagMatches] at hm
      have hne : t ≠ .ext := by intro e; subst e; simp [codecOfTag] at hm
      rw [if_neg hne] at h
      exact canonB_sound t v h c hm
    | external why =>
      simp only [tagMatches] at hm
      rw [if_pos hm] at h
      unfold extDomB at h
      simp only
      split at h
      · rename_i hty
        rw [if_pos hty]
        cases v <;> simp only [Bool.false_eq_true, decide_eq_true_eq] at h
        rename_i tx
        obtain ⟨rs, hr, he⟩ := C20Ext.relationsCodec_de_ok tx _ h
        have e : tx = Rel.Lossy.showRelations rs := by simpa using he
        exact ⟨rs, by rw [← e]; exact hr, by rw [← e]⟩
      · rename_i hty
        rw [if_neg hty]
        split at h
        · rename_i hty2
          rw [if_pos hty2]
          cases v <;> simp only [Bool.false_eq_true, decide_eq_true_eq] at h
          rename_i tx
          obtain ⟨x, hx, he⟩ := C20Ext.versionCodec_de_ok tx _ h
          have e : tx = x.display := by simpa using he
          exact ⟨x, by rw [← e]; exact hx, by rw [← e]⟩
        · rename_i hty2
          rw [if_neg hty2]
          split at h
          · rename_i c hc
            exact ⟨c, hc, by simpa [ExtRoundTrips] using h⟩
          · cases h

def leafDomB (url date uris : LeafCodec) : List FieldRow → List (Option Val) → Bool
  | f :: fs, some v :: vs => fieldDomB url date uris f v && leafDomB url date uris fs vs
  | _ :: fs, none :: vs => leafDomB url date uris fs vs
  | _, _ => true

theorem leafDomB_sound (url date uris : LeafCodec) (fl : List FieldRow) (x : List (Option Val))
    (h : leafDomB url date uris fl x = true) : LeafDomainRV url date uris fl x := by
  induction fl generalizing x with
  | nil => cases x <;> trivial
  | cons f fs ih =>
    cases x with
    | nil => trivial
    | cons v vs =>
      cases v with
      | none => simp only [leafDomB] at h; simp only [LeafDomainRV]; exact ih vs h
      | some v =>
        simp only [leafDomB, Bool.and_eq_true] at h
        simp only [LeafDomainRV]
        exact ⟨fieldDomB_sound url date uris f v h.1, ih vs h.2⟩

/-- one value per field, mandatory ones present -/
def wfB : List FieldRow → List (Option Val) → Bool
  | [], [] => true
  | f :: fs, v :: vs => (f.optional || v.isSome) && wfB fs vs
  | _, _ => false

theorem wfB_sound (E : ExtCodecs) (fl : List FieldRow) (spec : List (FieldSpec Val)) (x : List (Option Val))
    (hs : fl.mapM (fieldSpecE E) = some spec) (h : wfB fl x = true) : WellFormed spec x := by
  induction fl generalizing spec x with
  | nil => simp at hs; subst hs; cases x <;> simp_all [wfB, WellFormed]
  | cons f fs ih =>
    obtain ⟨b, bs', hb, hbs, rfl⟩ := mapM_cons_some _ _ _ _ hs
    cases x with
    | nil => simp [wfB] at h
    | cons v vs =>
      simp only [wfB, Bool.and_eq_true, Bool.or_eq_true] at h
      simp only [WellFormed]
      refine ⟨?_, ih bs' vs hbs h.2⟩
      intro ho
      rw [(C20.fieldSpecE_key E f b hb).2] at ho
      rcases h.1 with h1 | h1
      · rw [ho] at h1; cases h1
      · exact h1

/-- the struct row `s` has a value in the domain of `C16_structs_roundtrip_rv` (url / date / URI list
    instantiated by the identity codec on canonical texts, as in `C20Ext.E1`) that is read from the
    paragraph `para` and has exactly the fields of `para` -/
def DomainInhabitedBy (s : StructRow) (para : List (Str × Str)) : Prop :=
  ∃ spec x, specOfRowE C20Ext.E1 s = some spec
    ∧ fromFields (lookupFirst para) spec = .ok x
    ∧ WellFormed spec x ∧ LeafDomainRV extCodec extCodec extCodec s.fields x
    ∧ presentKeys spec x = para.map (·.1)

def inhabitedB (s : StructRow) (para : List (Str × Str)) : Bool :=
  match specOfRowE C20Ext.E1 s with
  | none => false
  | some spec =>
    match fromFields (lookupFirst para) spec with
    | .error _ => false
    | .ok x => wfB s.fields x && leafDomB extCodec extCodec extCodec s.fields x
        && decide (presentKeys spec x = para.map (·.1))

theorem inhabited_of_check (s : StructRow) (para : List (Str × Str)) (h : inhabitedB s para = true) :
    DomainInhabitedBy s para := by
  unfold inhabitedB at h
  split at h
  · cases h
  · rename_i spec hs
    split at h
    · cases h
    · rename_i x hx
      simp only [Bool.and_eq_true, decide_eq_true_eq] at h
      exact ⟨spec, x, hs, hx, wfB_sound _ _ _ _ hs h.1.1, leafDomB_sound _ _ _ _ _ h.1.2, h.2⟩

/-! #### the twelve shipped structs: a realistic paragraph each, every external kind present -/

def exRepository : List (Str × Str) := [
  (c!"Enabled", c!"yes"), (c!"Types", c!"deb deb-src"), (c!"URIs", c!"https://deb.debian.org/debian"),
  (c!"Suites", c!"bookworm bookworm-updates"), (c!"Components", c!"main contrib"),
  (c!"Architectures", c!"amd64 arm64"), (c!"By-Hash", c!"force"), (c!"Trusted", c!"true"),
  (c!"Signed-By", c!"/usr/share/keyrings/debian-archive-keyring.gpg"), (c!"Description", c!"Debian stable")]

def exRelease : List (Str × Str) := [
  (c!"Codename", c!"bookworm"), (c!"Components", c!"main contrib non-free"), (c!"Architectures", c!"amd64 arm64"),
  (c!"Description", c!"Debian 12.5"), (c!"Origin", c!"Debian"), (c!"Label", c!"Debian"), (c!"Suite", c!"stable"),
  (c!"Version", c!"12.5"), (c!"Date", c!"Sat, 10 Feb 2024 11:07:25 UTC"), (c!"NotAutomatic", c!"false"),
  (c!"ButAutomaticUpgrades", c!"false"), (c!"Acquire-By-Hash", c!"true")]

def exAptSource : List (Str × Str) := [
  (c!"Directory", c!"pool/main/h/hello"), (c!"Version", c!"2.10-3"), (c!"Package", c!"hello"),
  (c!"Binary", c!"hello hello-doc"), (c!"Maintainer", c!"Santiago Vila <sanvila@debian.org>"),
  (c!"Build-Depends", c!"debhelper-compat (= 13)"), (c!"Build-Depends-Indep", c!"texinfo (>= 6), help2man"),
  (c!"Build-Conflicts", c!"autoconf2.13"), (c!"Standards-Version", c!"4.6.2"), (c!"Autobuild", c!"true"),
  (c!"Priority", c!"optional"), (c!"Section", c!"devel"), (c!"Format", c!"3.0 (quilt)"),
  (c!"Package-List", "hello deb devel optional arch=any\nhello-doc deb doc optional arch=all".toList)]

def exAptPackage : List (Str × Str) := [
  (c!"Package", c!"hello"), (c!"Version", c!"1:2.10-3+b1"), (c!"Architecture", c!"amd64"),
  (c!"Maintainer", c!"Santiago Vila <sanvila@debian.org>"), (c!"Installed-Size", c!"280"),
  (c!"Depends", c!"libc6 (>= 2.34), hello-data | hello-common"), (c!"Recommends", c!"hello-doc"),
  (c!"Conflicts", c!"hello-traditional"), (c!"Description", c!"example package based on GNU hello"),
  (c!"Priority", c!"optional"), (c!"Section", c!"devel"), (c!"Essential", c!"false"), (c!"Size", c!"56132"),
  (c!"SHA256", c!"52b0cad2e741dd722c3e2e16a0aae57341619248ad8bc3ee1b3e40b7d1f38b0d")]

def exBuildinfo : List (Str × Str) := [
  (c!"Format", c!"1.0"), (c!"Build-Architecture", c!"amd64"), (c!"Source", c!"hello"), (c!"Binary", c!"hello"),
  (c!"Architecture", c!"amd64"), (c!"Version", c!"2.10-3"), (c!"Build-Path", c!"/build/hello-2.10"),
  (c!"Environment", "DEB_BUILD_OPTIONS=parallel=4\nLANG=C".toList),
  (c!"Installed-Build-Depends", c!"gcc (= 4:12.2.0-3), libc6 (>= 2.36)")]

def exControlSource : List (Str × Str) := [
  (c!"Source", c!"hello"), (c!"Build-Depends", c!"debhelper-compat (= 13), gcc [amd64] <!nocheck>"),
  (c!"Build-Conflicts", c!"autoconf2.13"), (c!"Standards-Version", c!"4.6.2"),
  (c!"Homepage", c!"https://www.gnu.org/software/hello/"), (c!"Section", c!"devel"), (c!"Priority", c!"optional"),
  (c!"Maintainer", c!"Santiago Vila <sanvila@debian.org>"), (c!"Rules-Requires-Root", c!"no"),
  (c!"Vcs-Git", c!"https://salsa.debian.org/sanvila/hello.git -b debian/latest"),
  (c!"Vcs-Browser", c!"https://salsa.debian.org/sanvila/hello")]

def exControlBinary : List (Str × Str) := [
  (c!"Package", c!"hello"), (c!"Depends", c!"libc6:any (>= 2.34) [amd64 !i386], hello-data | hello-common"),
  (c!"Suggests", c!"hello-doc"), (c!"Architecture", c!"any"), (c!"Section", c!"devel"), (c!"Priority", c!"optional"),
  (c!"Multi-Arch", c!"foreign"), (c!"Essential", c!"no"),
  (c!"Description", "example package based on GNU hello\nThe GNU hello program produces a familiar, friendly greeting.".toList)]

def exRemoval : List (Str × Str) := [
  (c!"Date", c!"Mon, 01 Jan 2024 00:00:00 +0000"), (c!"Suite", c!"unstable"), (c!"Ftpmaster", c!"Joe Admin"),
  (c!"Sources", "foo_1.0-1\nbar_2.0-1".toList), (c!"Binaries", "foo_1.0-1 [amd64, i386]\nlibfoo1_1.0-1 [all]".toList),
  (c!"Reason", c!"ROM; obsolete"), (c!"Bug", c!"1000000")]

def exHeader : List (Str × Str) := [
  (c!"Format", c!"https://www.debian.org/doc/packaging-manuals/copyright-format/1.0/"),
  (c!"Files-Excluded", "vendor/*\nnode_modules".toList), (c!"Source", c!"https://ftp.gnu.org/gnu/hello/"),
  (c!"Upstream-Contact", c!"bug-hello@gnu.org")]

def exLicensePara : List (Str × Str) := [
  (c!"License", "GPL-3+\nThis program is free software\n.\nsee /usr/share/common-licenses/GPL-3".toList),
  (c!"Comment", c!"as upstream")]

def exFilesPara : List (Str × Str) := [
  (c!"Files", "src/*\ndebian/*".toList), (c!"License", c!"GPL-3+"),
  (c!"Copyright", "1992-2022 Free Software Foundation, Inc.\n2020 Santiago Vila".toList), (c!"Comment", c!"x")]

def exPatchHeader : List (Str × Str) := [
  (c!"Origin", c!"upstream, https://git.savannah.gnu.org/cgit/hello.git/commit/?id=abc"),
  (c!"Forwarded", c!"https://lists.gnu.org/archive/html/bug-hello/2024-01/msg00000.html"),
  (c!"Author", c!"A U Thor <author@example.org>"), (c!"Reviewed-by", c!"R E Viewer <rev@example.org>"),
  (c!"Bug-Debian", c!"https://bugs.debian.org/123456"), (c!"Last-Update", c!"2024-01-31"),
  (c!"Applied-Upstream", c!"commit:abc123"), (c!"Bug", c!"https://savannah.gnu.org/bugs/?1"),
  (c!"Description", c!"fix the greeting")]

/-- the shipped structs with their example paragraphs -/
def shippedExamples : List (Str × List (Str × Str)) := [
  (c!"aptsources.Repository", exRepository), (c!"apt.Release", exRelease), (c!"apt.Source", exAptSource),
  (c!"apt.Package", exAptPackage), (c!"buildinfo.Buildinfo", exBuildinfo), (c!"control.Source", exControlSource),
  (c!"control.Binary", exControlBinary), (c!"ftpmaster.Removal", exRemoval), (c!"debiancopyright.Header", exHeader),
  (c!"debiancopyright.LicenseParagraph", exLicensePara), (c!"debiancopyright.FilesParagraph", exFilesPara),
  (c!"dep3.PatchHeader", exPatchHeader)]

def rowNamed (id : Str) : Option StructRow := Gen.Structs.all.find? (·.name == id)

/-- **no row of the shipped table is vacuous**: each of the twelve shipped structs has a realistic
    value — read from the paragraph given above, with its Relations / Version / Url / date / URI-list
    fields PRESENT — that is well-formed and lies in the domain of `C16_structs_roundtrip_rv` -/
theorem C16_structs_domain_inhabited :
    ∀ e ∈ shippedExamples, ∃ s ∈ Gen.Structs.all, s.name = e.1 ∧ DomainInhabitedBy s e.2 := by
  have key : ∀ e ∈ shippedExamples, ∃ s ∈ Gen.Structs.all, s.name = e.1 ∧ inhabitedB s e.2 = true := by
    decide +kernel
  intro e he
  obtain ⟨s, hs, hn, hb⟩ := key e he
  exact ⟨s, hs, hn, inhabited_of_check s e.2 hb⟩

/-- every struct of the table that the harness drives and that is not synthetic is in the list -/
example : shippedExamples.map (·.1)
    = (Gen.Structs.all.map (·.name)).filter (fun n => !(c!"convert.").isPrefixOf n && !(c!"derive.").isPrefixOf n) := by
  decide +kernel

example : DomainInhabitedBy Gen.Structs.s0_aptsources_Repository exRepository := inhabited_of_check _ _ (by decide +kernel)
example : DomainInhabitedBy Gen.Structs.s1_apt_Release exRelease := inhabited_of_check _ _ (by decide +kernel)
example : DomainInhabitedBy Gen.Structs.s2_apt_Source exAptSource := inhabited_of_check _ _ (by decide +kernel)
example : DomainInhabitedBy Gen.Structs.s3_apt_Package exAptPackage := inhabited_of_check _ _ (by decide +kernel)
example : DomainInhabitedBy Gen.Structs.s4_buildinfo_Buildinfo exBuildinfo := inhabited_of_check _ _ (by decide +kernel)
example : DomainInhabitedBy Gen.Structs.s5_control_Source exControlSource := inhabited_of_check _ _ (by decide +kernel)
example : DomainInhabitedBy Gen.Structs.s6_control_Binary exControlBinary := inhabited_of_check _ _ (by decide +kernel)
example : DomainInhabitedBy Gen.Structs.s7_ftpmaster_Removal exRemoval := inhabited_of_check _ _ (by decide +kernel)
example : DomainInhabitedBy Gen.Structs.s8_debiancopyright_Header exHeader := inhabited_of_check _ _ (by decide +kernel)
example : DomainInhabitedBy Gen.Structs.s9_debiancopyright_LicenseParagraph exLicensePara := inhabited_of_check _ _ (by decide +kernel)
example : DomainInhabitedBy Gen.Structs.s10_debiancopyright_FilesParagraph exFilesPara := inhabited_of_check _ _ (by decide +kernel)
example : DomainInhabitedBy Gen.Structs.s11_dep3_PatchHeader exPatchHeader := inhabited_of_check _ _ (by decide +kernel)

/-- and the theorem applied to one of them: the `.buildinfo` value (mandatory external `Version`, a
    `Relations` field, the environment map) round-trips on the lossless paragraph and reads back after
    an update of any prior tree -/
example : ∃ spec x, specOfRowE C20Ext.E1 Gen.Structs.s4_buildinfo_Buildinfo = some spec
    ∧ fromFields (lookupFirst exBuildinfo) spec = .ok x
    ∧ fromParagraph losslessBackend spec (toParagraph losslessBackend spec x) = .ok x
    ∧ ∀ p, fromParagraph losslessBackend spec (updateParagraph losslessBackend spec x p) = .ok x := by
  obtain ⟨spec, x, h1, h2, h3, h4, _⟩ :=
    inhabited_of_check Gen.Structs.s4_buildinfo_Buildinfo exBuildinfo (by decide +kernel)
  have := C16_lossless_structs_roundtrip_rv extCodec extCodec extCodec _ (by decide +kernel) spec h1 x h3 h4
  exact ⟨spec, x, h1, h2, this.1, this.2⟩

/-! ## Part 5 — lossless: comments and formatting of untouched fields are unchanged

  Clause of the property text: "on lossless paragraphs, all comments and formatting of untouched
  fields [are] unchanged" by `update_paragraph`. `C16_lossless_update_keeps_foreign_items` speaks about
  (name, value) pairs; here the statement is about the NODES: every child of the PARAGRAPH node that is
  not an entry of an owned key — comment tokens, stray tokens, entries of foreign fields with all their
  tokens (the blanks after the colon, tabs, indentation of continuation lines, comments inside) — is
  the same node at the same relative position afterwards. The one exception is the line terminator
  `terminate_last_line` supplies before a new entry is appended: when the paragraph's last child at
  that moment is a foreign one whose line is unterminated, a NEWLINE token is added after it (a token)
  or at the end of its last line (a node).

  Built on the per-operation frame theorems of C04 (`C04_frame_set`, `C04_frame_remove`,
  `C04_refine_insert`) and on the shape of `terminateLastLine` (it rewrites only the last child:
  `terminateLast_snoc'`, `text_terminateLast_node` of Lemmas/DebEditFrame). "Untouched" = not owned:
  an owned field is rewritten even when its value does not change (its own layout is normalised). -/

open Deb822Verif.Props.C04 (pitems childItem)

/-- the child is an entry of one of the keys `ks` -/
def ownNode (ks : List Str) (c : DNode) : Bool := ks.any fun k => isEntryWithKey k c

/-- the children that are not entries of a key of `ks`: comments, other tokens, foreign entries -/
def foreignNodes (ks : List Str) (cs : List DNode) : List DNode := cs.filter fun c => !ownNode ks c

theorem isEntryWithKey_iff (k : Str) (c : DNode) :
    isEntryWithKey k c = true ↔ ∃ v, childItem c = [(k, v)] := by
  constructor
  · exact C04.childItem_key c k
  · rintro ⟨v, hv⟩
    unfold childItem at hv
    split at hv
    · rename_i he
      split at hv
      · rename_i k' hk
        simp only [List.cons.injEq, Prod.mk.injEq, and_true] at hv
        simp only [isEntryWithKey, he, hk, hv.1, Bool.true_and, beq_self_eq_true]
      · simp at hv
    · simp at hv

theorem ownNode_iff (ks : List Str) (c : DNode) :
    ownNode ks c = true ↔ ∃ k ∈ ks, ∃ v, childItem c = [(k, v)] := by
  simp only [ownNode, List.any_eq_true, isEntryWithKey_iff]

/-- being owned depends on the (name, value) of the child only -/
theorem ownNode_congr (ks : List Str) (c c' : DNode) (h : childItem c = childItem c') :
    ownNode ks c = ownNode ks c' := by
  rw [Bool.eq_iff_iff, ownNode_iff, ownNode_iff, h]

theorem ownNode_of_key (ks : List Str) (k : Str) (hk : k ∈ ks) (c : DNode) (h : isEntryWithKey k c = true) :
    ownNode ks c = true := by
  simp only [ownNode, List.any_eq_true]; exact ⟨k, hk, h⟩

theorem isEntryWithKey_new (k v : Str) : isEntryWithKey k (entryNew k v) = true := by
  rw [isEntryWithKey_iff]; exact ⟨v, C04.childItem_new k v⟩

theorem ownNode_tok (ks : List Str) (κ : Deb.Kind) (t : Str) : ownNode ks (.tok κ t) = false := by
  cases h : ownNode ks (.tok κ t) with
  | false => rfl
  | true =>
    obtain ⟨k, _, v, hv⟩ := (ownNode_iff ks _).1 h
    simp [childItem, Node.isNode] at hv

/-- one key per entry -/
theorem isEntryWithKey_unique (k k' : Str) (c : DNode) (h : isEntryWithKey k c = true)
    (h' : isEntryWithKey k' c = true) : k = k' := by
  obtain ⟨v, hv⟩ := (isEntryWithKey_iff k c).1 h
  obtain ⟨v', hv'⟩ := (isEntryWithKey_iff k' c).1 h'
  rw [hv] at hv'
  simpa using (List.cons.inj hv').1 |> congrArg Prod.fst

/-! ### the single steps -/

theorem foreign_append (ks : List Str) (a b : List DNode) :
    foreignNodes ks (a ++ b) = foreignNodes ks a ++ foreignNodes ks b := by
  simp [foreignNodes]

theorem foreign_own (ks : List Str) (c : DNode) (h : ownNode ks c = true) : foreignNodes ks [c] = [] := by
  simp [foreignNodes, h]

theorem foreign_not_own (ks : List Str) (c : DNode) (h : ownNode ks c = false) : foreignNodes ks [c] = [c] := by
  simp [foreignNodes, h]

/-- `remove` of an owned key drops owned entries only -/
theorem foreign_paraRemove (ks : List Str) (k : Str) (hk : k ∈ ks) (cs : List DNode) :
    foreignNodes ks (paraRemove cs k) = foreignNodes ks cs := by
  unfold foreignNodes paraRemove
  rw [List.filter_filter]
  apply List.filter_congr
  intro c _
  cases h : isEntryWithKey k c with
  | false => simp
  | true => simp [ownNode_of_key ks k hk c h]

/-- replacing an owned entry in place by the fresh entry -/
theorem foreign_replace (ks : List Str) (k v : Str) (hk : k ∈ ks) (pre post : List DNode) (e : DNode)
    (he : isEntryWithKey k e = true) :
    foreignNodes ks (pre ++ entryNew k v :: post) = foreignNodes ks (pre ++ e :: post) := by
  rw [show pre ++ entryNew k v :: post = pre ++ ([entryNew k v] ++ post) from rfl,
    show pre ++ e :: post = pre ++ ([e] ++ post) from rfl]
  simp only [foreign_append, foreign_own ks _ (ownNode_of_key ks k hk _ (isEntryWithKey_new k v)),
    foreign_own ks _ (ownNode_of_key ks k hk _ he)]

theorem foreign_snoc_new (ks : List Str) (k v : Str) (hk : k ∈ ks) (xs : List DNode) :
    foreignNodes ks (xs ++ [entryNew k v]) = foreignNodes ks xs := by
  rw [foreign_append, foreign_own ks _ (ownNode_of_key ks k hk _ (isEntryWithKey_new k v)), List.append_nil]

/-- `terminate_last_line` does not change what is read (from `C04_refine_insert`) -/
theorem pitems_terminate (cs : List DNode) : pitems (terminateLastLine cs) = pitems cs := by
  have h := C04.C04_refine_insert cs [] []
  simp only [paraInsert, C04.pitems_append, C04.ListSpec.insert] at h
  have h1 : pitems [entryNew [] []] = [([], [])] := by
    rw [C04.pitems_eq]; simp [C04.childItem_new]
  rw [h1] at h
  exact List.append_cancel_right h

/-- **the shape of `terminate_last_line`, sharp**: nothing changes; or the last child is a token and
    a NEWLINE token is put after it; or the last child is a node and it is replaced by ONE node of the
    same kind whose text is the old text plus a line feed and which reads as the same field -/
theorem terminateLastLine_sharp (cs : List DNode) :
    terminateLastLine cs = cs
    ∨ (∃ init κ t, cs = init ++ [.tok κ t] ∧ terminateLastLine cs = init ++ [.tok κ t, .tok .NEWLINE ['\n']])
    ∨ (∃ init κ kids kids', cs = init ++ [.node κ kids] ∧ terminateLastLine cs = init ++ [.node κ kids']
        ∧ textList kids' = textList kids ++ ['\n']
        ∧ childItem (.node κ kids') = childItem (.node κ kids)) := by
  rcases snoc_cases cs with rfl | ⟨init, last, rfl⟩
  · left
    rcases C04.C04_frame_terminator [] |>.2 with h | ⟨i, l, l', h, _⟩
    · exact h
    · simp at h
  · have hsplit : terminateLastLine (init ++ [last]) = init ++ [last]
        ∨ (∃ κ t, last = .tok κ t ∧ terminateLastLine (init ++ [last]) = init ++ [last] ++ [.tok .NEWLINE ['\n']])
        ∨ ((∀ κ t, last ≠ .tok κ t) ∧ terminateLastLine (init ++ [last]) = terminateLast (init ++ [last])) := by
      unfold terminateLastLine
      split
      · left; rfl
      · split
        · left; rfl
        · split
          · rename_i κ t hl
            right; left
            exact ⟨κ, t, by simpa using hl, rfl⟩
          · rename_i hl
            right; right
            refine ⟨fun κ t e => hl κ t (by simp [e]), rfl⟩
    rcases hsplit with h | ⟨κ, t, rfl, h⟩ | ⟨hnt, h⟩
    · left; exact h
    · right; left; exact ⟨init, κ, t, rfl, by simpa using h⟩
    · right; right
      cases last with
      | tok κ t => exact absurd rfl (hnt κ t)
      | node κ kids =>
        rw [terminateLast_snoc'] at h
        have htext := text_terminateLast_node (.node κ kids)
        simp only [terminatedLast'] at h htext
        refine ⟨init, κ, kids, _, rfl, h, by simpa using htext, ?_⟩
        have hp := pitems_terminate (init ++ [.node κ kids])
        rw [h, C04.pitems_append, C04.pitems_append] at hp
        have hp' := List.append_cancel_left hp
        simpa [C04.pitems_eq] using hp'

/-- what may happen to the list of foreign children: its last element gets its line terminated -/
def TermLast (A B : List DNode) : Prop :=
  ∃ init last last', A = init ++ [last] ∧ B = init ++ last'
    ∧ textList last' = last.text ++ ['\n'] ∧ pitems last' = pitems [last]
    ∧ ((∃ κ t, last = .tok κ t ∧ last' = [last, .tok .NEWLINE ['\n']])
       ∨ (∃ κ kids kids', last = .node κ kids ∧ last' = [.node κ kids']))

/-- `terminate_last_line` on the foreign children: unchanged, or the last of them terminated -/
theorem foreign_terminate (ks : List Str) (cs : List DNode) :
    foreignNodes ks (terminateLastLine cs) = foreignNodes ks cs
    ∨ TermLast (foreignNodes ks cs) (foreignNodes ks (terminateLastLine cs)) := by
  rcases terminateLastLine_sharp cs with h | ⟨init, κ, t, rfl, h⟩ | ⟨init, κ, kids, kids', rfl, h, htext, hitem⟩
  · left; rw [h]
  · right
    rw [h, show init ++ [Node.tok κ t, Node.tok Kind.NEWLINE ['\n']]
        = init ++ ([Node.tok κ t] ++ [Node.tok Kind.NEWLINE ['\n']]) from rfl]
    simp only [foreign_append, foreign_not_own ks _ (ownNode_tok ks κ t),
      foreign_not_own ks _ (ownNode_tok ks .NEWLINE ['\n'])]
    refine ⟨foreignNodes ks init, .tok κ t, [.tok κ t, .tok .NEWLINE ['\n']], rfl, rfl, by simp, ?_,
      Or.inl ⟨κ, t, rfl, rfl⟩⟩
    simp [C04.pitems_eq, childItem, Node.isNode]
  · rw [h]
    have hown := ownNode_congr ks _ _ hitem
    cases ho : ownNode ks (.node κ kids) with
    | true =>
      left
      simp only [foreign_append, foreign_own ks _ ho, foreign_own ks _ (hown.trans ho)]
    | false =>
      right
      simp only [foreign_append, foreign_not_own ks _ ho, foreign_not_own ks _ (hown.trans ho)]
      refine ⟨foreignNodes ks init, .node κ kids, [.node κ kids'], rfl, rfl, by simp [htext], ?_,
        Or.inr ⟨κ, kids, kids', rfl, rfl⟩⟩
      simp [C04.pitems_eq, hitem]

/-! ### a protected tail: once the paragraph ends with an owned entry whose key is not updated any
    more, the foreign children stay exactly as they are -/

theorem getLast?_mid {α} (pre : List α) (x : α) (post : List α) (h : post ≠ []) :
    (pre ++ x :: post).getLast? = post.getLast? := by
  rw [show pre ++ x :: post = (pre ++ [x]) ++ post by simp]
  rw [List.getLast?_append]
  cases hp : post.getLast? with
  | none => simp at hp; exact absurd hp h
  | some y => rfl

theorem update_protected (ks : List Str) (spec : List (FieldSpec V)) :
    ∀ (x : List (Option V)) (cs : List DNode) (k0 : Str) (e : DNode),
      (specKeys spec).Nodup → (∀ k ∈ specKeys spec, k ∈ ks) → k0 ∈ ks → k0 ∉ specKeys spec →
      cs.getLast? = some e → isEntryWithKey k0 e = true →
      foreignNodes ks (updateParagraph losslessKidsBackend spec x cs) = foreignNodes ks cs := by
  induction spec with
  | nil => intro x cs k0 e _ _ _ _ _ _; cases x <;> rfl
  | cons f fs ih =>
    intro x cs k0 e hn hks hk0 hk0n hlast he
    simp only [specKeys, List.map_cons, List.nodup_cons] at hn
    have hf : f.key ∈ ks := hks _ (by simp [specKeys])
    have hfs : ∀ k ∈ specKeys fs, k ∈ ks := fun k hk => hks k (by
      simp only [specKeys, List.map_cons, List.mem_cons]; right; exact hk)
    have hne : k0 ≠ f.key := fun h => hk0n (by simp [specKeys, h])
    have hk0fs : k0 ∉ specKeys fs := fun h => hk0n (by
      simp only [specKeys, List.map_cons, List.mem_cons]; right; exact h)
    have hef : isEntryWithKey f.key e = false := by
      cases h : isEntryWithKey f.key e with
      | false => rfl
      | true => exact absurd (isEntryWithKey_unique _ _ _ he h) hne
    obtain ⟨init, hcs⟩ : ∃ init, cs = init ++ [e] := by
      obtain ⟨i, hi⟩ := List.getLast?_eq_some_iff.mp hlast; exact ⟨i, hi⟩
    cases x with
    | nil => rfl
    | cons v vs =>
      cases v with
      | none =>
        simp only [updateParagraph]
        show foreignNodes ks (updateParagraph losslessKidsBackend fs vs (paraRemove cs f.key)) = _
        have hl : (paraRemove cs f.key).getLast? = some e := by
          rw [hcs]; unfold paraRemove
          rw [List.filter_append]; simp [hef]
        rw [ih vs _ k0 e hn.2 hfs hk0 hk0fs hl he, foreign_paraRemove ks _ hf]
      | some v =>
        simp only [updateParagraph]
        show foreignNodes ks (updateParagraph losslessKidsBackend fs vs (paraSet cs f.key (f.ser v))) = _
        rcases C04.C04_frame_set cs f.key (f.ser v) with ⟨pre, e', post, h1, _, h3, h4, _, _⟩ | ⟨hnone, h4⟩
        · -- replaced in place; the last child is not the replaced one
          have hpost : post ≠ [] := by
            intro hp; subst hp
            rw [h1, List.getLast?_concat] at hlast
            have : e' = e := by simpa using hlast
            subst this
            rw [h3] at hef; cases hef
          have hl : (paraSet cs f.key (f.ser v)).getLast? = some e := by
            rw [h4, getLast?_mid _ _ _ hpost, ← getLast?_mid pre e' post hpost, ← h1]; exact hlast
          rw [ih vs _ k0 e hn.2 hfs hk0 hk0fs hl he, h4, foreign_replace ks _ _ hf pre post e' h3, ← h1]
        · -- appended: the terminator can only touch the owned last child
          rw [h4]
          simp only [paraInsert]
          have hl : (terminateLastLine cs ++ [entryNew f.key (f.ser v)]).getLast? = some (entryNew f.key (f.ser v)) :=
            List.getLast?_concat ..
          rw [ih vs _ f.key _ hn.2 hfs hf hn.1 hl (isEntryWithKey_new _ _), foreign_snoc_new ks _ _ hf]
          have hoe : ownNode ks e = true := ownNode_of_key ks k0 hk0 e he
          rcases terminateLastLine_sharp cs with h | ⟨i, κ, t, hc, _⟩ | ⟨i, κ, kids, kids', hc, h, _, hitem⟩
          · rw [h]
          · rw [hcs] at hc
            have : e = .tok κ t := by
              have := congrArg List.getLast? hc; simpa using this
            rw [this, ownNode_tok] at hoe; cases hoe
          · rw [hcs] at hc
            have hee : e = .node κ kids := by
              have := congrArg List.getLast? hc; simpa using this
            have hii : init = i := by
              rw [hee] at hc; exact List.append_cancel_right hc
            rw [h, hcs, hee, ← hii]
            have ho' : ownNode ks (.node κ kids') = true := by
              rw [ownNode_congr ks _ _ hitem, ← hee]; exact hoe
            simp only [foreign_append, foreign_own ks _ ho', foreign_own ks _ (hee ▸ hoe)]

/-- the general step relation, for any list of keys containing the struct's -/
theorem update_foreign (ks : List Str) (spec : List (FieldSpec V)) :
    ∀ (x : List (Option V)) (cs : List DNode), (specKeys spec).Nodup → (∀ k ∈ specKeys spec, k ∈ ks) →
      foreignNodes ks (updateParagraph losslessKidsBackend spec x cs) = foreignNodes ks cs
      ∨ TermLast (foreignNodes ks cs) (foreignNodes ks (updateParagraph losslessKidsBackend spec x cs)) := by
  induction spec with
  | nil => intro x cs _ _; left; cases x <;> rfl
  | cons f fs ih =>
    intro x cs hn hks
    simp only [specKeys, List.map_cons, List.nodup_cons] at hn
    have hf : f.key ∈ ks := hks _ (by simp [specKeys])
    have hfs : ∀ k ∈ specKeys fs, k ∈ ks := fun k hk => hks k (by
      simp only [specKeys, List.map_cons, List.mem_cons]; right; exact hk)
    cases x with
    | nil => left; rfl
    | cons v vs =>
      cases v with
      | none =>
        simp only [updateParagraph]
        have := ih vs (paraRemove cs f.key) hn.2 hfs
        rw [foreign_paraRemove ks _ hf] at this
        exact this
      | some v =>
        simp only [updateParagraph]
        show foreignNodes ks (updateParagraph losslessKidsBackend fs vs (paraSet cs f.key (f.ser v))) = _
          ∨ TermLast _ (foreignNodes ks (updateParagraph losslessKidsBackend fs vs (paraSet cs f.key (f.ser v))))
        rcases C04.C04_frame_set cs f.key (f.ser v) with ⟨pre, e', post, h1, _, h3, h4, _, _⟩ | ⟨_, h4⟩
        · have := ih vs (paraSet cs f.key (f.ser v)) hn.2 hfs
          rw [h4, foreign_replace ks _ _ hf pre post e' h3, ← h1, ← h4] at this
          exact this
        · rw [h4]
          simp only [paraInsert]
          rw [update_protected ks fs vs _ f.key _ hn.2 hfs hf hn.1 (List.getLast?_concat ..)
            (isEntryWithKey_new _ _), foreign_snoc_new ks _ _ hf]
          exact foreign_terminate ks cs

/-- **comments and formatting of untouched fields are unchanged** (keys of the struct pairwise
    distinct; ANY prior child list `cs` of the PARAGRAPH node — parsed, built, edited, with comment
    tokens, duplicates, error nodes; ANY value list): after `update_paragraph` the children that are
    not entries of an owned key are THE SAME NODES IN THE SAME ORDER as before — or, when a new field
    had to be appended behind an unterminated last line that belongs to a foreign child, all of them
    but the last are, and the last one got its line terminated: a NEWLINE token after it (a comment or
    other token) or one node in its place with the old text plus `\n`, reading as the same field -/
theorem C16_lossless_update_keeps_foreign_nodes (spec : List (FieldSpec V)) (x : List (Option V))
    (cs : List DNode) (hn : (specKeys spec).Nodup) :
    foreignNodes (specKeys spec) (updateParagraph losslessKidsBackend spec x cs)
      = foreignNodes (specKeys spec) cs
    ∨ TermLast (foreignNodes (specKeys spec) cs)
        (foreignNodes (specKeys spec) (updateParagraph losslessKidsBackend spec x cs)) :=
  update_foreign (specKeys spec) spec x cs hn (fun _ h => h)

/-- the same through the paragraph handle (`losslessBackend`: the node) -/
theorem C16_lossless_update_keeps_foreign_nodes_node (spec : List (FieldSpec V)) (x : List (Option V))
    (cs : List DNode) (hn : (specKeys spec).Nodup) :
    foreignNodes (specKeys spec) (updateParagraph losslessBackend spec x (.node .PARAGRAPH cs)).children
      = foreignNodes (specKeys spec) cs
    ∨ TermLast (foreignNodes (specKeys spec) cs)
        (foreignNodes (specKeys spec) (updateParagraph losslessBackend spec x (.node .PARAGRAPH cs)).children) := by
  rw [lossless_update_kids]; exact C16_lossless_update_keeps_foreign_nodes spec x cs hn

/-- **text corollary**: the printed text of the comments and foreign fields — every line of the
    paragraph that does not belong to an owned field, with its blanks, tabs and indentation — is
    printed unchanged, up to one `\n` at its very end -/
theorem C16_lossless_update_foreign_text (spec : List (FieldSpec V)) (x : List (Option V))
    (cs : List DNode) (hn : (specKeys spec).Nodup) :
    textList (foreignNodes (specKeys spec) (updateParagraph losslessKidsBackend spec x cs))
      = textList (foreignNodes (specKeys spec) cs)
    ∨ textList (foreignNodes (specKeys spec) (updateParagraph losslessKidsBackend spec x cs))
      = textList (foreignNodes (specKeys spec) cs) ++ ['\n'] := by
  rcases C16_lossless_update_keeps_foreign_nodes spec x cs hn with h | ⟨init, last, last', h1, h2, h3, _, _⟩
  · left; rw [h]
  · right; rw [h1, h2]; simp [h3]

/-- what the foreign children read as is unchanged in both cases (this is
    `C16_lossless_update_keeps_foreign_items`, recovered from the node statement) -/
theorem C16_lossless_update_foreign_pitems (spec : List (FieldSpec V)) (x : List (Option V))
    (cs : List DNode) (hn : (specKeys spec).Nodup) :
    pitems (foreignNodes (specKeys spec) (updateParagraph losslessKidsBackend spec x cs))
      = pitems (foreignNodes (specKeys spec) cs) := by
  rcases C16_lossless_update_keeps_foreign_nodes spec x cs hn with h | ⟨init, last, last', h1, h2, _, h4, _⟩
  · rw [h]
  · rw [h1, h2, C04.pitems_append, C04.pitems_append, h4]

/-- when every present field is already in the paragraph nothing is appended, no terminator is
    supplied, and the foreign children are exactly the same nodes -/
theorem C16_lossless_update_no_new_exact (spec : List (FieldSpec V)) :
    ∀ (x : List (Option V)) (cs : List DNode), (specKeys spec).Nodup →
      (∀ k ∈ presentKeys spec x, ∃ c ∈ cs, isEntryWithKey k c = true) →
      foreignNodes (specKeys spec) (updateParagraph losslessKidsBackend spec x cs)
        = foreignNodes (specKeys spec) cs := by
  suffices h : ∀ ks, ∀ (x : List (Option V)) (cs : List DNode), (specKeys spec).Nodup →
      (∀ k ∈ specKeys spec, k ∈ ks) → (∀ k ∈ presentKeys spec x, ∃ c ∈ cs, isEntryWithKey k c = true) →
      foreignNodes ks (updateParagraph losslessKidsBackend spec x cs) = foreignNodes ks cs from
    fun x cs hn hp => h _ x cs hn (fun _ h => h) hp
  intro ks
  induction spec with
  | nil => intro x cs _ _ _; cases x <;> rfl
  | cons f fs ih =>
    intro x cs hn hks hp
    simp only [specKeys, List.map_cons, List.nodup_cons] at hn
    have hf : f.key ∈ ks := hks _ (by simp [specKeys])
    have hfs : ∀ k ∈ specKeys fs, k ∈ ks := fun k hk => hks k (by
      simp only [specKeys, List.map_cons, List.mem_cons]; right; exact hk)
    cases x with
    | nil => rfl
    | cons v vs =>
      cases v with
      | none =>
        simp only [updateParagraph, presentKeys] at hp ⊢
        show foreignNodes ks (updateParagraph losslessKidsBackend fs vs (paraRemove cs f.key)) = _
        rw [ih vs _ hn.2 hfs, foreign_paraRemove ks _ hf]
        intro k hk
        obtain ⟨c, hc, hck⟩ := hp k hk
        refine ⟨c, ?_, hck⟩
        unfold paraRemove
        rw [List.mem_filter]
        refine ⟨hc, ?_⟩
        cases h : isEntryWithKey f.key c with
        | false => rfl
        | true =>
          have := isEntryWithKey_unique _ _ _ hck h
          exact absurd (this ▸ presentKeys_sub fs vs k hk) hn.1
      | some v =>
        simp only [updateParagraph, presentKeys] at hp ⊢
        show foreignNodes ks (updateParagraph losslessKidsBackend fs vs (paraSet cs f.key (f.ser v))) = _
        rcases C04.C04_frame_set cs f.key (f.ser v) with ⟨pre, e', post, h1, _, h3, h4, _, _⟩ | ⟨hnone, _⟩
        · rw [ih vs _ hn.2 hfs, h4, foreign_replace ks _ _ hf pre post e' h3, ← h1]
          intro k hk
          obtain ⟨c, hc, hck⟩ := hp k (by simp [hk])
          refine ⟨c, ?_, hck⟩
          rw [h4]
          rw [h1] at hc
          simp only [List.mem_append, List.mem_cons] at hc ⊢
          rcases hc with hc | rfl | hc
          · left; exact hc
          · have := isEntryWithKey_unique _ _ _ hck h3
            exact absurd (this ▸ presentKeys_sub fs vs k hk) hn.1
          · right; right; exact hc
        · obtain ⟨c, hc, hck⟩ := hp f.key (by simp)
          rw [hnone c hc] at hck; cases hck

/-! ### non-vacuity of Part 5: a prior paragraph in non-canonical layout

  `X:1` (no blank after the colon), a comment, `Size:   2` (three blanks), a comment between two
  duplicates of the owned key `Size`, `Y:⇥ 2` with continuation lines indented by a tab and by three
  blanks, `Name:  n` (owned, two blanks), a trailing comment WITHOUT a final line feed. The struct
  `exSpec3` owns `Name`, `Size` (optional) and `New`. -/

def oddPrior : Str :=
  "X:1\n# mid\nSize:   2\n# between\nSize: 9\nY:\t 2\n\t cont\n   more\nName:  n\n# trail".toList

def oddCs : List DNode :=
  match paragraphFromStr oddPrior with
  | .ok p => p.children
  | .error _ => []

example : textList oddCs = oddPrior := by decide +kernel
example : pitems oddCs = [(c!"X", c!"1"), (c!"Size", c!"2"), (c!"Size", c!"9"),
    (c!"Y", "2\ncont\nmore".toList), (c!"Name", c!"n")] := by decide +kernel

/-- the foreign children: `X`, the comments, `Y` with its three lines — byte for byte -/
example : textList (foreignNodes (specKeys exSpec3) oddCs)
    = "X:1\n# mid\n# between\nY:\t 2\n\t cont\n   more\n# trail".toList := by decide +kernel

/-- `Size` absent, `New` new: both `Size` entries go (the comment between them stays), `Name` is
    rewritten in place (owned: its two blanks are normalised), the trailing comment gets its line
    feed, `New` is appended over two lines; every foreign line is printed as before -/
example : textList (updateParagraph losslessKidsBackend exSpec3 [some (c!"n"), none, some "v\nw".toList] oddCs)
    = "X:1\n# mid\n# between\nY:\t 2\n\t cont\n   more\nName: n\n# trail\nNew: v\n w\n".toList := by
  decide +kernel
example : textList (foreignNodes (specKeys exSpec3)
      (updateParagraph losslessKidsBackend exSpec3 [some (c!"n"), none, some "v\nw".toList] oddCs))
    = "X:1\n# mid\n# between\nY:\t 2\n\t cont\n   more\n# trail\n".toList := by decide +kernel
/-- here the second case of the theorem applies (the trailing comment token gets a NEWLINE token
    behind it); with every present field already in the paragraph
    (`C16_lossless_update_no_new_exact`) the very same nodes stay -/
example : TermLast (foreignNodes (specKeys exSpec3) oddCs) (foreignNodes (specKeys exSpec3)
      (updateParagraph losslessKidsBackend exSpec3 [some (c!"n"), none, some "v\nw".toList] oddCs)) := by
  rcases C16_lossless_update_keeps_foreign_nodes exSpec3 [some (c!"n"), none, some "v\nw".toList] oddCs
    (by decide) with h | h
  · exfalso
    have := congrArg textList h
    revert this
    decide +kernel
  · exact h
example : (∀ k ∈ presentKeys exSpec3 [some (c!"m"), some (c!"3")], ∃ c ∈ oddCs, isEntryWithKey k c = true)
    ∧ textList (updateParagraph losslessKidsBackend exSpec3 [some (c!"m"), some (c!"3")] oddCs)
      = "X:1\n# mid\nSize: 3\n# between\nSize: 9\nY:\t 2\n\t cont\n   more\nName: m\n# trail".toList := by
  decide +kernel

/-! ## Part 6 — what the driver executes; the macro's front end in the table -/

/-- the back-end the driver runs for `lossless` requests (`Model/DeriveTree.lean`) is the back-end of
    the lossless theorems -/
theorem C16_driver_backend : Derive.treeBackend = losslessBackend := rfl

/-- **the front end of the macro, as translated** (synthetic struct `SynFront` of harness/src/derive.rs,
    compiled by the real macro and driven on every run): a raw identifier keeps its `r#` prefix in the
    default key (`Ident::to_string`; audit D1 — the field `r#type` is read from and written to the key
    `r#type`, not `type`); `std::option::Option<T>` and `::std::option::Option<T>` are optional fields
    (`is_option`: last path segment); of several `#[deb822(…)]` attributes on one field a later `field`
    overrides an earlier one while `serialize_with` / `deserialize_with` from different attributes are
    merged; of two `field` items inside one attribute the second wins -/
theorem C16_front_end_row :
    (rowNamed (c!"derive.SynFront")).map (·.fields)
      = some [⟨c!"r#type", c!"r#type", false, c!"", c!"", c!"String"⟩,
              ⟨c!"r#match", c!"r#match", true, c!"", c!"", c!"String"⟩,
              ⟨c!"path_opt", c!"path_opt", true, c!"", c!"", c!"u32"⟩,
              ⟨c!"abs_opt", c!"abs_opt", true, c!"", c!"", c!"String"⟩,
              ⟨c!"merged", c!"Second", false, c!"derive.syn_ser_yesno", c!"derive.syn_de_yesno", c!"bool"⟩,
              ⟨c!"twice", c!"Twice-B", true, c!"", c!"", c!"String"⟩] := by
  decide +kernel

/-- the consequence for a paragraph that spells the field `type`: `missing field: r#type` -/
example : ((rowNamed (c!"derive.SynFront")).bind specOfRow).map (fun spec =>
      (fromFields (lookupFirst [(c!"type", c!"t"), (c!"Second", c!"yes")]) spec,
       (fromFields (lookupFirst [(c!"r#type", c!"t"), (c!"Second", c!"yes")]) spec).toBool))
    = some (.error (c!"missing field: r#type"), true) := by
  decide +kernel

end Deb822Verif.Props.C16More
